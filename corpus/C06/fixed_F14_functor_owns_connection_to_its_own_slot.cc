// F14 (fixed in 076d91d): a slot variable whose functor owns the only sigc::connection made from that very slot
// variable.  When the slot variable loses that functor through an assignment, the old slot_rep is deleted while the
// slot already refers to the new one (since the F10/F12 repairs), so the dying connection could no longer deregister
// from the old slot_rep and ~trackable notified the freed connection (heap-use-after-free in
// weak_raw_ptr<slot_base>::notify_object_invalidated).  argv[1]: 0 = assign an empty slot, 1 = copy-assign another
// slot, 2 = move-assign another slot, 3 = disconnect(), 4 = destroy the slot variable, 5 = the same with two slot
// variables holding copies of the owning functor.
// Stand-alone replay: built against the current tree under ASan+UBSan by the checks of C06 (rt.fixed_cc_replays).
#include <sigc++/sigc++.h>
#include <cstdio>
#include <cstdlib>
#include <memory>

struct Owner
{
  std::shared_ptr<sigc::connection> c;
  void operator()() const {}
};

int main(int argc, char** argv)
{
  const int mode = argc > 1 ? std::atoi(argv[1]) : 0;
  {
    sigc::slot<void()> s;
    Owner o;
    o.c = std::make_shared<sigc::connection>();
    s = o;                      // the functor copy inside s shares the connection object
    *o.c = sigc::connection(s); // the connection refers to the slot variable s
    sigc::slot<void()> s2;
    if (mode == 5)
      s2 = s;                   // a second copy of the owning functor in another slot variable
    o.c.reset();                // now only functor copies inside slots own the connection
    sigc::slot<void()> t = []() {};
    switch (mode)
    {
      case 0: s = sigc::slot<void()>(); break; // delete_rep_with_check()
      case 1: s = t; break;                    // exchange of the slot_rep, copy
      case 2: s = std::move(t); break;         // exchange of the slot_rep, move
      case 3: s.disconnect(); break;
      case 5: s2 = t; s = sigc::slot<void()>(); break;
      default: break;
    }
    s();
  }
  std::puts("ok");
  return 0;
}
