// expect: reject
// std::optional<long> -> bool is explicit only (and there is no conversion to long at all)
#include "types_prelude.h"
#include <optional>
std::optional<long> find(int);
void t()
{
  sigc::slot<bool(int)> s = &find;
}
