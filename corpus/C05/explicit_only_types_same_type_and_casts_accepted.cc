// expect: accept
// positive controls of the explicit_only_* files: the same result type is accepted on every route; conversions that
// *are* implicit are accepted (unscoped enumeration -> int, non-explicit operator bool, narrowing); the adaptors whose
// purpose is an explicit conversion perform it (retype_return<T> on the result, retype on the arguments).
#include "types_prelude.h"
enum class Level { low = 3, high = 7 };
enum Plain { p0, p1 };
struct Handle
{
  explicit operator bool() const { return true; }
};
struct Flag
{
  operator bool() const { return true; }
};
struct Last
{
  using result_type = Level;
  template<typename It>
  Level operator()(It first, It last) const
  {
    Level r = Level::low;
    for (; first != last; ++first)
      r = *first;
    return r;
  }
};
Level get_level();
Handle get_handle();
Plain get_plain();
Flag get_flag();
double get_double();
void take_int(int);
void take_level(Level);
struct Obj : sigc::trackable
{
  Level level() const;
};
void t()
{
  Obj o;
  sigc::slot<Level()> a = sigc::ptr_fun(&get_level);
  sigc::slot<Handle()> b = &get_handle;
  sigc::signal<Level()> sl;
  sl.connect(&get_level);
  sl.connect(sigc::mem_fun(o, &Obj::level));
  sigc::signal<Level()>::accumulated<Last> sa;
  sa.connect(&get_level);
  sigc::signal<Handle()>::accumulated<tp::Acc> sh;
  sh.connect(&get_handle);
  sigc::slot<int()> c = &get_plain;               // unscoped enumeration: integral promotion
  sigc::slot<bool()> d = &get_flag;               // non-explicit conversion function
  sigc::slot<int()> e = &get_double;              // narrowing is a standard conversion
  sigc::signal<unsigned()>::accumulated<tp::Acc> su;
  su.connect(&get_double);
  sigc::slot<int()> f = sigc::retype_return<int>(&get_level);     // T_return(f()) : an explicit conversion on purpose
  sigc::slot<bool()> g = sigc::retype_return<bool>(&get_handle);
  sigc::slot<void(Level)> h = sigc::retype(sigc::ptr_fun(&take_int));   // static_cast<int>(Level)
  sigc::slot<void(int)> i = sigc::retype(sigc::ptr_fun(&take_level));   // static_cast<Level>(int)
  sigc::slot<void(Level)> j = &take_level;
  (void)a; (void)b; (void)c; (void)d; (void)e; (void)f; (void)g; (void)h; (void)i; (void)j;
}
