// expect: reject
#include "types_prelude.h"
enum class Level { low = 3, high = 7 };
struct Obj : sigc::trackable
{
  Level level() const;
};
void t()
{
  Obj o;
  sigc::signal<long()> sig;
  sig.connect(sigc::mem_fun(o, &Obj::level));
}
