// expect: reject
// a scoped enumeration converts to int only explicitly (static_cast); `call_it` returns with a plain `return`
#include "types_prelude.h"
enum class Level { low = 3, high = 7 };
Level get_level();
void t()
{
  sigc::slot<int()> s = sigc::ptr_fun(&get_level);
}
