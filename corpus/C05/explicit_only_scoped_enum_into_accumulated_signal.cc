// expect: reject
// accumulated signal: the slots' result type is unsigned, the functor returns a scoped enumeration
#include "types_prelude.h"
enum class Level { low = 3, high = 7 };
struct Sum
{
  using result_type = unsigned;
  template<typename It>
  unsigned operator()(It first, It last) const
  {
    unsigned r = 0;
    for (; first != last; ++first)
      r += *first;
    return r;
  }
};
Level get_level();
void t()
{
  sigc::signal<unsigned()>::accumulated<Sum> sig;
  sig.connect(&get_level);
}
