// expect: accept
// the other direction is fine: a method inherited from a base class, bound to an object of the derived class (all four
// cv variants)
#include "types_prelude.h"
namespace
{
struct NBase
{
  void m(int) {}
  void mc(int) const {}
  void mv(int) volatile {}
  void mcv(int) const volatile {}
};
struct NDerived : NBase, sigc::trackable
{
};
}
void t()
{
  NDerived d;
  sigc::slot<void(int)> s1 = sigc::mem_fun(d, &NDerived::m);
  sigc::slot<void(int)> s2 = sigc::mem_fun(d, &NBase::mc);
  sigc::slot<void(int)> s3 = sigc::mem_fun(d, &NBase::mv);
  sigc::slot<void(int)> s4 = sigc::mem_fun(d, &NBase::mcv);
  const NDerived cd;
  sigc::slot<void(int)> s5 = sigc::mem_fun(cd, &NBase::mc);
}
