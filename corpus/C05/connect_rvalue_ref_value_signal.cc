// expect: accept
#include "types_prelude.h"
int g(int&&);
void h(int&&);
void t()
{
  sigc::signal<int(int&&)> sg;
  sg.connect(&g);
  sigc::slot<int(int&&)> s = &g;
  (void)s(1);
  sigc::signal<void(int&&)> sv;
  sv.connect(&h);
  sv.emit(1);
}
