// expect: reject
#include "types_prelude.h"
void t()
{
  sigc::slot<void(int&)> a;
  sigc::slot<void(int)> b = a;                  // would bind int& to the const lvalue the library passes
}
