// expect: reject
// through one adaptor hop: bind; Metres -> double is explicit only
#include "types_prelude.h"
struct Metres
{
  double v;
  explicit operator double() const { return v; }
};
struct Obj : sigc::trackable
{
  Metres length(int);
};
void t()
{
  Obj o;
  sigc::slot<double()> s = sigc::bind(sigc::mem_fun(o, &Obj::length), 3);
}
