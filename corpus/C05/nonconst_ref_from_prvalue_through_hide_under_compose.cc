// expect: reject
// a non-const reference parameter must not bind to a value the library materialises: hide() is called with the
// prvalues returned by compose()'s getters, so f(int&) would receive a temporary stored in hide's argument tuple
#include "types_prelude.h"
void f_ref(int&);
int getter();
void t()
{
  sigc::slot<void()> s = sigc::compose(sigc::hide(&f_ref), &getter, &getter);
}
