// expect: reject
// std::unique_ptr -> bool is explicit only
#include "types_prelude.h"
#include <memory>
void t()
{
  sigc::slot<bool()> s = [] { return std::make_unique<int>(1); };
}
