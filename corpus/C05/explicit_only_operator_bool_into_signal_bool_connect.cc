// expect: reject
#include "types_prelude.h"
struct Handle
{
  explicit operator bool() const { return true; }
};
Handle get_handle();
void t()
{
  sigc::signal<bool()> sig;
  sig.connect(&get_handle);
}
