// expect: reject
// a function *name* (function type, not a pointer) cannot be stored: T_functor = long(long) is not an object type
#include "types_prelude.h"
long rf(long);
void t()
{
  sigc::slot<long(long)> s = rf;
}
