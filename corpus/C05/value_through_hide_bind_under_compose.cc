// expect: accept
// positive control of the two files above: by-value / const-reference parameters accept the materialised values
#include "types_prelude.h"
void f_val(int);
void f_cref_int(const int&, int);
int getter();
void t()
{
  sigc::slot<void()> a = sigc::compose(sigc::hide(&f_val), &getter, &getter);
  sigc::slot<void()> b = sigc::compose(sigc::bind(&f_cref_int, 5), &getter);
  a();
  b();
}
