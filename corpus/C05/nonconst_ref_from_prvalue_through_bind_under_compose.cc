// expect: reject
// same for bind(): the unbound argument arrives as the prvalue returned by compose()'s getter
#include "types_prelude.h"
void f_ref_int(int&, int);
int getter();
void t()
{
  sigc::slot<void()> s = sigc::compose(sigc::bind(&f_ref_int, 5), &getter);
}
