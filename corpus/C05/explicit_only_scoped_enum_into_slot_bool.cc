// expect: reject
#include "types_prelude.h"
enum class Level { low = 3, high = 7 };
Level get_level();
void t()
{
  sigc::slot<bool()> s = &get_level;
}
