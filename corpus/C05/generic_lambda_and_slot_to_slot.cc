// expect: accept
// outside the grammar of the generator: a generic lambda, a std::function, a slot of another (convertible) signature
#include "types_prelude.h"
#include <functional>
void t()
{
  sigc::slot<void(int)> a = [](auto) {};
  sigc::slot<void(long)> b = a;                 // slot<void(int)> is itself a functor callable with a long
  std::function<long(const long&)> f;
  sigc::slot<int(int)> c = f;
  sigc::signal<void(int)> sg;
  sg.connect(a);
  sg.connect(b);
}
