// expect: reject
// compose(setter, getter): the slot returns the setter's result, a scoped enumeration, as int
#include "types_prelude.h"
tp::E classify(double);
double getter();
void t()
{
  sigc::slot<int()> s = sigc::compose(&classify, &getter);
}
