// expect: reject
// explicit operator bool is not an implicit conversion: `bool b = Handle();` is ill-formed, so is returning it as bool
#include "types_prelude.h"
struct Handle
{
  explicit operator bool() const { return true; }
};
Handle get_handle();
void t()
{
  sigc::slot<bool()> s = &get_handle;
}
