// expect: reject
#include "types_prelude.h"
enum class Level { low = 3, high = 7 };
void t()
{
  sigc::signal<int()> sig;
  sig.connect([] { return Level::high; });
}
