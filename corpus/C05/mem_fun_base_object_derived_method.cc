// expect: reject
// a bound mem_fun needs an object of (a class derived from) the class the method belongs to: an object that is only
// a Base cannot run a method of Derived (an inverse, static_cast-only conversion of the member pointer)
#include "types_prelude.h"
namespace
{
struct MBase : sigc::trackable
{
  void base_method(int) {}
};
struct MDerived : MBase
{
  void derived_method(int) {}
  int extra = 0;
};
}
void t()
{
  MBase b;
  sigc::slot<void(int)> s = sigc::mem_fun(b, &MDerived::derived_method);
}
