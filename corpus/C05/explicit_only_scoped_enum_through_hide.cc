// expect: reject
#include "types_prelude.h"
tp::E get_level();
void t()
{
  sigc::signal<int(long)> sig;
  sig.connect(sigc::hide(&get_level));
}
