// expect: reject
// Observation pinned while building the check (not a C05 violation: connect() compiles, see the next file):
// signal<int(int&&)>::emit passes its named parameter `a` (an lvalue) to the erased call whose parameter is `int&&`.
#include "types_prelude.h"
int g(int&&);
void t()
{
  sigc::signal<int(int&&)> sg;
  sg.connect(&g);
  sg.emit(1);
}
