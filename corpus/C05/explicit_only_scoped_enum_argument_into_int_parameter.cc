// expect: reject
// the same at a parameter position: a scoped enumeration argument does not convert to an int parameter
#include "types_prelude.h"
enum class Level { low = 3, high = 7 };
void take_int(int);
void t()
{
  sigc::signal<void(Level)> sig;
  sig.connect(&take_int);
}
