#include <sigc++/sigc++.h>
#include <cstdio>
struct Obj : sigc::trackable { int die(){ delete this; return 1; } void vdie(){ delete this; } };
int main(int argc, char** argv){
  int which = argc>1 ? atoi(argv[1]) : 0;
  if(which==0){ // plain mem_fun: the classic case covered by test_disconnect
    sigc::signal<int()> sig; auto o=new Obj; sig.connect(sigc::mem_fun(*o,&Obj::die)); std::printf("plain: %d size=%zu\n", sig.emit(), sig.size()); }
  if(which==1){ // bind_return reads its bound value after the call
    sigc::signal<int()> sig; auto o=new Obj; sig.connect(sigc::bind_return(sigc::mem_fun(*o,&Obj::vdie), 5)); std::printf("bind_return: %d size=%zu\n", sig.emit(), sig.size()); }
  if(which==2){ // compose: setter invoked after getter
    sigc::signal<int()> sig; auto o=new Obj; sig.connect(sigc::compose([](int x){return x+1;}, sigc::mem_fun(*o,&Obj::die))); std::printf("compose: %d size=%zu\n", sig.emit(), sig.size()); }
  if(which==3){ // same through a directly invoked slot
    auto o=new Obj; sigc::slot<int()> s = sigc::bind_return(sigc::mem_fun(*o,&Obj::vdie), 5); std::printf("slot bind_return: %d empty=%d\n", s(), s.empty()); }
}
