import Sigc.Basic
import Sigc.Trk
import Sigc.Adapt
import Sigc.Visit
import Sigc.Types
