import Sigc.Run
import Sigc.Spec
import Sigc.Lemmas.SpecKClear
import Sigc.Trk
import Sigc.Adapt
import Sigc.Visit
import Sigc.Types
import Sigc.SlotG
import Sigc.SweepL

/-!
  `sigc_model <mode>` — line-protocol driver of the Lean models.
  Pure modes: every stdin line is one case, answered by exactly one stdout line.
-/

partial def mapLines (h : IO.FS.Stream) (f : String → String) : IO Unit := do
  let line ← h.getLine
  if line.isEmpty then return ()
  let l := line.trimAscii.toString
  if l.isEmpty || l.startsWith "#" then
    mapLines h f
  else
    IO.println (f l)
    mapLines h f

partial def readAll (h : IO.FS.Stream) (acc : Array String) : IO (Array String) := do
  let line ← h.getLine
  if line.isEmpty then return acc
  readAll h (acc.push (line.trimAscii.toString))

/-- `run` mode: stdin holds one or more programs separated by `=== <name>` lines; for each the model's
    trace is printed after a line `=== <name>` -/
def runPrograms (h : IO.FS.Stream) (run : List String → List String) : IO Unit := do
  let lines ← readAll h #[]
  let mut cur : List String := []
  let mut name : Option String := none
  let mut started := false
  let flush (name : Option String) (cur : List String) : IO Unit := do
    match name with
    | some n => IO.println n
    | none => pure ()
    for l in run cur.reverse do
      IO.println l
  for l in lines do
    if l.startsWith "===" then
      if started then flush name cur
      cur := []
      name := some l
      started := true
    else
      if !started && !l.isEmpty then started := true
      cur := l :: cur
  if started then flush name cur

def main (args : List String) : IO UInt32 := do
  let stdin ← IO.getStdin
  match args with
  | ["trk"]   => mapLines stdin Sigc.Trk.processLine; return 0
  | ["adapt"] => mapLines stdin Sigc.Adapt.processLine; return 0
  | ["visit"] => mapLines stdin Sigc.Visit.processLine; return 0
  | ["types"] => mapLines stdin Sigc.Types.processLine; return 0
  | ["run"]   => runPrograms stdin Sigc.Model.runProgram; return 0
  | ["slotg"] => runPrograms stdin Sigc.SlotG.runProgram; return 0
  | ["sweepl"] => runPrograms stdin Sigc.SweepL.runProgram; return 0
  | ["spec"]  => runPrograms stdin (Sigc.Spec.runProgram false false); return 0
  | ["clear"] =>
    -- per program: is the run clear of the known findings K1/K2 (hypothesis `SpecK.clearTop` of the end-to-end
    -- theorem `SpecK.model_refines_pure_spec`)?
    runPrograms stdin (fun lines =>
      let P := Sigc.Model.parseProg lines
      [toString (Sigc.SpecK.clearTop Sigc.Model.defaultFuel P { k1 := true, k2 := true } P.top)])
    return 0
  | ["spec-known"] => runPrograms stdin (Sigc.Spec.runProgram true true); return 0
  | ["spec-k1"] => runPrograms stdin (Sigc.Spec.runProgram true false); return 0
  | ["spec-k2"] => runPrograms stdin (Sigc.Spec.runProgram false true); return 0
  | _ =>
    IO.eprintln "usage: sigc_model trk|adapt|visit|types|run|spec|slotg|sweepl  < cases"
    return 2
