import Sigc

/-!
  `sigc_model <mode>` — line-protocol driver of the Lean models.
  Pure modes: every stdin line is one case, answered by exactly one stdout line.
-/

partial def mapLines (h : IO.FS.Stream) (f : String → String) : IO Unit := do
  let line ← h.getLine
  if line.isEmpty then return ()
  let l := line.trimAscii.toString
  if l.isEmpty || l.startsWith "#" then
    mapLines h f
  else
    IO.println (f l)
    mapLines h f

def main (args : List String) : IO UInt32 := do
  let stdin ← IO.getStdin
  match args with
  | ["trk"]   => mapLines stdin Sigc.Trk.processLine; return 0
  | ["adapt"] => mapLines stdin Sigc.Adapt.processLine; return 0
  | ["visit"] => mapLines stdin Sigc.Visit.processLine; return 0
  | ["types"] => mapLines stdin Sigc.Types.processLine; return 0
  | _ =>
    IO.eprintln "usage: sigc_model trk|adapt|visit|types|run  < cases"
    return 2
