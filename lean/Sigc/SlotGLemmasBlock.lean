import Sigc.SlotG
/-!
  Blocking theorems (C12 / C15 flavour) for the `SlotG` model, for *all* states (no reachability hypothesis).

  Step 0: frame lemmas — a cascade never *modifies* a slot-variable entry, it only erases entries.
-/
namespace Sigc.SlotG

/-! ### Step 0 — frame lemmas

  Generic helpers live in the sub-namespace `Blk` (to keep clear of sibling lemma files); the theorems asked
  for by name are stated in `Sigc.SlotG` right after it. -/

namespace Blk

/-- every slot-variable entry of `s'` is an unmodified entry of `s` -/
def SlotsMono (s' s : State) : Prop := ∀ v V', s'.slots v = some V' → s.slots v = some V'

theorem SlotsMono.refl (s : State) : SlotsMono s s := fun _ _ h => h
theorem SlotsMono.of_eq {s' s : State} (h : s'.slots = s.slots) : SlotsMono s' s :=
  fun v V' h' => by rw [← h]; exact h'
theorem SlotsMono.trans {a b c : State} (h1 : SlotsMono a b) (h2 : SlotsMono b c) : SlotsMono a c :=
  fun v V' h => h2 v V' (h1 v V' h)
theorem SlotsMono.erase {a b : State} (h : SlotsMono a b) (x : Nat) : SlotsMono (a.setSlot x none) b := by
  intro v V' hv
  simp only [State.setSlot] at hv
  split at hv
  · cases hv
  · exact h v V' hv

@[simp] theorem setRep_slots (s : State) (r o) : (s.setRep r o).slots = s.slots := rfl
@[simp] theorem setTrk_slots (s : State) (r o) : (s.setTrk r o).slots = s.slots := rfl
@[simp] theorem setConn_slots (s : State) (r o) : (s.setConn r o).slots = s.slots := rfl
@[simp] theorem modRep_slots (s : State) (r g) : (s.modRep r g).slots = s.slots := by
  unfold State.modRep; split <;> rfl
@[simp] theorem trkAdd_slots (t r s) : (trkAdd t r s).slots = s.slots := by
  unfold trkAdd; split
  · rfl
  · split <;> rfl
@[simp] theorem trkRemove_slots (t r s) : (trkRemove t r s).slots = s.slots := by
  unfold trkRemove; split <;> rfl
@[simp] theorem setParentIfNone_slots (v r s) : (setParentIfNone v r s).slots = s.slots := by
  unfold setParentIfNone; split <;> simp
@[simp] theorem unsetParentIf_slots (v r s) : (unsetParentIf v r s).slots = s.slots := by
  unfold unsetParentIf; split <;> simp
@[simp] theorem bindFun_slots (r f s) : (bindFun r f s).slots = s.slots := by
  unfold bindFun; split <;> simp
@[simp] theorem unbindFun_slots (r f s) : (unbindFun r f s).slots = s.slots := by
  unfold unbindFun; split <;> simp
@[simp] theorem allocRep_slots (R s) : (allocRep R s).slots = s.slots := rfl
@[simp] theorem allocRep_nextRep (R s) : (allocRep R s).nextRep = s.nextRep + 1 := rfl
@[simp] theorem bindFunX_slots (e r f s) : (bindFunX e r f s).slots = s.slots := by
  unfold bindFunX; split <;> simp
@[simp] theorem nestFinish_slots (n fid dd j s) : (nestFinish n fid dd j s).slots = s.slots := by
  unfold nestFinish; simp

theorem ite_slots (c : Prop) [Decidable c] (A B : State) (w : Nat) (o : Option SVar)
    (hA : A.slots w = o) (hB : B.slots w = o) : (if c then A else B).slots w = o := by
  split <;> assumption

/-- a clone leaves the program's variables alone (it creates anonymous ones for slots bound by value) -/
theorem cloneRepD_slots (e : Bool) : ∀ (d r : Nat) (s : State) (w : Nat), w < anonBase →
    (cloneRepD e d r s).slots w = s.slots w := by
  intro d
  induction d with
  | zero =>
    intro r s w _
    rw [cloneRepD]
    split
    · rfl
    · split
      · rfl
      · rfl
      · simp
  | succ d' ih =>
    intro r s w hw
    rw [cloneRepD]
    split
    · rfl
    · split
      · rfl
      · have hne : w ≠ anonBase + s.nextRep := by omega
        simp only [nestFinish_slots]
        split
        · simp [State.setSlot, hne]
        · split
          · simp [State.setSlot, hne]
          · apply ite_slots
            · simp [State.setSlot, hne]
            · simp only [State.setSlot, hne, if_false]
              rw [ih _ _ w hw]; rfl
      · simp

theorem cloneRep_slots (r : Nat) (s : State) (w : Nat) (hw : w < anonBase) :
    (cloneRep r s).slots w = s.slots w := cloneRepD_slots _ _ r s w hw

theorem newRep_slots (f : Fun) (s : State) (w : Nat) (hw : w < anonBase) :
    (newRep f s).slots w = s.slots w := by
  unfold newRep
  split
  · have hne : w ≠ anonBase + s.nextRep := by omega
    simp only []
    split
    · simp [State.setSlot, hne]
    · split
      · simp [State.setSlot, hne]
      · apply ite_slots
        · simp [State.setSlot, hne]
        · simp only [nestFinish_slots, State.setSlot, hne, if_false]
          rw [cloneRepD_slots _ _ _ _ w hw]; rfl
  · simp
@[simp] theorem nullConns_slots (cs s) : (nullConns cs s).slots = s.slots := rfl
@[simp] theorem weakNotify_slots (r s) : (weakNotify r s).slots = s.slots := by
  unfold weakNotify; split <;> simp

@[simp] theorem slotRemCb_slots (v c s) : (slotRemCb v c s).slots = s.slots := by
  unfold slotRemCb; split <;> simp
@[simp] theorem killConn_slots (c s) : (killConn c s).slots = s.slots := by
  unfold killConn; split <;> simp

theorem destroyRep_mono : ∀ k r s, SlotsMono (destroyRep k r s) s := by
  intro k
  induction k with
  | zero => intro r s; exact SlotsMono.refl _
  | succ k ih =>
    intro r s
    unfold destroyRep
    split
    · exact SlotsMono.refl _
    · split
      · exact SlotsMono.of_eq (by simp)
      · rename_i R _ _ f _
        have h2 : SlotsMono ((unbindFun r f (s.setRep r (some { R with call := false }))).modRep r
            fun R' => { R' with fn := none }) s := SlotsMono.of_eq (by simp)
        simp only []
        split
        · split
          · exact h2
          · split
            · exact h2
            · exact SlotsMono.trans (SlotsMono.of_eq (killConn_slots _ _)) h2
        · split
          · exact h2
          · split
            · exact h2
            · split
              · exact SlotsMono.erase h2 _
              · refine SlotsMono.erase (SlotsMono.trans ?_ h2) _
                exact SlotsMono.trans (SlotsMono.of_eq (weakNotify_slots _ _)) (ih _ _)

theorem deleteRep_mono (r s) : SlotsMono (deleteRep r s) s :=
  SlotsMono.trans (SlotsMono.of_eq (weakNotify_slots _ _)) (destroyRep_mono _ _ _)

theorem ite_destroy_mono (s2 s : State) (r : Nat) (h : SlotsMono s2 s) :
    SlotsMono (if (s2.reps r).isSome then destroyRep (fuel s2) r s2 else s2) s := by
  split
  · exact SlotsMono.trans (destroyRep_mono _ _ _) h
  · exact h

theorem notifyInv_mono : ∀ k r s, SlotsMono (notifyInv k r s) s := by
  intro k
  induction k with
  | zero => intro r s; exact SlotsMono.refl _
  | succ k ih =>
    intro r s
    unfold notifyInv
    split
    · exact SlotsMono.refl _
    · simp only []
      apply ite_destroy_mono
      split
      · exact SlotsMono.refl _
      · exact ih _ _

theorem repDisconnect_mono (r s) : SlotsMono (repDisconnect r s) s := by
  unfold repDisconnect
  split
  · exact SlotsMono.refl _
  · simp only []
    split
    · exact SlotsMono.refl _
    · exact notifyInv_mono _ _ _

theorem trkFold_mono (t : Nat) : ∀ (es : List (Nat × Bool)) (s : State),
    SlotsMono (es.foldl (fun s e => if entryActive s t e.1 then notifyInv (fuel s) e.1 s else s) s) s := by
  intro es
  induction es with
  | nil => intro s; exact SlotsMono.refl _
  | cons e es ih =>
    intro s
    simp only [List.foldl_cons]
    refine SlotsMono.trans (ih _) ?_
    split
    · exact notifyInv_mono _ _ _
    · exact SlotsMono.refl _

theorem trkNotify_mono (t s) : SlotsMono (trkNotify t s) s := by
  unfold trkNotify
  split
  · exact SlotsMono.refl _
  · exact trkFold_mono t _ _

theorem modSlot_slots (s : State) (v : Nat) (g : SVar → SVar) (w : Nat) :
    (s.modSlot v g).slots w = if w = v then (s.slots v).map g else s.slots w := by
  unfold State.modSlot
  split
  · rename_i V hV
    simp only [State.setSlot, hV, Option.map_some]
  · rename_i hV
    split
    · subst_vars; simp [hV]
    · rfl

@[simp] theorem modSlot_reps (s : State) (v g) : (s.modSlot v g).reps = s.reps := by
  unfold State.modSlot; split <;> rfl
@[simp] theorem modSlot_trks (s : State) (v g) : (s.modSlot v g).trks = s.trks := by
  unfold State.modSlot; split <;> rfl
@[simp] theorem modSlot_conns (s : State) (v g) : (s.modSlot v g).conns = s.conns := by
  unfold State.modSlot; split <;> rfl
@[simp] theorem modSlot_nextRep (s : State) (v g) : (s.modSlot v g).nextRep = s.nextRep := by
  unfold State.modSlot; split <;> rfl

/-- `delete_rep_with_check` on `v`: other variables are only erased; `v` itself, if it survives, keeps its
    `blocked` flag and either lost its representation or (the representation died during `disconnect()`)
    is completely unchanged. -/
theorem deleteRepWithCheck_slots (v : Nat) (s : State) (w : Nat) (W' : SVar)
    (h : (deleteRepWithCheck v s).slots w = some W') :
    ∃ W, s.slots w = some W ∧ W'.blocked = W.blocked ∧ (w ≠ v → W' = W) ∧
      (w = v → W'.rep = none ∨ (W' = W ∧ ∃ r, W.rep = some r ∧ (deleteRepWithCheck v s).reps r = none)) := by
  unfold deleteRepWithCheck at h ⊢
  split at h
  · rename_i hr
    refine ⟨W', h, rfl, fun _ => rfl, fun hw => Or.inl ?_⟩
    subst hw
    simp [repOf, h] at hr
    exact hr
  · rename_i r hr
    simp only [] at h
    split at h
    · rename_i hs
      simp only [hs, if_true]
      have h2 := deleteRep_mono _ _ _ _ h
      rw [weakNotify_slots, modSlot_slots] at h2
      split at h2
      · subst_vars
        rw [Option.map_eq_some_iff] at h2
        obtain ⟨D1, hD1, hD1'⟩ := h2
        have := repDisconnect_mono _ _ _ _ hD1
        subst hD1'
        exact ⟨D1, this, rfl, fun h => absurd rfl h, fun _ => Or.inl rfl⟩
      · have := repDisconnect_mono _ _ _ _ h2
        exact ⟨W', this, rfl, fun _ => rfl, fun hw => by contradiction⟩
    · rename_i hs
      simp only [hs]
      have hW := repDisconnect_mono _ _ _ _ h
      refine ⟨W', hW, rfl, fun _ => rfl, fun hw => Or.inr ⟨rfl, r, ?_, ?_⟩⟩
      · subst hw; simpa [repOf, hW] using hr
      · simpa using hs

end Blk
open Blk

theorem destroyRep_slots_mono : ∀ k r s v V', (destroyRep k r s).slots v = some V' → s.slots v = some V' :=
  destroyRep_mono

theorem deleteRep_slots_mono : ∀ r s v V', (deleteRep r s).slots v = some V' → s.slots v = some V' :=
  deleteRep_mono

theorem notifyInv_slots_mono : ∀ k r s v V', (notifyInv k r s).slots v = some V' → s.slots v = some V' :=
  notifyInv_mono

theorem repDisconnect_slots_mono : ∀ r s v V', (repDisconnect r s).slots v = some V' → s.slots v = some V' :=
  repDisconnect_mono

theorem trkNotify_slots_mono : ∀ t s v V', (trkNotify t s).slots v = some V' → s.slots v = some V' :=
  trkNotify_mono

theorem deleteRepWithCheck_slots_mono (v : Nat) (s : State) (w : Nat) (hw : w ≠ v) (W' : SVar)
    (h : (deleteRepWithCheck v s).slots w = some W') : s.slots w = some W' := by
  obtain ⟨W, h1, _, h3, _⟩ := deleteRepWithCheck_slots v s w W' h
  rw [h3 hw]; exact h1

theorem deleteRepWithCheck_blocked (v : Nat) (s : State) (D D' : SVar) (hD : s.slots v = some D)
    (h : (deleteRepWithCheck v s).slots v = some D') : D'.blocked = D.blocked := by
  obtain ⟨W, h1, h2, _, _⟩ := deleteRepWithCheck_slots v s v D' h
  rw [hD] at h1; cases h1; exact h2

/-! ### concrete states for the non-vacuity examples -/

/-- `S1 = F(1)` blocked, its rep's parent = the rep of `S2 = bind(F2(2), ref(S1))`; `S3` rep-less -/
def Blk.exA : State := run [.mkS 1 (.fn 1), .mkS 2 (.sref 2 1), .blockS 1 true, .mkS0 3]
/-- `S1 = F(1)` blocked, no parent; `S2` rep-less, unblocked -/
def Blk.exB : State := run [.mkS 1 (.fn 1), .blockS 1 true, .mkS0 2]
/-- `S1` blocked and invalidated (`disconnect()`), still holding its representation -/
def Blk.exC : State := run [.mkS 1 (.fn 1), .blockS 1 true, .discS 1]
/-- two rep-less variables, `S2` blocked -/
def Blk.exD : State := run [.mkS0 1, .mkS0 2, .blockS 2 true]
/-- `S1 = F(1)` blocked, with connection `C1`; `C2` is an empty connection -/
def Blk.exE : State := run [.mkS 1 (.fn 1), .connS 1 1, .blockS 1 true, .newC 2]
/-- `S1 = F(1)`, `S2 = F(2)` blocked -/
def Blk.exF : State := run [.mkS 1 (.fn 1), .mkS 2 (.fn 2), .blockS 2 true]

/-! ### 1 — `block` / `unblock` return the previous flag and change nothing else -/

theorem Blk.alive_of_check {s : State} {v : Nat} (h : deadS s v = false) : ∃ V, s.slots v = some V := by
  unfold deadS at h
  cases hv : s.slots v with
  | none => simp [hv] at h
  | some V => exact ⟨V, rfl⟩

theorem Blk.check_split {s : State} {op : Op} (h : check s op = none) : op.named = true ∧ check0 s op = none := by
  unfold check at h
  by_cases hn : op.named = true
  · rw [if_pos hn] at h; exact ⟨hn, h⟩
  · rw [if_neg hn] at h; cases h

theorem Blk.named2 {a b : Nat} (h : (a < anonBase ∧ b < anonBase)) : a < anonBase ∧ b < anonBase := h

/-- the common core: setting the flag of a live variable -/
theorem Blk.setBlocked_spec (s : State) (v : Nat) (b : Bool) (V : SVar) (hV : s.slots v = some V) :
    (s.modSlot v fun V => { V with blocked := b }).slots v = some { V with blocked := b } ∧
    blockedVar (s.modSlot v fun V => { V with blocked := b }) v = b ∧
    repOf (s.modSlot v fun V => { V with blocked := b }) v = repOf s v ∧
    (∀ w, w ≠ v → (s.modSlot v fun V => { V with blocked := b }).slots w = s.slots w) ∧
    (s.modSlot v fun V => { V with blocked := b }).reps = s.reps ∧
    (s.modSlot v fun V => { V with blocked := b }).trks = s.trks ∧
    (s.modSlot v fun V => { V with blocked := b }).conns = s.conns := by
  refine ⟨?_, ?_, ?_, ?_, by simp, by simp, by simp⟩
  · simp [modSlot_slots, hV]
  · simp [blockedVar, modSlot_slots, hV]
  · simp [repOf, modSlot_slots, hV]
  · intro w hw; simp [modSlot_slots, hw]

theorem block_returns_previous_lem (s : State) (v : Nat) (b : Bool) (h : check s (.blockS v b) = none) :
    result s (.blockS v b) = b2s (blockedVar s v) ∧
    blockedVar (apply (.blockS v b) s) v = b ∧
    repOf (apply (.blockS v b) s) v = repOf s v ∧
    (∀ w, w ≠ v → (apply (.blockS v b) s).slots w = s.slots w) ∧
    (apply (.blockS v b) s).reps = s.reps ∧
    (apply (.blockS v b) s).trks = s.trks ∧
    (apply (.blockS v b) s).conns = s.conns := by
  obtain ⟨V, hV⟩ := alive_of_check (s := s) (v := v) (by simpa [check0] using (check_split h).2)
  exact ⟨rfl, (setBlocked_spec s v b V hV).2⟩

example : check exA (.blockS 1 false) = none ∧ blockedVar exA 1 = true ∧
    blockedVar (apply (.blockS 1 false) exA) 1 = false := by decide

theorem unblock_returns_previous_lem (s : State) (v : Nat) (h : check s (.unblockS v) = none) :
    result s (.unblockS v) = b2s (blockedVar s v) ∧
    blockedVar (apply (.unblockS v) s) v = false ∧
    repOf (apply (.unblockS v) s) v = repOf s v ∧
    (∀ w, w ≠ v → (apply (.unblockS v) s).slots w = s.slots w) ∧
    (apply (.unblockS v) s).reps = s.reps ∧
    (apply (.unblockS v) s).trks = s.trks ∧
    (apply (.unblockS v) s).conns = s.conns := by
  obtain ⟨V, hV⟩ := alive_of_check (s := s) (v := v) (by simpa [check0] using (check_split h).2)
  exact ⟨rfl, (setBlocked_spec s v false V hV).2⟩

example : check exA (.unblockS 1) = none ∧ blockedVar exA 1 = true ∧
    blockedVar (apply (.unblockS 1) exA) 1 = false := by decide

/-- `connection::block(b)`: through a connection whose slot variable `v` is alive -/
theorem blockC_returns_previous_lem (s : State) (c : Nat) (b : Bool) :
    (∀ v V, connTarget s c = some v → s.slots v = some V →
      result s (.blockC c b) = b2s (blockedVar s v) ∧
      blockedVar (apply (.blockC c b) s) v = b ∧
      repOf (apply (.blockC c b) s) v = repOf s v ∧
      (∀ w, w ≠ v → (apply (.blockC c b) s).slots w = s.slots w) ∧
      (apply (.blockC c b) s).reps = s.reps ∧
      (apply (.blockC c b) s).trks = s.trks ∧
      (apply (.blockC c b) s).conns = s.conns) ∧
    (connTarget s c = none → result s (.blockC c b) = "0" ∧ apply (.blockC c b) s = s) ∧
    (∀ v, connTarget s c = some v → s.slots v = none →
      result s (.blockC c b) = "0" ∧ apply (.blockC c b) s = s) := by
  refine ⟨?_, ?_, ?_⟩
  · intro v V hc hV
    simp only [result, apply, hc]
    exact ⟨trivial, (setBlocked_spec s v b V hV).2⟩
  · intro hc
    simp only [result, apply, hc, and_self]
  · intro v hc hV
    simp only [result, apply, hc, blockedVar, hV, State.modSlot]
    exact ⟨rfl, trivial⟩

example : connTarget exE 1 = some 1 ∧ exE.slots 1 = some ⟨some 0, true⟩ ∧
    blockedVar (apply (.blockC 1 false) exE) 1 = false ∧
    connTarget exE 2 = none ∧ check exE (.blockC 2 true) = none := by decide

theorem unblockC_returns_previous_lem (s : State) (c : Nat) :
    (∀ v V, connTarget s c = some v → s.slots v = some V →
      result s (.unblockC c) = b2s (blockedVar s v) ∧
      blockedVar (apply (.unblockC c) s) v = false ∧
      repOf (apply (.unblockC c) s) v = repOf s v ∧
      (∀ w, w ≠ v → (apply (.unblockC c) s).slots w = s.slots w) ∧
      (apply (.unblockC c) s).reps = s.reps ∧
      (apply (.unblockC c) s).trks = s.trks ∧
      (apply (.unblockC c) s).conns = s.conns) ∧
    (connTarget s c = none → result s (.unblockC c) = "0" ∧ apply (.unblockC c) s = s) ∧
    (∀ v, connTarget s c = some v → s.slots v = none →
      result s (.unblockC c) = "0" ∧ apply (.unblockC c) s = s) := by
  refine ⟨?_, ?_, ?_⟩
  · intro v V hc hV
    simp only [result, apply, hc]
    exact ⟨trivial, (setBlocked_spec s v false V hV).2⟩
  · intro hc
    simp only [result, apply, hc, and_self]
  · intro v hc hV
    simp only [result, apply, hc, blockedVar, hV, State.modSlot]
    exact ⟨rfl, trivial⟩

example : connTarget exE 1 = some 1 ∧ exE.slots 1 = some ⟨some 0, true⟩ ∧
    blockedVar (apply (.unblockC 1) exE) 1 = false ∧
    connTarget exE 2 = none ∧ check exE (.unblockC 2) = none := by decide

/-! ### 2 — queries -/

theorem blocked_query (s : State) (v : Nat) :
    result s (.blockedS v) = b2s (blockedVar s v) ∧ apply (.blockedS v) s = s := ⟨rfl, rfl⟩

example : check exA (.blockedS 1) = none ∧ blockedVar exA 1 = true ∧ blockedVar exA 2 = false := by decide

/-- `connection::blocked()` -/
theorem blockedC_query (s : State) (c : Nat) :
    result s (.blockedC c) = (match connTarget s c with | some v => b2s (blockedVar s v) | none => "0") ∧
    apply (.blockedC c) s = s := ⟨rfl, rfl⟩

def Op.isQuery : Op → Bool
  | .blockedS _ | .emptyS _ | .boolS _ | .parentS _ | .callS _ _
  | .connectedC _ | .emptyC _ | .blockedC _ | .live _ => true
  | _ => false

theorem query_pure_lem (s : State) (op : Op) (h : op.isQuery = true) : apply op s = s := by
  cases op <;> first | rfl | simp [Op.isQuery] at h


example : Op.isQuery (.callS 1 2) = true ∧ Op.isQuery (.blockS 1 true) = false := by decide

/-! ### 3, 4 — copy / move construction -/

theorem Blk.setSlot_slots (s : State) (v : Nat) (o : Option SVar) (w : Nat) :
    (s.setSlot v o).slots w = if w = v then o else s.slots w := rfl

theorem cpS_blocked_lem (s : State) (j i : Nat) (X : SVar) (hX : s.slots i = some X) (hji : j ≠ i)
    (_h : check s (.cpS j i) = none) :
    (apply (.cpS j i) s).slots i = some X ∧
    blockedVar (apply (.cpS j i) s) j =
      (if (repOf s i).isSome && emptyVar s i then false else X.blocked) := by
  have hij : i ≠ j := fun h => hji h.symm
  have hnm : j < anonBase ∧ i < anonBase := by simpa [Op.named, Op.names] using (check_split _h).1
  simp only [apply, hX, repOf]
  cases hr : X.rep with
  | none => simp [blockedVar, setSlot_slots, hij, hX]
  | some r =>
    have hcl := cloneRep_slots r s i hnm.2
    by_cases he : emptyVar s i = true
    · simp [he, blockedVar, setSlot_slots, hij, hX]
    · simp [he, blockedVar, setSlot_slots, hij, hX, hcl]

-- a blocked, non-empty source: the flag is copied
example : exA.slots 1 = some ⟨some 0, true⟩ ∧ check exA (.cpS 4 1) = none ∧ emptyVar exA 1 = false ∧
    blockedVar (apply (.cpS 4 1) exA) 4 = true := by decide
-- a blocked, invalidated source: the copy is the default slot
example : exC.slots 1 = some ⟨some 0, true⟩ ∧ check exC (.cpS 4 1) = none ∧ emptyVar exC 1 = true ∧
    blockedVar (apply (.cpS 4 1) exC) 4 = false := by decide
-- a blocked, rep-less source: the flag is copied
example : exD.slots 2 = some ⟨none, true⟩ ∧ check exD (.cpS 4 2) = none ∧
    blockedVar (apply (.cpS 4 2) exD) 4 = true := by decide

theorem mvS_blocked_lem (s : State) (j i : Nat) (X : SVar) (hX : s.slots i = some X) (hji : j ≠ i)
    (_h : check s (.mvS j i) = none) :
    (repOf s i = none →
      (apply (.mvS j i) s).slots i = some X ∧ (apply (.mvS j i) s).slots j = some ⟨none, X.blocked⟩) ∧
    (hasParent s i = true →
      (apply (.mvS j i) s).slots i = some X ∧
      blockedVar (apply (.mvS j i) s) j = (if emptyVar s i then false else X.blocked)) ∧
    (∀ r, repOf s i = some r → hasParent s i = false →
      (apply (.mvS j i) s).slots j = some ⟨some r, X.blocked⟩ ∧
      (apply (.mvS j i) s).slots i = some ⟨none, false⟩) := by
  have hij : i ≠ j := fun h => hji h.symm
  refine ⟨?_, ?_, ?_⟩
  · intro hr
    have hr' : X.rep = none := by simpa [repOf, hX] using hr
    simp [apply, hX, hr', setSlot_slots, hij]
  · intro hp
    have hnm : j < anonBase ∧ i < anonBase := by simpa [Op.named, Op.names] using (check_split _h).1
    cases hr : X.rep with
    | none => simp [hasParent, repObj, repOf, hX, hr] at hp
    | some r =>
      have hcl := cloneRep_slots r s i hnm.2
      by_cases he : emptyVar s i = true
      · simp [apply, hX, hr, hp, he, blockedVar, setSlot_slots, hij]
      · simp [apply, hX, hr, hp, he, blockedVar, setSlot_slots, hij, hcl]
  · intro r hr hp
    have hr' : X.rep = some r := by simpa [repOf, hX] using hr
    simp [apply, hX, hr', hp, setSlot_slots, hij]

-- (a)
example : exD.slots 2 = some ⟨none, true⟩ ∧ check exD (.mvS 4 2) = none ∧ repOf exD 2 = none ∧
    (apply (.mvS 4 2) exD).slots 4 = some ⟨none, true⟩ := by decide
-- (b)
example : exA.slots 1 = some ⟨some 0, true⟩ ∧ check exA (.mvS 4 1) = none ∧ hasParent exA 1 = true ∧
    emptyVar exA 1 = false ∧ (apply (.mvS 4 1) exA).slots 1 = some ⟨some 0, true⟩ ∧
    (apply (.mvS 4 1) exA).slots 4 = some ⟨some 2, true⟩ := by decide
-- (c)
example : exB.slots 1 = some ⟨some 0, true⟩ ∧ check exB (.mvS 4 1) = none ∧ hasParent exB 1 = false ∧
    (apply (.mvS 4 1) exB).slots 4 = some ⟨some 0, true⟩ ∧
    (apply (.mvS 4 1) exB).slots 1 = some ⟨none, false⟩ := by decide

/-! ### 5, 6 — copy / move assignment -/

/-- the tail of both assignment operators: other variables are only erased; the destination, if it survives,
    keeps its flag and holds the new representation -/
theorem Blk.exchangeRep_slots (d n : Nat) (s : State) (w : Nat) (W' : SVar)
    (h : (exchangeRep d n s).slots w = some W') :
    ∃ W, s.slots w = some W ∧ W'.blocked = W.blocked ∧ (w ≠ d → W' = W) ∧ (w = d → W'.rep = some n) := by
  have key : ∀ s0 : State, s0.slots = s.slots →
      (s0.modSlot d fun D => { D with rep := some n }).slots w = some W' →
      ∃ W, s.slots w = some W ∧ W'.blocked = W.blocked ∧ (w ≠ d → W' = W) ∧ (w = d → W'.rep = some n) := by
    intro s0 hs0 h0
    rw [modSlot_slots, hs0] at h0
    split at h0
    · rename_i hw
      subst hw
      rw [Option.map_eq_some_iff] at h0
      obtain ⟨W, hW, hW'⟩ := h0
      subst hW'
      exact ⟨W, hW, rfl, fun h => absurd rfl h, fun _ => rfl⟩
    · rename_i hw
      exact ⟨W', h0, rfl, fun _ => rfl, fun h => absurd h hw⟩
  unfold exchangeRep at h
  split at h
  · exact key s rfl h
  · have h' := deleteRep_mono _ _ _ _ h
    rw [weakNotify_slots] at h'
    exact key _ (by simp) h'

theorem Blk.repOf_eq {s : State} {v : Nat} {V : SVar} (h : s.slots v = some V) : repOf s v = V.rep := by
  simp [repOf, h]

theorem Blk.rep_of_nonempty {s : State} {x : Nat} {X : SVar} (hX : s.slots x = some X)
    (he : emptyVar s x = false) : ∃ r, X.rep = some r := by
  cases hr : X.rep with
  | none => simp [emptyVar, repObj, repOf, hX, hr] at he
  | some r => exact ⟨r, rfl⟩

theorem asgS_blocked_lem (s : State) (d x : Nat) (D X : SVar) (hD : s.slots d = some D) (hX : s.slots x = some X)
    (_h : check s (.asgS d x) = none) :
    -- (a) same representation: only the flag is copied
    (repOf s d = repOf s x →
      (apply (.asgS d x) s).slots d = some { D with blocked := X.blocked } ∧
      (∀ w, w ≠ d → (apply (.asgS d x) s).slots w = s.slots w) ∧
      (apply (.asgS d x) s).reps = s.reps ∧ (apply (.asgS d x) s).trks = s.trks ∧
      (apply (.asgS d x) s).conns = s.conns) ∧
    -- (b) the source is empty: the destination's flag is not touched
    (repOf s d ≠ repOf s x → emptyVar s x = true →
      (∀ D', (apply (.asgS d x) s).slots d = some D' →
        D'.blocked = D.blocked ∧
        (D'.rep = none ∨ (D' = D ∧ ∃ r, D.rep = some r ∧ (apply (.asgS d x) s).reps r = none))) ∧
      (∀ w W', w ≠ d → (apply (.asgS d x) s).slots w = some W' → s.slots w = some W')) ∧
    -- (c) otherwise: the flag is copied, the source is untouched
    (repOf s d ≠ repOf s x → emptyVar s x = false →
      (∀ D', (apply (.asgS d x) s).slots d = some D' → D'.blocked = X.blocked ∧ D'.rep = some s.nextRep) ∧
      (∀ w W', w ≠ d → w < anonBase → (apply (.asgS d x) s).slots w = some W' → s.slots w = some W') ∧
      (∀ X', x ≠ d → (apply (.asgS d x) s).slots x = some X' → X' = X)) := by
  have hrx : repOf s x = X.rep := repOf_eq hX
  refine ⟨?_, ?_, ?_⟩
  · intro hr
    have : (repOf s d == X.rep) = true := by simp [hr, hrx]
    simp only [apply, hX, this, if_true]
    exact ⟨(setBlocked_spec s d X.blocked D hD).1, (setBlocked_spec s d X.blocked D hD).2.2.2⟩
  · intro hr he
    have : (repOf s d == X.rep) = false := by simpa [hrx] using hr
    simp only [apply, hX, this, he, if_true, Bool.false_eq_true, if_false]
    refine ⟨fun D' hD' => ?_, fun w W' hw h => deleteRepWithCheck_slots_mono d s w hw W' h⟩
    obtain ⟨W, h1, h2, _, h4⟩ := deleteRepWithCheck_slots d s d D' hD'
    rw [hD] at h1; cases h1
    exact ⟨h2, h4 rfl⟩
  · intro hr he
    have : (repOf s d == X.rep) = false := by simpa [hrx] using hr
    obtain ⟨r, hXr⟩ := rep_of_nonempty hX he
    rw [hXr] at this
    simp only [apply, hX, this, he, Bool.false_eq_true, if_false, hXr]
    have hnm : d < anonBase ∧ x < anonBase := by simpa [Op.named, Op.names] using (check_split _h).1
    have hoth : ∀ w W', w ≠ d → w < anonBase →
        (exchangeRep d s.nextRep ((cloneRep r s).modSlot d fun D => { D with blocked := X.blocked })).slots w
          = some W' → s.slots w = some W' := by
      intro w W' hw hwn h
      obtain ⟨W, h1, _, h3, _⟩ := exchangeRep_slots _ _ _ _ _ h
      rw [modSlot_slots, if_neg hw, cloneRep_slots r s w hwn] at h1
      rw [h3 hw]; exact h1
    refine ⟨fun D' hD' => ?_, hoth, fun X' hxd h => ?_⟩
    · obtain ⟨W, h1, h2, _, h4⟩ := exchangeRep_slots _ _ _ _ _ hD'
      rw [modSlot_slots, if_pos rfl, Option.map_eq_some_iff] at h1
      obtain ⟨D1, _, hD1'⟩ := h1
      subst hD1'
      exact ⟨h2, h4 rfl⟩
    · have := hoth x X' hxd hnm.2 h
      rw [hX] at this; cases this; rfl

-- (a)
example : check exD (.asgS 1 2) = none ∧ repOf exD 1 = repOf exD 2 ∧
    (apply (.asgS 1 2) exD).slots 1 = some ⟨none, true⟩ := by decide
-- (b): the destination stays blocked although the (empty) source is unblocked
example : check exB (.asgS 1 2) = none ∧ repOf exB 1 ≠ repOf exB 2 ∧ emptyVar exB 2 = true ∧
    exB.slots 2 = some ⟨none, false⟩ ∧ (apply (.asgS 1 2) exB).slots 1 = some ⟨none, true⟩ := by decide
-- (c)
example : check exF (.asgS 1 2) = none ∧ repOf exF 1 ≠ repOf exF 2 ∧ emptyVar exF 2 = false ∧
    exF.slots 1 = some ⟨some 0, false⟩ ∧ (apply (.asgS 1 2) exF).slots 1 = some ⟨some 2, true⟩ ∧
    (apply (.asgS 1 2) exF).slots 2 = some ⟨some 1, true⟩ := by decide

theorem masgS_blocked_lem (s : State) (d x : Nat) (D X : SVar) (hD : s.slots d = some D) (hX : s.slots x = some X)
    (_h : check s (.masgS d x) = none) :
    -- (a) same representation: only the flag is copied
    (repOf s d = repOf s x →
      (apply (.masgS d x) s).slots d = some { D with blocked := X.blocked } ∧
      (∀ w, w ≠ d → (apply (.masgS d x) s).slots w = s.slots w) ∧
      (apply (.masgS d x) s).reps = s.reps ∧ (apply (.masgS d x) s).trks = s.trks ∧
      (apply (.masgS d x) s).conns = s.conns) ∧
    -- (b) the source is empty: the destination's flag is not touched
    (repOf s d ≠ repOf s x → emptyVar s x = true →
      (∀ D', (apply (.masgS d x) s).slots d = some D' →
        D'.blocked = D.blocked ∧
        (D'.rep = none ∨ (D' = D ∧ ∃ r, D.rep = some r ∧ (apply (.masgS d x) s).reps r = none))) ∧
      (∀ w W', w ≠ d → (apply (.masgS d x) s).slots w = some W' → s.slots w = some W')) ∧
    -- (c1) clone branch: the flag is copied, the source keeps representation and flag
    (repOf s d ≠ repOf s x → emptyVar s x = false → hasParent s x = true →
      (∀ D', (apply (.masgS d x) s).slots d = some D' → D'.blocked = X.blocked ∧ D'.rep = some s.nextRep) ∧
      (∀ w W', w ≠ d → w < anonBase → (apply (.masgS d x) s).slots w = some W' → s.slots w = some W') ∧
      (∀ X', x ≠ d → (apply (.masgS d x) s).slots x = some X' → X' = X)) ∧
    -- (c2) really-move branch: flag and representation move, the source becomes the default slot
    (repOf s d ≠ repOf s x → emptyVar s x = false → hasParent s x = false →
      x ≠ d ∧
      (∀ D', (apply (.masgS d x) s).slots d = some D' → D'.blocked = X.blocked ∧ D'.rep = repOf s x) ∧
      (∀ X', (apply (.masgS d x) s).slots x = some X' → X' = ⟨none, false⟩) ∧
      (∀ w W', w ≠ d → w ≠ x → (apply (.masgS d x) s).slots w = some W' → s.slots w = some W')) := by
  have hrx : repOf s x = X.rep := repOf_eq hX
  refine ⟨?_, ?_, ?_, ?_⟩
  · intro hr
    have : (repOf s d == X.rep) = true := by simp [hr, hrx]
    simp only [apply, hX, this, if_true]
    exact ⟨(setBlocked_spec s d X.blocked D hD).1, (setBlocked_spec s d X.blocked D hD).2.2.2⟩
  · intro hr he
    have : (repOf s d == X.rep) = false := by simpa [hrx] using hr
    simp only [apply, hX, this, he, if_true, Bool.false_eq_true, if_false]
    refine ⟨fun D' hD' => ?_, fun w W' hw h => deleteRepWithCheck_slots_mono d s w hw W' h⟩
    obtain ⟨W, h1, h2, _, h4⟩ := deleteRepWithCheck_slots d s d D' hD'
    rw [hD] at h1; cases h1
    exact ⟨h2, h4 rfl⟩
  · intro hr he hp
    have : (repOf s d == X.rep) = false := by simpa [hrx] using hr
    obtain ⟨r, hXr⟩ := rep_of_nonempty hX he
    rw [hXr] at this
    simp only [apply, hX, this, he, hp, Bool.false_eq_true, if_false, if_true, hXr]
    have hnm : d < anonBase ∧ x < anonBase := by simpa [Op.named, Op.names] using (check_split _h).1
    have hoth : ∀ w W', w ≠ d → w < anonBase →
        (exchangeRep d s.nextRep
          (cloneRep r (s.modSlot d fun D => { D with blocked := X.blocked }))).slots w = some W' →
        s.slots w = some W' := by
      intro w W' hw hwn h
      obtain ⟨W, h1, _, h3, _⟩ := exchangeRep_slots _ _ _ _ _ h
      rw [h3 hw]
      rw [cloneRep_slots _ _ w hwn] at h1
      simpa [modSlot_slots, hw] using h1
    refine ⟨fun D' hD' => ?_, hoth, fun X' hxd h => ?_⟩
    · obtain ⟨W, h1, h2, _, h4⟩ := exchangeRep_slots _ _ _ _ _ hD'
      rw [cloneRep_slots _ _ d hnm.1] at h1
      simp only [modSlot_slots, if_true, hD, Option.map_some, Option.some.injEq] at h1
      subst h1
      exact ⟨h2, h4 rfl⟩
    · have := hoth x X' hxd hnm.2 h
      rw [hX] at this; cases this; rfl
  · intro hr he hp
    have : (repOf s d == X.rep) = false := by simpa [hrx] using hr
    obtain ⟨r, hXr⟩ := rep_of_nonempty hX he
    have hxd : x ≠ d := fun h => hr (by rw [h])
    have hdx : d ≠ x := fun h => hxd h.symm
    rw [hXr] at this
    simp only [apply, hX, this, he, hp, Bool.false_eq_true, if_false, hXr]
    refine ⟨hxd, fun D' hD' => ?_, fun X' h => ?_, fun w W' hwd hwx h => ?_⟩
    · obtain ⟨W, h1, h2, _, h4⟩ := exchangeRep_slots _ _ _ _ _ hD'
      simp only [setSlot_slots, if_neg hdx, weakNotify_slots, modSlot_slots, if_true, hD, Option.map_some,
        Option.some.injEq] at h1
      subst h1
      exact ⟨h2, by rw [hrx, hXr]; exact h4 rfl⟩
    · obtain ⟨W, h1, _, h3, _⟩ := exchangeRep_slots _ _ _ _ _ h
      simp only [setSlot_slots, if_true, Option.some.injEq] at h1
      rw [h3 hxd, ← h1]
    · obtain ⟨W, h1, _, h3, _⟩ := exchangeRep_slots _ _ _ _ _ h
      rw [h3 hwd]
      simpa [setSlot_slots, hwx, modSlot_slots, hwd] using h1

-- (a)
example : check exD (.masgS 1 2) = none ∧ repOf exD 1 = repOf exD 2 ∧
    (apply (.masgS 1 2) exD).slots 1 = some ⟨none, true⟩ := by decide
-- (b)
example : check exB (.masgS 1 2) = none ∧ repOf exB 1 ≠ repOf exB 2 ∧ emptyVar exB 2 = true ∧
    (apply (.masgS 1 2) exB).slots 1 = some ⟨none, true⟩ := by decide
-- (c1)
example : check exA (.masgS 3 1) = none ∧ repOf exA 3 ≠ repOf exA 1 ∧ emptyVar exA 1 = false ∧
    hasParent exA 1 = true ∧ (apply (.masgS 3 1) exA).slots 3 = some ⟨some 2, true⟩ ∧
    (apply (.masgS 3 1) exA).slots 1 = some ⟨some 0, true⟩ := by decide
-- (c2)
example : check exB (.masgS 2 1) = none ∧ repOf exB 2 ≠ repOf exB 1 ∧ emptyVar exB 1 = false ∧
    hasParent exB 1 = false ∧ (apply (.masgS 2 1) exB).slots 2 = some ⟨some 0, true⟩ ∧
    (apply (.masgS 2 1) exB).slots 1 = some ⟨none, false⟩ := by decide

/-! ### 7 — `*d = slot(functor)` unblocks, `*d = slot()` does so only for a rep-less destination -/

theorem setS_unblocks_lem (s : State) (d : Nat) (f : Fun) (_h : check s (.setS d f) = none) :
    ∀ D', (apply (.setS d f) s).slots d = some D' → D'.blocked = false ∧ D'.rep = some s.nextRep := by
  intro D' hD'
  simp only [apply] at hD'
  obtain ⟨W, h1, h2, _, h4⟩ := exchangeRep_slots _ _ _ _ _ hD'
  rw [modSlot_slots, if_pos rfl, Option.map_eq_some_iff] at h1
  obtain ⟨W0, _, hW0⟩ := h1
  subst hW0
  exact ⟨h2, h4 rfl⟩

example : check exB (.setS 1 (.fn 5)) = none ∧ blockedVar exB 1 = true ∧
    (apply (.setS 1 (.fn 5)) exB).slots 1 = some ⟨some 1, false⟩ := by decide

theorem clrS_blocked_lem (s : State) (d : Nat) (D : SVar) (hD : s.slots d = some D) :
    (repOf s d = none → (apply (.clrS d) s).slots d = some { D with blocked := false }) ∧
    (repOf s d ≠ none → ∀ D', (apply (.clrS d) s).slots d = some D' → D'.blocked = D.blocked) := by
  refine ⟨fun hr => ?_, fun hr D' hD' => ?_⟩
  · simp only [apply, hr]
    exact (setBlocked_spec s d false D hD).1
  · cases hq : repOf s d with
    | none => exact absurd hq hr
    | some q =>
      simp only [apply, hq] at hD'
      exact deleteRepWithCheck_blocked d s D D' hD hD'

-- rep-less and blocked: unblocked
example : exD.slots 2 = some ⟨none, true⟩ ∧ repOf exD 2 = none ∧ check exD (.clrS 2) = none ∧
    (apply (.clrS 2) exD).slots 2 = some ⟨none, false⟩ := by decide
-- with a representation and blocked: stays blocked
example : exB.slots 1 = some ⟨some 0, true⟩ ∧ repOf exB 1 ≠ none ∧ check exB (.clrS 1) = none ∧
    (apply (.clrS 1) exB).slots 1 = some ⟨none, true⟩ := by decide

/-! ### 8 — a blocked or empty slot does not call its functor -/

theorem blocked_or_empty_call_lem (s : State) (n v a : Nat)
    (h : blockedVar s v = true ∨ emptyVar s v = true) : callVar s n v a = ([], 0) := by
  unfold callVar
  cases hV : s.slots v with
  | none => rfl
  | some V =>
    simp only []
    by_cases hb : V.blocked = true
    · simp [hb]
    · have he : emptyVar s v = true := by
        rcases h with h | h
        · simp [blockedVar, hV] at h; exact absurd h hb
        · exact h
      simp only [hb, Bool.false_eq_true, if_false]
      cases hr : V.rep with
      | none => rfl
      | some r =>
        simp only []
        cases hR : s.reps r with
        | none => rfl
        | some R =>
          have : R.call = false := by simpa [emptyVar, repObj, repOf, hV, hr, hR] using he
          simp [this]

theorem blocked_or_empty_callS_lem (s : State) (v a : Nat)
    (h : blockedVar s v = true ∨ emptyVar s v = true) :
    callLines s (.callS v a) = [] ∧ result s (.callS v a) = "0" := by
  simp only [callLines, result, blocked_or_empty_call_lem s maxDepth v a h]
  exact ⟨trivial, by decide⟩

-- blocked but not empty: no call; after `unblock` the same call runs `F(1)`
example : blockedVar exA 1 = true ∧ emptyVar exA 1 = false ∧ (callVar exA maxDepth 1 7).2 = 0 ∧
    (callVar (apply (.unblockS 1) exA) maxDepth 1 7).2 = 17 := by decide
-- empty but not blocked
example : blockedVar exA 3 = false ∧ emptyVar exA 3 = true ∧ (callVar exA maxDepth 3 7).2 = 0 := by decide

/-! ### 9 — blocking one variable does not touch the flag of another -/

theorem foreign_block_untouched_lem (s : State) (op : Op) (v w : Nat) (b : Bool)
    (hop : op = .blockS v b ∨ op = .unblockS v) (hw : w ≠ v) :
    blockedVar (apply op s) w = blockedVar s w := by
  rcases hop with rfl | rfl <;> simp [apply, blockedVar, modSlot_slots, hw]


example : blockedVar exA 1 = true ∧ blockedVar (apply (.blockS 2 true) exA) 1 = true ∧
    blockedVar (apply (.blockS 2 true) exA) 2 = true := by decide

end Sigc.SlotG
