import Sigc.Basic
/-! component model `Visit` — see DESIGN.md §3.2 (stub, replaced by the real model) -/
namespace Sigc.Visit

/-- one driver case per input line → one output line -/
def processLine (line : String) : String := "unimplemented " ++ line

end Sigc.Visit
