import Sigc.Basic
/-!
  Component model `Visit` (property C09): which trackables a slot made from a functor expression
  registers itself in, following every `sigc::visitor<>` specialisation member by member.

  Code modelled (current /repo tree):
  * `visit_each.h`            : primary `visitor<T>` (= `action(functor)`), `limit_trackable_target`,
                                 `visit_each_trackable`
  * `limit_reference.h`       : `limit_reference<T, is_base_of<trackable,T>>`, `visitor<limit_reference>`
  * `adaptors/bound_argument.h`: `bound_argument<T>`, `<reference_wrapper<T>>`, `<reference_wrapper<const T>>`;
                                 `visitor<bound_argument<T>>` = `visit_each(action, arg.visit())`, i.e. recursion into
                                 the bound value — which may itself be a functor (`BArg.fn`): a `mem_fun` functor,
                                 a `slot` (then `visitor<slot>` makes the outer rep the parent), any adaptor expression.
                                 The generic `bound_argument<T>` also serves a bound type spelled as an *explicit
                                 reference* (`bind_return<X&>(f, x)`, `bind<I, F, X&>(f, x)`: `BArg.xref` / `BArg.xcref`):
                                 `T_type visited_` is then an `X&`, nothing is copied, `visit()` hands out the object
                                 itself *with its own type* `X` (no `limit_reference` in between)
  * `functors/slot_base.h`    : `slot_do_bind` / `slot_do_unbind`: the overload set of the action's `operator()`
                                 (row `action` of the table): only `operator()(const trackable&)`, so an object that
                                 arrives with a derived static type is registered through the derived-to-base conversion
  * `adaptors/adaptor_trait.h`: `adaptor_functor` (wrapper of every non-adaptor functor stored in an adaptor/slot)
  * `functors/mem_fun.h`      : `visitor<bound_mem_functor>`  (also `signal::make_slot()`, `signal_connect`)
  * `adaptors/{bind,bind_return,hide,retype,retype_return,compose,exception_catch,track_obj}.h`
  * `tuple_for_each<TupleVisitorVisitEach>` : every element of the tuple, in order
  * `functors/slot.h`         : `typed_slot_rep` ctor / copy-ctor (`slot_do_bind`), `destroy()` (`slot_do_unbind`),
                                 `visitor<slot>` (sets / unsets the *parent* of the inner rep, registers nothing)
  * `trackable.cc`            : `add_callback`, `remove_callback` (first live entry with that data)

  The member list of each visitor is the explicit table `codeTable`; `scan` interprets *a* table, so the
  theorems are about the table as written and the unrepaired `bind<I>` row (`unrepairedTable`), a
  non-recursing `bound_argument` row (`boundLeafTable`) and an action with an extra catch-all no-op overload
  (`byTypeDroppedTable`) can be stated next to it.
  No proofs in this file.
-/
namespace Sigc.Visit

/-- how the class of a referenced object relates to `sigc::trackable` -/
inductive Kind
  | direct     -- `struct T : sigc::trackable` (also `sigc::trackable_signal`)
  | vbase      -- `struct T : virtual sigc::trackable` (possibly through an intermediate class)
  | untracked  -- not derived from `sigc::trackable` (plain struct, `sigc::signal`)
  deriving DecidableEq, Repr

/-- `std::is_base_of<sigc::trackable, T>` -/
def Kind.derivesTrackable : Kind → Bool
  | .untracked => false
  | _ => true

/-- an object of user code that an expression may refer to -/
structure Obj where
  id : Nat
  kind : Kind
  deriving DecidableEq, Repr

/-- the trackable behind an object, if it has one (statement side) -/
def Obj.trk (o : Obj) : List Nat := if o.kind.derivesTrackable then [o.id] else []

mutual
/-- a bound argument of `bind` / `bind_return` (`bound_argument<T>`) -/
inductive BArg
  | val               -- a plain value (int)
  | ref (o : Obj)     -- `std::ref(o)`
  | cref (o : Obj)    -- `std::cref(o)`
  | copy (o : Obj)    -- `o` passed by value: the functor owns a private copy, `o` itself is NOT referred to
  | xref (o : Obj)    -- `o` bound with an explicitly spelled reference type: `bind_return<X&>(f, o)`,
                      -- `bind<I, F, X&>(f, o)`, `bind<F, X&>(f, o)` — `bound_argument<X&>` keeps an `X&` to `o` itself
  | xcref (o : Obj)   -- the same with `const X&`
  | fn (e : FExpr)    -- a functor expression bound BY VALUE (`bind(&run_then, continuation_slot)`,
                      -- `bind(&apply, mem_fun(obj, &T::get))`): `bound_argument<T>` with `T` the functor type;
                      -- the stored copy still refers to whatever `e` refers to

/-- functor expressions of C09's grammar -/
inductive FExpr
  | leaf                                              -- function pointer / lambda / functor object
  | memFun (o : Obj)                                  -- `mem_fun(o, &T::m)`  (bound_mem_functor)
  | makeSlot (g : Obj)                                -- `g.make_slot()` (bound_mem_functor on the signal object)
  | signalConnect (o : Obj)                           -- `signal_connect(sig, o, &T::m)` = `sig.connect(mem_fun(o,&T::m))`
  | bind (pos : Option Nat) (f : FExpr) (bs : List BArg)  -- `bind<I>(f, bs…)` / `bind(f, bs…)` (`none` = -1)
  | bindReturn (f : FExpr) (b : BArg)
  | hide (pos : Option Nat) (f : FExpr)
  | hideReturn (f : FExpr)                            -- `retype_return_functor<void, F>`
  | retype (f : FExpr)
  | retypeReturn (f : FExpr)
  | compose1 (s g : FExpr)
  | compose2 (s g1 g2 : FExpr)
  | exceptionCatch (f c : FExpr)
  | trackObj (f : FExpr) (ts : List Obj)              -- `track_obj` / `track_object`
  | slot (f : FExpr)                                  -- a `sigc::slot<…>(f)` stored by value
end

/-- `std::is_base_of<adaptor_base, T>`: non-adaptors are wrapped in `adaptor_functor` when stored -/
def FExpr.isAdaptor : FExpr → Bool
  | .leaf | .memFun _ | .makeSlot _ | .signalConnect _ | .slot _ => false
  | _ => true

/-! ## statement side -/

mutual
/-- every trackable the expression refers to *by reference* (with multiplicity) -/
def referenced : FExpr → List Nat
  | .leaf => []
  | .memFun o => o.trk
  | .makeSlot g => g.trk
  | .signalConnect o => o.trk
  | .bind _ f bs => referenced f ++ refsOf bs
  | .bindReturn f b => referenced f ++ b.refs
  | .hide _ f => referenced f
  | .hideReturn f => referenced f
  | .retype f => referenced f
  | .retypeReturn f => referenced f
  | .compose1 s g => referenced s ++ referenced g
  | .compose2 s g1 g2 => referenced s ++ referenced g1 ++ referenced g2
  | .exceptionCatch f c => referenced f ++ referenced c
  | .trackObj f ts => referenced f ++ ts.flatMap Obj.trk
  | .slot f => referenced f

/-- the trackables one bound argument refers to: a bound functor refers to what its expression refers to -/
def BArg.refs : BArg → List Nat
  | .val => []
  | .ref o => o.trk
  | .cref o => o.trk
  | .copy _ => []
  | .xref o => o.trk
  | .xcref o => o.trk
  | .fn e => referenced e

/-- all bound arguments of a `bind` (= `bs.flatMap BArg.refs`, see `refsOf_eq_flatMap`) -/
def refsOf : List BArg → List Nat
  | [] => []
  | b :: bs => b.refs ++ refsOf bs
end

mutual
/-- nesting depth of an expression (leaves have depth 0; a bound functor counts like a sub-expression) -/
def depth : FExpr → Nat
  | .leaf | .memFun _ | .makeSlot _ | .signalConnect _ => 0
  | .bind _ f bs => max (depth f) (depthOf bs) + 1
  | .bindReturn f b => max (depth f) (BArg.depth b) + 1
  | .hide _ f | .hideReturn f | .retype f | .retypeReturn f
  | .trackObj f _ | .slot f => depth f + 1
  | .compose1 s g => max (depth s) (depth g) + 1
  | .compose2 s g1 g2 => max (depth s) (max (depth g1) (depth g2)) + 1
  | .exceptionCatch f c => max (depth f) (depth c) + 1

def BArg.depth : BArg → Nat
  | .fn e => depth e
  | _ => 0

def depthOf : List BArg → Nat
  | [] => 0
  | b :: bs => max (BArg.depth b) (depthOf bs)
end

/-! ## mechanism side -/

/-- what a registration lands in -/
inductive Tgt
  | ext (id : Nat)   -- a trackable of user code
  | own (id : Nat)   -- the functor's private by-value copy of object `id` (lives and dies with the functor)
  deriving DecidableEq, Repr

/-- What `visit_each_trackable(slot_do_bind(rep), functor)` does for one `typed_slot_rep`, in visiting order:
    `reg t` = `t.add_destroy_notify_callback(rep, &notify_slot_rep_invalidated)`;
    `kid inner` = `visitor<slot>`: `inner.rep_->set_parent(rep, &notify_slot_rep_invalidated)` where `inner`
    is the record of the inner slot's own rep (constructed by the functor copy). -/
inductive Rep
  | done
  | reg (t : Tgt) (rest : Rep)
  | kid (inner : Rep) (rest : Rep)
  deriving DecidableEq, Repr

def Rep.append : Rep → Rep → Rep
  | .done, b => b
  | .reg t r, b => .reg t (r.append b)
  | .kid k r, b => .kid k (r.append b)

def Rep.seq (rs : List Rep) : Rep := rs.foldr Rep.append .done

/-- registrations of this rep itself -/
def Rep.regs : Rep → List Tgt
  | .done => []
  | .reg t r => t :: r.regs
  | .kid _ r => r.regs

/-- inner reps whose parent is this rep -/
def Rep.kids : Rep → List Rep
  | .done => []
  | .reg _ r => r.kids
  | .kid k r => k :: r.kids

/-- registrations of this rep and of every rep it (transitively) owns -/
def Rep.allRegs : Rep → List Tgt
  | .done => []
  | .reg t r => t :: r.allRegs
  | .kid k r => k.allRegs ++ r.allRegs

/-- number of reps in the tree below (and excluding) this one -/
def Rep.innerCount : Rep → Nat
  | .done => 0
  | .reg _ r => r.innerCount
  | .kid k r => 1 + k.innerCount + r.innerCount

/-- `~trackable(t)` → `notify_callbacks` → for every entry `(rep, notify_slot_rep_invalidated)`:
    `rep->call_ = nullptr; rep->disconnect()` which calls the parent's `cleanup_(parent_)` =
    `notify_slot_rep_invalidated(outer rep)`.  So a rep is invalidated iff it holds a registration in `t`
    or one of the reps whose parent it is gets invalidated. -/
def Rep.invalidatedBy (t : Nat) : Rep → Bool
  | .done => false
  | .reg u r => (u == Tgt.ext t) || r.invalidatedBy t
  | .kid k r => k.invalidatedBy t || r.invalidatedBy t

def extIds : List Tgt → List Nat
  | [] => []
  | .ext i :: l => i :: extIds l
  | .own _ :: l => extIds l

def ownIds : List Tgt → List Nat
  | [] => []
  | .ext _ :: l => ownIds l
  | .own i :: l => i :: ownIds l

/-! ### the visitor table -/

/-- one entry per `visitor<>` specialisation of the library -/
inductive VSpec
  | primary            -- visit_each.h: `template<T> struct visitor`
  | limit_reference    -- limit_reference.h
  | bound_argument     -- adaptors/bound_argument.h
  | adaptor_functor    -- adaptors/adaptor_trait.h
  | bound_mem_functor  -- functors/mem_fun.h
  | bind_loc           -- adaptors/bind.h `visitor<bind_functor<T_loc,…>>`
  | bind_last          -- adaptors/bind.h `visitor<bind_functor<-1,…>>`
  | bind_return
  | hide
  | retype
  | retype_return      -- also hide_return
  | compose1
  | compose2
  | exception_catch
  | track_obj
  | slot               -- functors/slot.h `visitor<slot<…>>` (bind/unbind overloads)
  | action             -- not a visitor: the overload set of `operator()` of the action that `visit_each_trackable`
                       -- is run with (functors/slot_base.h `slot_do_bind` / `slot_do_unbind`)
  deriving DecidableEq, Repr

/-- what a visitor passes on -/
inductive Mem
  | self         -- `action(functor)`
  | visit        -- `visit_each(action, target.visit())`: recursion into whatever `visit()` returns
  | visit_ref_only -- (not in the current tree) `visit_each(action, target.visit())` only for a
                 -- `bound_argument<std::reference_wrapper<…>>`; a value bound by copy is handed to the action
                 -- as a leaf: `action(target.visit())`
  | functor_
  | obj_         -- `bound_mem_functor::obj_`
  | bound_       -- whole tuple through `tuple_for_each<TupleVisitorVisitEach>`
  | bound_0      -- `std::get<0>(target.bound_)` only
  | ret_value_
  | get_
  | get1_
  | get2_
  | catcher_
  | objs_        -- `track_obj_functor::obj_` tuple through `tuple_for_each`
  | rep_parent   -- `target.rep_->set_parent(action.action_.rep_, …)` / `unset_parent()`
  | as_trackable -- (row `action`) `void operator()(const trackable& t) const`: add / remove the callback in `t`
  | as_own_type_noop -- (row `action`, not in the current tree) `template<typename T> void operator()(const T&) const {}`
  deriving DecidableEq, Repr

abbrev Table := VSpec → List Mem

/-- the table of the current tree, each row in the order of the `visit_each` calls in the source -/
def codeTable : Table
  | .primary           => [.self]
  | .limit_reference   => [.visit]
  | .bound_argument    => [.visit]
  | .adaptor_functor   => [.functor_]
  | .bound_mem_functor => [.obj_]
  | .bind_loc          => [.functor_, .bound_]
  | .bind_last         => [.functor_, .bound_]
  | .bind_return       => [.ret_value_, .functor_]
  | .hide              => [.functor_]
  | .retype            => [.functor_]
  | .retype_return     => [.functor_]
  | .compose1          => [.functor_, .get_]
  | .compose2          => [.functor_, .get1_, .get2_]
  | .exception_catch   => [.functor_, .catcher_]
  | .track_obj         => [.functor_, .objs_]
  | .slot              => [.rep_parent]
  | .action            => [.as_trackable]

/-- the table before "fix: bind<I>() visitor must visit every bound argument" (finding F1) -/
def unrepairedTable : Table
  | .bind_loc => [.functor_, .bound_0]
  | s => codeTable s

/-- a table that differs from the code in one row: "a value bound by copy is a leaf" — `visitor<bound_argument<T>>`
    hands the stored value to the action instead of recursing into it with `visit_each` (equivalent for plain
    values and by-value objects, not for a bound functor) -/
def boundLeafTable : Table
  | .bound_argument => [.visit_ref_only]
  | s => codeTable s

/-- a table that differs from the code in the action's overload set: `slot_do_bind` / `slot_do_unbind` with an
    additional catch-all no-op overload `template<typename T> void operator()(const T&) const {}` ("an object that
    arrives with its own derived type is a by-value copy inside the functor; no point in registering with it").
    Overload resolution then sends every object whose static type is a class *derived* from `trackable` to the
    no-op (exact match beats the derived-to-base conversion); only arguments of static type `sigc::trackable`
    (handed out by `limit_reference`) are still registered. -/
def byTypeDroppedTable : Table
  | .action => [.as_trackable, .as_own_type_noop]
  | s => codeTable s

/-- run one row: every member of the row, in order, interpreted by `f` -/
def row (tbl : Table) (s : VSpec) (f : Mem → Rep) : Rep := Rep.seq ((tbl s).map f)

/-- the *static* type with which an object reaches the action, relative to `sigc::trackable` -/
inductive STy
  | trackable   -- exactly `sigc::trackable` (what `limit_reference<T, true>::visit()` hands out)
  | derived     -- a class derived from `sigc::trackable` (directly or through a virtual base), with its own type
  | other       -- anything else (`int`, a functor type, a plain struct, `sigc::signal`)
  deriving DecidableEq, Repr

/-- an object of class kind `k` visited with its own type -/
def STy.ofKind (k : Kind) : STy := if k.derivesTrackable then .derived else .other

/-- an object of class kind `k` behind a `limit_reference`: `limit_reference<T, is_base_of<trackable, T>>::visit()` is
    the `trackable&` base sub-object for a derived class, the `T&` itself otherwise -/
def STy.limited (k : Kind) : STy := if k.derivesTrackable then .trackable else .other

/-- `limit_trackable_target::operator()(T&&)`: `if constexpr (is_base_of_or_same_v<trackable, T>)` (decayed `T`, so a
    `const X&` counts as `X`) `std::invoke(action_, type)`, else nothing.  `std::invoke` then performs overload
    resolution in the action's overload set (row `action`): `operator()(const trackable&)` accepts a `trackable`
    (exact) and any derived class (derived-to-base conversion, also through a virtual base); a catch-all
    `template<T> operator()(const T&)`, if the set has one, is an exact match for a derived class and wins there,
    and loses against the non-template overload for `trackable` itself. -/
def act (tbl : Table) (t : Tgt) : STy → Rep
  | .other => .done
  | .trackable => if (tbl .action).contains .as_trackable then .reg t .done else .done
  | .derived =>
    if (tbl .action).contains .as_own_type_noop then .done
    else if (tbl .action).contains .as_trackable then .reg t .done else .done

/-- primary `visitor<T>` on an object whose static type is `T`; the action is a `limit_trackable_target` -/
def visitPrimary (tbl : Table) (t : Tgt) (ty : STy) : Rep :=
  row tbl .primary fun
    | .self => act tbl t ty
    | _ => .done

/-- `visitor<limit_reference<T>>`: `visit_each(action, target.visit())`.  For `is_base_of<trackable,T>`
    `visit()` is the `trackable&` base sub-object (found through the virtual base if there is one),
    otherwise the `T&` itself, which `limit_trackable_target` then drops. -/
def visitLimRef (tbl : Table) (o : Obj) : Rep :=
  row tbl .limit_reference fun
    | .visit => visitPrimary tbl (.ext o.id) (STy.limited o.kind)
    | _ => .done

def visitObjs (tbl : Table) (ts : List Obj) : Rep := Rep.seq (ts.map (visitLimRef tbl))

/-- a functor stored in `adapts<T>::functor_` / `typed_slot_rep::functor_`: its `adaptor_type` is `T` for
    adaptors and `adaptor_functor<T>` otherwise -/
def stored (tbl : Table) (isAd : Bool) (r : Rep) : Rep :=
  if isAd then r else row tbl .adaptor_functor fun
    | .functor_ => r
    | _ => .done

mutual
/-- `visit_each(limit_trackable_target<slot_do_bind>, e)` -/
def scan (tbl : Table) : FExpr → Rep
  | .leaf => visitPrimary tbl (.own 0) .other
  | .memFun o => row tbl .bound_mem_functor fun
      | .obj_ => visitLimRef tbl o
      | _ => .done
  | .makeSlot g => row tbl .bound_mem_functor fun
      | .obj_ => visitLimRef tbl g
      | _ => .done
  | .signalConnect o => row tbl .bound_mem_functor fun
      | .obj_ => visitLimRef tbl o
      | _ => .done
  | .bind (some _) f bs => row tbl .bind_loc fun
      | .functor_ => stored tbl f.isAdaptor (scan tbl f)
      | .bound_ => visitTuple tbl bs
      | .bound_0 => visitFirst tbl bs
      | _ => .done
  | .bind none f bs => row tbl .bind_last fun
      | .functor_ => stored tbl f.isAdaptor (scan tbl f)
      | .bound_ => visitTuple tbl bs
      | .bound_0 => visitFirst tbl bs
      | _ => .done
  | .bindReturn f b => row tbl .bind_return fun
      | .functor_ => stored tbl f.isAdaptor (scan tbl f)
      | .ret_value_ => visitBound tbl b
      | _ => .done
  | .hide _ f => row tbl .hide fun
      | .functor_ => stored tbl f.isAdaptor (scan tbl f)
      | _ => .done
  | .hideReturn f => row tbl .retype_return fun
      | .functor_ => stored tbl f.isAdaptor (scan tbl f)
      | _ => .done
  | .retype f => row tbl .retype fun
      | .functor_ => stored tbl f.isAdaptor (scan tbl f)
      | _ => .done
  | .retypeReturn f => row tbl .retype_return fun
      | .functor_ => stored tbl f.isAdaptor (scan tbl f)
      | _ => .done
  | .compose1 s g => row tbl .compose1 fun
      | .functor_ => stored tbl s.isAdaptor (scan tbl s)
      | .get_ => scan tbl g
      | _ => .done
  | .compose2 s g1 g2 => row tbl .compose2 fun
      | .functor_ => stored tbl s.isAdaptor (scan tbl s)
      | .get1_ => scan tbl g1
      | .get2_ => scan tbl g2
      | _ => .done
  | .exceptionCatch f c => row tbl .exception_catch fun
      | .functor_ => stored tbl f.isAdaptor (scan tbl f)
      | .catcher_ => scan tbl c
      | _ => .done
  | .trackObj f ts => row tbl .track_obj fun
      | .functor_ => stored tbl f.isAdaptor (scan tbl f)
      | .objs_ => visitObjs tbl ts
      | _ => .done
  | .slot f => row tbl .slot fun
      | .rep_parent => .kid (stored tbl f.isAdaptor (scan tbl f)) .done
      | _ => .done

/-- `visitor<bound_argument<T>>`: `visit_each(action, arg.visit())`.  `visit()` is the `limit_reference` for a
    `reference_wrapper`, otherwise the stored value itself: an `int`, a by-value object (primary visitor), or a
    functor — then `visit_each` dispatches to *that functor's* visitor (`visitor<bound_mem_functor>`,
    `visitor<slot>`, an adaptor's visitor, …); the value is stored as `T`, not as `adaptor_type`.
    For `T = X&` / `const X&` (`xref` / `xcref`) the "stored value" is a reference to the user's object: `visit()`
    (`const T_type&`, reference-collapsed to `X&`) hands out that object, `visit_each` deduces `T_functor = X`,
    finds no `visitor<X>` specialisation, the primary visitor calls `action(const X&)`, `limit_trackable_target`
    tests `is_base_of<trackable, X>` on the decayed type and the action converts to `const trackable&`. -/
def visitBound (tbl : Table) : BArg → Rep
  | .val => row tbl .bound_argument fun
      | .visit => visitPrimary tbl (.own 0) .other
      | .visit_ref_only => act tbl (.own 0) .other
      | _ => .done
  | .ref o => row tbl .bound_argument fun
      | .visit => visitLimRef tbl o
      | .visit_ref_only => visitLimRef tbl o
      | _ => .done
  | .cref o => row tbl .bound_argument fun
      | .visit => visitLimRef tbl o
      | .visit_ref_only => visitLimRef tbl o
      | _ => .done
  | .copy o => row tbl .bound_argument fun
      | .visit => visitPrimary tbl (.own o.id) (STy.ofKind o.kind)
      | .visit_ref_only => act tbl (.own o.id) (STy.ofKind o.kind)
      | _ => .done
  | .xref o => row tbl .bound_argument fun
      | .visit => visitPrimary tbl (.ext o.id) (STy.ofKind o.kind)
      | .visit_ref_only => act tbl (.ext o.id) (STy.ofKind o.kind)
      | _ => .done
  | .xcref o => row tbl .bound_argument fun
      | .visit => visitPrimary tbl (.ext o.id) (STy.ofKind o.kind)
      | .visit_ref_only => act tbl (.ext o.id) (STy.ofKind o.kind)
      | _ => .done
  | .fn e => row tbl .bound_argument fun
      | .visit => scan tbl e
      | .visit_ref_only => act tbl (.own 0) .other   -- `action(functor)`: a functor type is not a trackable
      | _ => .done

/-- `tuple_for_each<TupleVisitorVisitEach>(tuple, action)`: every element, in order -/
def visitTuple (tbl : Table) : List BArg → Rep
  | [] => .done
  | b :: bs => (visitBound tbl b).append (visitTuple tbl bs)

/-- `visit_each(action, std::get<0>(target.bound_))` (the unrepaired `bind<I>` row) -/
def visitFirst (tbl : Table) : List BArg → Rep
  | [] => .done
  | b :: _ => (visitBound tbl b).append .done
end

/-- the record of the `typed_slot_rep` of `slot<…>(e)` (its functor is stored as `adaptor_type`) -/
def repOf (tbl : Table) (e : FExpr) : Rep := stored tbl e.isAdaptor (scan tbl e)

/-- registrations made by the slot's own rep (user trackables), with a given table -/
def visitedWith (tbl : Table) (e : FExpr) : List Nat := extIds (repOf tbl e).regs

/-- registrations made by the slot's own rep and by every inner rep it owns -/
def visitedAllWith (tbl : Table) (e : FExpr) : List Nat := extIds (repOf tbl e).allRegs

def visited (e : FExpr) : List Nat := visitedWith codeTable e
def visitedAll (e : FExpr) : List Nat := visitedAllWith codeTable e

/-- destroying trackable `t` invalidates a slot made from `e` (directly or through the parent chain) -/
def ties (e : FExpr) (t : Nat) : Bool := (repOf codeTable e).invalidatedBy t

mutual
/-- no `slot` stored anywhere inside (bound functors included) -/
def slotFree : FExpr → Bool
  | .leaf | .memFun _ | .makeSlot _ | .signalConnect _ => true
  | .bind _ f bs => slotFree f && slotFreeArgs bs
  | .bindReturn f b => slotFree f && b.slotFree
  | .hide _ f | .hideReturn f | .retype f | .retypeReturn f
  | .trackObj f _ => slotFree f
  | .compose1 s g => slotFree s && slotFree g
  | .compose2 s g1 g2 => slotFree s && slotFree g1 && slotFree g2
  | .exceptionCatch f c => slotFree f && slotFree c
  | .slot _ => false

def BArg.slotFree : BArg → Bool
  | .fn e => Visit.slotFree e
  | _ => true

def slotFreeArgs : List BArg → Bool
  | [] => true
  | b :: bs => b.slotFree && slotFreeArgs bs
end

mutual
/-- no functor-valued bound argument anywhere inside -/
def plainBound : FExpr → Bool
  | .leaf | .memFun _ | .makeSlot _ | .signalConnect _ => true
  | .bind _ f bs => plainBound f && plainArgs bs
  | .bindReturn f b => plainBound f && b.plain
  | .hide _ f | .hideReturn f | .retype f | .retypeReturn f
  | .trackObj f _ | .slot f => plainBound f
  | .compose1 s g => plainBound s && plainBound g
  | .compose2 s g1 g2 => plainBound s && plainBound g1 && plainBound g2
  | .exceptionCatch f c => plainBound f && plainBound c

def BArg.plain : BArg → Bool
  | .fn _ => false
  | _ => true

def plainArgs : List BArg → Bool
  | [] => true
  | b :: bs => b.plain && plainArgs bs
end

mutual
/-- no bound argument with an explicitly spelled reference type, and no by-value copy of an object, anywhere inside:
    every object reaches the action through a `limit_reference` -/
def limitedOnly : FExpr → Bool
  | .leaf | .memFun _ | .makeSlot _ | .signalConnect _ => true
  | .bind _ f bs => limitedOnly f && limitedArgs bs
  | .bindReturn f b => limitedOnly f && b.limited
  | .hide _ f | .hideReturn f | .retype f | .retypeReturn f
  | .trackObj f _ | .slot f => limitedOnly f
  | .compose1 s g => limitedOnly s && limitedOnly g
  | .compose2 s g1 g2 => limitedOnly s && limitedOnly g1 && limitedOnly g2
  | .exceptionCatch f c => limitedOnly f && limitedOnly c

def BArg.limited : BArg → Bool
  | .copy _ | .xref _ | .xcref _ => false
  | .fn e => limitedOnly e
  | _ => true

def limitedArgs : List BArg → Bool
  | [] => true
  | b :: bs => b.limited && limitedArgs bs
end

/-! ## the callback list of one trackable (`trackable_callback_list`) -/

/-- `trackable_callback`: `data_` and whether `func_` is non-null -/
structure Entry where
  data : Nat
  live : Bool
  deriving DecidableEq, Repr

/-- `add_callback` (ignored while `clearing_`) -/
def addCb (clearing : Bool) (d : Nat) (l : List Entry) : List Entry :=
  if clearing then l else l ++ [⟨d, true⟩]

/-- `remove_callback`: the first entry with that data and a non-null func is erased
    (only nulled while `clearing_`) -/
def removeCb (clearing : Bool) (d : Nat) : List Entry → List Entry
  | [] => []
  | e :: l =>
    if e.data = d ∧ e.live = true then
      (if clearing then { e with live := false } :: l else l)
    else e :: removeCb clearing d l

/-- number of live entries with data `d` -/
def liveCount (d : Nat) : List Entry → Nat
  | [] => 0
  | e :: l => (if e.data = d ∧ e.live = true then 1 else 0) + liveCount d l

/-- the entries of everybody but `d` -/
def others (d : Nat) (l : List Entry) : List Entry := l.filter (fun e => e.data ≠ d)

/-- the callback lists of all registration targets (none of them is being destroyed) -/
abbrev World := Tgt → List Entry

inductive Op
  | add (t : Tgt) (d : Nat)      -- `t.add_destroy_notify_callback(d, …)`   (`slot_do_bind`)
  | remove (t : Tgt) (d : Nat)   -- `t.remove_destroy_notify_callback(d)`   (`slot_do_unbind`)
  deriving DecidableEq, Repr

def Op.data : Op → Nat
  | .add _ d => d
  | .remove _ d => d

def step (w : World) : Op → World
  | .add t d => fun u => if u = t then addCb false d (w u) else w u
  | .remove t d => fun u => if u = t then removeCb false d (w u) else w u

def run (w : World) (ops : List Op) : World := ops.foldl step w

/-- `typed_slot_rep` ctor / copy-ctor: `visit_each_trackable(slot_do_bind(this), *functor_)` -/
def bindOps (r : Nat) (ts : List Tgt) : List Op := ts.map (fun t => Op.add t r)

/-- `typed_slot_rep::destroy()`: `visit_each_trackable(slot_do_unbind(this), *functor_)` — the same
    visitors with another action, hence the same targets in the same order -/
def unbindOps (r : Nat) (ts : List Tgt) : List Op := ts.map (fun t => Op.remove t r)

/-- `s` is an interleaving of `a` and `b` (both keep their order) -/
inductive Interleave : List Op → List Op → List Op → Prop
  | nil : Interleave [] [] []
  | left (x : Op) {a b s : List Op} : Interleave a b s → Interleave (x :: a) b (x :: s)
  | right (x : Op) {a b s : List Op} : Interleave a b s → Interleave a (x :: b) (x :: s)

/-! ## driver -/

def parseObj (s : String) : Option Obj :=
  match s.toList with
  | c :: ds =>
    match (String.ofList ds).toNat? with
    | some n =>
      if c = 'd' then some ⟨n, .direct⟩
      else if c = 'v' then some ⟨n, .vbase⟩
      else if c = 'u' then some ⟨n, .untracked⟩
      else none
    | none => none
  | [] => none

def parsePos (s : String) : Option (Option Nat) :=
  if s = "L" then some none else (s.toNat?).map some

abbrev Parser := List String → Option (FExpr × List String)

/-- `p` parses the expression of a bound functor (`fun <expr>`) -/
def parseBArg (p : Parser) : List String → Option (BArg × List String)
  | "val" :: r => some (.val, r)
  | "ref" :: o :: r => (parseObj o).map fun o => (.ref o, r)
  | "cref" :: o :: r => (parseObj o).map fun o => (.cref o, r)
  | "copy" :: o :: r => (parseObj o).map fun o => (.copy o, r)
  | "xref" :: o :: r => (parseObj o).map fun o => (.xref o, r)
  | "xcref" :: o :: r => (parseObj o).map fun o => (.xcref o, r)
  | "fun" :: r => (p r).map fun (e, r1) => (.fn e, r1)
  | _ => none

def parseBArgs (p : Parser) : Nat → List String → Option (List BArg × List String)
  | 0, r => some ([], r)
  | n + 1, r =>
    match parseBArg p r with
    | some (b, r1) =>
      match parseBArgs p n r1 with
      | some (bs, r2) => some (b :: bs, r2)
      | none => none
    | none => none

def parseObjs : Nat → List String → Option (List Obj × List String)
  | 0, r => some ([], r)
  | _ + 1, [] => none
  | n + 1, o :: r =>
    match parseObj o, parseObjs n r with
    | some o, some (os, r2) => some (o :: os, r2)
    | _, _ => none

/-- prefix notation, `fuel` ≥ number of tokens -/
def parseE : Nat → List String → Option (FExpr × List String)
  | 0, _ => none
  | fuel + 1, toks =>
    let p := parseE fuel
    match toks with
    | "leaf" :: r => some (.leaf, r)
    | "mf" :: o :: r => (parseObj o).map fun o => (.memFun o, r)
    | "ms" :: o :: r => (parseObj o).map fun o => (.makeSlot o, r)
    | "sc" :: o :: r => (parseObj o).map fun o => (.signalConnect o, r)
    | "bind" :: pos :: n :: r =>
      match parsePos pos, n.toNat?, p r with
      | some pos, some n, some (f, r1) =>
        (parseBArgs p n r1).map fun (bs, r2) => (.bind pos f bs, r2)
      | _, _, _ => none
    | "bret" :: r =>
      match p r with
      | some (f, r1) => (parseBArg p r1).map fun (b, r2) => (.bindReturn f b, r2)
      | none => none
    | "hide" :: pos :: r =>
      match parsePos pos, p r with
      | some pos, some (f, r1) => some (.hide pos f, r1)
      | _, _ => none
    | "hret" :: r => (p r).map fun (f, r1) => (.hideReturn f, r1)
    | "rt" :: r => (p r).map fun (f, r1) => (.retype f, r1)
    | "rtr" :: r => (p r).map fun (f, r1) => (.retypeReturn f, r1)
    | "slot" :: r => (p r).map fun (f, r1) => (.slot f, r1)
    | "c1" :: r =>
      match p r with
      | some (s, r1) => (p r1).map fun (g, r2) => (.compose1 s g, r2)
      | none => none
    | "c2" :: r =>
      match p r with
      | some (s, r1) =>
        match p r1 with
        | some (g1, r2) => (p r2).map fun (g2, r3) => (.compose2 s g1 g2, r3)
        | none => none
      | none => none
    | "ec" :: r =>
      match p r with
      | some (f, r1) => (p r1).map fun (c, r2) => (.exceptionCatch f c, r2)
      | none => none
    | "to" :: n :: r =>
      match n.toNat?, p r with
      | some n, some (f, r1) => (parseObjs n r1).map fun (os, r2) => (.trackObj f os, r2)
      | _, _ => none
    | _ => none

def showNats (l : List Nat) : String := ",".intercalate (l.map toString)

def showTgts (l : List Tgt) : String :=
  ",".intercalate (l.map fun | .ext i => toString i | .own i => "own" ++ toString i)

def dedup : List Nat → List Nat
  | [] => []
  | x :: l => x :: (dedup l).filter (· ≠ x)

/-- all ids (trackable or not) occurring in a `Rep` or in `referenced` are candidates for "tied" -/
def tiedIds (e : FExpr) : List Nat :=
  (dedup (visitedAll e ++ referenced e)).filter (fun t => ties e t)

def showTable (tbl : Table) : String :=
  let specs : List VSpec := [.primary, .limit_reference, .bound_argument, .adaptor_functor,
    .bound_mem_functor, .bind_loc, .bind_last, .bind_return, .hide, .retype, .retype_return, .compose1,
    .compose2, .exception_catch, .track_obj, .slot, .action]
  let short (x : String) : String := (x.splitOn ".").getLastD ""
  " ".intercalate (specs.map fun s =>
    short (reprStr s) ++ "=" ++ ",".intercalate ((tbl s).map fun m => short (reprStr m)))

/-- one driver case per input line → one output line.
    `<expr in prefix notation>`  →  `regs=<own rep's targets in visiting order> all=<incl. inner reps>
    refd=<referenced> tied=<ids whose destruction invalidates> kids=<inner reps> depth=<n>`;
    `table` prints the visitor table; `old <expr>` evaluates with the unrepaired table, `boundleaf <expr>` with
    `boundLeafTable`, `bytype <expr>` with `byTypeDroppedTable`. -/
def processLine (line : String) : String :=
  match words line with
  | ["table"] => "table " ++ showTable codeTable
  | "old" :: toks =>
    match parseE (toks.length + 1) toks with
    | some (e, []) => "regs=" ++ showTgts (repOf unrepairedTable e).regs
        ++ " all=" ++ showTgts (repOf unrepairedTable e).allRegs ++ " refd=" ++ showNats (referenced e)
    | _ => "parse-error"
  | "boundleaf" :: toks =>
    match parseE (toks.length + 1) toks with
    | some (e, []) => "regs=" ++ showTgts (repOf boundLeafTable e).regs
        ++ " all=" ++ showTgts (repOf boundLeafTable e).allRegs ++ " refd=" ++ showNats (referenced e)
    | _ => "parse-error"
  | "bytype" :: toks =>
    match parseE (toks.length + 1) toks with
    | some (e, []) => "regs=" ++ showTgts (repOf byTypeDroppedTable e).regs
        ++ " all=" ++ showTgts (repOf byTypeDroppedTable e).allRegs ++ " refd=" ++ showNats (referenced e)
    | _ => "parse-error"
  | toks =>
    match parseE (toks.length + 1) toks with
    | some (e, []) =>
      let r := repOf codeTable e
      "regs=" ++ showTgts r.regs ++ " all=" ++ showTgts r.allRegs ++ " refd=" ++ showNats (referenced e)
        ++ " tied=" ++ showNats (tiedIds e) ++ " kids=" ++ toString r.innerCount
        ++ " depth=" ++ toString (depth e)
    | _ => "parse-error"

end Sigc.Visit
