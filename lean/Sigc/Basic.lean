/-
  Sigc.Basic — small shared helpers (core Lean only).
-/
namespace Sigc

/-- split a driver line into words -/
def words (s : String) : List String :=
  (s.trimAscii.toString.splitOn " ").filter (· ≠ "")

end Sigc
