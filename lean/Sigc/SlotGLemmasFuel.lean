import Sigc.SlotG
/-!
  `SlotG`: the cascades never run out of fuel (`err` stays `false`).

  * `mu s` = number of allocated representations that still hold a functor; every unfolding of `destroyRep`
    that recurses has cleared one functor first, so `mu s < k` suffices for `destroyRep k r s`.
  * `nu s` = number of allocated representations that have a parent; every unfolding of `notifyInv` that
    recurses has cleared one parent first, so `nu s < k` suffices for `notifyInv k r s`.
  * both measures are `≤ s.nextRep < fuel s`.
-/
namespace Sigc.SlotG

/-- every allocated representation has an identity below `nextRep` -/
def RepBound (s : State) : Prop := ∀ r, (s.reps r).isSome → r < s.nextRep

/-! ### counting over `List.range` -/

theorem countP_range_point (p p' : Nat → Bool) (r : Nat) :
    ∀ n, r < n → p r = true → p' r = false → (∀ x, x ≠ r → p' x = p x) →
      (List.range n).countP p' + 1 = (List.range n).countP p
  | 0, h, _, _, _ => by omega
  | n + 1, hr, hp, hp', h => by
    rw [List.range_succ, List.countP_append, List.countP_append]
    by_cases hrn : r = n
    · subst hrn
      have e : (List.range r).countP p' = (List.range r).countP p := by
        apply List.countP_congr
        intro x hx
        have : x ≠ r := by have := List.mem_range.1 hx; omega
        rw [h x this]
      simp [e, hp, hp']
    · have ih := countP_range_point p p' r n (by omega) hp hp' h
      have : p' n = p n := h n (fun e => hrn e.symm)
      simp only [List.countP_singleton, this]
      omega

theorem countP_range_le (p : Nat → Bool) (n : Nat) : (List.range n).countP p ≤ n := by
  have := List.countP_le_length (p := p) (l := List.range n)
  simpa using this

/-! ### the two measures -/

def hasFn (s : State) (x : Nat) : Bool :=
  match s.reps x with
  | some R => R.fn.isSome
  | none => false

def hasPar (s : State) (x : Nat) : Bool :=
  match s.reps x with
  | some R => R.parent.isSome
  | none => false

def mu (s : State) : Nat := (List.range s.nextRep).countP (hasFn s)
def nu (s : State) : Nat := (List.range s.nextRep).countP (hasPar s)

theorem mu_lt_fuel (s : State) : mu s < fuel s := by
  have := countP_range_le (hasFn s) s.nextRep
  simp only [mu, fuel]; omega

theorem nu_lt_fuel (s : State) : nu s < fuel s := by
  have := countP_range_le (hasPar s) s.nextRep
  simp only [nu, fuel]; omega

/-! ### `Pres`: the package carried through every helper -/

/-- `s'` keeps the bound on representation identities and the `err` flag of `s` -/
def Pres (s s' : State) : Prop := RepBound s → RepBound s' ∧ s'.err = s.err

theorem Pres.refl (s : State) : Pres s s := fun h => ⟨h, rfl⟩

theorem Pres.trans {a b c : State} (h1 : Pres a b) (h2 : Pres b c) : Pres a c := fun h =>
  have ⟨hb, e1⟩ := h1 h
  have ⟨hc, e2⟩ := h2 hb
  ⟨hc, e2.trans e1⟩

/-- a state that has the same `nextRep`, `err` and a smaller `reps` domain -/
theorem Pres.of_sub {s s' : State} (hn : s'.nextRep = s.nextRep) (he : s'.err = s.err)
    (hd : ∀ x, (s'.reps x).isSome → (s.reps x).isSome) : Pres s s' := fun h =>
  ⟨fun x hx => by rw [hn]; exact h x (hd x hx), he⟩

/-! ### basic updates -/

@[simp] theorem setSlot_reps (s : State) (v o) : (s.setSlot v o).reps = s.reps := rfl
@[simp] theorem setSlot_nextRep (s : State) (v o) : (s.setSlot v o).nextRep = s.nextRep := rfl
@[simp] theorem setSlot_err (s : State) (v o) : (s.setSlot v o).err = s.err := rfl
@[simp] theorem setTrk_reps (s : State) (v o) : (s.setTrk v o).reps = s.reps := rfl
@[simp] theorem setTrk_nextRep (s : State) (v o) : (s.setTrk v o).nextRep = s.nextRep := rfl
@[simp] theorem setTrk_err (s : State) (v o) : (s.setTrk v o).err = s.err := rfl
@[simp] theorem setConn_reps (s : State) (v o) : (s.setConn v o).reps = s.reps := rfl
@[simp] theorem setConn_nextRep (s : State) (v o) : (s.setConn v o).nextRep = s.nextRep := rfl
@[simp] theorem setConn_err (s : State) (v o) : (s.setConn v o).err = s.err := rfl
@[simp] theorem setRep_reps (s : State) (r o x) :
    (s.setRep r o).reps x = if x = r then o else s.reps x := rfl
@[simp] theorem setRep_nextRep (s : State) (v o) : (s.setRep v o).nextRep = s.nextRep := rfl
@[simp] theorem setRep_err (s : State) (v o) : (s.setRep v o).err = s.err := rfl
@[simp] theorem nullConns_reps (s : State) (cs) : (nullConns cs s).reps = s.reps := rfl
@[simp] theorem nullConns_nextRep (s : State) (cs) : (nullConns cs s).nextRep = s.nextRep := rfl
@[simp] theorem nullConns_err (s : State) (cs) : (nullConns cs s).err = s.err := rfl

theorem modRep_reps (s : State) (r : Nat) (g : Rep → Rep) (x : Nat) :
    (s.modRep r g).reps x = if x = r then (s.reps x).map g else s.reps x := by
  unfold State.modRep
  cases h : s.reps r with
  | none => by_cases e : x = r <;> simp [e, h]
  | some R => by_cases e : x = r <;> simp [e, h]

@[simp] theorem modRep_nextRep (s : State) (r g) : (s.modRep r g).nextRep = s.nextRep := by
  unfold State.modRep; split <;> rfl
@[simp] theorem modRep_err (s : State) (r g) : (s.modRep r g).err = s.err := by
  unfold State.modRep; split <;> rfl

@[simp] theorem modSlot_reps (s : State) (v g) : (s.modSlot v g).reps = s.reps := by
  unfold State.modSlot; split <;> rfl
@[simp] theorem modSlot_nextRep (s : State) (v g) : (s.modSlot v g).nextRep = s.nextRep := by
  unfold State.modSlot; split <;> rfl
@[simp] theorem modSlot_err (s : State) (v g) : (s.modSlot v g).err = s.err := by
  unfold State.modSlot; split <;> rfl

theorem modRep_isSome (s : State) (r g x) : ((s.modRep r g).reps x).isSome = (s.reps x).isSome := by
  rw [modRep_reps]; split <;> simp

theorem hasFn_modRep (s : State) (r : Nat) (g : Rep → Rep) (hg : ∀ Q, (g Q).fn = Q.fn) (x : Nat) :
    hasFn (s.modRep r g) x = hasFn s x := by
  unfold hasFn; rw [modRep_reps]
  by_cases e : x = r <;> cases h : s.reps x <;> simp [e, hg]

@[simp] theorem trkAdd_reps (t r s) : (trkAdd t r s).reps = s.reps := by
  unfold trkAdd; split <;> try split
  all_goals rfl
@[simp] theorem trkAdd_nextRep (t r s) : (trkAdd t r s).nextRep = s.nextRep := by
  unfold trkAdd; split <;> try split
  all_goals rfl
@[simp] theorem trkAdd_err (t r s) : (trkAdd t r s).err = s.err := by
  unfold trkAdd; split <;> try split
  all_goals rfl
@[simp] theorem trkRemove_reps (t r s) : (trkRemove t r s).reps = s.reps := by
  unfold trkRemove; split <;> rfl
@[simp] theorem trkRemove_nextRep (t r s) : (trkRemove t r s).nextRep = s.nextRep := by
  unfold trkRemove; split <;> rfl
@[simp] theorem trkRemove_err (t r s) : (trkRemove t r s).err = s.err := by
  unfold trkRemove; split <;> rfl

/-! ### `unbindFun`, `bindFun` -/

@[simp] theorem unbindFun_nextRep (r f s) : (unbindFun r f s).nextRep = s.nextRep := by
  unfold unbindFun; split <;> simp [unsetParentIf] <;> split <;> simp
@[simp] theorem unbindFun_err (r f s) : (unbindFun r f s).err = s.err := by
  unfold unbindFun; split <;> simp [unsetParentIf] <;> split <;> simp
theorem unbindFun_isSome (r f s x) : ((unbindFun r f s).reps x).isSome = (s.reps x).isSome := by
  unfold unbindFun; split <;> simp [unsetParentIf]
  all_goals (split <;> simp [modRep_isSome])
theorem hasFn_unbindFun (r f s x) : hasFn (unbindFun r f s) x = hasFn s x := by
  unfold unbindFun; split <;> simp [unsetParentIf, hasFn]
  all_goals
    show hasFn _ x = hasFn s x
    split
    · rfl
    · apply hasFn_modRep
      intro Q; split <;> rfl

@[simp] theorem bindFun_nextRep (r f s) : (bindFun r f s).nextRep = s.nextRep := by
  unfold bindFun; split <;> simp [setParentIfNone] <;> split <;> simp
@[simp] theorem bindFun_err (r f s) : (bindFun r f s).err = s.err := by
  unfold bindFun; split <;> simp [setParentIfNone] <;> split <;> simp
theorem bindFun_isSome (r f s x) : ((bindFun r f s).reps x).isSome = (s.reps x).isSome := by
  unfold bindFun; split <;> simp [setParentIfNone]
  all_goals (split <;> simp [modRep_isSome])

/-! ### simple `Pres` facts -/

theorem pres_setSlot (s : State) (v o) : Pres s (s.setSlot v o) :=
  Pres.of_sub rfl rfl (fun _ h => h)
theorem pres_modSlot (s : State) (v g) : Pres s (s.modSlot v g) :=
  Pres.of_sub (by simp) (by simp) (fun _ h => by simpa using h)
theorem pres_setTrk (s : State) (v o) : Pres s (s.setTrk v o) :=
  Pres.of_sub rfl rfl (fun _ h => h)
theorem pres_setConn (s : State) (v o) : Pres s (s.setConn v o) :=
  Pres.of_sub rfl rfl (fun _ h => h)
theorem pres_modRep (s : State) (r g) : Pres s (s.modRep r g) :=
  Pres.of_sub (by simp) (by simp) (fun x h => by rwa [modRep_isSome] at h)
theorem pres_setRep_none (s : State) (r) : Pres s (s.setRep r none) :=
  Pres.of_sub rfl rfl (fun x h => by
    rw [setRep_reps] at h; split at h
    · simp at h
    · exact h)
theorem pres_setRep_some (s : State) (r R) (h : (s.reps r).isSome) : Pres s (s.setRep r (some R)) :=
  Pres.of_sub rfl rfl (fun x hx => by
    rw [setRep_reps] at hx; split at hx
    · subst x; exact h
    · exact hx)
theorem pres_weakNotify (r s) : Pres s (weakNotify r s) := by
  unfold weakNotify
  split
  · exact Pres.refl _
  · rename_i R h
    refine Pres.of_sub rfl rfl (fun x hx => ?_)
    rw [setRep_reps] at hx; split at hx
    · subst x; simp [h]
    · exact hx
theorem pres_unbindFun (r f s) : Pres s (unbindFun r f s) :=
  Pres.of_sub (by simp) (by simp) (fun x h => by rwa [unbindFun_isSome] at h)
theorem pres_bindFun (r f s) : Pres s (bindFun r f s) :=
  Pres.of_sub (by simp) (by simp) (fun x h => by rwa [bindFun_isSome] at h)

/-! ### `destroyRep` -/

/-- the state after `destroy()` has unbound and reset the functor `f` of `r` -/
def dropFnF (r : Nat) (R : Rep) (f : Fun) (s : State) : State :=
  (unbindFun r f (s.setRep r (some { R with call := false }))).modRep r fun R' => { R' with fn := none }

theorem destroyRep_succ_some (k r : Nat) (s : State) (R : Rep) (f : Fun)
    (hR : s.reps r = some R) (hf : R.fn = some f) :
    destroyRep (k + 1) r s =
      match f.owns with
      | none =>
        (match f.ownsC with
         | none => dropFnF r R f s
         | some c => if ownedCBy (dropFnF r R f s) c then dropFnF r R f s else killConn c (dropFnF r R f s))
      | some h =>
        if ownedBy (dropFnF r R f s) h then dropFnF r R f s else
        match (dropFnF r R f s).slots h with
        | none => dropFnF r R f s
        | some V =>
          match V.rep with
          | none => (dropFnF r R f s).setSlot h none
          | some r' =>
            (((weakNotify r' (destroyRep k r' (dropFnF r R f s))).setRep r' none)).setSlot h none := by
  obtain ⟨c, pa, fn, cbs⟩ := R
  simp only at hf; subst hf
  rw [destroyRep]; simp only [hR]; rfl

@[simp] theorem dropFn_nextRep (r R f s) : (dropFnF r R f s).nextRep = s.nextRep := by simp [dropFnF]
@[simp] theorem dropFn_err (r R f s) : (dropFnF r R f s).err = s.err := by simp [dropFnF]

theorem pres_dropFn (r R f s) (hR : s.reps r = some R) : Pres s (dropFnF r R f s) :=
  (pres_setRep_some s r _ (by simp [hR])).trans ((pres_unbindFun _ _ _).trans (pres_modRep _ _ _))

theorem hasFn_dropFn (r R f s x) (hR : s.reps r = some R) :
    hasFn (dropFnF r R f s) x = if x = r then false else hasFn s x := by
  unfold dropFnF
  by_cases e : x = r
  · subst e
    simp only [hasFn, modRep_reps, if_true]
    cases (unbindFun x f (s.setRep x (some { R with call := false }))).reps x <;> simp
  · have h1 : hasFn ((unbindFun r f (s.setRep r (some { R with call := false }))).modRep r
        fun R' => { R' with fn := none }) x = hasFn (unbindFun r f (s.setRep r (some { R with call := false }))) x := by
      simp only [hasFn, modRep_reps, e, if_false]
    rw [h1, hasFn_unbindFun]
    simp [hasFn, e]

theorem mu_dropFn (r R f s) (hb : RepBound s) (hR : s.reps r = some R) (hf : R.fn = some f) :
    mu (dropFnF r R f s) + 1 = mu s := by
  unfold mu
  rw [dropFn_nextRep]
  apply countP_range_point (hasFn s) (hasFn (dropFnF r R f s)) r
  · exact hb r (by simp [hR])
  · simp [hasFn, hR, hf]
  · simp [hasFn_dropFn _ _ _ _ _ hR]
  · intro x hx; simp [hasFn_dropFn _ _ _ _ _ hR, hx]

theorem pres_killConn (c : Nat) (s : State) : Pres s (killConn c s) := by
  unfold killConn slotRemCb
  refine Pres.trans ?_ (pres_setConn _ _ _)
  split
  · exact Pres.refl _
  · split
    · exact Pres.refl _
    · exact pres_modRep _ _ _

theorem destroyRep_ok : ∀ (k r : Nat) (s : State), RepBound s → mu s < k →
    RepBound (destroyRep k r s) ∧ (destroyRep k r s).err = s.err
  | 0, _, _, _, h => by omega
  | k + 1, r, s, hb, hm => by
    cases hR : s.reps r with
    | none => rw [destroyRep]; simp only [hR]; exact ⟨hb, trivial⟩
    | some R =>
      cases hf : R.fn with
      | none =>
        rw [destroyRep]; simp only [hR, hf]
        exact pres_setRep_some s r _ (by simp [hR]) hb
      | some f =>
        rw [destroyRep_succ_some k r s R f hR hf]
        have hd := pres_dropFn r R f s hR hb
        have hmu := mu_dropFn r R f s hb hR hf
        split
        · split
          · exact hd
          · split
            · exact hd
            · exact ((pres_dropFn r R f s hR).trans (pres_killConn _ _)) hb
        · split
          · exact hd
          · split
            · exact hd
            · split
              · exact ((pres_dropFn r R f s hR).trans (pres_setSlot _ _ _)) hb
              · rename_i r' _
                have ih := destroyRep_ok k r' (dropFnF r R f s) hd.1 (by omega)
                have h3 : ∀ h, Pres (destroyRep k r' (dropFnF r R f s))
                    (((weakNotify r' (destroyRep k r' (dropFnF r R f s))).setRep r' none).setSlot h none) :=
                  fun h => (pres_weakNotify _ _).trans ((pres_setRep_none _ _).trans (pres_setSlot _ h _))
                exact ⟨(h3 _ ih.1).1, (h3 _ ih.1).2.trans (ih.2.trans hd.2)⟩

theorem pres_destroyRep_fuel (r : Nat) (s : State) : Pres s (destroyRep (fuel s) r s) :=
  fun hb => destroyRep_ok _ r s hb (mu_lt_fuel s)

theorem pres_deleteRep (r : Nat) (s : State) : Pres s (deleteRep r s) :=
  (pres_destroyRep_fuel r s).trans ((pres_weakNotify _ _).trans (pres_setRep_none _ _))

/-! ### `notifyInv` -/

/-- the state after `notify_slot_rep_invalidated` / `disconnect` has reset `call_` and `parent_` of `r` -/
def clrParF (r : Nat) (R : Rep) (s : State) : State :=
  s.setRep r (some { R with call := false, parent := none })

theorem notifyInv_succ_some (k r : Nat) (s : State) (R : Rep) (hR : s.reps r = some R) :
    notifyInv (k + 1) r s =
      if ((match R.parent with
            | none => clrParF r R s
            | some p => notifyInv k p (clrParF r R s)).reps r).isSome
      then destroyRep (fuel (match R.parent with
            | none => clrParF r R s
            | some p => notifyInv k p (clrParF r R s))) r (match R.parent with
            | none => clrParF r R s
            | some p => notifyInv k p (clrParF r R s))
      else (match R.parent with
            | none => clrParF r R s
            | some p => notifyInv k p (clrParF r R s)) := by
  rw [notifyInv]; simp only [hR]; rfl

theorem pres_clrPar (r R s) (hR : s.reps r = some R) : Pres s (clrParF r R s) :=
  pres_setRep_some s r _ (by simp [hR])

theorem nu_clrPar (r R s p) (hb : RepBound s) (hR : s.reps r = some R) (hp : R.parent = some p) :
    nu (clrParF r R s) + 1 = nu s := by
  unfold nu
  show (List.range s.nextRep).countP (hasPar (clrParF r R s)) + 1 = _
  apply countP_range_point (hasPar s) (hasPar (clrParF r R s)) r
  · exact hb r (by simp [hR])
  · simp [hasPar, hR, hp]
  · simp [hasPar, clrParF]
  · intro x hx; simp [hasPar, clrParF, hx]

theorem notifyInv_ok : ∀ (k r : Nat) (s : State), RepBound s → nu s < k →
    RepBound (notifyInv k r s) ∧ (notifyInv k r s).err = s.err
  | 0, _, _, _, h => by omega
  | k + 1, r, s, hb, hm => by
    cases hR : s.reps r with
    | none => rw [notifyInv]; simp only [hR]; exact ⟨hb, trivial⟩
    | some R =>
      rw [notifyInv_succ_some k r s R hR]
      have h1 := pres_clrPar r R s hR hb
      have key : ∀ s2 : State, RepBound s2 ∧ s2.err = s.err →
          RepBound (if (s2.reps r).isSome then destroyRep (fuel s2) r s2 else s2) ∧
            (if (s2.reps r).isSome then destroyRep (fuel s2) r s2 else s2).err = s.err := by
        intro s2 h2
        split
        · have h3 := pres_destroyRep_fuel r s2 h2.1
          exact ⟨h3.1, h3.2.trans h2.2⟩
        · exact h2
      apply key
      cases hp : R.parent with
      | none => exact h1
      | some p =>
        have hnu := nu_clrPar r R s p hb hR hp
        have ih := notifyInv_ok k p (clrParF r R s) h1.1 (by omega)
        exact ⟨ih.1, ih.2.trans h1.2⟩

theorem pres_notifyInv_fuel (r : Nat) (s : State) : Pres s (notifyInv (fuel s) r s) :=
  fun hb => notifyInv_ok _ r s hb (nu_lt_fuel s)

theorem pres_repDisconnect (r : Nat) (s : State) : Pres s (repDisconnect r s) := by
  unfold repDisconnect
  split
  · exact Pres.refl _
  · rename_i R hR
    have h1 := pres_clrPar r R s hR
    split
    · exact h1
    · exact h1.trans (pres_notifyInv_fuel _ _)

theorem pres_deleteRepWithCheck (v : Nat) (s : State) : Pres s (deleteRepWithCheck v s) := by
  unfold deleteRepWithCheck
  split
  · exact Pres.refl _
  · simp only []
    split
    · exact (pres_repDisconnect _ _).trans (((pres_modSlot _ _ _).trans (pres_weakNotify _ _)).trans
        (pres_deleteRep _ _))
    · exact pres_repDisconnect _ _

theorem pres_foldl {α : Type} (f : State → α → State) (hf : ∀ s a, Pres s (f s a)) :
    ∀ (l : List α) (s : State), Pres s (l.foldl f s)
  | [], s => Pres.refl s
  | a :: l, s => (hf s a).trans (pres_foldl f hf l (f s a))

theorem pres_trkNotify (t : Nat) (s : State) : Pres s (trkNotify t s) := by
  unfold trkNotify
  split
  · exact Pres.refl _
  · simp only []
    refine (pres_setTrk _ _ _).trans (Pres.trans (pres_foldl _ ?_ _ _) (pres_setTrk _ _ _))
    intro s' e
    split
    · exact pres_notifyInv_fuel _ _
    · exact Pres.refl _

theorem pres_exchangeRep (d n : Nat) (s : State) : Pres s (exchangeRep d n s) := by
  unfold exchangeRep
  split
  · exact pres_modSlot _ _ _
  · exact (((pres_modRep _ _ _).trans (pres_modSlot _ _ _)).trans (pres_weakNotify _ _)).trans
      (pres_deleteRep _ _)

/-! ### allocation -/

theorem pres_allocRep (R : Rep) (s : State) : Pres s (allocRep R s) := fun hb =>
  ⟨fun x hx => by
    show x < s.nextRep + 1
    have hx' : ((if x = s.nextRep then some R else s.reps x)).isSome := hx
    split at hx'
    · omega
    · have := hb x hx'; omega, rfl⟩

theorem pres_nestFinish (n fid dd j : Nat) (s : State) : Pres s (nestFinish n fid dd j s) :=
  (pres_modRep s n _).trans (pres_bindFun n (.nest fid j dd) _)

theorem pres_ite (c : Prop) [Decidable c] (s A B : State) (hA : Pres s A) (hB : Pres s B) :
    Pres s (if c then A else B) := by
  split <;> assumption

theorem pres_bindFunX (e r f s) : Pres s (bindFunX e r f s) := by
  unfold bindFunX; split
  · exact Pres.refl _
  · exact pres_bindFun _ _ _

theorem pres_cloneRepD (e : Bool) : ∀ (d r : Nat) (s : State), Pres s (cloneRepD e d r s) := by
  intro d
  induction d with
  | zero =>
    intro r s
    rw [cloneRepD]
    split
    · exact pres_allocRep _ _
    · split
      · exact pres_allocRep _ _
      · exact pres_allocRep _ _
      · exact (pres_allocRep _ s).trans (pres_bindFunX _ _ _ _)
  | succ d' ih =>
    intro r s
    rw [cloneRepD]
    split
    · exact pres_allocRep _ _
    · split
      · exact pres_allocRep _ _
      · simp only []
        refine Pres.trans ?_ (pres_nestFinish _ _ _ _ _)
        split
        · exact (pres_allocRep _ s).trans (pres_setSlot _ _ _)
        · split
          · exact (pres_allocRep _ s).trans (pres_setSlot _ _ _)
          · apply pres_ite
            · exact (pres_allocRep _ s).trans (pres_setSlot _ _ _)
            · exact ((pres_allocRep _ s).trans (ih _ _)).trans (pres_setSlot _ _ _)
      · exact (pres_allocRep _ s).trans (pres_bindFunX _ _ _ _)

theorem pres_cloneRep (r : Nat) (s : State) : Pres s (cloneRep r s) := pres_cloneRepD _ _ r s

theorem pres_newRep (f : Fun) (s : State) : Pres s (newRep f s) := by
  unfold newRep
  split
  · simp only []
    split
    · exact ((pres_allocRep _ s).trans (pres_setSlot _ _ _)).trans (pres_nestFinish _ _ _ _ _)
    · split
      · exact ((pres_allocRep _ s).trans (pres_setSlot _ _ _)).trans (pres_nestFinish _ _ _ _ _)
      · apply pres_ite
        · exact ((pres_allocRep _ s).trans (pres_setSlot _ _ _)).trans (pres_nestFinish _ _ _ _ _)
        · exact (((pres_allocRep _ s).trans (pres_cloneRepD _ _ _ _)).trans (pres_setSlot _ _ _)).trans
            (pres_nestFinish _ _ _ _ _)
  · exact (pres_allocRep _ s).trans (pres_bindFun _ _ _)

theorem pres_slotAddCb (v c s) : Pres s (slotAddCb v c s) := by
  unfold slotAddCb; split
  · exact Pres.refl _
  · exact pres_modRep _ _ _

theorem pres_slotRemCb (v c s) : Pres s (slotRemCb v c s) := by
  unfold slotRemCb; split
  · exact Pres.refl _
  · exact pres_modRep _ _ _

/-! ### operations -/

theorem pres_apply (op : Op) (s : State) : Pres s (apply op s) := by
  cases op <;> simp only [apply]
  case newT t => exact pres_setTrk _ _ _
  case delT t => exact (pres_trkNotify _ _).trans (pres_setTrk _ _ _)
  case notifyT t => exact pres_trkNotify _ _
  case mkS v f => exact (pres_newRep _ _).trans (pres_setSlot _ _ _)
  case mkS0 v => exact pres_setSlot _ _ _
  case cpS j i =>
    split
    · exact Pres.refl _
    · split
      · exact pres_setSlot _ _ _
      · split
        · exact pres_setSlot _ _ _
        · exact (pres_cloneRep _ _).trans (pres_setSlot _ _ _)
  case mvS j i =>
    split
    · exact Pres.refl _
    · split
      · exact pres_setSlot _ _ _
      · split
        · split
          · exact pres_setSlot _ _ _
          · exact (pres_cloneRep _ _).trans (pres_setSlot _ _ _)
        · exact (pres_weakNotify _ _).trans ((pres_setSlot _ _ _).trans (pres_setSlot _ _ _))
  case asgS d x =>
    split
    · exact Pres.refl _
    · split
      · exact pres_modSlot _ _ _
      · split
        · exact pres_deleteRepWithCheck _ _
        · split
          · exact Pres.refl _
          · exact (pres_cloneRep _ _).trans ((pres_modSlot _ _ _).trans (pres_exchangeRep _ _ _))
  case masgS d x =>
    split
    · exact Pres.refl _
    · split
      · exact pres_modSlot _ _ _
      · split
        · exact pres_deleteRepWithCheck _ _
        · split
          · exact Pres.refl _
          · split
            · exact (pres_modSlot _ _ _).trans ((pres_cloneRep _ _).trans (pres_exchangeRep _ _ _))
            · exact (pres_modSlot _ _ _).trans ((pres_weakNotify _ _).trans
                ((pres_setSlot _ _ _).trans (pres_exchangeRep _ _ _)))
  case setS d f =>
    exact (pres_newRep _ _).trans ((pres_modSlot _ _ _).trans (pres_exchangeRep _ _ _))
  case clrS d =>
    split
    · exact pres_modSlot _ _ _
    · exact pres_deleteRepWithCheck _ _
  case delS v =>
    split
    · exact pres_setSlot _ _ _
    · exact (pres_deleteRep _ _).trans (pres_setSlot _ _ _)
  case discS v =>
    split
    · exact Pres.refl _
    · exact pres_repDisconnect _ _
  case blockS v b => exact pres_modSlot _ _ _
  case unblockS v => exact pres_modSlot _ _ _
  case connS c v => exact (pres_setConn _ _ _).trans (pres_slotAddCb _ _ _)
  case newC c => exact pres_setConn _ _ _
  case cpC j i =>
    split
    · exact pres_setConn _ _ _
    · exact (pres_setConn _ _ _).trans (pres_slotAddCb _ _ _)
  case asgC d x =>
    have h1 : Pres s (match connTarget s d with
      | none => s
      | some v => slotRemCb v d s) := by
      split
      · exact Pres.refl _
      · exact pres_slotRemCb _ _ _
    split
    · exact h1.trans (pres_setConn _ _ _)
    · exact h1.trans ((pres_setConn _ _ _).trans (pres_slotAddCb _ _ _))
  case delC c =>
    refine Pres.trans ?_ (pres_setConn _ _ _)
    split
    · exact Pres.refl _
    · exact pres_slotRemCb _ _ _
  case discC c =>
    split
    · exact Pres.refl _
    · split
      · exact Pres.refl _
      · exact pres_repDisconnect _ _
  case blockC c b =>
    split
    · exact Pres.refl _
    · exact pres_modSlot _ _ _
  case unblockC c =>
    split
    · exact Pres.refl _
    · exact pres_modSlot _ _ _
  all_goals exact Pres.refl _

theorem pres_stepState (op : Op) (s : State) : Pres s (stepState op s) := by
  unfold stepState step
  split
  · exact Pres.refl _
  · split
    · exact Pres.refl _
    · simp only []
      split <;> exact pres_apply op s

/-- `RepBound` is an invariant of `stepState` -/
theorem step_repBound (op : Op) (s : State) : RepBound s → RepBound (stepState op s) :=
  fun hb => (pres_stepState op s hb).1

/-- one operation never runs out of fuel -/
theorem step_no_err (op : Op) (s : State) : RepBound s → s.err = false → (stepState op s).err = false :=
  fun hb he => (pres_stepState op s hb).2.trans he

theorem init_repBound : RepBound State.init := fun r h => by simp [State.init] at h

theorem init_no_err : State.init.err = false := rfl

theorem run_inv (ops : List Op) : RepBound (run ops) ∧ (run ops).err = false := by
  have h := pres_foldl (fun s op => stepState op s) (fun s op => pres_stepState op s) ops State.init
    init_repBound
  exact ⟨h.1, h.2.trans init_no_err⟩

theorem run_repBound (ops : List Op) : RepBound (run ops) := (run_inv ops).1

/-- no operation sequence runs out of fuel -/
theorem run_no_err (ops : List Op) : (run ops).err = false := (run_inv ops).2

end Sigc.SlotG
