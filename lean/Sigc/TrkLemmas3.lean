import Sigc.TrkLemmas2
/-!
  The full exactly-once invariant on the wider domain `History.Domain2` (callback bodies `rem` and `add`):
  `Valid`/`Inv`/`LInv` of TrkLemmas.lean redone over the round-aware `present2`
  (an in-round `add` on the trackable being notified registers nothing).
-/
namespace Sigc.Trk.W
open Sigc.Trk

/-- one step of `present2` given the round state `c` before the event -/
def stepQ (t : Nat) (c : Option Nat) (l : List (Nat × Nat)) : Ev → List (Nat × Nat)
  | .add r t' d => if t' = t ∧ c ≠ some t then l ++ [(r, d)] else l
  | .rem t' d => if t' = t then l.eraseP (fun x => x.2 == d) else l
  | .done t' => if t' = t then [] else l
  | _ => l

theorem stepP2_fst (t : Nat) (st : List (Nat × Nat) × Option Nat) (e : Ev) :
    (stepP2 t st e).1 = stepQ t st.2 st.1 e := by
  cases e <;> rfl

theorem fold_stepP2_snd (t : Nat) : ∀ (tr : List Ev) (st : List (Nat × Nat) × Option Nat),
    (tr.foldl (stepP2 t) st).2 = tr.foldl stepR st.2 := by
  intro tr
  induction tr with
  | nil => intro st; rfl
  | cons e tr ih => intro st; simp only [List.foldl_cons]; rw [ih]; rfl

@[simp] theorem present2_nil (t : Nat) : present2 t [] = [] := rfl

theorem present2_snoc (t : Nat) (tr : List Ev) (e : Ev) :
    present2 t (tr ++ [e]) = stepQ t (inRound tr) (present2 t tr) e := by
  simp only [present2, List.foldl_append, List.foldl_cons, List.foldl_nil, stepP2_fst, fold_stepP2_snd, inRound]

theorem present2_snoc2 (t : Nat) (tr : List Ev) (a b : Ev) :
    present2 t (tr ++ [a, b]) =
      stepQ t (stepR (inRound tr) a) (stepQ t (inRound tr) (present2 t tr) a) b := by
  have : tr ++ [a, b] = (tr ++ [a]) ++ [b] := by simp
  rw [this, present2_snoc, present2_snoc, inRound_snoc]

/-- what each event requires of the events before it -/
def StepOK (pre : List Ev) : Ev → Prop
  | .add r _ _ => r ∉ added pre
  | .rem _ _ => True
  | .trig _ => inRound pre = none
  | .deliver r d _ => ∃ t, inRound pre = some t ∧ (r, d) ∈ present2 t pre ∧ r ∉ delivered pre
  | .done t => inRound pre = some t ∧ ∀ x ∈ present2 t pre, x.1 ∈ delivered pre

inductive Valid : List Ev → Prop
  | nil : Valid []
  | snoc {tr : List Ev} {e : Ev} : Valid tr → StepOK tr e → Valid (tr ++ [e])

/-- the logical list only shrinks or grows by the event's own registration -/
theorem mem_stepQ {t : Nat} {c : Option Nat} {l : List (Nat × Nat)} {e : Ev} {x : Nat × Nat}
    (h : x ∈ stepQ t c l e) :
    x ∈ l ∨ ∃ d, e = .add x.1 t d ∧ x.2 = d := by
  cases e with
  | add r t' d =>
    simp only [stepQ] at h
    split at h
    · rename_i ht
      rcases List.mem_append.1 h with h | h
      · exact .inl h
      · simp at h; subst h; obtain ⟨ht, -⟩ := ht; subst ht; exact .inr ⟨d, rfl, rfl⟩
    · exact .inl h
  | rem t' d =>
    simp only [stepQ] at h
    split at h
    · exact .inl (List.mem_of_mem_eraseP h)
    · exact .inl h
  | done t' =>
    simp only [stepQ] at h
    split at h
    · simp at h
    · exact .inl h
  | trig t' => exact .inl h
  | deliver r d k => exact .inl h

theorem Valid.sub {tr : List Ev} (v : Valid tr) : ∀ t x, x ∈ present2 t tr → x.1 ∈ added tr := by
  induction v with
  | nil => intro t x h; simp at h
  | snoc v ok ih =>
    rename_i tr e
    intro t x h
    rw [present2_snoc] at h
    rw [added_snoc]
    rcases mem_stepQ h with h | ⟨d, he, _⟩
    · exact List.mem_append_left _ (ih t x h)
    · subst he; simp

theorem Valid.delivered_sub {tr : List Ev} (v : Valid tr) : ∀ r, r ∈ delivered tr → r ∈ added tr := by
  induction v with
  | nil => intro r h; simp at h
  | snoc v ok ih =>
    rename_i tr e
    intro r h
    rw [delivered_snoc] at h
    rw [added_snoc]
    rcases List.mem_append.1 h with h | h
    · exact List.mem_append_left _ (ih r h)
    · cases e <;> simp at h
      rename_i r' d k
      subst h
      obtain ⟨t, _, hp, _⟩ := ok
      exact List.mem_append_left _ (v.sub t _ hp)

theorem Valid.added_nodup {tr : List Ev} (v : Valid tr) : (added tr).Nodup := by
  induction v with
  | nil => simp
  | snoc v ok ih =>
    rename_i tr e
    rw [added_snoc]
    cases e <;> simp_all [StepOK, List.nodup_append]
    intro a ha hr; subst hr; exact ok ha

theorem Valid.delivered_nodup {tr : List Ev} (v : Valid tr) : (delivered tr).Nodup := by
  induction v with
  | nil => simp
  | snoc v ok ih =>
    rename_i tr e
    rw [delivered_snoc]
    cases e <;> simp_all [StepOK, List.nodup_append]
    obtain ⟨t, _, _, h⟩ := ok
    intro a ha hr; subst hr; exact h ha

theorem Valid.present_nodup {tr : List Ev} (v : Valid tr) : ∀ t, ((present2 t tr).map (·.1)).Nodup := by
  induction v with
  | nil => intro t; simp
  | snoc v ok ih =>
    rename_i tr e
    intro t
    rw [present2_snoc]
    cases e with
    | add r t' d =>
      simp only [stepQ]
      split
      · rw [List.map_append, List.nodup_append]
        refine ⟨ih t, by simp, ?_⟩
        intro a ha b hb hab
        simp at hb; subst hb; subst hab
        obtain ⟨x, hx, rfl⟩ := List.mem_map.1 ha
        exact ok (v.sub t x hx)
      · exact ih t
    | rem t' d =>
      simp only [stepQ]
      split
      · exact ((List.eraseP_sublist).map _).nodup (ih t)
      · exact ih t
    | done t' =>
      simp only [stepQ]
      split
      · simp
      · exact ih t
    | trig t' => exact ih t
    | deliver r d k => exact ih t

theorem Valid.disj {tr : List Ev} (v : Valid tr) :
    ∀ t t' x y, x ∈ present2 t tr → y ∈ present2 t' tr → x.1 = y.1 → t = t' := by
  induction v with
  | nil => intro t t' x y h; simp at h
  | snoc v ok ih =>
    rename_i tr e
    intro t t' x y hx hy hxy
    rw [present2_snoc] at hx hy
    rcases mem_stepQ hx with hx1 | ⟨d, he, _⟩
    · rcases mem_stepQ hy with hy1 | ⟨d', he', _⟩
      · exact ih t t' x y hx1 hy1 hxy
      · subst he'
        exact absurd (hxy ▸ v.sub t x hx1) ok
    · rcases mem_stepQ hy with hy1 | ⟨d', he', _⟩
      · subst he
        exact absurd (hxy ▸ v.sub t' y hy1) ok
      · subst he
        injection he' with _ h2 _

/-- outside a triggering event nothing that is still registered has been delivered; inside one, only
    registrations of the trackable being notified -/
theorem Valid.undelivered {tr : List Ev} (v : Valid tr) :
    ∀ t x, x ∈ present2 t tr → x.1 ∈ delivered tr → inRound tr = some t := by
  induction v with
  | nil => intro t x h; simp at h
  | snoc v ok ih =>
    rename_i tr e
    intro t x hx hd
    rw [present2_snoc] at hx
    rw [delivered_snoc] at hd
    rw [inRound_snoc]
    cases e with
    | add r t' d =>
      simp at hd
      rcases mem_stepQ hx with hx | ⟨d', he, _⟩
      · exact ih t x hx hd
      · injection he with h1 _ _
        exact absurd (h1 ▸ v.delivered_sub _ hd) ok
    | rem t' d =>
      simp at hd
      rcases mem_stepQ hx with hx | ⟨d', he, _⟩
      · exact ih t x hx hd
      · cases he
    | trig t' =>
      simp at hd
      have := ih t x hx hd
      rw [ok] at this; cases this
    | deliver r d k =>
      simp only [stepR]
      obtain ⟨t0, hr, hp, _⟩ := ok
      simp at hd
      rcases hd with hd | hd
      · exact ih t x hx hd
      · have : t = t0 := v.disj t t0 x (r, d) hx hp hd
        rw [this, hr]
    | done t' =>
      simp at hd
      simp only [stepQ] at hx
      split at hx
      · simp at hx
      · rename_i hne
        have := ih t x hx hd
        rw [ok.1] at this
        injection this with this
        exact absurd this hne

theorem Valid.split {tr : List Ev} (v : Valid tr) :
    ∀ pre e post, tr = pre ++ e :: post → Valid pre ∧ StepOK pre e := by
  induction v with
  | nil => intro pre e post h; simp at h
  | snoc v ok ih =>
    rename_i tr e0
    intro pre e post h
    rcases List.eq_nil_or_concat post with hp | ⟨post', e', hp⟩
    · subst hp
      have h' : tr ++ [e0] = pre ++ [e] := h
      obtain ⟨h1, h2⟩ := List.append_inj' h' rfl
      simp at h2; subst h1; subst h2
      exact ⟨v, ok⟩
    · subst hp
      have h' : tr ++ [e0] = (pre ++ e :: post') ++ [e'] := by simpa using h
      obtain ⟨h1, _⟩ := List.append_inj' h' rfl
      exact ih pre e post' h1


/-- invariant at operation boundaries -/
structure Inv (s : State) : Prop where
  noerr : s.err = none
  valid : Valid s.trace
  idle  : inRound s.trace = none
  pres  : ∀ t, present2 t s.trace = regsOf (s.objs t)
  live  : ∀ t, LiveAll (s.objs t)
  fresh : ∀ r ∈ added s.trace, r < s.nextReg

/-- invariant inside the delivery round on `t`; `dn ++ rest` are the registration ids of the list's
    nodes in order, the iterator stands on the head of `rest` -/
structure LInv (t : Nat) (s : State) (dn rest : List Nat) : Prop where
  noerr : s.err = none
  valid : Valid s.trace
  inr   : inRound s.trace = some t
  obj   : ∃ es, s.objs t = some ⟨some ⟨es, true⟩⟩ ∧ es.map (·.reg) = dn ++ rest ∧
            present2 t s.trace = liveRegs es ∧
            ∀ e ∈ es, e.reg ∈ dn → e.func.isSome = true → e.reg ∈ delivered s.trace
  nodup : (dn ++ rest).Nodup
  pend  : ∀ r ∈ rest, r ∉ delivered s.trace
  others : ∀ t', t' ≠ t → present2 t' s.trace = regsOf (s.objs t') ∧ LiveAll (s.objs t')
  fresh : ∀ r ∈ added s.trace, r < s.nextReg

theorem rem_LInv {t : Nat} {s : State} {dn rest : List Nat} (d : Nat) (h : LInv t s dn rest) :
    LInv t (removeDestroyNotify t d s) dn rest := by
  obtain ⟨es, ho, hmap, hpres, hdlv⟩ := h.obj
  have hs : removeDestroyNotify t d s =
      (s.emit (.rem t d)).upd t (some ⟨some ⟨removeLoop true d es, true⟩⟩) := by
    simp [removeDestroyNotify, ho, getList, CbList.removeCallback]
  rw [hs]
  refine ⟨by simpa using h.noerr, ?_, ?_, ?_, h.nodup, ?_, ?_, ?_⟩
  · simpa using Valid.snoc h.valid (e := .rem t d) trivial
  · simpa [inRound_snoc, stepR] using h.inr
  · refine ⟨removeLoop true d es, by simp, by rw [map_reg_removeLoop_true, hmap], ?_, ?_⟩
    · simp [present2_snoc, stepQ, hpres, liveRegs_removeLoop]
    · intro e he hdn hl
      simpa [delivered_snoc] using hdlv e (mem_removeLoop_true he hl) hdn hl
  · intro r hr
    simpa [delivered_snoc] using h.pend r hr
  · intro t' ht'
    have := h.others t' ht'
    simp only [upd_trace, emit_trace, present2_snoc, stepQ, upd_objs_other _ _ ht', emit_objs]
    rw [if_neg (Ne.symm ht')]
    exact this
  · intro r hr
    simpa [added_snoc] using h.fresh r (by simpa [added_snoc] using hr)

/-- an `add` from inside the round on `t`: ignored by the list, and by `present2` -/
theorem add_LInv {t : Nat} {s : State} {dn rest : List Nat} (d k : Nat) (h : LInv t s dn rest) :
    LInv t (addDestroyNotify t d k s) dn rest := by
  obtain ⟨es, ho, hmap, hpres, hdlv⟩ := h.obj
  have hs : addDestroyNotify t d k s =
      (({ s with nextReg := s.nextReg + 1 }).emit (.add s.nextReg t d)).upd t (some ⟨some ⟨es, true⟩⟩) := by
    simp [addDestroyNotify, ho, getList, CbList.addCallback]
  rw [hs]
  have hfresh : s.nextReg ∉ added s.trace := fun hm => Nat.lt_irrefl _ (h.fresh _ hm)
  refine ⟨by simpa [State.emit] using h.noerr, ?_, ?_, ?_, h.nodup, ?_, ?_, ?_⟩
  · simpa [State.emit] using Valid.snoc h.valid (e := .add s.nextReg t d) hfresh
  · simpa [State.emit, inRound_snoc, stepR] using h.inr
  · refine ⟨es, by simp, hmap, ?_, ?_⟩
    · simp [State.emit, present2_snoc, stepQ, hpres, h.inr]
    · intro e he hdn hl
      simpa [State.emit, delivered_snoc] using hdlv e he hdn hl
  · intro r hr
    simpa [State.emit, delivered_snoc] using h.pend r hr
  · intro t' ht'
    have := h.others t' ht'
    simp only [upd_trace, State.emit, present2_snoc, stepQ, upd_objs_other _ _ ht']
    rw [if_neg (fun hc => ht' hc.1.symm)]
    exact this
  · intro r hr
    simp [State.emit, added_snoc] at hr ⊢
    rcases hr with hr | hr
    · exact Nat.lt_succ_of_lt (h.fresh r hr)
    · omega

theorem body_LInv {t : Nat} {dn rest : List Nat} :
    ∀ (body : List BodyOp) (s : State), (∀ b ∈ body, b.isNotify = false) → LInv t s dn rest →
      LInv t (runBody t body s) dn rest := by
  intro body
  induction body with
  | nil => intro s _ h; exact h
  | cons b bs ih =>
    intro s hb h
    simp only [runBody, h.noerr, Option.isSome_none, Bool.false_eq_true, if_false]
    apply ih _ (fun b' hb' => hb b' (List.mem_cons_of_mem _ hb'))
    have hbr := hb b (List.mem_cons_self ..)
    cases b with
    | rem d => exact rem_LInv d h
    | add d k => exact add_LInv d k h
    | notify => simp [BodyOp.isNotify] at hbr

/-- advancing over node `r`, which (if live) has just been delivered -/
theorem call_LInv {sc : Scripts} (hsc : NoNotify sc) {t : Nat} {s : State} {dn rest : List Nat} {r : Nat}
    {e : Entry} (h : LInv t s dn (r :: rest)) (he : e ∈ entriesOf s t) (her : e.reg = r) :
    LInv t (callEntry sc t e s) (dn ++ [r]) rest := by
  obtain ⟨es, ho, hmap, hpres, hdlv⟩ := h.obj
  have hes : entriesOf s t = es := by simp [entriesOf, ho]
  rw [hes] at he
  have hnd : (dn ++ [r] ++ rest).Nodup := by simpa using h.nodup
  have hnodupes : (es.map (·.reg)).Nodup := by rw [hmap]; exact h.nodup
  have hr_rest : r ∉ rest := by
    have := h.nodup
    rw [List.nodup_append] at this
    have := this.2.1
    simp at this
    exact this.1
  unfold callEntry
  cases hf : e.func with
  | none =>
    simp only
    refine ⟨h.noerr, h.valid, h.inr, ⟨es, ho, by simp [hmap], hpres, ?_⟩, hnd, ?_, h.others, h.fresh⟩
    · intro e' he' hdn hl
      rcases List.mem_append.1 hdn with hdn | hdn
      · exact hdlv e' he' hdn hl
      · simp at hdn
        have : e' = e := eq_of_reg_eq hnodupes he' he (by rw [hdn, her])
        rw [this, hf] at hl; simp at hl
    · intro r' hr'; exact h.pend r' (List.mem_cons_of_mem _ hr')
  | some k =>
    simp only
    apply body_LInv _ _ (hsc k)
    have hundel : r ∉ delivered s.trace := h.pend r (List.mem_cons_self ..)
    refine ⟨by simpa using h.noerr, ?_, ?_, ⟨es, by simpa using ho, by simp [hmap], ?_, ?_⟩, hnd, ?_, ?_, ?_⟩
    · refine Valid.snoc h.valid ⟨t, h.inr, ?_, by rw [her]; exact hundel⟩
      rw [hpres, mem_liveRegs]
      exact ⟨e, he, by simp [hf], rfl⟩
    · simpa [inRound_snoc, stepR] using h.inr
    · simpa [present2_snoc, stepQ] using hpres
    · intro e' he' hdn hl
      simp only [emit_trace, delivered_snoc, List.mem_append, List.mem_singleton]
      rcases List.mem_append.1 hdn with hdn | hdn
      · exact .inl (hdlv e' he' hdn hl)
      · simp at hdn; exact .inr (by rw [hdn, her])
    · intro r' hr'
      simp only [emit_trace, delivered_snoc, List.mem_append, List.mem_singleton, not_or]
      refine ⟨h.pend r' (List.mem_cons_of_mem _ hr'), ?_⟩
      rw [her]; intro h'; exact hr_rest (h' ▸ hr')
    · intro t' ht'
      simpa [present2_snoc, stepQ] using h.others t' ht'
    · intro r' hr'
      simpa [added_snoc] using h.fresh r' (by simpa [added_snoc] using hr')

/-- the destructor loop reaches `end()` without error, every node visited, every live one delivered -/
theorem loop_LInv {sc : Scripts} (hsc : NoNotify sc) {t : Nat} :
    ∀ (rest dn : List Nat) (s : State) (f : Nat), LInv t s dn rest → rest.length ≤ f →
      LInv t (roundLoop sc f t rest.head? s) (dn ++ rest) [] := by
  intro rest
  induction rest with
  | nil =>
    intro dn s f h _
    simp only [List.head?_nil, roundLoop, List.append_nil]
    simpa using h
  | cons r rest ih =>
    intro dn s f h hf
    obtain ⟨f', rfl⟩ : ∃ f', f = f' + 1 := ⟨f - 1, by simp at hf; omega⟩
    obtain ⟨es, ho, hmap, -, -⟩ := h.obj
    have hes : entriesOf s t = es := by simp [entriesOf, ho]
    obtain ⟨e, hfind, hmem, hreg⟩ : ∃ e, es.find? (fun e => e.reg == r) = some e ∧ e ∈ es ∧ e.reg = r :=
      find_reg (by rw [hmap]; simp)
    have h1 := call_LInv hsc h (hes ▸ hmem) hreg
    obtain ⟨es1, ho1, hmap1, -, -⟩ := h1.obj
    have hes1 : entriesOf (callEntry sc t e s) t = es1 := by simp [entriesOf, ho1]
    have hr : r ∉ dn := by
      have := h.nodup
      rw [List.nodup_append] at this
      intro hm
      exact this.2.2 r hm r (List.mem_cons_self ..) rfl
    have hsucc : succOf r es1 = some rest.head? :=
      succOf_spec es1 dn rest (by simpa using hmap1) hr
    simp only [List.head?_cons, roundLoop, hes, hfind, h1.noerr, hes1, hsucc, Option.isSome_none,
      Bool.false_eq_true, if_false]
    have := ih (dn ++ [r]) _ f' h1 (by simp at hf; omega)
    simpa using this

theorem inv_pend {s : State} (h : Inv s) {t : Nat} {x : Nat × Nat} (hx : x ∈ present2 t s.trace) :
    x.1 ∉ delivered s.trace := by
  intro hd
  have := h.valid.undelivered t x hx hd
  rw [h.idle] at this; cases this

theorem notify_inv {sc : Scripts} (hsc : NoNotify sc) (t : Nat) {s : State} (h : Inv s) :
    Inv (notifyCallbacks sc t s) ∧
      (∀ o, s.objs t = some o → (notifyCallbacks sc t s).objs t = some ⟨none⟩) := by
  unfold notifyCallbacks
  cases ho : s.objs t with
  | none => exact ⟨h, by intro o ho'; cases ho'⟩
  | some o =>
    obtain ⟨cbs⟩ := o
    cases cbs with
    | none =>
      simp only
      have hp : present2 t s.trace = [] := by rw [h.pres t, ho]; rfl
      have v1 : Valid (s.trace ++ [.trig t]) := Valid.snoc h.valid h.idle
      have v2 : Valid (s.trace ++ [.trig t] ++ [.done t]) := by
        refine Valid.snoc v1 ⟨by simp [inRound_snoc, stepR], ?_⟩
        simp [present2_snoc, stepQ, hp]
      refine ⟨⟨by simpa using h.noerr, by simpa using v2,
        by simp [inRound_append, List.foldl, stepR], ?_, ?_, ?_⟩, ?_⟩
      · intro t'
        by_cases ht : t' = t
        · subst ht; simp [present2_snoc2, stepQ, ho, regsOf]
        · have hne : ¬ t = t' := fun e => ht e.symm
          simpa [present2_snoc2, stepQ, hne] using h.pres t'
      · intro t'; simpa using h.live t'
      · intro r hr
        exact h.fresh r (by simpa [added_append, added] using hr)
      · intro o _; simpa using ho
    | some l =>
      obtain ⟨es, cl⟩ := l
      obtain ⟨hcl, hlive⟩ := h.live t ⟨es, cl⟩ (by rw [ho])
      simp only at hcl hlive
      subst hcl
      have hp : present2 t s.trace = liveRegs es := by rw [h.pres t, ho]; rfl
      simp only [Bool.false_eq_true, if_false]
      -- invariant on entry of the loop
      have h0 : LInv t ((s.emit (.trig t)).upd t (some ⟨some ⟨es, true⟩⟩)) [] (es.map (·.reg)) := by
        refine ⟨by simpa using h.noerr, by simpa using Valid.snoc h.valid (e := .trig t) h.idle,
          by simp [inRound_snoc, stepR], ⟨es, by simp, by simp, ?_, ?_⟩, ?_, ?_, ?_, ?_⟩
        · simpa [present2_snoc, stepQ] using hp
        · intro e _ hdn; cases hdn
        · have := h.valid.present_nodup t
          rw [hp, liveRegs_all_live hlive] at this
          simpa [List.map_map, Function.comp_def] using this
        · intro r hr
          obtain ⟨e, he, rfl⟩ := List.mem_map.1 hr
          have hx : (e.reg, e.data) ∈ present2 t s.trace := by
            rw [hp, mem_liveRegs]; exact ⟨e, he, hlive e he, rfl⟩
          simpa [delivered_snoc] using inv_pend h hx
        · intro t' ht'
          simp only [upd_trace, emit_trace, present2_snoc, stepQ, upd_objs_other _ _ ht', emit_objs]
          exact ⟨h.pres t', h.live t'⟩
        · intro r hr; simpa [added_snoc] using h.fresh r (by simpa [added_snoc] using hr)
      have h2 := loop_LInv hsc (es.map (·.reg)) [] _ es.length h0 (by simp)
      rw [List.head?_map] at h2
      simp only [List.nil_append] at h2
      generalize roundLoop sc es.length t (Option.map (fun x => x.reg) es.head?)
        ((s.emit (.trig t)).upd t (some ⟨some ⟨es, true⟩⟩)) = s2 at h2
      simp only [h2.noerr, Option.isSome_none, Bool.false_eq_true, if_false]
      obtain ⟨es2, ho2, hmap2, hpres2, hdlv2⟩ := h2.obj
      refine ⟨⟨by simpa using h2.noerr, ?_, by simp [inRound_snoc, stepR], ?_, ?_, ?_⟩, ?_⟩
      · refine Valid.snoc h2.valid ⟨h2.inr, ?_⟩
        intro x hx
        simp only [upd_trace] at hx ⊢
        rw [hpres2, mem_liveRegs] at hx
        obtain ⟨e, he, hl, rfl⟩ := hx
        refine hdlv2 e he ?_ hl
        rw [List.append_nil] at hmap2
        rw [← hmap2]; exact List.mem_map.2 ⟨e, he, rfl⟩
      · intro t'
        by_cases ht : t' = t
        · subst ht; simp [present2_snoc, stepQ, regsOf]
        · have hne : ¬ t = t' := fun e => ht e.symm
          simp only [emit_trace, upd_trace, present2_snoc, stepQ, hne, if_false, emit_objs,
            upd_objs_other _ _ ht]
          exact (h2.others t' ht).1
      · intro t'
        by_cases ht : t' = t
        · subst ht; intro l hl; simp at hl
        · simp only [emit_objs, upd_objs_other _ _ ht]
          exact (h2.others t' ht).2
      · intro r hr; simpa [added_snoc] using h2.fresh r (by simpa [added_snoc] using hr)
      · intro o _; simp

theorem fresh_obj_inv {s : State} (h : Inv s) {t : Nat} (ht : s.objs t = none) :
    Inv (s.upd t (some ⟨none⟩)) := by
  refine ⟨by simpa using h.noerr, by simpa using h.valid, by simpa using h.idle, ?_, ?_,
    by simpa using h.fresh⟩
  · intro t'
    by_cases e : t' = t
    · subst e; simpa [ht, regsOf] using h.pres t'
    · simpa [upd_objs_other _ _ e] using h.pres t'
  · intro t'
    by_cases e : t' = t
    · subst e; intro l hl; simp at hl
    · simpa [upd_objs_other _ _ e] using h.live t'

theorem add_inv {s : State} (h : Inv s) (t d k : Nat) : Inv (addDestroyNotify t d k s) := by
  unfold addDestroyNotify
  cases ho : s.objs t with
  | none => exact h
  | some o =>
    simp only
    -- the list as `callback_list()` returns it: not clearing, all entries live
    obtain ⟨es, hget, hp, hl⟩ : ∃ es, getList o = ⟨es, false⟩ ∧ present2 t s.trace = liveRegs es ∧
        ∀ e ∈ es, e.func.isSome = true := by
      obtain ⟨cbs⟩ := o
      cases cbs with
      | none => exact ⟨[], rfl, by rw [h.pres t, ho]; rfl, by simp⟩
      | some l =>
        obtain ⟨es, cl⟩ := l
        obtain ⟨hcl, hlive⟩ := h.live t ⟨es, cl⟩ (by rw [ho])
        simp only at hcl hlive
        subst hcl
        exact ⟨es, rfl, by rw [h.pres t, ho]; rfl, hlive⟩
    rw [hget]
    simp only [CbList.addCallback, Bool.false_eq_true, if_false]
    have hfresh : s.nextReg ∉ added s.trace := fun hm => Nat.lt_irrefl _ (h.fresh _ hm)
    refine ⟨by simpa using h.noerr, ?_, ?_, ?_, ?_, ?_⟩
    · exact Valid.snoc h.valid hfresh
    · simpa [inRound_snoc, stepR, State.emit] using h.idle
    · intro t'
      by_cases e : t' = t
      · subst e
        simp [State.emit, present2_snoc, stepQ, hp, regsOf, liveRegs, List.filter_append, h.idle]
      · have hne : ¬ t = t' := fun x => e x.symm
        simpa [State.emit, upd_objs_other _ _ e, present2_snoc, stepQ, hne] using h.pres t'
    · intro t'
      by_cases e : t' = t
      · subst e
        intro l hl
        simp at hl; subst hl
        refine ⟨rfl, ?_⟩
        intro e he
        simp at he
        rcases he with he | he
        · exact hl e he
        · subst he; rfl
      · simpa [State.emit, upd_objs_other _ _ e] using h.live t'
    · intro r hr
      simp [State.emit, added_snoc] at hr ⊢
      rcases hr with hr | hr
      · exact Nat.lt_succ_of_lt (h.fresh r hr)
      · omega

theorem rem_inv {s : State} (h : Inv s) (t d : Nat) : Inv (removeDestroyNotify t d s) := by
  unfold removeDestroyNotify
  cases ho : s.objs t with
  | none => exact h
  | some o =>
    simp only
    obtain ⟨es, hget, hp, hl⟩ : ∃ es, getList o = ⟨es, false⟩ ∧ present2 t s.trace = liveRegs es ∧
        ∀ e ∈ es, e.func.isSome = true := by
      obtain ⟨cbs⟩ := o
      cases cbs with
      | none => exact ⟨[], rfl, by rw [h.pres t, ho]; rfl, by simp⟩
      | some l =>
        obtain ⟨es, cl⟩ := l
        obtain ⟨hcl, hlive⟩ := h.live t ⟨es, cl⟩ (by rw [ho])
        simp only at hcl hlive
        subst hcl
        exact ⟨es, rfl, by rw [h.pres t, ho]; rfl, hlive⟩
    rw [hget]
    simp only [CbList.removeCallback]
    refine ⟨by simpa using h.noerr, ?_, ?_, ?_, ?_, ?_⟩
    · simpa using Valid.snoc h.valid (e := .rem t d) trivial
    · simpa [inRound_snoc, stepR] using h.idle
    · intro t'
      by_cases e : t' = t
      · subst e
        simp [present2_snoc, stepQ, hp, regsOf, liveRegs_removeLoop]
      · have hne : ¬ t = t' := fun x => e x.symm
        simpa [upd_objs_other _ _ e, present2_snoc, stepQ, hne] using h.pres t'
    · intro t'
      by_cases e : t' = t
      · subst e
        intro l hl'
        simp at hl'; subst hl'
        exact ⟨rfl, fun e he => hl e (mem_removeLoop_false he)⟩
      · simpa [upd_objs_other _ _ e] using h.live t'
    · intro r hr
      simpa [added_snoc] using h.fresh r (by simpa [added_snoc] using hr)

theorem del_obj_inv {s : State} (h : Inv s) {t : Nat} (ht : s.objs t = some ⟨none⟩) :
    Inv (s.upd t none) := by
  refine ⟨by simpa using h.noerr, by simpa using h.valid, by simpa using h.idle, ?_, ?_,
    by simpa using h.fresh⟩
  · intro t'
    by_cases e : t' = t
    · subst e; simpa [ht, regsOf] using h.pres t'
    · simpa [upd_objs_other _ _ e] using h.pres t'
  · intro t'
    by_cases e : t' = t
    · subst e; intro l hl; simp at hl
    · simpa [upd_objs_other _ _ e] using h.live t'

theorem alive_iff {s : State} {t : Nat} : s.alive t = true ↔ ∃ o, s.objs t = some o := by
  simp [State.alive, Option.isSome_iff_exists]

theorem exec_inv {sc : Scripts} (hsc : NoNotify sc) {s : State} (h : Inv s) (op : Op)
    (hok : op.ok s = true) : Inv (exec sc op s) := by
  cases op with
  | new t =>
    simp [Op.ok, State.alive] at hok
    exact fresh_obj_inv h hok
  | add t d k => exact add_inv h t d k
  | rem t d => exact rem_inv h t d
  | copyCtor src dst =>
    simp [Op.ok, State.alive] at hok
    exact fresh_obj_inv h hok.2
  | moveCtor src dst =>
    simp [Op.ok, State.alive] at hok
    exact (notify_inv hsc src (fresh_obj_inv h hok.2)).1
  | assign dst src =>
    simp only [exec]
    split
    · exact (notify_inv hsc dst h).1
    · exact h
  | moveAssign dst src =>
    simp only [exec]
    split
    · have h1 := (notify_inv hsc dst h).1
      simp only [h1.noerr, Option.isSome_none, Bool.false_eq_true, if_false]
      exact (notify_inv hsc src h1).1
    · exact h
  | notify t => exact (notify_inv hsc t h).1
  | del t =>
    simp only [Op.ok] at hok
    obtain ⟨o, ho⟩ := alive_iff.1 hok
    obtain ⟨h1, h2⟩ := notify_inv hsc t h
    simp only [exec, h1.noerr, Option.isSome_none, Bool.false_eq_true, if_false]
    exact del_obj_inv h1 (h2 o ho)

theorem step_inv {sc : Scripts} (hsc : NoNotify sc) {s : State} (h : Inv s) (op : Op) :
    Inv (step sc op s) := by
  unfold step
  simp only [h.noerr, Option.isSome_none, Bool.false_eq_true, if_false]
  split
  · rename_i hok; exact exec_inv hsc h op hok
  · exact h

theorem runFrom_inv {sc : Scripts} (hsc : NoNotify sc) :
    ∀ (ops : List Op) (s : State), Inv s → Inv (runFrom sc ops s) := by
  intro ops
  induction ops with
  | nil => intro s h; exact h
  | cons op ops ih => intro s h; exact ih _ (step_inv hsc h op)

theorem init_inv : Inv State.init :=
  ⟨rfl, Valid.nil, rfl, fun _ => rfl, fun _ l hl => by simp [State.init] at hl, fun r hr => by simp [State.init] at hr⟩

theorem run_inv {h : History} (hd : h.Domain2 = true) : Inv (run h) :=
  runFrom_inv (History.noNotify hd) h.ops _ init_inv

/-- on a trace in which every `add` happens outside rounds (narrow domain) the two notions coincide -/
theorem present2_eq_present_of_valid {tr : List Ev} (v : Sigc.Trk.Valid tr) (t : Nat) :
    present2 t tr = present t tr := by
  induction v with
  | nil => rfl
  | snoc v ok ih =>
    rename_i tr e
    rw [present2_snoc, Sigc.Trk.present_snoc, ih]
    cases e with
    | add r t' d =>
      have h2 : inRound tr = none := ok.2
      simp [stepQ, stepP, h2]
    | rem t' d => rfl
    | trig t' => rfl
    | deliver r d k => rfl
    | done t' => rfl

theorem present2_eq_present_of_domain {h : History} (hd : h.Domain = true) (t : Nat) (pre post : List Ev)
    (e : (run h).trace = pre ++ post) : present2 t pre = present t pre := by
  have v := (Sigc.Trk.run_inv hd).valid
  cases post with
  | nil => rw [List.append_nil] at e; rw [← e]; exact present2_eq_present_of_valid v t
  | cons x post => exact present2_eq_present_of_valid (v.split pre x post e).1 t

end Sigc.Trk.W
