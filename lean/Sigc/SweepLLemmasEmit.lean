import Sigc.SweepLLemmasOps
/-!
  Lemmas about `Sigc/SweepL.lean`, part 4: **while `exec_count_ > 0` no cell leaves the list** (`step_sub`).
  This is what makes the snapshot form of the emission loop exact: every cell the loop is going to visit is still
  in the list when the loop reaches it, whatever the functor bodies did in between (`emission` looks it up again
  and would skip a missing one).
-/
namespace Sigc.SweepL

/-- every name in the list of `s` is still in the list of `s'` -/
def Sub (s s' : State) : Prop := ∀ c ∈ s.cells, ∃ c' ∈ s'.cells, c'.id = c.id

theorem Sub.refl (s : State) : Sub s s := fun c hc => ⟨c, hc, rfl⟩
theorem Sub.trans {a b c : State} (h1 : Sub a b) (h2 : Sub b c) : Sub a c := by
  intro x hx
  obtain ⟨y, hy, e1⟩ := h1 x hx
  obtain ⟨z, hz, e2⟩ := h2 y hy
  exact ⟨z, hz, e2.trans e1⟩

theorem Sub.of_ids {s s' : State} (h : ids s'.cells = ids s.cells) : Sub s s' := by
  intro c hc
  have : c.id ∈ ids s'.cells := by rw [h]; exact mem_ids.2 ⟨c, hc, rfl⟩
  exact mem_ids.1 this

theorem ids_discUnder (i : Nat) (s : State) : ids (discUnder i s).cells = ids s.cells := by
  unfold discUnder; split
  · split
    · exact ids_setDisc i s.cells
    · rfl
  · rfl

theorem ids_discAll (is : List Nat) (s : State) :
    ids (is.foldl (fun s i => discUnder i s) s).cells = ids s.cells := by
  induction is generalizing s with
  | nil => rfl
  | cons i is ih => simp only [List.foldl_cons]; rw [ih, ids_discUnder]

theorem unref_cells_of_exec (s : State) (h : s.exec - 1 ≠ 0) : (unref s).cells = s.cells := by
  simp only [unref]
  rw [if_neg (fun hc => h hc.1)]

theorem disconnect_sub (i : Nat) (s : State) (he : s.exec ≠ 0) : Sub s (disconnect i s) := by
  unfold disconnect
  split
  · exact Sub.refl s
  · split
    · exact Sub.of_ids (ids_setDisc i s.cells)
    · exact Sub.refl s

theorem clear_sub (s : State) (he : s.exec ≠ 0) : Sub s (clear s) := by
  unfold clear
  simp only
  have hdur : s.exec > 0 := by omega
  simp only [hdur, decide_true, ↓reduceIte]
  have hex : ((ids s.cells).foldl (fun s i => discUnder i s) { s with exec := s.exec + 1 }).exec = s.exec + 1 :=
    (discAll_spec_exec (ids s.cells) _)
  apply Sub.of_ids
  rw [unref_cells_of_exec _ (by rw [hex]; omega), ids_discAll]
where
  discAll_spec_exec (is : List Nat) (s : State) : (is.foldl (fun s i => discUnder i s) s).exec = s.exec := by
    induction is generalizing s with
    | nil => rfl
    | cons i is ih => simp only [List.foldl_cons]; rw [ih, (discUnder_same i s).exec]

theorem insertCell_sub (first : Bool) (k : Nat) (kd : Kind) (s : State) : Sub s (insertCell first k kd s) := by
  intro c hc
  refine ⟨c, ?_, rfl⟩
  unfold insertCell
  cases first <;> simp [hc]

theorem applyBase_sub (op : Op) (s : State) (he : s.exec ≠ 0) : Sub s (applyBase op s).1 := by
  cases op with
  | conn first k kd => exact insertCell_sub first k kd s
  | own k v => exact Sub.of_ids (ids_addOwned k v s.cells)
  | disc k => exact disconnect_sub k s he
  | connected k => exact Sub.refl s
  | clear => exact clear_sub s he
  | emit a => exact Sub.refl s
  | size => exact Sub.refl s
  | live f => exact Sub.refl s
  | bad l => exact Sub.refl s

theorem emission_sub (body : Op → State → State) (hbody : ∀ op s, Inv s → Good s (body op s))
    (hsub : ∀ op s, Inv s → s.exec ≠ 0 → Sub s (body op s))
    (P : Nat → List Op) (d a : Nat) {s : State} (h : Inv s) (he : s.exec ≠ 0) : Sub s (emission body P d a s) := by
  unfold emission
  split
  · exact Sub.refl s
  · simp only
    generalize hs1 : ({ s with exec := s.exec + 1, marks := s.marks + 1 } : State) = s1
    have h1 : Inv s1 := by
      subst hs1
      exact ⟨h.base.congr rfl rfl rfl, h.pend.congr rfl rfl, fun h0 => by simp at h0, by
        have := h.marks; simp only; omega, h.own.congr rfl rfl rfl⟩
    have hcells : s1.cells = s.cells := by subst hs1; rfl
    have hex1 : s1.exec = s.exec + 1 := by subst hs1; rfl
    rw [← hcells]
    have hfold : ∀ (ops : List Op) (s : State), Inv s → s.exec ≠ 0 →
        Inv (ops.foldl (fun s op => body op s) s) ∧ (ops.foldl (fun s op => body op s) s).exec = s.exec ∧
        Sub s (ops.foldl (fun s op => body op s) s) := by
      intro ops
      induction ops with
      | nil => intro s hs _; exact ⟨hs, rfl, Sub.refl s⟩
      | cons op ops ih =>
        intro s hs hes
        simp only [List.foldl_cons]
        obtain ⟨p, q⟩ := hbody op s hs
        obtain ⟨p', q', r'⟩ := ih (body op s) p (by rw [q.exec]; exact hes)
        exact ⟨p', q'.trans q.exec, (hsub op s hs hes).trans r'⟩
    have hloop : ∀ (is : List Nat) (s : State), Inv s → s.exec ≠ 0 →
        (fun s' => Inv s' ∧ s'.exec = s.exec ∧ Sub s s') (is.foldl (fun s i =>
        match find i s.cells with
        | some c =>
          if c.isEmpty then s
          else match c.kind.fid with
            | some f =>
              (P f).foldl (fun s op => body op s)
                { s with out := (toString (d + 1) ++ " call f" ++ toString f ++ " " ++ toString a) :: s.out }
            | none => s
        | none => s) s) := by
      intro is
      induction is with
      | nil => intro s hs _; exact ⟨hs, rfl, Sub.refl s⟩
      | cons i is ih =>
        intro s hs hes
        simp only [List.foldl_cons]
        have hstep : (fun s' => Inv s' ∧ s'.exec = s.exec ∧ Sub s s') (match find i s.cells with
          | some c =>
            if c.isEmpty then s
            else match c.kind.fid with
              | some f =>
                (P f).foldl (fun s op => body op s)
                  { s with out := (toString (d + 1) ++ " call f" ++ toString f ++ " " ++ toString a) :: s.out }
              | none => s
          | none => s) := by
          split
          · split
            · exact ⟨hs, rfl, Sub.refl s⟩
            · split
              · rename_i f _
                have hs' : Inv { s with out := (toString (d + 1) ++ " call f" ++ toString f ++ " " ++ toString a) :: s.out } :=
                  hs.congr rfl rfl rfl rfl rfl rfl rfl
                obtain ⟨p, q, r⟩ := hfold (P f) _ hs' hes
                exact ⟨p, q, fun c hc => r c hc⟩
              · exact ⟨hs, rfl, Sub.refl s⟩
          · exact ⟨hs, rfl, Sub.refl s⟩
        obtain ⟨p, q, r⟩ := hstep
        obtain ⟨p', q', r'⟩ := ih _ p (by rw [q]; exact hes)
        exact ⟨p', q'.trans q, r.trans r'⟩
    obtain ⟨h2, hex2, hsub2⟩ := hloop (ids s1.cells) s1 h1 (by rw [hex1]; omega)
    generalize hs2 : (ids s1.cells).foldl _ s1 = s2 at h2 hex2 hsub2
    have hun : (unref { s2 with marks := s2.marks - 1 }).cells = s2.cells := by
      rw [unref_cells_of_exec _ (by simp only; rw [hex2, hex1]; omega)]
    intro c hc
    obtain ⟨c', hc', hid⟩ := hsub2 c (hcells ▸ hc)
    exact ⟨c', by rw [hun]; exact hc', hid⟩

theorem log_cells (d : Nat) (t r : String) (s : State) : (log d t r s).cells = s.cells := rfl

theorem step_sub (P : Nat → List Op) (n : Nat) :
    ∀ (op : Op) (s : State), Inv s → s.exec ≠ 0 → Sub s (step P n op s) := by
  induction n with
  | zero =>
    intro op s h he
    unfold step
    simp only
    cases hc : check s op with
    | some r => exact Sub.refl s
    | none =>
      simp only
      cases op with
      | emit a => exact Sub.refl s
      | conn first k kd => exact applyBase_sub _ s he
      | own k v => exact applyBase_sub _ s he
      | disc k => exact applyBase_sub _ s he
      | connected k => exact applyBase_sub _ s he
      | clear => exact applyBase_sub _ s he
      | size => exact applyBase_sub _ s he
      | live f => exact applyBase_sub _ s he
      | bad l => exact applyBase_sub _ s he
  | succ n ih =>
    intro op s h he
    unfold step
    simp only
    cases hc : check s op with
    | some r => exact Sub.refl s
    | none =>
      simp only
      cases op with
      | emit a => exact emission_sub (step P n) (step_spec P n) ih P _ a h he
      | conn first k kd => exact applyBase_sub _ s he
      | own k v => exact applyBase_sub _ s he
      | disc k => exact applyBase_sub _ s he
      | connected k => exact applyBase_sub _ s he
      | clear => exact applyBase_sub _ s he
      | size => exact applyBase_sub _ s he
      | live f => exact applyBase_sub _ s he
      | bad l => exact applyBase_sub _ s he

end Sigc.SweepL
