import Sigc.SlotGLemmasWF2
/-!
  `WF` for `mvS`, the assignment operators, `setS`, `clrS`; then `step_wf` and `run_wf`.
-/
namespace Sigc.SlotG

/-! ### the Boolean tests of `check` -/

theorem hasParent_iff (s : State) (v : Nat) :
    hasParent s v = true ↔ ∃ r R p, repOf s v = some r ∧ s.reps r = some R ∧ R.parent = some p := by
  unfold hasParent repObj
  cases hr : repOf s v with
  | none => simp
  | some r =>
    cases hR : s.reps r with
    | none => simp [hR]
    | some R => cases hp : R.parent <;> simp [hR, hp]

theorem emptyVar_false_iff (s : State) (v : Nat) :
    emptyVar s v = false ↔ ∃ r R, repOf s v = some r ∧ s.reps r = some R ∧ R.call = true := by
  unfold emptyVar repObj
  cases hr : repOf s v with
  | none => simp
  | some r =>
    cases hR : s.reps r with
    | none => simp [hR]
    | some R => simp [hR]

/-- a change of `blocked_` is invisible to the tests -/
theorem tests_modSlot_blocked (s : State) (d : Nat) (b : Bool) (v : Nat) :
    let s0 := s.modSlot d fun D => { D with blocked := b }
    hasParent s0 v = hasParent s v ∧
    emptyVar s0 v = emptyVar s v ∧ ownedBy s0 v = ownedBy s v ∧ (s0.slots v).isSome = (s.slots v).isSome := by
  intro s0
  have hrep : ∀ w, repOf s0 w = repOf s w := fun w => repOf_modSlot_blocked s d b w
  have hreps : s0.reps = s.reps := reps_modSlot _ _ _
  have hobj : repObj s0 v = repObj s v := by unfold repObj; rw [hrep, hreps]
  refine ⟨by unfold hasParent; rw [hobj],
    by unfold emptyVar; rw [hobj], ?_, ?_⟩
  · unfold ownedBy anyRep; rw [hreps, nextRep_modSlot]
  · rw [slots_modSlot]; by_cases h : v = d <;> simp [h]

/-! ### really moving a representation out of its variable -/

/-- `src.rep_->notify_callbacks(); … src.rep_ = nullptr; src.blocked_ = false;` -/
def moveOut (x r : Nat) (s : State) : State := (weakNotify r s).setSlot x (some ⟨none, false⟩)

theorem moveOut_pre {s : State} (hw : WF s) {x r : Nat} {R : Rep} (hx : repOf s x = some r)
    (hR : s.reps r = some R) (hp : R.parent = none) :
    Inv (moveOut x r s) ∧ Idle (moveOut x r s) ∧
    (∀ q Q, (moveOut x r s).reps q = some Q → (∃ w, repOf (moveOut x r s) w = some q) ∨ q = r) ∧
    (moveOut x r s).reps r = some { R with cbs := [] } ∧
    (∀ w, repOf (moveOut x r s) w ≠ some r) ∧
    (∀ w, w ≠ x → (moveOut x r s).slots w = s.slots w) ∧
    (∀ q, q ≠ r → (moveOut x r s).reps q = s.reps q) := by
  have h := hw.invS
  have hc := conns_weakNotify r s R hR
  have hu := h.repUniq
  have hdisj : ∀ c, c ∈ R.cbs → ∀ q Q, s.reps q = some Q → c ∈ Q.cbs → q = r := by
    intro c hc1 q Q hQ hc2
    obtain ⟨w1, hw1, hr1⟩ := h.cbsConn r R c hR hc1
    obtain ⟨w2, hw2, hr2⟩ := h.cbsConn q Q c hQ hc2
    rw [hw1] at hw2; cases hw2
    rw [hr1] at hr2; cases hr2; rfl
  unfold moveOut
  have hinvS : InvS ((weakNotify r s).setSlot x (some ⟨none, false⟩)) := by
    refine { repAlive := ?_, repUniq := ?_, connReg := ?_, cbsConn := ?cc, cbsNodup := ?_, parentOk := ?_,
             trkReg := ?_, trkEnt := ?_, trkNodup := ?_, refOk := ?_, ownOk := ?_, nestOk := ?_, anonBound := ?_, repBound := ?_, ownCOk := ?_ }
    case cc =>
      intro q Q c hQ hcQ
      simp only [slotg_simp] at hQ ⊢
      by_cases hqr : q = r
      · subst hqr; simp [hR] at hQ; subst hQ; simp at hcQ
      · simp only [hqr, if_false] at hQ
        obtain ⟨w, hw, hrw⟩ := h.cbsConn q Q c hQ hcQ
        have hcn : c ∉ R.cbs := fun hm => hqr (hdisj c hm q Q hQ hcQ)
        have hwx : w ≠ x := fun he => by subst he; rw [hx] at hrw; cases hrw; exact hqr rfl
        exact ⟨w, by rw [hc c, if_neg hcn]; exact hw, by simp [hwx, hrw]⟩
    all_goals invs_clause h with [repOf_eq]
  have hinv := hinvS.inv
  refine ⟨hinv, ?_, ?_, ?_, ?_, ?_, ?_⟩
  · have := hw.idle; unfold Idle at *; st_simp; exact this
  · have := hw.held; unfold Held at *; st_simp; grind [repOf_eq]
  · st_simp; simp [hR]
  · st_simp; grind [repOf_eq]
  · intro w hwx; st_simp; simp [hwx]
  · intro q hq; st_simp; simp [hq]

theorem wf_mvS {s : State} (hw : WF s) {j i : Nat} (hj : s.slots j = none) (hnm : j < anonBase) :
    WF (apply (.mvS j i) s) := by
  simp only [apply]
  cases hi : s.slots i with
  | none => exact hw
  | some X =>
    simp only []
    have hnone : ∀ b, WF (s.setSlot j (some ⟨none, b⟩)) := by
      intro b
      have h := hw.inv
      refine ⟨by inv_auto h with [repOf_eq], ?_, ?_⟩
      · have := hw.idle; unfold Idle at *; st_simp; exact this
      · have := hw.held; unfold Held at *; st_simp; grind [repOf_eq]
    cases hr : X.rep with
    | none => exact hnone _
    | some r =>
      simp only []
      have hrep : repOf s i = some r := repOf_eq.mpr ⟨X, hi, hr⟩
      obtain ⟨R, hR⟩ := hw.inv.repAlive i r hrep
      by_cases hp : hasParent s i = true
      · simp only [hp, if_true]
        split
        · exact hnone _
        · obtain ⟨N, hF⟩ := fresh_cloneRep hw r
          exact wf_adopt_fresh hF _ hj hnm
      · simp only [hp]
        have hRp : R.parent = none := by
          cases hpp : R.parent with
          | none => rfl
          | some p => exact absurd ((hasParent_iff s i).mpr ⟨r, R, p, hrep, hR, hpp⟩) hp
        obtain ⟨h1, h2, h3, h4, h5, h6, -⟩ := moveOut_pre hw hrep hR hRp
        have hji : j ≠ i := by intro he; subst he; rw [hi] at hj; cases hj
        exact wf_adoptSet h1 h2 _ h3 h4 hRp rfl h5 (by rw [h6 j hji]; exact hj) hnm

/-! ### the exchange on a state with a fresh representation -/

theorem wf_exchange_fresh {s sN : State} {N : Rep} (hF : Fresh s sN N) {d : Nat}
    (hd : (s.slots d).isSome = true) (hnm : d < anonBase)
    (he : (exchangeRep d s.nextRep sN).err = false) : WF (exchangeRep d s.nextRep sN) := by
  have hdN : ∃ D, sN.slots d = some D := by
    have := hF.aliveS d hnm; rw [hd] at this
    cases hx : sN.slots d with
    | none => rw [hx] at this; simp at this
    | some D => exact ⟨D, rfl⟩
  exact wf_exchange hF.inv hF.idle hF.held hF.self hF.par hF.cbs hF.orph hdN he

end Sigc.SlotG
