import Lean.Meta.Tactic.Simp.RegisterCommand
/-! simp set used by the `SlotG` proofs: field projections of updated states -/
register_simp_attr slotg_simp
