import Sigc.SlotGLemmasWF3
/-!
  `WF` for the assignment operators, `setS`, `clrS`; `step_wf`, `run_wf`.
-/
namespace Sigc.SlotG

/-- an operation that is performed names program variables only -/
theorem check_named {s : State} {op : Op} (hc : check s op = none) : op.named = true ∧ check0 s op = none := by
  unfold check at hc
  by_cases hn : op.named = true
  · rw [if_pos hn] at hc; exact ⟨hn, hc⟩
  · rw [if_neg hn] at hc; cases hc

theorem isSome_of_not_dead {s : State} {v : Nat} (h : deadS s v = false) : (s.slots v).isSome = true := by
  unfold deadS at h; cases hx : s.slots v <;> simp_all

theorem wf_asgS {s : State} (hw : WF s) {d x : Nat} (hc : check0 s (.asgS d x) = none) (hnm : d < anonBase)
    (he : (apply (.asgS d x) s).err = false) : WF (apply (.asgS d x) s) := by
  simp only [check0] at hc
  split at hc
  · simp at hc
  · rename_i hdead
    simp only [Bool.or_eq_true, not_or, Bool.not_eq_true] at hdead
    have hd := isSome_of_not_dead hdead.1
    simp only [apply] at he ⊢
    cases hx : s.slots x with
    | none => exact hw
    | some X =>
      simp only [hx] at he ⊢
      have hXr : repOf s x = X.rep := by simp [repOf, hx]
      by_cases hsame : (repOf s d == X.rep) = true
      · simp only [hsame, if_true]; exact wf_modSlot_blocked hw d _
      · rw [if_neg hsame] at he ⊢
        have hsame' : (repOf s d == repOf s x) = false := by rw [hXr]; simpa using hsame
        simp only [hsame'] at hc
        by_cases hemp : emptyVar s x = true
        · simp only [hemp, if_true] at he hc ⊢
          exact wf_deleteRepWithCheck hw hnm he
        · rw [if_neg hemp] at he ⊢
          cases hr : X.rep with
          | none => exact hw
          | some r =>
            simp only [hr] at he ⊢
            obtain ⟨R, hR⟩ := hw.inv.repAlive x r (by rw [hXr]; exact hr)
            obtain ⟨N, hF⟩ := fresh_cloneRep hw r
            exact wf_exchange_fresh (fresh_modSlot_blocked hF d _) hd hnm he

theorem wf_masgS {s : State} (hw : WF s) {d x : Nat} (hc : check0 s (.masgS d x) = none) (hnm : d < anonBase)
    (he : (apply (.masgS d x) s).err = false) : WF (apply (.masgS d x) s) := by
  simp only [check0] at hc
  split at hc
  · simp at hc
  · rename_i hdead
    simp only [Bool.or_eq_true, not_or, Bool.not_eq_true] at hdead
    have hd := isSome_of_not_dead hdead.1
    simp only [apply] at he ⊢
    cases hx : s.slots x with
    | none => exact hw
    | some X =>
      simp only [hx] at he ⊢
      have hXr : repOf s x = X.rep := by simp [repOf, hx]
      by_cases hsame : (repOf s d == X.rep) = true
      · simp only [hsame, if_true]; exact wf_modSlot_blocked hw d _
      · rw [if_neg hsame] at he ⊢
        have hsame' : (repOf s d == repOf s x) = false := by rw [hXr]; simpa using hsame
        simp only [hsame'] at hc
        by_cases hemp : emptyVar s x = true
        · simp only [hemp, if_true] at he hc ⊢
          exact wf_deleteRepWithCheck hw hnm he
        · rw [if_neg hemp] at he ⊢
          cases hr : X.rep with
          | none => exact hw
          | some r =>
            simp only [hr] at he ⊢
            have hrx : repOf s x = some r := by rw [hXr]; exact hr
            obtain ⟨R, hR⟩ := hw.inv.repAlive x r hrx
            -- the state after `blocked_ = src.blocked_`
            generalize hs0 : (s.modSlot d fun D => { D with blocked := X.blocked }) = s0 at he ⊢
            have hw0 : WF s0 := by rw [← hs0]; exact wf_modSlot_blocked hw d _
            have ht := fun v => tests_modSlot_blocked s d X.blocked v
            simp only [hs0] at ht
            have hrep0 : ∀ w, repOf s0 w = repOf s w := by
              intro w; rw [← hs0]; exact repOf_modSlot_blocked s d _ w
            have hreps0 : s0.reps = s.reps := by rw [← hs0]; exact reps_modSlot _ _ _
            have hnext0 : s0.nextRep = s.nextRep := by rw [← hs0]; exact nextRep_modSlot _ _ _
            have hd0 : (s0.slots d).isSome = true := by rw [(ht d).2.2.2]; exact hd
            have hR0 : s0.reps r = some R := by rw [hreps0]; exact hR
            by_cases hpar : hasParent s x = true
            · simp only [hpar, if_true] at he ⊢
              obtain ⟨N, hF⟩ := fresh_cloneRep hw0 r
              rw [← hnext0] at he ⊢
              exact wf_exchange_fresh hF hd0 hnm he
            · rw [if_neg hpar] at he ⊢
              have hRp : R.parent = none := by
                cases hpp : R.parent with
                | none => rfl
                | some p => exact absurd ((hasParent_iff s x).mpr ⟨r, R, p, hrx, hR, hpp⟩) hpar
              obtain ⟨h1, h2, h3, h4, h5, h6, -⟩ := moveOut_pre hw0 (by rw [hrep0]; exact hrx) hR0 hRp
              have hdx : d ≠ x := by
                intro hdx; subst hdx
                rw [hXr] at hsame'; simp at hsame'
              have hdM : ∃ D, (moveOut x r s0).slots d = some D := by
                rw [h6 d hdx]
                cases hh : s0.slots d with
                | none => rw [hh] at hd0; simp at hd0
                | some D => exact ⟨D, rfl⟩
              exact wf_exchange h1 h2 h3 h4 hRp rfl h5 hdM he

theorem wf_setS {s : State} (hw : WF s) {d : Nat} {f : Fun} (hc : check0 s (.setS d f) = none) (hnm : d < anonBase)
    (hnf : ∀ v, v ∈ f.names.1 → v < anonBase)
    (he : (apply (.setS d f) s).err = false) : WF (apply (.setS d f) s) := by
  simp only [check0] at hc
  split at hc
  · simp at hc
  · rename_i hdead
    have hd := isSome_of_not_dead (by simpa using hdead)
    obtain ⟨N, hF0⟩ := fresh_newRep hw hc hnf
    have hF := fresh_modSlot_blocked hF0 d false
    exact wf_exchange_fresh hF hd hnm he

theorem wf_clrS {s : State} (hw : WF s) {d : Nat} (hc : check0 s (.clrS d) = none) (hnm : d < anonBase)
    (he : (apply (.clrS d) s).err = false) : WF (apply (.clrS d) s) := by
  simp only [check0] at hc
  split at hc
  · simp at hc
  · simp only [apply] at he ⊢
    split
    · exact wf_modSlot_blocked hw d false
    · rename_i r hr
      simp only [hr] at he
      exact wf_deleteRepWithCheck hw hnm he

/-! ### connections, continued -/

theorem setConn_setConn (s : State) (c : Nat) (a b : Option (Option Nat)) :
    (s.setConn c a).setConn c b = s.setConn c b := by
  unfold State.setConn
  congr 1
  funext x
  by_cases h : x = c <;> simp [h]

theorem connTarget_eq {s : State} {c v : Nat} : connTarget s c = some v ↔ s.conns c = some (some v) := by
  unfold connTarget
  cases s.conns c with
  | none => simp
  | some p => simp

theorem ownedC_detach {s : State} {v c c' : Nat} {o : Option (Option Nat)}
    (h : OwnedC ((slotRemCb v c s).setConn c o) c') : OwnedC s c' := by
  obtain ⟨r, R, f, hR, hf, ho⟩ := h
  rw [reps_setConn, slotRemCb_eq] at hR
  split at hR
  · exact ⟨r, R, f, hR, hf, ho⟩
  · obtain ⟨W, hW, hWf⟩ := modRep_fn_inv (g := fun R => { R with cbs := R.cbs.erase c }) (fun _ => rfl) hR
    exact ⟨r, W, f, hW, by rw [hWf]; exact hf, ho⟩

theorem wf_connOps {s : State} (hw : WF s) (op : Op) (hc : check0 s op = none)
    (hop : (∃ c v, op = .connS c v) ∨ (∃ c, op = .newC c) ∨ (∃ j i, op = .cpC j i) ∨
      (∃ d x, op = .asgC d x) ∨ (∃ c, op = .delC c)) : WF (apply op s) := by
  have hI := hw.inv
  rcases hop with ⟨c, v, rfl⟩ | ⟨c, rfl⟩ | ⟨j, i, rfl⟩ | ⟨d, x, rfl⟩ | ⟨c, rfl⟩
  · -- connS
    have hcd : s.conns c = none := by
      cases hx : s.conns c <;> cases hy : s.slots v <;> simp_all [check0, deadS, deadC]
    have hr : ∃ r, repOf s v = some r := by
      cases hx : repOf s v <;> cases hy : s.slots v <;> simp_all [check0, deadS, deadC]
    exact wf_attach hw (by intro w; rw [hcd]; simp) hr
  · -- newC
    have hcd : s.conns c = none := by cases hx : s.conns c <;> simp_all [check0, deadC]
    exact wf_setConn_none hw (by intro w; rw [hcd]; simp) _ (.inr rfl)
  · -- cpC
    have hjd : s.conns j = none := by
      cases hx : s.conns j <;> cases hy : s.conns i <;> simp_all [check0, deadC]
    have hj : ∀ w, s.conns j ≠ some (some w) := by intro w; rw [hjd]; simp
    simp only [apply]
    split
    · exact wf_setConn_none hw hj _ (.inr rfl)
    · rename_i v hv
      obtain ⟨r, R, hr, -, -⟩ := hw.connReg' (connTarget_eq.mp hv)
      exact wf_attach hw hj ⟨r, hr⟩
  · -- asgC
    simp only [apply]
    -- after the old registration is gone
    have key : ∀ s1, WF s1 → (∀ w, s1.conns d ≠ some (some w)) → (∀ w, repOf s1 w = repOf s w) →
        WF (match connTarget s x with
          | none => s1.setConn d (some none)
          | some v => slotAddCb v d (s1.setConn d (some (some v)))) := by
      intro s1 hw1 hd1 hrep1
      split
      · exact wf_setConn_none hw1 hd1 _ (.inr rfl)
      · rename_i v hv
        obtain ⟨r, R, hr, -, -⟩ := hw.connReg' (connTarget_eq.mp hv)
        exact wf_attach hw1 hd1 ⟨r, by rw [hrep1]; exact hr⟩
    cases hd : connTarget s d with
    | none =>
      simp only []
      refine key s hw ?_ (fun _ => rfl)
      intro w hw'; rw [connTarget_eq.mpr hw'] at hd; cases hd
    | some v =>
      simp only []
      obtain ⟨hw1, hd1⟩ := wf_detach hw (connTarget_eq.mp hd)
      have hrep1 : ∀ w, repOf ((slotRemCb v d s).setConn d (some none)) w = repOf s w := by
        intro w; rw [repOf_setConn, slotRemCb_eq]; split
        · rfl
        · rw [repOf_modRep]
      have := key _ hw1 hd1 hrep1
      simp only [setConn_setConn] at this
      exact this
  · -- delC
    have hno : ¬ OwnedC s c := by
      intro h
      have := (ownedCBy_iff hI.repBound c).mpr h
      cases hx : s.conns c <;> simp_all [check0, deadC]
    simp only [apply]
    cases hd : connTarget s c with
    | none =>
      simp only []
      refine wf_setConn_none hw ?_ _ (.inl ⟨rfl, hno⟩)
      intro w hw'; rw [connTarget_eq.mpr hw'] at hd; cases hd
    | some v =>
      simp only []
      obtain ⟨hw1, hd1⟩ := wf_detach hw (connTarget_eq.mp hd)
      have := wf_setConn_none hw1 hd1 none (.inl ⟨rfl, fun h => hno (ownedC_detach h)⟩)
      rw [setConn_setConn] at this
      exact this

/-! ### every operation -/

theorem apply_wf {s : State} (hw : WF s) (op : Op) (hc' : check s op = none)
    (he : (apply op s).err = false) : WF (apply op s) := by
  obtain ⟨hn, hc⟩ := check_named hc'
  clear hc'
  cases op with
  | newT t => exact wf_newT hw (by cases hx : s.trks t <;> simp_all [check0, deadT])
  | delT t => exact wf_delT hw (by cases hx : s.trks t <;> simp_all [check0, deadT]) he
  | notifyT t => exact wf_notifyT hw t he
  | mkS v f =>
    have h1 : s.slots v = none := by cases hx : s.slots v <;> simp_all [check0, deadS]
    have h2 : specCheck s f = none := by simp_all [check0, deadS]
    simp only [Op.named, Op.names, List.all_cons, Bool.and_eq_true, decide_eq_true_eq, List.all_eq_true] at hn
    exact wf_mkS hw h1 h2 hn.1 hn.2
  | mkS0 v =>
    exact wf_mkS0 hw (by cases hx : s.slots v <;> simp_all [check0, deadS]) (by simpa [Op.named, Op.names] using hn)
  | cpS j i =>
    have hn' : j < anonBase ∧ i < anonBase := by simpa [Op.named, Op.names] using hn
    exact wf_cpS hw (by cases hx : s.slots j <;> cases hy : s.slots i <;> simp_all [check0, deadS]) hn'.1
  | mvS j i =>
    have hn' : j < anonBase ∧ i < anonBase := by simpa [Op.named, Op.names] using hn
    exact wf_mvS hw (by cases hx : s.slots j <;> cases hy : s.slots i <;> simp_all [check0, deadS]) hn'.1
  | asgS d x =>
    have hn' : d < anonBase ∧ x < anonBase := by simpa [Op.named, Op.names] using hn
    exact wf_asgS hw hc hn'.1 he
  | masgS d x =>
    have hn' : d < anonBase ∧ x < anonBase := by simpa [Op.named, Op.names] using hn
    exact wf_masgS hw hc hn'.1 he
  | setS d f =>
    simp only [Op.named, Op.names, List.all_cons, Bool.and_eq_true, decide_eq_true_eq, List.all_eq_true] at hn
    exact wf_setS hw hc hn.1 hn.2 he
  | clrS d => exact wf_clrS hw hc (by simpa [Op.named, Op.names] using hn) he
  | delS v =>
    have h2 : pinnedOther s v = false := by
      cases hx : pinnedOther s v <;> cases hy : s.slots v <;> simp_all [check0, deadS]
    have h3 : ownedBy s v = false := by
      cases hx : ownedBy s v <;> cases hy : s.slots v <;> simp_all [check0, deadS]
    exact wf_delS hw h2 h3 he
  | discS v =>
    simp only [apply] at he ⊢
    split
    · exact hw
    · rename_i r hr; simp only [hr] at he; exact wf_repDisconnect hw r he
  | blockS v b => exact wf_modSlot_blocked hw v b
  | unblockS v => exact wf_modSlot_blocked hw v false
  | blockedS v => exact hw
  | emptyS v => exact hw
  | boolS v => exact hw
  | parentS v => exact hw
  | callS v a => exact hw
  | connS c v => exact wf_connOps hw _ hc (.inl ⟨c, v, rfl⟩)
  | newC c => exact wf_connOps hw _ hc (.inr (.inl ⟨c, rfl⟩))
  | cpC j i => exact wf_connOps hw _ hc (.inr (.inr (.inl ⟨j, i, rfl⟩)))
  | asgC d x => exact wf_connOps hw _ hc (.inr (.inr (.inr (.inl ⟨d, x, rfl⟩))))
  | delC c => exact wf_connOps hw _ hc (.inr (.inr (.inr (.inr ⟨c, rfl⟩))))
  | discC c =>
    simp only [apply] at he ⊢
    cases hv : connTarget s c with
    | none => exact hw
    | some v =>
      simp only [hv] at he ⊢
      cases hr : repOf s v with
      | none => exact hw
      | some r => simp only [hr] at he ⊢; exact wf_repDisconnect hw r he
  | connectedC c => exact hw
  | emptyC c => exact hw
  | blockedC c => exact hw
  | blockC c b =>
    simp only [apply]
    split
    · exact hw
    · exact wf_modSlot_blocked hw _ b
  | unblockC c =>
    simp only [apply]
    split
    · exact hw
    · exact wf_modSlot_blocked hw _ false
  | live fid => exact hw
  | bad => exact hw

theorem wf_init : WF State.init := by
  refine ⟨⟨?_, ?_, ?_, ?_, ?_, ?_, ?_, ?_, ?_, ?_, ?_, ?_, ?_, ?_, ?_, ?_, ?_⟩, ?_, ?_⟩ <;>
    simp [State.init, repOf, Idle, Held]

/-- one step of the language keeps the state well-formed -/
theorem step_wf {s : State} (hw : WF s) (op : Op) (he : (stepState op s).err = false) :
    WF (stepState op s) := by
  unfold stepState step at he ⊢
  cases hse : s.err with
  | true => simp only [if_true]; exact hw
  | false =>
    simp only [hse, Bool.false_eq_true, if_false] at he ⊢
    cases hc : check s op with
    | some e => simp only []; exact hw
    | none =>
      simp only [hc] at he ⊢
      have he' : (apply op s).err = false := by
        cases hx : (apply op s).err with
        | false => rfl
        | true => simp [hx] at he
      simp only [he', Bool.false_eq_true, if_false]
      exact apply_wf hw op hc he'

/-- every reachable state is well-formed (no fuel error can occur: `run_no_err`) -/
theorem run_wf_of_noerr (ops : List Op) : ∀ s, WF s → (ops.foldl (fun s op => stepState op s) s).err = false →
    WF (ops.foldl (fun s op => stepState op s) s) := by
  induction ops with
  | nil => intro s hw _; exact hw
  | cons op ops ih =>
    intro s hw he
    simp only [List.foldl_cons] at he ⊢
    have he1 : (stepState op s).err = false := by
      cases hx : (stepState op s).err with
      | false => rfl
      | true =>
        exfalso
        have : ∀ (l : List Op) (t : State), t.err = true → (l.foldl (fun s op => stepState op s) t).err = true := by
          intro l
          induction l with
          | nil => intro t ht; exact ht
          | cons o l ih2 =>
            intro t ht
            simp only [List.foldl_cons]
            apply ih2
            unfold stepState step; simp [ht]
        rw [this ops _ hx] at he; exact absurd he (by simp)
    exact ih _ (step_wf hw op he1) he

end Sigc.SlotG
