import Sigc.SlotGLemmasOps
/-!
  `WF` is preserved by the operations that delete a representation by name (`delS`, `clrS`, assignment from an
  empty source) and by the exchange of a variable's representation (both assignment operators, `setS`).
-/
namespace Sigc.SlotG

theorem pinnedOther_iff {s : State} (hb : ∀ r R, s.reps r = some R → r < s.nextRep) (v : Nat) :
    pinnedOther s v = true ↔ ∃ r R fid, s.reps r = some R ∧ R.fn = some (.sref fid v) ∧ repOf s v ≠ some r := by
  unfold pinnedOther
  rw [anyRep_iff hb]
  constructor
  · rintro ⟨r, R, hR, hp⟩
    simp only [Bool.and_eq_true, bne_iff_ne, ne_eq] at hp
    obtain ⟨hp1, hp2⟩ := hp
    unfold Rep.refs at hp1
    split at hp1
    · rename_i fid v' hfn
      exact ⟨r, R, fid, hR, by simp_all, hp2⟩
    · simp at hp1
  · rintro ⟨r, R, fid, hR, hf, hne⟩
    exact ⟨r, R, hR, by simp [Rep.refs, hf, hne]⟩

/-! ### `delS` -/

theorem apply_delS (v : Nat) (s : State) : apply (.delS v) s =
    match repOf s v with
    | none => s.setSlot v none
    | some r => (deleteRep r s).setSlot v none := rfl

theorem wf_delS {s : State} (hw : WF s) {v : Nat} (hnp : pinnedOther s v = false) (hno : ownedBy s v = false)
    (he : (apply (.delS v) s).err = false) : WF (apply (.delS v) s) := by
  have hI := hw.inv
  have hNO : ¬ Owned s v := fun h => by rw [(ownedBy_iff hI.repBound v).mpr h] at hno; simp at hno
  have hPO : ¬ ∃ r R fid, s.reps r = some R ∧ R.fn = some (.sref fid v) ∧ repOf s v ≠ some r := fun h => by
    rw [(pinnedOther_iff hI.repBound v).mpr h] at hnp; simp at hnp
  rw [apply_delS] at he ⊢
  cases hv : repOf s v with
  | none =>
    simp only []
    have hNP : ¬ Pinned s v := by
      rintro ⟨r, R, fid, hR, hf⟩
      exact hPO ⟨r, R, fid, hR, hf, by simp [hv]⟩
    refine ⟨inv_kill0 hI hv hNO hNP, ?_, ?_⟩
    · have := hw.idle; unfold Idle at *; st_simp; exact this
    · have := hw.held; unfold Held at *; st_simp; grind
  | some r =>
    simp only [hv] at he ⊢
    rw [deleteRep_setSlot] at he ⊢
    rw [err_killVar] at he
    obtain ⟨hC, hrest⟩ := destroyRep_spec (fuel s) r s hI
    obtain ⟨hI3, hP3⟩ := hrest he
    have hs3 : repOf (destroyRep (fuel s) r s) v = some r := by
      simp only [repOf, hC.slotsKeep v hNO]; exact hv
    obtain ⟨R3, hR3⟩ := hI3.repAlive v r hs3
    have hNO3 : ¬ Owned (destroyRep (fuel s) r s) v := fun h => hNO (hC.owned h)
    have hNP3 : ¬ Pinned (destroyRep (fuel s) r s) v := by
      rintro ⟨x, X', fid, hX', hf'⟩
      obtain ⟨X, hX, hfn, -⟩ := hC.reps x X' hX'
      have hfx : X.fn = some (.sref fid v) := by
        rcases hfn with h | h
        · rw [← h]; exact hf'
        · rw [h] at hf'; cases hf'
      have : repOf s v = some x := Classical.byContradiction fun hne => hPO ⟨x, X, fid, hX, hfx, hne⟩
      rw [hv] at this; cases this
      have := hP3 X' hX'
      rw [this] at hf'; cases hf'
    refine ⟨inv_killVar hI3 hs3 hR3 (hP3 R3 hR3) hNO3 hNP3, ?_, ?_⟩
    · have := idle_casc hC hw.idle; unfold Idle at *; st_simp; exact this
    · have h1 := held_casc hC hw.held
      have h2 := hI3.repUniq
      unfold Held at *; st_simp; grind

/-! ### allocation of a representation for a functor -/

@[slotg_simp] theorem reps_allocRep (R : Rep) (s : State) (x : Nat) :
    (allocRep R s).reps x = if x = s.nextRep then some R else s.reps x := rfl
@[slotg_simp] theorem slots_allocRep (R : Rep) (s : State) : (allocRep R s).slots = s.slots := rfl
@[slotg_simp] theorem trks_allocRep (R : Rep) (s : State) : (allocRep R s).trks = s.trks := rfl
@[slotg_simp] theorem conns_allocRep (R : Rep) (s : State) : (allocRep R s).conns = s.conns := rfl
@[slotg_simp] theorem nextRep_allocRep (R : Rep) (s : State) : (allocRep R s).nextRep = s.nextRep + 1 := rfl
@[slotg_simp] theorem err_allocRep (R : Rep) (s : State) : (allocRep R s).err = s.err := rfl
@[slotg_simp] theorem repOf_allocRep (R : Rep) (s : State) (v : Nat) : repOf (allocRep R s) v = repOf s v := rfl

/-- the functor may be instantiated in `s` (what `specCheck` tests, and what holds for a functor that is already
    stored in a representation) -/
structure FunOk (s : State) (f : Fun) : Prop where
  trk : ∀ t, f.trk = some t → ∃ T, s.trks t = some T
  ref : ∀ v, f.ref = some v → v < anonBase ∧ (∃ V, s.slots v = some V) ∧ ¬ Owned s v
  own : ∀ v, f.owns = some v → v < anonBase ∧ (∃ V, s.slots v = some V) ∧ ¬ Pinned s v
  flat : ∀ fid v d, f ≠ .nest fid v d
  conn : ∀ c, f.ownsC = some c → ∃ p, s.conns c = some p

/-- `new typed_slot_rep(functor)` / `clone()`: allocate `s.nextRep`, bind -/
def allocBind (c : Bool) (f : Fun) (s : State) : State :=
  bindFun s.nextRep f (allocRep ⟨c, none, some f, []⟩ s)

theorem fresh_entries {s : State} (hI : Inv s) (hidle0 : Idle s) (t : Nat) (T : Trk) (b : Bool)
    (ht : s.trks t = some T) : (s.nextRep, b) ∉ T.entries := by
  intro hxb
  have hb : b = true := by
    cases b with
    | true => rfl
    | false => exact absurd hxb ((hidle0 t T ht).2 _)
  subst hb
  obtain ⟨R, f, hR, -⟩ := hI.trkEnt t T _ ht hxb
  exact absurd (hI.repBound _ R hR) (Nat.lt_irrefl _)

theorem orphan_next {s : State} (hI : Inv s) (w : Nat) : repOf s w ≠ some s.nextRep := by
  intro h
  obtain ⟨R, hR⟩ := hI.repAlive w _ h
  exact absurd (hI.repBound _ R hR) (Nat.lt_irrefl _)

theorem mem_addEntry (n x : Nat) (b : Bool) (T : Trk) :
    (x, b) ∈ (addEntry n T).entries ↔ ((x, b) ∈ T.entries ∨ (T.clearing = false ∧ x = n ∧ b = true)) := by
  unfold addEntry; split <;> simp_all
theorem addEntry_nodup (n : Nat) (T : Trk) (h : (T.entries.map Prod.fst).Nodup)
    (hn : ∀ b, (n, b) ∉ T.entries) : ((addEntry n T).entries.map Prod.fst).Nodup := by
  unfold addEntry; split
  · exact h
  · simp only [List.map_append, List.map_cons, List.map_nil]
    rw [List.nodup_append]
    refine ⟨h, by simp, ?_⟩
    intro a ha b hb; simp at hb; subst hb; intro hab; subst hab
    obtain ⟨⟨x, y⟩, hxy, hx⟩ := List.mem_map.mp ha
    simp only at hx; subst hx; exact hn y hxy
theorem addEntry_clearing (n : Nat) (T : Trk) : (addEntry n T).clearing = T.clearing := by
  unfold addEntry; split <;> rfl

theorem bindFun_fn (r fid : Nat) (s : State) : bindFun r (.fn fid) s = s := rfl
theorem bindFun_mem (r fid t : Nat) (s : State) : bindFun r (.mem fid t) s = trkAdd t r s := rfl
theorem bindFun_sref (r fid v : Nat) (s : State) : bindFun r (.sref fid v) s = setParentIfNone v r s := rfl
theorem bindFun_own_some (r fid v t : Nat) (s : State) : bindFun r (.own fid v (some t)) s = trkAdd t r s := rfl
theorem bindFun_own_none (r fid v : Nat) (s : State) : bindFun r (.own fid v none) s = s := rfl

theorem bindFun_noRef (r : Nat) (f : Fun) (s : State) (hf : f.ref = none) :
    bindFun r f s = match f.trk with | none => s | some t => trkAdd t r s := by
  cases f with
  | fn fid => rfl
  | mem fid t => rfl
  | sref fid v => simp [Fun.ref] at hf
  | own fid v t => cases t <;> rfl
  | nest fid v d => simp [Fun.ref] at hf
  | ownc fid c => rfl

theorem orphan_modRep {s : State} (q : Nat) (g : Rep → Rep) (r : Nat) :
    Orphan (s.modRep q g) r ↔ Orphan s r := by
  unfold Orphan; simp only [repOf_modRep]

theorem modRep_fn_inv {s : State} {q : Nat} {g : Rep → Rep} (hg : ∀ Q, (g Q).fn = Q.fn) {r : Nat} {R : Rep}
    (hR : (s.modRep q g).reps r = some R) : ∃ W, s.reps r = some W ∧ W.fn = R.fn := by
  rw [reps_modRep] at hR
  by_cases hrq : r = q
  · simp only [hrq, if_true, Option.map_eq_some_iff] at hR
    obtain ⟨W, hW, rfl⟩ := hR
    exact ⟨W, by rw [hrq]; exact hW, (hg W).symm⟩
  · rw [if_neg hrq] at hR; exact ⟨R, hR, rfl⟩

theorem owned_modRep_fn {s : State} {q : Nat} {g : Rep → Rep} (hg : ∀ Q, (g Q).fn = Q.fn) {v : Nat}
    (h : Owned (s.modRep q g) v) : Owned s v := by
  obtain ⟨r, R, f, hR, hf, ho⟩ := h
  obtain ⟨W, hW, hWf⟩ := modRep_fn_inv hg hR
  exact ⟨r, W, f, hW, by rw [hWf]; exact hf, ho⟩

/-- the `refOk` clause carries over to a state whose representations keep their functors and whose variables
    stay alive -/
theorem refOk_transfer {s s' : State} (h : Inv s)
    (hfn : ∀ r R', s'.reps r = some R' → ∃ R, s.reps r = some R ∧ R.fn = R'.fn)
    (hsl : ∀ v V, s.slots v = some V → ∃ V', s'.slots v = some V') :
    ∀ r R fid v, s'.reps r = some R → R.fn = some (.sref fid v) →
      v < anonBase ∧ (∃ V, s'.slots v = some V) ∧ ¬ Owned s' v := by
  intro r R' fid v hR' hf
  obtain ⟨R, hR, hRf⟩ := hfn r R' hR'
  obtain ⟨h1, ⟨V, hV⟩, h3⟩ := h.refOk r R fid v hR (by rw [hRf]; exact hf)
  refine ⟨h1, hsl v V hV, ?_⟩
  rintro ⟨x, X', f, hX', hXf, ho⟩
  obtain ⟨X, hX, hXfn⟩ := hfn x X' hX'
  exact h3 ⟨x, X, f, hX, by rw [hXfn]; exact hXf, ho⟩

theorem inv_setPar {s : State} (h : Inv s) {n q v : Nat} {N : Rep} {f : Fun} (hn : s.reps n = some N)
    (hf : N.fn = some f) (hfr : f.ref = some v) (hq : repOf s v = some q) : Inv (s.modRep q (setPar n)) := by
  refine { repAlive := ?_, repUniq := ?_, connReg := ?cr, cbsConn := ?cc, regUniq := ?_, cbsNodup := ?_,
           parentOk := ?_, trkReg := ?_, trkEnt := ?_, trkNodup := ?_, refOk := ?ro, ownOk := ?_, nestOk := ?_, anonBound := ?_, repBound := ?_, regHeld := ?_, ownCOk := ?_ }
  case ro =>
    intro r R fid v' hR hfn
    obtain ⟨W, hW, hWf⟩ := modRep_fn_inv (setPar_fn n) hR
    obtain ⟨h1, h2, h3⟩ := h.refOk r W fid v' hW (by rw [hWf]; exact hfn)
    exact ⟨h1, by rw [slots_modRep]; exact h2, fun ho => h3 (owned_modRep_fn (setPar_fn n) ho)⟩
  case cr =>
    intro c w hcw
    rw [conns_modRep] at hcw
    obtain ⟨r, R, hR, hm, hor⟩ := h.connReg c w hcw
    refine ⟨r, if r = q then setPar n R else R, ?_, ?_, ?_⟩
    · rw [reps_modRep]
      by_cases hrq : r = q
      · subst hrq; simp [hR]
      · simp [hrq, hR]
    · by_cases hrq : r = q <;> simp [hrq, setPar_cbs, hm]
    · rw [repOf_modRep, orphan_modRep]; exact hor
  case cc =>
    intro r R c hR hm
    rw [reps_modRep] at hR
    have : ∃ W, s.reps r = some W ∧ c ∈ W.cbs := by
      by_cases hrq : r = q
      · simp only [hrq, if_true, Option.map_eq_some_iff] at hR
        obtain ⟨W, hW, rfl⟩ := hR
        exact ⟨W, by rw [hrq]; exact hW, by rw [setPar_cbs] at hm; exact hm⟩
      · rw [if_neg hrq] at hR; exact ⟨R, hR, hm⟩
    obtain ⟨W, hW, hmW⟩ := this
    obtain ⟨w, hw, hor⟩ := h.cbsConn r W c hW hmW
    exact ⟨w, by rw [conns_modRep]; exact hw, by rw [repOf_modRep, orphan_modRep]; exact hor⟩
  all_goals inv_clause h with [setPar_fn, setPar_cbs, setPar_parent]

set_option maxHeartbeats 1000000 in
theorem inv_allocBind {s : State} (h : Inv s) (hidle : Idle s) (c : Bool) {f : Fun} (hf : FunOk s f) :
    Inv (allocBind c f s) := by
  have hfresh := fresh_entries h hidle
  have horph := orphan_next h
  have hf1 := hf.trk; have hf2 := hf.ref; have hf3 := hf.own; have hf4 := hf.flat; have hf5 := hf.conn
  unfold allocBind Idle Pinned at *
  cases hfr : f.ref with
  | none =>
    rw [bindFun_noRef _ _ _ hfr]
    cases hft : f.trk with
    | none => simp only []; inv_auto h
    | some t =>
      simp only []
      refine { repAlive := ?_, repUniq := ?_, connReg := ?_, cbsConn := ?_, regUniq := ?_, cbsNodup := ?_,
               parentOk := ?_, trkReg := ?_, trkEnt := ?te, trkNodup := ?_, refOk := ?_, ownOk := ?_, nestOk := ?_, anonBound := ?_, repBound := ?_, regHeld := ?_, ownCOk := ?_ }
      case te =>
        intro t' T r ht hm
        simp only [slotg_simp] at ht ⊢
        by_cases htt : t' = t
        · subst htt
          simp only [if_true, Option.map_eq_some_iff] at ht
          obtain ⟨T0, hT0, rfl⟩ := ht
          rcases (mem_addEntry _ _ _ _).mp hm with hm0 | ⟨-, hr, -⟩
          · obtain ⟨R, f', hR, hf', hft'⟩ := h.trkEnt t' T0 r hT0 hm0
            have hne : r ≠ s.nextRep := fun he => by
              subst he; exact absurd (h.repBound _ R hR) (Nat.lt_irrefl _)
            exact ⟨R, f', by simp [hne, hR], hf', hft'⟩
          · subst hr; exact ⟨⟨c, none, some f, []⟩, f, by simp, rfl, hft⟩
        · simp only [htt, if_false] at ht
          obtain ⟨R, f', hR, hf', hft'⟩ := h.trkEnt t' T r ht hm
          have hne : r ≠ s.nextRep := fun he => by
            subst he; exact absurd (h.repBound _ R hR) (Nat.lt_irrefl _)
          exact ⟨R, f', by simp [hne, hR], hf', hft'⟩
      all_goals inv_clause h with [mem_addEntry, addEntry_nodup]
  | some v =>
    obtain ⟨fid, rfl⟩ : ∃ fid, f = .sref fid v := by
      cases f <;> simp [Fun.ref] at hfr
      · subst hfr; exact ⟨_, rfl⟩
      · exact absurd rfl (hf4 _ _ _)
    rw [bindFun_sref, setParentIfNone_eq, repOf_allocRep]
    have h1 : Inv (allocRep ⟨c, none, some (.sref fid v), []⟩ s) := by
      clear hfresh hidle hf1 hf3 hf4 hfr
      inv_auto h
    cases hq : repOf s v with
    | none => exact h1
    | some q =>
      simp only []
      exact inv_setPar h1 (N := ⟨c, none, some (.sref fid v), []⟩) (f := .sref fid v) (v := v)
        (by simp [reps_allocRep]) rfl rfl
        (by rw [repOf_allocRep]; exact hq)

end Sigc.SlotG
