import Sigc.SlotG
/-!
  An invalidated representation holds no functor.  `Mono ex s s'`: every representation of `s'` has lost its
  functor, or is exempt (`ex`), or is one of `s` with the same `call_` and the same functor — what every cascade
  does (`destroy()` sets `call_ = nullptr` and resets the functor in one go; `disconnect()` alone keeps the functor
  of the representation it is called on: the exemption).  No invariant is needed, only the definitions.
-/
namespace Sigc.SlotG
namespace NF

def Mono (ex : Nat → Prop) (s s' : State) : Prop :=
  ∀ x X', s'.reps x = some X' →
    X'.fn = none ∨ ex x ∨ ∃ X, s.reps x = some X ∧ X.call = X'.call ∧ X.fn = X'.fn

theorem Mono.refl (ex : Nat → Prop) (s : State) : Mono ex s s :=
  fun _ X' h => .inr (.inr ⟨X', h, rfl, rfl⟩)

theorem Mono.trans {ex : Nat → Prop} {a b c : State} (h1 : Mono ex a b) (h2 : Mono ex b c) : Mono ex a c := by
  intro x X'' h
  rcases h2 x X'' h with h | h | ⟨X', hX', hc, hf⟩
  · exact .inl h
  · exact .inr (.inl h)
  · rcases h1 x X' hX' with g | g | ⟨X, hX, gc, gf⟩
    · exact .inl (by rw [← hf]; exact g)
    · exact .inr (.inl g)
    · exact .inr (.inr ⟨X, hX, gc.trans hc, gf.trans hf⟩)

theorem Mono.weaken {ex ex' : Nat → Prop} {a b : State} (h : Mono ex a b) (hex : ∀ x, ex x → ex' x) :
    Mono ex' a b := by
  intro x X' hx
  rcases h x X' hx with g | g | g
  · exact .inl g
  · exact .inr (.inl (hex x g))
  · exact .inr (.inr g)

theorem Mono.of_eq {ex : Nat → Prop} {s s' : State} (h : s'.reps = s.reps) : Mono ex s s' := by
  intro x X' hx; rw [h] at hx; exact .inr (.inr ⟨X', hx, rfl, rfl⟩)

/-- the exempt representation is gone: no exemption is needed -/
theorem Mono.strengthen {ex : Nat → Prop} {a b : State} {r : Nat} (h : Mono (· = r) a b)
    (hr : b.reps r = none) : Mono ex a b := by
  intro x X' hx
  rcases h x X' hx with g | g | g
  · exact .inl g
  · subst g; rw [hr] at hx; cases hx
  · exact .inr (.inr g)

theorem modRep_reps (s : State) (r : Nat) (g : Rep → Rep) (x : Nat) :
    (s.modRep r g).reps x = if x = r then (s.reps x).map g else s.reps x := by
  unfold State.modRep
  split
  · rename_i R hR
    simp only [State.setRep]
    split
    · subst_vars; simp [hR]
    · rfl
  · rename_i hR
    split
    · subst_vars; simp [hR]
    · rfl

@[simp] theorem modSlot_reps (s : State) (v g) : (s.modSlot v g).reps = s.reps := by
  unfold State.modSlot; split <;> rfl

theorem mono_modRep (ex : Nat → Prop) (s : State) (r : Nat) (g : Rep → Rep)
    (hc : ∀ Q, (g Q).call = Q.call) (hf : ∀ Q, (g Q).fn = Q.fn) : Mono ex s (s.modRep r g) := by
  intro x X' hx
  rw [modRep_reps] at hx
  split at hx
  · rw [Option.map_eq_some_iff] at hx
    obtain ⟨X, hX, rfl⟩ := hx
    exact .inr (.inr ⟨X, hX, (hc X).symm, (hf X).symm⟩)
  · exact .inr (.inr ⟨X', hx, rfl, rfl⟩)

theorem mono_setRep_none (ex : Nat → Prop) (s : State) (r : Nat) : Mono ex s (s.setRep r none) := by
  intro x X' hx
  simp only [State.setRep] at hx
  split at hx
  · cases hx
  · exact .inr (.inr ⟨X', hx, rfl, rfl⟩)

theorem mono_setRep_same (ex : Nat → Prop) (s : State) (r : Nat) (R R' : Rep) (hR : s.reps r = some R)
    (hc : R'.call = R.call) (hf : R'.fn = R.fn) : Mono ex s (s.setRep r (some R')) := by
  intro x X' hx
  simp only [State.setRep] at hx
  split at hx
  · subst_vars; cases hx; exact .inr (.inr ⟨R, hR, hc.symm, hf.symm⟩)
  · exact .inr (.inr ⟨X', hx, rfl, rfl⟩)

@[simp] theorem trkAdd_reps (t r s) : (trkAdd t r s).reps = s.reps := by
  unfold trkAdd; split <;> try split
  all_goals rfl
@[simp] theorem trkRemove_reps (t r s) : (trkRemove t r s).reps = s.reps := by
  unfold trkRemove; split <;> rfl

theorem mono_setParentIfNone (ex : Nat → Prop) (v r : Nat) (s : State) : Mono ex s (setParentIfNone v r s) := by
  unfold setParentIfNone
  split
  · exact Mono.refl _ _
  · apply mono_modRep <;> (intro Q; split <;> rfl)

theorem mono_unsetParentIf (ex : Nat → Prop) (v r : Nat) (s : State) : Mono ex s (unsetParentIf v r s) := by
  unfold unsetParentIf
  split
  · exact Mono.refl _ _
  · apply mono_modRep <;> (intro Q; split <;> rfl)

theorem mono_bindFun (ex : Nat → Prop) (r : Nat) (f : Fun) (s : State) : Mono ex s (bindFun r f s) := by
  unfold bindFun
  split
  · exact Mono.refl _ _
  · exact Mono.of_eq (by simp)
  · exact mono_setParentIfNone _ _ _ _
  · exact Mono.of_eq (by simp)
  · exact Mono.refl _ _
  · exact mono_setParentIfNone _ _ _ _
  · exact Mono.refl _ _

theorem mono_unbindFun (ex : Nat → Prop) (r : Nat) (f : Fun) (s : State) : Mono ex s (unbindFun r f s) := by
  unfold unbindFun
  split
  · exact Mono.refl _ _
  · exact Mono.of_eq (by simp)
  · exact mono_unsetParentIf _ _ _ _
  · exact Mono.of_eq (by simp)
  · exact Mono.refl _ _
  · exact mono_unsetParentIf _ _ _ _
  · exact Mono.refl _ _

theorem mono_weakNotify (ex : Nat → Prop) (r : Nat) (s : State) : Mono ex s (weakNotify r s) := by
  unfold weakNotify
  split
  · exact Mono.refl _ _
  · rename_i R hR
    exact mono_setRep_same ex (nullConns R.cbs s) r R _ hR rfl rfl

/-- `call_ = nullptr`, unbind, reset the functor -/
theorem mono_dropFn (ex : Nat → Prop) (s : State) (r : Nat) (R : Rep) (f : Fun) :
    Mono ex s ((unbindFun r f (s.setRep r (some { R with call := false }))).modRep r
      fun R' => { R' with fn := none }) ∧
    ∀ X, ((unbindFun r f (s.setRep r (some { R with call := false }))).modRep r
      fun R' => { R' with fn := none }).reps r = some X → X.fn = none := by
  have key : ∀ X, ((unbindFun r f (s.setRep r (some { R with call := false }))).modRep r
      fun R' => { R' with fn := none }).reps r = some X → X.fn = none := by
    intro X hX
    rw [modRep_reps, if_pos rfl, Option.map_eq_some_iff] at hX
    obtain ⟨X0, -, rfl⟩ := hX
    rfl
  refine ⟨?_, key⟩
  intro x X' hx
  by_cases hxr : x = r
  · subst hxr; exact .inl (key X' hx)
  · rw [modRep_reps, if_neg hxr] at hx
    rcases mono_unbindFun ex r f _ x X' hx with g | g | ⟨X, hX, g1, g2⟩
    · exact .inl g
    · exact .inr (.inl g)
    · simp only [State.setRep, if_neg hxr] at hX
      exact .inr (.inr ⟨X, hX, g1, g2⟩)

/-- `~connection`: only a registration list changes -/
theorem mono_killConn (ex : Nat → Prop) (c : Nat) (s : State) : Mono ex s (killConn c s) := by
  unfold killConn slotRemCb
  refine Mono.trans ?_ (Mono.of_eq rfl)
  split
  · exact Mono.refl _ _
  · split
    · exact Mono.refl _ _
    · exact mono_modRep _ _ _ _ (fun _ => rfl) (fun _ => rfl)

def noEx : Nat → Prop := fun _ => False

theorem Mono.any {a b : State} (h : Mono noEx a b) (ex : Nat → Prop) : Mono ex a b :=
  h.weaken (fun _ hx => absurd hx id)

/-- `destroy()`: nothing but functors disappear; the destroyed representation itself has none afterwards -/
theorem destroyRep_spec : ∀ (k r : Nat) (s : State),
    Mono noEx s (destroyRep k r s) ∧ (0 < k → ∀ X', (destroyRep k r s).reps r = some X' → X'.fn = none) := by
  intro k
  induction k with
  | zero => intro r s; exact ⟨Mono.of_eq rfl, fun h => absurd h (Nat.lt_irrefl _)⟩
  | succ k ih =>
    intro r s
    rw [destroyRep]
    split
    · rename_i hR
      exact ⟨Mono.refl _ _, fun _ X' hX' => by rw [hR] at hX'; cases hX'⟩
    · rename_i R hR
      split
      · rename_i hf
        refine ⟨?_, ?_⟩
        · intro x X' hx
          simp only [State.setRep] at hx
          split at hx
          · cases hx; exact .inl hf
          · exact .inr (.inr ⟨X', hx, rfl, rfl⟩)
        · intro _ X' hX'
          simp only [State.setRep, if_true] at hX'
          cases hX'; exact hf
      · rename_i f hf
        simp only []
        obtain ⟨h02, hself⟩ := mono_dropFn noEx s r R f
        generalize ((unbindFun r f (s.setRep r (some { R with call := false }))).modRep r
          fun R' => { R' with fn := none }) = s2 at h02 hself ⊢
        -- whatever follows keeps `Mono` from `s2`
        have fin : ∀ c : State, Mono noEx s2 c →
            Mono noEx s c ∧ (0 < k + 1 → ∀ X', c.reps r = some X' → X'.fn = none) := by
          intro c hc
          refine ⟨h02.trans hc, fun _ X' hX' => ?_⟩
          rcases hc r X' hX' with g | g | ⟨X, hX, -, g⟩
          · exact g
          · exact absurd g id
          · rw [← g]; exact hself X hX
        split
        · split
          · exact fin _ (Mono.refl _ _)
          · split
            · exact fin _ (Mono.refl _ _)
            · exact fin _ (mono_killConn _ _ _)
        · split
          · exact fin _ (Mono.refl _ _)
          · split
            · exact fin _ (Mono.refl _ _)
            · split
              · exact fin _ (Mono.of_eq rfl)
              · rename_i r' _
                refine fin _ ?_
                exact (((ih r' s2).1.trans (mono_weakNotify _ _ _)).trans (mono_setRep_none _ _ _)).trans
                  (Mono.of_eq rfl)

theorem mono_destroyRep (ex : Nat → Prop) (k r : Nat) (s : State) : Mono ex s (destroyRep k r s) :=
  (destroyRep_spec k r s).1.any ex

theorem mono_deleteRep (ex : Nat → Prop) (r : Nat) (s : State) : Mono ex s (deleteRep r s) := by
  unfold deleteRep
  exact ((mono_destroyRep ex _ r s).trans (mono_weakNotify _ _ _)).trans (mono_setRep_none _ _ _)

theorem deleteRep_gone (r : Nat) (s : State) : (deleteRep r s).reps r = none := by
  unfold deleteRep; simp [State.setRep]

theorem fin_notify {s s2 : State} {r : Nat} {R : Rep}
    (h12 : Mono noEx (s.setRep r (some { R with call := false, parent := none })) s2) :
    Mono noEx s (if (s2.reps r).isSome then destroyRep (fuel s2) r s2 else s2) := by
  intro x X' hx
  by_cases hxr : x = r
  · subst hxr
    split at hx
    · exact .inl ((destroyRep_spec (fuel s2) x s2).2 (by unfold fuel; omega) X' hx)
    · rename_i hn; rw [hx] at hn; simp at hn
  · have h13 : Mono noEx (s.setRep r (some { R with call := false, parent := none }))
        (if (s2.reps r).isSome then destroyRep (fuel s2) r s2 else s2) := by
      split
      · exact h12.trans (mono_destroyRep _ _ _ _)
      · exact h12
    rcases h13 x X' hx with g | g | ⟨X, hX, g1, g2⟩
    · exact .inl g
    · exact .inr (.inl g)
    · simp only [State.setRep, if_neg hxr] at hX
      exact .inr (.inr ⟨X, hX, g1, g2⟩)

/-- `notify_slot_rep_invalidated`: the notified representation ends without functor (or is gone) -/
theorem mono_notifyInv : ∀ (k r : Nat) (s : State), Mono noEx s (notifyInv k r s) := by
  intro k
  induction k with
  | zero => intro r s; exact Mono.of_eq rfl
  | succ k ih =>
    intro r s
    rw [notifyInv]
    split
    · exact Mono.refl _ _
    · rename_i R hR
      simp only []
      cases hp : R.parent with
      | none => exact fin_notify (Mono.refl _ _)
      | some p => exact fin_notify (ih _ _)

/-- `disconnect()` keeps the functor of the representation it is called on -/
theorem mono_repDisconnect (r : Nat) (s : State) : Mono (· = r) s (repDisconnect r s) := by
  unfold repDisconnect
  split
  · exact Mono.refl _ _
  · rename_i R hR
    simp only []
    have h01 : Mono (· = r) s (s.setRep r (some { R with call := false, parent := none })) := by
      intro x X' hx
      simp only [State.setRep] at hx
      split at hx
      · rename_i h; exact .inr (.inl h)
      · exact .inr (.inr ⟨X', hx, rfl, rfl⟩)
    split
    · exact h01
    · exact h01.trans ((mono_notifyInv _ _ _).any _)

theorem mono_deleteRepWithCheck (ex : Nat → Prop) (v : Nat) (s : State) :
    Mono ex s (deleteRepWithCheck v s) := by
  unfold deleteRepWithCheck
  split
  · exact Mono.refl _ _
  · rename_i r _
    simp only []
    split
    · refine Mono.strengthen (r := r) ?_ (deleteRep_gone _ _)
      exact ((mono_repDisconnect r s).trans (Mono.of_eq (by simp))).trans
        ((mono_weakNotify _ _ _).trans (mono_deleteRep _ _ _))
    · rename_i hn
      refine Mono.strengthen (r := r) (mono_repDisconnect r s) ?_
      cases hx : (repDisconnect r s).reps r with
      | none => rfl
      | some X => rw [hx] at hn; simp at hn

theorem mono_trkFold (t : Nat) : ∀ (es : List (Nat × Bool)) (s : State),
    Mono noEx s (es.foldl (fun s e => if entryActive s t e.1 then notifyInv (fuel s) e.1 s else s) s) := by
  intro es
  induction es with
  | nil => intro s; exact Mono.refl _ _
  | cons e es ih =>
    intro s
    simp only [List.foldl_cons]
    refine Mono.trans ?_ (ih _)
    split
    · exact mono_notifyInv _ _ _
    · exact Mono.refl _ _

theorem mono_trkNotify (ex : Nat → Prop) (t : Nat) (s : State) : Mono ex s (trkNotify t s) := by
  unfold trkNotify
  split
  · exact Mono.refl _ _
  · rename_i T _
    simp only []
    refine Mono.any ?_ ex
    have h1 : Mono noEx s (s.setTrk t (some { T with clearing := true })) := Mono.of_eq rfl
    exact (h1.trans (mono_trkFold t _ _)).trans (Mono.of_eq rfl)

theorem mono_exchangeRep (ex : Nat → Prop) (d n : Nat) (s : State) : Mono ex s (exchangeRep d n s) := by
  unfold exchangeRep
  split
  · exact Mono.of_eq (by simp)
  · simp only []
    refine Mono.trans ?_ (mono_deleteRep _ _ _)
    refine Mono.trans ?_ (mono_weakNotify _ _ _)
    refine Mono.trans ?_ (Mono.of_eq (modSlot_reps _ _ _))
    exact mono_modRep _ _ _ _ (fun _ => rfl) (fun _ => rfl)

theorem mono_slotAddCb (ex : Nat → Prop) (v c : Nat) (s : State) : Mono ex s (slotAddCb v c s) := by
  unfold slotAddCb; split
  · exact Mono.refl _ _
  · exact mono_modRep _ _ _ _ (fun _ => rfl) (fun _ => rfl)

theorem mono_slotRemCb (ex : Nat → Prop) (v c : Nat) (s : State) : Mono ex s (slotRemCb v c s) := by
  unfold slotRemCb; split
  · exact Mono.refl _ _
  · exact mono_modRep _ _ _ _ (fun _ => rfl) (fun _ => rfl)

/-! ### allocation -/

/-- an invalid representation of `s'` has no functor, or is exempt, or was there — invalid, same functor — in `s` -/
def Inval (ex : Nat → Prop) (s s' : State) : Prop :=
  ∀ x X', s'.reps x = some X' → X'.call = false →
    X'.fn = none ∨ ex x ∨ ∃ X, s.reps x = some X ∧ X.call = false ∧ X.fn = X'.fn

theorem Mono.inval {ex : Nat → Prop} {s s' : State} (h : Mono ex s s') : Inval ex s s' := by
  intro x X' hx hc
  rcases h x X' hx with g | g | ⟨X, hX, g1, g2⟩
  · exact .inl g
  · exact .inr (.inl g)
  · exact .inr (.inr ⟨X, hX, g1.trans hc, g2⟩)

theorem Inval.trans {ex : Nat → Prop} {a b c : State} (h1 : Inval ex a b) (h2 : Inval ex b c) : Inval ex a c := by
  intro x X'' h hc
  rcases h2 x X'' h hc with g | g | ⟨X', hX', hc', hf⟩
  · exact .inl g
  · exact .inr (.inl g)
  · rcases h1 x X' hX' hc' with g | g | ⟨X, hX, gc, gf⟩
    · exact .inl (by rw [← hf]; exact g)
    · exact .inr (.inl g)
    · exact .inr (.inr ⟨X, hX, gc, gf.trans hf⟩)

/-- representation identities below `s.nextRep` keep their `call_` -/
def KeepLow (s s' : State) : Prop :=
  s.nextRep ≤ s'.nextRep ∧ ∀ x, x < s.nextRep → (s'.reps x).map (·.call) = (s.reps x).map (·.call)

theorem KeepLow.refl (s : State) : KeepLow s s := ⟨Nat.le_refl _, fun _ _ => rfl⟩
theorem KeepLow.trans {a b c : State} (h1 : KeepLow a b) (h2 : KeepLow b c) : KeepLow a c :=
  ⟨Nat.le_trans h1.1 h2.1, fun x hx => (h2.2 x (Nat.lt_of_lt_of_le hx h1.1)).trans (h1.2 x hx)⟩
theorem KeepLow.of_eq {s s' : State} (hn : s'.nextRep = s.nextRep) (hr : s'.reps = s.reps) : KeepLow s s' :=
  ⟨by rw [hn]; exact Nat.le_refl _, fun x _ => by rw [hr]⟩

@[simp] theorem modRep_nextRep (s : State) (r g) : (s.modRep r g).nextRep = s.nextRep := by
  unfold State.modRep; split <;> rfl
@[simp] theorem modSlot_nextRep (s : State) (v g) : (s.modSlot v g).nextRep = s.nextRep := by
  unfold State.modSlot; split <;> rfl
@[simp] theorem trkAdd_nextRep (t r s) : (trkAdd t r s).nextRep = s.nextRep := by
  unfold trkAdd; split <;> try split
  all_goals rfl

theorem keepLow_modRep (s : State) (r : Nat) (g : Rep → Rep) (hc : ∀ Q, (g Q).call = Q.call) :
    KeepLow s (s.modRep r g) := by
  refine ⟨by simp, fun x _ => ?_⟩
  rw [modRep_reps]
  split
  · cases s.reps x <;> simp [hc]
  · rfl

theorem keepLow_setParentIfNone (v r : Nat) (s : State) : KeepLow s (setParentIfNone v r s) := by
  unfold setParentIfNone
  split
  · exact KeepLow.refl _
  · apply keepLow_modRep; intro Q; split <;> rfl

theorem keepLow_bindFun (r : Nat) (f : Fun) (s : State) : KeepLow s (bindFun r f s) := by
  unfold bindFun
  split
  · exact KeepLow.refl _
  · exact KeepLow.of_eq (by simp) (by simp)
  · exact keepLow_setParentIfNone _ _ _
  · exact KeepLow.of_eq (by simp) (by simp)
  · exact KeepLow.refl _
  · exact keepLow_setParentIfNone _ _ _
  · exact KeepLow.refl _

theorem keepLow_allocRep (R : Rep) (s : State) : KeepLow s (allocRep R s) := by
  refine ⟨Nat.le_succ _, fun x hx => ?_⟩
  show ((if x = s.nextRep then some R else s.reps x).map (·.call)) = _
  rw [if_neg (by omega)]

theorem inval_allocRep (ex : Nat → Prop) (R : Rep) (s : State) (h : R.call = false → R.fn = none) :
    Inval ex s (allocRep R s) := by
  intro x X' hx hc
  have hx' : (if x = s.nextRep then some R else s.reps x) = some X' := hx
  split at hx'
  · cases hx'; exact .inl (h hc)
  · exact .inr (.inr ⟨X', hx', hc, rfl⟩)

/-- the pair carried through the recursive clone -/
def Grow (ex : Nat → Prop) (s s' : State) : Prop := Inval ex s s' ∧ KeepLow s s'

theorem Grow.trans {ex : Nat → Prop} {a b c : State} (h1 : Grow ex a b) (h2 : Grow ex b c) : Grow ex a c :=
  ⟨h1.1.trans h2.1, h1.2.trans h2.2⟩

theorem grow_setSlot (ex : Nat → Prop) (s : State) (v : Nat) (o : Option SVar) : Grow ex s (s.setSlot v o) :=
  ⟨(Mono.of_eq rfl).inval, KeepLow.of_eq rfl rfl⟩

theorem grow_allocRep (ex : Nat → Prop) (R : Rep) (s : State) (h : R.call = false → R.fn = none) :
    Grow ex s (allocRep R s) := ⟨inval_allocRep ex R s h, keepLow_allocRep R s⟩

theorem grow_bindFun (ex : Nat → Prop) (r : Nat) (f : Fun) (s : State) : Grow ex s (bindFun r f s) :=
  ⟨(mono_bindFun ex r f s).inval, keepLow_bindFun r f s⟩

theorem grow_bindFunX (ex : Nat → Prop) (e : Bool) (r : Nat) (f : Fun) (s : State) :
    Grow ex s (bindFunX e r f s) := by
  unfold bindFunX; split
  · exact ⟨(Mono.refl _ _).inval, KeepLow.refl _⟩
  · exact grow_bindFun _ _ _ _

theorem grow_ite (ex : Nat → Prop) (c : Prop) [Decidable c] (s A B : State) (hA : c → Grow ex s A)
    (hB : ¬ c → Grow ex s B) : Grow ex s (if c then A else B) := by
  split
  · exact hA ‹_›
  · exact hB ‹_›

/-- storing the functor in a valid representation object, then the bind visit -/
theorem grow_nestFinish (ex : Nat → Prop) (n fid dd j : Nat) (s : State)
    (hn : ∀ N, s.reps n = some N → N.call = true) : Grow ex s (nestFinish n fid dd j s) := by
  unfold nestFinish
  refine Grow.trans ?_ ⟨(mono_setParentIfNone ex j n _).inval, keepLow_setParentIfNone j n _⟩
  refine ⟨?_, keepLow_modRep _ _ _ (fun _ => rfl)⟩
  intro x X' hx hc
  rw [modRep_reps] at hx
  split at hx
  · rw [Option.map_eq_some_iff] at hx
    obtain ⟨N, hN, rfl⟩ := hx
    subst_vars
    have := hn N hN
    simp only [this] at hc
    cases hc
  · exact .inr (.inr ⟨X', hx, hc, rfl⟩)

theorem valid_of_keepLow {s1 s2 : State} {n : Nat} {c : Bool} (h : KeepLow s1 s2) (hn : n < s1.nextRep)
    (h1 : (s1.reps n).map (·.call) = some c) : ∀ N, s2.reps n = some N → N.call = c := by
  intro N hN
  have := h.2 n hn
  rw [hN, h1] at this
  simpa using this

theorem grow_cloneRepD (ex : Nat → Prop) (e : Bool) : ∀ (d r : Nat) (s : State),
    (∀ R, s.reps r = some R → R.call = true) → Grow ex s (cloneRepD e d r s) := by
  intro d
  induction d with
  | zero =>
    intro r s hv
    rw [cloneRepD]
    split
    · exact grow_allocRep _ _ _ (fun _ => rfl)
    · rename_i R hR
      split
      · exact grow_allocRep _ _ _ (fun _ => rfl)
      · exact grow_allocRep _ _ _ (fun _ => rfl)
      · exact (grow_allocRep _ _ _ (fun h => by simp [hv R hR] at h)).trans (grow_bindFunX _ _ _ _ _)
  | succ d' ih =>
    intro r s hv
    rw [cloneRepD]
    split
    · exact grow_allocRep _ _ _ (fun _ => rfl)
    · rename_i R hR
      split
      · exact grow_allocRep _ _ _ (fun _ => rfl)
      · simp only []
        have hcall := hv R hR
        have h01 : Grow ex s (allocRep ⟨R.call, none, none, []⟩ s) := grow_allocRep _ _ _ (fun _ => rfl)
        have hself : ((allocRep ⟨R.call, none, none, []⟩ s).reps s.nextRep).map (·.call) = some true := by
          show ((if s.nextRep = s.nextRep then some (⟨R.call, none, none, []⟩ : Rep) else s.reps s.nextRep).map
            (·.call)) = some true
          simp [hcall]
        have hlt : s.nextRep < (allocRep ⟨R.call, none, none, []⟩ s).nextRep := Nat.lt_succ_self _
        -- the bound copy
        have fin : ∀ s2, Grow ex (allocRep ⟨R.call, none, none, []⟩ s) s2 →
            ∀ fid dd j, Grow ex s (nestFinish s.nextRep fid dd j s2) := by
          intro s2 h12 fid dd j
          exact (h01.trans h12).trans (grow_nestFinish ex _ _ _ _ s2 (valid_of_keepLow h12.2 hlt hself))
        apply fin
        split
        · exact grow_setSlot _ _ _ _
        · split
          · exact grow_setSlot _ _ _ _
          · rename_i q _
            apply grow_ite
            · intro _; exact grow_setSlot _ _ _ _
            · intro hc
              refine (ih q _ ?_).trans (grow_setSlot _ _ _ _)
              intro Q hQ
              simp only [hQ] at hc
              simpa using hc
      · exact (grow_allocRep _ _ _ (fun h => by simp [hv R hR] at h)).trans (grow_bindFunX _ _ _ _ _)

theorem grow_cloneRep (ex : Nat → Prop) (r : Nat) (s : State) (hv : ∀ R, s.reps r = some R → R.call = true) :
    Grow ex s (cloneRep r s) := grow_cloneRepD ex _ _ r s hv

theorem grow_newRep (ex : Nat → Prop) (f : Fun) (s : State) : Grow ex s (newRep f s) := by
  unfold newRep
  split
  · simp only []
    have h01 : Grow ex s (allocRep ⟨true, none, none, []⟩ s) := grow_allocRep _ _ _ (fun _ => rfl)
    have hself : ((allocRep ⟨true, none, none, []⟩ s).reps s.nextRep).map (·.call) = some true := by
      show ((if s.nextRep = s.nextRep then some (⟨true, none, none, []⟩ : Rep) else s.reps s.nextRep).map
        (·.call)) = some true
      simp
    have hlt : s.nextRep < (allocRep ⟨true, none, none, []⟩ s).nextRep := Nat.lt_succ_self _
    have fin : ∀ s2, Grow ex (allocRep ⟨true, none, none, []⟩ s) s2 →
        ∀ fid dd j, Grow ex s (nestFinish s.nextRep fid dd j s2) := by
      intro s2 h12 fid dd j
      exact (h01.trans h12).trans (grow_nestFinish ex _ _ _ _ s2 (valid_of_keepLow h12.2 hlt hself))
    split
    · exact fin _ (grow_setSlot _ _ _ _) _ _ _
    · split
      · exact fin _ (grow_setSlot _ _ _ _) _ _ _
      · rename_i q _
        apply grow_ite
        · intro _; exact fin _ (grow_setSlot _ _ _ _) _ _ _
        · intro hc
          refine fin _ ((grow_cloneRepD ex _ _ q _ ?_).trans (grow_setSlot _ _ _ _)) _ _ _
          intro Q hQ
          simp only [hQ] at hc
          simpa using hc
  · exact (grow_allocRep _ _ _ (fun h => by simp at h)).trans (grow_bindFun _ _ _ _)

/-! ### every operation -/

end NF
open NF

/-- the representation `disconnect()` is called on by name (`slot_base::disconnect()` / `connection::disconnect()`) -/
def discTarget (s : State) : Op → Option Nat
  | .discS v => repOf s v
  | .discC c => (match connTarget s c with | some v => repOf s v | none => none)
  | _ => none

namespace NF

theorem valid_of_nonempty {s : State} {i r : Nat} {X : SVar} (hX : s.slots i = some X) (hr : X.rep = some r)
    (he : ¬ emptyVar s i = true) : ∀ R, s.reps r = some R → R.call = true := by
  intro R hR
  simp [emptyVar, repObj, repOf, hX, hr, hR] at he
  exact he

theorem Inval.of_mono {ex : Nat → Prop} {s s' : State} (h : Mono noEx s s') : Inval ex s s' := (h.any ex).inval

theorem inval_clone_set (ex : Nat → Prop) (s : State) (r j : Nat) (o : Option SVar)
    (hv : ∀ R, s.reps r = some R → R.call = true) : Inval ex s ((cloneRep r s).setSlot j o) :=
  (grow_cloneRep ex r s hv).1.trans (Mono.of_eq rfl).inval

theorem apply_inval (s : State) (op : Op) : Inval (fun x => discTarget s op = some x) s (apply op s) := by
  cases op with
  | newT t => exact (Mono.of_eq rfl).inval
  | delT t => exact ((mono_trkNotify _ t s).trans (Mono.of_eq rfl)).inval
  | notifyT t => exact (mono_trkNotify _ t s).inval
  | mkS v f => exact (grow_newRep _ f s).1.trans (Mono.of_eq rfl).inval
  | mkS0 v => exact (Mono.of_eq rfl).inval
  | cpS j i =>
    simp only [apply]
    split
    · exact (Mono.refl _ _).inval
    · rename_i X hX
      split
      · exact (Mono.of_eq rfl).inval
      · rename_i r hr
        split
        · exact (Mono.of_eq rfl).inval
        · rename_i he
          exact inval_clone_set _ s r j _ (valid_of_nonempty hX hr he)
  | mvS j i =>
    simp only [apply]
    split
    · exact (Mono.refl _ _).inval
    · rename_i X hX
      split
      · exact (Mono.of_eq rfl).inval
      · rename_i r hr
        split
        · split
          · exact (Mono.of_eq rfl).inval
          · rename_i he
            exact inval_clone_set _ s r j _ (valid_of_nonempty hX hr he)
        · exact (((mono_weakNotify _ r s).trans (Mono.of_eq rfl)).trans (Mono.of_eq rfl)).inval
  | asgS d x =>
    simp only [apply]
    split
    · exact (Mono.refl _ _).inval
    · rename_i X hX
      split
      · exact (Mono.of_eq (by simp)).inval
      · split
        · exact (mono_deleteRepWithCheck _ d s).inval
        · rename_i he
          split
          · exact (Mono.refl _ _).inval
          · rename_i r hr
            refine ((grow_cloneRep _ r s (valid_of_nonempty hX hr he)).1.trans ?_).trans
              (mono_exchangeRep _ _ _ _).inval
            exact (Mono.of_eq (by simp)).inval
  | masgS d x =>
    simp only [apply]
    split
    · exact (Mono.refl _ _).inval
    · rename_i X hX
      split
      · exact (Mono.of_eq (by simp)).inval
      · split
        · exact (mono_deleteRepWithCheck _ d s).inval
        · rename_i he
          split
          · exact (Mono.refl _ _).inval
          · rename_i r hr
            have h0 : Inval (fun x => discTarget s (.masgS d x) = some x) s
                (s.modSlot d fun D => { D with blocked := X.blocked }) := (Mono.of_eq (by simp)).inval
            split
            · refine (h0.trans (grow_cloneRep _ r _ ?_).1).trans (mono_exchangeRep _ _ _ _).inval
              intro R hR
              rw [modSlot_reps] at hR
              exact valid_of_nonempty hX hr he R hR
            · refine (h0.trans ?_).trans (mono_exchangeRep _ _ _ _).inval
              exact ((mono_weakNotify _ r _).trans (Mono.of_eq rfl)).inval
  | setS d f =>
    simp only [apply]
    exact ((grow_newRep _ f s).1.trans (Mono.of_eq (by simp)).inval).trans (mono_exchangeRep _ _ _ _).inval
  | clrS d =>
    simp only [apply]
    split
    · exact (Mono.of_eq (by simp)).inval
    · exact (mono_deleteRepWithCheck _ d s).inval
  | delS v =>
    simp only [apply]
    split
    · exact (Mono.of_eq rfl).inval
    · exact ((mono_deleteRep _ _ s).trans (Mono.of_eq rfl)).inval
  | discS v =>
    simp only [apply]
    split
    · exact (Mono.refl _ _).inval
    · rename_i r hr
      exact ((mono_repDisconnect r s).weaken (fun x hx => by simp [discTarget, hr, hx])).inval
  | blockS v b => exact (Mono.of_eq (by simp [apply])).inval
  | unblockS v => exact (Mono.of_eq (by simp [apply])).inval
  | blockedS v => exact (Mono.refl _ _).inval
  | emptyS v => exact (Mono.refl _ _).inval
  | boolS v => exact (Mono.refl _ _).inval
  | parentS v => exact (Mono.refl _ _).inval
  | callS v a => exact (Mono.refl _ _).inval
  | connS c v =>
    simp only [apply]
    exact ((Mono.of_eq rfl : Mono _ s (s.setConn c (some (some v)))).trans (mono_slotAddCb _ _ _ _)).inval
  | newC c => exact (Mono.of_eq rfl).inval
  | cpC j i =>
    simp only [apply]
    split
    · exact (Mono.of_eq rfl).inval
    · rename_i v _
      exact ((Mono.of_eq rfl : Mono _ s (s.setConn j (some (some v)))).trans (mono_slotAddCb _ _ _ _)).inval
  | asgC d x =>
    simp only [apply]
    have h1 : Mono (fun x' => discTarget s (.asgC d x) = some x') s
        (match connTarget s d with | none => s | some v => slotRemCb v d s) := by
      split
      · exact Mono.refl _ _
      · exact mono_slotRemCb _ _ _ _
    split
    · exact (h1.trans (Mono.of_eq rfl)).inval
    · refine (Mono.trans ?_ (mono_slotAddCb _ _ _ _)).inval
      exact h1.trans (Mono.of_eq rfl)
  | delC c =>
    simp only [apply]
    refine (Mono.trans ?_ (Mono.of_eq rfl)).inval
    split
    · exact Mono.refl _ _
    · exact mono_slotRemCb _ _ _ _
  | discC c =>
    simp only [apply]
    split
    · exact (Mono.refl _ _).inval
    · rename_i v hv
      split
      · exact (Mono.refl _ _).inval
      · rename_i r hr
        exact ((mono_repDisconnect r s).weaken (fun x hx => by simp [discTarget, hv, hr, hx])).inval
  | connectedC c => exact (Mono.refl _ _).inval
  | emptyC c => exact (Mono.refl _ _).inval
  | blockedC c => exact (Mono.refl _ _).inval
  | blockC c b =>
    simp only [apply]
    split
    · exact (Mono.refl _ _).inval
    · exact (Mono.of_eq (by simp)).inval
  | unblockC c =>
    simp only [apply]
    split
    · exact (Mono.refl _ _).inval
    · exact (Mono.of_eq (by simp)).inval
  | live fid => exact (Mono.refl _ _).inval
  | bad => exact (Mono.refl _ _).inval

end NF

/-- has the program called `disconnect()` on representation `r` by name?  (`ops` run from state `s`) -/
def disconnectedBy : State → List Op → Nat → Bool
  | _, [], _ => false
  | s, op :: ops, r =>
    (!s.err && (check s op).isNone && discTarget s op == some r) || disconnectedBy (stepState op s) ops r

namespace NF

theorem stepState_cases (op : Op) (s : State) :
    stepState op s = s ∨ (s.err = false ∧ check s op = none ∧ stepState op s = apply op s) := by
  unfold stepState step
  cases hse : s.err with
  | true => left; simp
  | false =>
    cases hck : check s op with
    | some e => left; simp
    | none =>
      right; refine ⟨rfl, rfl, ?_⟩
      simp only [Bool.false_eq_true, if_false]
      split <;> rfl

/-- the invariant along a run: an invalid representation has no functor, or is in `D`, or `disconnect()` is called
    on it later -/
theorem foldl_nf : ∀ (ops : List Op) (s : State) (D : Nat → Prop),
    (∀ r R, s.reps r = some R → R.call = false → R.fn = none ∨ D r) →
    ∀ r R, (ops.foldl (fun s op => stepState op s) s).reps r = some R → R.call = false →
      R.fn = none ∨ D r ∨ disconnectedBy s ops r = true := by
  intro ops
  induction ops with
  | nil => intro s D h r R hR hc; rcases h r R hR hc with g | g; exact .inl g; exact .inr (.inl g)
  | cons op ops ih =>
    intro s D h r R hR hc
    simp only [List.foldl_cons] at hR
    have step : ∀ x X, (stepState op s).reps x = some X → X.call = false →
        X.fn = none ∨ (D x ∨ (!s.err && (check s op).isNone && discTarget s op == some x) = true) := by
      intro x X hX hXc
      rcases stepState_cases op s with he | ⟨herr, hck, he⟩
      · rw [he] at hX
        rcases h x X hX hXc with g | g
        · exact .inl g
        · exact .inr (.inl g)
      · rw [he] at hX
        rcases apply_inval s op x X hX hXc with g | g | ⟨X0, hX0, g1, g2⟩
        · exact .inl g
        · exact .inr (.inr (by simp [herr, hck, g]))
        · rcases h x X0 hX0 g1 with g | g
          · exact .inl (by rw [← g2]; exact g)
          · exact .inr (.inl g)
    rcases ih (stepState op s) _ step r R hR hc with g | (g | g) | g
    · exact .inl g
    · exact .inr (.inl g)
    · exact .inr (.inr (by simp [disconnectedBy, g]))
    · exact .inr (.inr (by simp [disconnectedBy, g]))

end NF
end Sigc.SlotG
