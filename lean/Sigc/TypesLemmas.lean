import Sigc.Types
/-!
  Helper lemmas about the `Types` component model (used by `Props/C05.lean` and `Props/C20Types.lean`).
  Structural facts about `binds`, the forwarding hops and the list recursions; no property statements here.
-/
namespace Sigc.Types

/-! ### conversions and bindings -/

theorem conv_refl (b : Base) : conv b b = true := by
  cases b <;> rfl

theorem sameOrBaseOf_refl (b : Base) : sameOrBaseOf b b = true := by
  cases b <;> rfl

theorem refRelated_refl (b : Base) : refRelated b b = true := by
  cases b <;> rfl

/-- reference-compatible object types are convertible -/
theorem conv_of_sameOrBaseOf {t s : Base} (h : sameOrBaseOf t s = true) : conv s t = true := by
  cases t <;> cases s <;> first | rfl | (exfalso; revert h; decide)

/-- an explicit-only conversion is not an implicit one -/
theorem conv_false_of_onlyExplicit {s t : Base} (h : onlyExplicit s t = true) : conv s t = false := by
  cases s <;> cases t <;> first | rfl | (exfalso; revert h; decide)

/-- a scoped enumeration / a class with an explicit conversion function converts implicitly to itself only, and
    only itself converts implicitly to it -/
theorem conv_isExplicitOnly {s t : Base} (h : s.isExplicitOnly = true ∨ t.isExplicitOnly = true) :
    conv s t = (s == t) := by
  cases s <;> cases t <;> first | rfl | (exfalso; revert h; decide)

/-- the explicit-only types are neither arithmetic nor pointers -/
theorem not_isArith_of_isExplicitOnly {b : Base} (h : b.isExplicitOnly = true) : b.isArith = false := by
  cases b <;> first | rfl | (exfalso; revert h; decide)

/-- no implicit conversion from an explicit-only type to an arithmetic type -/
theorem conv_false_arith_of_isExplicitOnly {s t : Base} (hs : s.isExplicitOnly = true) (ht : t.isArith = true) :
    conv s t = false := by
  cases s <;> cases t <;> first | rfl | (exfalso; revert hs ht; decide)

/-- `static_cast` is at least as permissive as initialisation -/
theorem castOk_of_binds {p : Param} {e : ExprTy} (h : binds p e = true) : castOk p e = true := by
  simp [castOk, h]

/-- whatever the declared shape, a parameter only binds an argument whose object type converts to its own -/
theorem conv_of_binds {p : Param} {e : ExprTy} (h : binds p e = true) : conv e.base p.base = true := by
  obtain ⟨pb, ps⟩ := p
  obtain ⟨eb, ec, ek⟩ := e
  cases ps
  · simpa [binds] using h
  · simp only [binds, Bool.and_eq_true] at h
    exact conv_of_sameOrBaseOf h.2
  · simpa [binds] using h
  · simp only [binds] at h
    split at h
    · simp only [Bool.and_eq_true] at h
      exact h.2
    · exact h

/-- a `T&` parameter binds nothing but a modifiable lvalue -/
theorem lref_binds {p : Param} {e : ExprTy} (hs : p.shape = .lref) (h : binds p e = true) :
    e.cat = .lvalue ∧ e.const = false ∧ sameOrBaseOf p.base e.base = true := by
  obtain ⟨pb, ps⟩ := p
  obtain ⟨eb, ec, ek⟩ := e
  simp only at hs
  subst hs
  simp only [binds, Bool.and_eq_true, beq_iff_eq, Bool.not_eq_true'] at h
  exact ⟨h.1.1, h.1.2, h.2⟩

/-- a `T&` functor parameter facing what the library passes for a declared signature parameter `a`: only `U&`
    of the same or a derived class passes a modifiable lvalue -/
theorem lref_binds_passed {p a : Param} (hf : p.shape = .lref) (hb : binds p (passed a) = true) :
    a.shape = .lref ∧ sameOrBaseOf p.base a.base = true := by
  obtain ⟨hcat, hconst, hsame⟩ := lref_binds hf hb
  obtain ⟨ab, sh⟩ := a
  cases sh
  · simp [passed, take, fwd] at hconst
  · exact ⟨rfl, by simpa [passed, take, fwd] using hsame⟩
  · simp [passed, take, fwd] at hconst
  · simp [passed, take, fwd] at hcat

theorem passed_base (a : Param) : (passed a).base = a.base := by
  obtain ⟨ab, sh⟩ := a
  cases sh <;> rfl

theorem retExpr_base (r : Param) : (retExpr r).base = r.base := by
  obtain ⟨rb, sh⟩ := r
  cases sh <;> rfl

/-- `T` and `const T&` parameters bind exactly the convertible arguments, whatever their category or constness -/
theorem val_binds (p : Param) (e : ExprTy) (hs : p.shape = .val ∨ p.shape = .cref) :
    binds p e = conv e.base p.base := by
  obtain ⟨pb, ps⟩ := p
  rcases hs with hs | hs <;> simp only at hs <;> subst hs <;> rfl

/-- `take` never changes what binds: `const T&` accepts exactly what `T` accepts -/
theorem binds_take (p : Param) (e : ExprTy) : binds (take p) e = binds p e := by
  obtain ⟨pb, ps⟩ := p
  cases ps <;> rfl

theorem take_base (p : Param) : (take p).base = p.base := by
  obtain ⟨pb, ps⟩ := p
  cases ps <;> rfl

theorem take_idem (p : Param) : take (take p) = take p := by
  obtain ⟨pb, ps⟩ := p
  cases ps <;> rfl

/-- `take_t` is always a reference type, on which `T_arg&&` collapses to itself -/
theorem collapse_take (p : Param) : collapse (take p) = take p := by
  obtain ⟨pb, ps⟩ := p
  cases ps <;> rfl

/-- a forwarded parameter binds to a parameter of its own declared type -/
theorem binds_fwd_self (p : Param) : binds p (fwd p) = true := by
  obtain ⟨pb, ps⟩ := p
  cases ps <;> cases pb <;> rfl

theorem binds_passed_self (p : Param) : binds p (passed p) = true := by
  obtain ⟨pb, ps⟩ := p
  cases ps <;> cases pb <;> rfl

theorem binds_take_passed (p : Param) : binds (take p) (passed p) = true := by
  rw [binds_take]; exact binds_passed_self p

/-- a call expression of declared type `r` initialises a result of declared type `r` -/
theorem binds_retExpr_self (r : Param) : binds r (retExpr r) = true := by
  obtain ⟨rb, rs⟩ := r
  cases rs <;> cases rb <;> rfl

theorem retOk_self (r : Ret) : retOk r r = true := by
  cases r with
  | none => rfl
  | some r => exact binds_retExpr_self r

/-! ### the hops -/

theorem hop_eq (q f : Param) (e : ExprTy) (h : binds q e = true) : hop q f e = some (fwd f) := by
  simp [hop, h]

/-- every library-internal hop of the chain binds; the functor is handed `passed a` whatever the caller wrote -/
theorem chain_eq (a : Param) (e0 : ExprTy) (h : binds (take a) e0 = true) : chain a e0 = some (passed a) := by
  have h1 : hopSlotCall a e0 = some (fwd (take a)) := hop_eq _ _ _ h
  have h2 : hopCallIt a (fwd (take a)) = some (fwd (take a)) := hop_eq _ _ _ (binds_fwd_self _)
  have h3 : hopAdaptorFunctor a (fwd (take a)) = some (fwd (take a)) := by
    unfold hopAdaptorFunctor
    rw [collapse_take]
    exact hop_eq _ _ _ (binds_fwd_self _)
  simp [chain, h1, h2, h3, passed]

/-- the sigc wrapper of a function / method pointer is transparent: it accepts what the pointer's own
    parameter accepts -/
theorem wrapperHop_eq (p : Param) (e : ExprTy) : wrapperHop p e = binds p e := by
  unfold wrapperHop hop
  rw [binds_take]
  cases h : binds p e
  · simp
  · simp only [if_true]
    exact binds_passed_self p

theorem wrapperAll_eq : ∀ (ps : List Param) (es : List ExprTy), wrapperAll ps es = bindsAll ps es
  | [], [] => rfl
  | [], _ :: _ => rfl
  | _ :: _, [] => rfl
  | p :: ps, e :: es => by
    simp only [wrapperAll, bindsAll, wrapperHop_eq, wrapperAll_eq ps es]

theorem invokeOk_eq (fn : Fn) (args : List ExprTy) :
    invokeOk fn args = (fn.kind.objOk && bindsAll fn.params args) := by
  unfold invokeOk
  cases fn.kind.wrapped <;> simp [wrapperAll_eq]

/-! ### list recursions -/

/-- `bindsAll` = equal length and binding at every position -/
theorem bindsAll_iff : ∀ (ps : List Param) (es : List ExprTy),
    bindsAll ps es = true ↔
      ps.length = es.length ∧ ∀ (i : Nat) (h1 : i < ps.length) (h2 : i < es.length), binds ps[i] es[i] = true
  | [], [] => by simp [bindsAll]
  | [], _ :: _ => by simp [bindsAll]
  | _ :: _, [] => by simp [bindsAll]
  | p :: ps, e :: es => by
    simp only [bindsAll, Bool.and_eq_true, bindsAll_iff ps es, List.length_cons, Nat.add_right_cancel_iff]
    constructor
    · rintro ⟨h0, hl, hr⟩
      refine ⟨hl, ?_⟩
      intro i h1 h2
      cases i with
      | zero => simpa using h0
      | succ j =>
        simp only [List.getElem_cons_succ]
        exact hr j (by omega) (by omega)
    · rintro ⟨hl, hr⟩
      refine ⟨?_, hl, ?_⟩
      · simpa using hr 0 (by omega) (by omega)
      · intro i h1 h2
        have := hr (i + 1) (by omega) (by omega)
        simpa using this

theorem bindsAll_length {ps : List Param} {es : List ExprTy} (h : bindsAll ps es = true) :
    ps.length = es.length := ((bindsAll_iff ps es).1 h).1

theorem bindsAll_self : ∀ (ps : List Param), bindsAll ps (ps.map passed) = true
  | [] => rfl
  | p :: ps => by simp [bindsAll, binds_passed_self, bindsAll_self ps]

/-- the lvalue a stored tuple element is seen as -/
def stored (a : Param) : ExprTy :=
  match (take a).shape with
  | .cref => ⟨a.base, true, .lvalue⟩
  | _ => ⟨a.base, false, .lvalue⟩

theorem tupleElem_iff (a : Param) (e : ExprTy) :
    tupleElem a = some e ↔ a.shape ≠ .rref ∧ e = stored a := by
  obtain ⟨ab, as⟩ := a
  cases as <;> simp [tupleElem, take, stored] <;> exact eq_comm

/-- rebuilding the argument tuple succeeds iff no element is an rvalue reference, and yields the stored lvalues -/
theorem tupleElems_iff : ∀ (as : List Param) (es : List ExprTy),
    tupleElems as = some es ↔ (∀ a ∈ as, a.shape ≠ .rref) ∧ es = as.map stored
  | [], es => by
    simp only [tupleElems, Option.some.injEq, List.not_mem_nil, false_imp_iff, implies_true, List.map_nil,
      true_and]
    exact eq_comm
  | a :: as, es => by
    have ih := tupleElems_iff as
    by_cases hs : a.shape = .rref
    · have h1 : tupleElem a = none := by
        obtain ⟨ab, sh⟩ := a
        simp only at hs
        subst hs
        rfl
      simp [tupleElems, h1, hs]
    · have h1 : tupleElem a = some (stored a) := (tupleElem_iff a _).2 ⟨hs, rfl⟩
      simp only [tupleElems, h1, Option.bind_some, List.mem_cons, forall_eq_or_imp, List.map_cons]
      cases h2 : tupleElems as with
      | none =>
        have : ¬ ∀ a ∈ as, a.shape ≠ .rref := fun hn => by
          have := (ih _).2 ⟨hn, rfl⟩
          rw [h2] at this
          cases this
        simp [this]
      | some es' =>
        obtain ⟨hall, hes⟩ := (ih es').1 h2
        subst hes
        simp only [Option.map_some, Option.some.injEq]
        constructor
        · intro h
          exact ⟨⟨hs, hall⟩, h.symm⟩
        · rintro ⟨_, h⟩
          exact h.symm

/-- `retype`: every position must be castable, lengths must agree; the inner functor then sees the cast
    expressions -/
theorem castAll_iff : ∀ (ps : List Param) (es : List ExprTy) (rs : List ExprTy),
    castAll ps es = some rs ↔
      ps.length = es.length ∧ (∀ (i : Nat) (h1 : i < ps.length) (h2 : i < es.length), castOk ps[i] es[i] = true)
        ∧ rs = ps.map castExpr
  | [], [], rs => by
    simp only [castAll, Option.some.injEq, List.length_nil, List.map_nil, true_and]
    constructor
    · intro h
      exact ⟨fun i h1 => absurd h1 (Nat.not_lt_zero i), h.symm⟩
    · rintro ⟨_, h⟩
      exact h.symm
  | [], _ :: _, rs => by simp [castAll]
  | _ :: _, [], rs => by simp [castAll]
  | p :: ps, e :: es, rs => by
    have ih := castAll_iff ps es
    simp only [castAll, List.length_cons, Nat.add_right_cancel_iff, List.map_cons]
    by_cases hc : castOk p e = true
    · simp only [hc, if_true]
      cases hr : castAll ps es with
      | none =>
        simp only [Option.map_none]
        constructor
        · intro h
          cases h
        · rintro ⟨hl, hall, _⟩
          have : castAll ps es = some (ps.map castExpr) :=
            (ih _).2 ⟨hl, fun i h1 h2 => by
              have := hall (i + 1) (by omega) (by omega)
              simpa using this, rfl⟩
          rw [hr] at this
          cases this
      | some rs' =>
        obtain ⟨hl, hall, hrs⟩ := (ih rs').1 hr
        subst hrs
        simp only [Option.map_some, Option.some.injEq]
        constructor
        · intro h
          refine ⟨hl, ?_, h.symm⟩
          intro i h1 h2
          cases i with
          | zero => simpa using hc
          | succ j =>
            simp only [List.getElem_cons_succ]
            exact hall j (by omega) (by omega)
        · rintro ⟨_, _, h⟩
          exact h.symm
    · simp only [hc]
      constructor
      · intro h
        cases h
      · rintro ⟨_, hall, _⟩
        have := hall 0 (by omega) (by omega)
        exact absurd (by simpa using this) hc

/-- a cast result always binds to the wrapper's parameter of the type it was cast to -/
theorem binds_castExpr_self (p : Param) : binds p (castExpr p) = true := binds_retExpr_self p

theorem bindsAll_castExpr : ∀ (ps : List Param), bindsAll ps (ps.map castExpr) = true
  | [] => rfl
  | p :: ps => by simp [bindsAll, binds_castExpr_self, bindsAll_castExpr ps]

/-! ### connect entry points -/

/-- the table as it is: every one of the sixteen entry points takes a `slot_type`, by `const&` or by `&&`
    according to its overload -/
theorem entryDecl_eq (ep : EntryPoint) :
    entryDecl ep = ⟨.slotType, match ep.ov with | .constRef => .cref | .rvalueRef => .rref⟩ := by
  obtain ⟨⟨c, a, f⟩, o⟩ := ep
  cases c <;> cases a <;> cases f <;> cases o <;> rfl

/-- the temporary a converting constructor creates binds to the parameter of every entry point -/
theorem refBindsTemp_entry (ep : EntryPoint) : refBindsTemp (entryDecl ep).shape = true := by
  rw [entryDecl_eq]
  cases ep.ov <;> rfl

/-- a slot object is invoked like a function object with a const `operator()` of the same declared signature -/
theorem invokeOk_slotObj (form : ArgForm) (ps : List Param) (r r' : Ret) (args : List ExprTy) :
    invokeOk ⟨.slotObj form, ps, r⟩ args = invokeOk ⟨.fobjConst, ps, r'⟩ args := by
  simp [invokeOk_eq, Kind.objOk]

/-- the two spellings of the parameter pack of the erased call type coincide -/
theorem takePack_eq_map : ∀ (as : List Param), takePack as = as.map fun a => CTy.par (take a)
  | [] => rfl
  | a :: as => by simp [takePack, takePack_eq_map as]

end Sigc.Types
