import Sigc.SlotGLemmasWF
/-!
  Allocation of representations: `allocBind` (a functor without a slot bound by value), and the recursive copy of a
  functor that binds a slot by value (`nest`).  `Ext s s'`: what an allocation does to a state — new
  representations `≥ s.nextRep`, new anonymous variables `≥ anonBase + s.nextRep`, parents of old representations.
-/
namespace Sigc.SlotG

/-! ### facts about `allocBind` -/

theorem bindFun_frame (r : Nat) (f : Fun) (s : State) :
    (bindFun r f s).slots = s.slots ∧ (bindFun r f s).conns = s.conns ∧
    (bindFun r f s).nextRep = s.nextRep ∧ (bindFun r f s).err = s.err := by
  cases f with
  | fn fid => exact ⟨rfl, rfl, rfl, rfl⟩
  | mem fid t => exact ⟨slots_trkAdd _ _ _, conns_trkAdd _ _ _, nextRep_trkAdd _ _ _, err_trkAdd _ _ _⟩
  | sref fid v =>
    exact ⟨slots_setParentIfNone _ _ _, conns_setParentIfNone _ _ _, nextRep_setParentIfNone _ _ _,
      err_setParentIfNone _ _ _⟩
  | own fid v t =>
    cases t with
    | none => exact ⟨rfl, rfl, rfl, rfl⟩
    | some t => exact ⟨slots_trkAdd _ _ _, conns_trkAdd _ _ _, nextRep_trkAdd _ _ _, err_trkAdd _ _ _⟩
  | nest fid v d =>
    exact ⟨slots_setParentIfNone _ _ _, conns_setParentIfNone _ _ _, nextRep_setParentIfNone _ _ _,
      err_setParentIfNone _ _ _⟩
  | ownc fid c => exact ⟨rfl, rfl, rfl, rfl⟩

@[slotg_simp] theorem slots_allocBind (c : Bool) (f : Fun) (s : State) : (allocBind c f s).slots = s.slots := by
  unfold allocBind; rw [(bindFun_frame _ _ _).1]; rfl
@[slotg_simp] theorem conns_allocBind (c : Bool) (f : Fun) (s : State) : (allocBind c f s).conns = s.conns := by
  unfold allocBind; rw [(bindFun_frame _ _ _).2.1]; rfl
@[slotg_simp] theorem nextRep_allocBind (c : Bool) (f : Fun) (s : State) :
    (allocBind c f s).nextRep = s.nextRep + 1 := by
  unfold allocBind; rw [(bindFun_frame _ _ _).2.2.1]; rfl
@[slotg_simp] theorem err_allocBind (c : Bool) (f : Fun) (s : State) : (allocBind c f s).err = s.err := by
  unfold allocBind; rw [(bindFun_frame _ _ _).2.2.2]; rfl
@[slotg_simp] theorem repOf_allocBind (c : Bool) (f : Fun) (s : State) (v : Nat) :
    repOf (allocBind c f s) v = repOf s v := by
  simp only [repOf, slots_allocBind]

theorem reps_allocBind_self {s : State} (hI : Inv s) (c : Bool) (f : Fun) :
    (allocBind c f s).reps s.nextRep = some ⟨c, none, some f, []⟩ := by
  unfold allocBind
  cases f with
  | fn fid => simp [bindFun, reps_allocRep]
  | mem fid t => simp [bindFun, reps_trkAdd, reps_allocRep]
  | sref fid v =>
    simp only [bindFun, reps_setParentIfNone, repOf_allocRep, reps_allocRep, if_true]
    rw [if_neg (orphan_next hI v)]
  | own fid v t => cases t <;> simp [bindFun, reps_trkAdd, reps_allocRep]
  | nest fid v d =>
    simp only [bindFun, reps_setParentIfNone, repOf_allocRep, reps_allocRep, if_true]
    rw [if_neg (orphan_next hI v)]
  | ownc fid c => simp [bindFun, reps_allocRep]

theorem reps_allocBind_other (c : Bool) (f : Fun) (s : State) (x : Nat) (hx : x ≠ s.nextRep) :
    (allocBind c f s).reps x = s.reps x ∨
      ∃ X v, s.reps x = some X ∧ f.ref = some v ∧ repOf s v = some x ∧
        (allocBind c f s).reps x = some (setPar s.nextRep X) := by
  unfold allocBind
  cases f with
  | fn fid => left; simp [bindFun, reps_allocRep, hx]
  | mem fid t => left; simp [bindFun, reps_trkAdd, reps_allocRep, hx]
  | sref fid v =>
    simp only [bindFun, reps_setParentIfNone, repOf_allocRep, reps_allocRep, hx, if_false]
    by_cases hv : repOf s v = some x
    · cases hX : s.reps x with
      | none => left; simp [hv]
      | some X => right; exact ⟨X, v, rfl, rfl, hv, by simp [hv]⟩
    · left; simp [hv]
  | own fid v t => cases t <;> (left; simp [bindFun, reps_trkAdd, reps_allocRep, hx])
  | nest fid v d =>
    simp only [bindFun, reps_setParentIfNone, repOf_allocRep, reps_allocRep, hx, if_false]
    by_cases hv : repOf s v = some x
    · cases hX : s.reps x with
      | none => left; simp [hv]
      | some X => right; exact ⟨X, v, rfl, rfl, hv, by simp [hv]⟩
    · left; simp [hv]
  | ownc fid c => left; simp [bindFun, reps_allocRep, hx]

/-- an old representation after `allocBind`: unchanged except that it may have got the new one as parent -/
theorem allocBind_old (c : Bool) (f : Fun) {s : State} {x : Nat} {X : Rep} (hX : s.reps x = some X)
    (hx : x ≠ s.nextRep) :
    ∃ X', (allocBind c f s).reps x = some X' ∧ X'.fn = X.fn ∧ X'.cbs = X.cbs ∧ X'.call = X.call ∧
      (X'.parent = X.parent ∨ (X.parent = none ∧ X'.parent = some s.nextRep)) := by
  rcases reps_allocBind_other c f s x hx with h | ⟨X0, v, hX0, -, -, h⟩
  · exact ⟨X, by rw [h]; exact hX, rfl, rfl, rfl, .inl rfl⟩
  · rw [hX] at hX0; cases hX0
    refine ⟨_, h, setPar_fn _ _, setPar_cbs _ _, setPar_call _ _, ?_⟩
    rw [setPar_parent]; cases hp : X.parent <;> simp

theorem allocBind_alive (c : Bool) (f : Fun) {s : State} {x : Nat} {X' : Rep}
    (hX' : (allocBind c f s).reps x = some X') (hx : x ≠ s.nextRep) : ∃ X, s.reps x = some X := by
  rcases reps_allocBind_other c f s x hx with h | ⟨X0, -, hX0, -, -, -⟩
  · exact ⟨X', by rw [← h]; exact hX'⟩
  · exact ⟨X0, hX0⟩

theorem idle_allocBind {s : State} (hi : Idle s) (c : Bool) (f : Fun) : Idle (allocBind c f s) := by
  unfold allocBind
  have key : ∀ t, Idle (trkAdd t s.nextRep (allocRep ⟨c, none, some f, []⟩ s)) := by
    intro t t' T hT
    rw [trks_trkAdd, trks_allocRep] at hT
    by_cases htt : t' = t
    · subst htt
      simp only [if_true, Option.map_eq_some_iff] at hT
      obtain ⟨T0, hT0, rfl⟩ := hT
      obtain ⟨h1, h2⟩ := hi t' T0 hT0
      refine ⟨by rw [addEntry_clearing]; exact h1, ?_⟩
      intro x hx
      rcases (mem_addEntry _ _ _ _).mp hx with h | ⟨-, -, h⟩
      · exact h2 x h
      · cases h
    · simp only [htt, if_false] at hT; exact hi t' T hT
  cases f with
  | fn fid => exact hi
  | mem fid t => exact key t
  | sref fid v =>
    intro t T hT
    simp only [bindFun, trks_setParentIfNone, trks_allocRep] at hT
    exact hi t T hT
  | own fid v t =>
    cases t with
    | none => exact hi
    | some t => exact key t
  | nest fid v d =>
    intro t T hT
    simp only [bindFun, trks_setParentIfNone, trks_allocRep] at hT
    exact hi t T hT
  | ownc fid c => exact hi

/-- a functor that is stored in a representation may be instantiated again (`clone()`); a functor that binds a
    slot by value is copied by `allocNest` instead -/
theorem funOk_of_inv {s : State} (h : Inv s) {r : Nat} {R : Rep} {f : Fun} (hR : s.reps r = some R)
    (hf : R.fn = some f) (hflat : ∀ fid v d, f ≠ .nest fid v d) : FunOk s f := by
  refine ⟨?_, ?_, ?_, hflat, ?_⟩
  rotate_left 3
  · intro c hc
    cases f <;> simp [Fun.ownsC] at hc
    subst hc
    exact h.ownCOk r R _ _ hR hf
  · intro t ht
    obtain ⟨T, hT, -⟩ := h.trkReg r R f t hR hf ht
    exact ⟨T, hT⟩
  · intro v hv
    cases f <;> simp [Fun.ref] at hv
    · subst hv
      exact h.refOk r R _ _ hR hf
    · exact absurd rfl (hflat _ _ _)
  · intro v hv
    cases f <;> simp [Fun.owns] at hv
    · subst hv
      rename_i fid v t
      obtain ⟨h1, h2⟩ := h.ownOk r R fid v t hR hf
      refine ⟨h1, h2, ?_⟩
      rintro ⟨x, X, fid', hX, hfx⟩
      exact (h.refOk x X fid' v hX hfx).2.2 ⟨r, R, _, hR, hf, rfl⟩
    · exact absurd rfl (hflat _ _ _)

/-- `specCheck` passed: the functor of the spec may be instantiated -/
theorem funOk_of_spec {s : State} (h : Inv s) {f : Fun} (hc : specCheck s f = none)
    (hnm : ∀ v, v ∈ f.names.1 → v < anonBase) (hflat : ∀ fid v d, f ≠ .nest fid v d) : FunOk s f := by
  cases f with
  | fn fid => exact ⟨by simp [Fun.trk], by simp [Fun.ref], by simp [Fun.owns], hflat, by simp [Fun.ownsC]⟩
  | mem fid t =>
    simp only [specCheck, deadT] at hc
    refine ⟨?_, by simp [Fun.ref], by simp [Fun.owns], hflat, by simp [Fun.ownsC]⟩
    intro t' ht'; simp [Fun.trk] at ht'; subst ht'
    cases hT : s.trks t with
    | none => simp [hT] at hc
    | some T => exact ⟨T, by first | rfl | exact hT⟩
  | sref fid v =>
    simp only [specCheck, deadS] at hc
    refine ⟨by simp [Fun.trk], ?_, by simp [Fun.owns], hflat, by simp [Fun.ownsC]⟩
    intro v' hv'; simp [Fun.ref] at hv'; subst hv'
    cases hV : s.slots v with
    | none => simp [hV] at hc
    | some V =>
      refine ⟨hnm v (by simp [Fun.names]), ⟨V, by first | rfl | exact hV⟩, ?_⟩
      intro ho
      rw [(ownedBy_iff h.repBound v).mpr ho] at hc
      simp [hV] at hc
  | own fid v t =>
    simp only [specCheck, deadS, deadT] at hc
    cases hV : s.slots v with
    | none => simp [hV] at hc
    | some V =>
      simp only [hV, Option.isNone_some, Bool.false_eq_true, if_false] at hc
      refine ⟨?_, by simp [Fun.ref], ?_, hflat, by simp [Fun.ownsC]⟩
      · intro t' ht'
        simp [Fun.trk] at ht'; subst ht'
        cases hT : s.trks t' with
        | none => simp [hT] at hc
        | some T => exact ⟨T, by first | rfl | exact hT⟩
      · intro v' hv'; simp [Fun.owns] at hv'; subst hv'
        refine ⟨hnm v (by simp [Fun.names]), ⟨V, by first | rfl | exact hV⟩, ?_⟩
        intro hp
        rw [(pinned_iff h.repBound v).mpr hp] at hc
        split at hc
        · by_cases hh : s.trks ‹Nat› = none <;> simp [hh] at hc
        · simp at hc
  | nest fid v d => exact absurd rfl (hflat _ _ _)
  | ownc fid c =>
    simp only [specCheck, deadC] at hc
    refine ⟨by simp [Fun.trk], by simp [Fun.ref], by simp [Fun.owns], hflat, ?_⟩
    intro c' hc'; simp [Fun.ownsC] at hc'; subst hc'
    cases hx : s.conns c with
    | none => simp [hx] at hc
    | some p => exact ⟨p, by first | rfl | exact hx⟩

/-! ### `Ext` -/

/-- `s'` is `s` plus new representations (`s.nextRep` and above), bound but the first one not stored yet, and
    new anonymous variables holding the others -/
structure Ext (s s' : State) : Prop where
  inv : Inv s'
  idle : Idle s'
  next : s.nextRep < s'.nextRep
  conns : s'.conns = s.conns
  err : s'.err = s.err
  slots : ∀ w, w < anonBase + s.nextRep → s'.slots w = s.slots w
  newVar : ∀ w r, repOf s' w = some r → anonBase + s.nextRep ≤ w → s.nextRep < r
  self : ∃ N, s'.reps s.nextRep = some N ∧ N.parent = none ∧ N.cbs = []
  held : ∀ r R, s'.reps r = some R → s.nextRep < r → ∃ w, repOf s' w = some r
  old : ∀ x X', s'.reps x = some X' → x < s.nextRep →
    ∃ X, s.reps x = some X ∧ X'.cbs = X.cbs ∧ X'.fn = X.fn ∧ X'.call = X.call
  keep : ∀ x X, s.reps x = some X →
    ∃ X', s'.reps x = some X' ∧ X'.cbs = X.cbs ∧ X'.fn = X.fn ∧ X'.call = X.call
  orphOld : ∀ x X, s.reps x = some X → Orphan s x → s'.reps x = some X
  newCbs : ∀ x X', s'.reps x = some X' → s.nextRep ≤ x → X'.cbs = []

/-- a variable of `s` is below the bound of the anonymous names -/
theorem var_lt {s : State} (h : Inv s) {w : Nat} {V : SVar} (hV : s.slots w = some V) :
    w < anonBase + s.nextRep := by
  by_cases hw : anonBase ≤ w
  · exact h.anonBound w V hV hw
  · omega

theorem repOf_lt {s : State} (h : Inv s) {w r : Nat} (hr : repOf s w = some r) : w < anonBase + s.nextRep := by
  obtain ⟨V, hV, -⟩ := repOf_eq.mp hr
  exact var_lt h hV

theorem Ext.repOf {s s' : State} (h : Ext s s') {w : Nat} (hw : w < anonBase + s.nextRep) :
    repOf s' w = repOf s w := by
  simp only [Sigc.SlotG.repOf, h.slots w hw]

/-- the first new representation is not stored -/
theorem Ext.orph {s s' : State} (h : Ext s s') (hI : Inv s) : Orphan s' s.nextRep := by
  intro w hw
  by_cases hlt : w < anonBase + s.nextRep
  · rw [h.repOf hlt] at hw; exact orphan_next hI w hw
  · exact absurd (h.newVar w _ hw (by omega)) (Nat.lt_irrefl _)

theorem Ext.heldAll {s s' : State} (h : Ext s s') (hw : WF s) :
    ∀ r R, s'.reps r = some R → (∃ w, Sigc.SlotG.repOf s' w = some r) ∨ r = s.nextRep := by
  intro r R hR
  rcases Nat.lt_trichotomy r s.nextRep with hlt | heq | hgt
  · obtain ⟨X, hX, -⟩ := h.old r R hR hlt
    obtain ⟨w, hw'⟩ := hw.held r X hX
    exact .inl ⟨w, by rw [h.repOf (repOf_lt hw.inv hw')]; exact hw'⟩
  · exact .inr heq
  · exact .inl (h.held r R hR hgt)

/-- storing an unstored, unregistered, parentless representation in a new variable -/
theorem inv_adopt {s : State} (h : Inv s) {n v : Nat} {N : Rep} (b : Bool) (hn : s.reps n = some N)
    (hp : N.parent = none) (hc : N.cbs = []) (ho : Orphan s n) (hv : s.slots v = none)
    (hb : v < anonBase + s.nextRep) : Inv (s.setSlot v (some ⟨some n, b⟩)) := by
  have hvr : ∀ r, repOf s v ≠ some r := by intro r hr; simp [repOf, hv] at hr
  refine { repAlive := ?_, repUniq := ?_, connReg := ?cr, cbsConn := ?cc, regUniq := ?_, cbsNodup := ?_,
           parentOk := ?_, trkReg := ?_, trkEnt := ?_, trkNodup := ?_, refOk := ?ro, ownOk := ?_, nestOk := ?_,
           anonBound := ?_, repBound := ?_, regHeld := ?_, ownCOk := ?_ }
  case ro =>
    apply refOk_transfer h
    · intro r R' hR'; exact ⟨R', hR', rfl⟩
    · intro w W hW
      rw [slots_setSlot]
      by_cases hwv : w = v
      · subst hwv; rw [hv] at hW; cases hW
      · rw [if_neg hwv]; exact ⟨W, hW⟩
  case cr =>
    intro c w hcw
    obtain ⟨r, R, hR, hm, hor⟩ := h.connReg c w hcw
    have hrn : r ≠ n := by intro he; subst he; rw [hn] at hR; cases hR; rw [hc] at hm; simp at hm
    refine ⟨r, R, hR, hm, ?_⟩
    rcases hor with hor | hor
    · left; rw [repOf_setSlot]
      by_cases hwv : w = v
      · subst hwv; exact absurd hor (hvr r)
      · rw [if_neg hwv]; exact hor
    · right; intro w' hw'
      rw [repOf_setSlot] at hw'
      by_cases hwv : w' = v
      · rw [if_pos hwv] at hw'; simp at hw'; exact hrn hw'.symm
      · rw [if_neg hwv] at hw'; exact hor w' hw'
  case cc =>
    intro r R c hR hm
    rw [reps_setSlot] at hR
    obtain ⟨w, hw, hor⟩ := h.cbsConn r R c hR hm
    have hrn : r ≠ n := by intro he; subst he; rw [hn] at hR; cases hR; rw [hc] at hm; simp at hm
    refine ⟨w, hw, ?_⟩
    rcases hor with hor | hor
    · left; rw [repOf_setSlot]
      by_cases hwv : w = v
      · subst hwv; exact absurd hor (hvr r)
      · rw [if_neg hwv]; exact hor
    · right; intro w' hw'
      rw [repOf_setSlot] at hw'
      by_cases hwv : w' = v
      · rw [if_pos hwv] at hw'; simp at hw'; exact hrn hw'.symm
      · rw [if_neg hwv] at hw'; exact hor w' hw'
  all_goals (unfold Orphan at ho; inv_clause h with [repOf_eq])

theorem idle_of_trks {s s' : State} (hi : Idle s) (ht : s'.trks = s.trks) : Idle s' := by
  intro t T hT; rw [ht] at hT; exact hi t T hT

theorem ext_allocNoFn {s : State} (h : Inv s) (hi : Idle s) (c : Bool) :
    Ext s (allocRep ⟨c, none, none, []⟩ s) := by
  have horph := orphan_next h
  refine { inv := by inv_auto h, idle := idle_of_trks hi rfl, next := by simp [nextRep_allocRep], conns := rfl,
           err := rfl, slots := fun _ _ => rfl, newVar := ?_, self := ⟨⟨c, none, none, []⟩, by simp [reps_allocRep], rfl, rfl⟩,
           held := ?_, old := ?_, keep := ?_, orphOld := ?_, newCbs := ?_ }
  · intro w r hr hw
    exact absurd (repOf_lt h (by rw [repOf_allocRep] at hr; exact hr)) (by omega)
  · intro r R hR hlt
    rw [reps_allocRep, if_neg (by omega)] at hR
    exact absurd (h.repBound r R hR) (by omega)
  · intro x X' hX' hlt
    rw [reps_allocRep, if_neg (by omega)] at hX'
    exact ⟨X', hX', rfl, rfl, rfl⟩
  · intro x X hX
    have := h.repBound x X hX
    exact ⟨X, by rw [reps_allocRep, if_neg (by omega)]; exact hX, rfl, rfl, rfl⟩
  · intro x X hX _
    have := h.repBound x X hX
    rw [reps_allocRep, if_neg (by omega)]; exact hX
  · intro x X' hX' hle
    rw [reps_allocRep] at hX'
    by_cases hx : x = s.nextRep
    · rw [if_pos hx] at hX'; cases hX'; rfl
    · rw [if_neg hx] at hX'; exact absurd (h.repBound x X' hX') (by omega)

theorem ext_allocBind {s : State} (h : Inv s) (hi : Idle s) (c : Bool) {f : Fun} (hf : FunOk s f) :
    Ext s (allocBind c f s) := by
  refine { inv := inv_allocBind h hi c hf, idle := idle_allocBind hi c f, next := by simp [nextRep_allocBind],
           conns := conns_allocBind c f s, err := err_allocBind c f s,
           slots := fun _ _ => by rw [slots_allocBind],
           newVar := ?_, self := ⟨_, reps_allocBind_self h c f, rfl, rfl⟩,
           held := ?_, old := ?_, keep := ?_, orphOld := ?_, newCbs := ?_ }
  · intro w r hr hw
    exact absurd (repOf_lt h (by rw [repOf_allocBind] at hr; exact hr)) (by omega)
  · intro r R hR hlt
    obtain ⟨X, hX⟩ := allocBind_alive c f hR (by omega)
    exact absurd (h.repBound r X hX) (by omega)
  · intro x X' hX' hlt
    obtain ⟨X, hX⟩ := allocBind_alive c f hX' (by omega)
    obtain ⟨X2, hX2, h1, h2, h3, -⟩ := allocBind_old c f hX (by omega)
    rw [hX2] at hX'; cases hX'
    exact ⟨X, hX, h2, h1, h3⟩
  · intro x X hX
    have := h.repBound x X hX
    obtain ⟨X2, hX2, h1, h2, h3, -⟩ := allocBind_old c f hX (by omega)
    exact ⟨X2, hX2, h2, h1, h3⟩
  · intro x X hX ho
    have := h.repBound x X hX
    rcases reps_allocBind_other c f s x (by omega) with h1 | ⟨X0, v, -, -, hv, -⟩
    · rw [h1]; exact hX
    · exact absurd hv (ho v)
  · intro x X' hX' hle
    by_cases hx : x = s.nextRep
    · subst hx; rw [reps_allocBind_self h] at hX'; cases hX'; rfl
    · obtain ⟨X, hX⟩ := allocBind_alive c f hX' hx
      exact absurd (h.repBound x X hX) (by omega)

/-! ### a functor that binds a slot by value -/

/-- `!rep_->call_` -/
def invalidRep (s : State) (q : Nat) : Bool :=
  match s.reps q with
  | some Q => !Q.call
  | none => true

/-- copy-construct the anonymous variable `j` from variable `i` (`slot_base(const slot_base&)`) -/
def copyInner (ext : Bool) (d' i j : Nat) (s1 : State) : State :=
  match s1.slots i with
  | none => s1.setSlot j (some ⟨none, false⟩)
  | some X =>
    match X.rep with
    | none => s1.setSlot j (some ⟨none, X.blocked⟩)
    | some q =>
      if invalidRep s1 q
      then s1.setSlot j (some ⟨none, false⟩)
      else (cloneRepD ext d' q s1).setSlot j (some ⟨some s1.nextRep, X.blocked⟩)

/-- the representation object, then the bound copy, then the functor and the bind visit -/
def allocNest (ext c : Bool) (fid dd d' i : Nat) (s : State) : State :=
  nestFinish s.nextRep fid dd (anonBase + s.nextRep)
    (copyInner ext d' i (anonBase + s.nextRep) (allocRep ⟨c, none, none, []⟩ s))

theorem bindFunX_true (r : Nat) (f : Fun) (s : State) : bindFunX true r f s = bindFun r f s := by
  cases f <;> rfl
theorem bindFunX_false_sref (r fid v : Nat) (s : State) : bindFunX false r (.sref fid v) s = s := rfl
theorem bindFunX_false_other (r : Nat) (f : Fun) (s : State) (hf : ∀ fid v, f ≠ .sref fid v) :
    bindFunX false r f s = bindFun r f s := by
  cases f <;> first | rfl | exact absurd rfl (hf _ _)

theorem cloneRepD_succ (ext : Bool) (d' r : Nat) (s : State) : cloneRepD ext (d' + 1) r s =
    match s.reps r with
    | none => allocRep ⟨false, none, none, []⟩ s
    | some R =>
      match R.fn with
      | none => allocRep ⟨R.call, none, none, []⟩ s
      | some (.nest fid i dd) => allocNest ext R.call fid dd d' i s
      | some f => bindFunX ext s.nextRep f (allocRep ⟨R.call, none, some f, []⟩ s) := by
  rw [cloneRepD]
  cases s.reps r with
  | none => rfl
  | some R =>
    simp only []
    cases R.fn with
    | none => rfl
    | some f => cases f <;> rfl

theorem cloneRepD_zero (ext : Bool) (r : Nat) (s : State) : cloneRepD ext 0 r s =
    match s.reps r with
    | none => allocRep ⟨false, none, none, []⟩ s
    | some R =>
      match R.fn with
      | none => allocRep ⟨R.call, none, none, []⟩ s
      | some (.nest _ _ _) => allocRep ⟨R.call, none, none, []⟩ s
      | some f => bindFunX ext s.nextRep f (allocRep ⟨R.call, none, some f, []⟩ s) := by
  rw [cloneRepD]
  cases s.reps r with
  | none => rfl
  | some R =>
    simp only []
    cases R.fn with
    | none => rfl
    | some f => cases f <;> rfl

theorem newRep_flat (f : Fun) (s : State) (hflat : ∀ fid v d, f ≠ .nest fid v d) :
    newRep f s = allocBind true f s := by
  cases f with
  | nest fid v d => exact absurd rfl (hflat _ _ _)
  | _ => rfl

theorem newRep_nest (fid i x : Nat) (s : State) :
    ∃ dd d', newRep (.nest fid i x) s = allocNest false true fid dd d' i s := by
  unfold newRep allocNest copyInner
  simp only []
  cases hi : (allocRep ⟨true, none, none, []⟩ s).slots i with
  | none => exact ⟨1, 0, rfl⟩
  | some X =>
    simp only []
    cases hr : X.rep with
    | none => exact ⟨1, 0, rfl⟩
    | some q =>
      simp only []
      by_cases hq : invalidRep (allocRep ⟨true, none, none, []⟩ s) q = true
      · refine ⟨1, 0, ?_⟩
        rw [if_pos hq]
        exact if_pos hq
      · refine ⟨depthOfRep s q + 1, depthOfRep s q, ?_⟩
        rw [if_neg hq]
        exact if_neg hq

/-- the state in which the representation object `s.nextRep` and the bound copy exist, the functor not yet -/
structure Mid (c : Bool) (s s2 : State) : Prop where
  ext : Ext s s2
  self : s2.reps s.nextRep = some ⟨c, none, none, []⟩
  var : ∃ V, s2.slots (anonBase + s.nextRep) = some V

theorem anon_free {s : State} (h : Inv s) : s.slots (anonBase + s.nextRep) = none := by
  cases hV : s.slots (anonBase + s.nextRep) with
  | none => rfl
  | some V => exact absurd (var_lt h hV) (Nat.lt_irrefl _)

theorem mid_none {s : State} (h : Inv s) (hi : Idle s) (c b : Bool) :
    Mid c s ((allocRep ⟨c, none, none, []⟩ s).setSlot (anonBase + s.nextRep) (some ⟨none, b⟩)) := by
  have E := ext_allocNoFn h hi c
  have hj := anon_free h
  have h1 := E.inv
  have hsl : (allocRep ⟨c, none, none, []⟩ s).slots (anonBase + s.nextRep) = none := hj
  have hnx : (allocRep ⟨c, none, none, []⟩ s).nextRep = s.nextRep + 1 := rfl
  refine ⟨?_, by simp [reps_allocRep, reps_setSlot], ⟨_, by rw [slots_setSlot, if_pos rfl]⟩⟩
  refine { inv := by inv_auto h1 with [repOf_eq], idle := idle_of_trks hi rfl,
           next := by simp [nextRep_allocRep, nextRep_setSlot],
           conns := rfl, err := rfl, slots := ?_, newVar := ?_, self := E.self, held := ?_, old := E.old,
           keep := E.keep, orphOld := E.orphOld, newCbs := E.newCbs }
  · intro w hw
    rw [slots_setSlot, if_neg (by omega)]; rfl
  · intro w r hr hw
    rw [repOf_setSlot] at hr
    by_cases hwj : w = anonBase + s.nextRep
    · rw [if_pos hwj] at hr; simp at hr
    · rw [if_neg hwj] at hr; exact E.newVar w r hr hw
  · intro r R hR hlt
    obtain ⟨w, hw⟩ := E.held r R hR hlt
    refine ⟨w, ?_⟩
    rw [repOf_setSlot, if_neg]; exact hw
    intro hwj; subst hwj; simp [repOf, hsl] at hw

theorem mid_clone {s s2 : State} (h : Inv s) (hi : Idle s) (c b : Bool)
    (h12 : Ext (allocRep ⟨c, none, none, []⟩ s) s2) :
    Mid c s (s2.setSlot (anonBase + s.nextRep) (some ⟨some (s.nextRep + 1), b⟩)) := by
  have E := ext_allocNoFn h hi c
  have hnx : (allocRep ⟨c, none, none, []⟩ s).nextRep = s.nextRep + 1 := rfl
  have hnx2 := h12.next
  rw [hnx] at hnx2
  have hj : s2.slots (anonBase + s.nextRep) = none := by
    rw [h12.slots _ (by rw [hnx]; omega)]; exact anon_free h
  obtain ⟨M, hM, hMp, hMc⟩ := h12.self
  rw [hnx] at hM
  have horph : Orphan s2 (s.nextRep + 1) := h12.orph E.inv
  have hself : s2.reps s.nextRep = some ⟨c, none, none, []⟩ := by
    apply h12.orphOld
    · simp [reps_allocRep]
    · exact E.orph h
  have hro : ∀ w, w ≠ anonBase + s.nextRep →
      repOf (s2.setSlot (anonBase + s.nextRep) (some ⟨some (s.nextRep + 1), b⟩)) w = repOf s2 w := by
    intro w hw; rw [repOf_setSlot, if_neg hw]
  refine ⟨?_, hself, ⟨_, by rw [slots_setSlot, if_pos rfl]⟩⟩
  refine { inv := inv_adopt h12.inv b hM hMp hMc horph hj (by omega), idle := idle_of_trks h12.idle rfl,
           next := by simp only [nextRep_setSlot]; omega,
           conns := h12.conns, err := h12.err, slots := ?_, newVar := ?_, self := ⟨_, hself, rfl, rfl⟩,
           held := ?_, old := ?_, keep := ?_, orphOld := ?_, newCbs := ?_ }
  · intro w hw
    rw [slots_setSlot, if_neg (by omega), h12.slots w (by rw [hnx]; omega)]; rfl
  · intro w r hr hw
    by_cases hwj : w = anonBase + s.nextRep
    · subst hwj; rw [repOf_setSlot, if_pos rfl] at hr
      simp only [Option.bind_some, Option.some.injEq] at hr; omega
    · rw [hro w hwj] at hr
      have := h12.newVar w r hr (by rw [hnx]; omega)
      rw [hnx] at this; omega
  · intro r R hR hlt
    rw [reps_setSlot] at hR
    by_cases hr1 : r = s.nextRep + 1
    · subst hr1; exact ⟨anonBase + s.nextRep, by rw [repOf_setSlot, if_pos rfl]; rfl⟩
    · obtain ⟨w, hw⟩ := h12.held r R hR (by rw [hnx]; omega)
      refine ⟨w, ?_⟩
      rw [hro w]; exact hw
      intro hwj; subst hwj; simp [repOf, hj] at hw
  · intro x X' hX' hlt
    rw [reps_setSlot] at hX'
    obtain ⟨X, hX, h1, h2, h3⟩ := h12.old x X' hX' (by rw [hnx]; omega)
    rw [reps_allocRep, if_neg (by omega)] at hX
    exact ⟨X, hX, h1, h2, h3⟩
  · intro x X hX
    have := h.repBound x X hX
    exact h12.keep x X (by rw [reps_allocRep, if_neg (by omega)]; exact hX)
  · intro x X hX ho
    have := h.repBound x X hX
    exact h12.orphOld x X (by rw [reps_allocRep, if_neg (by omega)]; exact hX) ho
  · intro x X' hX' hle
    rw [reps_setSlot] at hX'
    by_cases hxn : x = s.nextRep
    · subst hxn; rw [hself] at hX'; cases hX'; rfl
    · exact h12.newCbs x X' hX' (by rw [hnx]; omega)

theorem nestFinish_eq (n fid dd j : Nat) (s : State) : nestFinish n fid dd j s =
    match repOf s j with
    | none => s.modRep n fun N => { N with fn := some (.nest fid j dd) }
    | some q => (s.modRep n fun N => { N with fn := some (.nest fid j dd) }).modRep q (setPar n) := by
  unfold nestFinish; rw [setParentIfNone_eq, repOf_modRep]
  cases repOf s j <;> rfl

/-- storing the functor in the representation object -/
theorem inv_storeNest {s : State} (h : Inv s) {n fid dd : Nat} {c : Bool}
    (hn : s.reps n = some ⟨c, none, none, []⟩) (hj : ∃ V, s.slots (anonBase + n) = some V) :
    Inv (s.modRep n fun N => { N with fn := some (.nest fid (anonBase + n) dd) }) := by
  refine { repAlive := ?_, repUniq := ?_, connReg := ?_, cbsConn := ?_, regUniq := ?_, cbsNodup := ?_,
           parentOk := ?_, trkReg := ?_, trkEnt := ?_, trkNodup := ?_, refOk := ?ro, ownOk := ?_, nestOk := ?_,
           anonBound := ?_, repBound := ?_, regHeld := ?_, ownCOk := ?_ }
  case ro =>
    intro r R gid v hR hf
    rw [reps_modRep] at hR
    have hrn : r ≠ n := by
      intro he; subst he
      simp only [if_true, hn, Option.map_some, Option.some.injEq] at hR
      subst hR; cases hf
    rw [if_neg hrn] at hR
    obtain ⟨h1, h2, h3⟩ := h.refOk r R gid v hR hf
    refine ⟨h1, by rw [slots_modRep]; exact h2, ?_⟩
    rintro ⟨x, X', f, hX', hXf, ho⟩
    rw [reps_modRep] at hX'
    by_cases hxn : x = n
    · subst hxn
      simp only [if_true, hn, Option.map_some, Option.some.injEq] at hX'
      subst hX'
      simp only [Option.some.injEq] at hXf
      subst hXf
      simp only [Fun.owns, Option.some.injEq] at ho
      omega
    · rw [if_neg hxn] at hX'
      exact h3 ⟨x, X', f, hX', hXf, ho⟩
  all_goals inv_clause h

theorem ext_nestFinish {s s2 : State} {c : Bool} (hI : Inv s) (m : Mid c s s2) (fid dd : Nat) :
    Ext s (nestFinish s.nextRep fid dd (anonBase + s.nextRep) s2) := by
  have E := m.ext
  have hself := m.self
  have h3 : Inv (s2.modRep s.nextRep fun N => { N with fn := some (.nest fid (anonBase + s.nextRep) dd) }) :=
    inv_storeNest E.inv hself m.var
  have hnq : ∀ q, repOf s2 (anonBase + s.nextRep) = some q → s.nextRep < q :=
    fun q hq => E.newVar _ q hq (Nat.le_refl _)
  have hselfN : (nestFinish s.nextRep fid dd (anonBase + s.nextRep) s2).reps s.nextRep =
      some ⟨c, none, some (.nest fid (anonBase + s.nextRep) dd), []⟩ := by
    rw [nestFinish_eq]
    cases hq : repOf s2 (anonBase + s.nextRep) with
    | none => simp [reps_modRep, hself]
    | some q =>
      have := hnq q hq
      simp only [reps_modRep, hself, if_true, Option.map_some]
      rw [if_neg (by omega)]
  have hother : ∀ x, x ≠ s.nextRep → ∀ X', (nestFinish s.nextRep fid dd (anonBase + s.nextRep) s2).reps x = some X' →
      ∃ X, s2.reps x = some X ∧ X'.cbs = X.cbs ∧ X'.fn = X.fn ∧ X'.call = X.call := by
    intro x hx X' hX'
    rw [nestFinish_eq] at hX'
    cases hq : repOf s2 (anonBase + s.nextRep) with
    | none =>
      rw [hq] at hX'; simp only [reps_modRep, if_neg hx] at hX'
      exact ⟨X', hX', rfl, rfl, rfl⟩
    | some q =>
      rw [hq] at hX'; simp only [reps_modRep, if_neg hx] at hX'
      by_cases hxq : x = q
      · rw [if_pos hxq, Option.map_eq_some_iff] at hX'
        obtain ⟨X, hX, rfl⟩ := hX'
        exact ⟨X, hX, setPar_cbs _ _, setPar_fn _ _, setPar_call _ _⟩
      · rw [if_neg hxq] at hX'; exact ⟨X', hX', rfl, rfl, rfl⟩
  have hkeep : ∀ x X, s2.reps x = some X → x < s.nextRep →
      (nestFinish s.nextRep fid dd (anonBase + s.nextRep) s2).reps x = some X := by
    intro x X hX hlt
    rw [nestFinish_eq]
    cases hq : repOf s2 (anonBase + s.nextRep) with
    | none => simp only [reps_modRep]; rw [if_neg (by omega)]; exact hX
    | some q =>
      have := hnq q hq
      simp only [reps_modRep]; rw [if_neg (by omega), if_neg (by omega)]; exact hX
  have hsl : (nestFinish s.nextRep fid dd (anonBase + s.nextRep) s2).slots = s2.slots := by
    unfold nestFinish; rw [slots_setParentIfNone, slots_modRep]
  have hro : ∀ w, repOf (nestFinish s.nextRep fid dd (anonBase + s.nextRep) s2) w = repOf s2 w := by
    intro w; simp only [repOf, hsl]
  refine { inv := ?_, idle := ?_, next := ?_, conns := ?_, err := ?_, slots := ?_, newVar := ?_,
           self := ⟨_, hselfN, rfl, rfl⟩, held := ?_, old := ?_, keep := ?_, orphOld := ?_, newCbs := ?_ }
  · rw [nestFinish_eq]
    cases hq : repOf s2 (anonBase + s.nextRep) with
    | none => exact h3
    | some q =>
      simp only []
      exact inv_setPar h3 (N := ⟨c, none, some (.nest fid (anonBase + s.nextRep) dd), []⟩)
        (f := .nest fid (anonBase + s.nextRep) dd) (v := anonBase + s.nextRep)
        (by simp [reps_modRep, hself]) rfl rfl (by rw [repOf_modRep]; exact hq)
  · apply idle_of_trks E.idle
    unfold nestFinish; rw [trks_setParentIfNone, trks_modRep]
  · unfold nestFinish; rw [nextRep_setParentIfNone, nextRep_modRep]; exact E.next
  · unfold nestFinish; rw [conns_setParentIfNone, conns_modRep]; exact E.conns
  · unfold nestFinish; rw [err_setParentIfNone, err_modRep]; exact E.err
  · intro w hw; rw [hsl]; exact E.slots w hw
  · intro w r hr hw; rw [hro] at hr; exact E.newVar w r hr hw
  · intro r R hR hlt
    obtain ⟨X, hX, -⟩ := hother r (by omega) R hR
    obtain ⟨w, hw⟩ := E.held r X hX hlt
    exact ⟨w, by rw [hro]; exact hw⟩
  · intro x X' hX' hlt
    obtain ⟨X2, hX2, h1, h2, h3'⟩ := hother x (by omega) X' hX'
    obtain ⟨X, hX, g1, g2, g3⟩ := E.old x X2 hX2 hlt
    exact ⟨X, hX, h1.trans g1, h2.trans g2, h3'.trans g3⟩
  · intro x X hX
    have hlt := hI.repBound x X hX
    obtain ⟨X2, hX2, g1, g2, g3⟩ := E.keep x X hX
    exact ⟨X2, hkeep x X2 hX2 hlt, g1, g2, g3⟩
  · intro x X hX ho
    exact hkeep x X (E.orphOld x X hX ho) (hI.repBound x X hX)
  · intro x X' hX' hle
    by_cases hxn : x = s.nextRep
    · subst hxn; rw [hselfN] at hX'; cases hX'; rfl
    · obtain ⟨X2, hX2, h1, -⟩ := hother x hxn X' hX'
      rw [h1]; exact E.newCbs x X2 hX2 hle

theorem ext_allocNest {s : State} (h : Inv s) (hi : Idle s) (ext c : Bool) (fid dd d' i : Nat)
    (ih : ∀ q s1, Inv s1 → Idle s1 → Ext s1 (cloneRepD ext d' q s1)) : Ext s (allocNest ext c fid dd d' i s) := by
  unfold allocNest
  apply ext_nestFinish h
  have E := ext_allocNoFn h hi c
  unfold copyInner
  cases (allocRep ⟨c, none, none, []⟩ s).slots i with
  | none => exact mid_none h hi c _
  | some X =>
    simp only []
    cases X.rep with
    | none => exact mid_none h hi c _
    | some q =>
      simp only []
      by_cases hq : invalidRep (allocRep ⟨c, none, none, []⟩ s) q = true
      · rw [if_pos hq]; exact mid_none h hi c _
      · rw [if_neg hq]; exact mid_clone h hi c _ (ih _ _ E.inv E.idle)

/-- a clone whose `sref` functor finds no free parent link (`bindFunX false`): the representation alone -/
theorem ext_allocNoBind {s : State} (h : Inv s) (hi : Idle s) (c : Bool) {fid v : Nat}
    (hf : FunOk s (.sref fid v)) : Ext s (allocRep ⟨c, none, some (.sref fid v), []⟩ s) := by
  have horph := orphan_next h
  have hf2 := hf.ref v rfl
  refine { inv := by inv_auto h, idle := idle_of_trks hi rfl, next := by simp [nextRep_allocRep], conns := rfl,
           err := rfl, slots := fun _ _ => rfl, newVar := ?_,
           self := ⟨⟨c, none, some (.sref fid v), []⟩, by simp [reps_allocRep], rfl, rfl⟩,
           held := ?_, old := ?_, keep := ?_, orphOld := ?_, newCbs := ?_ }
  · intro w r hr hw
    exact absurd (repOf_lt h (by rw [repOf_allocRep] at hr; exact hr)) (by omega)
  · intro r R hR hlt
    rw [reps_allocRep, if_neg (by omega)] at hR
    exact absurd (h.repBound r R hR) (by omega)
  · intro x X' hX' hlt
    rw [reps_allocRep, if_neg (by omega)] at hX'
    exact ⟨X', hX', rfl, rfl, rfl⟩
  · intro x X hX
    have := h.repBound x X hX
    exact ⟨X, by rw [reps_allocRep, if_neg (by omega)]; exact hX, rfl, rfl, rfl⟩
  · intro x X hX _
    have := h.repBound x X hX
    rw [reps_allocRep, if_neg (by omega)]; exact hX
  · intro x X' hX' hle
    rw [reps_allocRep] at hX'
    by_cases hx : x = s.nextRep
    · rw [if_pos hx] at hX'; cases hX'; rfl
    · rw [if_neg hx] at hX'; exact absurd (h.repBound x X' hX') (by omega)

theorem ext_bindX {s : State} (h : Inv s) (hi : Idle s) (ext c : Bool) {f : Fun} (hf : FunOk s f) :
    Ext s (bindFunX ext s.nextRep f (allocRep ⟨c, none, some f, []⟩ s)) := by
  cases ext with
  | true => rw [bindFunX_true]; exact ext_allocBind h hi c hf
  | false =>
    cases f with
    | sref fid v => rw [bindFunX_false_sref]; exact ext_allocNoBind h hi c hf
    | _ => rw [bindFunX_false_other _ _ _ (by intros; simp)]; exact ext_allocBind h hi c hf

theorem ext_cloneRepD (ext : Bool) : ∀ (d r : Nat) (s : State), Inv s → Idle s → Ext s (cloneRepD ext d r s) := by
  intro d
  induction d with
  | zero =>
    intro r s h hi
    rw [cloneRepD_zero]
    cases hR : s.reps r with
    | none => exact ext_allocNoFn h hi _
    | some R =>
      simp only []
      cases hf : R.fn with
      | none => exact ext_allocNoFn h hi _
      | some f =>
        cases f with
        | nest fid v dd => exact ext_allocNoFn h hi _
        | _ => exact ext_bindX h hi _ _ (funOk_of_inv h hR hf (by intros; simp))
  | succ d' ih =>
    intro r s h hi
    rw [cloneRepD_succ]
    cases hR : s.reps r with
    | none => exact ext_allocNoFn h hi _
    | some R =>
      simp only []
      cases hf : R.fn with
      | none => exact ext_allocNoFn h hi _
      | some f =>
        cases f with
        | nest fid v dd => exact ext_allocNest h hi _ _ _ _ _ _ ih
        | _ => exact ext_bindX h hi _ _ (funOk_of_inv h hR hf (by intros; simp))

theorem ext_cloneRep {s : State} (h : Inv s) (hi : Idle s) (r : Nat) : Ext s (cloneRep r s) :=
  ext_cloneRepD true _ r s h hi

theorem ext_newRep {s : State} (h : Inv s) (hi : Idle s) {f : Fun} (hc : specCheck s f = none)
    (hnm : ∀ v, v ∈ f.names.1 → v < anonBase) : Ext s (newRep f s) := by
  cases f with
  | nest fid v x =>
    obtain ⟨dd, d', he⟩ := newRep_nest fid v x s
    rw [he]
    exact ext_allocNest h hi _ _ _ _ _ _ (fun q s1 h1 hi1 => ext_cloneRepD false d' q s1 h1 hi1)
  | _ =>
    rw [newRep_flat _ _ (by intros; simp)]
    exact ext_allocBind h hi _ (funOk_of_spec h hc hnm (by intros; simp))

end Sigc.SlotG
