import Sigc.SlotGLemmasDestroy
/-!
  Well-formedness `WF` of the `SlotG` model at operation boundaries and the building blocks of the operations:
  `repDisconnect`, `trkNotify`, allocation of a representation, the exchange of a variable's representation.
-/
namespace Sigc.SlotG

/-- no trackable is in the middle of `notify_callbacks()` -/
def Idle (s : State) : Prop :=
  ∀ t T, s.trks t = some T → T.clearing = false ∧ ∀ x, (x, false) ∉ T.entries

/-- every representation is stored in a slot variable -/
def Held (s : State) : Prop := ∀ r R, s.reps r = some R → ∃ v, repOf s v = some r

/-- the well-formedness invariant of every reachable state -/
structure WF (s : State) : Prop where
  inv : Inv s
  idle : Idle s
  held : Held s

theorem idle_casc {s s' : State} (hc : Casc s s') (hi : Idle s) : Idle s' := by
  intro t T' hT'
  obtain ⟨T, hT, hcl⟩ := hc.trkClr t T' hT'
  have h1 := hi t T hT
  refine ⟨by rw [hcl]; exact h1.1, ?_⟩
  intro x hx
  obtain ⟨T0, hT0, h⟩ := hc.trkFlags t T' x hT' hx
  rw [hT] at hT0; cases hT0
  rcases h with h | h
  · exact h1.2 x h
  · rw [h1.1] at h; simp at h

theorem held_casc {s s' : State} (hc : Casc s s') (hh : Held s) : Held s' := by
  intro r R' hR'
  obtain ⟨R, hR, -⟩ := hc.reps r R' hR'
  obtain ⟨v, hv⟩ := hh r R hR
  rcases hc.killed v r hv with h | ⟨-, h⟩
  · exact ⟨v, h⟩
  · rw [h] at hR'; cases hR'

theorem wf_casc {s s' : State} (hc : Casc s s') (hw : WF s) (hi : Inv s') : WF s' :=
  ⟨hi, idle_casc hc hw.idle, held_casc hc hw.held⟩

/-! ### `repDisconnect` -/

theorem repDisconnect_eq (r : Nat) (s : State) : repDisconnect r s =
    match s.reps r with
    | none => s
    | some R =>
      match R.parent with
      | none => s.setRep r (some { R with call := false, parent := none })
      | some p =>
        notifyInv (fuel (s.setRep r (some { R with call := false, parent := none }))) p
          (s.setRep r (some { R with call := false, parent := none })) := rfl

theorem repDisconnect_spec {s : State} (h : Inv s) (r : Nat) (he : (repDisconnect r s).err = false) :
    Casc s (repDisconnect r s) ∧ Inv (repDisconnect r s) := by
  rw [repDisconnect_eq] at he ⊢
  cases hr : s.reps r with
  | none => exact ⟨Casc.refl s, h⟩
  | some R =>
    simp only [hr] at he ⊢
    have hI1 := inv_setRep_noParent h hr false
    have hC1 : Casc s (s.setRep r (some { R with call := false, parent := none })) := casc_setRep_noParent hr
    cases hp : R.parent with
    | none => simp only [hp] at he ⊢; exact ⟨hC1, hI1⟩
    | some p =>
      simp only [hp] at he ⊢
      obtain ⟨hC2, hI2, -⟩ := notifyInv_spec _ p _ hI1 he
      exact ⟨hC1.trans hC2, hI2⟩

/-- a representation with a parent belongs to a variable that is referred to, hence not owned: it survives -/
theorem repDisconnect_slot {s : State} (h : Inv s) {v r : Nat} (hv : repOf s v = some r)
    (hnm : v < anonBase)
    (he : (repDisconnect r s).err = false) : (repDisconnect r s).slots v = s.slots v := by
  obtain ⟨hC, -⟩ := repDisconnect_spec h r he
  obtain ⟨R, hR⟩ := h.repAlive v r hv
  cases hp : R.parent with
  | none =>
    rw [repDisconnect_eq]; simp only [hR, hp]; rfl
  | some p =>
    obtain ⟨P, f, hP, hPf, hfr⟩ := h.parentOk r R p v hR hp hv
    cases f with
    | sref fid w =>
      simp only [Fun.ref, Option.some.injEq] at hfr
      subst hfr
      exact hC.slotsKeep _ (h.refOk p P fid _ hP hPf).2.2
    | nest fid w d =>
      simp only [Fun.ref, Option.some.injEq] at hfr
      subst hfr
      have := (h.nestOk p P fid _ d hP hPf).1
      omega
    | _ => simp [Fun.ref] at hfr

/-! ### `trkNotify` -/

theorem inv_setClearing {s : State} (h : Inv s) {t : Nat} {T : Trk} (ht : s.trks t = some T) (b : Bool) :
    Inv (s.setTrk t (some { T with clearing := b })) := by
  inv_auto h

theorem inv_resetTrk {s : State} (h : Inv s) (t : Nat)
    (hno : ∀ r R f, s.reps r = some R → R.fn = some f → f.trk ≠ some t) :
    Inv (s.setTrk t (some ⟨[], false⟩)) := by
  inv_auto h

theorem inv_delTrk {s : State} (h : Inv s) (t : Nat)
    (hno : ∀ r R f, s.reps r = some R → R.fn = some f → f.trk ≠ some t) :
    Inv (s.setTrk t none) := by
  inv_auto h

theorem casc_trkReset {s s2 : State} {t : Nat} {T : Trk} (ht : s.trks t = some T) (hcl : T.clearing = false)
    (hc : Casc (s.setTrk t (some { T with clearing := true })) s2) :
    Casc s (s2.setTrk t (some ⟨[], false⟩)) := by
  have h1 := hc.nextRep; have h2 := hc.reps; have h3 := hc.slots; have h4 := hc.slotsKeep
  have h5 := hc.conns; have h6 := hc.trkDom; have h7 := hc.trkEnt; have h8 := hc.trkClr; have h9 := hc.err
  have h10 := hc.trkFlags; have h11 := hc.killed; have h12 := hc.orphanKeep
  casc_auto

/-- after `notify_callbacks()` no representation refers to the trackable any more -/
theorem trkNotify_spec {s : State} (hw : WF s) (t : Nat) (he : (trkNotify t s).err = false) :
    WF (trkNotify t s) ∧ Casc s (trkNotify t s) ∧
      ∀ r R f, (trkNotify t s).reps r = some R → R.fn = some f → f.trk ≠ some t ∨ s.trks t = none := by
  rw [trkNotify_eq] at he ⊢
  cases ht : s.trks t with
  | none => exact ⟨hw, Casc.refl s, fun _ _ _ _ _ => .inr rfl⟩
  | some T =>
    simp only [ht] at he ⊢
    rw [err_setTrk] at he
    have hI1 := inv_setClearing hw.inv ht true
    obtain ⟨hC2, hI2, hA2⟩ := trkFold_spec t T.entries _ hI1 he
    have hno : ∀ r R f, (T.entries.foldl (trkStep t) (s.setTrk t (some { T with clearing := true }))).reps r
        = some R → R.fn = some f → f.trk ≠ some t := by
      intro r R f hR hf hft
      obtain ⟨T2, hT2, hm2⟩ := hI2.trkReg r R f t hR hf hft
      obtain ⟨T1, hT1, hm1⟩ := hC2.trkEnt t T2 r hT2 hm2
      simp only [trks_setTrk, if_true, Option.some.injEq] at hT1
      subst hT1
      have := hA2 (r, true) hm1
      rw [(entryActive_iff _ _ _).mpr ⟨T2, hT2, hm2⟩] at this
      exact absurd this (by simp)
    have hC : Casc s ((T.entries.foldl (trkStep t) (s.setTrk t (some { T with clearing := true }))).setTrk t
        (some ⟨[], false⟩)) := casc_trkReset ht (hw.idle t T ht).1 hC2
    refine ⟨wf_casc hC hw (inv_resetTrk hI2 t hno), hC, ?_⟩
    intro r R f hR hf
    rw [reps_setTrk] at hR
    exact .inl (hno r R f hR hf)

/-! ### `weakNotify`, and replacing / dropping the representation stored in a variable -/

@[slotg_simp] theorem reps_weakNotify (r : Nat) (s : State) (x : Nat) :
    (weakNotify r s).reps x = if x = r then (s.reps x).map (fun R => { R with cbs := [] }) else s.reps x := by
  unfold weakNotify
  split <;> rename_i h
  · split <;> simp_all
  · simp only [reps_setRep, nullConns]; split <;> simp_all
@[slotg_simp] theorem slots_weakNotify (r : Nat) (s : State) : (weakNotify r s).slots = s.slots := by
  unfold weakNotify; split <;> simp only [slotg_simp, nullConns]
@[slotg_simp] theorem trks_weakNotify (r : Nat) (s : State) : (weakNotify r s).trks = s.trks := by
  unfold weakNotify; split <;> simp only [slotg_simp, nullConns]
@[slotg_simp] theorem nextRep_weakNotify (r : Nat) (s : State) : (weakNotify r s).nextRep = s.nextRep := by
  unfold weakNotify; split <;> simp only [slotg_simp, nullConns]
@[slotg_simp] theorem err_weakNotify (r : Nat) (s : State) : (weakNotify r s).err = s.err := by
  unfold weakNotify; split <;> simp only [slotg_simp, nullConns]
@[slotg_simp] theorem repOf_weakNotify (r : Nat) (s : State) (v : Nat) : repOf (weakNotify r s) v = repOf s v := by
  simp only [repOf, slots_weakNotify]
theorem conns_weakNotify (r : Nat) (s : State) (R : Rep) (hr : s.reps r = some R) (c : Nat) :
    (weakNotify r s).conns c = if c ∈ R.cbs then (s.conns c).map (fun _ => none) else s.conns c := by
  unfold weakNotify
  simp only [hr, slotg_simp, nullConns, List.contains_iff_mem]

/-- `~trackable` of the old representation `q` (notify the weak pointers), free it, store `o` in the variable -/
def swapVar (v q : Nat) (o : Option Nat) (s : State) : State :=
  ((weakNotify q s).setRep q none).modSlot v fun V => { V with rep := o }

theorem deleteRep_modSlot (v q : Nat) (o : Option Nat) (s : State) :
    (deleteRep q s).modSlot v (fun V => { V with rep := o }) = swapVar v q o (destroyRep (fuel s) q s) := rfl

theorem deleteRep_setSlot (v q : Nat) (s : State) :
    (deleteRep q s).setSlot v none = killVar v q (destroyRep (fuel s) q s) := rfl

@[slotg_simp] theorem reps_swapVar (v q : Nat) (o : Option Nat) (s : State) (x : Nat) :
    (swapVar v q o s).reps x = if x = q then none else s.reps x := by
  unfold swapVar; simp only [slotg_simp]; grind
@[slotg_simp] theorem slots_swapVar (v q : Nat) (o : Option Nat) (s : State) (x : Nat) :
    (swapVar v q o s).slots x = if x = v then (s.slots x).map (fun V => { V with rep := o }) else s.slots x := by
  unfold swapVar; simp only [slotg_simp]
@[slotg_simp] theorem repOf_swapVar (v q : Nat) (o : Option Nat) (s : State) (w : Nat) :
    repOf (swapVar v q o s) w = if w = v then (if (s.slots w).isSome then o else none) else repOf s w := by
  simp only [repOf, slots_swapVar]
  by_cases h : w = v
  · simp only [h, if_true]; cases s.slots v <;> simp
  · simp only [h, if_false]
@[slotg_simp] theorem trks_swapVar (v q : Nat) (o : Option Nat) (s : State) : (swapVar v q o s).trks = s.trks := by
  unfold swapVar; simp only [slotg_simp]
@[slotg_simp] theorem nextRep_swapVar (v q : Nat) (o : Option Nat) (s : State) :
    (swapVar v q o s).nextRep = s.nextRep := by
  unfold swapVar; simp only [slotg_simp]
@[slotg_simp] theorem err_swapVar (v q : Nat) (o : Option Nat) (s : State) : (swapVar v q o s).err = s.err := by
  unfold swapVar; simp only [slotg_simp]
theorem conns_swapVar (v q : Nat) (o : Option Nat) (s : State) (Q : Rep) (hq : s.reps q = some Q) (c : Nat) :
    (swapVar v q o s).conns c = if c ∈ Q.cbs then (s.conns c).map (fun _ => none) else s.conns c := by
  unfold swapVar; simp only [slotg_simp]; exact conns_weakNotify q s Q hq c

@[slotg_simp high] theorem repOf_modSlot_blocked (s : State) (k : Nat) (b : Bool) (v : Nat) :
    repOf (s.modSlot k (fun V => { V with blocked := b })) v = repOf s v := by
  rw [repOf_modSlot]
  by_cases h : v = k
  · subst h; simp only [if_true, repOf]; cases s.slots v <;> simp
  · simp only [h, if_false]

@[slotg_simp high] theorem repOf_modSlot_rep (s : State) (k : Nat) (o : Option Nat) (v : Nat) :
    repOf (s.modSlot k (fun V => { V with rep := o })) v =
      if v = k then (if (s.slots v).isSome then o else none) else repOf s v := by
  rw [repOf_modSlot]
  by_cases h : v = k
  · subst h; simp only [if_true]; cases s.slots v <;> simp
  · simp only [h, if_false]

theorem orphan_swapVar {s : State} {v q r : Nat} (h : Orphan s r) : Orphan (swapVar v q none s) r := by
  intro w hw
  rw [repOf_swapVar] at hw
  by_cases hwv : w = v
  · simp [hwv] at hw
  · rw [if_neg hwv] at hw; exact h w hw

theorem inv_swapVar {s : State} (h : Inv s) {v q : Nat} {Q : Rep}
    (hv : repOf s v = some q) (hq : s.reps q = some Q) (hfn : Q.fn = none) :
    Inv (swapVar v q none s) := by
  have hc := conns_swapVar v q none s Q hq
  have hdisj : ∀ c, c ∈ Q.cbs → ∀ r R, s.reps r = some R → c ∈ R.cbs → r = q :=
    fun c hc1 r R hR hc2 => h.regUniq r R q Q c hR hq hc2 hc1
  have hkeep : ∀ w r, r ≠ q → repOf s w = some r → repOf (swapVar v q none s) w = some r := by
    intro w r hrq hw
    rw [repOf_swapVar]
    by_cases hwv : w = v
    · subst hwv; rw [hv] at hw; cases hw; exact absurd rfl hrq
    · rw [if_neg hwv]; exact hw
  refine { repAlive := ?_, repUniq := ?_, connReg := ?cr, cbsConn := ?cc, regUniq := ?_, cbsNodup := ?_,
           parentOk := ?_, trkReg := ?_, trkEnt := ?_, trkNodup := ?_, refOk := ?_, ownOk := ?_, nestOk := ?_, anonBound := ?_, repBound := ?_, regHeld := ?_, ownCOk := ?_ }
  case cr =>
    intro c w hcw
    rw [hc c] at hcw
    by_cases hm : c ∈ Q.cbs
    · rw [if_pos hm] at hcw; cases hx : s.conns c <;> simp [hx] at hcw
    · rw [if_neg hm] at hcw
      obtain ⟨r, R, hR, hmR, hor⟩ := h.connReg c w hcw
      have hrq : r ≠ q := fun he => by subst he; rw [hq] at hR; cases hR; exact hm hmR
      refine ⟨r, R, by rw [reps_swapVar, if_neg hrq]; exact hR, hmR, ?_⟩
      rcases hor with hor | hor
      · exact .inl (hkeep w r hrq hor)
      · exact .inr (orphan_swapVar hor)
  case cc =>
    intro r R c hR hm
    rw [reps_swapVar] at hR
    by_cases hrq : r = q
    · simp [hrq] at hR
    · rw [if_neg hrq] at hR
      obtain ⟨w, hw, hor⟩ := h.cbsConn r R c hR hm
      have hcn : c ∉ Q.cbs := fun hmq => hrq (hdisj c hmq r R hR hm)
      refine ⟨w, by rw [hc c, if_neg hcn]; exact hw, ?_⟩
      rcases hor with hor | hor
      · exact .inl (hkeep w r hrq hor)
      · exact .inr (orphan_swapVar hor)
  all_goals inv_clause h

theorem idle_swapVar {s : State} (h : Idle s) (v q : Nat) (o : Option Nat) : Idle (swapVar v q o s) := by
  unfold Idle at *; st_simp; exact h

theorem held_swapVar {s : State} (hi : Inv s) {v q : Nat} {o : Option Nat}
    (h : ∀ r R, s.reps r = some R → (∃ w, repOf s w = some r) ∨ some r = o)
    (hv : repOf s v = some q) : Held (swapVar v q o s) := by
  have h2 := hi.repUniq
  unfold Held at *; st_simp; grind [repOf_eq]

end Sigc.SlotG
