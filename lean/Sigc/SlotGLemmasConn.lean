import Sigc.SlotGLemmasCasc
/-!
  The death of a connection object owned by a functor (`killConn` = `~connection`): it deregisters through the slot
  variable's current representation.  `Inv` is preserved because a representation that carries registrations is
  always held by the variable they belong to (`regHeld`): the fixed library notifies the observers of an old
  representation before it deletes it.
-/
namespace Sigc.SlotG

/-! ### `delete` of an owned connection object -/

theorem killConn_eq (c : Nat) (s : State) : killConn c s =
    match s.conns c with
    | some (some v) =>
      (match repOf s v with
       | none => s.setConn c none
       | some r => (s.modRep r fun R => { R with cbs := R.cbs.erase c }).setConn c none)
    | _ => s.setConn c none := by
  unfold killConn connTarget slotRemCb
  cases hc : s.conns c with
  | none => rfl
  | some o =>
    cases o with
    | none => rfl
    | some v =>
      simp only []
      cases repOf s v <;> rfl

@[slotg_simp] theorem slots_killConn (c : Nat) (s : State) : (killConn c s).slots = s.slots := by
  rw [killConn_eq]; split
  · split <;> simp only [slotg_simp]
  · rfl
@[slotg_simp] theorem trks_killConn (c : Nat) (s : State) : (killConn c s).trks = s.trks := by
  rw [killConn_eq]; split
  · split <;> simp only [slotg_simp]
  · rfl
@[slotg_simp] theorem nextRep_killConn (c : Nat) (s : State) : (killConn c s).nextRep = s.nextRep := by
  rw [killConn_eq]; split
  · split <;> simp only [slotg_simp]
  · rfl
@[slotg_simp] theorem err_killConn (c : Nat) (s : State) : (killConn c s).err = s.err := by
  rw [killConn_eq]; split
  · split <;> simp only [slotg_simp]
  · rfl
@[slotg_simp] theorem repOf_killConn (c : Nat) (s : State) (v : Nat) : repOf (killConn c s) v = repOf s v := by
  simp only [repOf, slots_killConn]
@[slotg_simp] theorem conns_killConn (c : Nat) (s : State) (x : Nat) :
    (killConn c s).conns x = if x = c then none else s.conns x := by
  rw [killConn_eq]; split
  · split <;> simp only [slotg_simp]
  · rfl

/-- what `killConn` does to a representation: at most the registration of `c` is erased -/
theorem reps_killConn_of (c : Nat) (s : State) (x : Nat) (X' : Rep) (h : (killConn c s).reps x = some X') :
    ∃ X, s.reps x = some X ∧ X'.call = X.call ∧ X'.parent = X.parent ∧ X'.fn = X.fn ∧
      (X'.cbs = X.cbs ∨ X'.cbs = X.cbs.erase c) := by
  rw [killConn_eq] at h
  split at h
  · split at h
    · exact ⟨X', h, rfl, rfl, rfl, .inl rfl⟩
    · simp only [slotg_simp] at h
      split at h
      · rw [Option.map_eq_some_iff] at h
        obtain ⟨X, hX, rfl⟩ := h
        exact ⟨X, hX, rfl, rfl, rfl, .inr rfl⟩
      · exact ⟨X', h, rfl, rfl, rfl, .inl rfl⟩
  · exact ⟨X', h, rfl, rfl, rfl, .inl rfl⟩

theorem reps_killConn_to (c : Nat) (s : State) (x : Nat) (X : Rep) (h : s.reps x = some X) :
    ∃ X', (killConn c s).reps x = some X' := by
  rw [killConn_eq]
  split
  · split
    · exact ⟨X, h⟩
    · simp only [slotg_simp]
      split
      · exact ⟨_, by rw [h]; rfl⟩
      · exact ⟨X, h⟩
  · exact ⟨X, h⟩

set_option maxHeartbeats 400000 in
theorem inv_eraseConn {s : State} (h : Inv s) {c v r : Nat} {R : Rep} (hc : s.conns c = some (some v))
    (hr : repOf s v = some r) (hR : s.reps r = some R) (hm : c ∈ R.cbs) (hno : ¬ OwnedC s c) :
    Inv ((s.modRep r fun R => { R with cbs := R.cbs.erase c }).setConn c none) := by
  -- the representations after the step
  have hnew : ∀ x X', ((s.modRep r fun R => { R with cbs := R.cbs.erase c }).setConn c none).reps x = some X' →
      ∃ X, s.reps x = some X ∧ ((x = r ∧ X'.cbs = X.cbs.erase c) ∨ (x ≠ r ∧ X'.cbs = X.cbs)) := by
    intro x X' hx
    rw [reps_setConn, reps_modRep] at hx
    by_cases hxr : x = r
    · rw [if_pos hxr, Option.map_eq_some_iff] at hx
      obtain ⟨X, hX, rfl⟩ := hx
      exact ⟨X, hX, .inl ⟨hxr, rfl⟩⟩
    · rw [if_neg hxr] at hx; exact ⟨X', hx, .inr ⟨hxr, rfl⟩⟩
  have hsub : ∀ x X', ((s.modRep r fun R => { R with cbs := R.cbs.erase c }).setConn c none).reps x = some X' →
      ∃ X, s.reps x = some X ∧ (∀ a, a ∈ X'.cbs → a ∈ X.cbs ∧ a ≠ c) := by
    intro x X' hx
    obtain ⟨X, hX, hcase⟩ := hnew x X' hx
    refine ⟨X, hX, ?_⟩
    intro a ha
    rcases hcase with ⟨hxr, hcb⟩ | ⟨hxr, hcb⟩
    · rw [hcb] at ha
      exact ⟨List.mem_of_mem_erase ha, ((h.cbsNodup x X hX).mem_erase_iff.mp ha).1⟩
    · rw [hcb] at ha
      refine ⟨ha, ?_⟩
      intro hac; subst hac
      exact hxr (h.regUniq x X r R a hX hR ha hm)
  have horph : ∀ x, Orphan ((s.modRep r fun R => { R with cbs := R.cbs.erase c }).setConn c none) x ↔ Orphan s x := by
    intro x; unfold Orphan; simp only [repOf_setConn, repOf_modRep]
  refine { repAlive := ?_, repUniq := ?_, connReg := ?cr, cbsConn := ?cc, regUniq := ?ru, cbsNodup := ?cn,
           parentOk := ?_, trkReg := ?_, trkEnt := ?_, trkNodup := ?_, refOk := ?_, ownOk := ?_, nestOk := ?_,
           anonBound := ?_, repBound := ?_, regHeld := ?rh, ownCOk := ?_ }
  case cr =>
    intro c' v' hcv
    rw [conns_setConn] at hcv
    by_cases hcc : c' = c
    · rw [if_pos hcc] at hcv; cases hcv
    · rw [if_neg hcc, conns_modRep] at hcv
      obtain ⟨x, X, hX, hmX, hor⟩ := h.connReg c' v' hcv
      have hor' : repOf ((s.modRep r fun R => { R with cbs := R.cbs.erase c }).setConn c none) v' = some x ∨
          Orphan ((s.modRep r fun R => { R with cbs := R.cbs.erase c }).setConn c none) x := by
        rw [horph, repOf_setConn, repOf_modRep]; exact hor
      by_cases hxr : x = r
      · subst hxr
        refine ⟨x, { X with cbs := X.cbs.erase c }, ?_, ?_, hor'⟩
        · rw [reps_setConn, reps_modRep, if_pos rfl, hX]; rfl
        · exact (List.mem_erase_of_ne hcc).mpr hmX
      · exact ⟨x, X, by rw [reps_setConn, reps_modRep, if_neg hxr]; exact hX, hmX, hor'⟩
  case cc =>
    intro x X' c' hX' hm'
    obtain ⟨X, hX, hs⟩ := hsub x X' hX'
    obtain ⟨hmX, hne⟩ := hs c' hm'
    obtain ⟨w, hw, hor⟩ := h.cbsConn x X c' hX hmX
    refine ⟨w, by rw [conns_setConn, if_neg hne, conns_modRep]; exact hw, ?_⟩
    rw [horph, repOf_setConn, repOf_modRep]; exact hor
  case ru =>
    intro r1 R1 r2 R2 c' h1 h2 m1 m2
    obtain ⟨X1, hX1, hs1⟩ := hsub r1 R1 h1
    obtain ⟨X2, hX2, hs2⟩ := hsub r2 R2 h2
    exact h.regUniq r1 X1 r2 X2 c' hX1 hX2 (hs1 c' m1).1 (hs2 c' m2).1
  case cn =>
    intro x X' hX'
    obtain ⟨X, hX, hcase⟩ := hnew x X' hX'
    rcases hcase with ⟨-, hcb⟩ | ⟨-, hcb⟩
    · rw [hcb]; exact (h.cbsNodup x X hX).erase c
    · rw [hcb]; exact h.cbsNodup x X hX
  case rh =>
    intro x X' c' hX' hm'
    obtain ⟨X, hX, hs⟩ := hsub x X' hX'
    obtain ⟨w, hw⟩ := h.regHeld x X c' hX (hs c' hm').1
    exact ⟨w, by rw [repOf_setConn, repOf_modRep]; exact hw⟩
  all_goals (clear hnew hsub horph hm hr hc; inv_clause h)

end Sigc.SlotG
