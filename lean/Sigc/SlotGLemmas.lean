import Sigc.SlotG
import Sigc.SlotGAttr
/-!
  Lemmas about the `SlotG` model: the cascade-stable invariant `Inv` and its preservation by every building
  block of the model (`destroyRep`, `notifyInv`, `trkNotify`, the assignment tails, …).
-/
namespace Sigc.SlotG

/-- some live owning functor copy shares the holder of `v` -/
def Owned (s : State) (v : Nat) : Prop := ∃ r R f, s.reps r = some R ∧ R.fn = some f ∧ f.owns = some v
/-- some live functor copy shares the holder of connection `c` -/
def OwnedC (s : State) (c : Nat) : Prop := ∃ r R f, s.reps r = some R ∧ R.fn = some f ∧ f.ownsC = some c
/-- some live `sref` functor copy refers to `v` -/
def Pinned (s : State) (v : Nat) : Prop := ∃ r R fid, s.reps r = some R ∧ R.fn = some (.sref fid v)

/-- no slot variable stores representation `r` (a freshly made one, one that was moved out of its variable, or the
    old one of an assignment while it is being deleted) -/
def Orphan (s : State) (r : Nat) : Prop := ∀ w, repOf s w ≠ some r

/-- the invariant that holds at every point of every cascade (trackables may be clearing, a freshly made
    representation may not yet be stored in its variable — `parentOk` speaks about stored representations) -/
structure Inv (s : State) : Prop where
  repAlive : ∀ v r, repOf s v = some r → ∃ R, s.reps r = some R
  repUniq : ∀ v1 v2 r, repOf s v1 = some r → repOf s v2 = some r → v1 = v2
  connReg : ∀ c v, s.conns c = some (some v) →
    ∃ r R, s.reps r = some R ∧ c ∈ R.cbs ∧ (repOf s v = some r ∨ Orphan s r)
  cbsConn : ∀ r R c, s.reps r = some R → c ∈ R.cbs →
    ∃ v, s.conns c = some (some v) ∧ (repOf s v = some r ∨ Orphan s r)
  regUniq : ∀ r1 R1 r2 R2 c, s.reps r1 = some R1 → s.reps r2 = some R2 → c ∈ R1.cbs → c ∈ R2.cbs → r1 = r2
  cbsNodup : ∀ r R, s.reps r = some R → R.cbs.Nodup
  parentOk : ∀ r R p v, s.reps r = some R → R.parent = some p → repOf s v = some r →
    ∃ P f, s.reps p = some P ∧ P.fn = some f ∧ f.ref = some v
  trkReg : ∀ r R f t, s.reps r = some R → R.fn = some f → f.trk = some t →
    ∃ T, s.trks t = some T ∧ (r, true) ∈ T.entries
  trkEnt : ∀ t T r, s.trks t = some T → (r, true) ∈ T.entries →
    ∃ R f, s.reps r = some R ∧ R.fn = some f ∧ f.trk = some t
  trkNodup : ∀ t T, s.trks t = some T → (T.entries.map Prod.fst).Nodup
  refOk : ∀ r R fid v, s.reps r = some R → R.fn = some (.sref fid v) →
    v < anonBase ∧ (∃ V, s.slots v = some V) ∧ ¬ Owned s v
  ownOk : ∀ r R fid v t, s.reps r = some R → R.fn = some (.own fid v t) →
    v < anonBase ∧ ∃ V, s.slots v = some V
  nestOk : ∀ r R fid v d, s.reps r = some R → R.fn = some (.nest fid v d) →
    v = anonBase + r ∧ ∃ V, s.slots v = some V
  anonBound : ∀ v V, s.slots v = some V → anonBase ≤ v → v < anonBase + s.nextRep
  repBound : ∀ r R, s.reps r = some R → r < s.nextRep
  regHeld : ∀ r R c, s.reps r = some R → c ∈ R.cbs → ∃ v, repOf s v = some r
  ownCOk : ∀ r R fid c, s.reps r = some R → R.fn = some (.ownc fid c) → ∃ p, s.conns c = some p

theorem repOf_eq {s : State} {v r : Nat} : repOf s v = some r ↔ ∃ V, s.slots v = some V ∧ V.rep = some r := by
  unfold repOf; split <;> simp_all

@[slotg_simp, grind =] theorem slots_setSlot (s : State) (k : Nat) (o) (x : Nat) : (s.setSlot k o).slots x = if x = k then o else s.slots x := rfl
@[slotg_simp, grind =] theorem reps_setSlot (s : State) (k : Nat) (o) : (s.setSlot k o).reps = s.reps := rfl
@[slotg_simp, grind =] theorem trks_setSlot (s : State) (k : Nat) (o) : (s.setSlot k o).trks = s.trks := rfl
@[slotg_simp, grind =] theorem conns_setSlot (s : State) (k : Nat) (o) : (s.setSlot k o).conns = s.conns := rfl
@[slotg_simp, grind =] theorem nextRep_setSlot (s : State) (k : Nat) (o) : (s.setSlot k o).nextRep = s.nextRep := rfl
@[slotg_simp, grind =] theorem err_setSlot (s : State) (k : Nat) (o) : (s.setSlot k o).err = s.err := rfl
@[slotg_simp, grind =] theorem slots_setRep (s : State) (k : Nat) (o) : (s.setRep k o).slots = s.slots := rfl
@[slotg_simp, grind =] theorem reps_setRep (s : State) (k : Nat) (o) (x : Nat) : (s.setRep k o).reps x = if x = k then o else s.reps x := rfl
@[slotg_simp, grind =] theorem trks_setRep (s : State) (k : Nat) (o) : (s.setRep k o).trks = s.trks := rfl
@[slotg_simp, grind =] theorem conns_setRep (s : State) (k : Nat) (o) : (s.setRep k o).conns = s.conns := rfl
@[slotg_simp, grind =] theorem nextRep_setRep (s : State) (k : Nat) (o) : (s.setRep k o).nextRep = s.nextRep := rfl
@[slotg_simp, grind =] theorem err_setRep (s : State) (k : Nat) (o) : (s.setRep k o).err = s.err := rfl
@[slotg_simp, grind =] theorem slots_setTrk (s : State) (k : Nat) (o) : (s.setTrk k o).slots = s.slots := rfl
@[slotg_simp, grind =] theorem reps_setTrk (s : State) (k : Nat) (o) : (s.setTrk k o).reps = s.reps := rfl
@[slotg_simp, grind =] theorem trks_setTrk (s : State) (k : Nat) (o) (x : Nat) : (s.setTrk k o).trks x = if x = k then o else s.trks x := rfl
@[slotg_simp, grind =] theorem conns_setTrk (s : State) (k : Nat) (o) : (s.setTrk k o).conns = s.conns := rfl
@[slotg_simp, grind =] theorem nextRep_setTrk (s : State) (k : Nat) (o) : (s.setTrk k o).nextRep = s.nextRep := rfl
@[slotg_simp, grind =] theorem err_setTrk (s : State) (k : Nat) (o) : (s.setTrk k o).err = s.err := rfl
@[slotg_simp, grind =] theorem slots_setConn (s : State) (k : Nat) (o) : (s.setConn k o).slots = s.slots := rfl
@[slotg_simp, grind =] theorem reps_setConn (s : State) (k : Nat) (o) : (s.setConn k o).reps = s.reps := rfl
@[slotg_simp, grind =] theorem trks_setConn (s : State) (k : Nat) (o) : (s.setConn k o).trks = s.trks := rfl
@[slotg_simp, grind =] theorem conns_setConn (s : State) (k : Nat) (o) (x : Nat) : (s.setConn k o).conns x = if x = k then o else s.conns x := rfl
@[slotg_simp, grind =] theorem nextRep_setConn (s : State) (k : Nat) (o) : (s.setConn k o).nextRep = s.nextRep := rfl
@[slotg_simp, grind =] theorem err_setConn (s : State) (k : Nat) (o) : (s.setConn k o).err = s.err := rfl
@[slotg_simp, grind =] theorem repOf_setRep (s : State) (k : Nat) (o) (v : Nat) : repOf (s.setRep k o) v = repOf s v := rfl
@[slotg_simp, grind =] theorem repOf_setTrk (s : State) (k : Nat) (o) (v : Nat) : repOf (s.setTrk k o) v = repOf s v := rfl
@[slotg_simp, grind =] theorem repOf_setConn (s : State) (k : Nat) (o) (v : Nat) : repOf (s.setConn k o) v = repOf s v := rfl
@[slotg_simp, grind =] theorem repOf_setSlot (s : State) (k : Nat) (o : Option SVar) (v : Nat) :
    repOf (s.setSlot k o) v = if v = k then o.bind SVar.rep else repOf s v := by
  simp only [repOf, State.setSlot]
  by_cases h : v = k
  · simp only [h, if_true]; cases o <;> rfl
  · simp only [h, if_false]

@[slotg_simp, grind =] theorem reps_modRep (s : State) (k : Nat) (g : Rep → Rep) (x : Nat) :
    (s.modRep k g).reps x = if x = k then (s.reps x).map g else s.reps x := by
  unfold State.modRep; split <;> rename_i h
  · simp only [reps_setRep]; split <;> simp_all
  · split <;> simp_all
@[slotg_simp, grind =] theorem slots_modRep (s : State) (k : Nat) (g : Rep → Rep) : (s.modRep k g).slots = s.slots := by
  unfold State.modRep; split <;> rfl
@[slotg_simp, grind =] theorem trks_modRep (s : State) (k : Nat) (g : Rep → Rep) : (s.modRep k g).trks = s.trks := by
  unfold State.modRep; split <;> rfl
@[slotg_simp, grind =] theorem conns_modRep (s : State) (k : Nat) (g : Rep → Rep) : (s.modRep k g).conns = s.conns := by
  unfold State.modRep; split <;> rfl
@[slotg_simp, grind =] theorem nextRep_modRep (s : State) (k : Nat) (g : Rep → Rep) : (s.modRep k g).nextRep = s.nextRep := by
  unfold State.modRep; split <;> rfl
@[slotg_simp, grind =] theorem err_modRep (s : State) (k : Nat) (g : Rep → Rep) : (s.modRep k g).err = s.err := by
  unfold State.modRep; split <;> rfl
@[slotg_simp, grind =] theorem repOf_modRep (s : State) (k : Nat) (g : Rep → Rep) (v : Nat) :
    repOf (s.modRep k g) v = repOf s v := by
  unfold State.modRep; split <;> rfl

@[slotg_simp, grind =] theorem slots_modSlot (s : State) (k : Nat) (g : SVar → SVar) (x : Nat) :
    (s.modSlot k g).slots x = if x = k then (s.slots x).map g else s.slots x := by
  unfold State.modSlot; split <;> rename_i h
  · simp only [slots_setSlot]; split <;> simp_all
  · split <;> simp_all
@[slotg_simp, grind =] theorem reps_modSlot (s : State) (k : Nat) (g : SVar → SVar) : (s.modSlot k g).reps = s.reps := by
  unfold State.modSlot; split <;> rfl
@[slotg_simp, grind =] theorem trks_modSlot (s : State) (k : Nat) (g : SVar → SVar) : (s.modSlot k g).trks = s.trks := by
  unfold State.modSlot; split <;> rfl
@[slotg_simp, grind =] theorem conns_modSlot (s : State) (k : Nat) (g : SVar → SVar) : (s.modSlot k g).conns = s.conns := by
  unfold State.modSlot; split <;> rfl
@[slotg_simp, grind =] theorem nextRep_modSlot (s : State) (k : Nat) (g : SVar → SVar) :
    (s.modSlot k g).nextRep = s.nextRep := by
  unfold State.modSlot; split <;> rfl
@[slotg_simp, grind =] theorem err_modSlot (s : State) (k : Nat) (g : SVar → SVar) : (s.modSlot k g).err = s.err := by
  unfold State.modSlot; split <;> rfl
@[slotg_simp, grind =] theorem repOf_modSlot (s : State) (k : Nat) (g : SVar → SVar) (v : Nat) :
    repOf (s.modSlot k g) v = if v = k then ((s.slots v).map g).bind SVar.rep else repOf s v := by
  unfold State.modSlot; split <;> rename_i h
  · rw [repOf_setSlot]; split <;> simp_all
  · split
    · rename_i hv; subst hv; simp [repOf, h]
    · rfl

/-- rewrite field projections of updated states -/
macro "st_simp" : tactic =>
  `(tactic| simp only [slotg_simp, Owned, OwnedC, Orphan, Option.map_eq_some_iff, Option.map_eq_none_iff, Option.bind_eq_some_iff] at *)

/-- one clause of `Inv _`: all clauses of `Inv s` as hypotheses, field rewriting, then `grind` -/
syntax "inv_clause " ident (" with" " [" Lean.Parser.Tactic.grindParam,* "]")? : tactic
macro_rules
  | `(tactic| inv_clause $h:ident $[with [$ps,*]]?) => do
    let ps : Array (Lean.TSyntax `Lean.Parser.Tactic.grindParam) := (ps.getD ⟨#[]⟩).getElems
    let ps := ps.push (← `(Lean.Parser.Tactic.grindParam| Fun.trk))
    let ps := ps.push (← `(Lean.Parser.Tactic.grindParam| Fun.ref))
    let ps := ps.push (← `(Lean.Parser.Tactic.grindParam| Fun.owns))
    let ps := ps.push (← `(Lean.Parser.Tactic.grindParam| Fun.ownsC))
    let ps := ps.push (← `(Lean.Parser.Tactic.grindParam| Option.map_eq_some_iff))
    `(tactic|
        (intros
         have hA1 := ($h).repAlive; have hA2 := ($h).repUniq; have hA3 := ($h).connReg
         have hA4 := ($h).cbsConn; have hA5 := ($h).cbsNodup; have hA6 := ($h).parentOk
         have hA7 := ($h).trkReg; have hA8 := ($h).trkEnt; have hA9 := ($h).trkNodup
         have hA10 := ($h).refOk; have hA11 := ($h).ownOk; have hA12 := ($h).repBound
         have hA13 := ($h).regUniq; have hA14 := ($h).nestOk; have hA15 := ($h).anonBound
         have hA16 := ($h).regHeld; have hA17 := ($h).ownCOk
         try st_simp
         first | done | grind [$ps,*] | grind (instances := 4000) [$ps,*]))

/-- all clauses of `Inv _` by `inv_clause` -/
syntax "inv_auto " ident (" with" " [" Lean.Parser.Tactic.grindParam,* "]")? : tactic
macro_rules
  | `(tactic| inv_auto $h:ident $[with [$ps,*]]?) => do
    let ps : Array (Lean.TSyntax `Lean.Parser.Tactic.grindParam) := (ps.getD ⟨#[]⟩).getElems
    `(tactic| (constructor <;> inv_clause $h with [$ps,*]))

/-- `Inv` with the connection clauses at full strength (no registration on an unstored representation): what
    holds at operation boundaries; used for the operations that involve no cascade -/
structure InvS (s : State) : Prop where
  repAlive : ∀ v r, repOf s v = some r → ∃ R, s.reps r = some R
  repUniq : ∀ v1 v2 r, repOf s v1 = some r → repOf s v2 = some r → v1 = v2
  connReg : ∀ c v, s.conns c = some (some v) → ∃ r R, repOf s v = some r ∧ s.reps r = some R ∧ c ∈ R.cbs
  cbsConn : ∀ r R c, s.reps r = some R → c ∈ R.cbs → ∃ v, s.conns c = some (some v) ∧ repOf s v = some r
  cbsNodup : ∀ r R, s.reps r = some R → R.cbs.Nodup
  parentOk : ∀ r R p v, s.reps r = some R → R.parent = some p → repOf s v = some r →
    ∃ P f, s.reps p = some P ∧ P.fn = some f ∧ f.ref = some v
  trkReg : ∀ r R f t, s.reps r = some R → R.fn = some f → f.trk = some t →
    ∃ T, s.trks t = some T ∧ (r, true) ∈ T.entries
  trkEnt : ∀ t T r, s.trks t = some T → (r, true) ∈ T.entries →
    ∃ R f, s.reps r = some R ∧ R.fn = some f ∧ f.trk = some t
  trkNodup : ∀ t T, s.trks t = some T → (T.entries.map Prod.fst).Nodup
  refOk : ∀ r R fid v, s.reps r = some R → R.fn = some (.sref fid v) →
    v < anonBase ∧ (∃ V, s.slots v = some V) ∧ ¬ Owned s v
  ownOk : ∀ r R fid v t, s.reps r = some R → R.fn = some (.own fid v t) →
    v < anonBase ∧ ∃ V, s.slots v = some V
  nestOk : ∀ r R fid v d, s.reps r = some R → R.fn = some (.nest fid v d) →
    v = anonBase + r ∧ ∃ V, s.slots v = some V
  anonBound : ∀ v V, s.slots v = some V → anonBase ≤ v → v < anonBase + s.nextRep
  repBound : ∀ r R, s.reps r = some R → r < s.nextRep
  ownCOk : ∀ r R fid c, s.reps r = some R → R.fn = some (.ownc fid c) → ∃ p, s.conns c = some p

theorem InvS.inv {s : State} (h : InvS s) : Inv s where
  repAlive := h.repAlive
  repUniq := h.repUniq
  connReg := fun c v hc => by
    obtain ⟨r, R, hr, hR, hm⟩ := h.connReg c v hc; exact ⟨r, R, hR, hm, .inl hr⟩
  cbsConn := fun r R c hR hm => by
    obtain ⟨v, hv, hr⟩ := h.cbsConn r R c hR hm; exact ⟨v, hv, .inl hr⟩
  regUniq := fun r1 R1 r2 R2 c h1 h2 m1 m2 => by
    obtain ⟨v1, hv1, hr1⟩ := h.cbsConn r1 R1 c h1 m1
    obtain ⟨v2, hv2, hr2⟩ := h.cbsConn r2 R2 c h2 m2
    rw [hv1] at hv2; cases hv2; rw [hr1] at hr2; cases hr2; rfl
  cbsNodup := h.cbsNodup
  parentOk := h.parentOk
  trkReg := h.trkReg
  trkEnt := h.trkEnt
  trkNodup := h.trkNodup
  refOk := h.refOk
  ownOk := h.ownOk
  nestOk := h.nestOk
  anonBound := h.anonBound
  repBound := h.repBound
  regHeld := fun r R c hR hm => by
    obtain ⟨v, -, hr⟩ := h.cbsConn r R c hR hm; exact ⟨v, hr⟩
  ownCOk := h.ownCOk

/-- one clause of `InvS _` from `h : InvS s` -/
syntax "invs_clause " ident (" with" " [" Lean.Parser.Tactic.grindParam,* "]")? : tactic
macro_rules
  | `(tactic| invs_clause $h:ident $[with [$ps,*]]?) => do
    let ps : Array (Lean.TSyntax `Lean.Parser.Tactic.grindParam) := (ps.getD ⟨#[]⟩).getElems
    let ps := ps.push (← `(Lean.Parser.Tactic.grindParam| Fun.trk))
    let ps := ps.push (← `(Lean.Parser.Tactic.grindParam| Fun.ref))
    let ps := ps.push (← `(Lean.Parser.Tactic.grindParam| Fun.owns))
    let ps := ps.push (← `(Lean.Parser.Tactic.grindParam| Fun.ownsC))
    let ps := ps.push (← `(Lean.Parser.Tactic.grindParam| Option.map_eq_some_iff))
    `(tactic|
        (intros
         have hA1 := ($h).repAlive; have hA2 := ($h).repUniq; have hA3 := ($h).connReg
         have hA4 := ($h).cbsConn; have hA5 := ($h).cbsNodup; have hA6 := ($h).parentOk
         have hA7 := ($h).trkReg; have hA8 := ($h).trkEnt; have hA9 := ($h).trkNodup
         have hA10 := ($h).refOk; have hA11 := ($h).ownOk; have hA12 := ($h).repBound
         have hA14 := ($h).nestOk; have hA15 := ($h).anonBound; have hA17 := ($h).ownCOk
         try st_simp
         first | done | grind [$ps,*] | grind (instances := 4000) [$ps,*]))

/-- all clauses of `InvS _` by `invs_clause` -/
syntax "invs_auto " ident (" with" " [" Lean.Parser.Tactic.grindParam,* "]")? : tactic
macro_rules
  | `(tactic| invs_auto $h:ident $[with [$ps,*]]?) => do
    let ps : Array (Lean.TSyntax `Lean.Parser.Tactic.grindParam) := (ps.getD ⟨#[]⟩).getElems
    `(tactic| (constructor <;> invs_clause $h with [$ps,*]))

/-- replacing a live representation by one with the same `parent`, `fn`, `cbs` -/
theorem inv_setRep_same {s : State} (h : Inv s) {r : Nat} {R R' : Rep} (hr : s.reps r = some R)
    (h1 : R'.parent = R.parent) (h2 : R'.fn = R.fn) (h3 : R'.cbs = R.cbs) :
    Inv (s.setRep r (some R')) := by
  inv_auto h

/-- changing `call` of a live representation -/
theorem inv_setRep_call {s : State} (h : Inv s) {r : Nat} {R : Rep} (hr : s.reps r = some R) (b : Bool) :
    Inv (s.setRep r (some { R with call := b })) := by
  inv_auto h

/-- clearing `parent` of a live representation -/
theorem inv_setRep_noParent {s : State} (h : Inv s) {r : Nat} {R : Rep} (hr : s.reps r = some R) (b : Bool) :
    Inv (s.setRep r (some { R with call := b, parent := none })) := by
  inv_auto h

/-! ### `removeLoop` -/

theorem removeLoop_map_fst_sublist (c : Bool) (r : Nat) (l : List (Nat × Bool)) :
    ((removeLoop c r l).map Prod.fst).Sublist (l.map Prod.fst) := by
  induction l with
  | nil => simp [removeLoop]
  | cons e es ih =>
    simp only [removeLoop]
    split
    · split
      · rename_i h _; simp [h.1]
      · simp
    · simpa using ih

theorem removeLoop_nodup (c : Bool) (r : Nat) (l : List (Nat × Bool)) (h : (l.map Prod.fst).Nodup) :
    ((removeLoop c r l).map Prod.fst).Nodup :=
  (removeLoop_map_fst_sublist c r l).nodup h

theorem mem_removeLoop (c : Bool) (r x : Nat) (l : List (Nat × Bool)) (h : (l.map Prod.fst).Nodup) :
    (x, true) ∈ removeLoop c r l ↔ ((x, true) ∈ l ∧ x ≠ r) := by
  induction l with
  | nil => simp [removeLoop]
  | cons e es ih =>
    simp only [removeLoop]
    grind

theorem mem_removeLoop_false (c : Bool) (r x : Nat) (b : Bool) (l : List (Nat × Bool)) :
    (x, b) ∈ removeLoop c r l → (x, b) ∈ l ∨ (x = r ∧ b = false ∧ (r, true) ∈ l) := by
  induction l with
  | nil => simp [removeLoop]
  | cons e es ih =>
    simp only [removeLoop]
    grind

/-! ### field characterisations of the small building blocks -/

def clearPar (r : Nat) (Q : Rep) : Rep := if Q.parent = some r then { Q with parent := none } else Q
def setPar (r : Nat) (Q : Rep) : Rep := if Q.parent.isNone then { Q with parent := some r } else Q

theorem setPar_fn (r : Nat) (Q : Rep) : (setPar r Q).fn = Q.fn := by unfold setPar; split <;> rfl
theorem setPar_cbs (r : Nat) (Q : Rep) : (setPar r Q).cbs = Q.cbs := by unfold setPar; split <;> rfl
theorem setPar_call (r : Nat) (Q : Rep) : (setPar r Q).call = Q.call := by unfold setPar; split <;> rfl
theorem setPar_parent (r : Nat) (Q : Rep) :
    (setPar r Q).parent = if Q.parent = none then some r else Q.parent := by
  unfold setPar; cases h : Q.parent <;> simp [h]

theorem unsetParentIf_eq (v r : Nat) (s : State) :
    unsetParentIf v r s = match repOf s v with | none => s | some q => s.modRep q (clearPar r) := rfl
theorem setParentIfNone_eq (v r : Nat) (s : State) :
    setParentIfNone v r s = match repOf s v with | none => s | some q => s.modRep q (setPar r) := rfl

@[slotg_simp, grind =] theorem reps_unsetParentIf (v r : Nat) (s : State) (x : Nat) :
    (unsetParentIf v r s).reps x = if repOf s v = some x then (s.reps x).map (clearPar r) else s.reps x := by
  rw [unsetParentIf_eq]; split <;> rename_i h
  · simp [h]
  · rw [reps_modRep]; simp only [h, Option.some.injEq]; grind
@[slotg_simp, grind =] theorem reps_setParentIfNone (v r : Nat) (s : State) (x : Nat) :
    (setParentIfNone v r s).reps x = if repOf s v = some x then (s.reps x).map (setPar r) else s.reps x := by
  rw [setParentIfNone_eq]; split <;> rename_i h
  · simp [h]
  · rw [reps_modRep]; simp only [h, Option.some.injEq]; grind

theorem unsetParentIf_frame (v r : Nat) (s : State) :
    (unsetParentIf v r s).slots = s.slots ∧ (unsetParentIf v r s).trks = s.trks ∧
    (unsetParentIf v r s).conns = s.conns ∧ (unsetParentIf v r s).nextRep = s.nextRep ∧
    (unsetParentIf v r s).err = s.err := by
  rw [unsetParentIf_eq]; split <;> simp [slots_modRep, trks_modRep, conns_modRep, nextRep_modRep, err_modRep]
theorem setParentIfNone_frame (v r : Nat) (s : State) :
    (setParentIfNone v r s).slots = s.slots ∧ (setParentIfNone v r s).trks = s.trks ∧
    (setParentIfNone v r s).conns = s.conns ∧ (setParentIfNone v r s).nextRep = s.nextRep ∧
    (setParentIfNone v r s).err = s.err := by
  rw [setParentIfNone_eq]; split <;> simp [slots_modRep, trks_modRep, conns_modRep, nextRep_modRep, err_modRep]

@[slotg_simp, grind =] theorem slots_unsetParentIf (v r : Nat) (s : State) : (unsetParentIf v r s).slots = s.slots :=
  (unsetParentIf_frame v r s).1
@[slotg_simp, grind =] theorem trks_unsetParentIf (v r : Nat) (s : State) : (unsetParentIf v r s).trks = s.trks :=
  (unsetParentIf_frame v r s).2.1
@[slotg_simp, grind =] theorem conns_unsetParentIf (v r : Nat) (s : State) : (unsetParentIf v r s).conns = s.conns :=
  (unsetParentIf_frame v r s).2.2.1
@[slotg_simp, grind =] theorem nextRep_unsetParentIf (v r : Nat) (s : State) : (unsetParentIf v r s).nextRep = s.nextRep :=
  (unsetParentIf_frame v r s).2.2.2.1
@[slotg_simp, grind =] theorem err_unsetParentIf (v r : Nat) (s : State) : (unsetParentIf v r s).err = s.err :=
  (unsetParentIf_frame v r s).2.2.2.2
@[slotg_simp, grind =] theorem repOf_unsetParentIf (v r : Nat) (s : State) (w : Nat) :
    repOf (unsetParentIf v r s) w = repOf s w := by
  simp only [repOf, slots_unsetParentIf]
@[slotg_simp, grind =] theorem slots_setParentIfNone (v r : Nat) (s : State) : (setParentIfNone v r s).slots = s.slots :=
  (setParentIfNone_frame v r s).1
@[slotg_simp, grind =] theorem trks_setParentIfNone (v r : Nat) (s : State) : (setParentIfNone v r s).trks = s.trks :=
  (setParentIfNone_frame v r s).2.1
@[slotg_simp, grind =] theorem conns_setParentIfNone (v r : Nat) (s : State) : (setParentIfNone v r s).conns = s.conns :=
  (setParentIfNone_frame v r s).2.2.1
@[slotg_simp, grind =] theorem nextRep_setParentIfNone (v r : Nat) (s : State) :
    (setParentIfNone v r s).nextRep = s.nextRep := (setParentIfNone_frame v r s).2.2.2.1
@[slotg_simp, grind =] theorem err_setParentIfNone (v r : Nat) (s : State) : (setParentIfNone v r s).err = s.err :=
  (setParentIfNone_frame v r s).2.2.2.2
@[slotg_simp, grind =] theorem repOf_setParentIfNone (v r : Nat) (s : State) (w : Nat) :
    repOf (setParentIfNone v r s) w = repOf s w := by
  simp only [repOf, slots_setParentIfNone]

def remEntry (r : Nat) (T : Trk) : Trk := { T with entries := removeLoop T.clearing r T.entries }
def addEntry (r : Nat) (T : Trk) : Trk := if T.clearing then T else { T with entries := T.entries ++ [(r, true)] }

@[slotg_simp, grind =] theorem trks_trkRemove (t r : Nat) (s : State) (x : Nat) :
    (trkRemove t r s).trks x = if x = t then (s.trks x).map (remEntry r) else s.trks x := by
  unfold trkRemove; split <;> rename_i h
  · split <;> simp_all
  · rw [trks_setTrk]; split <;> simp_all [remEntry]
@[slotg_simp, grind =] theorem trks_trkAdd (t r : Nat) (s : State) (x : Nat) :
    (trkAdd t r s).trks x = if x = t then (s.trks x).map (addEntry r) else s.trks x := by
  unfold trkAdd; split <;> rename_i h
  · split <;> simp_all
  · split <;> rename_i hc
    · split <;> simp_all [addEntry]
    · rw [trks_setTrk]; split <;> simp_all [addEntry]

theorem trkRemove_frame (t r : Nat) (s : State) :
    (trkRemove t r s).slots = s.slots ∧ (trkRemove t r s).reps = s.reps ∧
    (trkRemove t r s).conns = s.conns ∧ (trkRemove t r s).nextRep = s.nextRep ∧
    (trkRemove t r s).err = s.err := by
  unfold trkRemove; split <;> simp [State.setTrk]
theorem trkAdd_frame (t r : Nat) (s : State) :
    (trkAdd t r s).slots = s.slots ∧ (trkAdd t r s).reps = s.reps ∧
    (trkAdd t r s).conns = s.conns ∧ (trkAdd t r s).nextRep = s.nextRep ∧
    (trkAdd t r s).err = s.err := by
  unfold trkAdd; split
  · simp
  · split <;> simp [State.setTrk]

@[slotg_simp, grind =] theorem slots_trkRemove (t r : Nat) (s : State) : (trkRemove t r s).slots = s.slots :=
  (trkRemove_frame t r s).1
@[slotg_simp, grind =] theorem reps_trkRemove (t r : Nat) (s : State) : (trkRemove t r s).reps = s.reps :=
  (trkRemove_frame t r s).2.1
@[slotg_simp, grind =] theorem conns_trkRemove (t r : Nat) (s : State) : (trkRemove t r s).conns = s.conns :=
  (trkRemove_frame t r s).2.2.1
@[slotg_simp, grind =] theorem nextRep_trkRemove (t r : Nat) (s : State) : (trkRemove t r s).nextRep = s.nextRep :=
  (trkRemove_frame t r s).2.2.2.1
@[slotg_simp, grind =] theorem err_trkRemove (t r : Nat) (s : State) : (trkRemove t r s).err = s.err :=
  (trkRemove_frame t r s).2.2.2.2
@[slotg_simp, grind =] theorem repOf_trkRemove (t r : Nat) (s : State) (w : Nat) : repOf (trkRemove t r s) w = repOf s w := by
  simp only [repOf, slots_trkRemove]
@[slotg_simp, grind =] theorem slots_trkAdd (t r : Nat) (s : State) : (trkAdd t r s).slots = s.slots :=
  (trkAdd_frame t r s).1
@[slotg_simp, grind =] theorem reps_trkAdd (t r : Nat) (s : State) : (trkAdd t r s).reps = s.reps :=
  (trkAdd_frame t r s).2.1
@[slotg_simp, grind =] theorem conns_trkAdd (t r : Nat) (s : State) : (trkAdd t r s).conns = s.conns :=
  (trkAdd_frame t r s).2.2.1
@[slotg_simp, grind =] theorem nextRep_trkAdd (t r : Nat) (s : State) : (trkAdd t r s).nextRep = s.nextRep :=
  (trkAdd_frame t r s).2.2.2.1
@[slotg_simp, grind =] theorem err_trkAdd (t r : Nat) (s : State) : (trkAdd t r s).err = s.err :=
  (trkAdd_frame t r s).2.2.2.2
@[slotg_simp, grind =] theorem repOf_trkAdd (t r : Nat) (s : State) (w : Nat) : repOf (trkAdd t r s) w = repOf s w := by
  simp only [repOf, slots_trkAdd]

theorem mem_removeLoop_flag (c : Bool) (r x : Nat) (l : List (Nat × Bool)) :
    (x, false) ∈ removeLoop c r l → (x, false) ∈ l ∨ c = true := by
  induction l with
  | nil => simp [removeLoop]
  | cons e es ih =>
    simp only [removeLoop]
    grind
theorem mem_remEntry_flag (r x : Nat) (T : Trk) :
    (x, false) ∈ (remEntry r T).entries → (x, false) ∈ T.entries ∨ T.clearing = true :=
  mem_removeLoop_flag _ _ _ _
theorem remEntry_nodup (r : Nat) (T : Trk) (h : (T.entries.map Prod.fst).Nodup) :
    ((remEntry r T).entries.map Prod.fst).Nodup := removeLoop_nodup _ _ _ h
theorem mem_remEntry (r x : Nat) (T : Trk) (h : (T.entries.map Prod.fst).Nodup) :
    (x, true) ∈ (remEntry r T).entries ↔ ((x, true) ∈ T.entries ∧ x ≠ r) := mem_removeLoop _ _ _ _ h
theorem remEntry_clearing (r : Nat) (T : Trk) : (remEntry r T).clearing = T.clearing := rfl

end Sigc.SlotG
