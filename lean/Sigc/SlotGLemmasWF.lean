import Sigc.SlotGLemmasXchg
/-!
  `WF` is preserved by every operation of the `SlotG` language (`step_wf`), hence holds in every reachable state
  (`run_wf`).
-/
namespace Sigc.SlotG

/-! ### at operation boundaries every representation is stored: the connection clauses at full strength -/

theorem WF.connReg' {s : State} (hw : WF s) {c v : Nat} (hc : s.conns c = some (some v)) :
    ∃ r R, repOf s v = some r ∧ s.reps r = some R ∧ c ∈ R.cbs := by
  obtain ⟨r, R, hR, hm, hor⟩ := hw.inv.connReg c v hc
  rcases hor with hor | hor
  · exact ⟨r, R, hor, hR, hm⟩
  · obtain ⟨w, hw'⟩ := hw.held r R hR; exact absurd hw' (hor w)

theorem WF.cbsConn' {s : State} (hw : WF s) {r : Nat} {R : Rep} {c : Nat} (hR : s.reps r = some R)
    (hm : c ∈ R.cbs) : ∃ v, s.conns c = some (some v) ∧ repOf s v = some r := by
  obtain ⟨v, hv, hor⟩ := hw.inv.cbsConn r R c hR hm
  rcases hor with hor | hor
  · exact ⟨v, hv, hor⟩
  · obtain ⟨w, hw'⟩ := hw.held r R hR; exact absurd hw' (hor w)

theorem WF.invS {s : State} (hw : WF s) : InvS s where
  repAlive := hw.inv.repAlive
  repUniq := hw.inv.repUniq
  connReg := fun _ _ hc => hw.connReg' hc
  cbsConn := fun _ _ _ hR hm => hw.cbsConn' hR hm
  cbsNodup := hw.inv.cbsNodup
  parentOk := hw.inv.parentOk
  trkReg := hw.inv.trkReg
  trkEnt := hw.inv.trkEnt
  trkNodup := hw.inv.trkNodup
  refOk := hw.inv.refOk
  ownOk := hw.inv.ownOk
  nestOk := hw.inv.nestOk
  anonBound := hw.inv.anonBound
  repBound := hw.inv.repBound
  ownCOk := hw.inv.ownCOk

/-! ### small updates -/

theorem wf_modSlot_blocked {s : State} (hw : WF s) (v : Nat) (b : Bool) :
    WF (s.modSlot v fun V => { V with blocked := b }) := by
  have h := hw.invS
  refine ⟨InvS.inv (by invs_auto h), ?_, ?_⟩
  · have := hw.idle; unfold Idle at *; st_simp; exact this
  · have := hw.held; unfold Held at *; st_simp; exact this

theorem wf_newT {s : State} (hw : WF s) {t : Nat} (hd : s.trks t = none) :
    WF (s.setTrk t (some ⟨[], false⟩)) := by
  have h := hw.invS
  refine ⟨InvS.inv (by invs_auto h), ?_, ?_⟩
  · have := hw.idle; unfold Idle at *; st_simp; grind
  · have := hw.held; unfold Held at *; st_simp; exact this

theorem wf_mkS0 {s : State} (hw : WF s) {v : Nat} (hd : s.slots v = none) (hnm : v < anonBase) :
    WF (s.setSlot v (some ⟨none, false⟩)) := by
  have h := hw.invS
  refine ⟨InvS.inv (by invs_auto h with [repOf_eq]), ?_, ?_⟩
  · have := hw.idle; unfold Idle at *; st_simp; exact this
  · have := hw.held; unfold Held at *; st_simp; grind [repOf_eq]

/-! ### connections -/

theorem slotAddCb_eq (v c : Nat) (s : State) : slotAddCb v c s =
    match repOf s v with
    | none => s
    | some r => s.modRep r fun R => { R with cbs := R.cbs ++ [c] } := rfl
theorem slotRemCb_eq (v c : Nat) (s : State) : slotRemCb v c s =
    match repOf s v with
    | none => s
    | some r => s.modRep r fun R => { R with cbs := R.cbs.erase c } := rfl

/-- a connection that points nowhere is registered nowhere -/
theorem not_registered {s : State} (h : InvS s) {c : Nat} (hc : ∀ v, s.conns c ≠ some (some v)) :
    ∀ r R, s.reps r = some R → c ∉ R.cbs := by
  intro r R hR hm
  obtain ⟨v, hv, -⟩ := h.cbsConn r R c hR hm
  exact hc v hv

/-- `connection(slot)`, copy construction, and the second half of assignment: point `c` (registered nowhere) at
    `v` and register it on `v`'s representation -/
theorem wf_attach {s : State} (hw : WF s) {c v : Nat} (hc : ∀ w, s.conns c ≠ some (some w))
    (hv : ∃ r, repOf s v = some r) : WF (slotAddCb v c (s.setConn c (some (some v)))) := by
  have h := hw.invS
  have hnr := not_registered h hc
  obtain ⟨r, hr⟩ := hv
  rw [slotAddCb_eq, repOf_setConn, hr]
  simp only []
  refine ⟨InvS.inv (by invs_auto h), ?_, ?_⟩
  · have := hw.idle; unfold Idle at *; st_simp; exact this
  · have := hw.held; unfold Held at *; st_simp; grind

theorem wf_setConn_none {s : State} (hw : WF s) {c : Nat} (hc : ∀ w, s.conns c ≠ some (some w))
    (o : Option (Option Nat)) (ho : (o = none ∧ ¬ OwnedC s c) ∨ o = some none) : WF (s.setConn c o) := by
  have h := hw.invS
  have hnr := not_registered h hc
  refine ⟨InvS.inv (by rcases ho with ⟨rfl, hno⟩ | rfl <;> invs_auto h), ?_, ?_⟩
  · have := hw.idle; unfold Idle at *; st_simp; exact this
  · have := hw.held; unfold Held at *; st_simp; exact this

/-- `~weak_raw_ptr` / the first half of assignment: unregister `c` and null it -/
theorem wf_detach {s : State} (hw : WF s) {c v : Nat} (hc : s.conns c = some (some v)) :
    WF ((slotRemCb v c s).setConn c (some none)) ∧
      ∀ w, ((slotRemCb v c s).setConn c (some none)).conns c ≠ some (some w) := by
  have h := hw.invS
  obtain ⟨r, R, hr, hR, hm⟩ := hw.connReg' hc
  rw [slotRemCb_eq, hr]
  simp only []
  refine ⟨⟨InvS.inv (by invs_auto h with [List.Nodup.erase, List.Nodup.mem_erase_iff]), ?_, ?_⟩, ?_⟩
  · have := hw.idle; unfold Idle at *; st_simp; exact this
  · have := hw.held; unfold Held at *; st_simp; grind
  · intro w; simp [conns_setConn]

/-! ### trackables -/

theorem wf_notifyT {s : State} (hw : WF s) (t : Nat) (he : (trkNotify t s).err = false) :
    WF (trkNotify t s) := (trkNotify_spec hw t he).1

theorem wf_delT {s : State} (hw : WF s) {t : Nat} (ht : (s.trks t).isSome)
    (he : ((trkNotify t s).setTrk t none).err = false) : WF ((trkNotify t s).setTrk t none) := by
  rw [err_setTrk] at he
  obtain ⟨hw2, -, hno⟩ := trkNotify_spec hw t he
  have hno' : ∀ r R f, (trkNotify t s).reps r = some R → R.fn = some f → f.trk ≠ some t := by
    intro r R f hR hf
    rcases hno r R f hR hf with h | h
    · exact h
    · rw [h] at ht; simp at ht
  refine ⟨inv_delTrk hw2.inv t hno', ?_, ?_⟩
  · have := hw2.idle; unfold Idle at *; st_simp; grind
  · have := hw2.held; unfold Held at *; st_simp; exact this

/-! ### `disconnect()` -/

theorem wf_repDisconnect {s : State} (hw : WF s) (r : Nat) (he : (repDisconnect r s).err = false) :
    WF (repDisconnect r s) := by
  obtain ⟨hC, hI⟩ := repDisconnect_spec hw.inv r he
  exact wf_casc hC hw hI

end Sigc.SlotG
