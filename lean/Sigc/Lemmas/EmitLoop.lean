import Sigc.Lemmas.EmitCollect
/-!
# Emit work package — positions inside the block of an active emission: successor / predecessor
lookups stay inside the block; the epilogue of `emitImpl` (`~temp_slot_list`, `~signal_impl_holder`).
-/
namespace Sigc.Emit
open Sigc.Model

/-! ## `succId` / `predId` on the id list -/

theorem succId_spec (cs : List Cell) (a rest : List Nat) (k n : Nat)
    (h : cs.map (·.id) = a ++ k :: n :: rest) (hk : k ∉ a) : succId cs k = some n := by
  induction cs generalizing a with
  | nil => simp at h
  | cons c t ih =>
    cases a with
    | nil =>
      simp at h
      obtain ⟨h1, h2⟩ := h
      cases t with
      | nil => simp at h2
      | cons d t' =>
        simp at h2
        simp [succId, h1, h2.1]
    | cons x a' =>
      simp at h
      obtain ⟨h1, h2⟩ := h
      have hx : c.id ≠ k := by intro e; apply hk; simp [← e, h1]
      simp only [succId, hx, if_false]
      exact ih a' h2 (fun hin => hk (List.mem_cons_of_mem _ hin))

theorem predId_spec (cs : List Cell) (a rest : List Nat) (p k : Nat)
    (h : cs.map (·.id) = a ++ p :: k :: rest) (hk : k ∉ a) (hpk : p ≠ k) : predId cs k = some p := by
  induction cs generalizing a with
  | nil => simp at h
  | cons c t ih =>
    cases t with
    | nil =>
      cases a with
      | nil => simp at h
      | cons x a' => simp at h
    | cons d t' =>
      cases a with
      | nil =>
        simp at h
        obtain ⟨h1, h2, _⟩ := h
        simp [predId, h1, h2]
      | cons x a' =>
        simp only [List.map_cons, List.cons_append, List.cons.injEq] at h
        obtain ⟨h1, h2⟩ := h
        have hd : d.id ≠ k := by
          intro e
          cases a' with
          | nil => simp at h2; exact hpk (by rw [← h2.1, e])
          | cons y a'' => simp at h2; apply hk; simp [← e, h2.1]
        simp only [predId, hd, if_false]
        apply ih a' (by simpa using h2) (fun hin => hk (List.mem_cons_of_mem _ hin))

theorem snoc_of_cons (f : Nat) (l : List Nat) : ∃ C p, f :: l = C ++ [p] := by
  induction l generalizing f with
  | nil => exact ⟨[], f, rfl⟩
  | cons x t ih =>
    obtain ⟨C, p, h⟩ := ih x
    exact ⟨f :: C, p, by rw [h]; rfl⟩

/-- positions: the id list `L` of an impl has the block `B` as a contiguous part -/
theorem succ_in_block {cs : List Cell} (hn : (cs.map (·.id)).Nodup) {pre B0 post : List Nat} {m k : Nat}
    (hL : cs.map (·.id) = pre ++ (B0 ++ [m]) ++ post) (hk : k ∈ B0 ++ [m]) (hkm : k ≠ m) :
    ∃ n, succId cs k = some n ∧ n ∈ B0 ++ [m] := by
  have hk0 : k ∈ B0 := by
    rcases List.mem_append.mp hk with h | h
    · exact h
    · simp at h; exact absurd h hkm
  obtain ⟨B1, B2, rfl⟩ := List.append_of_mem hk0
  obtain ⟨n, rest, hnr⟩ : ∃ n rest, B2 ++ [m] = n :: rest := by
    cases B2 with
    | nil => exact ⟨m, [], rfl⟩
    | cons x t => exact ⟨x, t ++ [m], rfl⟩
  have hL' : cs.map (·.id) = (pre ++ B1) ++ k :: n :: (rest ++ post) := by
    rw [hL]; simp
    have : B2 ++ m :: post = (B2 ++ [m]) ++ post := by simp
    rw [this, hnr]; simp
  refine ⟨n, succId_spec cs _ _ k n hL' ?_, ?_⟩
  · intro hin
    rw [hL'] at hn
    have := (List.nodup_append.mp hn).2.2 k hin k (by simp)
    exact this rfl
  · have : n ∈ B2 ++ [m] := by rw [hnr]; simp
    simp only [List.append_assoc, List.cons_append, List.mem_append, List.mem_cons] at this ⊢
    rcases this with h | h
    · right; right; left; exact h
    · right; right; right; simpa using h

theorem pred_in_block {cs : List Cell} (hn : (cs.map (·.id)).Nodup) {pre post : List Nat} {f k : Nat} {B' : List Nat}
    (hL : cs.map (·.id) = pre ++ (f :: B') ++ post) (hk : k ∈ f :: B') (hkf : k ≠ f) :
    ∃ p, predId cs k = some p ∧ p ∈ f :: B' := by
  have hk0 : k ∈ B' := by
    rcases List.mem_cons.mp hk with h | h
    · exact absurd h hkf
    · exact h
  obtain ⟨B1, B2, rfl⟩ := List.append_of_mem hk0
  -- f :: B1 = C ++ [p]
  obtain ⟨C, p, hC⟩ : ∃ C p, f :: B1 = C ++ [p] := snoc_of_cons f B1
  have hL' : cs.map (·.id) = (pre ++ C) ++ p :: k :: (B2 ++ post) := by
    rw [hL]
    have : f :: (B1 ++ k :: B2) = C ++ [p] ++ k :: B2 := by rw [← hC]; simp
    rw [this]; simp
  have hnd := hn
  rw [hL'] at hnd
  have hpk : p ≠ k := by
    intro e; subst e
    have := (List.nodup_append.mp hnd).2.1
    simp at this
  refine ⟨p, predId_spec cs _ _ p k hL' ?_ hpk, ?_⟩
  · intro hin
    have := (List.nodup_append.mp hnd).2.2 k hin k (by simp)
    exact this rfl
  · have : p ∈ f :: B1 := by rw [hC]; simp
    rcases List.mem_cons.mp this with h | h
    · simp [h]
    · simp [h]

/-! ## the block of an active emission -/

/-- impl `i` is emitting and `B` is a contiguous part of its skeleton -/
def InBlk (s : St) (i : Nat) (B : List (Nat × Bool)) : Prop :=
  ∃ im, aget s.impls i = some im ∧ 0 < im.exec ∧ ∃ pre post, skel im = pre ++ B ++ post

theorem InBlk.frame {s s' : St} {i : Nat} {B : List (Nat × Bool)} (h : InBlk s i B) (hf : Frame s s') :
    InBlk s' i B := by
  obtain ⟨im, hi, hx, pre, post, hsk⟩ := h
  obtain ⟨im', hi', p, q, hk⟩ := hf.keep i im hi hx
  have := hf.exec i
  rw [execOf_pos hi', execOf_pos hi] at this
  refine ⟨im', hi', by omega, p ++ pre, post ++ q, ?_⟩
  rw [hk, hsk]; simp

theorem InBlk.ids {s : St} {i : Nat} {B : List (Nat × Bool)} (h : InBlk s i B) :
    ∃ im, aget s.impls i = some im ∧ 0 < im.exec ∧ ∃ pre post, cids im = pre ++ B.map (·.1) ++ post := by
  obtain ⟨im, hi, hx, pre, post, hsk⟩ := h
  refine ⟨im, hi, hx, pre.map (·.1), post.map (·.1), ?_⟩
  rw [cids_eq_skel, hsk]; simp

theorem InBlk.find {s : St} {i : Nat} {B : List (Nat × Bool)} (h : InBlk s i B) {k : Nat}
    (hk : k ∈ B.map (·.1)) : ∃ im c, aget s.impls i = some im ∧ im.cells.find? (·.id = k) = some c := by
  obtain ⟨im, hi, _, pre, post, hids⟩ := h.ids
  have : k ∈ im.cells.map (·.id) := by
    show k ∈ cids im
    rw [hids]; simp only [List.mem_append]; left; right; exact hk
  obtain ⟨c, hc⟩ := find_of_mem_ids this
  exact ⟨im, c, hi, hc⟩

theorem InBlk.succ {s : St} (hs : Inv s) {i : Nat} {B0 : List (Nat × Bool)} {m : Nat}
    (h : InBlk s i (B0 ++ [(m, true)])) {k : Nat} (hk : k ∈ (B0 ++ [(m, true)]).map (·.1)) (hkm : k ≠ m) :
    ∃ im n, aget s.impls i = some im ∧ succId im.cells k = some n ∧ n ∈ (B0 ++ [(m, true)]).map (·.1) := by
  obtain ⟨im, hi, _, pre, post, hids⟩ := h.ids
  have hn := (hs.ok i im hi).nodup
  have e : (B0 ++ [(m, true)]).map (·.1) = B0.map (·.1) ++ [m] := by simp
  rw [e] at hids hk ⊢
  obtain ⟨n, h1, h2⟩ := succ_in_block (cs := im.cells) hn hids hk hkm
  exact ⟨im, n, hi, h1, h2⟩

theorem InBlk.pred {s : St} (hs : Inv s) {i : Nat} {B : List (Nat × Bool)} {first : Nat} {rest : List Nat}
    (h : InBlk s i B) (hB : B.map (·.1) = first :: rest) {k : Nat} (hk : k ∈ B.map (·.1)) (hkf : k ≠ first) :
    ∃ im p, aget s.impls i = some im ∧ predId im.cells k = some p ∧ p ∈ B.map (·.1) := by
  obtain ⟨im, hi, _, pre, post, hids⟩ := h.ids
  have hn := (hs.ok i im hi).nodup
  rw [hB] at hids hk ⊢
  obtain ⟨p, h1, h2⟩ := pred_in_block (cs := im.cells) hn hids hk hkf
  exact ⟨im, p, hi, h1, h2⟩

end Sigc.Emit
