import Sigc.Lemmas.EmitLoop
/-!
# Emit work package — the epilogue of `emitImpl`: `~temp_slot_list` (erase the end marker), then
`~signal_impl_holder` (`unreference_exec`, possibly `sweep`, release the owner).
-/
namespace Sigc.Emit
open Sigc.Model

/-- the epilogue of `emitImpl` before `gcImpl` (the branch in which the marker is found) -/
def epilogue (s : St) (i m : Nat) : St :=
  let s := eraseCell s i m
  let s := unrefExec s i
  match aget s.impls i with
  | none => s
  | some im3 => setImpl s i { im3 with holders := im3.holders - 1 }

/-- what the epilogue does to the impl -/
def epiImpl (im2 : Impl) (m : Nat) : Impl :=
  if (im2.exec - 1 = 0 && im2.deferred) = true then
    { cells := (im2.cells.filter (·.id ≠ m)).filter (fun c => !c.slot.empty), exec := im2.exec - 1,
      deferred := false, holders := im2.holders - 1 }
  else
    { cells := im2.cells.filter (·.id ≠ m), exec := im2.exec - 1, deferred := im2.deferred,
      holders := im2.holders - 1 }

theorem aset_aset {α} (l : List (Nat × α)) (i : Nat) (a b : α) : aset (aset l i a) i b = aset l i b := by
  induction l with
  | nil => simp [aset]
  | cons p t ih =>
    obtain ⟨k, v⟩ := p
    by_cases e : k = i
    · simp [aset, e]
    · simp [aset, e, ih]

theorem eraseCell_ownedG (s : St) (i c : Nat) : (eraseCell s i c).ownedG = s.ownedG := by
  unfold eraseCell; split <;> rfl

theorem sweep_ownedG (s : St) (i : Nat) : (sweep s i).ownedG = s.ownedG := by
  unfold sweep; split
  · rfl
  · simp only [nullConnsList_ownedG]; rfl

theorem unrefExec_ownedG (s : St) (i : Nat) : (unrefExec s i).ownedG = s.ownedG := by
  unfold unrefExec; split
  · rfl
  · simp only; split
    · rw [sweep_ownedG]; rfl
    · rfl

theorem epilogue_ownedG (s : St) (i m : Nat) : (epilogue s i m).ownedG = s.ownedG := by
  unfold epilogue
  simp only
  split
  · rw [unrefExec_ownedG, eraseCell_ownedG]
  · show (unrefExec (eraseCell s i m) i).ownedG = s.ownedG
    rw [unrefExec_ownedG, eraseCell_ownedG]

theorem epilogue_core {s : St} {i m : Nat} {im2 : Impl} (hi : aget s.impls i = some im2) :
    (epilogue s i m).impls = aset s.impls i (epiImpl im2 m) ∧ (epilogue s i m).G = s.G ∧
    (epilogue s i m).S = s.S ∧ (epilogue s i m).err = s.err ∧ (epilogue s i m).next = s.next := by
  unfold epilogue
  simp only
  rw [eraseCell_eq hi]
  generalize hA : ({ im2 with cells := im2.cells.filter (·.id ≠ m) } : Impl) = A
  have hi3 : aget (nullConns (setImpl s i A) m).impls i = some A := by simp [aget_setImpl]
  rw [unrefExec_eq hi3]
  unfold epiImpl
  have hAe : A.exec = im2.exec := by subst hA; rfl
  have hAd : A.deferred = im2.deferred := by subst hA; rfl
  rw [hAe, hAd]
  by_cases hcond : (im2.exec - 1 = 0 && im2.deferred) = true
  · simp only [if_pos hcond]
    generalize hB : ({ cells := A.cells, exec := im2.exec - 1, deferred := im2.deferred, holders := A.holders } : Impl) = B
    have hi4 : aget (setImpl (nullConns (setImpl s i A) m) i B).impls i = some B := by simp [aget_setImpl]
    rw [sweep_eq hi4]
    obtain ⟨ca, cb, cc, cd, ce⟩ := nullConnsList_core
      (setImpl (setImpl (nullConns (setImpl s i A) m) i B) i
        { B with deferred := false, cells := B.cells.filter (fun c => !c.slot.empty) })
      ((B.cells.filter (·.slot.empty)).map (·.id))
    generalize nullConnsList _ _ = s5 at ca cb cc cd ce ⊢
    have hi5 : aget s5.impls i = some { B with deferred := false, cells := B.cells.filter (fun c => !c.slot.empty) } := by
      rw [ca]; simp [aget_setImpl]
    rw [hi5]
    simp only
    refine ⟨?_, cb, cc, cd, ce⟩
    simp only [setImpl, ca, nullConns_impls, aset_aset]
    subst hB; subst hA; rfl
  · simp only [if_neg hcond]
    generalize hB : ({ cells := A.cells, exec := im2.exec - 1, deferred := im2.deferred, holders := A.holders } : Impl) = B
    have hi4 : aget (setImpl (nullConns (setImpl s i A) m) i B).impls i = some B := by simp [aget_setImpl]
    rw [hi4]
    simp only
    refine ⟨?_, rfl, rfl, rfl, rfl⟩
    simp only [setImpl, nullConns_impls, aset_aset]
    subst hB; subst hA; rfl

/-! ## the impl after the epilogue -/

theorem filter_ne_self_of_not_mem (cs : List Cell) (m : Nat) (h : m ∉ cs.map (·.id)) :
    cs.filter (·.id ≠ m) = cs := by
  rw [List.filter_eq_self]
  intro c hc
  simp
  intro e; exact h (List.mem_map.mpr ⟨c, hc, e⟩)

theorem countP_filter_ne (cs : List Cell) (hn : (cs.map (·.id)).Nodup) (c : Cell) (hc : c ∈ cs)
    (p : Cell → Bool) :
    cs.countP p = (cs.filter (·.id ≠ c.id)).countP p + (if p c then 1 else 0) := by
  induction cs with
  | nil => simp at hc
  | cons x t ih =>
    simp only [List.map_cons, List.nodup_cons] at hn
    by_cases hx : x.id = c.id
    · have hxc : x = c := by
        rcases List.mem_cons.mp hc with e | e
        · exact e.symm
        · exfalso; apply hn.1; rw [hx]; exact List.mem_map.mpr ⟨c, e, rfl⟩
      subst hxc
      have : t.filter (fun y => !decide (y.id = x.id)) = t := by
        have := filter_ne_self_of_not_mem t x.id hn.1
        simpa using this
      simp [List.filter, List.countP_cons, this]
    · have hct : c ∈ t := by
        rcases List.mem_cons.mp hc with e | e
        · exact absurd (by rw [e]) hx
        · exact e
      have := ih hn.2 hct
      simp only [List.filter, hx, ne_eq, not_false_eq_true, decide_true, List.countP_cons, this]
      omega

theorem epiImpl_ok {im2 : Impl} {m : Nat} (h : ImplOK 0 im2) (hx : 1 ≤ im2.exec)
    (hm : ∃ c ∈ im2.cells, c.id = m ∧ c.slot.rep.isNone = true) : ImplOK 0 (epiImpl im2 m) := by
  obtain ⟨c, hc, hcm, hcn⟩ := hm
  have hmk : (im2.cells.filter (·.id ≠ m)).countP (fun c => c.slot.rep.isNone) + 1 = im2.exec := by
    have := countP_filter_ne im2.cells h.nodup c hc (fun c => c.slot.rep.isNone)
    simp only [hcn, if_true, hcm] at this
    have h2 := h.mkr
    simp only [markers] at h2
    omega
  have heh := h.eh
  have hnd : ((im2.cells.filter (·.id ≠ m)).map (·.id)).Nodup :=
    List.Nodup.sublist ((List.filter_sublist).map _) h.nodup
  have hl : ∀ c ∈ im2.cells.filter (·.id ≠ m), c.linked = false → c.slot.empty = true :=
    fun c hc => h.l c (List.mem_filter.mp hc).1
  have hd : im2.deferred = false → ∀ c ∈ im2.cells.filter (·.id ≠ m), c.slot.rep.isNone = false → c.linked = true :=
    fun hd c hc => h.d hd c (List.mem_filter.mp hc).1
  unfold epiImpl
  split
  · rename_i hcond
    simp only [Bool.and_eq_true, decide_eq_true_eq] at hcond
    obtain ⟨he, hdf⟩ := hcond
    refine ⟨?_, by simp; omega, ?_, fun _ => rfl, ?_, ?_⟩
    · exact List.Nodup.sublist ((List.filter_sublist).map _) hnd
    · simp only [markers]
      have h0 : (im2.cells.filter (·.id ≠ m)).countP (fun c => c.slot.rep.isNone) = 0 := by omega
      rw [List.countP_eq_zero] at h0
      have : ((im2.cells.filter (·.id ≠ m)).filter (fun c => !c.slot.empty)).countP (fun c => c.slot.rep.isNone) = 0 := by
        rw [List.countP_eq_zero]
        intro c hc; exact h0 c (List.mem_filter.mp hc).1
      omega
    · intro c hc; exact hl c (List.mem_filter.mp hc).1
    · intro _ c hc _
      obtain ⟨hc1, hc2⟩ := List.mem_filter.mp hc
      cases hlk : c.linked with
      | true => rfl
      | false => have := hl c hc1 hlk; simp [this] at hc2
  · rename_i hcond
    refine ⟨hnd, by simp; omega, ?_, ?_, hl, hd⟩
    · simp only [markers]; omega
    · intro e
      simp only at e
      cases hdf : im2.deferred with
      | false => rfl
      | true => exfalso; apply hcond; simp [e, hdf]

theorem epiImpl_exec (im2 : Impl) (m : Nat) : (epiImpl im2 m).exec = im2.exec - 1 := by
  unfold epiImpl; split <;> rfl

theorem epiImpl_cells_sub (im2 : Impl) (m : Nat) : ∀ c ∈ (epiImpl im2 m).cells, c ∈ im2.cells := by
  intro c hc
  unfold epiImpl at hc
  split at hc
  · exact (List.mem_filter.mp (List.mem_filter.mp hc).1).1
  · exact (List.mem_filter.mp hc).1

/-- while the impl is still emitting (an outer emission), only the marker is removed -/
theorem epiImpl_skel {im2 : Impl} {m : Nat} (hn : (cids im2).Nodup) (hx : 1 < im2.exec)
    {pre post B : List (Nat × Bool)} (hsk : skel im2 = pre ++ (B ++ [(m, true)]) ++ post) :
    skel (epiImpl im2 m) = pre ++ B ++ post := by
  have hcond : ¬ ((im2.exec - 1 = 0 && im2.deferred) = true) := by simp; intro e; omega
  unfold epiImpl
  rw [if_neg hcond]
  have hf : ∀ (e : Nat) (d : Bool) (h : Nat), skel { cells := im2.cells.filter (·.id ≠ m), exec := e, deferred := d, holders := h } = (skel im2).filter (fun p => p.1 ≠ m) := by
    intro _ _ _
    simp only [skel]
    generalize im2.cells = cs
    induction cs with
    | nil => rfl
    | cons c t ih =>
      by_cases e : c.id = m <;> simp [List.filter, e] <;> simpa using ih
  rw [hf, hsk]
  have hnd : ((pre ++ (B ++ [(m, true)]) ++ post).map (·.1)).Nodup := by
    rw [← hsk, ← cids_eq_skel]; exact hn
  simp only [List.map_append, List.map_cons, List.map_nil] at hnd
  have hnot : ∀ (l : List (Nat × Bool)), m ∉ l.map (·.1) → l.filter (fun p => p.1 ≠ m) = l := by
    intro l hl
    rw [List.filter_eq_self]
    intro p hp; simp; intro e; exact hl (List.mem_map.mpr ⟨p, hp, e⟩)
  have hpre : m ∉ pre.map (·.1) := by
    intro hin
    have := (List.nodup_append.mp (List.nodup_append.mp hnd).1).2.2 m hin m (by simp)
    exact this rfl
  have hB : m ∉ B.map (·.1) := by
    intro hin
    have := (List.nodup_append.mp (List.nodup_append.mp (List.nodup_append.mp hnd).1).2.1).2.2 m hin m (by simp)
    exact this rfl
  have hpost : m ∉ post.map (·.1) := by
    intro hin
    have := (List.nodup_append.mp hnd).2.2 m (by simp) m hin
    exact this rfl
  simp only [List.filter_append, hnot _ hpre, hnot _ hB, hnot _ hpost]
  simp [List.filter]

end Sigc.Emit
