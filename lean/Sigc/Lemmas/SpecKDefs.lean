import Sigc.Lemmas.SpecKClear
/-!
# SpecK — definitions: the simulation relation `Q ρ t u` between a state `t` of the specification run
with both known findings reproduced (`k1 = k2 = true`) and a state `u` of the specification proper
(`k1 = k2 = false`), **up to a partial bijection `ρ` of object identities** (the two runs do not allocate the
same ids: an emission of an existing empty list takes the `k2` shortcut before `fresh` in the first
configuration and burns an id in the second).  No property statements here.
-/
namespace Sigc.SpecK
open Sigc.Model Sigc.Spec

/-! ## generic relations on lists, options, association lists -/

/-- pointwise related lists -/
inductive F2 {α β : Type} (r : α → β → Prop) : List α → List β → Prop
  | nil : F2 r [] []
  | cons {a b l m} : r a b → F2 r l m → F2 r (a :: l) (b :: m)

/-- related options -/
inductive OR {α β : Type} (r : α → β → Prop) : Option α → Option β → Prop
  | none : OR r none none
  | some {a b} : r a b → OR r (some a) (some b)

/-- a relation between identities -/
abbrev IdRel := Nat → Nat → Prop

/-- association lists with equal keys (program-level names) and related values -/
def AR {α β : Type} (r : α → β → Prop) (l : List (Nat × α)) (m : List (Nat × β)) : Prop :=
  F2 (fun p q => p.1 = q.1 ∧ r p.2 q.2) l m

/-- association lists whose keys are identities (related by `ρ`) -/
def KR {α β : Type} (ρ : IdRel) (r : α → β → Prop) (l : List (Nat × α)) (m : List (Nat × β)) : Prop :=
  F2 (fun p q => ρ p.1 q.1 ∧ r p.2 q.2) l m

/-- `ρ` is a partial bijection between the ids below the two allocation counters -/
structure PB (ρ : IdRel) (n n' : Nat) : Prop where
  fn : ∀ {a b b'}, ρ a b → ρ a b' → b = b'
  inj : ∀ {a a' b}, ρ a b → ρ a' b → a = a'
  lt : ∀ {a b}, ρ a b → a < n ∧ b < n'

/-- `ρ` extended by one pair -/
def ext (ρ : IdRel) (a b : Nat) : IdRel := fun x y => ρ x y ∨ (x = a ∧ y = b)

/-! ## values -/

inductive FunR (ρ : IdRel) : Fun → Fun → Prop
  | leaf (fid : Nat) {ts ts' : List Nat} : F2 ρ ts ts' → FunR ρ (.leaf fid ts) (.leaf fid ts')
  | fwd {h h' : Nat} {ts ts' : List Nat} : ρ h h' → F2 ρ ts ts' → FunR ρ (.fwd h ts) (.fwd h' ts')
  | nestNone (b : Bool) : FunR ρ (.nest b none) (.nest b none)
  | nestSome (b : Bool) {f f' : Fun} : FunR ρ f f' → FunR ρ (.nest b (some f)) (.nest b (some f'))
  | owner (fid : Nat) {a a' k k' : List Nat} : F2 ρ a a' → F2 ρ k k' → FunR ρ (.owner fid a k) (.owner fid a' k')

/-- the functor inside a slot value, if any -/
def SlotB.fnOf (s : SlotB) : Option Fun :=
  match s.rep with
  | some r => r.fn
  | none => none

structure RepR (ρ : IdRel) (r r' : Rep) : Prop where
  call : r'.call = r.call
  fn : OR (FunR ρ) r.fn r'.fn

structure SlotR (ρ : IdRel) (a b : SlotB) : Prop where
  blocked : b.blocked = a.blocked
  rep : OR (RepR ρ) a.rep b.rep

structure VarR (ρ : IdRel) (v v' : SlotVar) : Prop where
  isVoid : v'.isVoid = v.isVoid
  slot : SlotR ρ v.slot v'.slot
  incall : v'.incall = v.incall
  taint : v'.taint = v.taint

structure HandR (ρ : IdRel) (h h' : Handle) : Prop where
  obj : ρ h.obj h'.obj
  fl : h'.fl = h.fl
  impl : OR ρ h.impl h'.impl
  trk : ρ h.trk h'.trk
  lvl : h'.lvl = h.lvl
  everFwd : h'.everFwd = h.everFwd

/-! ## lists -/

/-- a *live* entry: neither an end marker nor an entry that left the list during an emission -/
def live (c : LCell) : Bool := !c.marker && !c.zombie

structure CellR (ρ : IdRel) (c c' : LCell) : Prop where
  id : ρ c.id c'.id
  slot : SlotR ρ c.slot c'.slot
  marker : c'.marker = false
  zombie : c'.zombie = false

/-- list of the configuration with the known findings vs list of the specification proper: the entries of
    the latter are the live entries of the former; the functors the former's zombies still hold are the
    functors the latter's `limbo` holds -/
structure SigR (ρ : IdRel) (g g' : LSig) : Prop where
  cells : F2 (CellR ρ) (g.cells.filter live) g'.cells
  active : g'.active = g.active
  dirty : g'.dirty = false
  limbo : g.limbo = []
  hold1 : ∀ c ∈ g.cells, live c = false → ∀ f, SlotB.fnOf c.slot = some f →
    ∃ sl ∈ g'.limbo, ∃ f', SlotB.fnOf sl = some f' ∧ FunR ρ f f'
  hold2 : ∀ sl ∈ g'.limbo, ∀ f', SlotB.fnOf sl = some f' →
    ∃ c ∈ g.cells, live c = false ∧ ∃ f, SlotB.fnOf c.slot = some f ∧ FunR ρ f f'
  nomk : ∀ c ∈ g.cells, c.marker = true → ∀ b, ¬ ρ c.id b

/-- invariant of a list of the configuration with the known findings (`n` = allocation counter) -/
structure SigInv (n : Nat) (g : LSig) : Prop where
  lt : ∀ c ∈ g.cells, c.id < n
  nodup : (g.cells.map (·.id)).Nodup
  idle : g.active = 0 → ∀ c ∈ g.cells, live c = true
  dead : ∀ c ∈ g.cells, live c = false → c.slot.empty = true
  mkslot : ∀ c ∈ g.cells, c.marker = true → c.slot.rep = none

/-! ## states -/

/-- the simulation relation (with the invariant of the first state) -/
structure Q (ρ : IdRel) (t u : LSt) : Prop where
  T : AR ρ t.T u.T
  S : AR (VarR ρ) t.S u.S
  G : AR (HandR ρ) t.G u.G
  C : AR (OR ρ) t.C u.C
  K : AR (OR ρ) t.K u.K
  sigs : KR ρ (SigR ρ) t.sigs u.sigs
  ownedT : F2 ρ t.ownedT u.ownedT
  ownedK : KR ρ (OR ρ) t.ownedK u.ownedK
  ownedG : KR ρ (fun a b : Nat => a = b) t.ownedG u.ownedG
  pb : PB ρ t.next u.next
  depth : u.depth = t.depth
  steps : u.steps = t.steps
  trace : u.trace = t.trace
  k1 : t.k1 = true
  k2 : t.k2 = true
  k1' : u.k1 = false
  k2' : u.k2 = false
  keys : (t.sigs.map (·.1)).Nodup
  inv : ∀ p ∈ t.sigs, p.1 < t.next ∧ SigInv t.next p.2

/-- how the id relation and the counters evolve along a pair of runs -/
structure Step (ρ ρ' : IdRel) (t t' u u' : LSt) : Prop where
  sub : ∀ a b, ρ a b → ρ' a b
  new : ∀ a b, ρ' a b → ρ a b ∨ (t.next ≤ a ∧ u.next ≤ b)
  nk : t.next ≤ t'.next
  np : u.next ≤ u'.next

/-- emissions in progress of list `i` -/
def act (t : LSt) (i : Nat) : Nat :=
  match aget t.sigs i with
  | some g => g.active
  | none => 0

/-- ids of the end markers in list `i` -/
def mks (t : LSt) (i : Nat) : List Nat :=
  match aget t.sigs i with
  | some g => (g.cells.filter (·.marker)).map (·.id)
  | none => []

/-- what every piece of a run leaves unchanged in the first state -/
structure Fr (t t' : LSt) : Prop where
  depth : t'.depth = t.depth
  act : ∀ i, act t' i = act t i
  mks : ∀ i, mks t' i = mks t i

/-- outside of every functor body no emission is in progress -/
def Quiet (t : LSt) : Prop := t.depth = 0 → ∀ i, act t i = 0

end Sigc.SpecK
