import Sigc.Lemmas.SpecKSimC
/-!
# SpecK — the mutual induction on fuel, part D: the steps for `runBody`, `execLine`, `execOp`.
-/
namespace Sigc.SpecK
open Sigc.Model Sigc.Spec

theorem body_succ (f : Nat) (ih : All f) : SBody (f+1) := by
  intro P ρ t u ls t' o hq hst hqt hc hr
  cases ls with
  | nil =>
    unfold Spec.runBody at hr ⊢
    simp only [Option.some.injEq, Prod.mk.injEq] at hr
    obtain ⟨rfl, rfl⟩ := hr
    exact ⟨_, rfl, Good.refl hq, hst⟩
  | cons l ls =>
    unfold Spec.runBody at hr ⊢
    unfold cBody at hc
    simp only [Bool.and_eq_true] at hr hc ⊢
    cases hl : Spec.execLine f P t l with
    | none => rw [hl] at hr; simp at hr
    | some res =>
      obtain ⟨t1, o1⟩ := res
      rw [hl] at hr hc
      obtain ⟨u1, e1, ⟨ρ1, hq1, hs1, hf1⟩, hst1⟩ := ih.line P ρ t u l t1 o1 hq hst hqt hc.1 hl
      rw [e1]
      cases o1 with
      | exc =>
        simp only [Option.some.injEq, Prod.mk.injEq] at hr
        obtain ⟨rfl, rfl⟩ := hr
        exact ⟨_, rfl, ⟨ρ1, hq1, hs1, hf1⟩, hst1⟩
      | ok =>
        simp only at hr hc ⊢
        obtain ⟨u2, e2, hg2, hst2⟩ := ih.body P ρ1 t1 u1 ls t' o hq1 hst1 (hqt.of_fr hf1) hc.2 hr
        exact ⟨u2, e2, Good.trans hs1 hf1 hg2, hst2⟩

theorem line_succ (f : Nat) (ih : All f) : SLine (f+1) := by
  intro P ρ t u l t' o hq hst hqt hc hr
  unfold Spec.execLine at hr ⊢
  unfold cLine at hc
  simp only at hr hc ⊢
  rw [hq.steps]
  have hq0 := hq.setSteps (t.steps + 1)
  have hst0 : Settled { t with steps := t.steps + 1 } := hst.congr rfl rfl rfl (fun _ => rfl) (fun _ => rfl)
  have hqt0 : Quiet { t with steps := t.steps + 1 } := hqt.of_fr (Fr.of_eq rfl rfl)
  cases hx : Spec.execOp f P { t with steps := t.steps + 1 } l.op with
  | none => rw [hx] at hr; simp at hr
  | some res =>
    obtain ⟨t1, e⟩ := res
    rw [hx] at hr
    obtain ⟨u1, e1, ρ1, hq1, hs1, hf1⟩ := ih.op P ρ _ _ l.op t1 e hq0 hst0 hqt0 hc hx
    rw [e1]
    have fin : ∀ r : String, Good ρ t u (Spec.collect (t1.log (.res t1.depth l.text r)))
        (Spec.collect (u1.log (.res u1.depth l.text r))) := by
      intro r
      rw [hq1.depth]
      have h2 := collect_sim (hq1.log (.res t1.depth l.text r))
      exact ⟨ρ1, h2.q, hs1.congr rfl h2.nk rfl h2.np, (hf1.pre (t := t) rfl rfl).trans (h2.fr.pre rfl rfl)⟩
    cases e with
    | error x =>
      simp only [Option.some.injEq, Prod.mk.injEq] at hr ⊢
      obtain ⟨rfl, rfl⟩ := hr
      exact ⟨_, ⟨rfl, rfl⟩, fin _, collect_settled _⟩
    | ok r =>
      simp only [Option.some.injEq, Prod.mk.injEq] at hr ⊢
      obtain ⟨rfl, rfl⟩ := hr
      exact ⟨_, ⟨rfl, rfl⟩, fin _, collect_settled _⟩

theorem op_simple (f : Nat) (P : Prog) (ρ : IdRel) (t u : LSt) (op : Op) (t' : LSt) (e : Except Unit String)
    (hq : Q ρ t u) (hqt : Quiet t) (hop : isComplex op = false) (hr : Spec.execOp (f+1) P t op = some (t', e)) :
    ∃ u', Spec.execOp (f+1+1) P u op = some (u', e) ∧ Good ρ t u t' u' := by
  rw [execOp_simple _ _ _ _ hop] at hr ⊢
  rw [modeRule_sim hq]
  cases hm : Spec.modeRule P t op with
  | some r =>
    rw [hm] at hr
    simp only [Option.some.injEq, Prod.mk.injEq] at hr
    obtain ⟨rfl, rfl⟩ := hr
    exact ⟨_, rfl, Good.refl hq⟩
  | none =>
    rw [hm] at hr
    simp only at hr ⊢
    have hs := stepSimple_sim hq hqt op
    generalize Spec.stepSimple t op = a at hs hr
    generalize Spec.stepSimple u op = b at hs
    cases hs with
    | none =>
      simp only [Option.some.injEq, Prod.mk.injEq] at hr
      obtain ⟨rfl, rfl⟩ := hr
      exact ⟨_, rfl, Good.refl hq⟩
    | ok r ρ' hq' hs' hf' =>
      simp only [Option.some.injEq, Prod.mk.injEq] at hr
      obtain ⟨rfl, rfl⟩ := hr
      exact ⟨_, rfl, ρ', hq', hs', hf'⟩

theorem op_callS (f : Nat) (ih : All f) (P : Prog) (ρ : IdRel) (t u : LSt) (i arg : Nat) (t' : LSt)
    (e : Except Unit String) (hq : Q ρ t u) (hst : Settled t) (hc : cOp (f+1) P t (.callS i arg) = true)
    (hr : Spec.execOp (f+1) P t (.callS i arg) = some (t', e)) :
    ∃ u', Spec.execOp (f+1+1) P u (.callS i arg) = some (u', e) ∧ Good ρ t u t' u' := by
  unfold Spec.execOp at hr ⊢
  unfold cOp at hc
  simp only at hr hc ⊢
  have hS := hq.S.get i
  cases hx : aget t.S i with
  | none =>
    rw [hx] at hS hr
    generalize aget u.S i = y at hS
    cases hS
    simp only [Option.some.injEq, Prod.mk.injEq] at hr
    obtain ⟨rfl, rfl⟩ := hr
    exact ⟨_, rfl, Good.refl hq⟩
  | some v =>
    rw [hx] at hS hr hc
    generalize aget u.S i = y at hS
    cases hS with
    | @some _ v' hv =>
      simp only at hr hc ⊢
      split at hr
      · rename_i hd
        simp only [Option.some.injEq, Prod.mk.injEq] at hr
        obtain ⟨rfl, rfl⟩ := hr
        rw [if_pos (by rw [hq.depth]; exact hd)]
        exact ⟨_, rfl, Good.refl hq⟩
      · rename_i hd
        rw [if_neg hd] at hc
        rw [if_neg (by rw [hq.depth]; exact hd)]
        split at hr
        · rename_i hs
          simp only [Option.some.injEq, Prod.mk.injEq] at hr
          obtain ⟨rfl, rfl⟩ := hr
          rw [if_pos (by rw [hq.steps]; exact hs)]
          exact ⟨_, rfl, Good.refl hq⟩
        · rename_i hs
          rw [if_neg hs] at hc
          rw [if_neg (by rw [hq.steps]; exact hs)]
          rw [hv.isVoid, hv.slot.blocked]
          have dflt : some (t, (Except.ok (showRes v.isVoid 0) : Except Unit String)) = some (t', e) →
              ∃ u', some (u, (Except.ok (showRes v.isVoid 0) : Except Unit String)) = some (u', e) ∧ Good ρ t u t' u' := by
            intro hr
            simp only [Option.some.injEq, Prod.mk.injEq] at hr
            obtain ⟨rfl, rfl⟩ := hr
            exact ⟨_, rfl, Good.refl hq⟩
          have hrep := hv.slot.rep
          generalize v.slot.rep = a at hrep hr hc
          generalize v'.slot.rep = b at hrep
          cases hrep with
          | none => exact dflt hr
          | @some r r' hrr =>
            obtain ⟨c, fn⟩ := r
            obtain ⟨c', fn'⟩ := r'
            obtain ⟨hcall, hfn⟩ := hrr
            simp only at hcall hfn
            subst hcall
            cases c' with
            | false => exact dflt hr
            | true =>
              cases hfn with
              | none => exact dflt hr
              | @some fn fn' hff =>
                simp only at hr hc ⊢
                cases hb : v.slot.blocked with
                | true =>
                  rw [hb] at hr
                  simp only [if_true] at hr ⊢
                  exact dflt hr
                | false =>
                  rw [hb] at hr hc
                  simp only [Bool.false_eq_true, if_false] at hr hc ⊢
                  have hq0 := hq.setS (AR.set hq.S i (a := { v with incall := v.incall + 1 })
                    (b := { v' with isVoid := v.isVoid, incall := v'.incall + 1 })
                    ⟨rfl, hv.slot, by simp [hv.incall], hv.taint⟩)
                  have hst0 : Settled { t with S := aset t.S i { v with incall := v.incall + 1 } } :=
                    hst.setS hx rfl
                  cases hi : Spec.invokeFun f P { t with S := aset t.S i { v with incall := v.incall + 1 } } fn arg with
                  | none => rw [hi] at hr; simp at hr
                  | some res =>
                    obtain ⟨t1, o, r⟩ := res
                    rw [hi] at hr
                    obtain ⟨u1, e1, ⟨ρ1, hq1, hs1, hf1⟩, _⟩ := ih.invoke P ρ _ _ fn fn' arg t1 o r hq0 hst0 hff hc hi
                    rw [e1]
                    simp only at hr ⊢
                    have hS1 := hq1.S.get i
                    have fin : Good ρ t u
                        (match aget t1.S i with
                          | some v2 => { t1 with S := aset t1.S i { v2 with incall := v2.incall - 1 } }
                          | none => t1.fail "callS: slot variable destroyed during its own call")
                        (match aget u1.S i with
                          | some v2 => { u1 with S := aset u1.S i { v2 with incall := v2.incall - 1 } }
                          | none => u1.fail "callS: slot variable destroyed during its own call") := by
                      generalize aget t1.S i = a at hS1
                      generalize aget u1.S i = b at hS1
                      cases hS1 with
                      | none =>
                        have := Sim0.fail hq1 "callS: slot variable destroyed during its own call"
                          "callS: slot variable destroyed during its own call"
                        exact ⟨ρ1, this.q, hs1.congr rfl this.nk rfl this.np, (hf1.pre (t := t) rfl rfl).trans this.fr⟩
                      | @some v2 v2' hv2 =>
                        exact ⟨ρ1, hq1.setS (AR.set hq1.S i ⟨hv2.isVoid, hv2.slot, by simp [hv2.incall], hv2.taint⟩),
                          hs1.congr rfl rfl rfl rfl, (hf1.pre (t := t) rfl rfl).trans (Fr.of_eq rfl rfl)⟩
                    cases o with
                    | exc =>
                      simp only [Option.some.injEq, Prod.mk.injEq] at hr ⊢
                      obtain ⟨rfl, rfl⟩ := hr
                      exact ⟨_, ⟨rfl, rfl⟩, fin⟩
                    | ok =>
                      simp only [Option.some.injEq, Prod.mk.injEq] at hr ⊢
                      obtain ⟨rfl, rfl⟩ := hr
                      exact ⟨_, ⟨rfl, rfl⟩, fin⟩

theorem op_emit (f : Nat) (ih : All f) (P : Prog) (ρ : IdRel) (t u : LSt) (g arg : Nat) (strat : Strat) (try_ : Bool)
    (t' : LSt) (e : Except Unit String) (hq : Q ρ t u) (hst : Settled t)
    (hc : cOp (f+1) P t (.emit g arg strat try_) = true)
    (hr : Spec.execOp (f+1) P t (.emit g arg strat try_) = some (t', e)) :
    ∃ u', Spec.execOp (f+1+1) P u (.emit g arg strat try_) = some (u', e) ∧ Good ρ t u t' u' := by
  unfold Spec.execOp at hr ⊢
  unfold cOp at hc
  simp only at hr hc ⊢
  have hG := hq.G.get g
  cases hx : aget t.G g with
  | none =>
    rw [hx] at hG hr
    generalize aget u.G g = y at hG
    cases hG
    simp only [Option.some.injEq, Prod.mk.injEq] at hr
    obtain ⟨rfl, rfl⟩ := hr
    exact ⟨_, rfl, Good.refl hq⟩
  | some hd =>
    rw [hx] at hG hr hc
    generalize aget u.G g = y at hG
    cases hG with
    | @some _ hd' hh =>
      simp only at hr hc ⊢
      split at hr
      · rename_i hdp
        simp only [Option.some.injEq, Prod.mk.injEq] at hr
        obtain ⟨rfl, rfl⟩ := hr
        rw [if_pos (by rw [hq.depth]; exact hdp)]
        exact ⟨_, rfl, Good.refl hq⟩
      · rename_i hdp
        rw [if_neg hdp] at hc
        rw [if_neg (by rw [hq.depth]; exact hdp)]
        split at hr
        · rename_i hs
          simp only [Option.some.injEq, Prod.mk.injEq] at hr
          obtain ⟨rfl, rfl⟩ := hr
          rw [if_pos (by rw [hq.steps]; exact hs)]
          exact ⟨_, rfl, Good.refl hq⟩
        · rename_i hs
          rw [if_neg hs] at hc
          rw [if_neg (by rw [hq.steps]; exact hs)]
          rw [hh.fl]
          cases he : Spec.emitSig f P t hd.fl hd.impl arg strat with
          | none => rw [he] at hr; simp at hr
          | some res =>
            obtain ⟨t1, o, r⟩ := res
            rw [he] at hr
            have href : Ref t hd.impl := by
              intro i hi
              rw [List.any_eq_true]
              exact ⟨(g, hd), aget_mem hx, by simp [hi]⟩
            obtain ⟨u1, e1, hg1, _⟩ := ih.emit P ρ t u hd.fl hd.impl hd'.impl arg strat t1 o r hq hst hh.impl href hc he
            rw [e1]
            cases o with
            | exc =>
              simp only at hr ⊢
              cases try_ with
              | true =>
                simp only [if_true, Option.some.injEq, Prod.mk.injEq] at hr ⊢
                obtain ⟨rfl, rfl⟩ := hr
                exact ⟨_, ⟨rfl, rfl⟩, hg1⟩
              | false =>
                simp only [Bool.false_eq_true, if_false, Option.some.injEq, Prod.mk.injEq] at hr ⊢
                obtain ⟨rfl, rfl⟩ := hr
                exact ⟨_, ⟨rfl, rfl⟩, hg1⟩
            | ok =>
              simp only [Option.some.injEq, Prod.mk.injEq] at hr ⊢
              obtain ⟨rfl, rfl⟩ := hr
              exact ⟨_, ⟨rfl, rfl⟩, hg1⟩

theorem op_succ (f : Nat) (ih : All f) : SOp (f+1) := by
  intro P ρ t u op t' e hq hst hqt hc hr
  cases hop : isComplex op with
  | false => exact op_simple f P ρ t u op t' e hq hqt hop hr
  | true =>
    cases op <;> simp [isComplex] at hop
    · exact op_callS f ih P ρ t u _ _ t' e hq hst hc hr
    · exact op_emit f ih P ρ t u _ _ _ _ t' e hq hst hc hr
    · unfold Spec.execOp at hr ⊢
      simp only [Option.some.injEq, Prod.mk.injEq] at hr ⊢
      obtain ⟨rfl, rfl⟩ := hr
      exact ⟨_, ⟨rfl, rfl⟩, Good.refl hq⟩

end Sigc.SpecK
