import Sigc.Lemmas.EmitStepB
import Sigc.Lemmas.EmitTrack
/-!
# Emit work package — `stepSimple` preserves `Inv` and is a `Frame` step, part C: signal objects,
connect, clear, block.
-/
namespace Sigc.Emit
open Sigc.Model

/-- a step that changes only `G` (and possibly `next`, `T`, `C`, `K`, trace …) -/
theorem Good.of_coreG {off} {s s' : St} (h : InvX off s) (hi : s'.impls = s.impls) (hS : s'.S = s.S)
    (he : s'.err = s.err) (hn : s.next ≤ s'.next) (hle : GLe s.G s'.G)
    (hh : ∀ p ∈ s'.G, ∀ i, p.2.impl = some i → (aget s.impls i).isSome = true)
    (hO : s'.ownedG = s.ownedG := by first | rfl | assumption) : Good off s s' := by
  have g1 := Good.setG h hle hh
  exact g1.congr hi rfl hS he hn hO

theorem GSame.get {G G'} (h : GSame G G') {j : Nat} {d : Handle} (hj : aget G j = some d) :
    ∃ d1, aget G' j = some d1 ∧ d1.obj = d.obj ∧ d1.fl = d.fl ∧ d1.trk = d.trk ∧ d1.everFwd = d.everFwd := by
  have := h j
  rw [hj] at this
  cases hg' : aget G' j with
  | none => rw [hg'] at this; simp at this
  | some h' =>
    rw [hg'] at this
    simp [stripH] at this
    obtain ⟨a, b, c, _, e⟩ := this
    exact ⟨h', rfl, a, b, c, e⟩

macro "nextle" : tactic => `(tactic| first | omega | (simp; done) | (simp; omega))

theorem good_invTrk_coreG {off} {s s0 : St} (h : InvX off s) (hi : s0.impls = s.impls) (hS : s0.S = s.S)
    (he : s0.err = s.err) (hn : s.next ≤ s0.next) (hle : GLe s.G s0.G)
    (hh : ∀ p ∈ s0.G, ∀ i, p.2.impl = some i → (aget s.impls i).isSome = true) (t : Nat)
    (hO : s0.ownedG = s.ownedG := by first | rfl | assumption) :
    Good off s (invalidateTrackable s0 t) :=
  (Good.of_coreG h hi hS he hn hle hh hO).andThen (fun h => good_invalidateTrackable h t)

theorem step_newG {s s' : St} {r : String} (i : Nat) (fl : Option Flavour) (h : Inv s)
    (hs : stepSimple s (.newG i fl) = some (s', r)) : Good0 s s' := by
  simp only [stepSimple, St.fresh] at hs
  split at hs
  · core_branch h hs
  · split at hs
    · core_branch h hs
    · rename_i hnone
      simp at hs; obtain ⟨h1, h2⟩ := hs; subst h1; subst h2
      refine Good.of_coreG h rfl rfl rfl (by nextle) (GLe.aset_new _ hnone) ?_
      intro p hp j hj
      rcases mem_aset hp with hp | hp
      · exact h.himpl p hp j hj
      · subst hp; simp at hj

/-- the common tail of `cpG` and of `mvG` on an accumulated signal: a new handle sharing impl `im` -/
theorem good_newHandle {s : St} (h : Inv s) {j im : Nat} (hj : aget s.G j = none)
    (him : (aget s.impls im).isSome = true) {hd : Handle} {s' : St}
    (hG : s'.G = aset s.G j hd) (hdi : hd.impl = some im)
    (hi : s'.impls = s.impls) (hS : s'.S = s.S) (he : s'.err = s.err) (hn : s.next ≤ s'.next)
    (hf : hd.everFwd = false := by rfl)
    (hO : s'.ownedG = s.ownedG := by first | rfl | assumption) : Good0 s s' := by
  apply Good.of_coreG h hi hS he hn (hO := hO)
  · rw [hG]; exact GLe.aset_new _ hj hf
  · intro p hp k hk
    rw [hG] at hp
    rcases mem_aset hp with hp | hp
    · exact h.himpl p hp k hk
    · subst hp; simp only at hk; rw [hdi] at hk; cases hk; exact him

theorem step_cpG {s s' : St} {r : String} (j i : Nat) (h : Inv s)
    (hs : stepSimple s (.cpG j i) = some (s', r)) : Good0 s s' := by
  simp only [stepSimple, St.fresh] at hs
  split at hs
  · core_branch h hs
  · split at hs
    · core_branch h hs
    · rename_i hnone
      split at hs
      · core_branch h hs
      · rename_i s1 im he
        obtain ⟨g1, him, _, hgs, _⟩ := ensureImpl_good h he
        split at hs
        · simp at hs; obtain ⟨h1, h2⟩ := hs; subst h1; subst h2; exact g1
        · simp at hs; obtain ⟨h1, h2⟩ := hs; subst h1; subst h2
          refine g1.trans ?_
          refine good_newHandle g1.inv (hgs.none hnone) him rfl rfl rfl rfl rfl ?_
          simp; omega

theorem step_mvG {s s' : St} {r : String} (j i : Nat) (h : Inv s)
    (hs : stepSimple s (.mvG j i) = some (s', r)) : Good0 s s' := by
  simp only [stepSimple, St.fresh] at hs
  split at hs
  · core_branch h hs
  · rename_i h0 hg0
    split at hs
    · core_branch h hs
    · rename_i hnone
      split at hs
      · split at hs
        · core_branch h hs
        · rename_i s1 im he
          obtain ⟨g1, him, _, hgs, _⟩ := ensureImpl_good h he
          simp at hs; obtain ⟨h1, h2⟩ := hs; subst h1; subst h2
          refine g1.trans ?_
          refine good_newHandle g1.inv (hgs.none hnone) him rfl rfl rfl rfl rfl ?_
          simp; omega
      · simp at hs; obtain ⟨h1, h2⟩ := hs; subst h1; subst h2
        have hji : j ≠ i := by intro e; subst e; rw [hg0] at hnone; contradiction
        have hle : GLe s.G (aset (aset s.G i { h0 with impl := none }) j
              { obj := s.next, fl := h0.fl, impl := h0.impl, trk := s.next + 1, lvl := h0.lvl }) := by
          refine (GLe.aset_same (h' := { h0 with impl := none }) hg0 rfl rfl rfl id).trans (GLe.aset_new _ ?_)
          rw [aget_aset_other _ _ _ _ hji]; exact hnone
        have hh : ∀ p ∈ (aset (aset s.G i { h0 with impl := none }) j
              { obj := s.next, fl := h0.fl, impl := h0.impl, trk := s.next + 1, lvl := h0.lvl }),
              ∀ k, p.2.impl = some k → (aget s.impls k).isSome = true := by
          intro p hp k hk
          rcases mem_aset hp with hp | hp
          · rcases mem_aset hp with hp | hp
            · exact h.himpl p hp k hk
            · subst hp; simp at hk
          · subst hp; exact h.himpl (i, h0) (aget_some_mem hg0) k hk
        split
        · refine good_invTrk_coreG h ?_ ?_ ?_ ?_ hle hh _ <;> first | rfl | nextle
        · refine Good.of_coreG h ?_ ?_ ?_ ?_ hle hh <;> first | rfl | nextle

/-- the common tail of copy assignment (`asgG`, and `masgG` on accumulated signals) -/
theorem good_assignHandle {s s1 : St} (h : Inv s) {j i im : Nat} {d : Handle} (hd : aget s.G j = some d)
    (he : ensureImpl s i = some (s1, im)) :
    Good0 s (match d.impl with
      | some old => gcImpl { s1 with G := aset s1.G j { d with impl := some im } } old
      | none => { s1 with G := aset s1.G j { d with impl := some im } }) := by
  obtain ⟨g1, him, _, hgs, _⟩ := ensureImpl_good h he
  obtain ⟨d1, hd1, a, b, c, e⟩ := hgs.get hd
  have g2 : Good0 s1 { s1 with G := aset s1.G j { d with impl := some im } } := by
    apply Good.setG g1.inv
    · exact GLe.aset_same hd1 a.symm b.symm c.symm (fun x => by rw [← e]; exact x)
    · intro p hp k hk
      rcases mem_aset hp with hp | hp
      · exact g1.inv.himpl p hp k hk
      · subst hp; simp at hk; subst hk; exact him
  cases d.impl with
  | none => exact g1.trans g2
  | some old => exact (g1.trans g2).andThen (fun h => Good.gcImpl h old)

theorem step_asgG {s s' : St} {r : String} (j i : Nat) (h : Inv s)
    (hs : stepSimple s (.asgG j i) = some (s', r)) : Good0 s s' := by
  simp only [stepSimple] at hs
  split at hs
  · rename_i d hh hd hhh
    split at hs
    · core_branch h hs
    · split at hs
      · core_branch h hs
      · split at hs
        · core_branch h hs
        · split at hs
          · core_branch h hs
          · rename_i s1 im he
            split at hs
            · simp at hs; obtain ⟨h1, h2⟩ := hs; subst h1; subst h2
              exact (ensureImpl_good h he).1
            · simp at hs; obtain ⟨h1, h2⟩ := hs; subst h1; subst h2
              exact good_assignHandle h hd he
  · core_branch h hs

theorem step_masgG {s s' : St} {r : String} (j i : Nat) (h : Inv s)
    (hs : stepSimple s (.masgG j i) = some (s', r)) : Good0 s s' := by
  simp only [stepSimple] at hs
  split at hs
  · rename_i d hh hd hhh
    split at hs
    · core_branch h hs
    · split at hs
      · core_branch h hs
      · split at hs
        · core_branch h hs
        · split at hs
          · split at hs
            · core_branch h hs
            · split at hs
              · core_branch h hs
              · rename_i s1 im he
                split at hs
                · simp at hs; obtain ⟨h1, h2⟩ := hs; subst h1; subst h2
                  exact (ensureImpl_good h he).1
                · simp at hs; obtain ⟨h1, h2⟩ := hs; subst h1; subst h2
                  exact good_assignHandle h hd he
          · split at hs
            · core_branch h hs
            · rename_i hji
              simp at hs; obtain ⟨h1, h2⟩ := hs; subst h1; subst h2
              have g1 : Good0 s { s with G := aset (aset s.G j { d with impl := hh.impl }) i { hh with impl := none } } := by
                apply Good.setG h
                · refine (GLe.aset_same (h' := { d with impl := hh.impl }) hd rfl rfl rfl id).trans
                    (GLe.aset_same (h := hh) (h' := { hh with impl := none }) ?_ rfl rfl rfl id)
                  rw [aget_aset_other _ _ _ _ (Ne.symm hji)]; exact hhh
                · intro p hp k hk
                  rcases mem_aset hp with hp | hp
                  · rcases mem_aset hp with hp | hp
                    · exact h.himpl p hp k hk
                    · subst hp; exact h.himpl (i, hh) (aget_some_mem hhh) k hk
                  · subst hp; simp at hk
              have g2 : Good0 s (match d.impl with
                  | some old => gcImpl { s with G := aset (aset s.G j { d with impl := hh.impl }) i { hh with impl := none } } old
                  | none => { s with G := aset (aset s.G j { d with impl := hh.impl }) i { hh with impl := none } }) := by
                cases d.impl with
                | none => exact g1
                | some old => exact g1.andThen (fun h => Good.gcImpl h old)
              split
              · exact g2.andThen (fun h => good_invalidateTrackable h _)
              · exact g2
  · core_branch h hs

end Sigc.Emit
