import Sigc.Lemmas.SpecPDefs
/-!
# SpecPConn — `connected()` is not affected by changing an entry's blocking flag
-/
namespace Sigc.SpecP
open Sigc.Spec
open Sigc.Model (aget aset adel amap Prog Line Op FSpec Fun SlotB SlotVar Rep Handle Flavour Strat Outcome Event
  aget_nil aget_aset_same aget_aset_other aget_amap aget_adel_same aget_adel_other)

theorem any_map_congr (cs : List LCell) (F : LCell → LCell) (p : LCell → Bool) (h : ∀ c, p (F c) = p c) :
    (cs.map F).any p = cs.any p := by
  induction cs with
  | nil => rfl
  | cons c t ih => simp [h, ih]

theorem find_map_congr (cs : List LCell) (F : LCell → LCell) (p : LCell → Bool) (h : ∀ c, p (F c) = p c) :
    (cs.map F).find? p = (cs.find? p).map F := by
  induction cs with
  | nil => rfl
  | cons c t ih =>
    simp only [List.map_cons, List.find?_cons, h]
    cases p c <;> simp [ih]

/-- replacing list `j` by the same list with entries changed (ids and zombie flags kept) does not change
    where an entry is found -/
theorem findSig_aset_map (F : LCell → LCell) (hF : ∀ c, (F c).id = c.id ∧ (F c).zombie = c.zombie) (cid j : Nat) :
    ∀ (sigs : List (Nat × LSig)) (g : LSig), aget sigs j = some g →
      findSig (aset sigs j { g with cells := g.cells.map F }) cid = findSig sigs cid := by
  intro sigs
  induction sigs with
  | nil => intro g h; simp [aget] at h
  | cons p t ih =>
    intro g h
    obtain ⟨k, x⟩ := p
    by_cases hk : k = j
    · subst hk
      simp only [aget, if_true, Option.some.injEq] at h
      subst h
      simp only [aset, if_true, findSig]
      rw [any_map_congr _ F _ (fun c => by simp [(hF c).1, (hF c).2])]
    · simp only [aget, hk, if_false] at h
      simp only [aset, hk, if_false, findSig]
      rw [ih g h]

theorem getCell_setSig_map (s : LSt) (F : LCell → LCell)
    (hF : ∀ c, (F c).id = c.id ∧ (F c).zombie = c.zombie ∧ (F c).slot.empty = c.slot.empty)
    (j : Nat) (g : LSig) (hg : aget s.sigs j = some g) (cid : Nat) :
    (getCell (setSig s j { g with cells := g.cells.map F }) cid).map (fun x => x.2.slot.empty) =
      (getCell s cid).map (fun x => x.2.slot.empty) := by
  unfold getCell
  simp only [setSig]
  rw [findSig_aset_map F (fun c => ⟨(hF c).1, (hF c).2.1⟩) cid j s.sigs g hg]
  cases hf : findSig s.sigs cid with
  | none => rfl
  | some i =>
    simp only
    by_cases hi : i = j
    · subst hi
      rw [aget_aset_same, hg]
      simp only
      rw [find_map_congr _ F _ (fun c => by simp [(hF c).1, (hF c).2.1])]
      cases g.cells.find? (fun c => c.id = cid && !c.zombie) with
      | none => rfl
      | some c => simp [(hF c).2.2]
    · rw [aget_aset_other _ _ _ _ hi]

theorem connConnected_eq (s : LSt) (p : Option Nat) :
    connConnected s p = match p with
      | none => false
      | some cid => match (getCell s cid).map (fun x => x.2.slot.empty) with
        | none => false
        | some e => !e := by
  unfold connConnected
  cases p with
  | none => rfl
  | some cid =>
    simp only
    cases getCell s cid with
    | none => rfl
    | some x => rfl

/-- changing the blocking flag of an entry changes no `connected()` answer -/
theorem connConnected_updCell_blocked (s : LSt) (cid : Nat) (b : Bool) (p : Option Nat) :
    connConnected (updCell s cid (fun c => { c with slot := { c.slot with blocked := b } })) p = connConnected s p := by
  unfold updCell
  split
  · rfl
  · split
    · rfl
    · rename_i i _ g hg
      rw [connConnected_eq, connConnected_eq]
      cases p with
      | none => rfl
      | some c' =>
        simp only
        rw [getCell_setSig_map s _ ?_ _ g hg c']
        intro c
        split
        · exact ⟨rfl, rfl, rfl⟩
        · exact ⟨rfl, rfl, rfl⟩

end Sigc.SpecP
