import Sigc.Lemmas.EmitPrim3
/-!
# Emit work package — after `invalidateTrackable s t` no slot held by the library still refers to `t`
(needed for "a forwarder to a destroyed trackable_signal is gone").
-/
namespace Sigc.Emit
open Sigc.Model

/-- the shape of the result of `touchCell` -/
theorem touchCell_shape (hf : SlotB → SlotB) (s : St) (cid : Nat) :
    (getCell s cid = none ∧ touchCell hf s cid = s) ∨
    (∃ i c im im', getCell s cid = some (i, c) ∧ aget s.impls i = some im ∧
      (touchCell hf s cid).impls = aset s.impls i im' ∧
      (∀ c' ∈ im'.cells, ∃ c0 ∈ im.cells,
          c' = updC cid (fun c => { c with slot := hf c.slot, linked := false }) c0) ∧
      (touchCell hf s cid).S = s.S ∧ (touchCell hf s cid).G = s.G) := by
  unfold touchCell
  cases hg : getCell s cid with
  | none => left; exact ⟨rfl, rfl⟩
  | some p =>
    right
    obtain ⟨i, c⟩ := p
    obtain ⟨im, hi, hfind⟩ := getCell_some hg
    simp only
    rw [updCell_eq hi]
    let f : Cell → Cell := fun c => { c with slot := hf c.slot, linked := false }
    have hi1 : aget (Sigc.Model.setImpl s i { im with cells := im.cells.map (updC cid f) }).impls i
          = some { im with cells := im.cells.map (updC cid f) } := by simp [aget_setImpl]
    cases hlk : c.linked with
    | false =>
      refine ⟨i, c, im, { im with cells := im.cells.map (updC cid f) }, rfl, hi, rfl, ?_, rfl, rfl⟩
      intro c' hc'
      obtain ⟨c0, hc0, rfl⟩ := List.mem_map.mp hc'
      exact ⟨c0, hc0, rfl⟩
    | true =>
      simp only [if_true]
      rw [notifyParent_eq hi1]
      split
      · rw [eraseCell_eq hi1, setImpl_setImpl]
        simp only
        rw [map_updC_filter im.cells cid f (fun _ => rfl)]
        refine ⟨i, c, im, { im with cells := im.cells.filter (·.id ≠ cid) }, rfl, hi, rfl, ?_, rfl, rfl⟩
        intro c' hc'
        obtain ⟨h1, h2⟩ := List.mem_filter.mp hc'
        refine ⟨c', h1, ?_⟩
        simp at h2
        simp [updC, h2]
      · rw [setImpl_setImpl]
        refine ⟨i, c, im, { im with cells := im.cells.map (updC cid f), deferred := true }, rfl, hi, rfl, ?_, rfl, rfl⟩
        intro c' hc'
        obtain ⟨c0, hc0, rfl⟩ := List.mem_map.mp hc'
        exact ⟨c0, hc0, rfl⟩

theorem invalidateCell_SG (s : St) (cid : Nat) : (invalidateCell s cid).S = s.S ∧ (invalidateCell s cid).G = s.G := by
  rw [invalidateCell_eq]
  rcases touchCell_shape SlotB.invalidate s cid with ⟨_, h⟩ | ⟨i, c, im, im', _, _, _, _, h1, h2⟩
  · rw [h]; exact ⟨rfl, rfl⟩
  · exact ⟨h1, h2⟩

theorem foldl_invalidateCell_SG (s : St) (cs : List Nat) :
    (cs.foldl invalidateCell s).S = s.S ∧ (cs.foldl invalidateCell s).G = s.G := by
  induction cs generalizing s with
  | nil => exact ⟨rfl, rfl⟩
  | cons c t ih =>
    simp only [List.foldl_cons]
    obtain ⟨a, b⟩ := ih (invalidateCell s c)
    obtain ⟨a', b'⟩ := invalidateCell_SG s c
    exact ⟨a.trans a', b.trans b'⟩

theorem invalidateTrackable_G (s : St) (t : Nat) : (invalidateTrackable s t).G = s.G := by
  unfold invalidateTrackable
  simp only
  exact (foldl_invalidateCell_SG _ _).2

/-! ## finding cells -/

theorem findCellImpl_some {impls : List (Nat × Impl)} {cid : Nat}
    (h : ∃ p ∈ impls, cid ∈ cids p.2) :
    ∃ i0 im0, findCellImpl impls cid = some i0 ∧ (i0, im0) ∈ impls ∧ cid ∈ cids im0 := by
  induction impls with
  | nil => obtain ⟨p, hp, _⟩ := h; simp at hp
  | cons q t ih =>
    obtain ⟨i, im⟩ := q
    simp only [findCellImpl]
    by_cases hany : im.cells.any (·.id = cid) = true
    · simp only [hany, if_true]
      exact ⟨i, im, rfl, by simp, mem_ids_of_any hany⟩
    · simp only [hany]
      obtain ⟨p, hp, hc⟩ := h
      rcases List.mem_cons.mp hp with e | e
      · subst e; exact absurd (any_of_mem_ids hc) hany
      · obtain ⟨i0, im0, a, b, c⟩ := ih ⟨p, e, hc⟩
        exact ⟨i0, im0, a, List.mem_cons_of_mem _ b, c⟩

theorem getCell_of_mem {off} {s : St} (h : InvX off s) {i : Nat} {im : Impl} (hi : aget s.impls i = some im)
    {cid : Nat} (hc : cid ∈ cids im) : ∃ c, getCell s cid = some (i, c) := by
  obtain ⟨i0, im0, a, b, c⟩ := findCellImpl_some ⟨(i, im), aget_some_mem hi, hc⟩
  have hi0 := aget_of_mem_nodup h.keys b
  have : i0 = i := by
    by_cases e : i0 = i
    · exact e
    · exact absurd hc (h.disj i0 i im0 im hi0 hi e cid c)
  subst this
  rw [hi] at hi0; cases hi0
  obtain ⟨c0, hc0⟩ := find_of_mem_ids hc
  exact ⟨c0, by simp [getCell, a, hi, hc0]⟩

/-! ## tracking -/

/-- every cell that still refers to `t` has its id in `W` -/
def TrackedIn (s : St) (t : Nat) (W : List Nat) : Prop :=
  ∀ i im, aget s.impls i = some im → ∀ c ∈ im.cells, c.slot.tracksObj t = true → c.id ∈ W

theorem invalidate_tracksObj (sl : SlotB) (t : Nat) : sl.invalidate.tracksObj t = false := by
  unfold SlotB.invalidate SlotB.tracksObj
  cases hr : sl.rep <;> simp [hr]

theorem trackedIn_step {off} {s : St} (h : InvX off s) {t k : Nat} {W : List Nat}
    (hT : TrackedIn s t (k :: W)) : TrackedIn (invalidateCell s k) t W := by
  rw [invalidateCell_eq]
  rcases touchCell_shape SlotB.invalidate s k with ⟨hnone, heq⟩ | ⟨i, c, im, im', hg, hi, himpls, hcells, _, _⟩
  · rw [heq]
    intro j jm hj c hc htr
    rcases List.mem_cons.mp (hT j jm hj c hc htr) with e | e
    · exfalso
      obtain ⟨c0, hc0⟩ := getCell_of_mem h hj (cid := k) (by rw [← e]; exact List.mem_map.mpr ⟨c, hc, rfl⟩)
      rw [hnone] at hc0; contradiction
    · exact e
  · intro j jm hj c' hc' htr
    rw [himpls, aget_aset] at hj
    obtain ⟨im0, hi0, hfind⟩ := getCell_some hg
    rw [hi] at hi0; cases hi0
    have hk : k ∈ cids im := List.mem_map.mpr ⟨c, (find_mem hfind).1, (find_mem hfind).2⟩
    split at hj
    · cases hj
      obtain ⟨c0, hc0, rfl⟩ := hcells c' hc'
      unfold updC at htr ⊢
      split at htr
      · simp only at htr; rw [invalidate_tracksObj] at htr; contradiction
      · rename_i hne
        simp only [hne, if_false]
        rcases List.mem_cons.mp (hT i im hi c0 hc0 htr) with e | e
        · exact absurd e hne
        · exact e
    · rename_i hne
      rcases List.mem_cons.mp (hT j jm hj c' hc' htr) with e | e
      · exfalso
        exact h.disj j i jm im hj hi hne k (by rw [← e]; exact List.mem_map.mpr ⟨c', hc', rfl⟩) hk
      · exact e

theorem trackedIn_foldl {off} {s : St} (h : InvX off s) {t : Nat} (W : List Nat)
    (hT : TrackedIn s t W) : TrackedIn (W.foldl invalidateCell s) t [] := by
  induction W generalizing s with
  | nil => exact hT
  | cons k W ih =>
    simp only [List.foldl_cons]
    exact ih (Good.invalidateCell h k).inv (trackedIn_step h hT)

theorem mem_victims (impls : List (Nat × Impl)) (t k : Nat) :
    k ∈ impls.foldr (fun p acc => ((p.2.cells.filter (fun c => c.slot.tracksObj t)).map (·.id)) ++ acc) [] ↔
    ∃ p ∈ impls, ∃ c ∈ p.2.cells, c.slot.tracksObj t = true ∧ c.id = k := by
  induction impls with
  | nil => simp
  | cons q tl ih =>
    simp only [List.foldr_cons, List.mem_append, ih, List.mem_map, List.mem_filter, List.mem_cons]
    constructor
    · rintro (⟨c, ⟨hc, ht⟩, rfl⟩ | ⟨p, hp, c, hc, ht, rfl⟩)
      · exact ⟨q, Or.inl rfl, c, hc, ht, rfl⟩
      · exact ⟨p, Or.inr hp, c, hc, ht, rfl⟩
    · rintro ⟨p, hp | hp, c, hc, ht, rfl⟩
      · subst hp; exact Or.inl ⟨c, ⟨hc, ht⟩, rfl⟩
      · exact Or.inr ⟨p, hp, c, hc, ht, rfl⟩

/-- after `invalidateTrackable s t` nothing held by the library refers to `t` -/
theorem noTrack_invalidateTrackable {off} {s : St} (h : InvX off s) (t : Nat) :
    (∀ i v, aget (invalidateTrackable s t).S i = some v → v.slot.tracksObj t = false) ∧
    (∀ i im, aget (invalidateTrackable s t).impls i = some im → ∀ c ∈ im.cells, c.slot.tracksObj t = false) := by
  unfold invalidateTrackable
  simp only
  generalize hs0 : ({ s with S := amap s.S (fun v => if v.slot.tracksObj t then { v with slot := v.slot.invalidate } else v) } : St) = s0
  have h0 : InvX off s0 := by
    have := good_invalidateTrackable h t
    subst hs0
    refine ⟨h.keys, h.lt, h.ok, h.disj, h.himpl, ?_, h.fwdC, h.noerr, h.own⟩
    intro j w hw
    simp only [aget_amap] at hw
    cases hj : aget s.S j with
    | none => rw [hj] at hw; simp at hw
    | some v =>
      rw [hj] at hw; simp at hw; subst hw
      split
      · exact (h.fwdS j v hj).invalidate
      · exact h.fwdS j v hj
  constructor
  · intro i v hv
    rw [(foldl_invalidateCell_SG _ _).1] at hv
    subst hs0
    simp only [aget_amap] at hv
    cases hj : aget s.S i with
    | none => rw [hj] at hv; simp at hv
    | some w =>
      rw [hj] at hv; simp at hv; subst hv
      split
      · exact invalidate_tracksObj _ _
      · rename_i hn; simpa using hn
  · have hT : TrackedIn s0 t (s0.impls.foldr (fun p acc => ((p.2.cells.filter (fun c => c.slot.tracksObj t)).map (·.id)) ++ acc) []) := by
      intro i im hi c hc htr
      rw [mem_victims]
      exact ⟨(i, im), aget_some_mem hi, c, hc, htr, rfl⟩
    have := trackedIn_foldl h0 _ hT
    have e : s0.impls = s.impls := by subst hs0; rfl
    rw [e] at this
    intro i im hi c hc
    cases htr : c.slot.tracksObj t with
    | false => rfl
    | true => have := this i im hi c hc htr; simp at this

end Sigc.Emit
