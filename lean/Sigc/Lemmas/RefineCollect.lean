import Sigc.Lemmas.RefinePrimC
import Sigc.Lemmas.RefineStepB
/-!
# Refine work package — owned objects die with the last functor copy holding them: `collect` on both
sides (a trackable, a scoped connection, or a signal object: `Model.dropHandle` is simulated by
`Spec.dropHandle`, `R_dropHandle`).
-/
namespace Sigc.Refine
open Sigc.Model

theorem find_congr' {α : Type} {l : List α} {p q : α → Bool} (h : ∀ a ∈ l, p a = q a) : l.find? p = l.find? q := by
  induction l with
  | nil => rfl
  | cons a t ih =>
    simp only [List.find?, h a (by simp)]
    rw [ih (fun x hx => h x (List.mem_cons_of_mem _ hx))]

theorem R_collectStep {s : St} {t : Spec.LSt} (hs : Emit.Inv s) (hR : R s t) :
    (Model.collectStep s = none → Spec.collectStep t = none) ∧
    (∀ s', Model.collectStep s = some s' → ∃ t', Spec.collectStep t = some t' ∧ R s' t') := by
  unfold Model.collectStep Spec.collectStep
  have hfT : t.ownedT.find? (fun o => !Spec.heldT t o) = s.ownedT.find? (fun o => !Model.heldT s o) := by
    rw [hR.ownedT]
    exact find_congr' (fun o _ => by rw [heldT_sim hR])
  rw [hfT]
  cases hT : s.ownedT.find? (fun o => !Model.heldT s o) with
  | some o =>
    simp only
    refine ⟨by simp, ?_⟩
    intro s' h
    cases h
    have hs1 : Emit.Inv { s with ownedT := s.ownedT.filter (· ≠ o) } := Emit.InvX.congr hs rfl rfl rfl rfl (Nat.le_refl _)
    refine ⟨_, rfl, ?_⟩
    have := R_invalidateTrackable hs1 (hR.updOwnedT (s.ownedT.filter (· ≠ o))) o
    rw [hR.ownedT]
    exact this
  | none =>
    simp only
    rcases F2.find hR.ownedK (fun p => !Model.heldK s p.1) (fun p => !Spec.heldK t p.1)
        (fun p q _ _ hpq => by rw [heldK_sim hR, hpq.1]) with ⟨h1, h2⟩ | ⟨a, b, h1, h2, hab⟩
    · rw [h1, h2]
      simp only
      have hfG : t.ownedG.find? (fun p => !Spec.heldK t p.1) = s.ownedG.find? (fun p => !Model.heldK s p.1) := by
        rw [hR.ownedG]
        exact find_congr' (fun p _ => by rw [heldK_sim hR])
      rw [hfG]
      cases hG : s.ownedG.find? (fun p => !Model.heldK s p.1) with
      | none => simp
      | some p =>
        obtain ⟨k, g⟩ := p
        simp only
        refine ⟨by simp, ?_⟩
        intro s' h
        cases h
        have hs1 : Emit.Inv { s with ownedG := s.ownedG.filter (fun q => q.1 ≠ k) } :=
          Emit.InvX.congrSub hs rfl rfl rfl rfl (Nat.le_refl _) (fun p hp => (List.mem_filter.mp hp).1)
        refine ⟨_, rfl, ?_⟩
        have := R_dropHandle hs1 (hR.updOwnedG (s.ownedG.filter (fun q => q.1 ≠ k))) g
        rw [hR.ownedG]
        exact this
    · rw [h1, h2]
      obtain ⟨k, pm⟩ := a
      obtain ⟨k', ps⟩ := b
      obtain ⟨e, hp⟩ := hab
      simp only at e hp; subst e
      simp only
      refine ⟨by simp, ?_⟩
      intro s' h
      cases h
      have hs1 : Emit.Inv { s with ownedK := s.ownedK.filter (fun q => q.1 ≠ k) } :=
        Emit.InvX.congr hs rfl rfl rfl rfl (Nat.le_refl _)
      have hR1 : R { s with ownedK := s.ownedK.filter (fun q => q.1 ≠ k) }
          { t with ownedK := t.ownedK.filter (fun q => q.1 ≠ k) } :=
        hR.updOwnedK (hR.ownedK.filt _ _ (fun k' _ _ _ _ _ => rfl))
      refine ⟨_, rfl, ?_⟩
      have := R_disc hs1 hR1 hp
      cases pm <;> cases ps <;> exact this

theorem R_collectN (n : Nat) {s : St} {t : Spec.LSt} (hs : Emit.Inv s) (hR : R s t) :
    R (Model.collectN n s) (Spec.collectN n t) := by
  induction n generalizing s t with
  | zero => exact hR
  | succ n ih =>
    simp only [Model.collectN, Spec.collectN]
    obtain ⟨h1, h2⟩ := R_collectStep hs hR
    cases hc : Model.collectStep s with
    | none => rw [h1 hc]; exact hR
    | some s' =>
      obtain ⟨t', ht', hR'⟩ := h2 s' hc
      rw [ht']
      exact ih (Emit.good_collectStep hs hc).inv hR'

theorem R_collect {s : St} {t : Spec.LSt} (hs : Emit.Inv s) (hR : R s t) : R (Model.collect s) (Spec.collect t) := by
  unfold Model.collect Spec.collect
  rw [hR.ownedT, ← F2.length hR.ownedK, hR.ownedG]
  exact R_collectN _ hs hR

end Sigc.Refine
