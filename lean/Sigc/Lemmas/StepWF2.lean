import Sigc.Lemmas.StepWF
/-!
# StepWF2 — `mkFun` and every operation of `stepSimple` preserve `WF`
-/
namespace Sigc.StepWF
open Sigc.Model Sigc.StepConn Sigc.StepHandles Sigc.StepTrack

theorem WF.withT {s : St} (h : WF s) (T : List (Nat × Nat)) (hT : AllV (fun o : Nat => o < s.next) T) :
    WF { s with T := T } :=
  ⟨h.impls, h.vars, hT, h.trks, h.owners⟩

theorem WF.withG {s : St} (h : WF s) (G : List (Nat × Handle)) (hG : AllV (fun h : Handle => h.trk < s.next) G) :
    WF { s with G := G } :=
  ⟨h.impls, h.vars, h.objs, hG, h.owners⟩

/-- `mkFun`: the state stays well-formed, the allocator does not go back, and the functor built refers
    only to trackable identities below the allocator -/
theorem WF.mkFun {s s' : St} (h : WF s) {isVoid : Bool} {spec : FSpec} {fn : Fun}
    (hm : mkFun s isVoid spec = .ok (fn, s')) :
    WF s' ∧ s.next ≤ s'.next ∧ ∀ t ∈ fn.tracks, t < s'.next := by
  cases spec with
  | fn fid =>
    simp [Model.mkFun] at hm; obtain ⟨rfl, rfl⟩ := hm
    exact ⟨h, Nat.le_refl _, by simp [Fun.tracks]⟩
  | mem fid t =>
    simp only [Model.mkFun] at hm
    split at hm
    · cases hm
    · rename_i o ho
      simp at hm; obtain ⟨rfl, rfl⟩ := hm
      refine ⟨h, Nat.le_refl _, ?_⟩
      intro t ht; simp [Fun.tracks] at ht; subst ht; exact h.objs.of_aget ho
  | bref fid t =>
    simp only [Model.mkFun] at hm
    split at hm
    · cases hm
    · rename_i o ho
      simp at hm; obtain ⟨rfl, rfl⟩ := hm
      refine ⟨h, Nat.le_refl _, ?_⟩
      intro t ht; simp [Fun.tracks] at ht; subst ht; exact h.objs.of_aget ho
  | trk fid t1 t2 =>
    simp only [Model.mkFun] at hm
    split at hm
    · cases hm
    · rename_i o1 ho1
      split at hm
      · simp at hm; obtain ⟨rfl, rfl⟩ := hm
        refine ⟨h, Nat.le_refl _, ?_⟩
        intro t ht; simp [Fun.tracks] at ht; subst ht; exact h.objs.of_aget ho1
      · split at hm
        · cases hm
        · rename_i o2 ho2
          simp at hm; obtain ⟨rfl, rfl⟩ := hm
          refine ⟨h, Nat.le_refl _, ?_⟩
          intro t ht; simp [Fun.tracks] at ht
          rcases ht with rfl | rfl
          · exact h.objs.of_aget ho1
          · exact h.objs.of_aget ho2
  | nest sv =>
    simp only [Model.mkFun] at hm
    split at hm
    · cases hm
    · rename_i v hv
      split at hm
      · cases hm
      · simp at hm; obtain ⟨rfl, rfl⟩ := hm
        refine ⟨h, Nat.le_refl _, ?_⟩
        intro t ht
        apply (h.vars.of_aget hv).copy t
        revert ht
        generalize v.slot.copy = sl
        obtain ⟨b, rep⟩ := sl
        cases rep with
        | none => intro ht; simp [Fun.tracks] at ht
        | some r => obtain ⟨c, fn⟩ := r; cases fn <;> simp [Fun.tracks, slotTracks]
  | fwd g =>
    simp only [Model.mkFun] at hm
    split at hm
    · cases hm
    · rename_i hd hg
      split at hm
      · cases hm
      · split at hm
        · cases hm
        · simp at hm; obtain ⟨rfl, rfl⟩ := hm
          refine ⟨h.withG _ (h.trks.aset g _ (h.trks.of_aget (v := hd) hg)), Nat.le_refl _, ?_⟩
          intro t ht
          simp only [Fun.tracks] at ht
          split at ht
          · simp at ht; subst ht; exact h.trks.of_aget (v := hd) hg
          · cases ht
  | ownT fid t =>
    simp only [Model.mkFun] at hm
    split at hm
    · cases hm
    · simp at hm; obtain ⟨rfl, rfl⟩ := hm
      refine ⟨(h.withT _ (h.objs.adel t)).frame _ rfl rfl rfl rfl rfl rfl, Nat.le_refl _, by simp [Fun.tracks]⟩
  | ownK fid k =>
    simp only [Model.mkFun] at hm
    split at hm
    · cases hm
    · simp [St.fresh] at hm; obtain ⟨rfl, rfl⟩ := hm
      exact ⟨h.bump _ (Nat.le_succ _) rfl rfl rfl rfl rfl, Nat.le_succ _, by simp [Fun.tracks]⟩
  | ownG fid g =>
    simp only [Model.mkFun] at hm
    split at hm
    · cases hm
    · split at hm
      · cases hm
      · split at hm
        · cases hm
        · simp [St.fresh] at hm; obtain ⟨rfl, rfl⟩ := hm
          have h1 : WF { s with next := s.next + 1 } := h.bump _ (Nat.le_succ _) rfl rfl rfl rfl rfl
          exact ⟨⟨h1.impls, h1.vars, h1.objs, h1.trks, h.owners.fresh g⟩, Nat.le_succ _, by simp [Fun.tracks]⟩
  | bad => simp [Model.mkFun] at hm

/-- the slot made from a freshly built functor -/
theorem SlotBelow.of_fun {n : Nat} {fn : Fun} (h : ∀ t ∈ fn.tracks, t < n) (b c : Bool) :
    SlotBelow n { blocked := b, rep := some { call := c, fn := some fn } } := h

theorem WF.var {s : St} (h : WF s) {k : Nat} {v : SlotVar} (hk : aget s.S k = some v) : SlotBelow s.next v.slot :=
  h.vars.of_aget hk
theorem WF.obj {s : St} (h : WF s) {k o : Nat} (hk : aget s.T k = some o) : o < s.next := h.objs.of_aget hk
theorem WF.trk {s : St} (h : WF s) {k : Nat} {hd : Handle} (hk : aget s.G k = some hd) : hd.trk < s.next :=
  h.trks.of_aget hk

/-- substitute a branch `h : some (s₁, r₁) = some (s', r)` -/
macro "wf_subst" h:ident : tactic => `(tactic| (
  injection $h:ident with hx
  injection hx with hy hz
  subst hy))

/-- finish such a branch with `hw : WF s₁` (up to a frame rule) -/
macro "wf_done" h:ident hw:term : tactic => `(tactic| (
  wf_subst $h
  first | exact $hw | exact WF.frame $hw _ rfl rfl rfl rfl rfl rfl))

/-! ### trackables -/

theorem WF.allocT {s : St} (h : WF s) (t : Nat) :
    WF { s with next := s.next + 1, T := aset s.T t s.next } :=
  have h1 : WF { s with next := s.next + 1 } := h.bump _ (Nat.le_succ _) rfl rfl rfl rfl rfl
  h1.withT _ (h1.objs.aset t s.next (Nat.lt_succ_self _))

theorem stepSimple_WF_T (s s' : St) (r : String) (op : Op) (hw : WF s) (h : stepSimple s op = some (s', r))
    (hop : match op with
      | .newT _ | .delT _ | .notifyT _ | .cpT _ _ | .mvT _ _ | .asgT _ _ | .masgT _ _ => True
      | _ => False) : WF s' := by
  cases op <;> simp only at hop <;> simp only [stepSimple, St.fresh] at h
  case newT t =>
    split at h
    · wf_done h hw
    · wf_subst h; exact hw.allocT t
  case delT t =>
    split at h
    · wf_done h hw
    · wf_subst h; exact (hw.withT _ (hw.objs.adel t)).invalidateTrackable _
  case notifyT t =>
    split at h
    · wf_done h hw
    · wf_subst h; exact hw.invalidateTrackable _
  case cpT j i =>
    split at h
    · wf_done h hw
    · split at h
      · wf_done h hw
      · wf_subst h; exact hw.allocT j
  case mvT j i =>
    split at h
    · wf_done h hw
    · split at h
      · wf_done h hw
      · wf_subst h; exact (hw.allocT j).invalidateTrackable _
  case asgT j i =>
    split at h
    · wf_subst h
      split
      · exact hw
      · exact hw.invalidateTrackable _
    · wf_done h hw
  case masgT j i =>
    split at h
    · wf_subst h
      split
      · exact hw
      · exact (hw.invalidateTrackable _).invalidateTrackable _
    · wf_done h hw

/-! ### slot variables -/

theorem stepSimple_WF_S (s s' : St) (r : String) (op : Op) (hw : WF s) (h : stepSimple s op = some (s', r))
    (hop : match op with
      | .mkS _ _ _ | .mkS0 _ _ | .cpS _ _ | .mvS _ _ | .asgS _ _ | .masgS _ _ | .setS _ _ | .delS _ | .discS _
      | .blockS _ _ | .blockedSq _ | .emptySq _ | .boolSq _ => True
      | _ => False) : WF s' := by
  cases op <;> simp only at hop <;> simp only [stepSimple] at h
  case mkS i ty spec =>
    split at h
    · wf_done h hw
    · split at h
      · wf_done h hw
      · split at h
        · wf_done h hw
        · rename_i fn s1 heq
          obtain ⟨h1, _, htr⟩ := hw.mkFun heq
          wf_subst h
          exact h1.withS _ (h1.vars.aset i _ (SlotBelow.of_fun htr _ _))
  case mkS0 i ty =>
    split at h
    · wf_done h hw
    · split at h
      · wf_done h hw
      · wf_subst h
        exact hw.withS _ (hw.vars.aset i _ (SlotBelow.of_nil rfl))
  case cpS j i =>
    split at h
    · wf_done h hw
    · rename_i v hv
      split at h
      · wf_done h hw
      · wf_subst h
        exact hw.withS _ (hw.vars.aset j _ (hw.var hv).copy)
  case mvS j i =>
    split at h
    · wf_done h hw
    · rename_i v hv
      split at h
      · wf_done h hw
      · split at h
        · wf_done h hw
        · wf_subst h
          exact hw.withS _ ((hw.vars.aset i _ (hw.var hv).move2).aset j _ (hw.var hv).move1)
  case asgS j i =>
    split at h
    · rename_i d v hd hv
      split at h
      · wf_done h hw
      · split at h
        · wf_done h hw
        · wf_subst h
          refine hw.withS _ (hw.vars.aset j _ ?_)
          show SlotBelow _ (if _ then _ else if _ then _ else _)
          split
          · exact (hw.var hd).blocked _
          · split
            · exact SlotBelow.of_nil rfl
            · exact (hw.var hv).copy_rep _
    · wf_done h hw
  case masgS j i =>
    split at h
    · rename_i d v hd hv
      split at h
      · wf_done h hw
      · split at h
        · wf_done h hw
        · split at h
          · wf_subst h
            exact hw.withS _ (hw.vars.aset j _ ((hw.var hd).blocked _))
          · split at h
            · wf_subst h
              exact hw.withS _ (hw.vars.aset j _ (SlotBelow.of_nil rfl))
            · wf_subst h
              exact hw.withS _ ((hw.vars.aset i _ (SlotBelow.of_nil rfl)).aset j _
                ((hw.var hv).of_eq (slotTracks_of_rep _ _ rfl)))
    · wf_done h hw
  case setS i spec =>
    split at h
    · wf_done h hw
    · split at h
      · wf_done h hw
      · split at h
        · wf_done h hw
        · rename_i fn s1 heq
          obtain ⟨h1, _, htr⟩ := hw.mkFun heq
          wf_subst h
          exact h1.withS _ (h1.vars.aset i _ (SlotBelow.of_fun htr _ _))
  case delS i =>
    split at h
    · wf_done h hw
    · split at h
      · wf_done h hw
      · wf_subst h; exact hw.withS _ (hw.vars.adel i)
  case discS i =>
    split at h
    · wf_done h hw
    · rename_i v hv
      wf_subst h; exact hw.withS _ (hw.vars.aset i _ (hw.var hv).disconnectRep)
  case blockS i b =>
    split at h
    · wf_done h hw
    · rename_i v hv
      wf_subst h; exact hw.withS _ (hw.vars.aset i _ ((hw.var hv).blocked b))
  case blockedSq i => split at h <;> wf_done h hw
  case emptySq i => split at h <;> wf_done h hw
  case boolSq i => split at h <;> wf_done h hw

/-! ### signal objects -/

/-- the allocator moves on and the handle table is replaced -/
theorem WF.bumpG {s : St} (h : WF s) (n' : Nat) (hn : s.next ≤ n') (G : List (Nat × Handle))
    (hG : AllV (fun h : Handle => h.trk < n') G) : WF { s with next := n', G := G } :=
  have h1 : WF { s with next := n' } := h.bump _ hn rfl rfl rfl rfl rfl
  ⟨h1.impls, h1.vars, h1.objs, hG, h1.owners⟩

theorem WF.trksUp {s : St} (h : WF s) {n' : Nat} (hn : s.next ≤ n') : AllV (fun h : Handle => h.trk < n') s.G :=
  h.trks.imp (fun _ hv => Nat.lt_of_lt_of_le hv hn)

theorem WF.gcOpt {s : St} (h : WF s) (o : Option Nat) :
    WF (match o with | some old => Model.gcImpl s old | none => s) := by
  split
  · exact h.gcImpl _
  · exact h

theorem WF.invIf {s : St} (h : WF s) (b : Bool) (t : Nat) :
    WF (if b = true then Model.invalidateTrackable s t else s) := by
  split
  · exact h.invalidateTrackable _
  · exact h

theorem stepSimple_WF_G (s s' : St) (r : String) (op : Op) (hw : WF s) (h : stepSimple s op = some (s', r))
    (hop : match op with
      | .newG _ _ | .cpG _ _ | .mvG _ _ | .asgG _ _ | .masgG _ _ | .delG _ => True
      | _ => False) : WF s' := by
  cases op <;> simp only at hop <;> simp only [stepSimple, St.fresh] at h
  case newG i fl =>
    split at h
    · wf_done h hw
    · split at h
      · wf_done h hw
      · wf_subst h
        exact hw.bumpG _ (by omega) _ ((hw.trksUp (by omega)).aset i _ (by simp))
  case cpG j i =>
    split at h
    · wf_done h hw
    · split at h
      · wf_done h hw
      · split at h
        · wf_done h hw
        · rename_i s1 im heq
          have h1 := hw.ensureImpl heq
          split at h
          · wf_done h h1
          · wf_subst h
            exact h1.bumpG _ (by omega) _ ((h1.trksUp (by omega)).aset j _ (by simp))
  case mvG j i =>
    split at h
    · wf_done h hw
    · rename_i h0 hi
      split at h
      · wf_done h hw
      · split at h
        · split at h
          · wf_done h hw
          · rename_i s1 im heq
            have h1 := hw.ensureImpl heq
            wf_subst h
            exact h1.bumpG _ (by omega) _ ((h1.trksUp (by omega)).aset j _ (by simp))
        · wf_subst h
          apply WF.invIf
          refine hw.bumpG _ (by omega) _ (((hw.trksUp (by omega)).aset i _ ?_).aset j _ (by simp))
          have := hw.trk hi
          show h0.trk < _
          omega
  case asgG j i =>
    split at h
    · rename_i d hd hj hi
      split at h
      · wf_done h hw
      · split at h
        · wf_done h hw
        · split at h
          · wf_done h hw
          · split at h
            · wf_done h hw
            · rename_i s1 im heq
              have h1 := hw.ensureImpl heq
              have hle := ensureImpl_next_le heq
              split at h
              · wf_done h h1
              · wf_subst h
                apply WF.gcOpt
                refine h1.withG _ (h1.trks.aset j _ ?_)
                have := hw.trk hj
                show d.trk < _
                omega
    · wf_done h hw
  case masgG j i =>
    split at h
    · rename_i d hd hj hi
      split at h
      · wf_done h hw
      · split at h
        · wf_done h hw
        · split at h
          · wf_done h hw
          · split at h
            · split at h
              · wf_done h hw
              · split at h
                · wf_done h hw
                · rename_i s1 im heq
                  have h1 := hw.ensureImpl heq
                  have hle := ensureImpl_next_le heq
                  split at h
                  · wf_done h h1
                  · wf_subst h
                    apply WF.gcOpt
                    refine h1.withG _ (h1.trks.aset j _ ?_)
                    have := hw.trk hj
                    show d.trk < _
                    omega
            · split at h
              · wf_done h hw
              · wf_subst h
                apply WF.invIf
                apply WF.gcOpt
                refine hw.withG _ ((hw.trks.aset j _ ?_).aset i _ ?_)
                · exact hw.trk (hd := d) hj
                · exact hw.trk (hd := hd) hi
    · wf_done h hw
  case delG i =>
    split at h
    · wf_done h hw
    · split at h
      · wf_done h hw
      · split at h
        · wf_done h hw
        · wf_subst h
          apply WF.gcOpt
          have h1 := hw.invIf ‹Handle›.fl.isTrackable ‹Handle›.trk
          exact h1.withG _ (h1.trks.adel i)

/-! ### connecting, clearing, blocking -/

theorem stepSimple_WF_L (s s' : St) (r : String) (op : Op) (hw : WF s) (h : stepSimple s op = some (s', r))
    (hop : match op with
      | .conn _ _ _ _ _ | .connfn _ _ _ _ | .clear _ | .sizeq _ | .emptyGq _ | .blockedGq _ | .blockG _ _ => True
      | _ => False) : WF s' := by
  cases op <;> simp only at hop <;> simp only [stepSimple] at h
  case conn k g sv first mv =>
    split at h
    · rename_i hd v hg hv
      split at h
      · wf_done h hw
      · split at h
        · wf_done h hw
        · split at h
          · wf_done h hw
          · split at h
            · wf_done h hw
            · rename_i s1 im heq
              have h1 := hw.ensureImpl heq
              have hle := ensureImpl_next_le heq
              have hsl : SlotBelow s1.next v.slot := (hw.var hv).mono hle
              cases mv
              · simp only [Bool.false_eq_true, if_false] at h
                wf_subst h
                apply WF.setConn
                exact h1.insertCell _ _ _ (hsl.copy.mono (Nat.le_succ _))
              · simp only [if_true] at h
                wf_subst h
                apply WF.setConn
                exact (h1.withS _ (h1.vars.aset sv _ hsl.move2)).insertCell _ _ _ (hsl.move1.mono (Nat.le_succ _))
    · wf_done h hw
  case connfn k g spec first =>
    split at h
    · wf_done h hw
    · split at h
      · wf_done h hw
      · rename_i fn sa heq
        obtain ⟨ha, _, htr⟩ := hw.mkFun heq
        split at h
        · wf_done h ha
        · split at h
          · wf_done h hw
          · rename_i sb im heq2
            have hb := ha.ensureImpl heq2
            have hle := ensureImpl_next_le heq2
            wf_subst h
            apply WF.setConn
            refine hb.insertCell _ _ _ (SlotBelow.of_fun ?_ _ _)
            intro t ht
            have := htr t ht
            omega
  case clear g =>
    split at h
    · wf_done h hw
    · wf_subst h
      split
      · exact hw.clearImpl _
      · exact hw
  case sizeq g =>
    split at h
    · wf_done h hw
    · split at h <;> wf_done h hw
  case emptyGq g =>
    split at h
    · wf_done h hw
    · split at h <;> wf_done h hw
  case blockedGq g =>
    split at h
    · wf_done h hw
    · split at h <;> wf_done h hw
  case blockG g b =>
    split at h
    · wf_done h hw
    · split at h
      · wf_done h hw
      · split at h
        · wf_done h hw
        · rename_i x hx
          wf_subst h
          exact hw.setImpl _ _ (hw.impls.aset_map hx _ (fun c => { c with slot := { c.slot with blocked := b } }) rfl
            (fun _ => rfl) (fun c hc => hc.blocked b))

/-! ### connections and scoped connections -/

theorem WF.discOpt {s : St} (h : WF s) (p : Option Nat) :
    WF (match p with | some cid => Model.disconnectCell s cid | none => s) := by
  split
  · exact h.disconnectCell _
  · exact h

theorem stepSimple_WF_C (s s' : St) (r : String) (op : Op) (hw : WF s) (h : stepSimple s op = some (s', r))
    (hop : match op with
      | .newC _ | .cpC _ _ | .asgC _ _ | .delC _ | .disc _ | .connectedq _ | .emptyCq _ | .blockedCq _ | .blockC _ _ => True
      | _ => False) : WF s' := by
  cases op <;> simp only at hop <;> simp only [stepSimple] at h
  case newC i => split at h <;> wf_done h hw
  case cpC j i =>
    split at h
    · wf_done h hw
    · split at h <;> wf_done h hw
  case asgC j i => split at h <;> wf_done h hw
  case delC i => split at h <;> wf_done h hw
  case disc i =>
    split at h
    · wf_done h hw
    · wf_done h (hw.discOpt _)
  case connectedq i => split at h <;> wf_done h hw
  case emptyCq i => split at h <;> wf_done h hw
  case blockedCq i => split at h <;> wf_done h hw
  case blockC i b =>
    split at h
    · wf_done h hw
    · wf_done h (hw.connBlock _ _)

theorem stepSimple_WF_K (s s' : St) (r : String) (op : Op) (hw : WF s) (h : stepSimple s op = some (s', r))
    (hop : match op with
      | .newK0 _ | .newK _ _ | .asgKC _ _ | .mvK _ _ | .masgK _ _ | .swapK _ _ | .relK _ _ | .discK _ | .delK _
      | .connectedKq _ | .blockedKq _ | .blockK _ _ => True
      | _ => False) : WF s' := by
  cases op <;> simp only at hop <;> simp only [stepSimple] at h
  case newK0 i => split at h <;> wf_done h hw
  case newK i c =>
    split at h
    · wf_done h hw
    · split at h <;> wf_done h hw
  case asgKC i c =>
    split at h
    · split at h <;> wf_done h (hw.discOpt _)
    · wf_done h hw
  case mvK j i =>
    split at h
    · wf_done h hw
    · split at h <;> wf_done h hw
  case masgK j i =>
    split at h
    · split at h
      · wf_done h hw
      · split at h <;> wf_done h (hw.discOpt _)
    · wf_done h hw
  case swapK i j => split at h <;> wf_done h hw
  case relK c k => split at h <;> wf_done h hw
  case discK i =>
    split at h
    · wf_done h hw
    · wf_done h (hw.discOpt _)
  case delK i =>
    split at h
    · wf_done h hw
    · wf_subst h
      exact WF.discOpt (hw.withK _) _
  case connectedKq i => split at h <;> wf_done h hw
  case blockedKq i => split at h <;> wf_done h hw
  case blockK i b =>
    split at h
    · wf_done h hw
    · wf_done h (hw.connBlock _ _)

/-! ### all operations -/

/-- **every operation that runs no user code preserves well-formedness** -/
theorem stepSimple_WF {s s' : St} {op : Op} {r : String} (hw : WF s) (h : stepSimple s op = some (s', r)) : WF s' := by
  cases op
  case newT | delT | notifyT | cpT | mvT | asgT | masgT => exact stepSimple_WF_T _ _ _ _ hw h trivial
  case mkS | mkS0 | cpS | mvS | asgS | masgS | setS | delS | discS | blockS | blockedSq | emptySq | boolSq =>
    exact stepSimple_WF_S _ _ _ _ hw h trivial
  case newG | cpG | mvG | asgG | masgG | delG => exact stepSimple_WF_G _ _ _ _ hw h trivial
  case conn | connfn | clear | sizeq | emptyGq | blockedGq | blockG => exact stepSimple_WF_L _ _ _ _ hw h trivial
  case newC | cpC | asgC | delC | disc | connectedq | emptyCq | blockedCq | blockC =>
    exact stepSimple_WF_C _ _ _ _ hw h trivial
  case newK0 | newK | asgKC | mvK | masgK | swapK | relK | discK | delK | connectedKq | blockedKq | blockK =>
    exact stepSimple_WF_K _ _ _ _ hw h trivial
  case liveq | mark | allocsq | bad => simp only [stepSimple] at h; wf_done h hw
  case callS | emit | throw_ => simp [stepSimple] at h

example : ∀ s' r, stepSimple exStT (.delG 0) = some (s', r) → WF s' := fun _ _ h => stepSimple_WF (by decide) h

end Sigc.StepWF
