import Sigc.Model
import Sigc.Spec
import Sigc.Lemmas.Basic
/-!
# SpecPDefs — vocabulary for the property-level reading of the specification `S` (`Sigc.Spec`)

`callable` (the functor `S` invokes at an entry's turn), `snapOf`/`enter`/`epi` (prologue, snapshot and
epilogue of `emitSig`), `turnsT` (the turns of a non-accumulated emission, instrumented with the list of
invocations), and the one-step equations of the mutual block in terms of them.
-/
namespace Sigc.SpecP
open Sigc.Model Sigc.Spec

/-- the functor `S` invokes when entry `cid` of list `i` gets its turn: the entry must, at that moment,
    be in the list, unblocked and valid (`rep = some {call := true, fn := some fn}`) -/
def callable (s : LSt) (i cid : Nat) : Option Fun :=
  match (aget s.sigs i).bind (fun g => g.cells.find? (·.id = cid)) with
  | some { slot := { blocked := false, rep := some { call := true, fn := some fn } }, .. } => some fn
  | _ => none

/-- the entry `cid` of list `i`, if any -/
def entry (s : LSt) (i cid : Nat) : Option LCell :=
  (aget s.sigs i).bind (fun g => g.cells.find? (·.id = cid))

/-- the functor a slot value offers for invocation: unblocked and valid -/
def slotFun (sl : SlotB) : Option Fun :=
  match sl with
  | { blocked := false, rep := some { call := true, fn := some fn } } => some fn
  | _ => none

theorem callable_eq (s : LSt) (i cid : Nat) : callable s i cid = (entry s i cid).bind (fun c => slotFun c.slot) := by
  unfold callable entry slotFun
  cases (aget s.sigs i).bind (fun g => g.cells.find? (·.id = cid)) with
  | none => rfl
  | some c =>
    obtain ⟨id, ⟨blocked, rep⟩, mk, zo⟩ := c
    cases blocked
    · cases rep with
      | none => rfl
      | some rp =>
        obtain ⟨call, fn⟩ := rp
        cases call <;> cases fn <;> rfl
    · rfl

theorem slotFun_eq_some (sl : SlotB) (fn : Fun) :
    slotFun sl = some fn ↔ sl.blocked = false ∧ sl.rep = some { call := true, fn := some fn } := by
  obtain ⟨blocked, rep⟩ := sl
  cases blocked
  · cases rep with
    | none => simp [slotFun]
    | some rp =>
      obtain ⟨call, fn'⟩ := rp
      cases call <;> cases fn' <;> simp [slotFun]
  · simp [slotFun]

theorem slotFun_blocked (sl : SlotB) (h : sl.blocked = true) : slotFun sl = none := by
  obtain ⟨blocked, rep⟩ := sl
  simp at h; subst h; rfl

theorem slotFun_empty (sl : SlotB) (h : sl.empty = true) : slotFun sl = none := by
  obtain ⟨blocked, rep⟩ := sl
  cases blocked
  · cases rep with
    | none => rfl
    | some rp =>
      obtain ⟨call, fn'⟩ := rp
      cases call
      · cases fn' <;> rfl
      · simp [SlotB.empty] at h
  · rfl

/-- the slot value `insertCell` stores: a slot without rep gets the dummy (invalid, functor-less) rep -/
def normSlot (sl : SlotB) : SlotB :=
  match sl.rep with
  | none => { sl with rep := some { call := false, fn := none } }
  | some _ => sl

/-- the snapshot of an emission: the ids of the entries present when it starts (with `k2`, an
    accumulated emission also sees the markers / zombies of the emissions in progress) -/
def snapOf (k2 : Bool) (fl : Flavour) (g : LSig) : List Nat :=
  (g.cells.filter (fun c => (k2 && fl.isAcc) || (!c.marker && !c.zombie))).map (·.id)

/-- the state in which the turns of an emission of list `i` run: one more emission in progress (and one id
    consumed; with `k2`, an end marker with that id appended) -/
def enter (s : LSt) (i : Nat) (g : LSig) : LSt :=
  setSig { s with next := s.next + 1 } i
    { g with active := g.active + 1,
             cells := if s.k2 then g.cells ++ [{ id := s.next, slot := {}, marker := true }] else g.cells }

/-- the list at the end of one of its emissions (`m` = the id consumed by `enter`) -/
def closeSig (m : Nat) (g2 : LSig) : LSig :=
  let g3 := { g2 with active := g2.active - 1, cells := g2.cells.filter (·.id ≠ m) }
  let g3 := if g3.active = 0 then { g3 with cells := g3.cells.filter (fun c => !c.zombie), limbo := [] } else g3
  if g3.active = 0 && g3.dirty then
    { g3 with dirty := false, cells := g3.cells.filter (fun c => !c.slot.empty) }
  else g3

theorem closeSig_act (m : Nat) (g2 : LSig) : (closeSig m g2).active = g2.active - 1 := by
  unfold closeSig
  simp only
  split <;> split <;> rfl

/-- the epilogue of `emitSig`: one function of the state the turns ended in — the same for a normal and
    an exceptional end -/
def epi (i m : Nat) (s : LSt) : LSt :=
  match aget s.sigs i with
  | none => s.fail "emit: list died during its emission"
  | some g2 => collect (gcSig (setSig s i (closeSig m g2)) i)

/-- the body of an emission: the accumulator's strategy over the snapshot, or the turns in order -/
def body (f : Nat) (P : Prog) (s : LSt) (fl : Flavour) (i : Nat) (snap : List Nat) (arg : Nat) (strat : Strat) :
    Option (LSt × Outcome × Nat) :=
  if fl.isAcc then runStrat f P s i snap arg (strat.forFlavour fl) else turns f P s i snap arg 0

theorem emitSig_eq (f : Nat) (P : Prog) (s : LSt) (fl : Flavour) (i arg : Nat) (strat : Strat) (g : LSig)
    (hg : aget s.sigs i = some g) (hk : (s.k2 && !fl.isAcc && g.cells.isEmpty) = false) :
    emitSig (f+1) P s fl (some i) arg strat =
      (body f P (enter s i g) fl i (snapOf s.k2 fl g) arg strat).map
        (fun x => (epi i s.next x.1, x.2.1, x.2.2)) := by
  rw [emitSig]
  simp only [hg, hk, Bool.false_eq_true, ↓reduceIte]
  split
  · rename_i hr
    have hb : body f P (enter s i g) fl i (snapOf s.k2 fl g) arg strat = none := hr
    rw [hb]; rfl
  · rename_i s1 o v hr
    have hb : body f P (enter s i g) fl i (snapOf s.k2 fl g) arg strat = some (s1, o, v) := hr
    rw [hb]
    simp only [Option.map, epi]
    cases aget s1.sigs i <;> rfl

theorem turns_nil (f : Nat) (P : Prog) (s : LSt) (i arg r : Nat) :
    turns (f+1) P s i [] arg r = some (s, .ok, r) := by
  rw [turns]

theorem turns_cons (f : Nat) (P : Prog) (s : LSt) (i cid : Nat) (rest : List Nat) (arg r : Nat) :
    turns (f+1) P s i (cid :: rest) arg r =
      (match (match callable s i cid with
              | none => some (s, Outcome.ok, r)
              | some fn => invokeFun f P s fn arg) with
       | none => none
       | some (s, .exc, v) => some (s, .exc, v)
       | some (s, .ok, v) => turns f P s i rest arg v) := by
  rw [turns]
  simp only [callable]
  cases (aget s.sigs i).bind (fun g => g.cells.find? (·.id = cid)) with
  | none => rfl
  | some c =>
    obtain ⟨id, ⟨blocked, rep⟩, mk, zo⟩ := c
    cases blocked
    · cases rep with
      | none => rfl
      | some rp =>
        obtain ⟨call, fn⟩ := rp
        cases call <;> cases fn <;> rfl
    · rfl

theorem deref_eq (f : Nat) (P : Prog) (s : LSt) (i : Nat) (snap : List Nat) (it : It) (arg : Nat) :
    deref (f+1) P s i snap it arg =
      (match snap[it.pos]? with
       | none => some (s, .ok, it)
       | some cid =>
         match callable s i cid with
         | none => some (s, .ok, it)
         | some fn =>
           if it.invoked then some (s, .ok, it) else
           match invokeFun f P s fn arg with
           | none => none
           | some (s, .exc, _) => some (s, .exc, it)
           | some (s, .ok, v) => some (s, .ok, { it with buf := v, invoked := true })) := by
  rw [Spec.deref]
  cases snap[it.pos]? with
  | none => rfl
  | some cid =>
    simp only [callable]
    cases (aget s.sigs i).bind (fun g => g.cells.find? (·.id = cid)) with
    | none => rfl
    | some c =>
      obtain ⟨id, ⟨blocked, rep⟩, mk, zo⟩ := c
      cases blocked
      · cases rep with
        | none => rfl
        | some rp =>
          obtain ⟨call, fn⟩ := rp
          cases call <;> cases fn <;> rfl
      · rfl

/-! ## the instrumented turns -/

/-- one invocation made by an emission: which entry, which functor, with which argument, what it returned -/
structure Inv where
  cid : Nat
  fn : Fun
  arg : Nat
  val : Nat
deriving Repr

/-- `turns`, additionally returning the invocations made, in order -/
def turnsT : Nat → Prog → LSt → Nat → List Nat → Nat → Nat → Option ((LSt × Outcome × Nat) × List Inv)
  | 0, _, _, _, _, _, _ => none
  | _+1, _, s, _, [], _, r => some ((s, .ok, r), [])
  | f+1, P, s, i, cid :: rest, arg, r =>
    match callable s i cid with
    | none => turnsT f P s i rest arg r
    | some fn =>
      match invokeFun f P s fn arg with
      | none => none
      | some (s1, .exc, v) => some ((s1, .exc, v), [⟨cid, fn, arg, v⟩])
      | some (s1, .ok, v) =>
        (turnsT f P s1 i rest arg v).map (fun x => (x.1, ⟨cid, fn, arg, v⟩ :: x.2))

theorem turnsT_fst (f : Nat) : ∀ (P : Prog) (s : LSt) (i : Nat) (snap : List Nat) (arg r : Nat),
    (turnsT f P s i snap arg r).map (·.1) = turns f P s i snap arg r := by
  induction f with
  | zero => intro P s i snap arg r; simp [turnsT, turns]
  | succ f ih =>
    intro P s i snap arg r
    cases snap with
    | nil => simp [turnsT, turns_nil]
    | cons cid rest =>
      rw [turns_cons, turnsT]
      cases hc : callable s i cid with
      | none => simp only; exact ih ..
      | some fn =>
        simp only
        cases hi : invokeFun f P s fn arg with
        | none => rfl
        | some x =>
          obtain ⟨s1, o, v⟩ := x
          cases o
          · simp only [Option.map_map]
            rw [← ih]
            rfl
          · rfl

/-- the invocations are made on entries of the snapshot, in snapshot order, at most one per position -/
theorem turnsT_sublist (f : Nat) : ∀ (P : Prog) (s : LSt) (i : Nat) (snap : List Nat) (arg r : Nat) x l,
    turnsT f P s i snap arg r = some (x, l) → (l.map (·.cid)).Sublist snap := by
  induction f with
  | zero => intro P s i snap arg r x l h; simp [turnsT] at h
  | succ f ih =>
    intro P s i snap arg r x l h
    cases snap with
    | nil => simp [turnsT] at h; simp [h.2.symm]
    | cons cid rest =>
      rw [turnsT] at h
      cases hc : callable s i cid with
      | none =>
        simp only [hc] at h
        exact (ih _ _ _ _ _ _ _ _ h).cons _
      | some fn =>
        simp only [hc] at h
        cases hi : invokeFun f P s fn arg with
        | none => simp [hi] at h
        | some y =>
          obtain ⟨s1, o, v⟩ := y
          cases o
          · simp only [hi, Option.map_eq_some_iff] at h
            obtain ⟨⟨x', l'⟩, h1, h2⟩ := h
            simp only [Prod.mk.injEq] at h2
            obtain ⟨rfl, rfl⟩ := h2
            simp only [List.map_cons]
            exact (ih _ _ _ _ _ _ _ _ h1).cons_cons _
          · simp only [hi, Option.some.injEq, Prod.mk.injEq] at h
            obtain ⟨rfl, rfl⟩ := h
            simp

/-- every invocation passes the emitted argument -/
theorem turnsT_arg (f : Nat) : ∀ (P : Prog) (s : LSt) (i : Nat) (snap : List Nat) (arg r : Nat) x l,
    turnsT f P s i snap arg r = some (x, l) → ∀ c ∈ l, c.arg = arg := by
  induction f with
  | zero => intro P s i snap arg r x l h; simp [turnsT] at h
  | succ f ih =>
    intro P s i snap arg r x l h
    cases snap with
    | nil => simp [turnsT] at h; obtain ⟨_, rfl⟩ := h; simp
    | cons cid rest =>
      rw [turnsT] at h
      cases hc : callable s i cid with
      | none =>
        simp only [hc] at h
        exact ih _ _ _ _ _ _ _ _ h
      | some fn =>
        simp only [hc] at h
        cases hi : invokeFun f P s fn arg with
        | none => simp [hi] at h
        | some y =>
          obtain ⟨s1, o, v⟩ := y
          cases o
          · simp only [hi, Option.map_eq_some_iff] at h
            obtain ⟨⟨x', l'⟩, h1, h2⟩ := h
            simp only [Prod.mk.injEq] at h2
            obtain ⟨rfl, rfl⟩ := h2
            intro c hcm
            simp only [List.mem_cons] at hcm
            rcases hcm with rfl | hcm
            · rfl
            · exact ih _ _ _ _ _ _ _ _ h1 c hcm
          · simp only [hi, Option.some.injEq, Prod.mk.injEq] at h
            obtain ⟨rfl, rfl⟩ := h
            simp

/-- the value of the emission is the value of the last invocation, or the initial value if there was none -/
theorem turnsT_value (f : Nat) : ∀ (P : Prog) (s : LSt) (i : Nat) (snap : List Nat) (arg r : Nat) s' o v l,
    turnsT f P s i snap arg r = some ((s', o, v), l) → v = ((l.map (·.val)).getLast?).getD r := by
  induction f with
  | zero => intro P s i snap arg r s' o v l h; simp [turnsT] at h
  | succ f ih =>
    intro P s i snap arg r s' o v l h
    cases snap with
    | nil => simp [turnsT] at h; obtain ⟨⟨_, _, rfl⟩, rfl⟩ := h; simp
    | cons cid rest =>
      rw [turnsT] at h
      cases hc : callable s i cid with
      | none =>
        simp only [hc] at h
        exact ih _ _ _ _ _ _ _ _ _ _ h
      | some fn =>
        simp only [hc] at h
        cases hi : invokeFun f P s fn arg with
        | none => simp [hi] at h
        | some y =>
          obtain ⟨s1, o1, v1⟩ := y
          cases o1
          · simp only [hi, Option.map_eq_some_iff] at h
            obtain ⟨⟨x', l'⟩, h1, h2⟩ := h
            simp only [Prod.mk.injEq] at h2
            obtain ⟨rfl, rfl⟩ := h2
            have := ih _ _ _ _ _ _ _ _ _ _ h1
            rw [this]
            cases l' with
            | nil => simp
            | cons a t => simp [List.getLast?_cons]
          · simp only [hi, Option.some.injEq, Prod.mk.injEq] at h
            obtain ⟨⟨rfl, rfl, rfl⟩, rfl⟩ := h
            simp

/-- an exceptional end: the throwing invocation is the last one; a normal end: no invocation threw
    (stated on the outcome: `.exc` ⇒ the log is non-empty) -/
theorem turnsT_exc_nonempty (f : Nat) : ∀ (P : Prog) (s : LSt) (i : Nat) (snap : List Nat) (arg r : Nat) s' v l,
    turnsT f P s i snap arg r = some ((s', .exc, v), l) → l ≠ [] := by
  induction f with
  | zero => intro P s i snap arg r s' v l h; simp [turnsT] at h
  | succ f ih =>
    intro P s i snap arg r s' v l h
    cases snap with
    | nil => simp [turnsT] at h
    | cons cid rest =>
      rw [turnsT] at h
      cases hc : callable s i cid with
      | none =>
        simp only [hc] at h
        exact ih _ _ _ _ _ _ _ _ _ h
      | some fn =>
        simp only [hc] at h
        cases hi : invokeFun f P s fn arg with
        | none => simp [hi] at h
        | some y =>
          obtain ⟨s1, o1, v1⟩ := y
          cases o1
          · simp only [hi, Option.map_eq_some_iff] at h
            obtain ⟨⟨x', l'⟩, h1, h2⟩ := h
            simp only [Prod.mk.injEq] at h2
            obtain ⟨_, rfl⟩ := h2
            simp
          · simp only [hi, Option.some.injEq, Prod.mk.injEq] at h
            obtain ⟨_, rfl⟩ := h
            simp

/-! ## signal objects and their lists -/

theorem gcSig_G (s : LSt) (i : Nat) : (gcSig s i).G = s.G := by
  unfold gcSig
  split
  · rfl
  · split <;> rfl

theorem invalidateTrackable_G (s : LSt) (t : Nat) : (invalidateTrackable s t).G = s.G := rfl

/-- `ensureSig` gives the signal object a list if it has none, and changes nothing else about it or about
    any other signal object -/
theorem ensureSig_spec (s s1 : LSt) (g im : Nat) (h : ensureSig s g = some (s1, im)) :
    ∃ h0 h1, aget s.G g = some h0 ∧ aget s1.G g = some h1 ∧ h1.impl = some im ∧ h1.fl = h0.fl ∧ h1.lvl = h0.lvl ∧
      h1.obj = h0.obj ∧ h1.trk = h0.trk ∧ (∀ k, k ≠ g → aget s1.G k = aget s.G k) ∧
      (h0.impl = some im → s1 = s) ∧ (h0.impl = none ∨ h0.impl = some im) := by
  unfold ensureSig at h
  cases hg : aget s.G g with
  | none => simp [hg] at h
  | some h0 =>
    simp only [hg] at h
    cases hi : h0.impl with
    | some i0 =>
      simp only [hi, Option.some.injEq, Prod.mk.injEq] at h
      obtain ⟨rfl, rfl⟩ := h
      exact ⟨h0, h0, rfl, hg, hi, rfl, rfl, rfl, rfl, fun _ _ => rfl, fun _ => rfl, Or.inr hi⟩
    | none =>
      simp only [hi, LSt.fresh, Option.some.injEq, Prod.mk.injEq] at h
      obtain ⟨rfl, rfl⟩ := h
      refine ⟨h0, { h0 with impl := some s.next }, rfl, aget_aset_same _ _ _, rfl, rfl, rfl, rfl, rfl,
        fun k hk => aget_aset_other _ _ _ _ hk, fun hc => (by rw [hi] at hc; cases hc), Or.inl hi⟩

end Sigc.SpecP
