import Sigc.Lemmas.StepWF2
import Sigc.Lemmas.InvSchema
/-!
# StepWF3 — `WF` holds in every reachable state

`WF` is `Stable` in the sense of `Sigc.Inv` (the generic preservation schema for the mutual block):
it is preserved by `stepSimple`, by the prologue / epilogue primitives of `emitImpl` and by `collect`.
Hence all eleven interpreter functions preserve it, for every fuel and program, and every state in which
any operation of any run executes — in particular every final state of `runTop` on any list of lines,
and of the harness `teardown` — satisfies `WF`, hence `UniqueCells` and `TracksBelow` (the hypotheses
of the C18 theorems).
-/
namespace Sigc.StepWF
open Sigc.Model Sigc.StepConn Sigc.StepHandles Sigc.StepTrack

/-- the emission prologue (`signal_impl_holder`, `temp_slot_list`): the end marker gets the fresh id -/
theorem WF.emitPro {s : St} (h : WF s) {i : Nat} {im : Impl} (hi : aget s.impls i = some im) :
    WF (Sigc.Inv.emitPro s i im) := by
  unfold Sigc.Inv.emitPro
  have h1 : WF s.fresh.2 := h.fresh
  refine ⟨?_, h1.vars, h1.objs, h1.trks, h1.owners⟩
  exact h.impls.aset_insert hi _ { id := s.next, slot := {}, linked := false } rfl (SlotBelow.of_nil rfl)
    (Or.inr rfl)

theorem WF.dropHolder {s : St} (h : WF s) (i : Nat) : WF (Sigc.Inv.dropHolder s i) := by
  unfold Sigc.Inv.dropHolder
  split
  · exact h
  · rename_i im3 hi
    exact h.setImpl _ _ (h.impls.aset_same hi _ rfl)

theorem WF.forceDelG {s : St} (h : WF s) (g : Nat) : WF (Sigc.Inv.forceDelG s g) := by
  unfold Sigc.Inv.forceDelG
  split
  · exact h
  · rename_i hd _
    simp only
    apply WF.gcOpt
    have h1 := h.invIf hd.fl.isTrackable hd.trk
    exact h1.withG _ (h1.trks.adel g)

/-- `WF` satisfies the generic preservation schema -/
theorem WF_stable : Sigc.Inv.Stable WF where
  log _ e _ h := h.log e
  fail _ m _ h := h.fail m
  depth _ _ _ h := h.frame _ rfl rfl rfl rfl rfl rfl
  steps _ _ _ h := h.frame _ rfl rfl rfl rfl rfl rfl
  incall _ i v _ _ h hv := h.withS _ (h.vars.aset i _ (h.var (v := v) hv))
  simple _ _ _ _ _ h hs := stepSimple_WF h hs
  collect _ _ h := h.collect
  pro _ _ _ _ h hi := h.emitPro hi
  erase _ i m _ h := h.eraseCell i m
  unref _ i _ h := h.unrefExec i
  drop _ i _ h := h.dropHolder i
  gc _ i _ h := h.gcImpl i
  forceDel _ g _ h := h.forceDelG g

/-! ### the eleven interpreter functions -/

/-- all eleven functions of the mutual block preserve `WF`, for every fuel -/
theorem interp_WF (f : Nat) : Sigc.Inv.PresAll (fun (_ : Unit) => WF) f := Sigc.Inv.preserved WF_stable.toK f

theorem invokeFun_WF {f : Nat} {P : Prog} {s : St} {fn : Fun} {arg : Nat} {r : St × Outcome × Nat}
    (hw : WF s) (h : invokeFun f P s fn arg = some r) : WF r.1 := WF_stable.invokeFun hw h

theorem runBody_WF {f : Nat} {P : Prog} {s : St} {b : List Line} {r : St × Outcome}
    (hw : WF s) (h : runBody f P s b = some r) : WF r.1 := (interp_WF f).2.1 () _ _ _ _ hw h

theorem execLine_WF {f : Nat} {P : Prog} {s : St} {l : Line} {r : St × Outcome}
    (hw : WF s) (h : execLine f P s l = some r) : WF r.1 := WF_stable.execLine hw h

/-- an emission started in a well-formed state ends in one; by `emitLoop_WF`, `invokeFun_WF`, `execOp_WF` so
    is every state inside the emission -/
theorem emitImpl_WF {f : Nat} {P : Prog} {s : St} {fl : Flavour} {impl : Option Nat} {arg : Nat} {strat : Strat}
    {r : St × Outcome × Nat} (hw : WF s) (h : emitImpl f P s fl impl arg strat = some r) : WF r.1 :=
  WF_stable.emitImpl hw h

theorem emitLoop_WF {f : Nat} {P : Prog} {s : St} {i cur m arg v : Nat} {r : St × Outcome × Nat}
    (hw : WF s) (h : emitLoop f P s i cur m arg v = some r) : WF r.1 :=
  (interp_WF f).2.2.2.2.1 () _ _ _ _ _ _ _ _ hw h

theorem deref_WF {f : Nat} {P : Prog} {s : St} {i : Nat} {it : IterBuf} {arg : Nat} {r : St × Outcome × IterBuf}
    (hw : WF s) (h : deref f P s i it arg = some r) : WF r.1 :=
  (interp_WF f).2.2.2.2.2.1 () _ _ _ _ _ _ hw h

theorem accLoop_WF {f : Nat} {P : Prog} {s : St} {i : Nat} {it : IterBuf} {m arg mode k v : Nat}
    {r : St × Outcome × Nat} (hw : WF s) (h : accLoop f P s i it m arg mode k v = some r) : WF r.1 :=
  (interp_WF f).2.2.2.2.2.2.1 () _ _ _ _ _ _ _ _ _ _ hw h

theorem revLoop_WF {f : Nat} {P : Prog} {s : St} {i : Nat} {it : IterBuf} {first arg v : Nat}
    {r : St × Outcome × Nat} (hw : WF s) (h : revLoop f P s i it first arg v = some r) : WF r.1 :=
  (interp_WF f).2.2.2.2.2.2.2.1 () _ _ _ _ _ _ _ _ hw h

theorem walkLoop_WF {f : Nat} {P : Prog} {s : St} {i : Nat} {it : IterBuf} {first m arg : Nat} {cs : List Char}
    {v : Nat} {r : St × Outcome × Nat} (hw : WF s) (h : walkLoop f P s i it first m arg cs v = some r) : WF r.1 :=
  (interp_WF f).2.2.2.2.2.2.2.2.1 () _ _ _ _ _ _ _ _ _ _ hw h

theorem runStrat_WF {f : Nat} {P : Prog} {s : St} {i first m arg : Nat} {strat : Strat} {r : St × Outcome × Nat}
    (hw : WF s) (h : runStrat f P s i first m arg strat = some r) : WF r.1 :=
  (interp_WF f).2.2.2.2.2.2.2.2.2.1 () _ _ _ _ _ _ _ _ hw h

/-- **every operation, whatever user code it runs, preserves well-formedness** -/
theorem execOp_WF {f : Nat} {P : Prog} {s : St} {op : Op} {r : St × Except Unit String}
    (hw : WF s) (h : execOp f P s op = some r) : WF r.1 := WF_stable.execOp hw h

/-! ### reachable states -/

/-- from a well-formed state, running any lines ends in a well-formed state -/
theorem runTop_WF_from (f : Nat) (P : Prog) (ls : List Line) (s0 s : St) (hw : WF s0)
    (h : runTop f P s0 ls = some s) : WF s :=
  WF_stable.runTop_from f P ls s0 s hw h

/-- **every state reached by running any list of lines of any program from the initial state is
    well-formed** (in particular `ls = P.top` and every prefix of it) -/
theorem runTop_WF (f : Nat) (P : Prog) (ls : List Line) (s : St) (h : runTop f P {} ls = some s) : WF s :=
  runTop_WF_from f P ls {} s WF_init h

/-- the harness teardown keeps well-formedness -/
theorem teardown_WF (f : Nat) (P : Prog) (s s' : St) (hw : WF s) (h : teardown f P s = some s') : WF s' :=
  WF_stable.teardown f P s s' hw h

/-- the hypothesis `UniqueCells` of `C18.delG/mvG/masgG_dies_with_object` holds in every reachable state -/
theorem reachable_UniqueCells (f : Nat) (P : Prog) (ls : List Line) (s : St) (h : runTop f P {} ls = some s) :
    UniqueCells s.impls := (runTop_WF f P ls s h).uniqueCells

/-- the hypothesis `TracksBelow` of `C18.copy_is_distinct` holds in every reachable state -/
theorem reachable_TracksBelow (f : Nat) (P : Prog) (ls : List Line) (s : St) (h : runTop f P {} ls = some s) :
    TracksBelow s := (runTop_WF f P ls s h).tracksBelow

/-- … and in every state in which an operation executes inside a run started from a reachable state -/
theorem execOp_UniqueCells_TracksBelow {f : Nat} {P : Prog} {s : St} {op : Op} {r : St × Except Unit String}
    (hw : WF s) (h : execOp f P s op = some r) : UniqueCells r.1.impls ∧ TracksBelow r.1 :=
  ⟨(execOp_WF hw h).uniqueCells, (execOp_WF hw h).tracksBelow⟩

/-- a concrete run: a trackable functor connected to a trackable signal, emitted with a body that
    disconnects and copies the signal during the emission -/
def exProgWF : Prog :=
  { bodies := [(1, [⟨"delT 0", .delT 0⟩, ⟨"cpG 1 0", .cpG 1 0⟩, ⟨"emit 1 2", .emit 1 2 .sum false⟩])],
    top := [⟨"newT 0", .newT 0⟩, ⟨"newG 0 TI", .newG 0 (some .TI)⟩, ⟨"connfn 0 0 mem 1 0", .connfn 0 0 (.mem 1 0) false⟩,
            ⟨"connfn 1 0 fn 2", .connfn 1 0 (.fn 2) true⟩, ⟨"emit 0 7", .emit 0 7 .sum false⟩, ⟨"mvG 2 0", .mvG 2 0⟩] }

/-- the run terminates (so the next statement is not vacuous) -/
example : (runTop 60 exProgWF {} exProgWF.top).isSome = true := by decide +kernel

example : ∀ f s, runTop f exProgWF {} exProgWF.top = some s → UniqueCells s.impls ∧ TracksBelow s :=
  fun f s h => ⟨reachable_UniqueCells f _ _ s h, reachable_TracksBelow f _ _ s h⟩

end Sigc.StepWF
