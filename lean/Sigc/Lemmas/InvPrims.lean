import Sigc.Lemmas.InvSchema
/-!
# Primitive impl-level updates and the library cascades derived from them

`Prims J I`: `I` is preserved (in states satisfying `J`) by the four primitive updates out of which
every library cascade of `Sigc.Model` is built: an id-preserving update of the cells of one impl that
only weakens reps (`upd`), removal of cells with nulling of their connections (`filter`), removal of
an unreferenced impl (`delImpl`), invalidation of user slot variables (`invalS`).  For `J = True`
the cascades (`eraseCell`, `sweep`, `unrefExec`, `notifyParent`, `disconnectCell`, `invalidateCell`,
`invalidateTrackable`, `clearImpl`, `gcImpl`, `connBlock`) then preserve `I`.
-/
namespace Sigc.Inv
open Sigc.Model

/-- the rep of `a` is the rep of `b`, possibly disconnected or invalidated (never revived) -/
def SlotLe (a b : SlotB) : Prop :=
  a.rep = b.rep ∨ a.rep = b.disconnectRep.rep ∨ a.rep = b.invalidate.rep

theorem SlotLe.refl (a : SlotB) : SlotLe a a := Or.inl rfl

structure Prims (J I : St → Prop) : Prop where
  upd : ∀ (s : St) i (im : Impl) (g : Cell → Cell) e d, J s → I s → aget s.impls i = some im →
    (∀ c, (g c).id = c.id ∧ SlotLe (g c).slot c.slot) →
    I (setImpl s i { im with cells := im.cells.map g, exec := e, deferred := d })
  filter : ∀ (s : St) i (im : Impl) (p : Cell → Bool) d ids, J s → I s → aget s.impls i = some im →
    (∀ c ∈ im.cells, p c = false → c.id ∈ ids) →
    I (nullConnsList (setImpl s i { im with cells := im.cells.filter p, deferred := d }) ids)
  delImpl : ∀ (s : St) i (im : Impl), J s → I s → aget s.impls i = some im → im.holders = 0 →
    (s.G.any (fun p => p.2.impl = some i)) = false →
    I (nullConnsList { s with impls := adel s.impls i } (im.cells.map (·.id)))
  invalS : ∀ (s : St) t, J s → I s →
    I { s with S := amap s.S (fun v => if v.slot.tracksObj t then { v with slot := v.slot.invalidate } else v) }

abbrev PrimsA (I : St → Prop) : Prop := Prims (fun _ => True) I

theorem Prims.and {J I : St → Prop} (hJ : PrimsA J) (hI : Prims J I) : PrimsA (fun s => J s ∧ I s) where
  upd s i im g e d _ h hi hg := ⟨hJ.upd s i im g e d trivial h.1 hi hg, hI.upd s i im g e d h.1 h.2 hi hg⟩
  filter s i im p d ids _ h hi hp :=
    ⟨hJ.filter s i im p d ids trivial h.1 hi hp, hI.filter s i im p d ids h.1 h.2 hi hp⟩
  delImpl s i im _ h hi hh hg := ⟨hJ.delImpl s i im trivial h.1 hi hh hg, hI.delImpl s i im h.1 h.2 hi hh hg⟩
  invalS s t _ h := ⟨hJ.invalS s t trivial h.1, hI.invalS s t h.1 h.2⟩

section
variable {I : St → Prop} (h : PrimsA I)
include h

theorem PrimsA.setMeta {s : St} {i : Nat} {im : Impl} (e : Nat) (d : Bool) (hI : I s)
    (hi : aget s.impls i = some im) : I (setImpl s i { im with exec := e, deferred := d }) := by
  have := h.upd s i im id e d trivial hI hi (fun c => ⟨rfl, SlotLe.refl _⟩)
  simpa using this

theorem PrimsA.eraseCell {s : St} (i cid : Nat) (hI : I s) : I (Model.eraseCell s i cid) := by
  unfold Model.eraseCell
  split
  · exact hI
  · rename_i im hi
    have := h.filter s i im (fun c => decide (c.id ≠ cid)) im.deferred [cid] trivial hI hi
      (by intro c _ hc; simpa using hc)
    simpa [nullConnsList] using this

theorem PrimsA.sweep {s : St} (i : Nat) (hI : I s) : I (Model.sweep s i) := by
  unfold Model.sweep
  split
  · exact hI
  · rename_i im hi
    exact h.filter s i im (fun c => !c.slot.empty) false _ trivial hI hi
      (by intro c hc hp
          simp only [List.mem_map, List.mem_filter]
          exact ⟨c, ⟨hc, by simpa using hp⟩, rfl⟩)

theorem PrimsA.unrefExec {s : St} (i : Nat) (hI : I s) : I (Model.unrefExec s i) := by
  unfold Model.unrefExec
  split
  · exact hI
  · rename_i im hi
    have h1 : I (setImpl s i { im with exec := im.exec - 1 }) := h.setMeta (im.exec - 1) im.deferred hI hi
    simp only []
    split
    · exact h.sweep _ h1
    · exact h1

theorem PrimsA.notifyParent {s : St} (i cid : Nat) (hI : I s) : I (Model.notifyParent s i cid) := by
  unfold Model.notifyParent
  split
  · exact hI
  · rename_i im hi
    split
    · exact h.eraseCell _ _ hI
    · exact h.setMeta im.exec true hI hi

theorem PrimsA.updCell {s : St} (i cid : Nat) (f : Cell → Cell)
    (hf : ∀ c, (f c).id = c.id ∧ SlotLe (f c).slot c.slot) (hI : I s) : I (Model.updCell s i cid f) := by
  unfold Model.updCell
  split
  · exact hI
  · rename_i im hi
    exact h.upd s i im (fun c => if c.id = cid then f c else c) im.exec im.deferred trivial hI hi
      (by intro c; by_cases hc : c.id = cid
          · rw [if_pos hc]; exact hf c
          · rw [if_neg hc]; exact ⟨rfl, SlotLe.refl _⟩)

theorem PrimsA.disconnectCell {s : St} (cid : Nat) (hI : I s) : I (Model.disconnectCell s cid) := by
  unfold Model.disconnectCell
  split
  · exact hI
  · rename_i i c _
    have h1 := h.updCell (s := s) i cid (fun c => { c with slot := c.slot.disconnectRep, linked := false })
      (fun c => ⟨rfl, Or.inr (Or.inl rfl)⟩) hI
    simp only []
    split
    · exact h.notifyParent _ _ h1
    · exact h1

theorem PrimsA.invalidateCell {s : St} (cid : Nat) (hI : I s) : I (Model.invalidateCell s cid) := by
  unfold Model.invalidateCell
  split
  · exact hI
  · rename_i i c _
    have h1 := h.updCell (s := s) i cid (fun c => { c with slot := c.slot.invalidate, linked := false })
      (fun c => ⟨rfl, Or.inr (Or.inr rfl)⟩) hI
    simp only []
    split
    · exact h.notifyParent _ _ h1
    · exact h1

theorem PrimsA.foldl_disconnectCell (cids : List Nat) : ∀ {s : St}, I s → I (cids.foldl Model.disconnectCell s) := by
  induction cids with
  | nil => intro s hI; exact hI
  | cons c cs ih => intro s hI; exact ih (h.disconnectCell c hI)

theorem PrimsA.foldl_invalidateCell (cids : List Nat) : ∀ {s : St}, I s → I (cids.foldl Model.invalidateCell s) := by
  induction cids with
  | nil => intro s hI; exact hI
  | cons c cs ih => intro s hI; exact ih (h.invalidateCell c hI)

theorem PrimsA.invalidateTrackable {s : St} (t : Nat) (hI : I s) : I (Model.invalidateTrackable s t) := by
  unfold Model.invalidateTrackable
  exact h.foldl_invalidateCell _ (h.invalS s t trivial hI)

theorem PrimsA.gcImpl {s : St} (i : Nat) (hI : I s) : I (Model.gcImpl s i) := by
  unfold Model.gcImpl
  split
  · exact hI
  · rename_i im hi
    split
    · rename_i hc
      simp only [Bool.and_eq_true, decide_eq_true_eq, Bool.not_eq_true'] at hc
      exact h.delImpl s i im trivial hI hi hc.1 hc.2
    · exact hI

theorem PrimsA.clearImpl {s : St} (i : Nat) (hI : I s) : I (Model.clearImpl s i) := by
  unfold Model.clearImpl
  split
  · exact hI
  · rename_i im hi
    have h1 : I (setImpl s i { im with exec := im.exec + 1 }) := h.setMeta (im.exec + 1) im.deferred hI hi
    have h2 := h.foldl_disconnectCell (im.cells.map (·.id)) h1
    simp only []
    split
    · exact h2
    · rename_i im2 hi2
      apply h.unrefExec
      split
      · exact h2
      · have := h.filter _ i im2 (fun _ => false) im.deferred (im2.cells.map (·.id)) trivial h2 hi2
          (by intro c hc _; exact List.mem_map.2 ⟨c, hc, rfl⟩)
        have hf : im2.cells.filter (fun _ => false) = [] := List.filter_eq_nil_iff.2 (by simp)
        rw [hf] at this
        exact this

theorem PrimsA.connBlock {s : St} (p : Option Nat) (b : Bool) (hI : I s) : I (Model.connBlock s p b) := by
  unfold Model.connBlock
  split
  · exact hI
  · split
    · exact hI
    · exact h.updCell _ _ _ (fun c => ⟨rfl, Or.inl rfl⟩) hI

theorem PrimsA.blockAll {s : St} {i : Nat} {x : Impl} (b : Bool) (hI : I s) (hi : aget s.impls i = some x) :
    I (setImpl s i { x with cells := x.cells.map (fun c => { c with slot := { c.slot with blocked := b } }) }) :=
  h.upd s i x _ x.exec x.deferred trivial hI hi (fun _ => ⟨rfl, Or.inl rfl⟩)

/-- `collect` is built from `invalidateTrackable`, `disconnectCell` and `dropHandle` plus removals from the
    owned lists; `hG` is the third `collectStep` branch: the entry `(k, g)` leaves `ownedG`, then the signal
    object named `g` is destroyed -/
theorem PrimsA.collect {s : St}
    (hT : ∀ (s : St) p, I s → I { s with ownedT := s.ownedT.filter p })
    (hK : ∀ (s : St) p, I s → I { s with ownedK := s.ownedK.filter p })
    (hG : ∀ (s : St) k g, I s → (k, g) ∈ s.ownedG →
      I (dropHandle { s with ownedG := s.ownedG.filter (fun q => q.1 ≠ k) } g))
    (hI : I s) : I (Model.collect s) := by
  refine collect_preserved ?_ s hI
  intro s s' hs hc
  unfold collectStep at hc
  split at hc
  · cases hc
    exact h.invalidateTrackable _ (hT _ _ hs)
  · split at hc
    · simp only [Option.some.injEq] at hc
      subst hc
      split
      · exact h.disconnectCell _ (hK _ _ hs)
      · exact hK _ _ hs
    · split at hc
      · rename_i k g hf
        cases hc
        exact hG _ k g hs (List.mem_of_find?_eq_some hf)
      · cases hc

end

/-- `dropHandle` (third branch of `collectStep`) is the same function as the harness's `forceDelG` -/
theorem dropHandle_eq_forceDelG (s : St) (g : Nat) : dropHandle s g = forceDelG s g := rfl

/-- `delG`, when it does not refuse, is `dropHandle` -/
theorem delG_eq_dropHandle {s : St} {g : Nat} {h : Handle} (hg : aget s.G g = some h)
    (hp : (h.everFwd && !h.fl.isTrackable) = false) (ho : s.ownedG.any (fun p => p.2 = g) = false) :
    stepSimple s (.delG g) = some (dropHandle s g, "ok") := by
  simp only [stepSimple, dropHandle, hg, hp, ho]
  cases h.impl <;> simp

/-- the usual way to discharge the `ownedG` branch of `PrimsA.collect`: the predicate does not look at the
    dropped `ownedG` entries and is preserved by the destruction of a signal object -/
theorem dropG_of {I : St → Prop}
    (hG : ∀ (s : St) p, I s → I { s with ownedG := s.ownedG.filter p })
    (hD : ∀ (s : St) g, I s → I (forceDelG s g)) :
    ∀ (s : St) k g, I s → (k, g) ∈ s.ownedG →
      I (dropHandle { s with ownedG := s.ownedG.filter (fun q => q.1 ≠ k) } g) :=
  fun s _ g hs _ => hD _ g (hG s _ hs)

end Sigc.Inv
