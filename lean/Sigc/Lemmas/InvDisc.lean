import Sigc.Lemmas.InvDead
/-! `disconnectCell` is idempotent and touches exactly one cell -/
namespace Sigc.Inv
open Sigc.Model

theorem aset_aset {α : Type} (l : List (Nat × α)) (i : Nat) (a b : α) : aset (aset l i a) i b = aset l i b := by
  induction l with
  | nil => simp [aset]
  | cons p t ih =>
    obtain ⟨k, v⟩ := p
    by_cases hk : k = i
    · simp [aset, hk]
    · simp [aset, hk, ih]

theorem setImpl_setImpl (s : St) (i : Nat) (a b : Impl) : setImpl (setImpl s i a) i b = setImpl s i b := by
  simp [setImpl, aset_aset]

/-- the cell update of `slot_rep::disconnect()` -/
def discC (c : Cell) : Cell := { c with slot := c.slot.disconnectRep, linked := false }

theorem disconnectRep_idem (sl : SlotB) : sl.disconnectRep.disconnectRep = sl.disconnectRep := by
  unfold SlotB.disconnectRep
  cases h : sl.rep <;> simp [h]

theorem discC_idem (c : Cell) : discC (discC c) = discC c := by
  simp [discC, disconnectRep_idem]

def mapD (cid : Nat) (cs : List Cell) : List Cell := cs.map (fun c => if c.id = cid then discC c else c)

theorem mapD_idem (cid : Nat) (cs : List Cell) : mapD cid (mapD cid cs) = mapD cid cs := by
  simp only [mapD, List.map_map]
  apply List.map_congr_left
  intro c _
  by_cases h : c.id = cid
  · have : (discC c).id = cid := h
    simp [h, this, discC_idem]
  · simp [h]

theorem mapD_filter (cid : Nat) (cs : List Cell) :
    (mapD cid cs).filter (fun c => decide (c.id ≠ cid)) = cs.filter (fun c => decide (c.id ≠ cid)) := by
  induction cs with
  | nil => rfl
  | cons c t ih =>
    show List.filter _ ((if c.id = cid then discC c else c) :: mapD cid t) = _
    by_cases h : c.id = cid
    · have h' : (discC c).id = cid := h
      rw [if_pos h, List.filter_cons_of_neg (by simp [h']), List.filter_cons_of_neg (by simp [h])]
      exact ih
    · rw [if_neg h, List.filter_cons_of_pos (by simp [h]), List.filter_cons_of_pos (by simp [h]), ih]

theorem filter_idem {α : Type} (p : α → Bool) (l : List α) : (l.filter p).filter p = l.filter p := by
  rw [List.filter_filter]
  congr
  funext a
  exact Bool.and_self _

theorem discC_ok (cid : Nat) (c : Cell) :
    (if c.id = cid then discC c else c).id = c.id ∧ SlotLe (if c.id = cid then discC c else c).slot c.slot := by
  by_cases h : c.id = cid
  · rw [if_pos h]; exact ⟨rfl, Or.inr (Or.inl rfl)⟩
  · rw [if_neg h]; exact ⟨rfl, SlotLe.refl _⟩

theorem updCell_discC {s : St} {i cid : Nat} {im : Impl} (hi : aget s.impls i = some im) :
    updCell s i cid (fun c => { c with slot := c.slot.disconnectRep, linked := false }) =
      setImpl s i { im with cells := mapD cid im.cells } := by
  simp only [updCell, hi, mapD, discC]

theorem mem_mapD {cid : Nat} {cs : List Cell} {c : Cell} (hc : c ∈ cs) (he : c.id = cid) : discC c ∈ mapD cid cs := by
  simp only [mapD, List.mem_map]
  exact ⟨c, hc, by simp [he]⟩

/-- no cell with this id anywhere -/
theorem getCell_none_of {s : St} (hw : WF s) {cid : Nat}
    (h : ∀ i im c, aget s.impls i = some im → c ∈ im.cells → c.id ≠ cid) : getCell s cid = none := by
  cases hg : getCell s cid with
  | none => rfl
  | some x =>
    have : getCell s cid ≠ none := by rw [hg]; simp
    obtain ⟨i, im, hi, c, hc, he⟩ := (getCell_ne_none_iff hw.keys cid).1 this
    exact absurd he (h i im c hi hc)

/-- `slot_rep::disconnect()` is idempotent (as a function on whole states) -/
theorem disconnectCell_idem {s : St} (hw : WF s) (cid : Nat) :
    disconnectCell (disconnectCell s cid) cid = disconnectCell s cid := by
  cases hg : getCell s cid with
  | none =>
    have : disconnectCell s cid = s := by simp [disconnectCell, hg]
    rw [this, this]
  | some x =>
    obtain ⟨i, c⟩ := x
    obtain ⟨im, hi, _, hc, he⟩ := getCell_some hg
    -- first application
    have h1 : disconnectCell s cid =
        (if c.linked then notifyParent (setImpl s i { im with cells := mapD cid im.cells }) i cid
         else setImpl s i { im with cells := mapD cid im.cells }) := by
      simp only [disconnectCell, hg, updCell_discC hi]
    -- a state of the form `setImpl s i {cells := mapD .., deferred := d}` is a fixpoint
    have hfix : ∀ d, disconnectCell (setImpl s i { im with cells := mapD cid im.cells, deferred := d }) cid
        = setImpl s i { im with cells := mapD cid im.cells, deferred := d } := by
      intro d
      have hw' : WF (setImpl s i { im with cells := mapD cid im.cells, deferred := d }) :=
        WF.prims.upd s i im (fun c => if c.id = cid then discC c else c) im.exec d trivial hw hi
          (discC_ok cid)
      have hi' : aget (setImpl s i { im with cells := mapD cid im.cells, deferred := d }).impls i
          = some { im with cells := mapD cid im.cells, deferred := d } := by simp [setImpl]
      have hg' := getCell_of_mem hw' hi' (mem_mapD hc he)
      have hid : (discC c).id = cid := he
      rw [hid] at hg'
      simp only [disconnectCell, hg', updCell_discC hi', setImpl_setImpl, mapD_idem]
      simp [discC]
    by_cases hl : c.linked = true
    · simp only [hl, if_true] at h1
      rw [h1]
      simp only [notifyParent, setImpl_impls, aget_aset_same]
      by_cases hx : im.exec = 0
      · rw [if_pos hx]
        -- erased: the id is gone
        have hw1 : WF (setImpl s i { im with cells := mapD cid im.cells }) :=
          WF.prims.upd s i im (fun c => if c.id = cid then discC c else c) im.exec im.deferred trivial hw hi
            (discC_ok cid)
        have hw2 : WF (eraseCell (setImpl s i { im with cells := mapD cid im.cells }) i cid) :=
          WF.prims.eraseCell i cid hw1
        have hnone : getCell (eraseCell (setImpl s i { im with cells := mapD cid im.cells }) i cid) cid = none := by
          apply getCell_none_of hw2
          intro j jm d hj hd
          simp only [eraseCell, setImpl_impls, aget_aset_same, nullConns_impls, aset_aset] at hj
          rw [aget_aset] at hj
          split at hj
          · cases hj
            simp only [List.mem_filter, decide_eq_true_eq] at hd
            exact hd.2
          · rename_i hne
            intro hde
            exact hne (hw.cellU j i jm im d c hj hi hd hc (hde.trans he.symm))
        unfold disconnectCell
        rw [hnone]
      · rw [if_neg hx, setImpl_setImpl]
        exact hfix true
    · have hl' : c.linked = false := by simpa using hl
      simp only [hl', Bool.false_eq_true, if_false] at h1
      rw [h1]
      exact hfix im.deferred

/-- `disconnect()` of cell `cid` leaves every other cell of every impl exactly as it was, creates and
    removes no impl -/
theorem disconnectCell_others (s : St) (cid : Nat) (j : Nat) :
    (aget (disconnectCell s cid).impls j).map (fun im => im.cells.filter (fun c => decide (c.id ≠ cid))) =
    (aget s.impls j).map (fun im => im.cells.filter (fun c => decide (c.id ≠ cid))) := by
  cases hg : getCell s cid with
  | none => simp [disconnectCell, hg]
  | some x =>
    obtain ⟨i, c⟩ := x
    obtain ⟨im, hi, _, hc, he⟩ := getCell_some hg
    simp only [disconnectCell, hg, updCell_discC hi]
    have key : ∀ (cs : List Cell) (e : Nat) (d : Bool) (h : Nat),
        cs.filter (fun c => decide (c.id ≠ cid)) = im.cells.filter (fun c => decide (c.id ≠ cid)) →
        (aget (aset s.impls i { cells := cs, exec := e, deferred := d, holders := h }) j).map
          (fun im => im.cells.filter (fun c => decide (c.id ≠ cid))) =
        (aget s.impls j).map (fun im => im.cells.filter (fun c => decide (c.id ≠ cid))) := by
      intro cs e d h hcs
      rw [aget_aset]
      split
      · rename_i hji; subst hji; rw [hi]
        exact congrArg some hcs
      · rfl
    split
    · simp only [notifyParent, setImpl_impls, aget_aset_same]
      split
      · simp only [eraseCell, setImpl_impls, aget_aset_same, nullConns_impls, aset_aset]
        apply key
        rw [filter_idem, mapD_filter]
      · simp only [setImpl_impls, aset_aset]
        exact key _ _ _ _ (mapD_filter cid im.cells)
    · exact key _ _ _ _ (mapD_filter cid im.cells)

theorem discC_empty (c : Cell) : (discC c).slot.empty = true := by
  simp only [discC, SlotB.empty, SlotB.disconnectRep]
  cases h : c.slot.rep <;> simp [h]

/-- after `disconnect()` no cell with that id is valid -/
theorem disconnectCell_dead {s : St} (hw : WF s) {cid i : Nat} {c : Cell} (hg : getCell s cid = some (i, c)) :
    Dead cid (disconnectCell s cid) := by
  obtain ⟨im, hi, _, hc, he⟩ := getCell_some hg
  have hlt : cid < s.next := he ▸ hw.idLt i im c hi hc
  have h1 : Dead cid (setImpl s i { im with cells := mapD cid im.cells }) := by
    refine ⟨hlt, ?_⟩
    intro j jm d hj hd hde
    simp only [setImpl_impls] at hj
    rw [aget_aset] at hj
    split at hj
    · cases hj
      simp only [mapD, List.mem_map] at hd
      obtain ⟨d0, _, rfl⟩ := hd
      by_cases hd0 : d0.id = cid
      · rw [if_pos hd0]; exact discC_empty d0
      · rw [if_neg hd0] at hde; exact absurd hde hd0
    · rename_i hne
      exact absurd (hw.cellU j i jm im d c hj hi hd hc (hde.trans he.symm)) hne
  simp only [disconnectCell, hg, updCell_discC hi]
  split
  · exact (Dead.prims cid).notifyParent i cid h1
  · exact h1

theorem disconnectCell_not_connected {s : St} (hw : WF s) (cid : Nat) :
    connConnected (disconnectCell s cid) (some cid) = false := by
  cases hg : getCell s cid with
  | none =>
    have : disconnectCell s cid = s := by simp [disconnectCell, hg]
    rw [this]
    simp [connConnected, hg]
  | some x =>
    obtain ⟨i, c⟩ := x
    have hd := disconnectCell_dead hw hg
    exact (dead_iff_not_connected (WF.prims.disconnectCell cid hw) hd.1).1 hd

/-- `disconnect()` of cell `cid` changes the connections only by nulling the pointers to `cid` -/
theorem disconnectCell_C (s : St) (cid : Nat) :
    (disconnectCell s cid).C = s.C ∨ (disconnectCell s cid).C = amap s.C (nullF cid) := by
  cases hg : getCell s cid with
  | none => simp [disconnectCell, hg]
  | some x =>
    obtain ⟨i, c⟩ := x
    obtain ⟨im, hi, _, _, _⟩ := getCell_some hg
    simp only [disconnectCell, hg, updCell_discC hi]
    split
    · simp only [notifyParent, setImpl_impls, aget_aset_same]
      split
      · right
        simp only [eraseCell, setImpl_impls, aget_aset_same]
        rfl
      · left; rfl
    · left; rfl

theorem aget_amap_nullF {l : List (Nat × Option Nat)} {k cid : Nat} {p : Option Nat}
    (h : aget l k = some p) : aget (amap l (nullF cid)) k = some (if p = some cid then none else p) := by
  rw [aget_amap, h]; rfl

/-- what "no pointer dangles" means for a state -/
def NoDangling (s : St) : Prop :=
  (∀ k cid, aget s.C k = some (some cid) → getCell s cid ≠ none) ∧
  (∀ k cid, aget s.K k = some (some cid) → getCell s cid ≠ none) ∧
  (∀ k cid, (k, some cid) ∈ s.ownedK → getCell s cid ≠ none)

theorem noDangling_of_links {s : St} (h : Links s) : NoDangling s := by
  obtain ⟨⟨hw, _⟩, hc, hk, ho⟩ := h
  refine ⟨?_, ?_, ?_⟩
  · intro k cid hk'
    exact getCell_ne_none_of_cellIn hw (hc.get hk' cid rfl)
  · intro k cid hk'
    exact getCell_ne_none_of_cellIn hw (hk.get hk' cid rfl)
  · intro k cid hm
    exact getCell_ne_none_of_cellIn hw (ho (k, some cid) hm cid rfl)

end Sigc.Inv
