import Sigc.Lemmas.RefineRemove
import Sigc.Lemmas.RefineStepA
/-!
# Refine work package — primitives, part A: `disconnectCell` vs `removeCell`,
`invalidateTrackable` on both sides.
-/
namespace Sigc.Refine
open Sigc.Model

theorem LSt_sigs_self (t : Spec.LSt) : ({ t with sigs := t.sigs } : Spec.LSt) = t := by cases t; rfl

theorem contains_single (cid x : Nat) : [cid].contains x = decide (x = cid) := by
  by_cases e : x = cid <;> simp [e]

/-- two cells of a state with the same id are the same cell -/
theorem cell_unique {off : Nat → Nat} {s : St} (hs : Emit.InvX off s) {p p' : Nat × Impl} (hp : p ∈ s.impls)
    (hp' : p' ∈ s.impls) {c c' : Cell} (hc : c ∈ p.2.cells) (hc' : c' ∈ p'.2.cells) (e : c.id = c'.id) : c = c' := by
  obtain ⟨i, im⟩ := p
  obtain ⟨i', im'⟩ := p'
  have ha := Emit.aget_of_mem_nodup hs.keys hp
  have ha' := Emit.aget_of_mem_nodup hs.keys hp'
  simp only at hc hc' ⊢
  by_cases hne : i = i'
  · subst hne
    rw [ha'] at ha
    cases ha
    have hn := (hs.ok i im ha').nodup
    obtain ⟨c0, hf⟩ := Emit.find_of_mem_ids (List.mem_map.mpr ⟨c, hc, rfl⟩)
    have h1 := Emit.find_unique hn hf hc rfl
    have h2 := Emit.find_unique hn hf hc' e.symm
    rw [h1, h2]
  · exact absurd (List.mem_map.mpr ⟨c', hc', e.symm⟩) (hs.disj i i' im im' ha ha' hne c.id (List.mem_map.mpr ⟨c, hc, rfl⟩))

/-- `removeCell` as a map over all lists -/
theorem removeCell_eq {s : St} {t : Spec.LSt} (hs : Emit.Inv s) (hR : R s t) (cid : Nat) :
    Spec.removeCell t cid
      = { t with sigs := amap t.sigs (fun g => g.remove true true false (fun c => [cid].contains c.id)) } := by
  have hquiet : ∀ p ∈ t.sigs, p.2.active = 0 → ∀ c ∈ p.2.cells, c.zombie = false ∧ c.marker = false := by
    intro p hp
    obtain ⟨im, hi, hr⟩ := hR.impl_of_sig (hR.mem_sig hs hp)
    exact hr.quiet (hs.ok _ im hi)
  rcases lookup hs hR cid with ⟨_, hf, hno⟩ | ⟨i, c, im, g, d, _, hi, hgi, hr, hcm, hcid, hd, hcd, hother, hlive, hdead⟩
  · have : amap t.sigs (fun g => g.remove true true false (fun c => [cid].contains c.id)) = t.sigs := by
      apply amap_id'
      intro p hp
      apply remove_noop _ _ _ (hquiet p hp)
      intro c hc _ _
      simp only [contains_single, decide_eq_false_iff_not]
      intro e; exact hno ⟨p, hp, c, hc, e⟩
    rw [this]
    show Spec.removeCell t cid = t
    simp [Spec.removeCell, hf]
  · have hoth : ∀ p ∈ t.sigs, p.1 ≠ i →
        p.2.remove true true false (fun c => [cid].contains c.id) = p.2 := by
      intro p hp hne
      apply remove_noop _ _ _ (hquiet p hp)
      intro c' hc' _ _
      simp only [contains_single, decide_eq_false_iff_not]
      intro e
      have := (hother p hp c' hc' e).1
      rw [this] at hne; exact hne rfl
    have hset := amap_eq_aset (f := fun g => g.remove true true false (fun c => [cid].contains c.id)) (hR.keys_nodup hs) hgi hoth
    cases hz : d.zombie with
    | false =>
      obtain ⟨hfs, _⟩ := hlive hz
      rw [hset]
      simp only [Spec.removeCell, hfs, hgi, hR.k1, hR.k2, Spec.setSig]
      have hfe : (fun (x : Spec.LCell) => decide (x.id = cid)) = (fun c => [cid].contains c.id) := by
        funext c'; simp only [contains_single]
      rw [hfe]
    | true =>
      have hfs := hdead hz
      have hg : g.remove true true false (fun c => [cid].contains c.id) = g := by
        apply remove_noop _ _ _ (hquiet (i, g) (Emit.aget_some_mem hgi))
        intro c' hc' hz' _
        simp only [contains_single, decide_eq_false_iff_not]
        intro e
        have := (hother (i, g) (Emit.aget_some_mem hgi) c' hc' e).2
        rw [this, hz] at hz'; contradiction
      have : amap t.sigs (fun g => g.remove true true false (fun c => [cid].contains c.id)) = t.sigs := by
        apply amap_id'
        intro p hp
        by_cases e : p.1 = i
        · have := hR.mem_sig hs hp
          rw [e, hgi] at this; cases this; exact hg
        · exact hoth p hp e
      rw [this]
      show Spec.removeCell t cid = t
      simp [Spec.removeCell, hfs]

/-- `slot_rep::disconnect()` of a cell vs the entry leaving its list -/
theorem R_disconnect {s : St} {t : Spec.LSt} (hs : Emit.Inv s) (hR : R s t) (cid : Nat) :
    R (disconnectCell s cid) (Spec.removeCell t cid) := by
  rw [removeCell_eq hs hR]
  have := touch_sim (hf := SlotB.disconnectRep) (dr := false) (fun _ => by simp) Emit.weakens_disconnectRep
    disconnectRep_idem (fun _ h => disconnectRep_none h) hs hR [cid]
    (fun _ _ c _ _ _ => sameHold_disconnectRep c.slot)
  simpa [Emit.disconnectCell_eq] using this

/-- `connection::disconnect()` through related pointers -/
theorem R_optDisconnect {s : St} {t : Spec.LSt} (hs : Emit.Inv s) (hR : R s t) {pm ps : Option Nat}
    (hp : PtrR t.sigs t.next pm ps) :
    R (match pm with | some cid => disconnectCell s cid | none => s)
      (match ps with | some cid => Spec.removeCell t cid | none => t) := by
  rcases hp with e | ⟨e, cid, e2, hgone⟩
  · subst e
    cases pm with
    | none => exact hR
    | some cid => exact R_disconnect hs hR cid
  · subst e; subst e2
    simp only
    have : Spec.removeCell t cid = t := by
      have hf : Spec.findSig t.sigs cid = none := by
        cases hf : Spec.findSig t.sigs cid with
        | none => rfl
        | some i =>
          obtain ⟨g, hg, c, hc, e, _⟩ := findSig_some hf
          exact absurd e (hgone.2 (i, g) hg c hc)
      simp [Spec.removeCell, hf]
    rw [this]; exact hR

/-- the invariant survives the invalidation of the slot variables -/
theorem inv_mapS {off : Nat → Nat} {s : St} (h : Emit.InvX off s) (o : Nat) :
    Emit.InvX off { s with S := amap s.S (fun v => if v.slot.tracksObj o then { v with slot := v.slot.invalidate } else v) } := by
  refine ⟨h.keys, h.lt, h.ok, h.disj, h.himpl, ?_, h.fwdC, h.noerr, h.own⟩
  intro j w hw
  simp only [aget_amap] at hw
  cases hj : aget s.S j with
  | none => rw [hj] at hw; simp at hw
  | some v =>
    rw [hj] at hw; simp at hw; subst hw
    split
    · exact (h.fwdS j v hj).invalidate
    · exact h.fwdS j v hj

/-- `trackable::notify_callbacks()` on both sides -/
theorem R_invalidateTrackable {s : St} {t : Spec.LSt} (hs : Emit.Inv s) (hR : R s t) (o : Nat) :
    R (Model.invalidateTrackable s o) (Spec.invalidateTrackable t o) := by
  cases t with
  | mk tT tS tG tC tK tsigs tOT tOK tOG tn td tst ttr terr k1 k2 =>
  have hk1 : k1 = true := hR.k1
  have hk2 : k2 = true := hR.k2
  have hS : tS = s.S := hR.S
  subst hk1; subst hk2; subst hS
  unfold Model.invalidateTrackable Spec.invalidateTrackable
  simp only
  generalize hf : (fun (v : SlotVar) => if v.slot.tracksObj o then { v with slot := v.slot.invalidate } else v) = f
  have hs0 : Emit.Inv { s with S := amap s.S f } := by subst hf; exact inv_mapS hs o
  have hR0 := hR.updS (amap s.S f)
  generalize hW : (List.foldr (fun (p : Nat × Impl) acc =>
      ((p.2.cells.filter (fun c => c.slot.tracksObj o)).map (·.id)) ++ acc) [] s.impls) = W
  have hmemW : ∀ k, k ∈ W ↔ ∃ p ∈ s.impls, ∃ c ∈ p.2.cells, c.slot.tracksObj o = true ∧ c.id = k := by
    intro k; rw [← hW]; exact Emit.mem_victims s.impls o k
  have hfun : invalidateCell = Emit.touchCell SlotB.invalidate := by funext a b; rfl
  rw [hfun]
  have hsim := touch_sim (hf := SlotB.invalidate) (dr := true) (fun _ => by simp) Emit.weakens_invalidate
    invalidate_idem (fun _ h => invalidate_none h) hs0 hR0 W (by
      intro p hp c hc hin _
      obtain ⟨p', hp', c', hc', htr, e⟩ := (hmemW c.id).mp hin
      have := cell_unique hs hp' hp hc' hc e
      subst this
      exact sameHold_invalidate_of_tracks htr)
  have heq : amap tsigs (fun g => g.remove true true true (fun c => W.contains c.id))
      = amap tsigs (fun g => g.remove true true true (fun c => c.slot.tracksObj o)) := by
    apply amap_congr
    intro p hp
    obtain ⟨im, hi, hr⟩ := hR.impl_of_sig (hR.mem_sig hs hp)
    apply remove_congr _ _ _ (hr.quiet (hs.ok _ im hi))
    intro d hd hz _
    obtain ⟨c, hc, hcd⟩ := hr.cells.mem_right hd
    rw [hcd.slot hz, hcd.id]
    cases htr : c.slot.tracksObj o with
    | true =>
      simp only [List.contains_eq_mem, decide_eq_true_eq]
      exact (hmemW c.id).mpr ⟨(p.1, im), Emit.aget_some_mem hi, c, hc, htr, rfl⟩
    | false =>
      simp only [List.contains_eq_mem, decide_eq_false_iff_not]
      intro hin
      obtain ⟨p', hp', c', hc', htr', e⟩ := (hmemW c.id).mp hin
      have := cell_unique hs hp' (Emit.aget_some_mem hi) hc' hc e
      subst this
      rw [htr] at htr'; contradiction
  rw [← heq]
  exact hsim

end Sigc.Refine
