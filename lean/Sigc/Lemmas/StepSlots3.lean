import Sigc.Model
import Sigc.Lemmas.Basic
import Sigc.Lemmas.StepSlots
import Sigc.Lemmas.StepSlots2
/-!
cell lookup (`findCellImpl`, `getCell`) under an id-preserving rewrite of one impl's cells, and what
`connBlock` / `blockG` compute (for C12).
-/
namespace Sigc.StepSlots
open Sigc.Model

theorem any_id_congr (cs cs' : List Cell) (cid : Nat) (h : cs'.map (·.id) = cs.map (·.id)) :
    cs'.any (·.id = cid) = cs.any (·.id = cid) := by
  have e : ∀ l : List Cell, l.any (·.id = cid) = (l.map (·.id)).any (· = cid) := by
    intro l; simp [List.any_map, Function.comp_def]
  rw [e cs', e cs, h]

theorem findCellImpl_aset (impls : List (Nat × Impl)) (i : Nat) (im im' : Impl) (cid : Nat)
    (him : aget impls i = some im) (hid : im'.cells.map (·.id) = im.cells.map (·.id)) :
    findCellImpl (aset impls i im') cid = findCellImpl impls cid := by
  induction impls with
  | nil => simp [aget] at him
  | cons p t ih =>
    obtain ⟨k, w⟩ := p
    by_cases hk : k = i
    · subst hk
      simp [aget] at him
      subst him
      simp only [aset, if_true, findCellImpl, any_id_congr _ _ cid hid]
    · simp [aget, hk] at him
      simp only [aset, hk, if_false, findCellImpl, ih him]

theorem find_map_id (cs : List Cell) (f : Cell → Cell) (cid : Nat) (hf : ∀ c, (f c).id = c.id) :
    (cs.map f).find? (·.id = cid) = (cs.find? (·.id = cid)).map f := by
  induction cs with
  | nil => rfl
  | cons c t ih =>
    by_cases hc : c.id = cid
    · simp [List.find?, hf, hc]
    · simp [List.find?, hf, hc, ih]

/-- the impl `getCell` answers exists and holds the cell -/
theorem getCell_some (s : St) (cid i : Nat) (c : Cell) (h : getCell s cid = some (i, c)) :
    findCellImpl s.impls cid = some i ∧ ∃ im, aget s.impls i = some im ∧ im.cells.find? (·.id = cid) = some c := by
  unfold getCell at h
  split at h
  · cases h
  · rename_i k hk
    split at h
    · cases h
    · rename_i im him
      cases hf : im.cells.find? (·.id = cid) with
      | none => simp [hf] at h
      | some c' =>
        simp [hf] at h
        obtain ⟨rfl, rfl⟩ := h
        exact ⟨hk, im, him, hf⟩

theorem getCell_id (s : St) (cid i : Nat) (c : Cell) (h : getCell s cid = some (i, c)) : c.id = cid := by
  obtain ⟨_, im, _, hf⟩ := getCell_some s cid i c h
  have := List.find?_some hf
  simpa using this

/-- rewriting the cells of impl `i` by an id-preserving function `f`: every cell lookup gives the old
    answer, with `f` applied if the cell lives in impl `i` -/
theorem getCell_mapCells (s : St) (i : Nat) (im : Impl) (f : Cell → Cell) (hf : ∀ c, (f c).id = c.id)
    (him : aget s.impls i = some im) (cid : Nat) :
    getCell (setImpl s i { im with cells := im.cells.map f }) cid
      = (getCell s cid).map (fun p => if p.1 = i then (p.1, f p.2) else p) := by
  have hid : ({ im with cells := im.cells.map f } : Impl).cells.map (·.id) = im.cells.map (·.id) := by
    simp [List.map_map, Function.comp_def, hf]
  unfold getCell
  simp only [setImpl, findCellImpl_aset s.impls i im _ cid him hid]
  cases hk : findCellImpl s.impls cid with
  | none => rfl
  | some k =>
    by_cases hki : k = i
    · subst hki
      simp only [aget_aset_same, him, find_map_id _ f cid hf]
      cases im.cells.find? (·.id = cid) <;> simp
    · simp only [aget_aset_other _ _ _ _ hki]
      cases aget s.impls k with
      | none => rfl
      | some w => simp [Function.comp_def, hki]

/-- `slot_base::block(b)` on the cell with id `cid` -/
def blockCellF (cid : Nat) (b : Bool) (c : Cell) : Cell :=
  if c.id = cid then { c with slot := { c.slot with blocked := b } } else c

/-- the list with cell `cid`'s flag set to `b` -/
def setBlocked (cid : Nat) (b : Bool) (cs : List Cell) : List Cell := cs.map (blockCellF cid b)

/-- `signal_impl::block(b)`: every cell's flag set to `b` -/
def blockAll (b : Bool) (cs : List Cell) : List Cell := cs.map (fun c => { c with slot := { c.slot with blocked := b } })

theorem blockCellF_id (cid : Nat) (b : Bool) (c : Cell) : (blockCellF cid b c).id = c.id := by
  unfold blockCellF; split <;> rfl

theorem blockCellF_other (cid : Nat) (b : Bool) (c : Cell) (h : c.id ≠ cid) : blockCellF cid b c = c := by
  simp [blockCellF, h]

theorem blockCellF_empty (cid : Nat) (b : Bool) (c : Cell) : (blockCellF cid b c).slot.empty = c.slot.empty := by
  unfold blockCellF; split <;> rfl

theorem connBlock_eq (s : St) (cid i : Nat) (c : Cell) (b : Bool) (im : Impl)
    (hc : getCell s cid = some (i, c)) (him : aget s.impls i = some im) :
    connBlock s (some cid) b = setImpl s i { im with cells := setBlocked cid b im.cells } := by
  simp only [connBlock, hc, updCell, him]
  rfl

theorem connBlock_none (s : St) (p : Option Nat) (b : Bool)
    (h : p = none ∨ ∃ cid, p = some cid ∧ getCell s cid = none) : connBlock s p b = s ∧ connBlocked s p = false := by
  rcases h with rfl | ⟨cid, rfl, hc⟩
  · exact ⟨rfl, rfl⟩
  · simp [connBlock, connBlocked, hc]

/-- complete description of `connection::block(b)` on a connection pointing at the live cell `cid` -/
theorem connBlock_spec (s : St) (cid i : Nat) (c : Cell) (b : Bool) (hc : getCell s cid = some (i, c)) :
    connBlocked s (some cid) = c.slot.blocked ∧
    ∃ im, aget s.impls i = some im ∧ im.cells.find? (·.id = cid) = some c ∧
      connBlock s (some cid) b = setImpl s i { im with cells := setBlocked cid b im.cells } ∧
      getCell (connBlock s (some cid) b) cid = some (i, { c with slot := { c.slot with blocked := b } }) ∧
      (∀ cid', cid' ≠ cid → getCell (connBlock s (some cid) b) cid' = getCell s cid') ∧
      (∀ p, connConnected (connBlock s (some cid) b) p = connConnected s p) := by
  obtain ⟨_, im, him, hf⟩ := getCell_some s cid i c hc
  have hcid := getCell_id s cid i c hc
  have heq := connBlock_eq s cid i c b im hc him
  have hg := getCell_mapCells s i im (blockCellF cid b) (blockCellF_id cid b) him
  refine ⟨by simp [connBlocked, hc], im, him, hf, heq, ?_, ?_, ?_⟩
  · rw [heq]
    show getCell (setImpl s i { im with cells := im.cells.map (blockCellF cid b) }) cid = _
    rw [hg cid, hc]
    simp [blockCellF, hcid]
  · intro cid' hne
    rw [heq]
    show getCell (setImpl s i { im with cells := im.cells.map (blockCellF cid b) }) cid' = _
    rw [hg cid']
    cases hc' : getCell s cid' with
    | none => rfl
    | some p =>
      obtain ⟨k, c'⟩ := p
      have hid' := getCell_id s cid' k c' hc'
      have : c'.id ≠ cid := by rw [hid']; exact hne
      by_cases hk : k = i <;> simp [hk, blockCellF_other cid b c' this]
  · intro p
    rw [heq]
    cases p with
    | none => rfl
    | some cid' =>
      show connConnected (setImpl s i { im with cells := im.cells.map (blockCellF cid b) }) (some cid') = _
      simp only [connConnected, hg cid']
      cases hc' : getCell s cid' with
      | none => rfl
      | some p =>
        obtain ⟨k, c'⟩ := p
        by_cases hk : k = i <;> simp [hk, blockCellF_empty]

theorem setBlocked_shape (cid : Nat) (b : Bool) (cs : List Cell) :
    (setBlocked cid b cs).length = cs.length ∧
    (setBlocked cid b cs).map (·.id) = cs.map (·.id) ∧
    (setBlocked cid b cs).map (·.slot.rep) = cs.map (·.slot.rep) ∧
    (setBlocked cid b cs).map (·.linked) = cs.map (·.linked) ∧
    (setBlocked cid b cs).map (·.slot.blocked) = cs.map (fun c => if c.id = cid then b else c.slot.blocked) := by
  refine ⟨by simp [setBlocked], ?_, ?_, ?_, ?_⟩ <;>
  · simp only [setBlocked, List.map_map]
    apply List.map_congr_left
    intro c _
    simp only [Function.comp, blockCellF]
    split <;> simp_all

theorem blockAll_shape (b : Bool) (cs : List Cell) :
    (blockAll b cs).length = cs.length ∧
    (blockAll b cs).map (·.id) = cs.map (·.id) ∧
    (blockAll b cs).map (·.slot.rep) = cs.map (·.slot.rep) ∧
    (blockAll b cs).map (·.linked) = cs.map (·.linked) ∧
    (∀ c ∈ blockAll b cs, c.slot.blocked = b) := by
  refine ⟨by simp [blockAll], by simp [blockAll, List.map_map, Function.comp_def],
          by simp [blockAll, List.map_map, Function.comp_def], by simp [blockAll, List.map_map, Function.comp_def], ?_⟩
  intro c hc
  simp [blockAll] at hc
  obtain ⟨c0, _, rfl⟩ := hc
  rfl

/-! ## `blockG`, `sizeq`, connection queries -/

theorem blockG_eq (s : St) (g im : Nat) (b : Bool) (h0 : Handle) (x : Impl)
    (hg : aget s.G g = some h0) (hi : h0.impl = some im) (hx : aget s.impls im = some x) :
    stepSimple s (.blockG g b) = some (setImpl s im { x with cells := blockAll b x.cells }, "ok") := by
  simp only [stepSimple, hg, hi, hx]
  rfl

/-- `signal.block()` never touches a handle, slot variable, connection or trackable (all branches) -/
theorem blockG_frame (s s' : St) (r : String) (g : Nat) (b : Bool) (h : stepSimple s (.blockG g b) = some (s', r)) :
    s'.G = s.G ∧ s'.S = s.S ∧ s'.C = s.C ∧ s'.K = s.K ∧ s'.T = s.T ∧ s'.next = s.next := by
  simp only [stepSimple] at h
  repeat' split at h
  all_goals (simp only [Option.some.injEq, Prod.mk.injEq] at h; obtain ⟨rfl, _⟩ := h)
  all_goals exact ⟨rfl, rfl, rfl, rfl, rfl, rfl⟩

theorem getCell_congr (s s' : St) (h : s'.impls = s.impls) (cid : Nat) : getCell s' cid = getCell s cid := by
  simp only [getCell, h]

theorem connConnected_congr (s s' : St) (h : s'.impls = s.impls) (p : Option Nat) :
    connConnected s' p = connConnected s p := by
  cases p with
  | none => rfl
  | some cid => simp only [connConnected, getCell_congr s s' h]

theorem connBlocked_congr (s s' : St) (h : s'.impls = s.impls) (p : Option Nat) :
    connBlocked s' p = connBlocked s p := by
  cases p with
  | none => rfl
  | some cid => simp only [connBlocked, getCell_congr s s' h]

/-- an id- and `empty()`-preserving rewrite of one impl's cells changes no `connected()` answer -/
theorem connConnected_mapCells (s : St) (i : Nat) (im : Impl) (f : Cell → Cell) (hf : ∀ c, (f c).id = c.id)
    (he : ∀ c, (f c).slot.empty = c.slot.empty) (him : aget s.impls i = some im) (p : Option Nat) :
    connConnected (setImpl s i { im with cells := im.cells.map f }) p = connConnected s p := by
  cases p with
  | none => rfl
  | some cid =>
    simp only [connConnected, getCell_mapCells s i im f hf him cid]
    cases hc' : getCell s cid with
    | none => rfl
    | some p =>
      obtain ⟨k, c'⟩ := p
      by_cases hk : k = i <;> simp [hk, he]

/-- a length-preserving rewrite of one impl's cells changes no `size()` answer -/
theorem sizeq_mapCells (s : St) (i : Nat) (im : Impl) (f : Cell → Cell) (him : aget s.impls i = some im)
    (g : Nat) (r0 : String) (h : stepSimple s (.sizeq g) = some (s, r0)) :
    stepSimple (setImpl s i { im with cells := im.cells.map f }) (.sizeq g)
      = some (setImpl s i { im with cells := im.cells.map f }, r0) := by
  have hlen : ∀ k, (aget (aset s.impls i { im with cells := im.cells.map f }) k).map (·.cells.length)
                 = (aget s.impls k).map (·.cells.length) := by
    intro k
    by_cases hk : k = i
    · subst hk; simp [him]
    · rw [aget_aset_other _ _ _ _ hk]
  simp only [stepSimple, setImpl] at h ⊢
  cases hg : aget s.G g with
  | none => simp only [hg] at h ⊢; simpa using h
  | some h0 =>
    simp only [hg] at h ⊢
    cases hi : h0.impl with
    | none => simp only [hi] at h ⊢; simpa using h
    | some k =>
      simp only [hi] at h ⊢
      rw [hlen k]
      simpa using h

theorem sizeq_congr (s s' : St) (hG : s'.G = s.G) (hI : s'.impls = s.impls)
    (g : Nat) (r0 : String) (h : stepSimple s (.sizeq g) = some (s, r0)) :
    stepSimple s' (.sizeq g) = some (s', r0) := by
  simp only [stepSimple, hG, hI] at h ⊢
  repeat' split at h
  all_goals (simp only [Option.some.injEq, Prod.mk.injEq] at h; obtain ⟨_, rfl⟩ := h)
  all_goals simp_all

theorem ensureImpl_handle (s s1 : St) (g im : Nat) (he : ensureImpl s g = some (s1, im)) :
    ∃ h', aget s1.G g = some h' ∧ h'.impl = some im := by
  obtain ⟨_, _, _, _, h | h⟩ := ensureImpl_spec s s1 g im he
  · obtain ⟨rfl, h0, hg, hi⟩ := h
    exact ⟨h0, hg, hi⟩
  · obtain ⟨h0, _, _, _, _, _, _, hg, _⟩ := h
    exact ⟨_, hg, rfl⟩

theorem all_insAt (first : Bool) (c : Cell) (cs : List Cell) (p : Cell → Bool) :
    (insAt first c cs).all p = (p c && cs.all p) := by
  cases first <;> simp [insAt, Bool.and_comm]

theorem all_blockAll (b : Bool) (cs : List Cell) :
    (blockAll b cs).all (fun c => c.slot.blocked) = (cs.isEmpty || b) := by
  cases cs with
  | nil => rfl
  | cons c t => cases b <;> simp [blockAll]

end Sigc.StepSlots
