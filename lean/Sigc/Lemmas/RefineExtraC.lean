import Sigc.Lemmas.RefineExtraB
/-!
# Refine work package — `Keeps`, part C: the mutual block (`invokeFun` … `execOp`) and `runTop`,
by induction on fuel (shape of `Emit.all_ok`)
-/
namespace Sigc.Refine
open Sigc.Model

def InvokeK (f : Nat) : Prop := ∀ P s fn arg s' o v, invokeFun f P s fn arg = some (s', o, v) → Keeps s s'
def BodyK (f : Nat) : Prop := ∀ P s ls s' o, runBody f P s ls = some (s', o) → Keeps s s'
def LineK (f : Nat) : Prop := ∀ P s l s' o, execLine f P s l = some (s', o) → Keeps s s'
def EmitK (f : Nat) : Prop := ∀ P s fl impl arg strat s' o v,
  emitImpl f P s fl impl arg strat = some (s', o, v) → Keeps s s'
def LoopK (f : Nat) : Prop := ∀ P s i cur m arg r s' o v, emitLoop f P s i cur m arg r = some (s', o, v) → Keeps s s'
def DerefK (f : Nat) : Prop := ∀ P s i it arg s' o it', deref f P s i it arg = some (s', o, it') → Keeps s s'
def AccK (f : Nat) : Prop := ∀ P s i it m arg mode k r s' o v,
  accLoop f P s i it m arg mode k r = some (s', o, v) → Keeps s s'
def RevK (f : Nat) : Prop := ∀ P s i it first arg r s' o v,
  revLoop f P s i it first arg r = some (s', o, v) → Keeps s s'
def WalkK (f : Nat) : Prop := ∀ P s i it first m arg ops r s' o v,
  walkLoop f P s i it first m arg ops r = some (s', o, v) → Keeps s s'
def StratK (f : Nat) : Prop := ∀ P s i first m arg strat s' o v,
  runStrat f P s i first m arg strat = some (s', o, v) → Keeps s s'
def OpK (f : Nat) : Prop := ∀ P s op s' res, execOp f P s op = some (s', res) → Keeps s s'

theorem invoke_keeps (f : Nat) (hb : BodyK f) (hi : InvokeK f) (he : EmitK f) : InvokeK (f+1) := by
  intro P s fn arg s' o v h
  have leafCase : ∀ fid, (match aget P.bodies fid with
      | none => some (s.log (.call s.depth fid arg), Outcome.ok, resultOf fid arg)
      | some body =>
        match runBody f P { (s.log (.call s.depth fid arg)) with depth := (s.log (.call s.depth fid arg)).depth + 1 } body with
        | none => none
        | some (s, o) => some ({ s with depth := s.depth - 1 }, o, resultOf fid arg)) = some (s', o, v) → Keeps s s' := by
    intro fid h
    split at h
    · simp at h; obtain ⟨h1, _, _⟩ := h; subst h1
      exact keeps_log _ _
    · split at h
      · contradiction
      · rename_i s2 o2 hr
        simp at h; obtain ⟨h1, _, _⟩ := h; subst h1
        have g2 := hb P _ _ _ _ hr
        have hd : s2.depth = s.depth + 1 := g2.depth
        have hn : s.next ≤ s2.next := g2.next
        refine ⟨?_, hn, fun Z hz => g2.off Z hz⟩
        show s2.depth - 1 = s.depth
        omega
  cases fn with
  | leaf fid ts => rw [invokeFun.eq_def] at h; exact leafCase fid h
  | owner fid a b => rw [invokeFun.eq_def] at h; exact leafCase fid h
  | nest blocked inner =>
    rw [invokeFun.eq_def] at h
    simp only at h
    cases inner with
    | none => simp at h; obtain ⟨h1, _, _⟩ := h; subst h1; exact Keeps.refl _
    | some g =>
      simp only at h
      split at h
      · simp at h; obtain ⟨h1, _, _⟩ := h; subst h1; exact Keeps.refl _
      · exact hi P s g arg s' o v h
  | fwd ob ts =>
    rw [invokeFun.eq_def] at h
    simp only at h
    split at h
    · simp at h; obtain ⟨h1, _, _⟩ := h; subst h1; exact keeps_fail _ _
    · exact he P s _ _ arg .sum s' o v h

theorem body_keeps (f : Nat) (hl : LineK f) (hb : BodyK f) : BodyK (f+1) := by
  intro P s ls s' o h
  cases ls with
  | nil => rw [runBody] at h; simp at h; obtain ⟨h1, _⟩ := h; subst h1; exact Keeps.refl _
  | cons l ls =>
    rw [runBody] at h
    split at h
    · contradiction
    · rename_i s1 h1
      simp at h; obtain ⟨e1, _⟩ := h; subst e1
      exact hl P s l _ _ h1
    · rename_i s1 h1
      exact (hl P s l _ _ h1).trans (hb P s1 ls s' o h)

theorem line_keeps (f : Nat) (ho : OpK f) : LineK (f+1) := by
  intro P s l s' o h
  rw [execLine] at h
  have g0 : Keeps s { s with steps := s.steps + 1 } := Keeps.of_eq rfl (Nat.le_refl _) rfl
  split at h
  · contradiction
  · rename_i s1 _ h1
    simp at h; obtain ⟨e1, _⟩ := h; subst e1
    have g1 := ho P _ _ _ _ h1
    exact ((g0.trans g1).trans (keeps_log _ _)).trans (keeps_collect _)
  · rename_i s1 r h1
    simp at h; obtain ⟨e1, _⟩ := h; subst e1
    have g1 := ho P _ _ _ _ h1
    exact ((g0.trans g1).trans (keeps_log _ _)).trans (keeps_collect _)

/-- the invocation of one cell (`if (!empty() && !blocked()) call`) -/
theorem cell_step_keeps (f : Nat) (hi : InvokeK f) {P : Prog} {s : St} {c : Cell} (arg r : Nat)
    {s1 : St} {o : Outcome} {v : Nat}
    (h : (match c.slot.rep with
          | some { call := true, fn := some fn } =>
            if c.slot.blocked then some (s, Outcome.ok, r) else invokeFun f P s fn arg
          | _ => some (s, Outcome.ok, r)) = some (s1, o, v)) : Keeps s s1 := by
  split at h
  · rename_i fn hrep
    split at h
    · simp at h; obtain ⟨h1, _, _⟩ := h; subst h1; exact Keeps.refl _
    · exact hi P s fn arg s1 o v h
  · simp at h; obtain ⟨h1, _, _⟩ := h; subst h1; exact Keeps.refl _

theorem loop_keeps (f : Nat) (hi : InvokeK f) (hl : LoopK f) : LoopK (f+1) := by
  intro P s i cur m arg r s' o v h
  rw [emitLoop] at h
  split at h
  · simp at h; obtain ⟨h1, _, _⟩ := h; subst h1; exact Keeps.refl _
  · split at h
    · simp at h; obtain ⟨h1, _, _⟩ := h; subst h1; exact keeps_fail _ _
    · split at h
      · simp at h; obtain ⟨h1, _, _⟩ := h; subst h1; exact keeps_fail _ _
      · simp only at h
        split at h
        · contradiction
        · rename_i s1 v1 hstep
          simp at h; obtain ⟨h1, _, _⟩ := h; subst h1
          exact cell_step_keeps f hi arg r hstep
        · rename_i s1 v1 hstep
          have g1 := cell_step_keeps f hi arg r hstep
          split at h
          · simp at h; obtain ⟨h1, _, _⟩ := h; subst h1; exact g1.trans (keeps_fail _ _)
          · split at h
            · simp at h; obtain ⟨h1, _, _⟩ := h; subst h1; exact g1.trans (keeps_fail _ _)
            · exact g1.trans (hl P s1 i _ m arg v1 s' o v h)

theorem deref_keeps (f : Nat) (hi : InvokeK f) : DerefK (f+1) := by
  intro P s i it arg s' o it' h
  rw [deref] at h
  split at h
  · simp at h; obtain ⟨h1, _, _⟩ := h; subst h1; exact keeps_fail _ _
  · split at h
    · simp at h; obtain ⟨h1, _, _⟩ := h; subst h1; exact keeps_fail _ _
    · split at h
      · rename_i fn hrep
        split at h
        · simp at h; obtain ⟨h1, _, _⟩ := h; subst h1; exact Keeps.refl _
        · split at h
          · contradiction
          · rename_i s1 v1 hinv
            simp at h; obtain ⟨h1, _, _⟩ := h; subst h1
            exact hi P s fn arg _ _ _ hinv
          · rename_i s1 v1 hinv
            simp at h; obtain ⟨h1, _, _⟩ := h; subst h1
            exact hi P s fn arg _ _ _ hinv
      · simp at h; obtain ⟨h1, _, _⟩ := h; subst h1; exact Keeps.refl _

/-- `++it` and the rest of the accumulator loop -/
theorem advance_keeps (f : Nat) (ha : AccK f) {P : Prog} {s : St} {i m : Nat} {it : IterBuf}
    (arg mode k r : Nat) {s' : St} {o : Outcome} {v : Nat}
    (h : (match aget s.impls i with
      | none => some (s.fail "acc: impl destroyed", Outcome.ok, r)
      | some im =>
        match succId im.cells it.pos with
        | none => some (s.fail "acc: iterator invalidated", Outcome.ok, r)
        | some nxt => accLoop f P s i { it with pos := nxt, invoked := false } m arg mode k r) = some (s', o, v)) :
    Keeps s s' := by
  split at h
  · simp at h; obtain ⟨h1, _, _⟩ := h; subst h1; exact keeps_fail _ _
  · split at h
    · simp at h; obtain ⟨h1, _, _⟩ := h; subst h1; exact keeps_fail _ _
    · exact ha P s i _ m arg mode k r s' o v h

theorem acc_keeps (f : Nat) (hd : DerefK f) (ha : AccK f) : AccK (f+1) := by
  intro P s i it m arg mode k r s' o v h
  rw [accLoop] at h
  split at h
  · simp at h; obtain ⟨h1, _, _⟩ := h; subst h1; exact Keeps.refl _
  · simp only at h
    split at h
    · exact advance_keeps f ha arg mode k _ h
    · split at h
      · contradiction
      · rename_i s1 it1 hder
        simp at h; obtain ⟨h1, _, _⟩ := h; subst h1
        exact hd P s i it arg _ _ _ hder
      · rename_i s1 it1 hder
        have g1 := hd P s i it arg _ _ _ hder
        split at h
        · simp at h; obtain ⟨h1, _, _⟩ := h; subst h1; exact g1
        · split at h
          · split at h
            · contradiction
            · rename_i s2 it2 hder2
              simp at h; obtain ⟨h1, _, _⟩ := h; subst h1
              exact g1.trans (hd P s1 i _ arg _ _ _ hder2)
            · rename_i s2 it2 hder2
              have g2 := hd P s1 i _ arg _ _ _ hder2
              exact (g1.trans g2).trans (advance_keeps f ha (it := it2) arg mode k _ h)
          · exact g1.trans (advance_keeps f ha (it := if mode = 4 then it else it1) arg mode k _ h)

theorem rev_keeps (f : Nat) (hd : DerefK f) (hr : RevK f) : RevK (f+1) := by
  intro P s i it first arg r s' o v h
  rw [revLoop] at h
  split at h
  · simp at h; obtain ⟨h1, _, _⟩ := h; subst h1; exact Keeps.refl _
  · split at h
    · simp at h; obtain ⟨h1, _, _⟩ := h; subst h1; exact keeps_fail _ _
    · split at h
      · simp at h; obtain ⟨h1, _, _⟩ := h; subst h1; exact keeps_fail _ _
      · simp only at h
        split at h
        · contradiction
        · rename_i s1 it1 hder
          simp at h; obtain ⟨h1, _, _⟩ := h; subst h1
          exact hd P s i _ arg _ _ _ hder
        · rename_i s1 it1 hder
          exact (hd P s i _ arg _ _ _ hder).trans (hr P s1 i it1 first arg _ s' o v h)

theorem walk_keeps (f : Nat) (hd : DerefK f) (hw : WalkK f) : WalkK (f+1) := by
  intro P s i it first m arg ops r s' o v h
  cases ops with
  | nil => rw [walkLoop] at h; simp at h; obtain ⟨h1, _, _⟩ := h; subst h1; exact Keeps.refl _
  | cons c cs =>
    rw [walkLoop] at h
    split at h
    · -- 'd'
      split at h
      · exact hw P s i it first m arg cs r s' o v h
      · split at h
        · contradiction
        · rename_i s1 it1 hder
          simp at h; obtain ⟨h1, _, _⟩ := h; subst h1
          exact hd P s i it arg _ _ _ hder
        · rename_i s1 it1 hder
          exact (hd P s i it arg _ _ _ hder).trans (hw P s1 i it1 first m arg cs _ s' o v h)
    · split at h
      · -- 'c'
        split at h
        · exact hw P s i it first m arg cs r s' o v h
        · split at h
          · contradiction
          · rename_i s1 it1 hder
            simp at h; obtain ⟨h1, _, _⟩ := h; subst h1
            exact hd P s i it arg _ _ _ hder
          · rename_i s1 it1 hder
            exact (hd P s i it arg _ _ _ hder).trans (hw P s1 i it first m arg cs _ s' o v h)
      · split at h
        · -- 'i'
          split at h
          · exact hw P s i it first m arg cs r s' o v h
          · split at h
            · simp at h; obtain ⟨h1, _, _⟩ := h; subst h1; exact keeps_fail _ _
            · split at h
              · simp at h; obtain ⟨h1, _, _⟩ := h; subst h1; exact keeps_fail _ _
              · exact hw P s i _ first m arg cs r s' o v h
        · split at h
          · -- 'x'
            split at h
            · exact hw P s i it first m arg cs r s' o v h
            · split at h
              · simp at h; obtain ⟨h1, _, _⟩ := h; subst h1; exact keeps_fail _ _
              · split at h
                · simp at h; obtain ⟨h1, _, _⟩ := h; subst h1; exact keeps_fail _ _
                · exact hw P s i _ first m arg cs r s' o v h
          · exact hw P s i it first m arg cs r s' o v h

theorem strat_keeps (f : Nat) (ha : AccK f) (hr : RevK f) (hw : WalkK f) : StratK (f+1) := by
  intro P s i first m arg strat s' o v h
  cases strat <;> rw [runStrat] at h
  case sum => exact ha P s i _ m arg 0 0 0 s' o v h
  case stop k => exact ha P s i _ m arg 1 k 0 s' o v h
  case twice => exact ha P s i _ m arg 2 0 0 s' o v h
  case never => exact ha P s i _ m arg 3 0 0 s' o v h
  case postinc => exact ha P s i _ m arg 4 0 0 s' o v h
  case rev => exact hr P s i _ first arg 0 s' o v h
  case walk ops => exact hw P s i _ first m arg ops 0 s' o v h

theorem op_keeps (f : Nat) (hi : InvokeK f) (he : EmitK f) : OpK (f+1) := by
  intro P s op s' res h
  rw [execOp.eq_def] at h
  simp only at h
  split at h
  · -- callS
    rename_i i arg
    split at h
    · simp at h; obtain ⟨h1, _⟩ := h; subst h1; exact Keeps.refl _
    · rename_i v hv
      split at h
      · simp at h; obtain ⟨h1, _⟩ := h; subst h1; exact Keeps.refl _
      · split at h
        · simp at h; obtain ⟨h1, _⟩ := h; subst h1; exact Keeps.refl _
        · split at h
          · rename_i fn hrep
            split at h
            · simp at h; obtain ⟨h1, _⟩ := h; subst h1; exact Keeps.refl _
            · have g0 : Keeps s { s with S := aset s.S i { v with incall := v.incall + 1 } } :=
                Keeps.of_eq rfl (Nat.le_refl _) rfl
              split at h
              · contradiction
              · rename_i s1 o r hinv
                have g1 := hi P _ fn arg s1 o r hinv
                have g2 : Keeps s1 (match aget s1.S i with
                    | some v2 => { s1 with S := aset s1.S i { v2 with incall := v2.incall - 1 } }
                    | none => s1.fail "callS: slot variable destroyed during its own call") := by
                  split
                  · exact Keeps.of_eq rfl (Nat.le_refl _) rfl
                  · exact keeps_fail _ _
                split at h
                · simp at h; obtain ⟨h1, _⟩ := h; subst h1; exact (g0.trans g1).trans g2
                · simp at h; obtain ⟨h1, _⟩ := h; subst h1; exact (g0.trans g1).trans g2
          · simp at h; obtain ⟨h1, _⟩ := h; subst h1; exact Keeps.refl _
  · -- emit
    rename_i g arg strat try_
    split at h
    · simp at h; obtain ⟨h1, _⟩ := h; subst h1; exact Keeps.refl _
    · rename_i hd hg
      split at h
      · simp at h; obtain ⟨h1, _⟩ := h; subst h1; exact Keeps.refl _
      · split at h
        · simp at h; obtain ⟨h1, _⟩ := h; subst h1; exact Keeps.refl _
        · split at h
          · contradiction
          · rename_i s1 v1 hem
            have g1 := he P s hd.fl hd.impl arg strat s1 _ v1 hem
            split at h
            · simp at h; obtain ⟨h1, _⟩ := h; subst h1; exact g1
            · simp at h; obtain ⟨h1, _⟩ := h; subst h1; exact g1
          · rename_i s1 v1 hem
            have g1 := he P s hd.fl hd.impl arg strat s1 _ v1 hem
            simp at h; obtain ⟨h1, _⟩ := h; subst h1; exact g1
  · simp at h; obtain ⟨h1, _⟩ := h; subst h1; exact Keeps.refl _
  · split at h
    · simp at h; obtain ⟨h1, _⟩ := h; subst h1; exact Keeps.refl _
    · split at h
      · rename_i s1 r hst
        simp at h; obtain ⟨h1, _⟩ := h; subst h1
        exact stepSimple_keeps hst
      · simp at h; obtain ⟨h1, _⟩ := h; subst h1; exact Keeps.refl _

/-- `~signal_impl_holder`: the holder count is lowered -/
theorem keeps_dropHolder (s : St) (i : Nat) :
    Keeps s (match aget s.impls i with
      | none => s
      | some im3 => setImpl s i { im3 with holders := im3.holders - 1 }) := by
  split
  · exact Keeps.refl _
  · rename_i im3 h3; exact keeps_setImpl_same h3 _ rfl

theorem emit_keeps (f : Nat) (hst : StratK f) (hl : LoopK f) : EmitK (f+1) := by
  intro P s fl impl arg strat s' o v h
  cases impl with
  | none => rw [emitImpl] at h; simp at h; obtain ⟨h1, _, _⟩ := h; subst h1; exact Keeps.refl _
  | some i =>
    rw [emitImpl] at h
    cases hi : aget s.impls i with
    | none => rw [hi] at h; simp at h; obtain ⟨h1, _, _⟩ := h; subst h1; exact keeps_fail _ _
    | some im =>
      rw [hi] at h
      simp only at h
      split at h
      · simp at h; obtain ⟨h1, _, _⟩ := h; subst h1; exact Keeps.refl _
      · rw [show s.fresh = (s.next, { s with next := s.next + 1 }) from rfl] at h
        simp only at h
        generalize hs1 : setImpl { s with next := s.next + 1 } i
          { im with exec := im.exec + 1, holders := im.holders + 1,
                    cells := im.cells ++ [{ id := s.next, slot := {}, linked := false }] } = s1 at h
        have g01 : Keeps s s1 := by
          subst hs1
          refine Keeps.of_cf rfl (Nat.le_succ _) ?_
          intro p' hp' c' hc' hlk
          rcases Emit.mem_aset hp' with hp | rfl
          · exact Or.inr ⟨p', hp, c', hc', rfl, hlk⟩
          · simp only [List.mem_append, List.mem_singleton] at hc'
            rcases hc' with hc' | rfl
            · exact Or.inr ⟨(i, im), Emit.aget_some_mem hi, c', hc', rfl, hlk⟩
            · simp at hlk
        split at h
        · contradiction
        · rename_i s2 o2 v2 hr
          have g12 : Keeps s1 s2 := by
            split at hr
            · exact hst P s1 i _ _ arg (strat.forFlavour fl) s2 o2 v2 hr
            · exact hl P s1 i _ _ arg 0 s2 o2 v2 hr
          split at h
          · simp at h; obtain ⟨h1, _, _⟩ := h; subst h1
            exact (g01.trans g12).trans (keeps_fail _ _)
          · simp at h; obtain ⟨h1, _, _⟩ := h; subst h1
            refine (g01.trans g12).trans ?_
            refine Keeps.trans ?_ (keeps_collect _)
            refine Keeps.trans ?_ (keeps_gcImpl _ _)
            refine Keeps.trans ?_ (keeps_dropHolder _ _)
            refine Keeps.trans ?_ (keeps_unrefExec _ _)
            split
            · exact keeps_eraseCell _ _ _
            · exact keeps_fail _ _

/-- all functions of the mutual block, at a given fuel -/
structure AllKeeps (f : Nat) : Prop where
  invoke : InvokeK f
  body : BodyK f
  line : LineK f
  emit : EmitK f
  loop : LoopK f
  deref : DerefK f
  acc : AccK f
  rev : RevK f
  walk : WalkK f
  strat : StratK f
  op : OpK f

theorem all_keeps : ∀ f, AllKeeps f := by
  intro f
  induction f with
  | zero =>
    refine ⟨?_, ?_, ?_, ?_, ?_, ?_, ?_, ?_, ?_, ?_, ?_⟩
    · intro P s fn arg s' o v h; simp [invokeFun] at h
    · intro P s ls s' o h; simp [runBody] at h
    · intro P s l s' o h; simp [execLine] at h
    · intro P s fl impl arg strat s' o v h; simp [emitImpl] at h
    · intro P s i cur m arg r s' o v h; simp [emitLoop] at h
    · intro P s i it arg s' o it' h; simp [deref] at h
    · intro P s i it m arg mode k r s' o v h; simp [accLoop] at h
    · intro P s i it first arg r s' o v h; simp [revLoop] at h
    · intro P s i it first m arg ops r s' o v h; simp [walkLoop] at h
    · intro P s i first m arg strat s' o v h; simp [runStrat] at h
    · intro P s op s' res h; simp [execOp] at h
  | succ f ih =>
    exact ⟨invoke_keeps f ih.body ih.invoke ih.emit, body_keeps f ih.line ih.body, line_keeps f ih.op,
           emit_keeps f ih.strat ih.loop, loop_keeps f ih.invoke ih.loop, deref_keeps f ih.invoke,
           acc_keeps f ih.deref ih.acc, rev_keeps f ih.deref ih.rev, walk_keeps f ih.deref ih.walk,
           strat_keeps f ih.acc ih.rev ih.walk, op_keeps f ih.invoke ih.emit⟩

/-! ## the statements, for every fuel -/

theorem invokeFun_keeps {f : Nat} {P : Prog} {s s' : St} {fn : Fun} {arg : Nat} {o : Outcome} {v : Nat}
    (h : invokeFun f P s fn arg = some (s', o, v)) : Keeps s s' := (all_keeps f).invoke P s fn arg s' o v h
theorem runBody_keeps {f : Nat} {P : Prog} {s s' : St} {ls : List Line} {o : Outcome}
    (h : runBody f P s ls = some (s', o)) : Keeps s s' := (all_keeps f).body P s ls s' o h
theorem execLine_keeps {f : Nat} {P : Prog} {s s' : St} {l : Line} {o : Outcome}
    (h : execLine f P s l = some (s', o)) : Keeps s s' := (all_keeps f).line P s l s' o h
theorem emitImpl_keeps {f : Nat} {P : Prog} {s s' : St} {fl : Flavour} {impl : Option Nat} {arg : Nat} {strat : Strat}
    {o : Outcome} {v : Nat} (h : emitImpl f P s fl impl arg strat = some (s', o, v)) : Keeps s s' :=
  (all_keeps f).emit P s fl impl arg strat s' o v h
theorem emitLoop_keeps {f : Nat} {P : Prog} {s s' : St} {i cur m arg r : Nat} {o : Outcome} {v : Nat}
    (h : emitLoop f P s i cur m arg r = some (s', o, v)) : Keeps s s' := (all_keeps f).loop P s i cur m arg r s' o v h
theorem deref_keeps' {f : Nat} {P : Prog} {s s' : St} {i : Nat} {it it' : IterBuf} {arg : Nat} {o : Outcome}
    (h : deref f P s i it arg = some (s', o, it')) : Keeps s s' := (all_keeps f).deref P s i it arg s' o it' h
theorem accLoop_keeps {f : Nat} {P : Prog} {s s' : St} {i : Nat} {it : IterBuf} {m arg mode k r : Nat} {o : Outcome}
    {v : Nat} (h : accLoop f P s i it m arg mode k r = some (s', o, v)) : Keeps s s' :=
  (all_keeps f).acc P s i it m arg mode k r s' o v h
theorem revLoop_keeps {f : Nat} {P : Prog} {s s' : St} {i : Nat} {it : IterBuf} {first arg r : Nat} {o : Outcome}
    {v : Nat} (h : revLoop f P s i it first arg r = some (s', o, v)) : Keeps s s' :=
  (all_keeps f).rev P s i it first arg r s' o v h
theorem walkLoop_keeps {f : Nat} {P : Prog} {s s' : St} {i : Nat} {it : IterBuf} {first m arg : Nat} {ops : List Char}
    {r : Nat} {o : Outcome} {v : Nat} (h : walkLoop f P s i it first m arg ops r = some (s', o, v)) : Keeps s s' :=
  (all_keeps f).walk P s i it first m arg ops r s' o v h
theorem runStrat_keeps {f : Nat} {P : Prog} {s s' : St} {i first m arg : Nat} {strat : Strat} {o : Outcome} {v : Nat}
    (h : runStrat f P s i first m arg strat = some (s', o, v)) : Keeps s s' :=
  (all_keeps f).strat P s i first m arg strat s' o v h
theorem execOp_keeps {f : Nat} {P : Prog} {s s' : St} {op : Op} {res : Except Unit String}
    (h : execOp f P s op = some (s', res)) : Keeps s s' := (all_keeps f).op P s op s' res h

theorem runTop_keeps {f : Nat} {P : Prog} {s s' : St} {ls : List Line} (h : Model.runTop f P s ls = some s') :
    Keeps s s' := by
  induction ls generalizing s with
  | nil => simp [runTop] at h; subst h; exact Keeps.refl _
  | cons l ls ih =>
    simp only [runTop] at h
    split at h
    · contradiction
    · rename_i s1 o1 h1
      exact (execLine_keeps h1).trans (ih h)

end Sigc.Refine
