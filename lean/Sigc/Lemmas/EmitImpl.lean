import Sigc.Lemmas.EmitDefs
/-!
# Emit work package — per-impl lemmas (pure facts about `Impl`, `Cell`, `SlotB`) and the generic
state-level lemmas `setImpl` / "same core" for `InvX` and `Frame`.
-/
namespace Sigc.Emit
open Sigc.Model

/-! ## slots -/

theorem SlotOK.disconnectRep {G} {sl : SlotB} (h : SlotOK G sl) : SlotOK G sl.disconnectRep := by
  unfold SlotB.disconnectRep
  cases hr : sl.rep with
  | none => simpa [hr] using h
  | some r0 =>
    intro r fn h1 h2
    simp at h1; subst h1
    exact h r0 fn hr h2

theorem SlotOK.invalidate {G} {sl : SlotB} (h : SlotOK G sl) : SlotOK G sl.invalidate := by
  unfold SlotB.invalidate
  cases hr : sl.rep with
  | none => simpa [hr] using h
  | some r0 =>
    intro r fn h1 h2
    simp at h1; subst h1
    simp at h2

theorem SlotOK.setBlocked {G} {sl : SlotB} (h : SlotOK G sl) (b : Bool) : SlotOK G { sl with blocked := b } := by
  intro r fn h1 h2; exact h r fn h1 h2

theorem SlotOK.none {G} (b : Bool) : SlotOK G { blocked := b, rep := none } := by
  intro r fn h1; simp at h1

theorem SlotOK.copy {G} {sl : SlotB} (h : SlotOK G sl) : SlotOK G sl.copy := by
  unfold SlotB.copy
  cases hr : sl.rep with
  | none => exact SlotOK.none _
  | some r0 =>
    simp only
    split
    · intro r fn h1 h2
      simp at h1; subst h1
      exact h r0 fn hr h2
    · exact SlotOK.none _

theorem SlotOK.move1 {G} {sl : SlotB} (h : SlotOK G sl) : SlotOK G sl.move.1 := by
  unfold SlotB.move
  cases hr : sl.rep with
  | none => exact SlotOK.none _
  | some r0 =>
    intro r fn h1 h2
    simp at h1; subst h1
    exact h r0 fn hr h2

theorem SlotOK.move2 {G} {sl : SlotB} (h : SlotOK G sl) : SlotOK G sl.move.2 := by
  unfold SlotB.move
  cases hr : sl.rep with
  | none => simpa [hr] using h
  | some r0 => exact SlotOK.none _

theorem disconnectRep_isNone (sl : SlotB) : sl.disconnectRep.rep.isNone = sl.rep.isNone := by
  unfold SlotB.disconnectRep; cases hr : sl.rep <;> simp [hr]

theorem invalidate_isNone (sl : SlotB) : sl.invalidate.rep.isNone = sl.rep.isNone := by
  unfold SlotB.invalidate; cases hr : sl.rep <;> simp [hr]

theorem disconnectRep_empty (sl : SlotB) : sl.disconnectRep.empty = true := by
  unfold SlotB.disconnectRep; cases hr : sl.rep <;> simp [SlotB.empty, hr]

theorem invalidate_empty (sl : SlotB) : sl.invalidate.empty = true := by
  unfold SlotB.invalidate; cases hr : sl.rep <;> simp [SlotB.empty, hr]

theorem empty_of_isNone {sl : SlotB} (h : sl.rep.isNone = true) : sl.empty = true := by
  unfold SlotB.empty; cases hr : sl.rep <;> simp_all

/-! ## lists of cells -/

theorem find_unique {cs : List Cell} (hn : (cs.map (·.id)).Nodup) {k : Nat} {c c0 : Cell}
    (hf : cs.find? (·.id = k) = some c) (h0 : c0 ∈ cs) (hk : c0.id = k) : c0 = c := by
  induction cs with
  | nil => simp at h0
  | cons x t ih =>
    simp only [List.map_cons, List.nodup_cons] at hn
    by_cases hx : x.id = k
    · simp [List.find?, hx] at hf; subst hf
      rcases List.mem_cons.mp h0 with e | e
      · exact e
      · exfalso; apply hn.1; rw [hx, ← hk]; exact List.mem_map.mpr ⟨c0, e, rfl⟩
    · simp [List.find?, hx] at hf
      rcases List.mem_cons.mp h0 with e | e
      · subst e; exact absurd hk hx
      · exact ih hn.2 hf e

theorem find_mem {cs : List Cell} {k : Nat} {c : Cell} (hf : cs.find? (·.id = k) = some c) : c ∈ cs ∧ c.id = k := by
  have h1 := List.mem_of_find?_eq_some hf
  have h2 := List.find?_some hf
  exact ⟨h1, by simpa using h2⟩

theorem find_of_mem_ids {cs : List Cell} {k : Nat} (h : k ∈ cs.map (·.id)) : ∃ c, cs.find? (·.id = k) = some c := by
  obtain ⟨c, hc, rfl⟩ := List.mem_map.mp h
  cases hf : cs.find? (fun x => x.id = c.id) with
  | some c' => exact ⟨c', rfl⟩
  | none =>
    rw [List.find?_eq_none] at hf
    exact absurd (by simp) (hf c hc)

theorem any_of_mem_ids {cs : List Cell} {k : Nat} (h : k ∈ cs.map (·.id)) : cs.any (·.id = k) = true := by
  obtain ⟨c, hc, rfl⟩ := List.mem_map.mp h
  rw [List.any_eq_true]; exact ⟨c, hc, by simp⟩

theorem mem_ids_of_any {cs : List Cell} {k : Nat} (h : cs.any (·.id = k) = true) : k ∈ cs.map (·.id) := by
  rw [List.any_eq_true] at h
  obtain ⟨c, hc, he⟩ := h
  exact List.mem_map.mpr ⟨c, hc, by simpa using he⟩

/-- the cell-wise update used by `updCell` -/
def updC (cid : Nat) (f : Cell → Cell) (c : Cell) : Cell := if c.id = cid then f c else c

theorem map_updC_filter (cs : List Cell) (cid : Nat) (f : Cell → Cell) (hid : ∀ c, (f c).id = c.id) :
    (cs.map (updC cid f)).filter (·.id ≠ cid) = cs.filter (·.id ≠ cid) := by
  induction cs with
  | nil => rfl
  | cons c t ih =>
    by_cases h : c.id = cid
    · simp [updC, h, hid, List.filter] at ih ⊢; exact ih
    · simp [updC, h, List.filter] at ih ⊢; exact ih

/-! ## per-impl preservation -/

theorem skel_map (im : Impl) (g : Cell → Cell) (hid : ∀ c, (g c).id = c.id)
    (hn : ∀ c, (g c).slot.rep.isNone = c.slot.rep.isNone) (dfr : Bool) :
    skel { im with cells := im.cells.map g, deferred := dfr } = skel im := by
  simp [skel, List.map_map, Function.comp_def, hid, hn]

theorem cids_map (cs : List Cell) (g : Cell → Cell) (hid : ∀ c, (g c).id = c.id) :
    (cs.map g).map (·.id) = cs.map (·.id) := by
  simp [List.map_map, Function.comp_def, hid]

/-- map an id- and marker-preserving function over the cells; `deferred` may be raised -/
theorem ImplOK.map {k : Nat} {im : Impl} (h : ImplOK k im) (g : Cell → Cell) (dfr : Bool)
    (hid : ∀ c, (g c).id = c.id) (hn : ∀ c, (g c).slot.rep.isNone = c.slot.rep.isNone)
    (hl : ∀ c ∈ im.cells, (g c).linked = false → (g c).slot.empty = true)
    (hd : dfr = false → im.deferred = false ∧ ∀ c ∈ im.cells, c.linked = true → (g c).linked = true)
    (hq : im.exec = 0 → dfr = false) :
    ImplOK k { im with cells := im.cells.map g, deferred := dfr } := by
  refine ⟨?_, h.eh, ?_, hq, ?_, ?_⟩
  · simpa [cids, cids_map _ g hid] using h.nodup
  · have : markers { im with cells := im.cells.map g, deferred := dfr } = markers im := by
      simp [markers, List.countP_map, Function.comp_def, hn]
    rw [this]; exact h.mkr
  · intro c hc hlk
    simp at hc
    obtain ⟨c0, hc0, rfl⟩ := hc
    exact hl c0 hc0 hlk
  · intro hdf c hc hnone
    simp at hc hdf
    obtain ⟨c0, hc0, rfl⟩ := hc
    obtain ⟨h1, h2⟩ := hd hdf
    rw [hn] at hnone
    exact h2 c0 hc0 (h.d h1 c0 hc0 hnone)

/-- drop cells that are not markers -/
theorem ImplOK.filter {k : Nat} {im : Impl} (h : ImplOK k im) (p : Cell → Bool)
    (hm : ∀ c ∈ im.cells, c.slot.rep.isNone = true → p c = true) :
    ImplOK k { im with cells := im.cells.filter p } := by
  refine ⟨?_, h.eh, ?_, h.q1, ?_, ?_⟩
  · exact List.Nodup.sublist ((List.filter_sublist).map _) h.nodup
  · have : markers { im with cells := im.cells.filter p } = markers im := by
      simp only [markers, List.countP_filter]
      apply List.countP_congr
      intro c hc
      simp
      intro hc2; exact hm c hc (by simp [hc2])
    rw [this]; exact h.mkr
  · intro c hc; exact h.l c (List.mem_filter.mp hc).1
  · intro hd c hc; exact h.d hd c (List.mem_filter.mp hc).1

theorem ImplOK.no_markers {k : Nat} {im : Impl} (h : ImplOK k im) (hx : im.exec = 0) :
    ∀ c ∈ im.cells, c.slot.rep.isNone = false := by
  have := h.mkr
  rw [hx] at this
  have this : markers im = 0 := by omega
  simp [markers, List.countP_eq_zero] at this
  intro c hc
  have := this c hc
  cases hr : c.slot.rep <;> simp_all

/-- `sweep()` on an impl whose emission count is 0 -/
theorem ImplOK.sweep {im : Impl} (h : ImplOK 0 im) (hx : im.exec = 0) :
    ImplOK 0 { im with deferred := false, cells := im.cells.filter (fun c => !c.slot.empty) } := by
  have hnm := h.no_markers hx
  refine ⟨?_, h.eh, ?_, fun _ => rfl, ?_, ?_⟩
  · exact List.Nodup.sublist ((List.filter_sublist).map _) h.nodup
  · have : markers { im with deferred := false, cells := im.cells.filter (fun c => !c.slot.empty) } = 0 := by
      simp only [markers, List.countP_eq_zero]
      intro c hc
      have := hnm c (List.mem_filter.mp hc).1
      simp [this]
    rw [this]; exact hx.symm
  · intro c hc; exact h.l c (List.mem_filter.mp hc).1
  · intro _ c hc _
    obtain ⟨hc1, hc2⟩ := List.mem_filter.mp hc
    cases hl : c.linked with
    | true => rfl
    | false => have := h.l c hc1 hl; simp [this] at hc2

/-! ## state level: "same core" and `setImpl` -/

theorem OwnOK.sub {O O' : List (Nat × Nat)} {G : List (Nat × Handle)} (h : OwnOK O G)
    (hs : ∀ p ∈ O', p ∈ O) : OwnOK O' G :=
  fun p hp => h p (hs p hp)

theorem OwnOK.filter {O : List (Nat × Nat)} {G : List (Nat × Handle)} (h : OwnOK O G) (f : Nat × Nat → Bool) :
    OwnOK (O.filter f) G :=
  h.sub (fun _ hp => (List.mem_filter.mp hp).1)

/-- same core, and the functor-owned signal objects are among the old ones -/
theorem InvX.congrSub {off} {s s' : St} (h : InvX off s) (hi : s'.impls = s.impls) (hG : s'.G = s.G)
    (hS : s'.S = s.S) (he : s'.err = s.err) (hn : s.next ≤ s'.next)
    (hO : ∀ p ∈ s'.ownedG, p ∈ s.ownedG) : InvX off s' := by
  refine ⟨by rw [hi]; exact h.keys, ?_, by rw [hi]; exact h.ok, by rw [hi]; exact h.disj,
          by rw [hi, hG]; exact h.himpl, by rw [hS, hG]; exact h.fwdS, by rw [hi, hG]; exact h.fwdC,
          by rw [he]; exact h.noerr, by rw [hG]; exact h.own.sub hO⟩
  intro i im hh
  rw [hi] at hh
  obtain ⟨h1, h2⟩ := h.lt i im hh
  exact ⟨by omega, fun k hk => by have := h2 k hk; omega⟩

/-- same core (the last hypothesis, `ownedG` unchanged, is found by `rfl` where the new state is written
    as an update of the old one) -/
theorem InvX.congr {off} {s s' : St} (h : InvX off s) (hi : s'.impls = s.impls) (hG : s'.G = s.G)
    (hS : s'.S = s.S) (he : s'.err = s.err) (hn : s.next ≤ s'.next)
    (hO : s'.ownedG = s.ownedG := by first | rfl | assumption) : InvX off s' := by
  refine ⟨by rw [hi]; exact h.keys, ?_, by rw [hi]; exact h.ok, by rw [hi]; exact h.disj,
          by rw [hi, hG]; exact h.himpl, by rw [hS, hG]; exact h.fwdS, by rw [hi, hG]; exact h.fwdC,
          by rw [he]; exact h.noerr, by rw [hG, hO]; exact h.own⟩
  intro i im hh
  rw [hi] at hh
  obtain ⟨h1, h2⟩ := h.lt i im hh
  exact ⟨by omega, fun k hk => by have := h2 k hk; omega⟩

theorem Frame.congr_right {s s1 s2 : St} (h : Frame s s1) (hi : s2.impls = s1.impls) (hS : s2.S = s1.S)
    (hn : s1.next ≤ s2.next) : Frame s s2 :=
  h.trans (Frame.of_eq hn hi hS)

/-- a state transformer is *good* (w.r.t. the clear-offsets `off`) -/
structure Good (off : Nat → Nat) (s s' : St) : Prop where
  inv : InvX off s'
  frame : Frame s s'

theorem Good.refl {off} {s : St} (h : InvX off s) : Good off s s := ⟨h, Frame.refl s⟩

theorem Good.trans {off} {a b c : St} (h1 : Good off a b) (h2 : Good off b c) : Good off a c :=
  ⟨h2.inv, h1.frame.trans h2.frame⟩

theorem Good.congr {off} {s s1 s2 : St} (h : Good off s s1) (hi : s2.impls = s1.impls) (hG : s2.G = s1.G)
    (hS : s2.S = s1.S) (he : s2.err = s1.err) (hn : s1.next ≤ s2.next)
    (hO : s2.ownedG = s1.ownedG := by first | rfl | assumption) : Good off s s2 :=
  ⟨h.inv.congr hi hG hS he hn hO, h.frame.congr_right hi hS hn⟩

theorem Good.congrSub {off} {s s1 s2 : St} (h : Good off s s1) (hi : s2.impls = s1.impls) (hG : s2.G = s1.G)
    (hS : s2.S = s1.S) (he : s2.err = s1.err) (hn : s1.next ≤ s2.next)
    (hO : ∀ p ∈ s2.ownedG, p ∈ s1.ownedG) : Good off s s2 :=
  ⟨h.inv.congrSub hi hG hS he hn hO, h.frame.congr_right hi hS hn⟩

theorem Good.of_core {off} {s s' : St} (h : InvX off s) (hi : s'.impls = s.impls) (hG : s'.G = s.G)
    (hS : s'.S = s.S) (he : s'.err = s.err) (hn : s.next ≤ s'.next)
    (hO : s'.ownedG = s.ownedG := by first | rfl | assumption) : Good off s s' :=
  (Good.refl h).congr hi hG hS he hn hO

theorem aget_setImpl (s : St) (i j : Nat) (im : Impl) :
    aget (setImpl s i im).impls j = if j = i then some im else aget s.impls j := by
  simp [setImpl, aget_aset]

theorem execOf_setImpl (s : St) (i j : Nat) (im : Impl) :
    execOf (setImpl s i im) j = if j = i then im.exec else execOf s j := by
  unfold execOf; rw [aget_setImpl]; by_cases e : j = i <;> simp [e]

theorem Frame.setImpl {s : St} {i : Nat} {im im' : Impl} (hi : aget s.impls i = some im)
    (hx : im'.exec = im.exec)
    (hk : 0 < im.exec → ∃ pre post, skel im' = pre ++ skel im ++ post) :
    Frame s (setImpl s i im') := by
  refine ⟨Nat.le_refl _, ?_, ?_, fun j => rfl⟩
  · intro j
    rw [execOf_setImpl]
    split
    · rename_i e; subst e; rw [execOf_pos hi, hx]
    · rfl
  · intro j jm hj hpos
    rw [aget_setImpl]
    by_cases e : j = i
    · subst e
      rw [hi] at hj; cases hj
      simp only [if_true]
      exact ⟨im', rfl, hk hpos⟩
    · simp only [e, if_false]
      exact ⟨jm, hj, [], [], by simp⟩

/-- replacing impl `i` by `im'` whose cell ids are old ones of `i` or new ids not used anywhere -/
theorem InvX.setImpl' {off off' : Nat → Nat} {s : St} (h : InvX off s) {i : Nat} {im im' : Impl}
    (hi : aget s.impls i = some im) (hok : ImplOK (off' i) im') (hoff : ∀ j, j ≠ i → off' j = off j)
    (hids : ∀ k ∈ cids im', k ∈ cids im ∨
        (k < s.next ∧ ∀ j jm, aget s.impls j = some jm → k ∉ cids jm))
    (hf : ∀ c ∈ im'.cells, SlotOK s.G c.slot) : InvX off' (setImpl s i im') := by
  refine ⟨?_, ?_, ?_, ?_, ?_, h.fwdS, ?_, h.noerr, h.own⟩
  · exact keys_nodup_aset h.keys _ _
  · intro j jm hj
    rw [aget_setImpl] at hj
    split at hj
    · rename_i e; subst e; cases hj
      refine ⟨(h.lt _ _ hi).1, ?_⟩
      intro k hk
      rcases hids k hk with h1 | h1
      · exact (h.lt _ _ hi).2 k h1
      · exact h1.1
    · exact h.lt j jm hj
  · intro j jm hj
    rw [aget_setImpl] at hj
    split at hj
    · rename_i e; subst e; cases hj; exact hok
    · rename_i e; rw [hoff j e]; exact h.ok j jm hj
  · intro a b am bm ha hb hab k hk
    rw [aget_setImpl] at ha hb
    split at ha
    · rename_i e; subst e; cases ha
      simp only [Ne.symm hab, if_false] at hb
      rcases hids k hk with h1 | h1
      · exact h.disj _ _ _ _ hi hb hab k h1
      · exact h1.2 b bm hb
    · split at hb
      · rename_i e; subst e; cases hb
        intro hk2
        rcases hids k hk2 with h1 | h1
        · exact h.disj _ _ _ _ ha hi hab k hk h1
        · exact h1.2 a am ha hk
      · exact h.disj _ _ _ _ ha hb hab k hk
  · intro p hp j hj
    have := h.himpl p hp j hj
    rw [aget_setImpl]
    split
    · rfl
    · exact this
  · intro j jm hj c hc
    rw [aget_setImpl] at hj
    split at hj
    · cases hj; exact hf c hc
    · exact h.fwdC j jm hj c hc

theorem InvX.setImpl {off} {s : St} (h : InvX off s) {i : Nat} {im im' : Impl}
    (hi : aget s.impls i = some im) (hok : ImplOK (off i) im')
    (hids : ∀ k ∈ cids im', k ∈ cids im ∨
        (k < s.next ∧ ∀ j jm, aget s.impls j = some jm → k ∉ cids jm))
    (hf : ∀ c ∈ im'.cells, SlotOK s.G c.slot) : InvX off (setImpl s i im') :=
  h.setImpl' hi hok (fun _ _ => rfl) hids hf

theorem Good.setImpl {off} {s : St} (h : InvX off s) {i : Nat} {im im' : Impl}
    (hi : aget s.impls i = some im) (hok : ImplOK (off i) im')
    (hids : ∀ k ∈ cids im', k ∈ cids im ∨
        (k < s.next ∧ ∀ j jm, aget s.impls j = some jm → k ∉ cids jm))
    (hf : ∀ c ∈ im'.cells, SlotOK s.G c.slot)
    (hx : im'.exec = im.exec)
    (hk : 0 < im.exec → ∃ pre post, skel im' = pre ++ skel im ++ post) :
    Good off s (Sigc.Model.setImpl s i im') :=
  ⟨h.setImpl hi hok hids hf, Frame.setImpl hi hx hk⟩

end Sigc.Emit
