import Sigc.Lemmas.RefinePrimB
/-!
# Refine work package — simulation of the operations without user code, part C: signal objects
(`cpG`, `mvG`, `asgG`, `masgG`, `delG`) and connecting (`conn`, `connfn`).
-/
set_option linter.unusedSimpArgs false
namespace Sigc.Refine
open Sigc.Model

/-- the model never refuses these operations -/
local macro "none_case" : tactic =>
  `(tactic| (intro h; simp only [Model.stepSimple] at h; repeat' (first | (simp at h; done) | split at h)))

/-- close a leaf: `h : some (a, b) = some (s', r)`, the goal's specification side is reduced to `some _` -/
local macro "leaf" h:ident hR:term : tactic =>
  `(tactic| (cases $h:ident; exact ⟨_, _, rfl, $hR, .refl _⟩))

theorem step_cpG (j i : Nat) : StepSim (.cpG j i) := by
  intro s t hs hR hq
  refine ⟨?_, by none_case⟩
  intro s' r h
  simp only [Model.stepSimple] at h
  simp only [Spec.stepSimple, hR.G]
  cases hi : aget s.G i with
  | none => simp only [hi] at h ⊢; leaf h hR
  | some hi0 =>
    simp only [hi] at h ⊢
    cases hj : aget s.G j with
    | some _ => simp only [hj] at h ⊢; leaf h hR
    | none =>
      simp only [hj] at h ⊢
      cases he : Model.ensureImpl s i with
      | none => simp only [he] at h; simp only [(R_ensure hR i).1 he]; leaf h hR
      | some p =>
        obtain ⟨s1, im⟩ := p
        obtain ⟨t1, ht1, hR1⟩ := (R_ensure hR i).2 s1 im he
        simp only [he] at h; simp only [ht1, hR1.G]
        cases hi1 : aget s1.G i with
        | none => simp only [hi1] at h ⊢; leaf h hR1
        | some h1 =>
          simp only [hi1, St.fresh] at h
          simp only [hi1, Spec.LSt.fresh, hR1.next, hR1.G]
          leaf h (hR1.fresh'.fresh'.updG _)

theorem step_mvG (j i : Nat) : StepSim (.mvG j i) := by
  intro s t hs hR hq
  refine ⟨?_, by none_case⟩
  intro s' r h
  simp only [Model.stepSimple] at h
  simp only [Spec.stepSimple, hR.G]
  cases hi : aget s.G i with
  | none => simp only [hi] at h ⊢; leaf h hR
  | some h0 =>
    simp only [hi] at h ⊢
    cases hj : aget s.G j with
    | some _ => simp only [hj] at h ⊢; leaf h hR
    | none =>
      simp only [hj] at h ⊢
      cases hacc : h0.fl.isAcc with
      | true =>
        simp only [hacc, if_true] at h ⊢
        cases he : Model.ensureImpl s i with
        | none => simp only [he] at h; simp only [(R_ensure hR i).1 he]; leaf h hR
        | some p =>
          obtain ⟨s1, im⟩ := p
          obtain ⟨t1, ht1, hR1⟩ := (R_ensure hR i).2 s1 im he
          simp only [he, St.fresh] at h
          simp only [ht1, Spec.LSt.fresh, hR1.next, hR1.G]
          leaf h (hR1.fresh'.fresh'.updG _)
      | false =>
        simp only [hacc, Bool.false_eq_true, if_false, St.fresh] at h
        simp only [hacc, Bool.false_eq_true, if_false, Spec.LSt.fresh, hR.next, hR.G]
        have hji : j ≠ i := by intro e; subst e; rw [hi] at hj; contradiction
        have hle : Emit.GLe s.G (aset (aset s.G i { h0 with impl := none }) j
              { obj := s.next, fl := h0.fl, impl := h0.impl, trk := s.next + 1, lvl := h0.lvl }) := by
          refine (Emit.GLe.aset_same (h' := { h0 with impl := none }) hi rfl rfl rfl id).trans (Emit.GLe.aset_new _ ?_)
          rw [Model.aget_aset_other _ _ _ _ hji]; exact hj
        have hh : ∀ p ∈ (aset (aset s.G i { h0 with impl := none }) j
              { obj := s.next, fl := h0.fl, impl := h0.impl, trk := s.next + 1, lvl := h0.lvl }),
              ∀ k, p.2.impl = some k → (aget s.impls k).isSome = true := by
          intro p hp k hk
          rcases Emit.mem_aset hp with hp | hp
          · rcases Emit.mem_aset hp with hp | hp
            · exact hs.himpl p hp k hk
            · subst hp; simp at hk
          · subst hp; exact hs.himpl (i, h0) (Emit.aget_some_mem hi) k hk
        have hR2 := hR.fresh'.fresh'.updG (aset (aset s.G i { h0 with impl := none }) j
              { obj := s.next, fl := h0.fl, impl := h0.impl, trk := s.next + 1, lvl := h0.lvl })
        cases htk : h0.fl.isTrackable with
        | false => simp only [htk, Bool.false_eq_true, if_false] at h ⊢; leaf h hR2
        | true =>
          simp only [htk, if_true] at h ⊢
          have g : Emit.Good0 s { s with next := s.next + 1 + 1, G := (aset (aset s.G i { h0 with impl := none }) j
              { obj := s.next, fl := h0.fl, impl := h0.impl, trk := s.next + 1, lvl := h0.lvl }) } := by
            refine Emit.Good.of_coreG hs ?_ ?_ ?_ ?_ hle hh <;> first | rfl | (simp; done) | (simp; omega)
          leaf h (R_invalidateTrackable g.inv hR2 _)

/-- the common tail of copy assignment (`asgG`, and `masgG` on accumulated signals) -/
theorem sim_assignTail {s s1 : St} {t1 : Spec.LSt} (hs : Emit.Inv s) {j i im : Nat} {d : Handle}
    (hd : aget s.G j = some d) (he : Model.ensureImpl s i = some (s1, im)) (hR1 : R s1 t1) :
    R (match d.impl with
        | some old => gcImpl { s1 with G := aset s1.G j { d with impl := some im } } old
        | none => { s1 with G := aset s1.G j { d with impl := some im } })
      (match d.impl with
        | some old => Spec.gcSig { t1 with G := aset s1.G j { d with impl := some im } } old
        | none => { t1 with G := aset s1.G j { d with impl := some im } }) := by
  obtain ⟨g1, him, _, hgs, _⟩ := Emit.ensureImpl_good hs he
  obtain ⟨d1, hd1, a, b, c, e⟩ := hgs.get hd
  have g2 : Emit.Good0 s1 { s1 with G := aset s1.G j { d with impl := some im } } := by
    apply Emit.Good.setG g1.inv
    · exact Emit.GLe.aset_same hd1 a.symm b.symm c.symm (fun x => by rw [← e]; exact x)
    · intro p hp k hk
      rcases Emit.mem_aset hp with hp | hp
      · exact g1.inv.himpl p hp k hk
      · subst hp; simp at hk; subst hk; exact him
  cases d.impl with
  | none => exact hR1.updG _
  | some old => exact R_gc g2.inv (hR1.updG _) old

theorem step_asgG (j i : Nat) : StepSim (.asgG j i) := by
  intro s t hs hR hq
  refine ⟨?_, by none_case⟩
  intro s' r h
  simp only [Model.stepSimple] at h
  simp only [Spec.stepSimple, hR.G]
  cases hj : aget s.G j <;> cases hi : aget s.G i <;> simp only [hj, hi] at h ⊢
  · leaf h hR
  · leaf h hR
  · leaf h hR
  · rename_i d h0
    split at h
    · rename_i hc; rw [if_pos hc]; leaf h hR
    · rename_i hc; rw [if_neg hc]
      split at h
      · rename_i hc2; rw [if_pos hc2]; leaf h hR
      · rename_i hc2; rw [if_neg hc2]
        split at h
        · rename_i hc3; rw [if_pos hc3]; leaf h hR
        · rename_i hc3; rw [if_neg hc3]
          cases he : Model.ensureImpl s i with
          | none => simp only [he] at h; simp only [(R_ensure hR i).1 he]; leaf h hR
          | some p =>
            obtain ⟨s1, im⟩ := p
            obtain ⟨t1, ht1, hR1⟩ := (R_ensure hR i).2 s1 im he
            simp only [he] at h; simp only [ht1, hR1.G]
            split at h
            · rename_i hc4; rw [if_pos hc4]; leaf h hR1
            · rename_i hc4; rw [if_neg hc4]
              leaf h (sim_assignTail hs hj he hR1)

theorem step_masgG (j i : Nat) : StepSim (.masgG j i) := by
  intro s t hs hR hq
  refine ⟨?_, by none_case⟩
  intro s' r h
  simp only [Model.stepSimple] at h
  simp only [Spec.stepSimple, hR.G]
  cases hj : aget s.G j <;> cases hi : aget s.G i <;> simp only [hj, hi] at h ⊢
  · leaf h hR
  · leaf h hR
  · leaf h hR
  · rename_i d h0
    split at h
    · rename_i hc; rw [if_pos hc]; leaf h hR
    · rename_i hc; rw [if_neg hc]
      split at h
      · rename_i hc2; rw [if_pos hc2]; leaf h hR
      · rename_i hc2; rw [if_neg hc2]
        split at h
        · rename_i hown; have hown' := hown; rw [← hR.ownedG] at hown'; rw [if_pos hown']; leaf h hR
        rename_i hown; have hown' := hown; rw [← hR.ownedG] at hown'; rw [if_neg hown']
        split at h
        · rename_i hacc; rw [if_pos hacc]
          split at h
          · rename_i hc3; rw [if_pos hc3]; leaf h hR
          · rename_i hc3; rw [if_neg hc3]
            cases he : Model.ensureImpl s i with
            | none => simp only [he] at h; simp only [(R_ensure hR i).1 he]; leaf h hR
            | some p =>
              obtain ⟨s1, im⟩ := p
              obtain ⟨t1, ht1, hR1⟩ := (R_ensure hR i).2 s1 im he
              simp only [he] at h; simp only [ht1, hR1.G]
              split at h
              · rename_i hc4; rw [if_pos hc4]; leaf h hR1
              · rename_i hc4; rw [if_neg hc4]
                leaf h (sim_assignTail hs hj he hR1)
        · rename_i hacc; rw [if_neg hacc]
          split at h
          · rename_i hc3; rw [if_pos hc3]; leaf h hR
          · rename_i hji; rw [if_neg hji]
            have g1 : Emit.Good0 s { s with G := aset (aset s.G j { d with impl := h0.impl }) i { h0 with impl := none } } := by
              apply Emit.Good.setG hs
              · refine (Emit.GLe.aset_same (h' := { d with impl := h0.impl }) hj rfl rfl rfl id).trans
                  (Emit.GLe.aset_same (h := h0) (h' := { h0 with impl := none }) ?_ rfl rfl rfl id)
                rw [Model.aget_aset_other _ _ _ _ (Ne.symm hji)]; exact hi
              · intro p hp k hk
                rcases Emit.mem_aset hp with hp | hp
                · rcases Emit.mem_aset hp with hp | hp
                  · exact hs.himpl p hp k hk
                  · subst hp; exact hs.himpl (i, h0) (Emit.aget_some_mem hi) k hk
                · subst hp; simp at hk
            have hR1 := hR.updG (aset (aset s.G j { d with impl := h0.impl }) i { h0 with impl := none })
            have hgR : Emit.Inv (match d.impl with
                | some old => gcImpl { s with G := aset (aset s.G j { d with impl := h0.impl }) i { h0 with impl := none } } old
                | none => { s with G := aset (aset s.G j { d with impl := h0.impl }) i { h0 with impl := none } }) ∧
              R (match d.impl with
                | some old => gcImpl { s with G := aset (aset s.G j { d with impl := h0.impl }) i { h0 with impl := none } } old
                | none => { s with G := aset (aset s.G j { d with impl := h0.impl }) i { h0 with impl := none } })
                (match d.impl with
                | some old => Spec.gcSig { t with G := aset (aset s.G j { d with impl := h0.impl }) i { h0 with impl := none } } old
                | none => { t with G := aset (aset s.G j { d with impl := h0.impl }) i { h0 with impl := none } }) := by
              cases d.impl with
              | none => exact ⟨g1.inv, hR1⟩
              | some old => exact ⟨(g1.andThen (fun h => Emit.Good.gcImpl h old)).inv, R_gc g1.inv hR1 old⟩
            split at h
            · rename_i hc5; rw [if_pos hc5]
              leaf h (R_invalidateTrackable hgR.1 hgR.2 _)
            · rename_i hc5; rw [if_neg hc5]
              leaf h hgR.2

theorem step_delG (i : Nat) : StepSim (.delG i) := by
  intro s t hs hR hq
  refine ⟨?_, by none_case⟩
  intro s' r h
  simp only [Model.stepSimple] at h
  simp only [Spec.stepSimple, hR.G]
  cases hi : aget s.G i with
  | none => simp only [hi] at h ⊢; leaf h hR
  | some hd =>
    simp only [hi] at h ⊢
    split at h
    · rename_i hpin; rw [if_pos hpin]; leaf h hR
    · rename_i hpin; rw [if_neg hpin]
      split at h
      · rename_i hown; have hown' := hown; rw [← hR.ownedG] at hown'; rw [if_pos hown']; leaf h hR
      rename_i hown; have hown' := hown; rw [← hR.ownedG] at hown'; rw [if_neg hown']
      generalize hs1 : (if hd.fl.isTrackable = true then Model.invalidateTrackable s hd.trk else s) = s1 at h
      generalize ht1 : (if hd.fl.isTrackable = true then Spec.invalidateTrackable t hd.trk else t) = t1
      have g1 : Emit.Good0 s s1 := by
        subst hs1; split
        · exact Emit.good_invalidateTrackable hs _
        · exact Emit.Good.refl hs
      have hR1 : R s1 t1 := by
        subst hs1; subst ht1; split
        · exact R_invalidateTrackable hs hR _
        · exact hR
      have i1 := g1.inv
      rw [hR1.G]
      cases him : hd.impl with
      | none => simp only [him] at h ⊢; leaf h (hR1.updG _)
      | some im =>
        simp only [him] at h ⊢
        leaf h (R_gc' (s := { s1 with G := Model.adel s1.G i }) i1.keys i1.lt i1.disj (hR1.updG _) im)

/-- the common tail of `conn` and `connfn`: insert the cell, store its id in connection `k` -/
theorem sim_insertConn {s : St} {t : Spec.LSt} (hR : R s t) (im : Nat) (first : Bool) (sl : SlotB) (k : Nat) :
    (Spec.insertCell t im first sl).2 = (Model.insertCell s im first sl).2 ∧
    R (setConn (Model.insertCell s im first sl).1 k (some (Model.insertCell s im first sl).2))
      { (Spec.insertCell t im first sl).1 with
        C := aset (Spec.insertCell t im first sl).1.C k (some (Model.insertCell s im first sl).2) } := by
  obtain ⟨e, hR2⟩ := R_insert hR im first sl
  exact ⟨e, hR2.updC (hR2.C.set k (Or.inl rfl))⟩

theorem step_conn (k g sv : Nat) (first mv : Bool) : StepSim (.conn k g sv first mv) := by
  intro s t hs hR hq
  refine ⟨?_, by none_case⟩
  intro s' r h
  simp only [Model.stepSimple] at h
  simp only [Spec.stepSimple, hR.G, hR.S]
  cases hg : aget s.G g <;> cases hv : aget s.S sv <;> simp only [hg, hv] at h ⊢
  · leaf h hR
  · leaf h hR
  · leaf h hR
  · rename_i hd v
    split at h
    · rename_i hc; rw [if_pos hc]; leaf h hR
    · rename_i hc; rw [if_neg hc]
      split at h
      · rename_i hc2; rw [if_pos hc2]; leaf h hR
      · rename_i hc2; rw [if_neg hc2]
        split at h
        · rename_i hc3; rw [if_pos hc3]; leaf h hR
        · rename_i hc3; rw [if_neg hc3]
          cases he : Model.ensureImpl s g with
          | none => simp only [he] at h; simp only [(R_ensure hR g).1 he]; leaf h hR
          | some p =>
            obtain ⟨s1, im⟩ := p
            obtain ⟨t1, ht1, hR1⟩ := (R_ensure hR g).2 s1 im he
            simp only [he] at h; simp only [ht1, hR1.S]
            cases mv with
            | false =>
              simp only [Bool.false_eq_true, if_false] at h ⊢
              obtain ⟨e, hR2⟩ := sim_insertConn hR1 im first v.slot.copy k
              rw [e]
              leaf h hR2
            | true =>
              simp only [if_true] at h ⊢
              cases hm : v.slot.move with
              | mk d src =>
                simp only [hm] at h ⊢
                obtain ⟨e, hR2⟩ := sim_insertConn (hR1.updS (aset s1.S sv { v with slot := src })) im first d k
                rw [e]
                leaf h hR2

theorem step_connfn (k g : Nat) (spec : FSpec) (first : Bool) : StepSim (.connfn k g spec first) := by
  intro s t hs hR hq
  refine ⟨?_, by none_case⟩
  intro s' r h
  simp only [Model.stepSimple] at h
  simp only [Spec.stepSimple, hR.G]
  cases hg : aget s.G g with
  | none => simp only [hg] at h ⊢; leaf h hR
  | some hd =>
    simp only [hg] at h ⊢
    cases hm : Model.mkFun s hd.fl.isVoid spec with
    | error e =>
      simp only [hm] at h; simp only [mkFun_sim_err hR _ _ hm]; leaf h hR
    | ok p =>
      obtain ⟨fn, s1⟩ := p
      obtain ⟨t1, ht1, hR1⟩ := mkFun_sim_ok hR _ _ hm
      simp only [hm] at h; simp only [ht1, specTaint_sim hR]
      split at h
      · rename_i hc; rw [if_pos hc]; leaf h hR1
      · rename_i hc; rw [if_neg hc]
        cases he : Model.ensureImpl s1 g with
        | none => simp only [he] at h; simp only [(R_ensure hR1 g).1 he]; leaf h hR
        | some p =>
          obtain ⟨s2, im⟩ := p
          obtain ⟨t2, ht2, hR2⟩ := (R_ensure hR1 g).2 s2 im he
          simp only [he] at h; simp only [ht2]
          obtain ⟨e, hR3⟩ := sim_insertConn hR2 im first
            { blocked := false, rep := some { call := true, fn := some fn } } k
          rw [e]
          leaf h hR3

end Sigc.Refine
