import Sigc.Lemmas.SpecKSimA
/-!
# SpecK — preparation of the mutual induction, part B: the functor invoked at a turn, `handleByObj`,
`modeRule`, prologue and epilogue of an emission on related states.
-/
namespace Sigc.SpecK
open Sigc.Model Sigc.Spec

section
variable {ρ : IdRel} {t u : LSt}

theorem nodup_id_eq {l : List LCell} (hn : (l.map (·.id)).Nodup) {a c : LCell} (ha : a ∈ l) (hc : c ∈ l)
    (e : a.id = c.id) : a = c := by
  induction l with
  | nil => simp at ha
  | cons x tl ih =>
    simp only [List.map_cons, List.nodup_cons] at hn
    rcases List.mem_cons.mp ha with ha | ha <;> rcases List.mem_cons.mp hc with hc | hc
    · rw [ha, hc]
    · exact absurd (by rw [← ha, e]; exact List.mem_map_of_mem (f := (·.id)) hc) hn.1
    · exact absurd (by rw [← hc, ← e]; exact List.mem_map_of_mem (f := (·.id)) ha) hn.1
    · exact ih hn.2 ha hc

theorem find?_filter_of {α : Type} {l : List α} {p q : α → Bool} {c : α} (h : l.find? p = some c) (hq : q c = true) :
    (l.filter q).find? p = some c := by
  induction l with
  | nil => simp at h
  | cons a tl ih =>
    simp only [List.find?_cons] at h
    cases hpa : p a with
    | true =>
      rw [hpa] at h
      simp only [Option.some.injEq] at h
      subst h
      simp [List.filter_cons, hq, hpa]
    | false =>
      rw [hpa] at h
      simp only [List.filter_cons]
      split
      · simp [List.find?_cons, hpa, ih h]
      · exact ih h

/-- the functor invoked at the turn of corresponding entries of corresponding lists -/
theorem callable_sim (h : Q ρ t u) {i i' cid cid' : Nat} (hi : ρ i i') (hc : ρ cid cid') :
    OR (FunR ρ) (callable t i cid) (callable u i' cid') := by
  rw [callable_eq, callable_eq]
  have hg := h.sig_get hi
  cases hx : aget t.sigs i with
  | none =>
    rw [hx] at hg
    generalize aget u.sigs i' = y at hg
    cases hg; exact .none
  | some g =>
    rw [hx] at hg
    generalize aget u.sigs i' = y at hg
    cases hg with
    | @some _ g' hg =>
      have hv := (h.sig_inv hx).2
      simp only [Option.bind]
      have hpart : ∀ c', c' ∈ g'.cells → c'.id = cid' → ∃ a ∈ g.cells, live a = true ∧ a.id = cid ∧ CellR ρ a c' := by
        intro c' hc' e
        obtain ⟨a, ha, hr⟩ := hg.cells.mem_right hc'
        obtain ⟨ha, hl⟩ := List.mem_filter.mp ha
        exact ⟨a, ha, hl, h.pb.inj hr.id (by rw [e]; exact hc), hr⟩
      cases hf : g.cells.find? (fun c => decide (c.id = cid)) with
      | none =>
        cases hf' : g'.cells.find? (fun c => decide (c.id = cid')) with
        | none => exact .none
        | some c' =>
          obtain ⟨a, ha, _, e, _⟩ := hpart c' (List.mem_of_find?_eq_some hf') (by simpa using List.find?_some hf')
          have := List.find?_eq_none.mp hf a ha
          simp [e] at this
      | some c =>
        have hcm := List.mem_of_find?_eq_some hf
        have hcid : c.id = cid := by simpa using List.find?_some hf
        cases hl : live c with
        | true =>
          have h2 := find?_filter_of hf hl
          have h3 := F2.find hg.cells (fun c => decide (c.id = cid)) (fun c => decide (c.id = cid'))
            (fun a b _ _ hr => h.pb.dec hr.id hc)
          rw [h2] at h3
          generalize g'.cells.find? _ = y at h3
          cases h3 with
          | some hr => exact hr.slot.callFn
        | false =>
          simp only [callFn_empty (hv.dead c hcm hl)]
          cases hf' : g'.cells.find? (fun c => decide (c.id = cid')) with
          | none => exact .none
          | some c' =>
            obtain ⟨a, ha, hla, e, _⟩ := hpart c' (List.mem_of_find?_eq_some hf') (by simpa using List.find?_some hf')
            have := nodup_id_eq hv.nodup ha hcm (by rw [e, hcid])
            subst this
            rw [hl] at hla; cases hla

theorem handleByObj_sim (h : Q ρ t u) {o o' : Nat} (ho : ρ o o') :
    OR (fun x y => HandR ρ x.2 y.2) (Spec.handleByObj t o) (Spec.handleByObj u o') := by
  unfold Spec.handleByObj
  exact (F2.find h.G _ _ (fun a b _ _ hr => h.pb.dec hr.2.obj ho)).imp (fun _ _ hr => hr.2)

theorem modeRule_sim (h : Q ρ t u) (P : Prog) (op : Op) : Spec.modeRule P u op = Spec.modeRule P t op := by
  cases op <;> try rfl
  · rename_i k g sv first mv
    simp only [Spec.modeRule, h.steps]
    split
    · rfl
    · split
      · have hS := h.S.get sv
        generalize aget t.S sv = x at hS
        generalize aget u.S sv = y at hS
        cases hS with
        | none => rfl
        | some hv => simp only [hv.slot.empty]
      · rfl
  · simp only [Spec.modeRule, h.steps]

/-! ## the prologue of an emission -/

theorem prologue_sim (h : Q ρ t u) {i i' : Nat} (hi : ρ i i') {g g' : LSig} (hx : aget t.sigs i = some g)
    (hg : SigR ρ g g') :
    Q ρ (setSig { t with next := t.next + 1 } i
          { g with active := g.active + 1, cells := g.cells ++ [{ id := t.next, slot := {}, marker := true }] })
        (setSig { u with next := u.next + 1 } i' { g' with active := g'.active + 1, cells := g'.cells }) := by
  have hv := (h.sig_inv hx).2
  have hb := h.burn
  refine hb.setSig hi ⟨?_, ?_, hg.dirty, hg.limbo, ?_, ?_, ?_⟩ ⟨?_, ?_, ?_, ?_, ?_⟩
  · simp only [List.filter_append]
    simpa [live] using hg.cells
  · simp only [hg.active]
  · intro c hc hl f hf
    simp only [List.mem_append, List.mem_singleton] at hc
    rcases hc with hc | hc
    · exact hg.hold1 c hc hl f hf
    · subst hc; simp [SlotB.fnOf] at hf
  · intro sl hsl f' hf'
    obtain ⟨c, hc, x⟩ := hg.hold2 sl hsl f' hf'
    exact ⟨c, List.mem_append_left _ hc, x⟩
  · intro c hc hm b hb'
    simp only [List.mem_append, List.mem_singleton] at hc
    rcases hc with hc | hc
    · exact hg.nomk c hc hm b hb'
    · subst hc
      have := (h.pb.lt hb').1
      simp at this
  · intro c hc
    simp only [List.mem_append, List.mem_singleton] at hc
    rcases hc with hc | hc
    · exact Nat.lt_succ_of_lt (hv.lt c hc)
    · subst hc; exact Nat.lt_succ_self _
  · simp only [List.map_append, List.map_cons, List.map_nil]
    rw [List.nodup_append]
    refine ⟨hv.nodup, by simp, ?_⟩
    intro a ha b hb'
    simp at hb'; subst hb'
    intro e; subst e
    obtain ⟨c, hc, e⟩ := List.mem_map.mp ha
    have := hv.lt c hc
    omega
  · intro ha; simp at ha
  · intro c hc hl
    simp only [List.mem_append, List.mem_singleton] at hc
    rcases hc with hc | hc
    · exact hv.dead c hc hl
    · subst hc; rfl
  · intro c hc hm
    simp only [List.mem_append, List.mem_singleton] at hc
    rcases hc with hc | hc
    · exact hv.mkslot c hc hm
    · subst hc; rfl

/-! ## the epilogue of an emission -/

/-- the list after the epilogue of an emission with end marker `m` (both configurations) -/
def epi (g2 : LSig) (m : Nat) : LSig :=
  let g3 := { g2 with active := g2.active - 1, cells := g2.cells.filter (·.id ≠ m) }
  let g3 := if g3.active = 0 then { g3 with cells := g3.cells.filter (fun c => !c.zombie), limbo := [] } else g3
  if g3.active = 0 && g3.dirty then { g3 with dirty := false, cells := g3.cells.filter (fun c => !c.slot.empty) }
  else g3

/-- the first configuration's list after the epilogue of the outermost emission -/
def epiOuter (g2 : LSig) (m : Nat) (d : Bool) : LSig :=
  { g2 with active := 0, dirty := d, cells := (g2.cells.filter (·.id ≠ m)).filter (fun c => !c.zombie), limbo := [] }

theorem epi_sim {n n' : Nat} (_hp : PB ρ n n') {g2 g2' : LSig} (hg : SigR ρ g2 g2') (hv : SigInv n g2) {m m' : Nat}
    (hm : ∀ b, ¬ ρ m b) (hm' : ∀ a, ¬ ρ a m') (hpos : 1 ≤ g2.active)
    (hmk : g2.active = 1 → ∀ c ∈ g2.cells, c.marker = true → c.id = m)
    (hmc : ∀ c ∈ g2.cells, c.id = m → c.marker = true) (hsw : sweepClear g2 m = true) :
    SigR ρ (epi g2 m) (epi g2' m') ∧ SigInv n (epi g2 m) ∧ (epi g2 m).active = g2.active - 1 ∧
      (((epi g2 m).cells.filter (·.marker)).map (·.id)) = ((g2.cells.filter (·.marker)).map (·.id)).filter (· ≠ m) := by
  -- live entries are not touched by the removal of the end marker
  have hA : (g2.cells.filter (·.id ≠ m)).filter live = g2.cells.filter live := by
    rw [List.filter_filter]
    apply List.filter_congr
    intro c hc
    cases hl : live c
    · simp
    · have : c.id ≠ m := by
        intro e
        have := hmc c hc e
        unfold live at hl; simp [this] at hl
      simp [this]
  have hA' : g2'.cells.filter (·.id ≠ m') = g2'.cells := by
    rw [List.filter_eq_self]
    intro c' hc'
    obtain ⟨a, _, hr⟩ := hg.cells.mem_right hc'
    have : c'.id ≠ m' := fun e => hm' a.id (by rw [← e]; exact hr.id)
    simp [this]
  have hz' : g2'.cells.filter (fun c => !c.zombie) = g2'.cells := by
    rw [List.filter_eq_self]
    intro c' hc'
    obtain ⟨a, _, hr⟩ := hg.cells.mem_right hc'
    simp [hr.zombie]
  by_cases h1 : g2.active = 1
  · -- the outermost emission of the list ends
    have h1' : g2'.active = 1 := by rw [hg.active]; exact h1
    have hB : ∀ c ∈ (g2.cells.filter (·.id ≠ m)).filter (fun c => !c.zombie), live c = true := by
      intro c hc
      obtain ⟨hc, hz⟩ := List.mem_filter.mp hc
      obtain ⟨hc, hne⟩ := List.mem_filter.mp hc
      unfold live
      cases hmm : c.marker
      · simpa using hz
      · exact absurd (hmk h1 c hc hmm) (by simpa using hne)
    have hBl : ((g2.cells.filter (·.id ≠ m)).filter (fun c => !c.zombie)).filter live = g2.cells.filter live := by
      rw [List.filter_eq_self.mpr hB]
      have e : ∀ l : List LCell, (l.filter (fun c => !c.zombie)).filter live = l.filter live := by
        intro l
        rw [List.filter_filter]
        apply List.filter_congr
        intro c _
        unfold live
        cases c.marker <;> cases c.zombie <;> rfl
      rw [← List.filter_eq_self.mpr hB, e, hA]
    -- the sweep drops nothing
    have hsw' : g2.dirty = true → ((g2.cells.filter (·.id ≠ m)).filter (fun c => !c.zombie)).filter (fun c => !c.slot.empty)
        = (g2.cells.filter (·.id ≠ m)).filter (fun c => !c.zombie) := by
      intro hd
      unfold sweepClear at hsw
      simp only [h1, Nat.sub_self, if_true, beq_self_eq_true, hd, Bool.and_self, Bool.not_true, Bool.false_or] at hsw
      exact List.filter_eq_self.mpr (fun c hc => List.all_eq_true.mp hsw c hc)
    have ek : ∃ d : Bool, epi g2 m = epiOuter g2 m d := by
      unfold epi epiOuter
      simp only [h1, Nat.sub_self, if_true]
      cases hd : g2.dirty
      · exact ⟨false, by simp⟩
      · refine ⟨false, ?_⟩
        rw [if_pos (by simp), hsw' hd]
    have ep : epi g2' m' = { g2' with active := 0, cells := g2'.cells, limbo := [] } := by
      unfold epi
      simp only [h1', Nat.sub_self, if_true, hA', hz', hg.dirty]
      simp
    rw [ep]
    have key : ∀ d : Bool, SigR ρ (epiOuter g2 m d) { g2' with active := 0, cells := g2'.cells, limbo := [] } ∧
        SigInv n (epiOuter g2 m d) := by
      intro d
      unfold epiOuter
      refine ⟨⟨?_, rfl, hg.dirty, rfl, ?_, ?_, ?_⟩, ⟨?_, ?_, ?_, ?_, ?_⟩⟩
      · simp only; rw [hBl]; exact hg.cells
      · intro c hc hl; simp only at hc; rw [hB c hc] at hl; cases hl
      · intro sl hsl; simp at hsl
      · intro c hc; simp only at hc
        exact hg.nomk c (List.mem_filter.mp (List.mem_filter.mp hc).1).1
      · intro c hc; simp only at hc
        exact hv.lt c (List.mem_filter.mp (List.mem_filter.mp hc).1).1
      · exact ((List.filter_sublist.trans List.filter_sublist).map _).nodup hv.nodup
      · intro _ c hc; exact hB c hc
      · intro c hc hl; simp only at hc; rw [hB c hc] at hl; cases hl
      · intro c hc; simp only at hc
        exact hv.mkslot c (List.mem_filter.mp (List.mem_filter.mp hc).1).1
    have hmks : ∀ d : Bool, ((epiOuter g2 m d).cells.filter (·.marker)).map (·.id)
        = ((g2.cells.filter (·.marker)).map (·.id)).filter (· ≠ m) := by
      intro d
      unfold epiOuter
      have e1 : ((g2.cells.filter (·.id ≠ m)).filter (fun c => !c.zombie)).filter (·.marker) = [] := by
        rw [List.filter_eq_nil_iff]
        intro c hc
        have := hB c hc
        unfold live at this
        cases hmm : c.marker <;> simp_all
      have e2 : ((g2.cells.filter (·.marker)).map (·.id)).filter (· ≠ m) = [] := by
        rw [List.filter_eq_nil_iff]
        intro x hx
        obtain ⟨c, hc, e⟩ := List.mem_map.mp hx
        obtain ⟨hc, hmm⟩ := List.mem_filter.mp hc
        simp [← e, hmk h1 c hc hmm]
      simp only [e1, e2, List.map_nil]
    obtain ⟨d, ek⟩ := ek
    rw [ek]
    exact ⟨(key _).1, (key _).2, by simp [epiOuter, h1], hmks _⟩
  · -- an outer emission of the list is still running
    have hn : ¬ g2.active - 1 = 0 := by omega
    have hn' : ¬ g2'.active - 1 = 0 := by rw [hg.active]; exact hn
    have ek : epi g2 m = { g2 with active := g2.active - 1, cells := g2.cells.filter (·.id ≠ m) } := by
      unfold epi; simp [hn]
    have ep : epi g2' m' = { g2' with active := g2'.active - 1, cells := g2'.cells } := by
      unfold epi; simp only [hn', if_false, hA']; simp
    rw [ek, ep]
    refine ⟨⟨?_, ?_, hg.dirty, hg.limbo, ?_, ?_, ?_⟩, ⟨?_, ?_, ?_, ?_, ?_⟩, rfl, ?_⟩
    · simp only; rw [hA]; exact hg.cells
    · simp only [hg.active]
    · intro c hc hl f hf
      exact hg.hold1 c (List.mem_filter.mp hc).1 hl f hf
    · intro sl hsl f' hf'
      obtain ⟨c, hc, hl, f, hf, hr⟩ := hg.hold2 sl hsl f' hf'
      refine ⟨c, List.mem_filter.mpr ⟨hc, ?_⟩, hl, f, hf, hr⟩
      have : c.id ≠ m := by
        intro e
        have hmm := hmc c hc e
        have := hv.mkslot c hc hmm
        simp [SlotB.fnOf, this] at hf
      simp [this]
    · intro c hc; exact hg.nomk c (List.mem_filter.mp hc).1
    · intro c hc; exact hv.lt c (List.mem_filter.mp hc).1
    · exact (List.filter_sublist.map _).nodup hv.nodup
    · intro ha; simp only at ha; omega
    · intro c hc; exact hv.dead c (List.mem_filter.mp hc).1
    · intro c hc; exact hv.mkslot c (List.mem_filter.mp hc).1
    · simp only
      rw [List.filter_filter, List.filter_map, List.filter_filter]
      congr 1
      apply List.filter_congr
      intro c _
      simp [Bool.and_comm]

end

end Sigc.SpecK
