import Sigc.Spec
import Sigc.Lemmas.EmitMutual
/-!
# Refine work package — definitions: the simulation relation `R` between the mechanism model
(`Sigc.Model.St`) and the statement-level specification with the two known findings reproduced
(`Sigc.Spec.LSt`, `k1 = k2 = true`), the trace relation `Allows`, and generic lemmas about pointwise
related lists / association lists.  No property statements here.
-/
namespace Sigc.Refine
open Sigc.Model

/-! ## traces -/

/-- specification event vs model event: equal, or the specification leaves the result open (`*`) -/
inductive EvAllows : Event → Event → Prop
  | same (e : Event) : EvAllows e e
  | star (d : Nat) (text r : String) : EvAllows (.res d text "*") (.res d text r)

/-- pointwise related lists -/
inductive F2 {α β : Type} (r : α → β → Prop) : List α → List β → Prop
  | nil : F2 r [] []
  | cons {a b l m} : r a b → F2 r l m → F2 r (a :: l) (b :: m)

/-- the specification's trace `ts` allows the model's trace `tm` -/
def Allows (ts tm : List Event) : Prop := F2 EvAllows ts tm

/-- specification result string vs model result string -/
def ResAllows (rs rm : String) : Prop := rs = rm ∨ rs = "*"

/-! ## cells, lists -/

/-- the two slot values keep the same owned objects alive -/
def SameHold (a b : SlotB) : Prop := (∀ o, a.holdsT o = b.holdsT o) ∧ (∀ k, a.holdsK k = b.holdsK k)

/-- model cell vs specification entry: a linked cell is a live entry with the same slot value; an
    unlinked cell without rep is an end marker; an unlinked cell with a rep is an entry that left the
    list while an emission runs (its `blocked_` flag and released functor are unobservable) -/
structure CellR (c : Cell) (d : Spec.LCell) : Prop where
  id : d.id = c.id
  marker : d.marker = (!c.linked && c.slot.rep.isNone)
  zombie : d.zombie = (!c.linked && c.slot.rep.isSome)
  slot : d.zombie = false → d.slot = c.slot
  zslot : d.zombie = true → d.slot.empty = true ∧ SameHold c.slot d.slot
  lrep : c.linked = true → c.slot.rep.isSome = true

structure SigR (im : Impl) (g : Spec.LSig) : Prop where
  cells : F2 CellR im.cells g.cells
  active : g.active = im.holders
  dirty : g.dirty = im.deferred
  limbo : g.limbo = []

/-- pointwise related association lists (same keys in the same order) -/
def AR {α β : Type} (r : α → β → Prop) (l : List (Nat × α)) (m : List (Nat × β)) : Prop :=
  F2 (fun p q => p.1 = q.1 ∧ r p.2 q.2) l m

/-- no entry of any list has id `cid`, and none ever will (ids are allocated from `next`) -/
def Gone (sigs : List (Nat × Spec.LSig)) (next : Nat) (cid : Nat) : Prop :=
  cid < next ∧ ∀ p ∈ sigs, ∀ c ∈ p.2.cells, c.id ≠ cid

/-- model connection vs specification connection: equal, or the model has nulled a pointer that
    dangles in the specification -/
def PtrR (sigs : List (Nat × Spec.LSig)) (next : Nat) (pm ps : Option Nat) : Prop :=
  pm = ps ∨ (pm = none ∧ ∃ cid, ps = some cid ∧ Gone sigs next cid)

/-- the simulation relation -/
structure R (s : St) (t : Spec.LSt) : Prop where
  T : t.T = s.T
  S : t.S = s.S
  G : t.G = s.G
  C : AR (PtrR t.sigs t.next) s.C t.C
  K : AR (PtrR t.sigs t.next) s.K t.K
  sigs : AR SigR s.impls t.sigs
  ownedT : t.ownedT = s.ownedT
  ownedK : AR (PtrR t.sigs t.next) s.ownedK t.ownedK
  ownedG : t.ownedG = s.ownedG
  next : t.next = s.next
  depth : t.depth = s.depth
  steps : t.steps = s.steps
  trace : Allows t.trace s.trace
  k1 : t.k1 = true
  k2 : t.k2 = true

/-- outside of every emission (`depth = 0` is reached only between top-level operations) no list is
    being emitted -/
def Quiet (s : St) : Prop := s.depth = 0 → ∀ i, Emit.execOf s i = 0

/-- the cells with an id in `Z` are unlinked (and `Z` is below the allocation counter) -/
def Off (Z : List Nat) (s : St) : Prop :=
  (∀ z ∈ Z, z < s.next) ∧ ∀ p ∈ s.impls, ∀ c ∈ p.2.cells, c.id ∈ Z → c.linked = false

/-- one operation without user code is simulated -/
def StepSim (op : Op) : Prop :=
  ∀ s t, Emit.Inv s → R s t → Quiet s →
    (∀ s' r, Model.stepSimple s op = some (s', r) →
      ∃ t' r', Spec.stepSimple t op = some (t', r') ∧ R s' t' ∧ ResAllows r' r) ∧
    (Model.stepSimple s op = none → Spec.stepSimple t op = none)

/-! ## `F2` -/

section F2
variable {α β : Type} {r : α → β → Prop}

theorem F2.imp {r' : α → β → Prop} {l : List α} {m : List β} (h : F2 r l m)
    (hi : ∀ a b, a ∈ l → b ∈ m → r a b → r' a b) : F2 r' l m := by
  induction h with
  | nil => exact .nil
  | cons hab _ ih =>
    exact .cons (hi _ _ (by simp) (by simp) hab)
      (ih (fun a b ha hb => hi a b (List.mem_cons_of_mem _ ha) (List.mem_cons_of_mem _ hb)))

theorem F2.length {l : List α} {m : List β} (h : F2 r l m) : l.length = m.length := by
  induction h with
  | nil => rfl
  | cons _ _ ih => simp [ih]

theorem F2.append {l l' : List α} {m m' : List β} (h : F2 r l m) (h' : F2 r l' m') : F2 r (l ++ l') (m ++ m') := by
  induction h with
  | nil => exact h'
  | cons hab _ ih => exact .cons hab ih

theorem F2.map {γ δ : Type} {r' : γ → δ → Prop} {l : List α} {m : List β} (h : F2 r l m) (f : α → γ) (g : β → δ)
    (hfg : ∀ a b, a ∈ l → b ∈ m → r a b → r' (f a) (g b)) : F2 r' (l.map f) (m.map g) := by
  induction h with
  | nil => exact .nil
  | cons hab _ ih =>
    exact .cons (hfg _ _ (by simp) (by simp) hab)
      (ih (fun a b ha hb => hfg a b (List.mem_cons_of_mem _ ha) (List.mem_cons_of_mem _ hb)))

theorem F2.filter {l : List α} {m : List β} (h : F2 r l m) (p : α → Bool) (q : β → Bool)
    (hpq : ∀ a b, a ∈ l → b ∈ m → r a b → p a = q b) : F2 r (l.filter p) (m.filter q) := by
  induction h with
  | nil => exact .nil
  | @cons a b l m hab _ ih =>
    have e := hpq a b (by simp) (by simp) hab
    have ih' := ih (fun a b ha hb => hpq a b (List.mem_cons_of_mem _ ha) (List.mem_cons_of_mem _ hb))
    cases hq : q b with
    | true => rw [hq] at e; simp only [List.filter, e, hq]; exact .cons hab ih'
    | false => rw [hq] at e; simp only [List.filter, e, hq]; exact ih'

theorem F2.any {l : List α} {m : List β} (h : F2 r l m) (p : α → Bool) (q : β → Bool)
    (hpq : ∀ a b, a ∈ l → b ∈ m → r a b → p a = q b) : l.any p = m.any q := by
  induction h with
  | nil => rfl
  | @cons a b l m hab _ ih =>
    simp only [List.any_cons]
    rw [hpq a b (by simp) (by simp) hab,
      ih (fun a b ha hb => hpq a b (List.mem_cons_of_mem _ ha) (List.mem_cons_of_mem _ hb))]

theorem F2.all {l : List α} {m : List β} (h : F2 r l m) (p : α → Bool) (q : β → Bool)
    (hpq : ∀ a b, a ∈ l → b ∈ m → r a b → p a = q b) : l.all p = m.all q := by
  induction h with
  | nil => rfl
  | @cons a b l m hab _ ih =>
    simp only [List.all_cons]
    rw [hpq a b (by simp) (by simp) hab,
      ih (fun a b ha hb => hpq a b (List.mem_cons_of_mem _ ha) (List.mem_cons_of_mem _ hb))]

/-- every element on the left has a partner on the right -/
theorem F2.mem_left {l : List α} {m : List β} (h : F2 r l m) {a : α} (ha : a ∈ l) : ∃ b ∈ m, r a b := by
  induction h with
  | nil => simp at ha
  | cons hab _ ih =>
    rcases List.mem_cons.mp ha with e | e
    · subst e; exact ⟨_, by simp, hab⟩
    · obtain ⟨b, hb, hr⟩ := ih e; exact ⟨b, List.mem_cons_of_mem _ hb, hr⟩

theorem F2.mem_right {l : List α} {m : List β} (h : F2 r l m) {b : β} (hb : b ∈ m) : ∃ a ∈ l, r a b := by
  induction h with
  | nil => simp at hb
  | cons hab _ ih =>
    rcases List.mem_cons.mp hb with e | e
    · subst e; exact ⟨_, by simp, hab⟩
    · obtain ⟨a, ha, hr⟩ := ih e; exact ⟨a, List.mem_cons_of_mem _ ha, hr⟩

theorem F2.map_eq {γ : Type} {l : List α} {m : List β} (h : F2 r l m) (f : α → γ) (g : β → γ)
    (hfg : ∀ a b, a ∈ l → b ∈ m → r a b → f a = g b) : l.map f = m.map g := by
  induction h with
  | nil => rfl
  | cons hab _ ih =>
    simp only [List.map_cons]
    rw [hfg _ _ (by simp) (by simp) hab,
      ih (fun a b ha hb => hfg a b (List.mem_cons_of_mem _ ha) (List.mem_cons_of_mem _ hb))]

/-- `find?` with corresponding predicates finds corresponding elements -/
theorem F2.find {l : List α} {m : List β} (h : F2 r l m) (p : α → Bool) (q : β → Bool)
    (hpq : ∀ a b, a ∈ l → b ∈ m → r a b → p a = q b) :
    (l.find? p = none ∧ m.find? q = none) ∨
    (∃ a b, l.find? p = some a ∧ m.find? q = some b ∧ r a b) := by
  induction h with
  | nil => left; exact ⟨rfl, rfl⟩
  | @cons a b l m hab _ ih =>
    have e := hpq a b (by simp) (by simp) hab
    cases hq : q b with
    | true =>
      rw [hq] at e; right
      exact ⟨a, b, by simp [List.find?, e], by simp [List.find?, hq], hab⟩
    | false =>
      rw [hq] at e
      simp only [List.find?, e, hq]
      exact ih (fun a b ha hb => hpq a b (List.mem_cons_of_mem _ ha) (List.mem_cons_of_mem _ hb))

theorem F2.refl_of {l : List α} {r : α → α → Prop} (h : ∀ a ∈ l, r a a) : F2 r l l := by
  induction l with
  | nil => exact .nil
  | cons a t ih => exact .cons (h a (by simp)) (ih (fun x hx => h x (List.mem_cons_of_mem _ hx)))

end F2

/-! ## `AR` -/

section AR
variable {α β : Type} {r : α → β → Prop}

theorem AR.keys {l : List (Nat × α)} {m : List (Nat × β)} (h : AR r l m) : l.map (·.1) = m.map (·.1) :=
  F2.map_eq h _ _ (fun _ _ _ _ hr => hr.1)

theorem AR.imp {r' : α → β → Prop} {l : List (Nat × α)} {m : List (Nat × β)} (h : AR r l m)
    (hi : ∀ k a b, (k, a) ∈ l → (k, b) ∈ m → r a b → r' a b) : AR r' l m :=
  F2.imp h (fun p q hp hq hr => ⟨hr.1, hi p.1 p.2 q.2 hp (by rw [hr.1]; exact hq) hr.2⟩)

theorem AR.get {l : List (Nat × α)} {m : List (Nat × β)} (h : AR r l m) (k : Nat) :
    (aget l k = none ∧ aget m k = none) ∨ (∃ a b, aget l k = some a ∧ aget m k = some b ∧ r a b) := by
  induction h with
  | nil => left; exact ⟨rfl, rfl⟩
  | @cons p q l m hab _ ih =>
    obtain ⟨k1, a⟩ := p
    obtain ⟨k2, b⟩ := q
    obtain ⟨e, hr⟩ := hab
    simp only at e hr
    subst e
    by_cases hk : k1 = k
    · right; exact ⟨a, b, by simp [Model.aget, hk], by simp [Model.aget, hk], hr⟩
    · simp only [Model.aget, hk, if_false]; exact ih

theorem AR.get_some_left {l : List (Nat × α)} {m : List (Nat × β)} (h : AR r l m) {k : Nat} {a : α}
    (ha : aget l k = some a) : ∃ b, aget m k = some b ∧ r a b := by
  rcases h.get k with ⟨h1, _⟩ | ⟨a', b, h1, h2, hr⟩
  · rw [h1] at ha; contradiction
  · rw [h1] at ha; cases ha; exact ⟨b, h2, hr⟩

theorem AR.get_none_left {l : List (Nat × α)} {m : List (Nat × β)} (h : AR r l m) {k : Nat}
    (ha : aget l k = none) : aget m k = none := by
  rcases h.get k with ⟨_, h2⟩ | ⟨a', b, h1, _, _⟩
  · exact h2
  · rw [h1] at ha; contradiction

theorem AR.get_some_right {l : List (Nat × α)} {m : List (Nat × β)} (h : AR r l m) {k : Nat} {b : β}
    (hb : aget m k = some b) : ∃ a, aget l k = some a ∧ r a b := by
  rcases h.get k with ⟨_, h2⟩ | ⟨a, b', h1, h2, hr⟩
  · rw [h2] at hb; contradiction
  · rw [h2] at hb; cases hb; exact ⟨a, h1, hr⟩

theorem AR.get_none_right {l : List (Nat × α)} {m : List (Nat × β)} (h : AR r l m) {k : Nat}
    (hb : aget m k = none) : aget l k = none := by
  rcases h.get k with ⟨h1, _⟩ | ⟨a, b', _, h2, _⟩
  · exact h1
  · rw [h2] at hb; contradiction

theorem AR.set {l : List (Nat × α)} {m : List (Nat × β)} (h : AR r l m) (k : Nat) {a : α} {b : β} (hab : r a b) :
    AR r (aset l k a) (aset m k b) := by
  induction h with
  | nil => exact F2.cons ⟨rfl, hab⟩ .nil
  | @cons p q l m hpq hlm ih =>
    obtain ⟨k1, a1⟩ := p
    obtain ⟨k2, b1⟩ := q
    obtain ⟨e, hr⟩ := hpq
    simp only at e hr
    subst e
    by_cases hk : k1 = k
    · simp only [Model.aset, hk, if_true]; exact F2.cons ⟨rfl, hab⟩ hlm
    · simp only [Model.aset, hk, if_false]; exact F2.cons ⟨rfl, hr⟩ ih

theorem AR.del {l : List (Nat × α)} {m : List (Nat × β)} (h : AR r l m) (k : Nat) :
    AR r (adel l k) (adel m k) := by
  unfold Model.adel
  exact F2.filter h _ _ (fun p q _ _ hr => by simp [hr.1])

theorem AR.map {l : List (Nat × α)} {m : List (Nat × β)} (h : AR r l m) {r' : α → β → Prop} (f : α → α) (g : β → β)
    (hfg : ∀ k a b, (k, a) ∈ l → (k, b) ∈ m → r a b → r' (f a) (g b)) : AR r' (amap l f) (amap m g) := by
  unfold Model.amap
  exact F2.map h _ _ (fun p q hp hq hr => ⟨hr.1, hfg p.1 p.2 q.2 hp (by rw [hr.1]; exact hq) hr.2⟩)

/-- mapping only the left side -/
theorem AR.map_left {l : List (Nat × α)} {m : List (Nat × β)} (h : AR r l m) {r' : α → β → Prop} (f : α → α)
    (hf : ∀ k a b, (k, a) ∈ l → (k, b) ∈ m → r a b → r' (f a) b) : AR r' (amap l f) m := by
  have := h.map (r' := r') f id hf
  unfold Model.amap at this ⊢
  simpa using this

theorem AR.cons {l : List (Nat × α)} {m : List (Nat × β)} (h : AR r l m) (k : Nat) {a : α} {b : β} (hab : r a b) :
    AR r ((k, a) :: l) ((k, b) :: m) := F2.cons ⟨rfl, hab⟩ h

theorem AR.filt {l : List (Nat × α)} {m : List (Nat × β)} (h : AR r l m) (p : Nat × α → Bool) (q : Nat × β → Bool)
    (hpq : ∀ k a b, (k, a) ∈ l → (k, b) ∈ m → r a b → p (k, a) = q (k, b)) : AR r (l.filter p) (m.filter q) :=
  F2.filter h p q (fun x y hx hy hr => by
    obtain ⟨k, a⟩ := x
    obtain ⟨k', b⟩ := y
    obtain ⟨e, hr⟩ := hr
    simp only at e hr; subst e
    exact hpq k a b hx hy hr)

end AR

/-! ## traces -/

theorem Allows.refl (l : List Event) : Allows l l := F2.refl_of (fun e _ => .same e)

theorem Allows.cons_same {ts tm : List Event} (h : Allows ts tm) (e : Event) : Allows (e :: ts) (e :: tm) :=
  .cons (.same e) h

theorem Allows.cons_res {ts tm : List Event} (h : Allows ts tm) (d : Nat) (text : String) {rs rm : String}
    (hr : ResAllows rs rm) : Allows (.res d text rs :: ts) (.res d text rm :: tm) := by
  rcases hr with e | e
  · subst e; exact .cons (.same _) h
  · subst e; exact .cons (.star d text rm) h

theorem ResAllows.refl (r : String) : ResAllows r r := Or.inl rfl

end Sigc.Refine
