import Sigc.Lemmas.RefineMutual
/-!
# Refine work package — the specification's own error flag (`Spec.LSt.err`), part C: the state transformers
of `Sigc.Spec` that never touch it, and `Spec.stepSimple` (which sets it only when `insertCell` finds no list:
excluded when every signal object's list exists, `HI`).
-/
namespace Sigc.Refine
open Sigc.Model

namespace SErr

/-! ## transformers -/

theorem setSig_err (t : Spec.LSt) (i : Nat) (g : Spec.LSig) : (Spec.setSig t i g).err = t.err := rfl

theorem invalidateTrackable_err (t : Spec.LSt) (o : Nat) : (Spec.invalidateTrackable t o).err = t.err := rfl

theorem removeCell_err (t : Spec.LSt) (cid : Nat) : (Spec.removeCell t cid).err = t.err := by
  unfold Spec.removeCell
  split
  · rfl
  · split <;> rfl

theorem updCell_err (t : Spec.LSt) (cid : Nat) (f : Spec.LCell → Spec.LCell) : (Spec.updCell t cid f).err = t.err := by
  unfold Spec.updCell
  split
  · rfl
  · split <;> rfl

theorem gcSig_err (t : Spec.LSt) (i : Nat) : (Spec.gcSig t i).err = t.err := by
  unfold Spec.gcSig
  split
  · rfl
  · split <;> rfl

theorem gcSig_sigs_G (t : Spec.LSt) (i : Nat) : (Spec.gcSig t i).G = t.G := by
  unfold Spec.gcSig
  split
  · rfl
  · split <;> rfl

theorem dropHandle_err (t : Spec.LSt) (g : Nat) : (Spec.dropHandle t g).err = t.err := by
  unfold Spec.dropHandle
  split
  · rfl
  · rename_i h _
    simp only
    split
    · rw [gcSig_err]; simp only; split <;> rfl
    · simp only; split <;> rfl

theorem collectStep_err {t t' : Spec.LSt} (h : Spec.collectStep t = some t') : t'.err = t.err := by
  unfold Spec.collectStep at h
  split at h
  · cases h; rfl
  · split at h
    · simp only [Option.some.injEq] at h
      subst h
      split
      · rw [removeCell_err]
      · rfl
    · split at h
      · cases h; rw [dropHandle_err]
      · cases h

theorem collectN_err (n : Nat) : ∀ t : Spec.LSt, (Spec.collectN n t).err = t.err := by
  induction n with
  | zero => intro t; rfl
  | succ n ih =>
    intro t
    simp only [Spec.collectN]
    split
    · rename_i t' h
      rw [ih, collectStep_err h]
    · rfl

theorem collect_err (t : Spec.LSt) : (Spec.collect t).err = t.err := collectN_err _ t

theorem mkFun_err {t t' : Spec.LSt} {v : Bool} {spec : FSpec} {fn : Fun} (h : Spec.mkFun t v spec = .ok (fn, t')) :
    t'.err = t.err := by
  cases spec <;> simp only [Spec.mkFun] at h <;> (repeat' split at h) <;>
    simp only [Except.ok.injEq, Prod.mk.injEq, reduceCtorEq, Spec.LSt.fresh] at h <;>
    (obtain ⟨-, rfl⟩ := h) <;> rfl

theorem mkFun_sigs {t t' : Spec.LSt} {v : Bool} {spec : FSpec} {fn : Fun} (h : Spec.mkFun t v spec = .ok (fn, t')) :
    t'.sigs = t.sigs := by
  cases spec <;> simp only [Spec.mkFun] at h <;> (repeat' split at h) <;>
    simp only [Except.ok.injEq, Prod.mk.injEq, reduceCtorEq, Spec.LSt.fresh] at h <;>
    (obtain ⟨-, rfl⟩ := h) <;> rfl

/-! ## every signal object's list exists -/

/-- the list of every signal object exists -/
def HI (t : Spec.LSt) : Prop := ∀ g h i, aget t.G g = some h → h.impl = some i → (aget t.sigs i).isSome = true

theorem HI.of_R {s : St} {t : Spec.LSt} (hs : Emit.Inv s) (hR : R s t) : HI t := by
  intro g h i hg hi
  rw [hR.G] at hg
  have := hs.himpl (g, h) (Emit.aget_some_mem hg) i hi
  cases hx : aget s.impls i with
  | none => rw [hx] at this; cases this
  | some im =>
    obtain ⟨g0, hg0, _⟩ := hR.sig_of_impl hx
    rw [hg0]; rfl

/-- `mkFun` changes signal objects only in `everFwd` -/
theorem mkFun_HI {t t' : Spec.LSt} {v : Bool} {spec : FSpec} {fn : Fun} (h : Spec.mkFun t v spec = .ok (fn, t'))
    (hH : HI t) : HI t' := by
  have hs := mkFun_sigs h
  intro g hd i hg hi
  rw [hs]
  cases spec with
  | fwd g0 =>
    simp only [Spec.mkFun] at h
    split at h
    · cases h
    · rename_i h0 hg0
      split at h
      · cases h
      · split at h
        · cases h
        · simp only [Except.ok.injEq, Prod.mk.injEq] at h
          obtain ⟨-, rfl⟩ := h
          simp only at hg
          rw [Emit.aget_aset] at hg
          split at hg
          · rename_i e; subst e; cases hg; exact hH g h0 i hg0 hi
          · exact hH g hd i hg hi
  | _ =>
    simp only [Spec.mkFun] at h <;> (repeat' split at h) <;>
    simp only [Except.ok.injEq, Prod.mk.injEq, reduceCtorEq, Spec.LSt.fresh] at h <;>
    (obtain ⟨-, rfl⟩ := h) <;> exact hH g hd i hg hi

theorem ensureSig_err {t t1 : Spec.LSt} {g im : Nat} (h : Spec.ensureSig t g = some (t1, im)) : t1.err = t.err := by
  unfold Spec.ensureSig at h
  split at h
  · cases h
  · split at h
    · cases h; rfl
    · simp only [Spec.LSt.fresh, Option.some.injEq, Prod.mk.injEq] at h
      obtain ⟨rfl, _⟩ := h; rfl

/-- after `ensureSig` the list of the signal object exists -/
theorem ensureSig_some {t t1 : Spec.LSt} {g im : Nat} (hH : HI t) (h : Spec.ensureSig t g = some (t1, im)) :
    (aget t1.sigs im).isSome = true := by
  unfold Spec.ensureSig at h
  split at h
  · cases h
  · rename_i hd hg
    split at h
    · rename_i i hi
      cases h
      exact hH g hd im hg hi
    · simp only [Spec.LSt.fresh, Option.some.injEq, Prod.mk.injEq] at h
      obtain ⟨rfl, rfl⟩ := h
      simp

theorem insertCell_err {t : Spec.LSt} {i : Nat} (first : Bool) (sl : SlotB) (h : (aget t.sigs i).isSome = true) :
    (Spec.insertCell t i first sl).1.err = t.err := by
  rw [spec_insertCell_eq]
  cases hg : aget t.sigs i with
  | none => rw [hg] at h; cases h
  | some g => rfl

/-! ## `stepSimple` -/

syntax "err_auto" : tactic
macro_rules
  | `(tactic| err_auto) => `(tactic| first
    | rfl
    | exact ensureSig_err (by assumption)
    | exact mkFun_err (by assumption)
    | (simp only [setSig_err, invalidateTrackable_err, removeCell_err, updCell_err, gcSig_err] <;> err_auto)
    | (split <;> err_auto))

macro "errs_tac" h:ident : tactic =>
  `(tactic|
      (simp only [Spec.stepSimple] at $h:ident <;> (repeat' split at $h:ident) <;>
       simp only [Option.some.injEq, Prod.mk.injEq, reduceCtorEq, Spec.LSt.fresh] at $h:ident <;>
       (have h1 := And.left $h) <;> subst h1 <;> err_auto))

/-- the operations without user code other than `conn`/`connfn` never touch the error flag -/
theorem stepSimple_err_other {t t' : Spec.LSt} {op : Op} {r : String}
    (hc : ∀ k g sv first mv, op ≠ .conn k g sv first mv) (hf : ∀ k g f first, op ≠ .connfn k g f first)
    (h : Spec.stepSimple t op = some (t', r)) : t'.err = t.err := by
  cases op
  case conn k g sv first mv => exact absurd rfl (hc k g sv first mv)
  case connfn k g f first => exact absurd rfl (hf k g f first)
  all_goals errs_tac h

theorem stepSimple_err_conn {t t' : Spec.LSt} {k g sv : Nat} {first mv : Bool} {r : String} (hH : HI t)
    (h : Spec.stepSimple t (.conn k g sv first mv) = some (t', r)) : t'.err = t.err := by
  simp only [Spec.stepSimple] at h
  split at h
  · rename_i hd v hg hv
    split at h
    · cases h; rfl
    · split at h
      · cases h; rfl
      · split at h
        · cases h; rfl
        · split at h
          · cases h; rfl
          · rename_i t1 im he
            have h1 := ensureSig_err he
            have h2 := ensureSig_some hH he
            cases mv with
            | true =>
              simp only [if_true, Option.some.injEq, Prod.mk.injEq] at h
              obtain ⟨rfl, _⟩ := h
              simp only
              rw [insertCell_err _ _ (by exact h2)]
              exact h1
            | false =>
              simp only [Bool.false_eq_true, if_false, Option.some.injEq, Prod.mk.injEq] at h
              obtain ⟨rfl, _⟩ := h
              simp only
              rw [insertCell_err _ _ h2]
              exact h1
  · cases h; rfl

theorem stepSimple_err_connfn {t t' : Spec.LSt} {k g : Nat} {f : FSpec} {first : Bool} {r : String} (hH : HI t)
    (h : Spec.stepSimple t (.connfn k g f first) = some (t', r)) : t'.err = t.err := by
  simp only [Spec.stepSimple] at h
  split at h
  · cases h; rfl
  · rename_i hd hg
    split at h
    · cases h; rfl
    · rename_i fn t0 hmk
      have h0 := mkFun_err hmk
      have hH0 := mkFun_HI hmk hH
      split at h
      · cases h; exact h0
      · split at h
        · cases h; rfl
        · rename_i t1 im he
          have h1 := ensureSig_err he
          have h2 := ensureSig_some hH0 he
          simp only [Option.some.injEq, Prod.mk.injEq] at h
          obtain ⟨rfl, _⟩ := h
          simp only
          rw [insertCell_err _ _ h2, h1, h0]

/-- **`stepSimple` never sets the specification's error flag** when every signal object's list exists -/
theorem stepSimple_err {t t' : Spec.LSt} {op : Op} {r : String} (hH : HI t)
    (h : Spec.stepSimple t op = some (t', r)) : t'.err = t.err := by
  by_cases hc : ∃ k g sv first mv, op = .conn k g sv first mv
  · obtain ⟨k, g, sv, first, mv, rfl⟩ := hc
    exact stepSimple_err_conn hH h
  · by_cases hf : ∃ k g f first, op = .connfn k g f first
    · obtain ⟨k, g, f, first, rfl⟩ := hf
      exact stepSimple_err_connfn hH h
    · exact stepSimple_err_other (fun k g sv first mv e => hc ⟨k, g, sv, first, mv, e⟩)
        (fun k g f first e => hf ⟨k, g, f, first, e⟩) h

end SErr

end Sigc.Refine
