import Sigc.Lemmas.InvConn
/-!
# `Bal`: no `signal_impl` is orphaned

`holders` of every impl equals the number `h i` of emissions currently running on it (a ghost index that
the emission prologue increments and the epilogue decrements), and every impl is referenced by a live
signal object or by a running emission.  At top level `h = 0`: every impl is owned by a handle.
-/
namespace Sigc.Inv
open Sigc.Model

/-- some live signal object refers to impl `i` -/
def Ref (G : List (Nat × Handle)) (i : Nat) : Prop := ∃ g hd, aget G g = some hd ∧ hd.impl = some i

/-- `x`: an impl whose reference was just dropped and that `gcImpl` is about to examine -/
def BalW (h : Nat → Nat) (x : Option Nat) (impls : List (Nat × Impl)) (G : List (Nat × Handle)) (next : Nat) :
    Prop :=
  (G.map (·.1)).Nodup ∧
  (∀ i im, aget impls i = some im → im.holders = h i ∧ (some i = x ∨ h i > 0 ∨ Ref G i)) ∧
  (∀ i, next ≤ i → h i = 0)

def Bal (h : Nat → Nat) (s : St) : Prop := BalW h none s.impls s.G s.next

theorem Bal.init : Bal (fun _ => 0) {} :=
  ⟨List.nodup_nil, fun i im hi => by simp [aget] at hi, fun _ _ => rfl⟩

theorem BalW.weaken {h : Nat → Nat} {x : Option Nat} {impls : List (Nat × Impl)} {G : List (Nat × Handle)}
    {n : Nat} (hb : BalW h none impls G n) : BalW h x impls G n :=
  ⟨hb.1, fun i im hi => ⟨(hb.2.1 i im hi).1, by
      rcases (hb.2.1 i im hi).2 with e | e
      · cases e
      · exact Or.inr e⟩, hb.2.2⟩

theorem BalW.mono_next {h : Nat → Nat} {x : Option Nat} {impls : List (Nat × Impl)} {G : List (Nat × Handle)}
    {n n' : Nat} (hb : BalW h x impls G n) (hn : n ≤ n') : BalW h x impls G n' :=
  ⟨hb.1, hb.2.1, fun i hi => hb.2.2 i (Nat.le_trans hn hi)⟩

/-- replace an existing impl by one with the same `holders` -/
theorem BalW.aset_same {h : Nat → Nat} {x : Option Nat} {impls : List (Nat × Impl)} {G : List (Nat × Handle)}
    {n : Nat} (hb : BalW h x impls G n) {i : Nat} {im im' : Impl} (hi : aget impls i = some im)
    (hh : im'.holders = im.holders) : BalW h x (aset impls i im') G n := by
  refine ⟨hb.1, ?_, hb.2.2⟩
  intro j jm hj
  rw [aget_aset] at hj
  split at hj
  · rename_i e; subst e; cases hj
    exact ⟨hh.trans (hb.2.1 j im hi).1, (hb.2.1 j im hi).2⟩
  · exact hb.2.1 j jm hj

theorem BalW.adel {h : Nat → Nat} {x : Option Nat} {impls : List (Nat × Impl)} {G : List (Nat × Handle)}
    {n : Nat} (hb : BalW h x impls G n) (i : Nat) : BalW h x (Model.adel impls i) G n := by
  refine ⟨hb.1, ?_, hb.2.2⟩
  intro j jm hj
  rw [aget_adel] at hj
  split at hj
  · cases hj
  · exact hb.2.1 j jm hj

/-- the handles change: every reference is kept, except possibly the one to `y` -/
theorem BalW.setG {h : Nat → Nat} {impls : List (Nat × Impl)} {G G' : List (Nat × Handle)} {n : Nat}
    (hb : BalW h none impls G n) (y : Option Nat) (hk : (G'.map (·.1)).Nodup)
    (hr : ∀ i, Ref G i → some i = y ∨ Ref G' i) : BalW h y impls G' n := by
  refine ⟨hk, ?_, hb.2.2⟩
  intro j jm hj
  refine ⟨(hb.2.1 j jm hj).1, ?_⟩
  rcases (hb.2.1 j jm hj).2 with e | e | e
  · cases e
  · exact Or.inr (Or.inl e)
  · rcases hr j e with a | a
    · exact Or.inl a
    · exact Or.inr (Or.inr a)

theorem bal_prims (h : Nat → Nat) (x : Option Nat) : PrimsA (fun s => BalW h x s.impls s.G s.next) where
  upd s i im g e d _ hb hi _ := hb.aset_same hi rfl
  filter s i im p d ids _ hb hi _ := by
    show BalW h x (nullConnsList _ _).impls (nullConnsList _ _).G (nullConnsList _ _).next
    simp only [nullConnsList_impls, nullConnsList_G, nullConnsList_next]
    exact hb.aset_same hi rfl
  delImpl s i im _ hb _ _ _ := by
    show BalW h x (nullConnsList _ _).impls (nullConnsList _ _).G (nullConnsList _ _).next
    simp only [nullConnsList_impls, nullConnsList_G, nullConnsList_next]
    exact hb.adel i
  invalS s t _ hb := hb

/-- `gcImpl` settles the pending reference drop -/
theorem BalW.gcImpl {h : Nat → Nat} {s : St} {i : Nat} (hb : BalW h (some i) s.impls s.G s.next) :
    Bal h (gcImpl s i) := by
  unfold Model.gcImpl
  split
  · rename_i hn
    refine ⟨hb.1, ?_, hb.2.2⟩
    intro j jm hj
    refine ⟨(hb.2.1 j jm hj).1, ?_⟩
    rcases (hb.2.1 j jm hj).2 with e | e
    · have e' : j = i := Option.some.inj e
      rw [e', hn] at hj; cases hj
    · exact Or.inr e
  · rename_i im hi
    split
    · show BalW h none (nullConnsList _ _).impls (nullConnsList _ _).G (nullConnsList _ _).next
      simp only [nullConnsList_impls, nullConnsList_G, nullConnsList_next]
      refine ⟨hb.1, ?_, hb.2.2⟩
      intro j jm hj
      rw [aget_adel] at hj
      split at hj
      · cases hj
      · rename_i hne
        refine ⟨(hb.2.1 j jm hj).1, ?_⟩
        rcases (hb.2.1 j jm hj).2 with e | e
        · exact absurd (Option.some.inj e) hne
        · exact Or.inr e
    · rename_i hc
      refine ⟨hb.1, ?_, hb.2.2⟩
      intro j jm hj
      refine ⟨(hb.2.1 j jm hj).1, ?_⟩
      rcases (hb.2.1 j jm hj).2 with e | e
      · have e' : j = i := Option.some.inj e
        rw [e', hi] at hj
        rw [e']
        cases hj
        simp only [Bool.and_eq_true, decide_eq_true_eq, Bool.not_eq_true', not_and, Bool.not_eq_false] at hc
        by_cases h0 : im.holders = 0
        · have := hc h0
          obtain ⟨p, hp, he⟩ := List.any_eq_true.1 this
          exact Or.inr (Or.inr ⟨p.1, p.2, aget_of_mem hb.1 hp, by simpa using he⟩)
        · right; left
          rw [← (hb.2.1 i im hi).1]; omega
      · exact Or.inr e

/-! ### references under handle updates -/

theorem ref_step_aset {G : List (Nat × Handle)} {g : Nat} {hd' : Handle} (old : Option Nat)
    (hold : ∀ hd, aget G g = some hd → hd.impl = old ∨ hd.impl = hd'.impl) :
    ∀ i, Ref G i → some i = old ∨ Ref (aset G g hd') i := by
  rintro i ⟨g0, hd0, hg0, hi0⟩
  by_cases e : g0 = g
  · subst e
    rcases hold hd0 hg0 with a | a
    · left; rw [← a, hi0]
    · right; exact ⟨g0, hd', by simp, a ▸ hi0⟩
  · right; exact ⟨g0, hd0, by rw [aget_aset_other _ _ _ _ e]; exact hg0, hi0⟩

theorem ref_step_adel {G : List (Nat × Handle)} {g : Nat} (old : Option Nat)
    (hold : ∀ hd, aget G g = some hd → hd.impl = old) :
    ∀ i, Ref G i → some i = old ∨ Ref (adel G g) i := by
  rintro i ⟨g0, hd0, hg0, hi0⟩
  by_cases e : g0 = g
  · subst e; left; rw [← hold hd0 hg0, hi0]
  · right; exact ⟨g0, hd0, by rw [aget_adel_other _ _ _ e]; exact hg0, hi0⟩

theorem Bal.fail {h : Nat → Nat} {s : St} (m : String) (hb : Bal h s) : Bal h (s.fail m) := by
  unfold St.fail; split <;> exact hb

theorem Bal.ensure {h : Nat → Nat} {s s1 : St} {g i : Nat} (hb : Bal h s)
    (he : ensureImpl s g = some (s1, i)) : Bal h s1 := by
  unfold Model.ensureImpl at he
  split at he
  · cases he
  · rename_i hd hg
    split at he
    · cases he; exact hb
    · rename_i hnone
      simp only [St.fresh, Option.some.injEq, Prod.mk.injEq] at he
      obtain ⟨rfl, rfl⟩ := he
      refine ⟨keys_nodup_aset hb.1 _ _, ?_, fun j hj => hb.2.2 j (Nat.le_of_succ_le hj)⟩
      have hr : ∀ j, Ref s.G j → Ref (aset s.G g { hd with impl := some s.next }) j := by
        intro j hj
        rcases ref_step_aset (hd' := { hd with impl := some s.next }) none
          (fun hd0 e => by rw [hg] at e; cases e; exact Or.inl hnone) j hj with a | a
        · cases a
        · exact a
      intro j jm hj
      simp only at hj
      rw [aget_aset] at hj
      split at hj
      · rename_i e; subst e; cases hj
        exact ⟨(hb.2.2 _ (Nat.le_refl _)).symm, Or.inr (Or.inr ⟨g, _, aget_aset_same _ _ _, rfl⟩)⟩
      · refine ⟨(hb.2.1 j jm hj).1, ?_⟩
        rcases (hb.2.1 j jm hj).2 with e | e | e
        · cases e
        · exact Or.inr (Or.inl e)
        · exact Or.inr (Or.inr (hr j e))

theorem Bal.mkF {h : Nat → Nat} {s s' : St} {v : Bool} {spec : FSpec} {fn : Fun} (hb : Bal h s)
    (hm : mkFun s v spec = .ok (fn, s')) : Bal h s' := by
  obtain ⟨h1, h2, _⟩ := mkFun_frame hm
  unfold Bal
  rw [h1]
  rcases mkFun_G hm with e | ⟨g, hd, hg, e⟩
  · rw [e]; exact hb.mono_next h2
  · rw [e]
    refine (BalW.setG hb none (keys_nodup_aset hb.1 _ _) ?_).mono_next h2
    exact ref_step_aset none (fun hd0 e0 => by rw [hg] at e0; cases e0; exact Or.inr rfl)

theorem Bal.insert {h : Nat → Nat} {s : St} (i : Nat) (first : Bool) (sl : SlotB) (hb : Bal h s) :
    Bal h (insertCell s i first sl).fst := by
  unfold Model.insertCell
  simp only [St.fresh]
  split
  · exact Bal.fail _ (hb.mono_next (Nat.le_succ _))
  · rename_i im hi
    show BalW h none (aset s.impls i _) s.G (s.next + 1)
    refine (BalW.aset_same hb hi ?_).mono_next (Nat.le_succ _)
    rfl

/-- one more emission runs on impl `i` -/
def bump (h : Nat → Nat) (i : Nat) : Nat → Nat := fun j => if j = i then h j + 1 else h j

theorem Bal.pro {h : Nat → Nat} {s : St} {i : Nat} {im : Impl} (hw : WF s) (hb : Bal h s)
    (hi : aget s.impls i = some im) : Bal (bump h i) (emitPro s i im) := by
  refine ⟨hb.1, ?_, ?_⟩
  · intro j jm hj
    simp only [emitPro, St.fresh, setImpl_impls] at hj
    rw [aget_aset] at hj
    split at hj
    · rename_i e; subst e; cases hj
      refine ⟨?_, Or.inr (Or.inl ?_)⟩
      · simp [bump, (hb.2.1 j im hi).1]
      · simp [bump]
    · rename_i hne
      refine ⟨by simp [bump, hne, (hb.2.1 j jm hj).1], ?_⟩
      rcases (hb.2.1 j jm hj).2 with e | e | e
      · cases e
      · exact Or.inr (Or.inl (by simpa [bump, hne] using e))
      · exact Or.inr (Or.inr e)
  · intro j hj
    have hlt := hw.keyLt i im hi
    have hne : j ≠ i := by
      simp only [emitPro, St.fresh, setImpl_next] at hj
      omega
    simp only [bump, hne, if_false]
    exact hb.2.2 j (by simp only [emitPro, St.fresh, setImpl_next] at hj; omega)

/-- the holder is released: the reference drop on `i` is pending -/
theorem Bal.drop {h : Nat → Nat} {s : St} {i : Nat} (hb : Bal (bump h i) s) :
    BalW h (some i) (dropHolder s i).impls (dropHolder s i).G (dropHolder s i).next := by
  have h3 : ∀ j, s.next ≤ j → h j = 0 := by
    intro j hj
    have := hb.2.2 j hj
    by_cases e : j = i
    · simp [bump, e] at this
    · simpa [bump, e] using this
  have hother : ∀ j jm, j ≠ i → aget s.impls j = some jm →
      jm.holders = h j ∧ (some j = some i ∨ h j > 0 ∨ Ref s.G j) := by
    intro j jm hne hj
    have := hb.2.1 j jm hj
    simp only [bump, hne, if_false] at this
    refine ⟨this.1, ?_⟩
    rcases this.2 with e | e
    · cases e
    · exact Or.inr e
  unfold Inv.dropHolder
  split
  · rename_i hn
    refine ⟨hb.1, ?_, h3⟩
    intro j jm hj
    by_cases e : j = i
    · rw [e, hn] at hj; cases hj
    · exact hother j jm e hj
  · rename_i im hi
    refine ⟨hb.1, ?_, h3⟩
    intro j jm hj
    simp only [setImpl_impls] at hj
    rw [aget_aset] at hj
    split at hj
    · rename_i e; subst e; cases hj
      have := (hb.2.1 j im hi).1
      simp only [bump, if_true] at this
      exact ⟨by simp only; omega, Or.inl rfl⟩
    · rename_i e
      exact hother j jm e hj

/-- if the impl is gone at the end of the emission nothing is pending -/
theorem Bal.unbump_none {h : Nat → Nat} {s : St} {i : Nat} (hb : Bal (bump h i) s)
    (hn : aget s.impls i = none) : Bal h s := by
  have := Bal.drop hb
  have e : dropHolder s i = s := by simp [Inv.dropHolder, hn]
  rw [e] at this
  refine ⟨this.1, ?_, this.2.2⟩
  intro j jm hj
  refine ⟨(this.2.1 j jm hj).1, ?_⟩
  rcases (this.2.1 j jm hj).2 with a | a
  · have e' : j = i := Option.some.inj a
    rw [e', hn] at hj; cases hj
  · exact Or.inr a

end Sigc.Inv
