import Sigc.Lemmas.RefineBasic
/-!
# Refine work package — simulation of the operations without user code, part A:
`mkFun` / `specTaint` agree on related states; `StepSim` for the operations on trackables, slot variables,
`newG`, connections and scoped connections that do not touch the signals' lists.
-/
set_option linter.unusedSimpArgs false
namespace Sigc.Refine
open Sigc.Model

/-! ## rebuilding `R` after equal updates on both sides -/

theorem R.updT {s : St} {t : Spec.LSt} (hR : R s t) (x : List (Nat × Nat)) : R { s with T := x } { t with T := x } :=
  ⟨rfl, hR.S, hR.G, hR.C, hR.K, hR.sigs, hR.ownedT, hR.ownedK, hR.ownedG, hR.next, hR.depth, hR.steps, hR.trace, hR.k1, hR.k2⟩

theorem R.updS {s : St} {t : Spec.LSt} (hR : R s t) (x : List (Nat × SlotVar)) : R { s with S := x } { t with S := x } :=
  ⟨hR.T, rfl, hR.G, hR.C, hR.K, hR.sigs, hR.ownedT, hR.ownedK, hR.ownedG, hR.next, hR.depth, hR.steps, hR.trace, hR.k1, hR.k2⟩

theorem R.updG {s : St} {t : Spec.LSt} (hR : R s t) (x : List (Nat × Handle)) : R { s with G := x } { t with G := x } :=
  ⟨hR.T, hR.S, rfl, hR.C, hR.K, hR.sigs, hR.ownedT, hR.ownedK, hR.ownedG, hR.next, hR.depth, hR.steps, hR.trace, hR.k1, hR.k2⟩

theorem R.updOwnedT {s : St} {t : Spec.LSt} (hR : R s t) (x : List Nat) :
    R { s with ownedT := x } { t with ownedT := x } :=
  ⟨hR.T, hR.S, hR.G, hR.C, hR.K, hR.sigs, rfl, hR.ownedK, hR.ownedG, hR.next, hR.depth, hR.steps, hR.trace, hR.k1, hR.k2⟩

theorem R.updC {s : St} {t : Spec.LSt} (hR : R s t) {x y : List (Nat × Option Nat)}
    (h : AR (PtrR t.sigs t.next) x y) : R { s with C := x } { t with C := y } :=
  ⟨hR.T, hR.S, hR.G, h, hR.K, hR.sigs, hR.ownedT, hR.ownedK, hR.ownedG, hR.next, hR.depth, hR.steps, hR.trace, hR.k1, hR.k2⟩

theorem R.updK {s : St} {t : Spec.LSt} (hR : R s t) {x y : List (Nat × Option Nat)}
    (h : AR (PtrR t.sigs t.next) x y) : R { s with K := x } { t with K := y } :=
  ⟨hR.T, hR.S, hR.G, hR.C, h, hR.sigs, hR.ownedT, hR.ownedK, hR.ownedG, hR.next, hR.depth, hR.steps, hR.trace, hR.k1, hR.k2⟩

theorem R.updOwnedK {s : St} {t : Spec.LSt} (hR : R s t) {x y : List (Nat × Option Nat)}
    (h : AR (PtrR t.sigs t.next) x y) : R { s with ownedK := x } { t with ownedK := y } :=
  ⟨hR.T, hR.S, hR.G, hR.C, hR.K, hR.sigs, hR.ownedT, h, hR.ownedG, hR.next, hR.depth, hR.steps, hR.trace, hR.k1, hR.k2⟩

theorem R.updOwnedG' {s : St} {t : Spec.LSt} (hR : R s t) {x y : List (Nat × Nat)} (h : y = x) :
    R { s with ownedG := x } { t with ownedG := y } :=
  ⟨hR.T, hR.S, hR.G, hR.C, hR.K, hR.sigs, hR.ownedT, hR.ownedK, h, hR.next, hR.depth, hR.steps, hR.trace, hR.k1, hR.k2⟩

theorem R.updOwnedG {s : St} {t : Spec.LSt} (hR : R s t) (x : List (Nat × Nat)) :
    R { s with ownedG := x } { t with ownedG := x } :=
  ⟨hR.T, hR.S, hR.G, hR.C, hR.K, hR.sigs, hR.ownedT, hR.ownedK, rfl, hR.next, hR.depth, hR.steps, hR.trace, hR.k1, hR.k2⟩

/-- allocation of one id on both sides -/
theorem R.fresh {s : St} {t : Spec.LSt} (hR : R s t) :
    R { s with next := s.next + 1 } { t with next := t.next + 1 } :=
  ⟨hR.T, hR.S, hR.G, ptrs_next (Nat.le_succ _) hR.C, ptrs_next (Nat.le_succ _) hR.K, hR.sigs, hR.ownedT,
    ptrs_next (Nat.le_succ _) hR.ownedK, hR.ownedG, by simp [hR.next], hR.depth, hR.steps, hR.trace, hR.k1, hR.k2⟩

/-- the same with the specification's counter already rewritten to the model's -/
theorem R.fresh' {s : St} {t : Spec.LSt} (hR : R s t) :
    R { s with next := s.next + 1 } { t with next := s.next + 1 } := by
  have := hR.fresh
  rw [hR.next] at this
  exact this

/-! ## functor specs -/

theorem specTaint_sim {s : St} {t : Spec.LSt} (hR : R s t) (spec : FSpec) :
    Spec.specTaint t spec = Model.specTaint s spec := by
  cases spec with
  | nest sv => simp only [Spec.specTaint, Model.specTaint, hR.S]; cases aget s.S sv <;> rfl
  | fwd g => simp only [Spec.specTaint, Model.specTaint, hR.G]; cases aget s.G g <;> rfl
  | _ => rfl

theorem mkFun_sim_err {s : St} {t : Spec.LSt} (hR : R s t) (v : Bool) (spec : FSpec) {e : String}
    (h : Model.mkFun s v spec = .error e) : Spec.mkFun t v spec = .error e := by
  cases spec with
  | ownK fid k =>
    simp only [Model.mkFun] at h
    simp only [Spec.mkFun]
    rcases hR.K.get k with ⟨h1, h2⟩ | ⟨a, b, h1, h2, hr⟩
    · rw [h1] at h; rw [h2]; simpa using h
    · rw [h1] at h; simp [St.fresh] at h
  | fn fid => simp [Model.mkFun] at h
  | mem fid t0 | bref fid t0 | ownT fid t0 =>
    simp only [Model.mkFun] at h
    simp only [Spec.mkFun, hR.T]
    split at h
    · rename_i h1; simp only [h1]; simpa using h
    · simp at h
  | trk fid t1 t2 =>
    simp only [Model.mkFun] at h
    simp only [Spec.mkFun, hR.T]
    split at h
    · rename_i h1; simp only [h1]; simpa using h
    · rename_i o1 h1
      simp only [h1]
      split at h
      · simp at h
      · split at h
        · rename_i h2; simp only [h2]; simpa using h
        · simp at h
  | nest sv =>
    simp only [Model.mkFun] at h
    simp only [Spec.mkFun, hR.S]
    split at h
    · rename_i h1; simp only [h1]; simpa using h
    · rename_i v0 h1
      simp only [h1]
      split at h
      · rename_i h2; simp only [h2, if_true]; simpa using h
      · simp at h
  | fwd g =>
    simp only [Model.mkFun] at h
    simp only [Spec.mkFun, hR.G, hR.ownedG]
    split at h
    · rename_i h1; simp only [h1]; simpa using h
    · rename_i v0 h1
      simp only [h1]
      split at h
      · rename_i h2; simp only [h2, if_true]; simpa using h
      · rename_i h2
        simp only [h2]
        split at h
        · rename_i h3; simp only [h3, if_true]; simpa using h
        · simp at h
  | ownG fid g =>
    simp only [Model.mkFun] at h
    simp only [Spec.mkFun, hR.G, hR.ownedG]
    split at h
    · rename_i h1; simp only [h1]; simpa using h
    · rename_i v0 h1
      simp only [h1]
      split at h
      · rename_i h2; simp only [h2, if_true]; simpa using h
      · rename_i h2
        simp only [h2]
        split at h
        · rename_i h3; simp only [h3, if_true]; simpa using h
        · simp [St.fresh] at h
  | bad => simp only [Model.mkFun] at h; simp only [Spec.mkFun]; simpa using h

theorem mkFun_sim_ok {s : St} {t : Spec.LSt} (hR : R s t) (v : Bool) (spec : FSpec) {fn : Fun} {s' : St}
    (h : Model.mkFun s v spec = .ok (fn, s')) : ∃ t', Spec.mkFun t v spec = .ok (fn, t') ∧ R s' t' := by
  cases spec with
  | ownK fid k =>
    simp only [Model.mkFun] at h
    simp only [Spec.mkFun]
    rcases hR.K.get k with ⟨h1, h2⟩ | ⟨a, b, h1, h2, hr⟩
    · rw [h1] at h; simp at h
    · rw [h1] at h; rw [h2]
      simp only [St.fresh] at h
      simp only [Spec.LSt.fresh, hR.next]
      simp at h; obtain ⟨rfl, rfl⟩ := h
      refine ⟨_, rfl, ?_⟩
      have hR' := hR.fresh
      have hK : AR (PtrR t.sigs (t.next + 1)) (adel s.K k) (adel t.K k) := hR'.K.del k
      have hO : AR (PtrR t.sigs (t.next + 1)) ((s.next, a) :: s.ownedK) ((s.next, b) :: t.ownedK) :=
        hR'.ownedK.cons s.next (hr.mono (Nat.le_succ _) (SigsLe.refl _ _))
      have := (hR'.updK hK).updOwnedK hO
      rw [hR.next] at this
      exact this
  | fn fid =>
    simp only [Model.mkFun] at h
    simp at h; obtain ⟨rfl, rfl⟩ := h
    exact ⟨t, rfl, hR⟩
  | mem fid t0 | bref fid t0 =>
    simp only [Model.mkFun] at h
    simp only [Spec.mkFun, hR.T]
    split at h
    · simp at h
    · rename_i o h1
      simp only [h1]
      simp at h; obtain ⟨rfl, rfl⟩ := h
      exact ⟨t, rfl, hR⟩
  | ownT fid t0 =>
    simp only [Model.mkFun] at h
    simp only [Spec.mkFun, hR.T, hR.ownedT]
    split at h
    · simp at h
    · rename_i o h1
      simp only [h1]
      simp at h; obtain ⟨rfl, rfl⟩ := h
      exact ⟨_, rfl, (hR.updT _).updOwnedT _⟩
  | trk fid t1 t2 =>
    simp only [Model.mkFun] at h
    simp only [Spec.mkFun, hR.T]
    split at h
    · simp at h
    · rename_i o1 h1
      simp only [h1]
      split at h
      · simp at h; obtain ⟨rfl, rfl⟩ := h
        exact ⟨t, rfl, hR⟩
      · split at h
        · simp at h
        · rename_i o2 h2
          simp only [h2]
          simp at h; obtain ⟨rfl, rfl⟩ := h
          exact ⟨t, rfl, hR⟩
  | nest sv =>
    simp only [Model.mkFun] at h
    simp only [Spec.mkFun, hR.S]
    split at h
    · simp at h
    · rename_i v0 h1
      simp only [h1]
      split at h
      · simp at h
      · rename_i h2
        simp only [h2]
        simp at h; obtain ⟨rfl, rfl⟩ := h
        exact ⟨t, rfl, hR⟩
  | fwd g =>
    simp only [Model.mkFun] at h
    simp only [Spec.mkFun, hR.G]
    split at h
    · simp at h
    · rename_i v0 h1
      simp only [h1]
      split at h
      · simp at h
      · rename_i h2
        simp only [h2]
        split at h
        · simp at h
        · rename_i h3
          rw [← hR.ownedG] at h3
          simp only [h3]
          simp at h; obtain ⟨rfl, rfl⟩ := h
          exact ⟨_, rfl, hR.updG _⟩
  | ownG fid g =>
    simp only [Model.mkFun] at h
    simp only [Spec.mkFun, hR.G, hR.ownedG]
    split at h
    · simp at h
    · rename_i v0 h1
      simp only [h1]
      split at h
      · simp at h
      · rename_i h2
        simp only [h2]
        split at h
        · simp at h
        · rename_i h3
          simp only [h3]
          simp only [St.fresh] at h
          simp only [Spec.LSt.fresh, hR.next]
          simp at h; obtain ⟨rfl, rfl⟩ := h
          refine ⟨_, rfl, ?_⟩
          have := hR.fresh.updOwnedG' (x := (s.next, g) :: s.ownedG) (y := (s.next, g) :: t.ownedG)
            (by rw [hR.ownedG])
          rw [hR.next] at this
          exact this
  | bad => simp [Model.mkFun] at h


/-! ## the operations -/

/-- the model never refuses these operations -/
local macro "none_case" : tactic =>
  `(tactic| (intro h; simp only [Model.stepSimple] at h; repeat' (first | (simp at h; done) | split at h)))

/-- close a leaf: `h : some (a, b) = some (s', r)`, the goal's specification side is reduced to `some _` -/
local macro "leaf" h:ident hR:term : tactic =>
  `(tactic| (cases $h:ident; exact ⟨_, _, rfl, $hR, .refl _⟩))

theorem step_newT (k : Nat) : StepSim (.newT k) := by
  intro s t hs hR hq
  refine ⟨?_, by none_case⟩
  intro s' r h
  simp only [Model.stepSimple] at h
  simp only [Spec.stepSimple, hR.T]
  cases hk : aget s.T k with
  | some o => simp only [hk] at h ⊢; leaf h hR
  | none =>
    simp only [hk, St.fresh] at h
    simp only [hk, Spec.LSt.fresh, hR.next, hR.T]
    leaf h (hR.fresh'.updT _)

theorem step_cpT (j i : Nat) : StepSim (.cpT j i) := by
  intro s t hs hR hq
  refine ⟨?_, by none_case⟩
  intro s' r h
  simp only [Model.stepSimple] at h
  simp only [Spec.stepSimple, hR.T]
  cases hi : aget s.T i with
  | none => simp only [hi] at h ⊢; leaf h hR
  | some oi =>
    simp only [hi] at h ⊢
    cases hj : aget s.T j with
    | some oj => simp only [hj] at h ⊢; leaf h hR
    | none =>
      simp only [hj, St.fresh] at h
      simp only [hj, Spec.LSt.fresh, hR.next, hR.T]
      leaf h (hR.fresh'.updT _)

theorem step_mkS (i : Nat) (ty : String) (spec : FSpec) : StepSim (.mkS i ty spec) := by
  intro s t hs hR hq
  refine ⟨?_, by none_case⟩
  intro s' r h
  simp only [Model.stepSimple] at h
  simp only [Spec.stepSimple, hR.S]
  cases hi : aget s.S i with
  | some v => simp only [hi] at h ⊢; leaf h hR
  | none =>
    simp only [hi] at h ⊢
    split at h
    · rename_i hc; simp only [hc, ↓reduceIte]; leaf h hR
    · rename_i hc; simp only [hc, ↓reduceIte]
      split at h
      · rename_i e hm
        simp only [mkFun_sim_err hR _ _ hm]; leaf h hR
      · rename_i fn s1 hm
        obtain ⟨t1, ht1, hR1⟩ := mkFun_sim_ok hR _ _ hm
        simp only [ht1, specTaint_sim hR, hR1.S]
        leaf h (hR1.updS _)

theorem step_mkS0 (i : Nat) (ty : String) : StepSim (.mkS0 i ty) := by
  intro s t hs hR hq
  refine ⟨?_, by none_case⟩
  intro s' r h
  simp only [Model.stepSimple] at h
  simp only [Spec.stepSimple, hR.S]
  cases hi : aget s.S i with
  | some v => simp only [hi] at h ⊢; leaf h hR
  | none =>
    simp only [hi] at h ⊢
    split at h
    · rename_i hc; simp only [hc, ↓reduceIte]; leaf h hR
    · rename_i hc; simp only [hc, ↓reduceIte]; leaf h (hR.updS _)

theorem step_cpS (j i : Nat) : StepSim (.cpS j i) := by
  intro s t hs hR hq
  refine ⟨?_, by none_case⟩
  intro s' r h
  simp only [Model.stepSimple] at h
  simp only [Spec.stepSimple, hR.S]
  cases hi : aget s.S i with
  | none => simp only [hi] at h ⊢; leaf h hR
  | some v =>
    simp only [hi] at h ⊢
    cases hj : aget s.S j with
    | some w => simp only [hj] at h ⊢; leaf h hR
    | none => simp only [hj] at h ⊢; leaf h (hR.updS _)

theorem step_mvS (j i : Nat) : StepSim (.mvS j i) := by
  intro s t hs hR hq
  refine ⟨?_, by none_case⟩
  intro s' r h
  simp only [Model.stepSimple] at h
  simp only [Spec.stepSimple, hR.S]
  cases hi : aget s.S i with
  | none => simp only [hi] at h ⊢; leaf h hR
  | some v =>
    simp only [hi] at h ⊢
    cases hj : aget s.S j with
    | some w => simp only [hj] at h ⊢; leaf h hR
    | none =>
      simp only [hj] at h ⊢
      split at h
      · rename_i hc; simp only [hc, ↓reduceIte]; leaf h hR
      · rename_i hc; simp only [hc, ↓reduceIte]
        cases hm : v.slot.move with
        | mk d src => simp only [hm] at h ⊢; leaf h (hR.updS _)

theorem step_asgS (j i : Nat) : StepSim (.asgS j i) := by
  intro s t hs hR hq
  refine ⟨?_, by none_case⟩
  intro s' r h
  simp only [Model.stepSimple] at h
  simp only [Spec.stepSimple, hR.S]
  cases hj : aget s.S j <;> cases hi : aget s.S i <;> simp only [hj, hi] at h ⊢
  · leaf h hR
  · leaf h hR
  · leaf h hR
  · split at h
    · rename_i hc; simp only [hc, ↓reduceIte]; leaf h hR
    · rename_i hc; simp only [hc, ↓reduceIte]
      split at h
      · rename_i hc2; simp only [hc2, ↓reduceIte]; leaf h hR
      · rename_i hc2; simp only [hc2, ↓reduceIte]; leaf h (hR.updS _)

theorem step_masgS (j i : Nat) : StepSim (.masgS j i) := by
  intro s t hs hR hq
  refine ⟨?_, by none_case⟩
  intro s' r h
  simp only [Model.stepSimple] at h
  simp only [Spec.stepSimple, hR.S]
  cases hj : aget s.S j <;> cases hi : aget s.S i <;> simp only [hj, hi] at h ⊢
  · leaf h hR
  · leaf h hR
  · leaf h hR
  · split at h
    · rename_i hc; simp only [hc, ↓reduceIte]; leaf h hR
    · rename_i hc; simp only [hc, ↓reduceIte]
      split at h
      · rename_i hc2; simp only [hc2, ↓reduceIte]; leaf h hR
      · rename_i hc2; simp only [hc2, ↓reduceIte]
        split at h
        · rename_i hc3; simp only [hc3, ↓reduceIte]; leaf h (hR.updS _)
        · rename_i hc3; simp only [hc3, ↓reduceIte]
          split at h
          · rename_i hc4; simp only [hc4, ↓reduceIte]; leaf h (hR.updS _)
          · rename_i hc4; simp only [hc4, ↓reduceIte]; leaf h (hR.updS _)

theorem step_setS (i : Nat) (spec : FSpec) : StepSim (.setS i spec) := by
  intro s t hs hR hq
  refine ⟨?_, by none_case⟩
  intro s' r h
  simp only [Model.stepSimple] at h
  simp only [Spec.stepSimple, hR.S]
  cases hi : aget s.S i with
  | none => simp only [hi] at h ⊢; leaf h hR
  | some d =>
    simp only [hi] at h ⊢
    split at h
    · rename_i hc; simp only [hc, ↓reduceIte]; leaf h hR
    · rename_i hc; simp only [hc, ↓reduceIte]
      split at h
      · rename_i e hm
        simp only [mkFun_sim_err hR _ _ hm]; leaf h hR
      · rename_i fn s1 hm
        obtain ⟨t1, ht1, hR1⟩ := mkFun_sim_ok hR _ _ hm
        simp only [ht1, specTaint_sim hR, hR1.S]
        leaf h (hR1.updS _)

theorem step_delS (i : Nat) : StepSim (.delS i) := by
  intro s t hs hR hq
  refine ⟨?_, by none_case⟩
  intro s' r h
  simp only [Model.stepSimple] at h
  simp only [Spec.stepSimple, hR.S]
  cases hi : aget s.S i with
  | none => simp only [hi] at h ⊢; leaf h hR
  | some d =>
    simp only [hi] at h ⊢
    split at h
    · rename_i hc; simp only [hc, ↓reduceIte]; leaf h hR
    · rename_i hc; simp only [hc, ↓reduceIte]; leaf h (hR.updS _)

theorem step_discS (i : Nat) : StepSim (.discS i) := by
  intro s t hs hR hq
  refine ⟨?_, by none_case⟩
  intro s' r h
  simp only [Model.stepSimple] at h
  simp only [Spec.stepSimple, hR.S]
  cases hi : aget s.S i with
  | none => simp only [hi] at h ⊢; leaf h hR
  | some d => simp only [hi] at h ⊢; leaf h (hR.updS _)

theorem step_blockS (i : Nat) (b : Bool) : StepSim (.blockS i b) := by
  intro s t hs hR hq
  refine ⟨?_, by none_case⟩
  intro s' r h
  simp only [Model.stepSimple] at h
  simp only [Spec.stepSimple, hR.S]
  cases hi : aget s.S i with
  | none => simp only [hi] at h ⊢; leaf h hR
  | some d => simp only [hi] at h ⊢; leaf h (hR.updS _)

theorem step_blockedSq (i : Nat) : StepSim (.blockedSq i) := by
  intro s t hs hR hq
  refine ⟨?_, by none_case⟩
  intro s' r h
  simp only [Model.stepSimple] at h
  simp only [Spec.stepSimple, hR.S]
  cases hi : aget s.S i with
  | none => simp only [hi] at h ⊢; leaf h hR
  | some d => simp only [hi] at h ⊢; leaf h hR

theorem step_emptySq (i : Nat) : StepSim (.emptySq i) := by
  intro s t hs hR hq
  refine ⟨?_, by none_case⟩
  intro s' r h
  simp only [Model.stepSimple] at h
  simp only [Spec.stepSimple, hR.S]
  cases hi : aget s.S i with
  | none => simp only [hi] at h ⊢; leaf h hR
  | some d => simp only [hi] at h ⊢; leaf h hR

theorem step_boolSq (i : Nat) : StepSim (.boolSq i) := by
  intro s t hs hR hq
  refine ⟨?_, by none_case⟩
  intro s' r h
  simp only [Model.stepSimple] at h
  simp only [Spec.stepSimple, hR.S]
  cases hi : aget s.S i with
  | none => simp only [hi] at h ⊢; leaf h hR
  | some d => simp only [hi] at h ⊢; leaf h hR

theorem step_newG (i : Nat) (fl : Option Flavour) : StepSim (.newG i fl) := by
  intro s t hs hR hq
  refine ⟨?_, by none_case⟩
  intro s' r h
  simp only [Model.stepSimple] at h
  simp only [Spec.stepSimple, hR.G]
  cases fl with
  | none => simp only at h ⊢; leaf h hR
  | some fl =>
    simp only at h ⊢
    cases hi : aget s.G i with
    | some g => simp only [hi] at h ⊢; leaf h hR
    | none =>
      simp only [hi, St.fresh] at h
      simp only [hi, Spec.LSt.fresh, hR.next, hR.G]
      leaf h (hR.fresh'.fresh'.updG _)

theorem step_mark : StepSim .mark := by
  intro s t hs hR hq
  refine ⟨?_, by none_case⟩
  intro s' r h
  simp only [Model.stepSimple] at h
  simp only [Spec.stepSimple]
  leaf h hR

theorem step_bad : StepSim .bad := by
  intro s t hs hR hq
  refine ⟨?_, by none_case⟩
  intro s' r h
  simp only [Model.stepSimple] at h
  simp only [Spec.stepSimple]
  leaf h hR

theorem step_allocsq : StepSim .allocsq := by
  intro s t hs hR hq
  refine ⟨?_, by none_case⟩
  intro s' r h
  simp only [Model.stepSimple] at h
  simp only [Spec.stepSimple]
  cases h
  exact ⟨_, _, rfl, hR, Or.inr rfl⟩

/-! ### connections and scoped connections -/

theorem step_newC (i : Nat) : StepSim (.newC i) := by
  intro s t hs hR hq
  refine ⟨?_, by none_case⟩
  intro s' r h
  simp only [Model.stepSimple, Model.setConn] at h
  simp only [Spec.stepSimple]
  rcases hR.C.get i with ⟨h1, h2⟩ | ⟨a, b, h1, h2, hr⟩
  · simp only [h1] at h; simp only [h2]
    leaf h (hR.updC (hR.C.set i (PtrR.rfl' none)))
  · simp only [h1] at h; simp only [h2]; leaf h hR

theorem step_cpC (j i : Nat) : StepSim (.cpC j i) := by
  intro s t hs hR hq
  refine ⟨?_, by none_case⟩
  intro s' r h
  simp only [Model.stepSimple, Model.setConn] at h
  simp only [Spec.stepSimple]
  rcases hR.C.get i with ⟨h1, h2⟩ | ⟨a, b, h1, h2, hr⟩
  · simp only [h1] at h; simp only [h2]; leaf h hR
  · simp only [h1] at h; simp only [h2]
    rcases hR.C.get j with ⟨k1, k2⟩ | ⟨a', b', k1, k2, hr'⟩
    · simp only [k1] at h; simp only [k2]
      leaf h (hR.updC (hR.C.set j hr))
    · simp only [k1] at h; simp only [k2]; leaf h hR

theorem step_asgC (j i : Nat) : StepSim (.asgC j i) := by
  intro s t hs hR hq
  refine ⟨?_, by none_case⟩
  intro s' r h
  simp only [Model.stepSimple, Model.setConn] at h
  simp only [Spec.stepSimple]
  rcases hR.C.get j with ⟨k1, k2⟩ | ⟨a', b', k1, k2, hr'⟩ <;>
    rcases hR.C.get i with ⟨h1, h2⟩ | ⟨a, b, h1, h2, hr⟩ <;>
    simp only [k1, h1] at h <;> simp only [k2, h2]
  · leaf h hR
  · leaf h hR
  · leaf h hR
  · leaf h (hR.updC (hR.C.set j hr))

theorem step_delC (i : Nat) : StepSim (.delC i) := by
  intro s t hs hR hq
  refine ⟨?_, by none_case⟩
  intro s' r h
  simp only [Model.stepSimple] at h
  simp only [Spec.stepSimple]
  rcases hR.C.get i with ⟨h1, h2⟩ | ⟨a, b, h1, h2, hr⟩
  · simp only [h1] at h; simp only [h2]; leaf h hR
  · simp only [h1] at h; simp only [h2]
    leaf h (hR.updC (hR.C.del i))

theorem step_newK0 (i : Nat) : StepSim (.newK0 i) := by
  intro s t hs hR hq
  refine ⟨?_, by none_case⟩
  intro s' r h
  simp only [Model.stepSimple] at h
  simp only [Spec.stepSimple]
  rcases hR.K.get i with ⟨h1, h2⟩ | ⟨a, b, h1, h2, hr⟩
  · simp only [h1] at h; simp only [h2]
    leaf h (hR.updK (hR.K.set i (PtrR.rfl' none)))
  · simp only [h1] at h; simp only [h2]; leaf h hR

theorem step_newK (i c : Nat) : StepSim (.newK i c) := by
  intro s t hs hR hq
  refine ⟨?_, by none_case⟩
  intro s' r h
  simp only [Model.stepSimple] at h
  simp only [Spec.stepSimple]
  rcases hR.C.get c with ⟨h1, h2⟩ | ⟨a, b, h1, h2, hr⟩
  · simp only [h1] at h; simp only [h2]; leaf h hR
  · simp only [h1] at h; simp only [h2]
    rcases hR.K.get i with ⟨k1, k2⟩ | ⟨a', b', k1, k2, hr'⟩
    · simp only [k1] at h; simp only [k2]
      leaf h (hR.updK (hR.K.set i hr))
    · simp only [k1] at h; simp only [k2]; leaf h hR

theorem step_mvK (j i : Nat) : StepSim (.mvK j i) := by
  intro s t hs hR hq
  refine ⟨?_, by none_case⟩
  intro s' r h
  simp only [Model.stepSimple] at h
  simp only [Spec.stepSimple]
  rcases hR.K.get i with ⟨h1, h2⟩ | ⟨a, b, h1, h2, hr⟩
  · simp only [h1] at h; simp only [h2]; leaf h hR
  · simp only [h1] at h; simp only [h2]
    rcases hR.K.get j with ⟨k1, k2⟩ | ⟨a', b', k1, k2, hr'⟩
    · simp only [k1] at h; simp only [k2]
      leaf h (hR.updK ((hR.K.set i (PtrR.rfl' none)).set j hr))
    · simp only [k1] at h; simp only [k2]; leaf h hR

theorem step_swapK (i j : Nat) : StepSim (.swapK i j) := by
  intro s t hs hR hq
  refine ⟨?_, by none_case⟩
  intro s' r h
  simp only [Model.stepSimple] at h
  simp only [Spec.stepSimple]
  rcases hR.K.get i with ⟨h1, h2⟩ | ⟨a, b, h1, h2, hr⟩ <;>
    rcases hR.K.get j with ⟨k1, k2⟩ | ⟨a', b', k1, k2, hr'⟩ <;>
    simp only [k1, h1] at h <;> simp only [k2, h2]
  · leaf h hR
  · leaf h hR
  · leaf h hR
  · leaf h (hR.updK ((hR.K.set i hr').set j hr))

theorem step_relK (c k : Nat) : StepSim (.relK c k) := by
  intro s t hs hR hq
  refine ⟨?_, by none_case⟩
  intro s' r h
  simp only [Model.stepSimple, Model.setConn] at h
  simp only [Spec.stepSimple]
  rcases hR.K.get k with ⟨h1, h2⟩ | ⟨a, b, h1, h2, hr⟩
  · simp only [h1] at h; simp only [h2]; leaf h hR
  · simp only [h1] at h; simp only [h2]
    leaf h ((hR.updK (hR.K.set k (PtrR.rfl' none))).updC (hR.C.set c hr))

end Sigc.Refine
