import Sigc.Lemmas.RefineBasic
/-!
# Refine work package — model only: closed form of `nullConnsList` and of folding `touchCell`
(`disconnectCell` / `invalidateCell`) over a list of cell ids.
-/
namespace Sigc.Refine
open Sigc.Model

/-! ## association lists -/

theorem amap_amap {α : Type} (l : List (Nat × α)) (f g : α → α) : amap (amap l f) g = amap l (fun x => g (f x)) := by
  simp [amap, List.map_map, Function.comp_def]

theorem amap_congr {α : Type} {l : List (Nat × α)} {f g : α → α} (h : ∀ p ∈ l, f p.2 = g p.2) : amap l f = amap l g := by
  unfold amap
  apply List.map_congr_left
  intro p hp; rw [h p hp]

theorem amap_id' {α : Type} {l : List (Nat × α)} {f : α → α} (h : ∀ p ∈ l, f p.2 = p.2) : amap l f = l := by
  unfold amap
  conv => rhs; rw [← List.map_id l]
  apply List.map_congr_left
  intro p hp; rw [h p hp]; rfl

/-- updating one key = mapping, when the map is the identity on the other values -/
theorem amap_eq_aset {α : Type} {l : List (Nat × α)} (hn : (l.map (·.1)).Nodup) {i : Nat} {a : α} (hi : aget l i = some a)
    {f : α → α} (hf : ∀ p ∈ l, p.1 ≠ i → f p.2 = p.2) : amap l f = aset l i (f a) := by
  induction l with
  | nil => simp [aget] at hi
  | cons p t ih =>
    obtain ⟨k, v⟩ := p
    simp only [List.map_cons, List.nodup_cons] at hn
    by_cases e : k = i
    · subst e
      simp [aget] at hi; subst hi
      simp only [amap, aset, List.map_cons, if_true]
      congr 1
      have := amap_id' (l := t) (f := f) (fun p hp => hf p (List.mem_cons_of_mem _ hp) (by
        intro e; apply hn.1; rw [← e]; exact List.mem_map.mpr ⟨p, hp, rfl⟩))
      unfold amap at this; exact this
    · simp [aget, e] at hi
      have hv : f v = v := hf (k, v) (by simp) e
      simp only [amap, aset, List.map_cons, e, if_false, hv]
      congr 1
      have := ih hn.2 hi (fun p hp => hf p (List.mem_cons_of_mem _ hp))
      unfold amap at this; exact this

/-! ## nulling connections -/

def nullE (E : List Nat) (p : Option Nat) : Option Nat :=
  match p with
  | some cid => if cid ∈ E then none else some cid
  | none => none

def nullSt (E : List Nat) (s : St) : St :=
  { s with C := amap s.C (nullE E), K := amap s.K (nullE E), ownedK := amap s.ownedK (nullE E) }

@[simp] theorem nullE_nil (p : Option Nat) : nullE [] p = p := by
  cases p <;> simp [nullE]

theorem nullE_append (E1 E2 : List Nat) (p : Option Nat) : nullE E2 (nullE E1 p) = nullE (E1 ++ E2) p := by
  cases p with
  | none => rfl
  | some c =>
    simp only [nullE, List.mem_append]
    by_cases h1 : c ∈ E1
    · simp [h1]
    · by_cases h2 : c ∈ E2 <;> simp [h1, h2]

theorem nullSt_nil (s : St) : nullSt [] s = s := by
  unfold nullSt
  have : ∀ (l : List (Nat × Option Nat)), amap l (nullE []) = l := fun l => amap_id' (fun p _ => nullE_nil _)
  simp [this]

theorem nullSt_nullSt (E1 E2 : List Nat) (s : St) : nullSt E2 (nullSt E1 s) = nullSt (E1 ++ E2) s := by
  unfold nullSt
  simp only [amap_amap, nullE_append]

theorem nullConns_eq (s : St) (cid : Nat) : nullConns s cid = nullSt [cid] s := by
  unfold nullConns nullSt
  have : (fun (p : Option Nat) => if p = some cid then none else p) = nullE [cid] := by
    funext p
    cases p with
    | none => simp [nullE]
    | some c =>
      by_cases e : c = cid <;> simp [nullE, e]
  simp only [this]

theorem nullConnsList_eq (s : St) (cs : List Nat) : nullConnsList s cs = nullSt cs s := by
  unfold nullConnsList
  induction cs generalizing s with
  | nil => simp [nullSt_nil]
  | cons c t ih =>
    simp only [List.foldl_cons]
    rw [ih, nullConns_eq, nullSt_nullSt]; rfl

@[simp] theorem nullSt_impls (E : List Nat) (s : St) : (nullSt E s).impls = s.impls := rfl
@[simp] theorem nullSt_S (E : List Nat) (s : St) : (nullSt E s).S = s.S := rfl
@[simp] theorem nullSt_G (E : List Nat) (s : St) : (nullSt E s).G = s.G := rfl
@[simp] theorem nullSt_T (E : List Nat) (s : St) : (nullSt E s).T = s.T := rfl
@[simp] theorem nullSt_next (E : List Nat) (s : St) : (nullSt E s).next = s.next := rfl

/-- `nullSt` commutes with an update of the impls -/
theorem nullSt_setImpls (E : List Nat) (s : St) (l : List (Nat × Impl)) :
    nullSt E { s with impls := l } = { nullSt E s with impls := l } := rfl

/-! ## touching cells -/

def touchC (hf : SlotB → SlotB) (W : List Nat) (c : Cell) : Cell :=
  if W.contains c.id then { c with slot := hf c.slot, linked := false } else c

/-- what touching the cells `W` does to an impl: erased when it is not emitting, otherwise the slots
    are weakened, the cells unlinked and the sweep is requested -/
def touchImpl (hf : SlotB → SlotB) (W : List Nat) (im : Impl) : Impl :=
  if im.exec = 0 then { im with cells := im.cells.filter (fun c => !W.contains c.id) }
  else { im with cells := im.cells.map (touchC hf W),
                 deferred := im.deferred || im.cells.any (fun c => W.contains c.id && c.linked) }

theorem touchC_id (hf : SlotB → SlotB) (W : List Nat) (c : Cell) : (touchC hf W c).id = c.id := by
  unfold touchC; split <;> rfl

theorem touchImpl_exec (hf : SlotB → SlotB) (W : List Nat) (im : Impl) : (touchImpl hf W im).exec = im.exec := by
  unfold touchImpl; split <;> rfl

theorem touchImpl_holders (hf : SlotB → SlotB) (W : List Nat) (im : Impl) : (touchImpl hf W im).holders = im.holders := by
  unfold touchImpl; split <;> rfl

theorem touchImpl_ids_sub (hf : SlotB → SlotB) (W : List Nat) (im : Impl) :
    ∀ k ∈ Emit.cids (touchImpl hf W im), k ∈ Emit.cids im ∧ (im.exec = 0 → k ∉ W) := by
  intro k hk
  unfold touchImpl at hk
  split at hk
  · rename_i hx
    obtain ⟨c, hc, rfl⟩ := List.mem_map.mp hk
    obtain ⟨hc1, hc2⟩ := List.mem_filter.mp hc
    refine ⟨List.mem_map.mpr ⟨c, hc1, rfl⟩, fun _ => ?_⟩
    simpa using hc2
  · rename_i hx
    obtain ⟨c, hc, rfl⟩ := List.mem_map.mp hk
    obtain ⟨c0, hc0, rfl⟩ := List.mem_map.mp hc
    exact ⟨List.mem_map.mpr ⟨c0, hc0, (touchC_id _ _ _).symm⟩, fun e => absurd e hx⟩

/-- no cell of the impl is in `W`: nothing happens -/
theorem touchImpl_noop (hf : SlotB → SlotB) (W : List Nat) (im : Impl) (h : ∀ k ∈ Emit.cids im, k ∉ W) :
    touchImpl hf W im = im := by
  have hc : ∀ c ∈ im.cells, c.id ∉ W := by
    intro c hc
    exact h c.id (List.mem_map.mpr ⟨c, hc, rfl⟩)
  unfold touchImpl
  split
  · have : im.cells.filter (fun c => !W.contains c.id) = im.cells := by
      rw [List.filter_eq_self]; intro c hcm; simp [hc c hcm]
    rw [this]
  · have h1 : im.cells.map (touchC hf W) = im.cells := by
      conv => rhs; rw [← List.map_id im.cells]
      apply List.map_congr_left
      intro c hcm; simp [touchC, hc c hcm]
    have h2 : im.cells.any (fun c => W.contains c.id && c.linked) = false := by
      rw [List.any_eq_false]; intro c hcm; simp [hc c hcm]
    rw [h1, h2]; simp

/-- two rounds of touching compose -/
theorem touchImpl_comp (hf : SlotB → SlotB) (hidem : ∀ sl, hf (hf sl) = hf sl) (k : Nat) (W : List Nat) (im : Impl) :
    touchImpl hf W (touchImpl hf [k] im) = touchImpl hf (k :: W) im := by
  unfold touchImpl
  by_cases hx : im.exec = 0
  · simp only [hx, if_true]
    congr 1
    rw [List.filter_filter]
    apply List.filter_congr
    intro c _
    by_cases e : c.id = k <;> simp [e]
  · simp only [hx, if_false]
    have hcell : ∀ c, touchC hf W (touchC hf [k] c) = touchC hf (k :: W) c := by
      intro c
      unfold touchC
      by_cases e : c.id = k
      · by_cases e2 : k ∈ W
        · simp [e, e2, hidem]
        · simp [e, e2]
      · have e' : ¬ (k = c.id) := fun h => e h.symm
        by_cases e2 : c.id ∈ W <;> simp [e, e2]
    have hmap : (im.cells.map (touchC hf [k])).map (touchC hf W) = im.cells.map (touchC hf (k :: W)) := by
      rw [List.map_map]; apply List.map_congr_left; intro c _; exact hcell c
    have hany : (im.deferred || im.cells.any (fun c => [k].contains c.id && c.linked)
          || (im.cells.map (touchC hf [k])).any (fun c => W.contains c.id && c.linked))
        = (im.deferred || im.cells.any (fun c => (k :: W).contains c.id && c.linked)) := by
      rw [Bool.or_assoc]; congr 1
      rw [List.any_map]
      generalize im.cells = cs
      induction cs with
      | nil => rfl
      | cons c t ih =>
        simp only [List.any_cons, Function.comp]
        rw [← ih]
        have : ([k].contains c.id && c.linked || (W.contains (touchC hf [k] c).id && (touchC hf [k] c).linked))
            = ((k :: W).contains c.id && c.linked) := by
          unfold touchC
          by_cases e : c.id = k
          · simp [e]
          · have e' : ¬ (k = c.id) := fun h => e h.symm
            simp [e]
        rw [← this]
        cases ([k].contains c.id && c.linked) <;> cases (W.contains (touchC hf [k] c).id && (touchC hf [k] c).linked) <;>
          cases (t.any fun c => [k].contains c.id && c.linked) <;> rfl
    simp only [hmap, hany]

/-- one `touchCell` in closed form -/
theorem touch_one {off : Nat → Nat} {hf : SlotB → SlotB} (k : Nat) {s : St} (h : Emit.InvX off s) :
    ∃ E, (∀ cid ∈ E, cid = k ∧ (∃ p ∈ s.impls, cid ∈ Emit.cids p.2) ∧
        ∀ p ∈ amap s.impls (touchImpl hf [k]), cid ∉ Emit.cids p.2) ∧
      Emit.touchCell hf s k = nullSt E { s with impls := amap s.impls (touchImpl hf [k]) } := by
  unfold Emit.touchCell
  cases hg : getCell s k with
  | none =>
    refine ⟨[], by simp, ?_⟩
    have : amap s.impls (touchImpl hf [k]) = s.impls := by
      apply amap_id'
      intro p hp
      apply touchImpl_noop
      intro j hj hjk
      simp at hjk; subst hjk
      obtain ⟨c, hc⟩ := Emit.getCell_of_mem h (Emit.aget_of_mem_nodup h.keys (show (p.1, p.2) ∈ s.impls from hp)) hj
      rw [hg] at hc; contradiction
    rw [this, nullSt_nil]
  | some pr =>
    obtain ⟨i, c⟩ := pr
    obtain ⟨im, hi, hfind⟩ := Emit.getCell_some hg
    obtain ⟨hcm, hck⟩ := Emit.find_mem hfind
    have hok := h.ok i im hi
    have hkin : k ∈ Emit.cids im := List.mem_map.mpr ⟨c, hcm, hck⟩
    -- the other impls are untouched
    have hothers : ∀ p ∈ s.impls, p.1 ≠ i → touchImpl hf [k] p.2 = p.2 := by
      intro p hp hne
      apply touchImpl_noop
      intro j hj hjk
      simp at hjk; subst hjk
      exact h.disj p.1 i p.2 im (Emit.aget_of_mem_nodup h.keys (show (p.1, p.2) ∈ s.impls from hp)) hi hne j hj hkin
    have hset := amap_eq_aset h.keys hi hothers
    have hupd : ∀ c0, Emit.updC k (fun c => { c with slot := hf c.slot, linked := false }) c0 = touchC hf [k] c0 := by
      intro c0; unfold Emit.updC touchC
      by_cases e : c0.id = k <;> simp [e]
    have hmapeq : im.cells.map (Emit.updC k (fun c => { c with slot := hf c.slot, linked := false }))
        = im.cells.map (touchC hf [k]) := List.map_congr_left (fun c0 _ => hupd c0)
    simp only
    rw [Emit.updCell_eq hi]
    have hi1 : ∀ (A : Impl), aget (Model.setImpl s i A).impls i = some A := by
      intro A; simp [Emit.aget_setImpl]
    cases hlk : c.linked with
    | false =>
      simp only [Bool.false_eq_true, if_false]
      have hx : im.exec ≠ 0 := by
        intro hx
        have hm := hok.no_markers hx c hcm
        have := hok.d (hok.q1 hx) c hcm hm
        rw [hlk] at this; contradiction
      refine ⟨[], by simp, ?_⟩
      rw [nullSt_nil, hset]
      have hany : im.cells.any (fun c => [k].contains c.id && c.linked) = false := by
        rw [List.any_eq_false]
        intro c0 hc0
        by_cases e : c0.id = k
        · have := Emit.find_unique hok.nodup hfind hc0 e
          subst this; simp [hlk]
        · simp [e]
      simp only [touchImpl, hx, if_false, hany, Bool.or_false, hmapeq]
      rfl
    | true =>
      simp only [if_true]
      rw [Emit.notifyParent_eq (hi1 _)]
      by_cases hx : im.exec = 0
      · simp only [hx, if_true]
        rw [Emit.eraseCell_eq (hi1 _), Emit.setImpl_setImpl]
        simp only
        rw [Emit.map_updC_filter im.cells k (fun c => { c with slot := hf c.slot, linked := false }) (fun _ => rfl), nullConns_eq]
        refine ⟨[k], ?_, ?_⟩
        · intro cid hcid
          simp at hcid; subst hcid
          refine ⟨rfl, ⟨(i, im), Emit.aget_some_mem hi, hkin⟩, ?_⟩
          intro p hp hin
          unfold Model.amap at hp
          obtain ⟨q, hq, rfl⟩ := List.mem_map.mp hp
          simp only at hin
          by_cases e : q.1 = i
          · have hq' := Emit.aget_of_mem_nodup h.keys (show (q.1, q.2) ∈ s.impls from hq)
            rw [e, hi] at hq'; cases hq'
            have := (touchImpl_ids_sub hf [cid] q.2 cid hin).2 hx
            simp at this
          · rw [hothers q hq e] at hin
            exact h.disj q.1 i q.2 im (Emit.aget_of_mem_nodup h.keys (show (q.1, q.2) ∈ s.impls from hq)) hi e cid hin hkin
        · rw [hset]
          have : (fun (c : Cell) => decide (c.id ≠ k)) = (fun c => !([k].contains c.id)) := by
            funext c0; by_cases e : c0.id = k <;> simp [e]
          simp only [touchImpl, hx, if_true, this]
          rfl
      · simp only [hx, if_false]
        rw [Emit.setImpl_setImpl]
        refine ⟨[], by simp, ?_⟩
        rw [nullSt_nil, hset]
        have hany : im.cells.any (fun c => [k].contains c.id && c.linked) = true := by
          rw [List.any_eq_true]
          exact ⟨c, hcm, by simp [hck, hlk]⟩
        simp only [touchImpl, hx, if_false, hany, Bool.or_true, hmapeq]
        rfl

/-- folding `touchCell` over `W` in closed form; `E` = the ids whose cells were erased -/
theorem touch_fold {off : Nat → Nat} {hf : SlotB → SlotB} (hw : Emit.Weakens hf) (hidem : ∀ sl, hf (hf sl) = hf sl)
    (W : List Nat) {s : St} (h : Emit.InvX off s) :
    ∃ E, (∀ cid ∈ E, cid ∈ W ∧ (∃ p ∈ s.impls, cid ∈ Emit.cids p.2) ∧
        ∀ p ∈ amap s.impls (touchImpl hf W), cid ∉ Emit.cids p.2) ∧
      W.foldl (Emit.touchCell hf) s = nullSt E { s with impls := amap s.impls (touchImpl hf W) } := by
  induction W generalizing s with
  | nil =>
    refine ⟨[], by simp, ?_⟩
    have : amap s.impls (touchImpl hf []) = s.impls :=
      amap_id' (fun p _ => touchImpl_noop hf [] p.2 (fun _ _ => by simp))
    simp [this, nullSt_nil]
  | cons k W ih =>
    simp only [List.foldl_cons]
    obtain ⟨E1, hE1, h1⟩ := touch_one (hf := hf) k h
    have hinv1 : Emit.InvX off (Emit.touchCell hf s k) := (Emit.Good.touchCell hw h k).inv
    obtain ⟨E2, hE2, h2⟩ := ih hinv1
    have himpls1 : (Emit.touchCell hf s k).impls = amap s.impls (touchImpl hf [k]) := by rw [h1]; rfl
    have hcomp : amap (Emit.touchCell hf s k).impls (touchImpl hf W) = amap s.impls (touchImpl hf (k :: W)) := by
      rw [himpls1, amap_amap]
      exact amap_congr (fun p _ => touchImpl_comp hf hidem k W p.2)
    refine ⟨E1 ++ E2, ?_, ?_⟩
    · intro cid hcid
      rcases List.mem_append.mp hcid with hc | hc
      · obtain ⟨e, hwas, hgone⟩ := hE1 cid hc
        refine ⟨by simp [e], hwas, ?_⟩
        intro p hp hin
        rw [← hcomp, himpls1] at hp
        unfold Model.amap at hp
        obtain ⟨q, hq, rfl⟩ := List.mem_map.mp hp
        exact hgone q hq (touchImpl_ids_sub hf W q.2 cid hin).1
      · obtain ⟨e, ⟨p1, hp1, hin1⟩, hgone⟩ := hE2 cid hc
        refine ⟨List.mem_cons_of_mem _ e, ?_, ?_⟩
        · rw [himpls1] at hp1
          unfold Model.amap at hp1
          obtain ⟨q, hq, rfl⟩ := List.mem_map.mp hp1
          exact ⟨q, hq, (touchImpl_ids_sub hf [k] q.2 cid hin1).1⟩
        · rw [← hcomp]; exact hgone
    · rw [h2, hcomp, h1]
      unfold nullSt
      simp only [amap_amap, nullE_append]

end Sigc.Refine
