import Sigc.Lemmas.EmitStepD
/-!
# Emit work package — `collect` (destruction of objects owned by functors) preserves `Inv` and is a
`Frame` step: it is built from `invalidateTrackable`, `disconnectCell` and `dropHandle`.
-/
namespace Sigc.Emit
open Sigc.Model

/-- a functor-owned signal object dies (its entry, and possibly others, removed from `ownedG`) -/
theorem good_dropOwned {s : St} (h : Inv s) (O' : List (Nat × Nat)) (hsub : ∀ p ∈ O', p ∈ s.ownedG)
    {k g : Nat} (hmem : (k, g) ∈ s.ownedG) : Good0 s (dropHandle { s with ownedG := O' } g) := by
  have h0 : Inv { s with ownedG := O' } := h.congrSub rfl rfl rfl rfl (Nat.le_refl _) hsub
  have g0 : Good0 s { s with ownedG := O' } := ⟨h0, Frame.of_eq (Nat.le_refl _) rfl rfl⟩
  exact g0.trans (good_dropHandle h0 g (fun hd hg he => h.own (k, g) hmem hd hg he))

theorem good_collectStep {s s' : St} (h : Inv s) (hc : collectStep s = some s') : Good0 s s' := by
  unfold collectStep at hc
  split at hc
  · simp at hc; subst hc
    apply good_invalidateTrackable' h <;> first | rfl | simp
  · split at hc
    · simp at hc; subst hc
      apply good_optDisconnect' h <;> first | rfl | simp
    · split at hc
      · rename_i k g hf
        simp at hc; subst hc
        have hmem : (k, g) ∈ s.ownedG := List.mem_of_find?_eq_some hf
        exact good_dropOwned h _ (fun p hp => (List.mem_filter.mp hp).1) hmem
      · contradiction

theorem good_collectN (n : Nat) {s : St} (h : Inv s) : Good0 s (collectN n s) := by
  induction n generalizing s with
  | zero => exact Good.refl h
  | succ n ih =>
    simp only [collectN]
    split
    · rename_i s' hc
      exact (good_collectStep h hc).andThen (fun h => ih h)
    · exact Good.refl h

theorem good_collect {s : St} (h : Inv s) : Good0 s (collect s) := good_collectN _ h

end Sigc.Emit
