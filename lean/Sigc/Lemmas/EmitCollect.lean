import Sigc.Lemmas.EmitStepD
/-!
# Emit work package — `collect` (destruction of objects owned by functors) preserves `Inv` and is a
`Frame` step: it is built from `invalidateTrackable` and `disconnectCell`.
-/
namespace Sigc.Emit
open Sigc.Model

theorem good_collectStep {s s' : St} (h : Inv s) (hc : collectStep s = some s') : Good0 s s' := by
  unfold collectStep at hc
  split at hc
  · simp at hc; subst hc
    apply good_invalidateTrackable' h <;> first | rfl | simp
  · split at hc
    · simp at hc; subst hc
      apply good_optDisconnect' h <;> first | rfl | simp
    · contradiction

theorem good_collectN (n : Nat) {s : St} (h : Inv s) : Good0 s (collectN n s) := by
  induction n generalizing s with
  | zero => exact Good.refl h
  | succ n ih =>
    simp only [collectN]
    split
    · rename_i s' hc
      exact (good_collectStep h hc).andThen (fun h => ih h)
    · exact Good.refl h

theorem good_collect {s : St} (h : Inv s) : Good0 s (collect s) := good_collectN _ h

end Sigc.Emit
