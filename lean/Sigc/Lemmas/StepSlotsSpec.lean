import Sigc.Spec
import Sigc.Lemmas.StepSlots
import Sigc.Lemmas.StepSlots2
/-! the specification `S` (`Sigc.Spec`) and the mechanism model `P` compute the same thing on slot variables -/
namespace Sigc.StepSlots
open Sigc.Model

/-- projection of a step result to what a slot-variable operation can observe: the slot variables and the answer -/
def obsP (x : Option (St × String)) : Option (List (Nat × SlotVar) × String) := x.map (fun p => (p.1.S, p.2))
def obsS (x : Option (Spec.LSt × String)) : Option (List (Nat × SlotVar) × String) := x.map (fun p => (p.1.S, p.2))

theorem spec_agrees_asgS (l : Spec.LSt) (s : St) (hS : l.S = s.S) (j i : Nat) :
    obsS (Spec.stepSimple l (.asgS j i)) = obsP (stepSimple s (.asgS j i)) := by
  simp only [Spec.stepSimple, stepSimple, hS, obsS, obsP]
  cases aget s.S j <;> cases aget s.S i <;> simp only [Option.map_some, hS, apply_ite (Option.map _)]

theorem spec_agrees_masgS (l : Spec.LSt) (s : St) (hS : l.S = s.S) (j i : Nat) :
    obsS (Spec.stepSimple l (.masgS j i)) = obsP (stepSimple s (.masgS j i)) := by
  simp only [Spec.stepSimple, stepSimple, hS, obsS, obsP]
  cases aget s.S j <;> cases aget s.S i <;> simp only [Option.map_some, hS, apply_ite (Option.map _)]

theorem spec_agrees_cpS (l : Spec.LSt) (s : St) (hS : l.S = s.S) (j i : Nat) :
    obsS (Spec.stepSimple l (.cpS j i)) = obsP (stepSimple s (.cpS j i)) := by
  simp only [Spec.stepSimple, stepSimple, hS, obsS, obsP]
  cases aget s.S j <;> cases aget s.S i <;> simp only [Option.map_some, hS]

theorem spec_agrees_mvS (l : Spec.LSt) (s : St) (hS : l.S = s.S) (j i : Nat) :
    obsS (Spec.stepSimple l (.mvS j i)) = obsP (stepSimple s (.mvS j i)) := by
  simp only [Spec.stepSimple, stepSimple, hS, obsS, obsP]
  cases aget s.S j <;> cases aget s.S i <;> simp only [Option.map_some, hS, apply_ite (Option.map _)]

theorem spec_agrees_mkS0 (l : Spec.LSt) (s : St) (hS : l.S = s.S) (i : Nat) (ty : String) :
    obsS (Spec.stepSimple l (.mkS0 i ty)) = obsP (stepSimple s (.mkS0 i ty)) := by
  simp only [Spec.stepSimple, stepSimple, hS, obsS, obsP]
  cases aget s.S i <;> simp only [Option.map_some, hS, apply_ite (Option.map _)]

theorem spec_agrees_delS (l : Spec.LSt) (s : St) (hS : l.S = s.S) (i : Nat) :
    obsS (Spec.stepSimple l (.delS i)) = obsP (stepSimple s (.delS i)) := by
  simp only [Spec.stepSimple, stepSimple, hS, obsS, obsP]
  cases aget s.S i <;> simp only [Option.map_some, hS, apply_ite (Option.map _)]

theorem spec_agrees_discS (l : Spec.LSt) (s : St) (hS : l.S = s.S) (i : Nat) :
    obsS (Spec.stepSimple l (.discS i)) = obsP (stepSimple s (.discS i)) := by
  simp only [Spec.stepSimple, stepSimple, hS, obsS, obsP]
  cases aget s.S i <;> simp only [Option.map_some, hS]

theorem spec_agrees_blockS (l : Spec.LSt) (s : St) (hS : l.S = s.S) (i : Nat) (b : Bool) :
    obsS (Spec.stepSimple l (.blockS i b)) = obsP (stepSimple s (.blockS i b)) := by
  simp only [Spec.stepSimple, stepSimple, hS, obsS, obsP]
  cases aget s.S i <;> simp only [Option.map_some, hS]

theorem spec_agrees_blockedSq (l : Spec.LSt) (s : St) (hS : l.S = s.S) (i : Nat) :
    obsS (Spec.stepSimple l (.blockedSq i)) = obsP (stepSimple s (.blockedSq i)) := by
  simp only [Spec.stepSimple, stepSimple, hS, obsS, obsP]
  cases aget s.S i <;> simp only [Option.map_some, hS]

theorem spec_agrees_emptySq (l : Spec.LSt) (s : St) (hS : l.S = s.S) (i : Nat) :
    obsS (Spec.stepSimple l (.emptySq i)) = obsP (stepSimple s (.emptySq i)) := by
  simp only [Spec.stepSimple, stepSimple, hS, obsS, obsP]
  cases aget s.S i <;> simp only [Option.map_some, hS]

theorem spec_mkFun_agrees (l : Spec.LSt) (s : St) (hS : l.S = s.S) (hT : l.T = s.T) (hG : l.G = s.G)
    (hK : l.K = s.K) (hN : l.next = s.next) (hO : l.ownedG = s.ownedG) (b : Bool) (spec : FSpec) :
    (match Spec.mkFun l b spec with
     | .error e => Except.error e
     | .ok (fn, l') => Except.ok (fn, l'.S, l'.T, l'.G)) =
    (match mkFun s b spec with
     | .error e => Except.error e
     | .ok (fn, s') => Except.ok (fn, s'.S, s'.T, s'.G)) := by
  cases spec with
  | fn fid => simp only [Spec.mkFun, mkFun, hS, hT, hG]
  | mem fid t => simp only [Spec.mkFun, mkFun, hT]; cases aget s.T t <;> simp only [hS, hT, hG]
  | bref fid t => simp only [Spec.mkFun, mkFun, hT]; cases aget s.T t <;> simp only [hS, hT, hG]
  | trk fid t1 t2 =>
    simp only [Spec.mkFun, mkFun, hT]
    cases aget s.T t1 with
    | none => rfl
    | some o1 =>
      cases t2 with
      | none => simp only [hS, hT, hG]
      | some t2 => simp only []; cases aget s.T t2 <;> simp only [hS, hT, hG]
  | nest sv =>
    simp only [Spec.mkFun, mkFun, hS]
    cases aget s.S sv with
    | none => rfl
    | some v =>
      cases hb : (!b && v.isVoid)
      · simp only [hb, Bool.false_eq_true, if_false, hS, hT, hG]
        rfl
      · simp only [hb, if_true]
  | fwd g =>
    simp only [Spec.mkFun, mkFun, hG]
    cases aget s.G g with
    | none => rfl
    | some h =>
      cases hb : (h.fl.isVoid != b) <;> simp only [hb, Bool.false_eq_true, if_false, if_true, hS, hT, hO]
      by_cases h2 : (!h.fl.isTrackable && s.ownedG.any fun p => decide (p.snd = g)) = true
      · simp only [h2, if_true]
      · simp only [h2, if_false, Bool.false_eq_true]
  | ownT fid t => simp only [Spec.mkFun, mkFun, hT]; cases aget s.T t <;> simp only [hS, hT, hG]
  | ownK fid k =>
    simp only [Spec.mkFun, mkFun, hK, Spec.LSt.fresh, St.fresh, hN]
    cases aget s.K k <;> simp only [hS, hT, hG]
  | ownG fid g =>
    simp only [Spec.mkFun, mkFun, hG, hO, Spec.LSt.fresh, St.fresh, hN]
    cases aget s.G g with
    | none => rfl
    | some h =>
      simp only []
      by_cases h1 : (h.everFwd && !h.fl.isTrackable) = true
      · simp only [h1, if_true]
      · by_cases h2 : (s.ownedG.any fun p => decide (p.snd = g)) = true
        · simp only [h1, h2, if_true, if_false, Bool.false_eq_true]
        · simp only [h1, h2, if_false, Bool.false_eq_true, hS, hT]
  | bad => rfl

theorem spec_specTaint_agrees (l : Spec.LSt) (s : St) (hS : l.S = s.S) (hG : l.G = s.G) (spec : FSpec) :
    Spec.specTaint l spec = specTaint s spec := by
  cases spec <;> simp only [Spec.specTaint, specTaint, hS, hG] <;> rfl

theorem spec_agrees_setS (l : Spec.LSt) (s : St) (hS : l.S = s.S) (hT : l.T = s.T) (hG : l.G = s.G)
    (hK : l.K = s.K) (hN : l.next = s.next) (hO : l.ownedG = s.ownedG) (i : Nat) (spec : FSpec) :
    obsS (Spec.stepSimple l (.setS i spec)) = obsP (stepSimple s (.setS i spec)) := by
  simp only [Spec.stepSimple, stepSimple, hS, obsS, obsP, spec_specTaint_agrees l s hS hG]
  cases aget s.S i with
  | none => simp only [Option.map_some, hS]
  | some d =>
    simp only []
    by_cases hin : d.incall > 0
    · simp only [hin, if_true, Option.map_some, hS]
    · simp only [hin, if_false]
      have hm := spec_mkFun_agrees l s hS hT hG hK hN hO d.isVoid spec
      cases h1 : Spec.mkFun l d.isVoid spec with
      | error e1 =>
        cases h2 : mkFun s d.isVoid spec with
        | error e2 => rw [h1, h2] at hm; simp only [Except.error.injEq] at hm; simp only [Option.map_some, hS, hm]
        | ok p2 => rw [h1, h2] at hm; cases hm
      | ok p1 =>
        cases h2 : mkFun s d.isVoid spec with
        | error e2 => rw [h1, h2] at hm; cases hm
        | ok p2 =>
          rw [h1, h2] at hm
          obtain ⟨f1, l1⟩ := p1
          obtain ⟨f2, s2⟩ := p2
          simp only [Except.ok.injEq, Prod.mk.injEq] at hm
          obtain ⟨rfl, hS', _, _⟩ := hm
          simp only [Option.map_some, hS']

theorem spec_agrees_mkS (l : Spec.LSt) (s : St) (hS : l.S = s.S) (hT : l.T = s.T) (hG : l.G = s.G)
    (hK : l.K = s.K) (hN : l.next = s.next) (hO : l.ownedG = s.ownedG) (i : Nat) (ty : String) (spec : FSpec) :
    obsS (Spec.stepSimple l (.mkS i ty spec)) = obsP (stepSimple s (.mkS i ty spec)) := by
  simp only [Spec.stepSimple, stepSimple, hS, obsS, obsP, spec_specTaint_agrees l s hS hG]
  cases aget s.S i with
  | some d => simp only [Option.map_some, hS]
  | none =>
    simp only []
    by_cases hty : (ty ≠ "I" && ty ≠ "V") = true
    · simp only [hty, if_true, Option.map_some, hS]
    · simp only [hty]
      have hm := spec_mkFun_agrees l s hS hT hG hK hN hO (ty = "V") spec
      cases h1 : Spec.mkFun l (ty = "V") spec with
      | error e1 =>
        cases h2 : mkFun s (ty = "V") spec with
        | error e2 => rw [h1, h2] at hm; simp only [Except.error.injEq] at hm; simp only [Bool.false_eq_true, if_false, Option.map_some, hS, hm]
        | ok p2 => rw [h1, h2] at hm; cases hm
      | ok p1 =>
        cases h2 : mkFun s (ty = "V") spec with
        | error e2 => rw [h1, h2] at hm; cases hm
        | ok p2 =>
          rw [h1, h2] at hm
          obtain ⟨f1, l1⟩ := p1
          obtain ⟨f2, s2⟩ := p2
          simp only [Except.ok.injEq, Prod.mk.injEq] at hm
          obtain ⟨rfl, hS', _, _⟩ := hm
          simp only [Bool.false_eq_true, if_false, Option.map_some, hS']

/-- on every operation on slot variables the specification `S` and the mechanism model `P`, started from
    states with the same slot variables, trackables, signal handles, scoped connections, functor-owned signal objects and allocator, give the same answer and the same
    slot variables -/
theorem spec_agrees_slotOp (l : Spec.LSt) (s : St) (hS : l.S = s.S) (hT : l.T = s.T) (hG : l.G = s.G)
    (hK : l.K = s.K) (hN : l.next = s.next) (hO : l.ownedG = s.ownedG) (op : Op) (ws : List Nat) (hw : slotWrites op = some ws) :
    obsS (Spec.stepSimple l op) = obsP (stepSimple s op) := by
  cases op <;> simp only [slotWrites, Option.some.injEq] at hw <;> try cases hw
  · exact spec_agrees_mkS l s hS hT hG hK hN hO _ _ _
  · exact spec_agrees_mkS0 l s hS _ _
  · exact spec_agrees_cpS l s hS _ _
  · exact spec_agrees_mvS l s hS _ _
  · exact spec_agrees_asgS l s hS _ _
  · exact spec_agrees_masgS l s hS _ _
  · exact spec_agrees_setS l s hS hT hG hK hN hO _ _
  · exact spec_agrees_delS l s hS _
  · exact spec_agrees_discS l s hS _
  · exact spec_agrees_blockS l s hS _ _
  · exact spec_agrees_blockedSq l s hS _
  · exact spec_agrees_emptySq l s hS _

end Sigc.StepSlots
