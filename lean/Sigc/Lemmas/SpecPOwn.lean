import Sigc.Lemmas.SpecPDefs
/-!
# SpecPOwn — objects owned by functors in `S`: `dropHandle`, `collectStep`, `collect`

`collect` only ever *releases*: the owned lists shrink, no signal object appears, no functor copy appears
(`Shrink`).  It runs until every remaining owned object is held by some functor copy (`collect_complete`).
-/
namespace Sigc.SpecP
open Sigc.Spec
open Sigc.Model (aget aset adel amap Prog Line Op FSpec Fun SlotB SlotVar Rep Handle Flavour Strat Outcome Event
  aget_nil aget_aset_same aget_aset_other aget_amap aget_adel_same aget_adel_other)

/-! ## association lists -/

theorem aget_mem {α} (l : List (Nat × α)) (k : Nat) (v : α) (h : aget l k = some v) : (k, v) ∈ l := by
  induction l with
  | nil => simp [aget] at h
  | cons p t ih =>
    obtain ⟨k', v'⟩ := p
    simp only [aget] at h
    split at h
    · rename_i e
      cases h; subst e; exact List.mem_cons_self
    · exact List.mem_cons_of_mem _ (ih h)

theorem mem_aset {α} (l : List (Nat × α)) (k : Nat) (v : α) (p : Nat × α) (h : p ∈ aset l k v) : p = (k, v) ∨ p ∈ l := by
  induction l with
  | nil => simp [aset] at h; exact Or.inl h
  | cons q t ih =>
    obtain ⟨k', v'⟩ := q
    simp only [aset] at h
    split at h
    · simp only [List.mem_cons] at h
      rcases h with h | h
      · exact Or.inl h
      · exact Or.inr (List.mem_cons_of_mem _ h)
    · simp only [List.mem_cons] at h
      rcases h with h | h
      · exact Or.inr (h ▸ List.mem_cons_self)
      · rcases ih h with h | h
        · exact Or.inl h
        · exact Or.inr (List.mem_cons_of_mem _ h)

theorem aget_adel_none {α : Type} (l : List (Nat × α)) (k g : Nat) (h : aget l g = none) : aget (adel l k) g = none := by
  by_cases e : g = k
  · rw [e]; exact aget_adel_same _ _
  · rw [aget_adel_other _ _ _ e]; exact h

/-! ## which fields the primitives touch -/

theorem removeCell_frame (s : LSt) (cid : Nat) :
    (removeCell s cid).G = s.G ∧ (removeCell s cid).S = s.S ∧ (removeCell s cid).ownedT = s.ownedT ∧
    (removeCell s cid).ownedK = s.ownedK ∧ (removeCell s cid).ownedG = s.ownedG := by
  unfold removeCell
  split
  · exact ⟨rfl, rfl, rfl, rfl, rfl⟩
  · split <;> exact ⟨rfl, rfl, rfl, rfl, rfl⟩

theorem gcSig_frame (s : LSt) (i : Nat) :
    (gcSig s i).G = s.G ∧ (gcSig s i).S = s.S ∧ (gcSig s i).ownedT = s.ownedT ∧
    (gcSig s i).ownedK = s.ownedK ∧ (gcSig s i).ownedG = s.ownedG := by
  unfold gcSig
  split
  · exact ⟨rfl, rfl, rfl, rfl, rfl⟩
  · split <;> exact ⟨rfl, rfl, rfl, rfl, rfl⟩

theorem gcSig_sigs_other (s : LSt) (i k : Nat) (hk : k ≠ i) : aget (gcSig s i).sigs k = aget s.sigs k := by
  unfold gcSig
  split
  · rfl
  · split
    · exact aget_adel_other _ _ _ hk
    · rfl

/-- a list some signal object refers to is not destroyed -/
theorem gcSig_referred (s : LSt) (i : Nat) (h : ∃ p ∈ s.G, p.2.impl = some i) : gcSig s i = s := by
  unfold gcSig
  split
  · rfl
  · have : s.G.any (fun p => p.2.impl = some i) = true := by
      simp only [List.any_eq_true, decide_eq_true_eq]; exact h
    simp [this]

/-- `dropHandle`, spelled out for a live signal object -/
theorem dropHandle_eq (s : LSt) (g : Nat) (h : Handle) (hg : aget s.G g = some h) :
    dropHandle s g =
      (match h.impl with
       | some im => gcSig { (if h.fl.isTrackable then invalidateTrackable s h.trk else s) with
                            G := adel (if h.fl.isTrackable then invalidateTrackable s h.trk else s).G g } im
       | none => { (if h.fl.isTrackable then invalidateTrackable s h.trk else s) with
                   G := adel (if h.fl.isTrackable then invalidateTrackable s h.trk else s).G g }) := by
  unfold dropHandle
  simp only [hg]
  cases h.impl <;> rfl

theorem ite_inv_G (s : LSt) (b : Bool) (t : Nat) : (if b then invalidateTrackable s t else s).G = s.G := by
  cases b <;> rfl

theorem dropHandle_dead (s : LSt) (g : Nat) (hg : aget s.G g = none) : dropHandle s g = s := by
  unfold dropHandle
  simp only [hg]

/-- the name is gone, every other name is untouched -/
theorem dropHandle_G (s : LSt) (g : Nat) : (dropHandle s g).G = adel s.G g := by
  cases hg : aget s.G g with
  | none =>
    rw [dropHandle_dead s g hg]
    unfold adel
    symm
    rw [List.filter_eq_self]
    intro p hp
    simp only [decide_eq_true_eq]
    intro e
    have : ∀ (l : List (Nat × Handle)), p ∈ l → aget l g ≠ none := by
      intro l
      induction l with
      | nil => intro h; cases h
      | cons q t ih =>
        intro hm
        obtain ⟨k', v'⟩ := q
        simp only [aget]
        split
        · simp
        · rename_i hne
          simp only [List.mem_cons] at hm
          rcases hm with rfl | hm
          · exact absurd e hne
          · exact ih hm
    exact this _ hp hg
  | some h =>
    rw [dropHandle_eq s g h hg]
    cases h.impl with
    | none => simp only [ite_inv_G]
    | some im => simp only [(gcSig_frame _ _).1, ite_inv_G]

theorem dropHandle_owned (s : LSt) (g : Nat) :
    (dropHandle s g).ownedT = s.ownedT ∧ (dropHandle s g).ownedK = s.ownedK ∧ (dropHandle s g).ownedG = s.ownedG := by
  cases hg : aget s.G g with
  | none => rw [dropHandle_dead s g hg]; exact ⟨rfl, rfl, rfl⟩
  | some h =>
    rw [dropHandle_eq s g h hg]
    cases h.impl <;> cases h.fl.isTrackable <;>
      simp [(gcSig_frame _ _).2.2.1, (gcSig_frame _ _).2.2.2.1, (gcSig_frame _ _).2.2.2.2, invalidateTrackable]

/-- the list of another signal object survives `dropHandle` (with the same emissions in progress; unchanged if
    the destroyed signal object is not a `trackable_signal`) -/
theorem dropHandle_keeps_list (s : LSt) (g g0 im : Nat) (h0 : Handle) (x : LSig) (hne : g0 ≠ g)
    (hg0 : aget s.G g0 = some h0) (hi : h0.impl = some im) (hx : aget s.sigs im = some x) :
    ∃ x', aget (dropHandle s g).sigs im = some x' ∧ x'.active = x.active ∧
      ((∀ h, aget s.G g = some h → h.fl.isTrackable = false) → x' = x) := by
  cases hg : aget s.G g with
  | none => rw [dropHandle_dead s g hg]; exact ⟨x, hx, rfl, fun _ => rfl⟩
  | some h =>
    rw [dropHandle_eq s g h hg]
    -- the state before `gcSig`
    have key : ∀ (s1 : LSt) (x1 : LSig), s1.G = s.G → aget s1.sigs im = some x1 →
        aget (match h.impl with
              | some i => gcSig { s1 with G := adel s1.G g } i
              | none => { s1 with G := adel s1.G g }).sigs im = some x1 := by
      intro s1 x1 e1 e2
      cases hh : h.impl with
      | none => exact e2
      | some i =>
        simp only
        by_cases hii : im = i
        · subst hii
          rw [gcSig_referred]
          · exact e2
          · refine ⟨(g0, h0), ?_, hi⟩
            simp only [adel, List.mem_filter, decide_eq_true_eq, e1]
            exact ⟨aget_mem _ _ _ hg0, hne⟩
        · rw [gcSig_sigs_other _ _ _ hii]; exact e2
    cases ht : h.fl.isTrackable with
    | false =>
      simp only [Bool.false_eq_true, if_false]
      exact ⟨x, key s x rfl hx, rfl, fun _ => rfl⟩
    | true =>
      simp only [if_true]
      refine ⟨x.remove s.k1 s.k2 true (fun c => c.slot.tracksObj h.trk), key _ _ rfl ?_, rfl, ?_⟩
      · simp only [invalidateTrackable, aget_amap, hx, Option.map_some]
      · intro hall
        rw [hall h rfl] at ht
        cases ht

/-! ## functor copies holding an owned object: only ever fewer -/

/-- some functor copy kept by list `g` (in an entry, or in a slot disconnected during an emission) holds `k` -/
def sigHoldsK (g : LSig) (k : Nat) : Bool :=
  g.cells.any (fun c => c.slot.holdsK k) || g.limbo.any (fun sl => sl.holdsK k)

theorem heldK_eq (s : LSt) (k : Nat) :
    heldK s k = (s.S.any (fun p => p.2.slot.holdsK k) || s.sigs.any (fun p => sigHoldsK p.2 k)) := rfl

theorem holdsK_invalidate (sl : SlotB) (k : Nat) : sl.invalidate.holdsK k = false := by
  obtain ⟨b, rep⟩ := sl
  cases rep <;> rfl

theorem holdsK_disconnectRep (sl : SlotB) (k : Nat) : sl.disconnectRep.holdsK k = sl.holdsK k := by
  obtain ⟨b, rep⟩ := sl
  cases rep with
  | none => rfl
  | some r =>
    obtain ⟨call, fn⟩ := r
    cases fn <;> rfl

theorem remove_sigHoldsK (g : LSig) (k1 k2 d : Bool) (p : LCell → Bool) (k : Nat)
    (h : sigHoldsK (g.remove k1 k2 d p) k = true) : sigHoldsK g k = true := by
  simp only [sigHoldsK, Bool.or_eq_true, List.any_eq_true] at h ⊢
  unfold LSig.remove at h
  simp only at h
  rcases h with ⟨c, hc, hk⟩ | ⟨sl, hsl, hk⟩
  · split at hc
    · obtain ⟨c0, hc0, rfl⟩ := List.mem_map.1 hc
      split at hk
      · cases d
        · simp only [Bool.false_eq_true, if_false, holdsK_disconnectRep] at hk
          exact Or.inl ⟨c0, hc0, hk⟩
        · simp [holdsK_invalidate] at hk
      · exact Or.inl ⟨c0, hc0, hk⟩
    · exact Or.inl ⟨c, (List.mem_filter.1 hc).1, hk⟩
  · split at hsl
    · rcases List.mem_append.1 hsl with hsl | hsl
      · exact Or.inr ⟨sl, hsl, hk⟩
      · obtain ⟨c0, hc0, rfl⟩ := List.mem_map.1 hsl
        exact Or.inl ⟨c0, (List.mem_filter.1 hc0).1, hk⟩
    · exact Or.inr ⟨sl, hsl, hk⟩

/-- `s'` holds no more than `s`: no new name of a signal object, no new functor copy holding an owned object,
    owned lists only shorter -/
structure Shrink (s s' : LSt) : Prop where
  held : ∀ k, heldK s' k = true → heldK s k = true
  G : ∀ g, aget s.G g = none → aget s'.G g = none
  oT : s'.ownedT.Sublist s.ownedT
  oK : s'.ownedK.Sublist s.ownedK
  oG : s'.ownedG.Sublist s.ownedG

theorem Shrink.refl (s : LSt) : Shrink s s :=
  ⟨fun _ h => h, fun _ h => h, List.Sublist.refl _, List.Sublist.refl _, List.Sublist.refl _⟩

theorem Shrink.trans {s s' s'' : LSt} (h1 : Shrink s s') (h2 : Shrink s' s'') : Shrink s s'' :=
  ⟨fun k h => h1.held k (h2.held k h), fun g h => h2.G g (h1.G g h), h2.oT.trans h1.oT, h2.oK.trans h1.oK,
   h2.oG.trans h1.oG⟩

/-- only `G` and the owned lists change, and they shrink -/
theorem shrink_frame {s s' : LSt} (hS : s'.S = s.S) (hs : s'.sigs = s.sigs) (hG : ∀ g, aget s.G g = none → aget s'.G g = none)
    (oT : s'.ownedT.Sublist s.ownedT) (oK : s'.ownedK.Sublist s.ownedK) (oG : s'.ownedG.Sublist s.ownedG) :
    Shrink s s' :=
  ⟨fun k h => by rw [heldK_eq] at h ⊢; rw [hS, hs] at h; exact h, hG, oT, oK, oG⟩

theorem shrink_invalidate (s : LSt) (t : Nat) : Shrink s (invalidateTrackable s t) := by
  refine ⟨?_, fun _ h => h, List.Sublist.refl _, List.Sublist.refl _, List.Sublist.refl _⟩
  intro k h
  rw [heldK_eq] at h ⊢
  simp only [invalidateTrackable, amap, Bool.or_eq_true, List.any_eq_true, List.mem_map] at h ⊢
  rcases h with ⟨p, ⟨p0, hp0, rfl⟩, hk⟩ | ⟨p, ⟨p0, hp0, rfl⟩, hk⟩
  · simp only at hk
    split at hk
    · simp [holdsK_invalidate] at hk
    · exact Or.inl ⟨p0, hp0, hk⟩
  · exact Or.inr ⟨p0, hp0, remove_sigHoldsK _ _ _ _ _ _ hk⟩

theorem shrink_setSig (s : LSt) (i : Nat) (g g' : LSig) (hg : aget s.sigs i = some g)
    (hh : ∀ k, sigHoldsK g' k = true → sigHoldsK g k = true) : Shrink s (setSig s i g') := by
  refine ⟨?_, fun _ h => h, List.Sublist.refl _, List.Sublist.refl _, List.Sublist.refl _⟩
  intro k h
  rw [heldK_eq] at h ⊢
  simp only [setSig, Bool.or_eq_true, List.any_eq_true] at h ⊢
  rcases h with h | ⟨p, hp, hk⟩
  · exact Or.inl h
  · rcases mem_aset _ _ _ _ hp with rfl | hp
    · exact Or.inr ⟨(i, g), aget_mem _ _ _ hg, hh k hk⟩
    · exact Or.inr ⟨p, hp, hk⟩

theorem shrink_removeCell (s : LSt) (cid : Nat) : Shrink s (removeCell s cid) := by
  unfold removeCell
  split
  · exact Shrink.refl s
  · split
    · exact Shrink.refl s
    · rename_i i _ g hg
      exact shrink_setSig s _ g _ hg (fun k h => remove_sigHoldsK _ _ _ _ _ _ h)

theorem shrink_gcSig (s : LSt) (i : Nat) : Shrink s (gcSig s i) := by
  unfold gcSig
  split
  · exact Shrink.refl s
  · split
    · refine ⟨?_, fun _ h => h, List.Sublist.refl _, List.Sublist.refl _, List.Sublist.refl _⟩
      intro k h
      rw [heldK_eq] at h ⊢
      simp only [adel, Bool.or_eq_true, List.any_eq_true, List.mem_filter] at h ⊢
      rcases h with h | ⟨p, hp, hk⟩
      · exact Or.inl h
      · exact Or.inr ⟨p, hp.1, hk⟩
    · exact Shrink.refl s

theorem shrink_dropHandle (s : LSt) (g : Nat) : Shrink s (dropHandle s g) := by
  cases hg : aget s.G g with
  | none => rw [dropHandle_dead s g hg]; exact Shrink.refl s
  | some h =>
    rw [dropHandle_eq s g h hg]
    have h1 : Shrink s (if h.fl.isTrackable then invalidateTrackable s h.trk else s) := by
      split
      · exact shrink_invalidate _ _
      · exact Shrink.refl s
    generalize (if h.fl.isTrackable then invalidateTrackable s h.trk else s) = s1 at h1
    have h2 : Shrink s1 { s1 with G := adel s1.G g } :=
      shrink_frame rfl rfl (fun g' hg' => aget_adel_none _ _ _ hg') (List.Sublist.refl _) (List.Sublist.refl _)
        (List.Sublist.refl _)
    cases h.impl with
    | none => exact h1.trans h2
    | some im => exact (h1.trans h2).trans (shrink_gcSig _ _)

/-! ## `collectStep` -/

/-- the number of owned objects -/
def ownMeasure (s : LSt) : Nat := s.ownedT.length + s.ownedK.length + s.ownedG.length

theorem filter_length_lt {α} (l : List α) (p : α → Bool) (a : α) (ha : a ∈ l) (hp : p a = false) :
    (l.filter p).length < l.length := by
  induction l with
  | nil => cases ha
  | cons b t ih =>
    simp only [List.mem_cons] at ha
    by_cases e : a = b
    · subst e
      simp only [List.filter_cons, hp, Bool.false_eq_true, if_false, List.length_cons]
      exact Nat.lt_succ_of_le (List.length_filter_le _ _)
    · rcases ha with ha | ha
      · exact absurd ha e
      · simp only [List.filter_cons, List.length_cons]
        split
        · simp only [List.length_cons]; exact Nat.succ_lt_succ (ih ha)
        · exact Nat.lt_succ_of_lt (ih ha)

/-- the three cases of `collectStep`, and what each does -/
theorem collectStep_cases (s s' : LSt) (h : collectStep s = some s') :
    (∃ o, s.ownedT.find? (fun o => !heldT s o) = some o ∧
       s' = invalidateTrackable { s with ownedT := s.ownedT.filter (· ≠ o) } o) ∨
    (∃ k p, s.ownedT.find? (fun o => !heldT s o) = none ∧ s.ownedK.find? (fun p => !heldK s p.1) = some (k, p) ∧
       s' = (match p with
             | some cid => removeCell { s with ownedK := s.ownedK.filter (fun q => q.1 ≠ k) } cid
             | none => { s with ownedK := s.ownedK.filter (fun q => q.1 ≠ k) })) ∨
    (∃ k g, s.ownedT.find? (fun o => !heldT s o) = none ∧ s.ownedK.find? (fun p => !heldK s p.1) = none ∧
       s.ownedG.find? (fun p => !heldK s p.1) = some (k, g) ∧
       s' = dropHandle { s with ownedG := s.ownedG.filter (fun q => q.1 ≠ k) } g) := by
  unfold collectStep at h
  split at h
  · rename_i o ho
    simp only [Option.some.injEq] at h
    exact Or.inl ⟨o, ho, h.symm⟩
  · rename_i hT
    split at h
    · rename_i k p hK
      simp only [Option.some.injEq] at h
      exact Or.inr (Or.inl ⟨k, p, hT, hK, h.symm⟩)
    · rename_i hK
      split at h
      · rename_i k g hG
        simp only [Option.some.injEq] at h
        exact Or.inr (Or.inr ⟨k, g, hT, hK, hG, h.symm⟩)
      · cases h

theorem collectStep_measure (s s' : LSt) (h : collectStep s = some s') : ownMeasure s' < ownMeasure s := by
  rcases collectStep_cases s s' h with ⟨o, ho, rfl⟩ | ⟨k, p, _, hK, rfl⟩ | ⟨k, g, _, _, hG, rfl⟩
  · have := filter_length_lt s.ownedT (· ≠ o) o (List.mem_of_find?_eq_some ho) (by simp)
    simp only [ownMeasure, invalidateTrackable]
    omega
  · have := filter_length_lt s.ownedK (fun q => q.1 ≠ k) (k, p) (List.mem_of_find?_eq_some hK) (by simp)
    cases p with
    | none => simp only [ownMeasure]; omega
    | some cid =>
      simp only [ownMeasure, (removeCell_frame _ _).2.2.1, (removeCell_frame _ _).2.2.2.1, (removeCell_frame _ _).2.2.2.2]
      omega
  · have := filter_length_lt s.ownedG (fun q => q.1 ≠ k) (k, g) (List.mem_of_find?_eq_some hG) (by simp)
    simp only [ownMeasure, (dropHandle_owned _ _).1, (dropHandle_owned _ _).2.1, (dropHandle_owned _ _).2.2]
    omega

theorem shrink_collectStep (s s' : LSt) (h : collectStep s = some s') : Shrink s s' := by
  rcases collectStep_cases s s' h with ⟨o, _, rfl⟩ | ⟨k, p, _, _, rfl⟩ | ⟨k, g, _, _, _, rfl⟩
  · exact (shrink_frame (s := s) (s' := { s with ownedT := s.ownedT.filter (· ≠ o) }) rfl rfl (fun _ h => h)
      List.filter_sublist (List.Sublist.refl _) (List.Sublist.refl _)).trans (shrink_invalidate _ _)
  · have h0 : Shrink s { s with ownedK := s.ownedK.filter (fun q => q.1 ≠ k) } :=
      shrink_frame rfl rfl (fun _ h => h) (List.Sublist.refl _) List.filter_sublist (List.Sublist.refl _)
    cases p with
    | none => exact h0
    | some cid => exact h0.trans (shrink_removeCell _ _)
  · exact (shrink_frame (s := s) (s' := { s with ownedG := s.ownedG.filter (fun q => q.1 ≠ k) }) rfl rfl (fun _ h => h)
      (List.Sublist.refl _) (List.Sublist.refl _) List.filter_sublist).trans (shrink_dropHandle _ _)

theorem shrink_collectN (n : Nat) : ∀ s, Shrink s (collectN n s) := by
  induction n with
  | zero => intro s; exact Shrink.refl s
  | succ n ih =>
    intro s
    unfold collectN
    split
    · rename_i s' h
      exact (shrink_collectStep s s' h).trans (ih s')
    · exact Shrink.refl s

theorem collectStep_none_iff (s : LSt) :
    collectStep s = none ↔ (∀ o ∈ s.ownedT, heldT s o = true) ∧ (∀ p ∈ s.ownedK, heldK s p.1 = true) ∧
      (∀ p ∈ s.ownedG, heldK s p.1 = true) := by
  constructor
  · intro h
    unfold collectStep at h
    split at h
    · cases h
    · rename_i hT
      split at h
      · cases h
      · rename_i hK
        split at h
        · cases h
        · rename_i hG
          rw [List.find?_eq_none] at hT hK hG
          exact ⟨fun o ho => by simpa using hT o ho, fun p hp => by simpa using hK p hp,
            fun p hp => by simpa using hG p hp⟩
  · rintro ⟨hT, hK, hG⟩
    cases hc : collectStep s with
    | none => rfl
    | some s' =>
      rcases collectStep_cases s s' hc with ⟨o, ho, _⟩ | ⟨k, p, _, hk, _⟩ | ⟨k, g, _, _, hg, _⟩
      · have := List.find?_some ho
        simp [hT o (List.mem_of_find?_eq_some ho)] at this
      · have := List.find?_some hk
        simp [hK _ (List.mem_of_find?_eq_some hk)] at this
      · have := List.find?_some hg
        simp [hG _ (List.mem_of_find?_eq_some hg)] at this

theorem collectN_complete (n : Nat) : ∀ s, ownMeasure s ≤ n → collectStep (collectN n s) = none := by
  induction n with
  | zero =>
    intro s h
    simp only [ownMeasure] at h
    have hT : s.ownedT = [] := List.eq_nil_of_length_eq_zero (by omega)
    have hK : s.ownedK = [] := List.eq_nil_of_length_eq_zero (by omega)
    have hG : s.ownedG = [] := List.eq_nil_of_length_eq_zero (by omega)
    rw [collectStep_none_iff]
    simp [collectN, hT, hK, hG]
  | succ n ih =>
    intro s h
    unfold collectN
    split
    · rename_i s' hs
      have := collectStep_measure s s' hs
      exact ih s' (by omega)
    · rename_i hs; exact hs

/-- `collect` runs until nothing is left to release -/
theorem collectStep_collect (s : LSt) : collectStep (Spec.collect s) = none :=
  collectN_complete _ s (Nat.le_refl _)

/-- an unheld functor-owned signal object (owner ids pairwise distinct) does not survive `collectN`, if the fuel
    suffices -/
theorem collectN_drops (k g : Nat) (n : Nat) : ∀ s, ownMeasure s ≤ n → (s.ownedG.map (·.1)).Nodup →
    (k, g) ∈ s.ownedG → heldK s k = false →
    aget (collectN n s).G g = none ∧ ∀ g', (k, g') ∉ (collectN n s).ownedG := by
  induction n with
  | zero =>
    intro s h _ hm _
    simp only [ownMeasure] at h
    have hG : s.ownedG = [] := List.eq_nil_of_length_eq_zero (by omega)
    rw [hG] at hm; cases hm
  | succ n ih =>
    intro s h hnd hm hh
    unfold collectN
    cases hs : collectStep s with
    | none =>
      have := ((collectStep_none_iff s).1 hs).2.2 _ hm
      rw [hh] at this; cases this
    | some s' =>
      simp only
      have hlt := collectStep_measure s s' hs
      have hsh := shrink_collectStep s s' hs
      have hheld' : heldK s' k = false := by
        cases e : heldK s' k with
        | false => rfl
        | true => rw [hsh.held k e] at hh; cases hh
      have hnd' : (s'.ownedG.map (·.1)).Nodup := (hsh.oG.map _).nodup hnd
      -- is `(k, g)` still owned in `s'`?
      by_cases hm' : (k, g) ∈ s'.ownedG
      · exact ih s' (by omega) hnd' hm' hheld'
      · -- no: then this step was the one that released it
        have hdone : aget s'.G g = none ∧ ∀ g', (k, g') ∉ s'.ownedG := by
          rcases collectStep_cases s s' hs with ⟨o, _, rfl⟩ | ⟨k1, p, _, _, rfl⟩ | ⟨k1, g1, _, _, hG, rfl⟩
          · exact absurd hm hm'
          · cases p with
            | none => exact absurd hm hm'
            | some cid => rw [(removeCell_frame _ _).2.2.2.2] at hm'; exact absurd hm hm'
          · rw [(dropHandle_owned _ _).2.2] at hm'
            simp only [List.mem_filter, decide_eq_true_eq, not_and, Decidable.not_not] at hm'
            have hk1 : k = k1 := hm' hm
            subst hk1
            -- owner ids are distinct: the entry found is `(k, g)`
            have hg1 : g1 = g := by
              have hm1 := List.mem_of_find?_eq_some hG
              have : ∀ (l : List (Nat × Nat)), (l.map (·.1)).Nodup → (k, g) ∈ l → (k, g1) ∈ l → g1 = g := by
                intro l
                induction l with
                | nil => intro _ h; cases h
                | cons q t ih2 =>
                  intro hn ha hb
                  simp only [List.map_cons, List.nodup_cons, List.mem_map, not_exists, not_and] at hn
                  simp only [List.mem_cons] at ha hb
                  rcases ha with ha | ha <;> rcases hb with hb | hb
                  · rw [← ha] at hb; exact (Prod.mk.inj hb).2
                  · exact absurd (by rw [← ha]) (hn.1 _ hb)
                  · exact absurd (by rw [← hb]) (hn.1 _ ha)
                  · exact ih2 hn.2 ha hb
              exact this _ hnd hm hm1
            subst hg1
            refine ⟨?_, ?_⟩
            · rw [dropHandle_G]; exact aget_adel_same _ _
            · intro g'
              rw [(dropHandle_owned _ _).2.2]
              simp [List.mem_filter]
        have hsh2 := shrink_collectN n s'
        refine ⟨hsh2.G g hdone.1, fun g' hc => hdone.2 g' (hsh2.oG.subset hc)⟩

/-! ## `ensureSig`, `insertCell` and the owned lists -/

theorem ensureSig_ownedG (s s1 : LSt) (g im : Nat) (h : ensureSig s g = some (s1, im)) : s1.ownedG = s.ownedG := by
  unfold ensureSig at h
  split at h
  · cases h
  · split at h
    · simp only [Option.some.injEq, Prod.mk.injEq] at h
      rw [← h.1]
    · simp only [LSt.fresh, Option.some.injEq, Prod.mk.injEq] at h
      rw [← h.1]

theorem insertCell_frame (s : LSt) (i : Nat) (first : Bool) (sl : SlotB) :
    (insertCell s i first sl).1.G = s.G ∧ (insertCell s i first sl).1.ownedG = s.ownedG := by
  unfold insertCell
  simp only [LSt.fresh]
  split
  · simp only [LSt.fail]
    split <;> exact ⟨rfl, rfl⟩
  · exact ⟨rfl, rfl⟩

end Sigc.SpecP
