import Sigc.Lemmas.Basic
/-! association-list and cell-lookup lemmas used by the invariants -/
namespace Sigc.Inv
open Sigc.Model

variable {α : Type}

theorem mem_of_aget {l : List (Nat × α)} {k : Nat} {v : α} (h : aget l k = some v) : (k, v) ∈ l := by
  induction l with
  | nil => simp [aget] at h
  | cons p t ih =>
    obtain ⟨k', v'⟩ := p
    simp only [aget] at h
    split at h
    · rename_i hk; cases h; subst hk; exact List.mem_cons_self
    · exact List.mem_cons_of_mem _ (ih h)

theorem aget_none_iff {l : List (Nat × α)} {k : Nat} : aget l k = none ↔ k ∉ l.map (·.1) := by
  induction l with
  | nil => simp [aget]
  | cons p t ih =>
    obtain ⟨k', v'⟩ := p
    simp only [aget, List.map_cons, List.mem_cons, not_or]
    by_cases hk : k' = k
    · simp [hk]
    · simp only [hk, if_false, ih]
      constructor
      · intro h; exact ⟨fun e => hk e.symm, h⟩
      · intro h; exact h.2

theorem aget_of_mem {l : List (Nat × α)} (hn : (l.map (·.1)).Nodup) {k : Nat} {v : α} (h : (k, v) ∈ l) :
    aget l k = some v := by
  induction l with
  | nil => cases h
  | cons p t ih =>
    obtain ⟨k', v'⟩ := p
    simp only [List.map_cons, List.nodup_cons] at hn
    simp only [aget]
    cases h with
    | head => simp
    | tail _ ht =>
      have : k' ≠ k := by
        intro e; subst e
        exact hn.1 (List.mem_map.2 ⟨(k', v), ht, rfl⟩)
      simp only [this, if_false]
      exact ih hn.2 ht

theorem keys_aset_some {l : List (Nat × α)} {k : Nat} {v0 : α} (v : α) (h : aget l k = some v0) :
    (aset l k v).map (·.1) = l.map (·.1) := by
  induction l with
  | nil => simp [aget] at h
  | cons p t ih =>
    obtain ⟨k', v'⟩ := p
    simp only [aget] at h
    by_cases hk : k' = k
    · simp [aset, hk]
    · simp only [hk, if_false] at h
      simp [aset, hk, ih h]

theorem aset_of_none {l : List (Nat × α)} {k : Nat} (v : α) (h : aget l k = none) :
    aset l k v = l ++ [(k, v)] := by
  induction l with
  | nil => rfl
  | cons p t ih =>
    obtain ⟨k', v'⟩ := p
    simp only [aget] at h
    by_cases hk : k' = k
    · simp [hk] at h
    · simp only [hk, if_false] at h
      simp [aset, hk, ih h]

theorem keys_adel (l : List (Nat × α)) (k : Nat) :
    (adel l k).map (·.1) = (l.map (·.1)).filter (fun x => x ≠ k) := by
  induction l with
  | nil => rfl
  | cons p t ih =>
    obtain ⟨k', v'⟩ := p
    rw [adel_cons]
    by_cases hk : k' = k
    · simp [hk, ih]
    · simp [hk, ih, List.filter_cons]

theorem keys_nodup_aset {l : List (Nat × α)} (hn : (l.map (·.1)).Nodup) (k : Nat) (v : α) :
    ((aset l k v).map (·.1)).Nodup := by
  cases h : aget l k with
  | some v0 => rw [keys_aset_some v h]; exact hn
  | none =>
    rw [aset_of_none v h, List.map_append, List.nodup_append]
    refine ⟨hn, by simp, ?_⟩
    intro a ha b hb
    simp at hb
    subst hb
    intro e; subst e
    exact (aget_none_iff.1 h) ha

theorem keys_nodup_adel {l : List (Nat × α)} (hn : (l.map (·.1)).Nodup) (k : Nat) :
    ((adel l k).map (·.1)).Nodup := by
  rw [keys_adel]
  exact List.Nodup.sublist List.filter_sublist hn

theorem aget_aset (l : List (Nat × α)) (k k' : Nat) (v : α) :
    aget (aset l k v) k' = if k' = k then some v else aget l k' := by
  by_cases h : k' = k
  · subst h; simp
  · simp [h, aget_aset_other _ _ _ _ h]

theorem aget_adel (l : List (Nat × α)) (k k' : Nat) :
    aget (adel l k) k' = if k' = k then none else aget l k' := by
  by_cases h : k' = k
  · subst h; simp
  · simp [h, aget_adel_other _ _ _ h]

/-! ### cells -/

theorem findCellImpl_some {l : List (Nat × Impl)} {cid i : Nat} (h : findCellImpl l cid = some i) :
    ∃ im, (i, im) ∈ l ∧ ∃ c ∈ im.cells, c.id = cid := by
  induction l with
  | nil => simp [findCellImpl] at h
  | cons p t ih =>
    obtain ⟨k, im⟩ := p
    simp only [findCellImpl] at h
    split at h
    · rename_i ha
      cases h
      refine ⟨im, List.mem_cons_self, ?_⟩
      simpa using ha
    · obtain ⟨im', hm, hc⟩ := ih h
      exact ⟨im', List.mem_cons_of_mem _ hm, hc⟩

theorem findCellImpl_none {l : List (Nat × Impl)} {cid : Nat} (h : findCellImpl l cid = none) :
    ∀ i im, (i, im) ∈ l → ∀ c ∈ im.cells, c.id ≠ cid := by
  induction l with
  | nil => intro i im hm; cases hm
  | cons p t ih =>
    obtain ⟨k, im0⟩ := p
    simp only [findCellImpl] at h
    split at h
    · cases h
    · rename_i ha
      intro i im hm c hc
      cases hm with
      | head =>
        intro e
        apply ha
        simp only [List.any_eq_true, decide_eq_true_eq]
        exact ⟨c, hc, e⟩
      | tail _ ht => exact ih h i im ht c hc

theorem find?_id_some {cs : List Cell} {cid : Nat} {c : Cell} (hc : c ∈ cs) (he : c.id = cid) :
    ∃ c', cs.find? (·.id = cid) = some c' := by
  cases h : cs.find? (·.id = cid) with
  | some c' => exact ⟨c', rfl⟩
  | none =>
    rw [List.find?_eq_none] at h
    exact absurd (by simpa using he) (h c hc)

/-- with unique impl keys: the cell lookup succeeds iff some impl has a cell with that id -/
theorem getCell_ne_none_iff {s : St} (hn : (s.impls.map (·.1)).Nodup) (cid : Nat) :
    getCell s cid ≠ none ↔ ∃ i im, aget s.impls i = some im ∧ ∃ c ∈ im.cells, c.id = cid := by
  unfold getCell
  constructor
  · intro h
    split at h
    · exact absurd rfl h
    · rename_i i hf
      obtain ⟨im, hm, hc⟩ := findCellImpl_some hf
      exact ⟨i, im, aget_of_mem hn hm, hc⟩
  · rintro ⟨i, im, hi, c, hc, he⟩
    split
    · rename_i hf
      exact absurd he (findCellImpl_none hf i im (mem_of_aget hi) c hc)
    · rename_i j hf
      obtain ⟨jm, hm, c', hc', he'⟩ := findCellImpl_some hf
      rw [aget_of_mem hn hm]
      obtain ⟨c'', h''⟩ := find?_id_some hc' he'
      simp [h'']

theorem getCell_some {s : St} {cid i : Nat} {c : Cell} (h : getCell s cid = some (i, c)) :
    ∃ im, aget s.impls i = some im ∧ im.cells.find? (·.id = cid) = some c ∧ c ∈ im.cells ∧ c.id = cid := by
  unfold getCell at h
  split at h
  · cases h
  · split at h
    · cases h
    · rename_i j _ im hj
      cases hf : im.cells.find? (·.id = cid) with
      | none => simp [hf] at h
      | some c' =>
        simp only [hf, Option.map_some, Option.some.injEq, Prod.mk.injEq] at h
        obtain ⟨rfl, rfl⟩ := h
        exact ⟨im, hj, hf, List.mem_of_find?_eq_some hf, by simpa using List.find?_some hf⟩

end Sigc.Inv
