import Sigc.Lemmas.SpecKStepC
/-!
# SpecK — preparation of the mutual induction: unfolding lemmas of the interpreter, "nothing left to
collect" (`Settled`), the invoked functor of a turn on related states (`callable_sim`), small updates.
-/
namespace Sigc.SpecK
open Sigc.Model Sigc.Spec

/-! ## unfolding -/

theorem callable_eq (s : LSt) (i cid : Nat) :
    callable s i cid = ((aget s.sigs i).bind (fun g => g.cells.find? (·.id = cid))).bind (fun c => SlotB.callFn c.slot) := by
  unfold callable
  cases (aget s.sigs i).bind (fun g => g.cells.find? (·.id = cid)) with
  | none => rfl
  | some c =>
    obtain ⟨id, ⟨blocked, rep⟩, mk, zo⟩ := c
    cases blocked
    · cases rep with
      | none => rfl
      | some rp =>
        obtain ⟨call, fn⟩ := rp
        cases call <;> cases fn <;> rfl
    · rfl

theorem turns_unfold (f : Nat) (P : Prog) (s : LSt) (i cid : Nat) (rest : List Nat) (arg r : Nat) :
    turns (f+1) P s i (cid :: rest) arg r =
      (match (match callable s i cid with
              | none => some (s, Outcome.ok, r)
              | some fn => Spec.invokeFun f P s fn arg) with
       | none => none
       | some (s, .exc, v) => some (s, .exc, v)
       | some (s, .ok, v) => turns f P s i rest arg v) := by
  rw [turns]
  simp only [callable]
  cases (aget s.sigs i).bind (fun g => g.cells.find? (·.id = cid)) with
  | none => rfl
  | some c =>
    obtain ⟨id, ⟨blocked, rep⟩, mk, zo⟩ := c
    cases blocked
    · cases rep with
      | none => rfl
      | some rp =>
        obtain ⟨call, fn⟩ := rp
        cases call <;> cases fn <;> rfl
    · rfl

theorem deref_unfold (f : Nat) (P : Prog) (s : LSt) (i : Nat) (snap : List Nat) (it : It) (arg : Nat) :
    Spec.deref (f+1) P s i snap it arg =
      (match snap[it.pos]? with
       | none => some (s, .ok, it)
       | some cid =>
         match callable s i cid with
         | none => some (s, .ok, it)
         | some fn =>
           if it.invoked then some (s, .ok, it) else
           match Spec.invokeFun f P s fn arg with
           | none => none
           | some (s, .exc, _) => some (s, .exc, it)
           | some (s, .ok, v) => some (s, .ok, { it with buf := v, invoked := true })) := by
  rw [Spec.deref]
  cases snap[it.pos]? with
  | none => rfl
  | some cid =>
    simp only [callable]
    cases (aget s.sigs i).bind (fun g => g.cells.find? (·.id = cid)) with
    | none => rfl
    | some c =>
      obtain ⟨id, ⟨blocked, rep⟩, mk, zo⟩ := c
      cases blocked
      · cases rep with
        | none => rfl
        | some rp =>
          obtain ⟨call, fn⟩ := rp
          cases call <;> cases fn <;> rfl
      · rfl

/-- the operations that run user code -/
def isComplex : Op → Bool
  | .callS _ _ => true
  | .emit _ _ _ _ => true
  | .throw_ => true
  | _ => false

theorem execOp_simple (f : Nat) (P : Prog) (s : LSt) (op : Op) (h : isComplex op = false) :
    Spec.execOp (f+1) P s op =
      (match Spec.modeRule P s op with
       | some r => some (s, .ok r)
       | none =>
         match Spec.stepSimple s op with
         | some (s, r) => some (s, .ok r)
         | none => some (s, .ok "badop")) := by
  cases op <;> first | (simp [isComplex] at h; done) | (rw [Spec.execOp] <;> first | rfl | (intros; contradiction))

theorem cOp_simple (f : Nat) (P : Prog) (s : LSt) (op : Op) (h : isComplex op = false) : cOp (f+1) P s op = true := by
  cases op <;> first | (simp [isComplex] at h; done) | (simp [cOp])

/-! ## the calls end in related states -/

/-- the final states of a pair of calls are related by an extension of `ρ`, and the first run has kept its frame -/
def Good (ρ : IdRel) (t u t' u' : LSt) : Prop := ∃ ρ', Q ρ' t' u' ∧ Step ρ ρ' t t' u u' ∧ Fr t t'

theorem Good.refl {ρ : IdRel} {t u : LSt} (h : Q ρ t u) : Good ρ t u t u := ⟨ρ, h, Step.refl _ _ _, Fr.refl _⟩

theorem Good.of0 {ρ : IdRel} {t u t' u' : LSt} (h : Sim0 ρ t u t' u') : Good ρ t u t' u' := ⟨ρ, h.q, h.step, h.fr⟩

theorem Good.trans {ρ ρ1 : IdRel} {t u t1 u1 t2 u2 : LSt} (hs : Step ρ ρ1 t t1 u u1) (hf : Fr t t1)
    (h : Good ρ1 t1 u1 t2 u2) : Good ρ t u t2 u2 := by
  obtain ⟨ρ2, hq, hs2, hf2⟩ := h
  exact ⟨ρ2, hq, hs.trans hs2, hf.trans hf2⟩

/-- the same with other final states that differ only in components outside the frame -/
theorem Good.post {ρ : IdRel} {t u t1 u1 t2 u2 : LSt} (h : Good ρ t u t1 u1)
    (hq : ∀ ρ', Q ρ' t1 u1 → Q ρ' t2 u2) (hd : t2.depth = t1.depth) (hsg : t2.sigs = t1.sigs)
    (hn : t2.next = t1.next) (hn' : u2.next = u1.next) : Good ρ t u t2 u2 := by
  obtain ⟨ρ1, hq1, hs1, hf1⟩ := h
  exact ⟨ρ1, hq _ hq1, hs1.to hn hn', hf1.trans (Fr.of_eq hd hsg)⟩

/-! ## small updates -/

section
variable {ρ : IdRel} {t u : LSt}

theorem Q.log (h : Q ρ t u) (e : Event) : Q ρ (t.log e) (u.log e) := by
  unfold LSt.log
  exact { h with trace := by simp [h.trace] }

theorem Q.setDepth (h : Q ρ t u) (d : Nat) : Q ρ { t with depth := d } { u with depth := d } :=
  { h with depth := rfl }

theorem Q.setSteps (h : Q ρ t u) (d : Nat) : Q ρ { t with steps := d } { u with steps := d } :=
  { h with steps := rfl }

theorem aset_self {α : Type} {l : List (Nat × α)} {k : Nat} {v : α} (h : aget l k = some v) : aset l k v = l := by
  induction l with
  | nil => simp [aget] at h
  | cons p tl ih =>
    obtain ⟨k', v'⟩ := p
    by_cases e : k' = k
    · simp only [aget, e, if_true] at h; cases h; simp [aset, e]
    · simp only [aget, e, if_false] at h; simp [aset, e, ih h]

/-- only the second state's list is replaced -/
theorem Q.setSigU (h : Q ρ t u) {i i' : Nat} (hi : ρ i i') {g g' : LSig} (hx : aget t.sigs i = some g)
    (hg : SigR ρ g g') : Q ρ t (Spec.setSig u i' g') := by
  have := h.setSig hi hg (h.sig_inv hx).2
  unfold Spec.setSig at this ⊢
  rw [aset_self hx] at this
  exact this

end

/-! ## nothing left to collect -/

/-- no owned object is waiting to be destroyed -/
def Settled (t : LSt) : Prop := Spec.collectStep t = none

theorem Settled.congr {t t' : LSt} (h : Settled t) (h1 : t'.ownedT = t.ownedT) (h2 : t'.ownedK = t.ownedK)
    (h2' : t'.ownedG = t.ownedG)
    (h3 : ∀ o, Spec.heldT t' o = Spec.heldT t o) (h4 : ∀ o, Spec.heldK t' o = Spec.heldK t o) : Settled t' := by
  unfold Settled Spec.collectStep at h ⊢
  simp only [h1, h2, h2', h3, h4]
  cases hx : t.ownedT.find? (fun o => !Spec.heldT t o) with
  | some o => rw [hx] at h; simp at h
  | none =>
    rw [hx] at h
    simp only at h ⊢
    cases hy : t.ownedK.find? (fun p => !Spec.heldK t p.1) with
    | some p => rw [hy] at h; obtain ⟨k, p⟩ := p; simp at h
    | none =>
      rw [hy] at h
      simp only at h ⊢
      cases hz : t.ownedG.find? (fun p => !Spec.heldK t p.1) with
      | some p => rw [hz] at h; obtain ⟨k, g⟩ := p; simp at h
      | none => rfl

theorem collectN_of_settled {t : LSt} (h : Settled t) (n : Nat) : Spec.collectN n t = t := by
  cases n with
  | zero => rfl
  | succ n => unfold Spec.collectN; rw [h]

theorem removeCell_owned (s : LSt) (cid : Nat) :
    (removeCell s cid).ownedT = s.ownedT ∧ (removeCell s cid).ownedK = s.ownedK := by
  unfold removeCell
  cases findSig s.sigs cid with
  | none => exact ⟨rfl, rfl⟩
  | some i =>
    simp only
    cases aget s.sigs i with
    | none => exact ⟨rfl, rfl⟩
    | some g => exact ⟨rfl, rfl⟩

theorem removeCell_ownedG (s : LSt) (cid : Nat) : (removeCell s cid).ownedG = s.ownedG := by
  unfold removeCell
  cases findSig s.sigs cid with
  | none => rfl
  | some i =>
    simp only
    cases aget s.sigs i with
    | none => rfl
    | some g => rfl

theorem gcSig_owned (s : LSt) (i : Nat) :
    (gcSig s i).ownedT = s.ownedT ∧ (gcSig s i).ownedK = s.ownedK ∧ (gcSig s i).ownedG = s.ownedG := by
  unfold gcSig
  cases aget s.sigs i with
  | none => exact ⟨rfl, rfl, rfl⟩
  | some g =>
    simp only
    split
    · exact ⟨rfl, rfl, rfl⟩
    · exact ⟨rfl, rfl, rfl⟩

theorem dropHandle_owned (s : LSt) (g : Nat) :
    (Spec.dropHandle s g).ownedT = s.ownedT ∧ (Spec.dropHandle s g).ownedK = s.ownedK ∧
      (Spec.dropHandle s g).ownedG = s.ownedG := by
  unfold Spec.dropHandle
  cases aget s.G g with
  | none => exact ⟨rfl, rfl, rfl⟩
  | some h =>
    simp only
    have e : ∀ s1 : LSt, s1.ownedT = s.ownedT ∧ s1.ownedK = s.ownedK ∧ s1.ownedG = s.ownedG →
        (match h.impl with
          | some im => gcSig { s1 with G := adel s1.G g } im
          | none => { s1 with G := adel s1.G g }).ownedT = s.ownedT ∧
        (match h.impl with
          | some im => gcSig { s1 with G := adel s1.G g } im
          | none => { s1 with G := adel s1.G g }).ownedK = s.ownedK ∧
        (match h.impl with
          | some im => gcSig { s1 with G := adel s1.G g } im
          | none => { s1 with G := adel s1.G g }).ownedG = s.ownedG := by
      intro s1 hs1
      cases h.impl with
      | none => exact hs1
      | some im =>
        simp only
        have := gcSig_owned { s1 with G := adel s1.G g } im
        exact ⟨this.1.trans hs1.1, this.2.1.trans hs1.2.1, this.2.2.trans hs1.2.2⟩
    apply e
    split
    · exact ⟨rfl, rfl, rfl⟩
    · exact ⟨rfl, rfl, rfl⟩

theorem filter_keyG_length_lt {l : List (Nat × Nat)} {p : Nat × Nat} (h : p ∈ l) :
    (l.filter (fun q => q.1 ≠ p.1)).length < l.length := by
  induction l with
  | nil => simp at h
  | cons b tl ih =>
    simp only [List.filter_cons]
    by_cases e : b.1 = p.1
    · simp only [ne_eq, e, not_true_eq_false, decide_false, Bool.false_eq_true, if_false, List.length_cons]
      exact Nat.lt_succ_of_le (List.length_filter_le _ _)
    · have : p ∈ tl := by
        rcases List.mem_cons.mp h with h | h
        · subst h; exact absurd rfl e
        · exact h
      simp only [ne_eq, e, not_false_eq_true, decide_true, if_true, List.length_cons]
      exact Nat.succ_lt_succ (ih this)

theorem filter_ne_length_lt {α : Type} [DecidableEq α] {l : List α} {a : α} (h : a ∈ l) :
    (l.filter (· ≠ a)).length < l.length := by
  induction l with
  | nil => simp at h
  | cons b tl ih =>
    simp only [List.filter_cons]
    by_cases e : b = a
    · subst e
      simp only [ne_eq, not_true_eq_false, decide_false, Bool.false_eq_true, if_false, List.length_cons]
      exact Nat.lt_succ_of_le (List.length_filter_le _ _)
    · have : a ∈ tl := by
        rcases List.mem_cons.mp h with h | h
        · exact absurd h.symm e
        · exact h
      simp only [ne_eq, e, not_false_eq_true, decide_true, if_true, List.length_cons]
      exact Nat.succ_lt_succ (ih this)

theorem filter_key_length_lt {l : List (Nat × Option Nat)} {p : Nat × Option Nat} (h : p ∈ l) :
    (l.filter (fun q => q.1 ≠ p.1)).length < l.length := by
  induction l with
  | nil => simp at h
  | cons b tl ih =>
    simp only [List.filter_cons]
    by_cases e : b.1 = p.1
    · simp only [ne_eq, e, not_true_eq_false, decide_false, Bool.false_eq_true, if_false, List.length_cons]
      exact Nat.lt_succ_of_le (List.length_filter_le _ _)
    · have : p ∈ tl := by
        rcases List.mem_cons.mp h with h | h
        · subst h; exact absurd rfl e
        · exact h
      simp only [ne_eq, e, not_false_eq_true, decide_true, if_true, List.length_cons]
      exact Nat.succ_lt_succ (ih this)

theorem collectStep_decreases {s s' : LSt} (h : Spec.collectStep s = some s') :
    s'.ownedT.length + s'.ownedK.length + s'.ownedG.length
      < s.ownedT.length + s.ownedK.length + s.ownedG.length := by
  unfold Spec.collectStep at h
  cases hx : s.ownedT.find? (fun o => !Spec.heldT s o) with
  | some o =>
    rw [hx] at h
    simp only [Option.some.injEq] at h
    subst h
    have hm := List.mem_of_find?_eq_some hx
    have := filter_ne_length_lt hm
    show (List.filter (fun x => decide (x ≠ o)) s.ownedT).length + s.ownedK.length + s.ownedG.length < _
    omega
  | none =>
    rw [hx] at h
    simp only at h
    cases hy : s.ownedK.find? (fun p => !Spec.heldK s p.1) with
    | none =>
      rw [hy] at h
      simp only at h
      cases hz : s.ownedG.find? (fun p => !Spec.heldK s p.1) with
      | none => rw [hz] at h; simp at h
      | some p =>
        rw [hz] at h
        obtain ⟨k, g⟩ := p
        simp only [Option.some.injEq] at h
        have hm := List.mem_of_find?_eq_some hz
        have := filter_keyG_length_lt hm
        simp only at this
        subst h
        obtain ⟨e1, e2, e3⟩ := dropHandle_owned { s with ownedG := s.ownedG.filter (fun q => q.1 ≠ k) } g
        rw [e1, e2, e3]
        simp only; omega
    | some p =>
      rw [hy] at h
      obtain ⟨k, p⟩ := p
      simp only [Option.some.injEq] at h
      have hm := List.mem_of_find?_eq_some hy
      have := filter_key_length_lt hm
      simp only at this
      subst h
      cases p with
      | none => simp only; omega
      | some cid =>
        simp only
        rw [(removeCell_owned _ cid).1, (removeCell_owned _ cid).2, removeCell_ownedG]
        simp only; omega

theorem collectN_settled (n : Nat) : ∀ (s : LSt), s.ownedT.length + s.ownedK.length + s.ownedG.length ≤ n →
    Settled (Spec.collectN n s) := by
  induction n with
  | zero =>
    intro s h
    have h1 : s.ownedT = [] := List.length_eq_zero_iff.mp (by omega)
    have h2 : s.ownedK = [] := List.length_eq_zero_iff.mp (by omega)
    have h3 : s.ownedG = [] := List.length_eq_zero_iff.mp (by omega)
    unfold Spec.collectN Settled Spec.collectStep
    simp [h1, h2, h3]
  | succ n ih =>
    intro s h
    unfold Spec.collectN
    cases hx : Spec.collectStep s with
    | none => exact hx
    | some s' =>
      simp only
      have := collectStep_decreases hx
      exact ih s' (by omega)

theorem collect_settled (s : LSt) : Settled (Spec.collect s) := collectN_settled _ s (Nat.le_refl _)

end Sigc.SpecK
