import Sigc.Model
import Sigc.Lemmas.Basic
import Sigc.Lemmas.Frames
import Sigc.Lemmas.StepConn
import Sigc.Lemmas.StepHandles
import Sigc.Lemmas.StepTrack
import Sigc.Lemmas.StepWF
/-!
# StepOwned — signal objects owned by functors (`ownG`): `dropHandle` and `collect`

What the destructor primitives (`invalidateTrackable`, `disconnectCell`, `gcImpl`, `dropHandle`) and `collectStep`
do to the tables of owned objects, to "a functor copy still holds owner id `k`" (`heldK`: it can only become false)
and to the names in `G` (they can only disappear); `collect` reaches a fixpoint of `collectStep`.
Everything holds for arbitrary states.
-/
namespace Sigc.StepOwned
open Sigc.Model Sigc.StepConn Sigc.StepHandles Sigc.StepTrack Sigc.StepWF

/-! ### the tables of owned objects are left alone by the destructor primitives -/

/-- `ownedT`, `ownedG` unchanged; `ownedK` keeps its length (its connections may be nulled) -/
structure OwnFrame (s' s : St) : Prop where
  t : s'.ownedT = s.ownedT
  g : s'.ownedG = s.ownedG
  k : s'.ownedK.length = s.ownedK.length

theorem OwnFrame.refl (s : St) : OwnFrame s s := ⟨rfl, rfl, rfl⟩
theorem OwnFrame.trans {a b c : St} (h1 : OwnFrame a b) (h2 : OwnFrame b c) : OwnFrame a c :=
  ⟨h1.t.trans h2.t, h1.g.trans h2.g, h1.k.trans h2.k⟩

theorem OwnFrame.withG {a s : St} (h : OwnFrame a s) (G : List (Nat × Handle)) : OwnFrame { a with G := G } s :=
  ⟨h.t, h.g, h.k⟩

theorem OwnFrame.foldl {α : Type} (f : St → α → St) (hf : ∀ s a, OwnFrame (f s a) s) (l : List α) (s : St) :
    OwnFrame (l.foldl f s) s := by
  induction l generalizing s with
  | nil => exact OwnFrame.refl s
  | cons a t ih => exact (ih (f s a)).trans (hf s a)

theorem nullConns_own (s : St) (c : Nat) : OwnFrame (nullConns s c) s :=
  ⟨rfl, rfl, by simp [nullConns, amap]⟩

theorem nullConnsList_own (s : St) (cs : List Nat) : OwnFrame (nullConnsList s cs) s :=
  OwnFrame.foldl nullConns nullConns_own cs s

theorem setImpl_own (s : St) (i : Nat) (im : Impl) : OwnFrame (setImpl s i im) s := ⟨rfl, rfl, rfl⟩

theorem updCell_own (s : St) (i c : Nat) (f : Cell → Cell) : OwnFrame (updCell s i c f) s := by
  unfold updCell
  split
  · exact OwnFrame.refl s
  · exact setImpl_own _ _ _

theorem eraseCell_own (s : St) (i c : Nat) : OwnFrame (eraseCell s i c) s := by
  unfold eraseCell
  split
  · exact OwnFrame.refl s
  · exact (nullConns_own _ _).trans (setImpl_own _ _ _)

theorem notifyParent_own (s : St) (i c : Nat) : OwnFrame (notifyParent s i c) s := by
  unfold notifyParent
  split
  · exact OwnFrame.refl s
  · split
    · exact eraseCell_own _ _ _
    · exact setImpl_own _ _ _

theorem disconnectCell_own (s : St) (c : Nat) : OwnFrame (disconnectCell s c) s := by
  unfold disconnectCell
  split
  · exact OwnFrame.refl s
  · simp only
    split
    · exact (notifyParent_own _ _ _).trans (updCell_own _ _ _ _)
    · exact updCell_own _ _ _ _

theorem invalidateCell_own (s : St) (c : Nat) : OwnFrame (invalidateCell s c) s := by
  unfold invalidateCell
  split
  · exact OwnFrame.refl s
  · simp only
    split
    · exact (notifyParent_own _ _ _).trans (updCell_own _ _ _ _)
    · exact updCell_own _ _ _ _

theorem invalidateTrackable_own (s : St) (t : Nat) : OwnFrame (invalidateTrackable s t) s := by
  unfold invalidateTrackable
  simp only
  exact (OwnFrame.foldl invalidateCell invalidateCell_own _ _).trans ⟨rfl, rfl, rfl⟩

theorem gcImpl_own (s : St) (i : Nat) : OwnFrame (gcImpl s i) s := by
  unfold gcImpl
  split
  · exact OwnFrame.refl s
  · split
    · exact (nullConnsList_own _ _).trans ⟨rfl, rfl, rfl⟩
    · exact OwnFrame.refl s

theorem dropHandle_own (s : St) (g : Nat) : OwnFrame (dropHandle s g) s := by
  unfold dropHandle
  split
  · exact OwnFrame.refl s
  · rename_i hd _
    have h1 : OwnFrame (if hd.fl.isTrackable then invalidateTrackable s hd.trk else s) s := by
      split
      · exact invalidateTrackable_own _ _
      · exact OwnFrame.refl s
    simp only
    split
    · exact (gcImpl_own _ _).trans (h1.withG _)
    · exact h1.withG _

theorem insertCell_ownedG (s : St) (i : Nat) (first : Bool) (sl : SlotB) :
    (insertCell s i first sl).1.ownedG = s.ownedG := by
  unfold insertCell
  simp only [St.fresh]
  split
  · unfold St.fail; split <;> rfl
  · rfl

theorem insertCell_G (s : St) (i : Nat) (first : Bool) (sl : SlotB) : (insertCell s i first sl).1.G = s.G := by
  unfold insertCell
  simp only [St.fresh]
  split
  · unfold St.fail; split <;> rfl
  · rfl

/-- no refusal of `mkFun` reads `ok` -/
theorem mkFun_error_ne_ok (s : St) (b : Bool) (spec : FSpec) (e : String) (h : mkFun s b spec = .error e) :
    e ≠ "ok" := by
  cases spec <;> simp only [mkFun] at h
  all_goals (repeat' (split at h))
  all_goals (first | (injection h with h; subst h; decide) | (cases h; done))

/-! ### the names in `G` after `dropHandle` -/

theorem dropHandle_G (s : St) (g k : Nat) :
    aget (dropHandle s g).G k = if k = g then none else aget s.G k := by
  unfold dropHandle
  split
  · rename_i hg
    by_cases hk : k = g
    · subst hk; simp [hg]
    · simp [hk]
  · rename_i hd hg
    have hG : (if hd.fl.isTrackable then invalidateTrackable s hd.trk else s).G = s.G := by
      split
      · exact invalidateTrackable_G _ _
      · rfl
    simp only
    by_cases hk : k = g
    · subst hk
      split <;> simp [gcImpl_G]
    · split <;> simp [gcImpl_G, hk, hG, aget_adel_other _ _ _ hk]

/-! ### `heldK` can only become false under the destructor primitives -/

/-- slot `a` holds no owner id that slot `b` does not hold -/
def SlotLe (a b : SlotB) : Prop := ∀ k, a.holdsK k = true → b.holdsK k = true

theorem SlotLe.refl (a : SlotB) : SlotLe a a := fun _ h => h

theorem slotLe_disconnectRep (sl : SlotB) : SlotLe sl.disconnectRep sl := by
  intro k h
  obtain ⟨b, rep⟩ := sl
  cases rep with
  | none => exact h
  | some r =>
    obtain ⟨c, fn⟩ := r
    cases fn
    · simp [SlotB.holdsK, SlotB.disconnectRep] at h
    · simpa [SlotB.holdsK, SlotB.disconnectRep] using h

theorem slotLe_invalidate (sl : SlotB) : SlotLe sl.invalidate sl := by
  intro k h
  obtain ⟨b, rep⟩ := sl
  cases rep with
  | none => exact h
  | some r => simp [SlotB.holdsK, SlotB.invalidate] at h

/-- every slot of `s'` (slot variable or list cell) is below some slot of `s` -/
structure HeldSub (s' s : St) : Prop where
  vars : ∀ p ∈ s'.S, ∃ q ∈ s.S, SlotLe p.2.slot q.2.slot
  cells : ∀ p ∈ s'.impls, ∀ c ∈ p.2.cells, ∃ q ∈ s.impls, ∃ d ∈ q.2.cells, SlotLe c.slot d.slot

theorem HeldSub.refl (s : St) : HeldSub s s :=
  ⟨fun p hp => ⟨p, hp, SlotLe.refl _⟩, fun p hp c hc => ⟨p, hp, c, hc, SlotLe.refl _⟩⟩

theorem HeldSub.of_eq {s' s : St} (hS : s'.S = s.S) (hI : s'.impls = s.impls) : HeldSub s' s := by
  refine ⟨fun p hp => ⟨p, hS ▸ hp, SlotLe.refl _⟩, fun p hp c hc => ⟨p, hI ▸ hp, c, hc, SlotLe.refl _⟩⟩

theorem HeldSub.trans {a b c : St} (h1 : HeldSub a b) (h2 : HeldSub b c) : HeldSub a c := by
  constructor
  · intro p hp
    obtain ⟨q, hq, hle⟩ := h1.vars p hp
    obtain ⟨r, hr, hle'⟩ := h2.vars q hq
    exact ⟨r, hr, fun k hk => hle' k (hle k hk)⟩
  · intro p hp x hx
    obtain ⟨q, hq, d, hd, hle⟩ := h1.cells p hp x hx
    obtain ⟨r, hr, e, he, hle'⟩ := h2.cells q hq d hd
    exact ⟨r, hr, e, he, fun k hk => hle' k (hle k hk)⟩

theorem HeldSub.withG {a s : St} (h : HeldSub a s) (G : List (Nat × Handle)) : HeldSub { a with G := G } s :=
  ⟨fun p hp => h.vars p hp, fun p hp => h.cells p hp⟩

theorem HeldSub.nullConns {a s : St} (h : HeldSub a s) (c : Nat) : HeldSub (nullConns a c) s :=
  ⟨fun p hp => h.vars p hp, fun p hp => h.cells p hp⟩

theorem HeldSub.foldl {α : Type} (f : St → α → St) (hf : ∀ s a, HeldSub (f s a) s) (l : List α) (s : St) :
    HeldSub (l.foldl f s) s := by
  induction l generalizing s with
  | nil => exact HeldSub.refl s
  | cons a t ih => exact (ih (f s a)).trans (hf s a)

/-- the point of `HeldSub`: an owner id held in `s'` is held in `s` -/
theorem HeldSub.heldK {s' s : St} (h : HeldSub s' s) (k : Nat) (hk : heldK s' k = true) : heldK s k = true := by
  unfold Model.heldK at hk ⊢
  rw [Bool.or_eq_true] at hk ⊢
  rcases hk with hk | hk
  · left
    rw [List.any_eq_true] at hk ⊢
    obtain ⟨p, hp, hpk⟩ := hk
    obtain ⟨q, hq, hle⟩ := h.vars p hp
    exact ⟨q, hq, hle k hpk⟩
  · right
    rw [List.any_eq_true] at hk ⊢
    obtain ⟨p, hp, hpk⟩ := hk
    rw [List.any_eq_true] at hpk
    obtain ⟨c, hc, hck⟩ := hpk
    obtain ⟨q, hq, d, hd, hle⟩ := h.cells p hp c hc
    exact ⟨q, hq, List.any_eq_true.mpr ⟨d, hd, hle k hck⟩⟩

theorem setImpl_sub (s : St) (i : Nat) (im im' : Impl) (hi : aget s.impls i = some im)
    (hc : ∀ c ∈ im'.cells, ∃ d ∈ im.cells, SlotLe c.slot d.slot) : HeldSub (setImpl s i im') s := by
  refine ⟨fun p hp => ⟨p, hp, SlotLe.refl _⟩, ?_⟩
  intro p hp c hcp
  rcases mem_aset _ _ _ _ hp with rfl | hp'
  · obtain ⟨d, hd, hle⟩ := hc c hcp
    exact ⟨(i, im), mem_of_aget _ _ _ hi, d, hd, hle⟩
  · exact ⟨p, hp', c, hcp, SlotLe.refl _⟩

theorem updCell_sub (s : St) (i cid : Nat) (f : Cell → Cell) (hf : ∀ c, SlotLe (f c).slot c.slot) :
    HeldSub (updCell s i cid f) s := by
  unfold updCell
  split
  · exact HeldSub.refl s
  · rename_i im hi
    apply setImpl_sub s i im _ hi
    intro c hc
    simp only [List.mem_map] at hc
    obtain ⟨d, hd, rfl⟩ := hc
    refine ⟨d, hd, ?_⟩
    split
    · exact hf d
    · exact SlotLe.refl _

theorem eraseCell_sub (s : St) (i cid : Nat) : HeldSub (eraseCell s i cid) s := by
  unfold eraseCell
  split
  · exact HeldSub.refl s
  · rename_i im hi
    refine HeldSub.nullConns (setImpl_sub s i im _ hi ?_) cid
    intro c hc
    exact ⟨c, (List.mem_filter.mp hc).1, SlotLe.refl _⟩

theorem notifyParent_sub (s : St) (i cid : Nat) : HeldSub (notifyParent s i cid) s := by
  unfold notifyParent
  split
  · exact HeldSub.refl s
  · rename_i im hi
    split
    · exact eraseCell_sub _ _ _
    · exact setImpl_sub s i im _ hi (fun c hc => ⟨c, hc, SlotLe.refl _⟩)

theorem disconnectCell_sub (s : St) (cid : Nat) : HeldSub (disconnectCell s cid) s := by
  unfold disconnectCell
  split
  · exact HeldSub.refl s
  · rename_i i c _
    have h1 := updCell_sub s i cid (fun c => { c with slot := c.slot.disconnectRep, linked := false })
      (fun c => slotLe_disconnectRep c.slot)
    simp only
    split
    · exact (notifyParent_sub _ _ _).trans h1
    · exact h1

theorem invalidateCell_sub (s : St) (cid : Nat) : HeldSub (invalidateCell s cid) s := by
  unfold invalidateCell
  split
  · exact HeldSub.refl s
  · rename_i i c _
    have h1 := updCell_sub s i cid (fun c => { c with slot := c.slot.invalidate, linked := false })
      (fun c => slotLe_invalidate c.slot)
    simp only
    split
    · exact (notifyParent_sub _ _ _).trans h1
    · exact h1

theorem invalidateTrackable_sub (s : St) (t : Nat) : HeldSub (invalidateTrackable s t) s := by
  unfold invalidateTrackable
  simp only
  refine HeldSub.trans (HeldSub.foldl invalidateCell invalidateCell_sub _ _) ?_
  refine ⟨?_, fun p hp c hc => ⟨p, hp, c, hc, SlotLe.refl _⟩⟩
  intro p hp
  simp only at hp
  obtain ⟨q, hq, rfl⟩ := mem_amap s.S _ p hp
  refine ⟨q, hq, ?_⟩
  simp only
  split
  · exact slotLe_invalidate _
  · exact SlotLe.refl _

theorem gcImpl_sub (s : St) (i : Nat) : HeldSub (gcImpl s i) s := by
  rcases gcImpl_cases s i with h | ⟨im, _, _, _, h⟩
  · rw [h]; exact HeldSub.refl s
  · rw [h]
    refine ⟨?_, ?_⟩
    · rw [nullConnsList_S]; intro p hp; exact ⟨p, hp, SlotLe.refl _⟩
    · rw [nullConnsList_impls]; intro p hp c hc; exact ⟨p, mem_adel _ _ _ hp, c, hc, SlotLe.refl _⟩

theorem dropHandle_sub (s : St) (g : Nat) : HeldSub (dropHandle s g) s := by
  unfold dropHandle
  split
  · exact HeldSub.refl s
  · rename_i hd _
    have h1 : HeldSub (if hd.fl.isTrackable then invalidateTrackable s hd.trk else s) s := by
      split
      · exact invalidateTrackable_sub _ _
      · exact HeldSub.refl s
    simp only
    split
    · exact (gcImpl_sub _ _).trans (h1.withG _)
    · exact h1.withG _

/-! ### impl keys under `invalidateTrackable` -/

theorem aget_aset_isSome {α : Type} (l : List (Nat × α)) (k : Nat) (v : α) (i : Nat) (h : (aget l k).isSome = true) :
    (aget (aset l k v) i).isSome = (aget l i).isSome := by
  by_cases hik : i = k
  · subst hik; simp [h]
  · rw [aget_aset_other _ _ _ _ hik]

theorem invI_keys (impls : List (Nat × Impl)) (cid i : Nat) :
    (aget (invI impls cid).1 i).isSome = (aget impls i).isSome := by
  unfold invI
  split
  · rfl
  · split
    · rfl
    · rename_i _ i0 _ _ im hi0
      have hs : (aget impls i0).isSome = true := by simp [hi0]
      split
      · rfl
      · simp only
        split
        · split
          · exact aget_aset_isSome _ _ _ _ hs
          · exact aget_aset_isSome _ _ _ _ hs
        · exact aget_aset_isSome _ _ _ _ hs

theorem foldl_invI_keys (vs : List Nat) (impls : List (Nat × Impl)) (i : Nat) :
    (aget (vs.foldl (fun im cid => (invI im cid).1) impls) i).isSome = (aget impls i).isSome := by
  induction vs generalizing impls with
  | nil => rfl
  | cons c t ih => simp only [List.foldl]; rw [ih, invI_keys]

/-- notifying a trackable erases cells, never a list -/
theorem invalidateTrackable_keys (s : St) (t i : Nat) :
    (aget (invalidateTrackable s t).impls i).isSome = (aget s.impls i).isSome := by
  unfold invalidateTrackable
  simp only
  rw [foldl_invalidateCell_impls, foldl_invI_keys]

/-! ### one step of `collect` -/

theorem filter_length_lt {α : Type} (l : List α) (p : α → Bool) (a : α) (ha : a ∈ l) (hp : p a = false) :
    (l.filter p).length < l.length := by
  induction l with
  | nil => cases ha
  | cons x t ih =>
    rcases List.mem_cons.mp ha with rfl | h
    · simp only [List.filter, hp, List.length_cons]
      exact Nat.lt_succ_of_le (List.length_filter_le _ _)
    · have := ih h
      by_cases hx : p x = true
      · simp only [List.filter, hx, List.length_cons]; omega
      · have hx' : p x = false := by simpa using hx
        simp only [List.filter, hx', List.length_cons]; omega

/-- the number of owned objects -/
def ownMeasure (s : St) : Nat := s.ownedT.length + s.ownedK.length + s.ownedG.length

/-- what one step of `collect` does: exactly one owned object (the first unheld one, trackables first, then scoped
    connections, then signal objects) is removed from its table and destroyed -/
theorem collectStep_cases (s s' : St) (h : collectStep s = some s') :
    (∃ o, s.ownedT.find? (fun o => !heldT s o) = some o ∧
      s' = invalidateTrackable { s with ownedT := s.ownedT.filter (· ≠ o) } o) ∨
    (s.ownedT.find? (fun o => !heldT s o) = none ∧ ∃ k p, s.ownedK.find? (fun q => !heldK s q.1) = some (k, p) ∧
      s' = (match p with
        | some cid => disconnectCell { s with ownedK := s.ownedK.filter (fun q => q.1 ≠ k) } cid
        | none => { s with ownedK := s.ownedK.filter (fun q => q.1 ≠ k) })) ∨
    (s.ownedT.find? (fun o => !heldT s o) = none ∧ s.ownedK.find? (fun q => !heldK s q.1) = none ∧
      ∃ k g, s.ownedG.find? (fun q => !heldK s q.1) = some (k, g) ∧
        s' = dropHandle { s with ownedG := s.ownedG.filter (fun q => q.1 ≠ k) } g) := by
  unfold collectStep at h
  split at h
  · rename_i o ho
    simp only [Option.some.injEq] at h
    exact Or.inl ⟨o, ho, h.symm⟩
  · rename_i hT
    split at h
    · rename_i k p hK
      simp only [Option.some.injEq] at h
      exact Or.inr (Or.inl ⟨hT, k, p, hK, h.symm⟩)
    · rename_i hK
      split at h
      · rename_i k g hG
        simp only [Option.some.injEq] at h
        exact Or.inr (Or.inr ⟨hT, hK, k, g, hG, h.symm⟩)
      · cases h

theorem collectStep_none (s : St) (h : collectStep s = none) :
    s.ownedT.find? (fun o => !heldT s o) = none ∧ s.ownedK.find? (fun q => !heldK s q.1) = none ∧
    s.ownedG.find? (fun q => !heldK s q.1) = none := by
  unfold collectStep at h
  split at h
  · cases h
  · rename_i hT
    split at h
    · cases h
    · rename_i hK
      split at h
      · cases h
      · rename_i hG
        exact ⟨hT, hK, hG⟩

/-- what every step of `collect` guarantees -/
structure CollectRel (s' s : St) : Prop where
  /-- an owner id held afterwards was held before -/
  held : ∀ k, heldK s' k = true → heldK s k = true
  /-- no name of a signal object comes back -/
  names : ∀ g, aget s.G g = none → aget s'.G g = none
  /-- no owned signal object is added -/
  sub : ∀ p ∈ s'.ownedG, p ∈ s.ownedG

theorem CollectRel.refl (s : St) : CollectRel s s := ⟨fun _ h => h, fun _ h => h, fun _ h => h⟩
theorem CollectRel.trans {a b c : St} (h1 : CollectRel a b) (h2 : CollectRel b c) : CollectRel a c :=
  ⟨fun k h => h2.held k (h1.held k h), fun g h => h1.names g (h2.names g h), fun p h => h2.sub p (h1.sub p h)⟩

theorem collectStep_rel (s s' : St) (h : collectStep s = some s') :
    CollectRel s' s ∧ ownMeasure s' < ownMeasure s := by
  rcases collectStep_cases s s' h with ⟨o, ho, rfl⟩ | ⟨_, k, p, hK, rfl⟩ | ⟨_, _, k, g, hG, rfl⟩
  · have hf := invalidateTrackable_own { s with ownedT := s.ownedT.filter (· ≠ o) } o
    have hs := invalidateTrackable_sub { s with ownedT := s.ownedT.filter (· ≠ o) } o
    refine ⟨⟨fun k hk => (hs.trans (HeldSub.of_eq rfl rfl)).heldK k hk, ?_, ?_⟩, ?_⟩
    · intro g hg; rw [invalidateTrackable_G]; exact hg
    · intro p hp; rw [hf.g] at hp; exact hp
    · have hlt := filter_length_lt s.ownedT (· ≠ o) o (List.mem_of_find?_eq_some ho) (by simp)
      unfold ownMeasure
      rw [hf.t, hf.g, hf.k]
      simp only
      omega
  · have hlt := filter_length_lt s.ownedK (fun q => q.1 ≠ k) (k, p) (List.mem_of_find?_eq_some hK) (by simp)
    cases p with
    | none =>
      refine ⟨⟨fun k hk => hk, fun g hg => hg, fun p hp => hp⟩, ?_⟩
      unfold ownMeasure
      simp only
      omega
    | some cid =>
      have hf := disconnectCell_own { s with ownedK := s.ownedK.filter (fun q => q.1 ≠ k) } cid
      have hs := disconnectCell_sub { s with ownedK := s.ownedK.filter (fun q => q.1 ≠ k) } cid
      refine ⟨⟨fun k hk => (hs.trans (HeldSub.of_eq rfl rfl)).heldK k hk, ?_, ?_⟩, ?_⟩
      · intro g hg; simp only; rw [disconnectCell_G]; exact hg
      · intro p hp; simp only at hp; rw [hf.g] at hp; exact hp
      · unfold ownMeasure
        simp only
        rw [hf.t, hf.g, hf.k]
        simp only
        omega
  · have hf := dropHandle_own { s with ownedG := s.ownedG.filter (fun q => q.1 ≠ k) } g
    have hs := dropHandle_sub { s with ownedG := s.ownedG.filter (fun q => q.1 ≠ k) } g
    have hlt := filter_length_lt s.ownedG (fun q => q.1 ≠ k) (k, g) (List.mem_of_find?_eq_some hG) (by simp)
    refine ⟨⟨fun k hk => (hs.trans (HeldSub.of_eq rfl rfl)).heldK k hk, ?_, ?_⟩, ?_⟩
    · intro g' hg
      rw [dropHandle_G]
      split
      · rfl
      · exact hg
    · intro p hp; rw [hf.g] at hp; exact (List.mem_filter.mp hp).1
    · unfold ownMeasure
      rw [hf.t, hf.g, hf.k]
      simp only
      omega

/-- the third branch of `collectStep`, stated precisely: the first functor-owned signal object whose owner id no
    functor copy holds any more is removed from `ownedG` and its name is destroyed exactly as `delG` would -/
theorem collectStep_ownedG (s : St) (k g : Nat)
    (hT : s.ownedT.find? (fun o => !heldT s o) = none)
    (hK : s.ownedK.find? (fun q => !heldK s q.1) = none)
    (hG : s.ownedG.find? (fun q => !heldK s q.1) = some (k, g)) :
    collectStep s = some (dropHandle { s with ownedG := s.ownedG.filter (fun q => q.1 ≠ k) } g) := by
  unfold collectStep
  simp only [hT, hK, hG]

/-! ### the whole of `collect` -/

theorem collectN_rel (n : Nat) (s : St) : CollectRel (collectN n s) s := by
  induction n generalizing s with
  | zero => exact CollectRel.refl s
  | succ n ih =>
    simp only [collectN]
    split
    · rename_i s1 h1
      exact (ih s1).trans (collectStep_rel s s1 h1).1
    · exact CollectRel.refl s

/-- `collect` runs `collectStep` to its fixpoint: the fuel (the number of owned objects) suffices -/
theorem collectN_fix (n : Nat) (s : St) (h : ownMeasure s ≤ n) : collectStep (collectN n s) = none := by
  induction n generalizing s with
  | zero =>
    simp only [collectN]
    cases hc : collectStep s with
    | none => rfl
    | some s1 => have := (collectStep_rel s s1 hc).2; omega
  | succ n ih =>
    simp only [collectN]
    split
    · rename_i s1 h1
      have := (collectStep_rel s s1 h1).2
      exact ih s1 (by omega)
    · rename_i h1; exact h1

theorem collect_fix (s : St) : collectStep (collect s) = none :=
  collectN_fix _ s (Nat.le_refl _)

theorem collect_rel (s : St) : CollectRel (collect s) s := collectN_rel _ s

/-- after `collect`, every signal object still owned by functors is held by a functor copy -/
theorem collect_ownedG_held (s : St) (p : Nat × Nat) (hp : p ∈ (collect s).ownedG) : heldK (collect s) p.1 = true := by
  have h := (collectStep_none _ (collect_fix s)).2.2
  have := List.find?_eq_none.mp h p hp
  simpa using this

/-- an owned signal object whose owner id occurs once in `ownedG` (owner ids come from the allocator): when a step
    of `collect` takes its entry out of `ownedG`, its name leaves `G` -/
theorem collectStep_dropped (s s' : St) (h : collectStep s = some s') (k g : Nat) (hm : (k, g) ∈ s.ownedG)
    (hu : ∀ g', (k, g') ∈ s.ownedG → g' = g) : (k, g) ∈ s'.ownedG ∨ aget s'.G g = none := by
  rcases collectStep_cases s s' h with ⟨o, ho, rfl⟩ | ⟨_, k', p, hK, rfl⟩ | ⟨_, _, k', g', hG, rfl⟩
  · left; rw [(invalidateTrackable_own _ o).g]; exact hm
  · cases p with
    | none => exact Or.inl hm
    | some cid => left; simp only; rw [(disconnectCell_own _ cid).g]; exact hm
  · rw [(dropHandle_own _ g').g]
    by_cases hkk : k = k'
    · right
      subst hkk
      have : g' = g := hu g' (List.mem_of_find?_eq_some hG)
      subst this
      rw [dropHandle_G]; simp
    · left
      exact List.mem_filter.mpr ⟨hm, by simpa using hkk⟩

theorem collectN_dropped (n : Nat) (s : St) (k g : Nat) (hm : (k, g) ∈ s.ownedG)
    (hu : ∀ g', (k, g') ∈ s.ownedG → g' = g) :
    (k, g) ∈ (collectN n s).ownedG ∨ aget (collectN n s).G g = none := by
  induction n generalizing s with
  | zero => exact Or.inl hm
  | succ n ih =>
    simp only [collectN]
    split
    · rename_i s1 h1
      have hrel := (collectStep_rel s s1 h1).1
      rcases collectStep_dropped s s1 h1 k g hm hu with h | h
      · exact ih s1 h (fun g' hg' => hu g' (hrel.sub _ hg'))
      · exact Or.inr ((collectN_rel n s1).names _ h)
    · exact Or.inl hm

/-- **`collect` destroys every functor-owned signal object that no functor copy holds**: its entry leaves
    `ownedG` and its name leaves `G` -/
theorem collect_drops_unheld (s : St) (k g : Nat) (hm : (k, g) ∈ s.ownedG)
    (hu : ∀ g', (k, g') ∈ s.ownedG → g' = g) (hk : heldK s k = false) :
    aget (collect s).G g = none ∧ (k, g) ∉ (collect s).ownedG := by
  have hnot : (k, g) ∉ (collect s).ownedG := by
    intro hin
    have h1 := collect_ownedG_held s (k, g) hin
    have h2 := (collect_rel s).held k h1
    rw [hk] at h2; cases h2
  rcases collectN_dropped (s.ownedT.length + s.ownedK.length + s.ownedG.length) s k g hm hu with h | h
  · exact absurd h hnot
  · exact ⟨h, hnot⟩

/-! ### destroying one handle leaves the list of another alone -/

/-- `dropHandle g` (= `delG g` when not refused) never removes the list that another handle `g0` in `G` refers to -/
theorem dropHandle_keeps_referred (s : St) (g g0 im : Nat) (h0 : Handle) (hne : g0 ≠ g)
    (hg0 : aget s.G g0 = some h0) (himpl : h0.impl = some im) :
    (aget (dropHandle s g).impls im).isSome = (aget s.impls im).isSome := by
  unfold dropHandle
  split
  · rfl
  · rename_i hd hg
    have h1 : (aget (if hd.fl.isTrackable then invalidateTrackable s hd.trk else s).impls im).isSome
        = (aget s.impls im).isSome := by
      split
      · exact invalidateTrackable_keys _ _ _
      · rfl
    have hG : (if hd.fl.isTrackable then invalidateTrackable s hd.trk else s).G = s.G := by
      split
      · exact invalidateTrackable_G _ _
      · rfl
    simp only
    split
    · rename_i i _
      by_cases hi : im = i
      · subst hi
        rw [gcImpl_owned _ _ (refersTo_of_aget _ g0 im h0
          (by simp only; rw [hG, aget_adel_other _ _ _ hne]; exact hg0) himpl)]
        exact h1
      · rw [gcImpl_other _ _ _ hi]; exact h1
    · exact h1

end Sigc.StepOwned
