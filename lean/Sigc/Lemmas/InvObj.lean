import Sigc.Lemmas.InvBal2
/-!
# destroyed trackable objects stay destroyed

`OD o` — object `o` has been allocated and is not alive — is preserved by everything (object ids are
never reused); `OU` — distinct trackable names denote distinct objects, different from every signal's
trackable base and from every owned object — holds in every reachable state, so that `delT` really
kills the object.
-/
namespace Sigc.Inv
open Sigc.Model

def ODI (o : Nat) (T : List (Nat × Nat)) (G : List (Nat × Handle)) (oT : List Nat) (n : Nat) : Prop :=
  o < n ∧ ¬ LiveObj T G oT o

def OD (o : Nat) (s : St) : Prop := ODI o s.T s.G s.ownedT s.next

theorem lo_aset_T_rev {T G oT} {t v o : Nat} (h : LiveObj (aset T t v) G oT o) : o = v ∨ LiveObj T G oT o := by
  rcases h with ⟨name, hn⟩ | h | h
  · rw [aget_aset] at hn
    split at hn
    · cases hn; exact Or.inl rfl
    · exact Or.inr (Or.inl ⟨name, hn⟩)
  · exact Or.inr (Or.inr (Or.inl h))
  · exact Or.inr (Or.inr (Or.inr h))

theorem lo_adel_T_rev {T G oT} {t o : Nat} (h : LiveObj (adel T t) G oT o) : LiveObj T G oT o := by
  rcases h with ⟨name, hn⟩ | h | h
  · rw [aget_adel] at hn
    split at hn
    · cases hn
    · exact Or.inl ⟨name, hn⟩
  · exact Or.inr (Or.inl h)
  · exact Or.inr (Or.inr h)

theorem lo_aset_G_rev {T G oT} {g o : Nat} {hd : Handle} (h : LiveObj T (aset G g hd) oT o) :
    (hd.fl.isTrackable = true ∧ hd.trk = o) ∨ LiveObj T G oT o := by
  rcases h with h | ⟨g', h', hg', ht, he⟩ | h
  · exact Or.inr (Or.inl h)
  · rw [aget_aset] at hg'
    split at hg'
    · cases hg'; exact Or.inl ⟨ht, he⟩
    · exact Or.inr (Or.inr (Or.inl ⟨g', h', hg', ht, he⟩))
  · exact Or.inr (Or.inr (Or.inr h))

theorem lo_adel_G_rev {T G oT} {g o : Nat} (h : LiveObj T (adel G g) oT o) : LiveObj T G oT o := by
  rcases h with h | ⟨g', h', hg', ht, he⟩ | h
  · exact Or.inl h
  · rw [aget_adel] at hg'
    split at hg'
    · cases hg'
    · exact Or.inr (Or.inl ⟨g', h', hg', ht, he⟩)
  · exact Or.inr (Or.inr h)

/-- a handle update that keeps flavour and trackable base creates no live object -/
theorem lo_aset_G_same_rev {T G oT} {g o : Nat} {h0 hd : Handle} (hg : aget G g = some h0)
    (e1 : hd.fl = h0.fl) (e2 : hd.trk = h0.trk) (h : LiveObj T (aset G g hd) oT o) : LiveObj T G oT o := by
  rcases lo_aset_G_rev h with ⟨ht, he⟩ | h
  · exact Or.inr (Or.inl ⟨g, h0, hg, e1 ▸ ht, e2 ▸ he⟩)
  · exact h

theorem ODI.mono {o : Nat} {T G oT} {n n' : Nat} (h : ODI o T G oT n) (hn : n ≤ n') : ODI o T G oT n' :=
  ⟨Nat.lt_of_lt_of_le h.1 hn, h.2⟩

theorem OD.prims (o : Nat) : PrimsA (OD o) where
  upd _ _ _ _ _ _ _ h _ _ := h
  filter s i im p d ids _ h _ _ := by
    show ODI o (nullConnsList _ _).T (nullConnsList _ _).G (nullConnsList _ _).ownedT (nullConnsList _ _).next
    simp only [nullConnsList_T, nullConnsList_G, nullConnsList_ownedT, nullConnsList_next]; exact h
  delImpl s i im _ h _ _ _ := by
    show ODI o (nullConnsList _ _).T (nullConnsList _ _).G (nullConnsList _ _).ownedT (nullConnsList _ _).next
    simp only [nullConnsList_T, nullConnsList_G, nullConnsList_ownedT, nullConnsList_next]; exact h
  invalS _ _ _ h := h

theorem OD.fail {o : Nat} {s : St} (m : String) (h : OD o s) : OD o (s.fail m) := by
  unfold St.fail; split <;> exact h

theorem OD.ensureImpl {o : Nat} {s s1 : St} {g i : Nat} (h : OD o s) (he : ensureImpl s g = some (s1, i)) :
    OD o s1 := by
  unfold Model.ensureImpl at he
  split at he
  · cases he
  · rename_i hd hg
    split at he
    · cases he; exact h
    · simp only [St.fresh, Option.some.injEq, Prod.mk.injEq] at he
      obtain ⟨rfl, rfl⟩ := he
      exact ⟨Nat.lt_succ_of_lt h.1,
        fun hl => h.2 (lo_aset_G_same_rev (hd := { hd with impl := some s.next }) hg rfl rfl hl)⟩

theorem OD.mkFun {o : Nat} {s s' : St} {v : Bool} {spec : FSpec} {fn : Fun} (h : OD o s)
    (hm : mkFun s v spec = .ok (fn, s')) : OD o s' := by
  have fin : ∀ {x : Fun × St}, (Except.ok x : Except String (Fun × St)) = .ok (fn, s') → x.2 = s' := by
    intro x e; cases e; rfl
  cases spec with
  | fwd g =>
    simp only [Model.mkFun] at hm
    split at hm
    · cases hm
    · rename_i hd hg
      split at hm
      · cases hm
      split at hm
      · cases hm
      · have := fin hm; subst this
        exact ⟨h.1, fun hl => h.2 (lo_aset_G_same_rev (hd := { hd with everFwd := true }) hg rfl rfl hl)⟩
  | ownG fid g =>
    simp only [Model.mkFun] at hm
    split at hm
    · cases hm
    · split at hm
      · cases hm
      split at hm
      · cases hm
      · have := fin hm; subst this
        exact ⟨Nat.lt_succ_of_lt h.1, h.2⟩
  | ownT fid t =>
    simp only [Model.mkFun] at hm
    split at hm
    · cases hm
    · rename_i o' ht
      have := fin hm; subst this
      refine ⟨h.1, ?_⟩
      rintro (⟨name, hn⟩ | hl | hl)
      · exact h.2 (lo_adel_T_rev (Or.inl ⟨name, hn⟩))
      · exact h.2 (Or.inr (Or.inl hl))
      · rcases List.mem_cons.1 hl with e | e
        · subst e; exact h.2 (Or.inl ⟨t, ht⟩)
        · exact h.2 (Or.inr (Or.inr e))
  | ownK fid k =>
    simp only [Model.mkFun] at hm
    split at hm
    · cases hm
    · have := fin hm; subst this
      exact ⟨Nat.lt_succ_of_lt h.1, h.2⟩
  | fn _ => simp only [Model.mkFun] at hm; have := fin hm; subst this; exact h
  | bad => simp only [Model.mkFun] at hm; cases hm
  | mem _ _ | bref _ _ | trk _ _ _ | nest _ =>
    simp only [Model.mkFun] at hm
    repeat' split at hm
    all_goals (first | (cases hm; done) | skip)
    all_goals (have := fin hm; subst this; exact h)

theorem OD.insert {o : Nat} {s : St} (i : Nat) (first : Bool) (sl : SlotB) (h : OD o s) :
    OD o (insertCell s i first sl).fst := by
  obtain ⟨_, _, _, e4, _, e6, e7, _⟩ := insertCell_frame s i first sl
  have en : s.next ≤ (insertCell s i first sl).fst.next := by
    unfold Model.insertCell
    simp only [St.fresh]
    split
    · unfold St.fail; split <;> exact Nat.le_succ _
    · exact Nat.le_succ _
  unfold OD
  rw [e4, e6, e7]
  exact ODI.mono h en

theorem odi_succ {o : Nat} {T G oT n} (h : ODI o T G oT n) : ODI o T G oT (n+1) := h.mono (Nat.le_succ _)
theorem odi_invalidateTrackable {o : Nat} {s : St} {t : Nat} (h : ODI o s.T s.G s.ownedT s.next) :
    ODI o (invalidateTrackable s t).T (invalidateTrackable s t).G (invalidateTrackable s t).ownedT
      (invalidateTrackable s t).next := (OD.prims o).invalidateTrackable t h
theorem odi_gcImpl {o : Nat} {s : St} {i : Nat} (h : ODI o s.T s.G s.ownedT s.next) :
    ODI o (gcImpl s i).T (gcImpl s i).G (gcImpl s i).ownedT (gcImpl s i).next := (OD.prims o).gcImpl i h
theorem odi_disconnectCell {o : Nat} {s : St} {i : Nat} (h : ODI o s.T s.G s.ownedT s.next) :
    ODI o (disconnectCell s i).T (disconnectCell s i).G (disconnectCell s i).ownedT (disconnectCell s i).next :=
  (OD.prims o).disconnectCell i h
theorem odi_clearImpl {o : Nat} {s : St} {i : Nat} (h : ODI o s.T s.G s.ownedT s.next) :
    ODI o (clearImpl s i).T (clearImpl s i).G (clearImpl s i).ownedT (clearImpl s i).next :=
  (OD.prims o).clearImpl i h
theorem odi_connBlock {o : Nat} {s : St} {p : Option Nat} {b : Bool} (h : ODI o s.T s.G s.ownedT s.next) :
    ODI o (connBlock s p b).T (connBlock s p b).G (connBlock s p b).ownedT (connBlock s p b).next :=
  (OD.prims o).connBlock p b h
theorem odi_insertCell {o : Nat} {s : St} {i : Nat} {first : Bool} {sl : SlotB}
    (h : ODI o s.T s.G s.ownedT s.next) :
    ODI o (insertCell s i first sl).fst.T (insertCell s i first sl).fst.G (insertCell s i first sl).fst.ownedT
      (insertCell s i first sl).fst.next := OD.insert i first sl h
theorem odi_adel_T {o : Nat} {T G oT n} {t : Nat} (h : ODI o T G oT n) : ODI o (adel T t) G oT n :=
  ⟨h.1, fun hl => h.2 (lo_adel_T_rev hl)⟩
theorem odi_adel_G {o : Nat} {T G oT n} {g : Nat} (h : ODI o T G oT n) : ODI o T (adel G g) oT n :=
  ⟨h.1, fun hl => h.2 (lo_adel_G_rev hl)⟩
/-- a fresh object under a name -/
theorem odi_aset_T_fresh {o : Nat} {T G oT n} {t : Nat} (h : ODI o T G oT n) : ODI o (aset T t n) G oT (n+1) := by
  refine ⟨Nat.lt_succ_of_lt h.1, fun hl => ?_⟩
  rcases lo_aset_T_rev hl with e | e
  · exact Nat.lt_irrefl _ (e ▸ h.1)
  · exact h.2 e
theorem odi_aset_T_fresh2 {o : Nat} {T G oT n} {t : Nat} (h : ODI o T G oT n) :
    ODI o (aset T t n) G oT (n+1) := odi_aset_T_fresh h
/-- a new signal object: fresh object id and fresh trackable base -/
theorem odi_aset_G_fresh {o : Nat} {T G oT n} {g : Nat} {hd : Handle} (ht : n ≤ hd.trk) (h : ODI o T G oT n) :
    ODI o T (aset G g hd) oT n := by
  refine ⟨h.1, fun hl => ?_⟩
  rcases lo_aset_G_rev hl with ⟨_, e⟩ | e
  · have := h.1; omega
  · exact h.2 e
theorem odi_aset_G_same {o : Nat} {T G oT n} {g : Nat} {h0 hd : Handle} (hg : aget G g = some h0)
    (e1 : hd.fl = h0.fl) (e2 : hd.trk = h0.trk) (h : ODI o T G oT n) : ODI o T (aset G g hd) oT n :=
  ⟨h.1, fun hl => h.2 (lo_aset_G_same_rev hg e1 e2 hl)⟩

theorem odi_newG {o : Nat} {T G oT n} {g : Nat} {fl : Flavour} {im : Option Nat} {lvl : Nat}
    (h : ODI o T G oT n) :
    ODI o T (aset G g { obj := n, fl := fl, impl := im, trk := n + 1, lvl := lvl }) oT (n + 1 + 1) :=
  (odi_aset_G_fresh (hd := { obj := n, fl := fl, impl := im, trk := n + 1, lvl := lvl }) (Nat.le_succ _) h).mono
    (Nat.le_trans (Nat.le_succ _) (Nat.le_succ _))

/-- the signal-object operations -/
theorem OD_G_ops (o : Nat) (s : St) (op : Op) (s' : St) (r : String) (hI : OD o s)
    (hop : (∃ j i, op = .mvG j i) ∨ (∃ j i, op = .asgG j i) ∨ (∃ j i, op = .masgG j i))
    (h : stepSimple s op = some (s', r)) : OD o s' := by
  have hasg : ∀ (j i : Nat) (d : Handle) (s1 : St) (im : Nat), aget s.G j = some d → j ≠ i →
      ensureImpl s i = some (s1, im) →
      ODI o s1.T (aset s1.G j { d with impl := some im }) s1.ownedT s1.next := by
    intro j i d s1 im hj hne he
    have h2 := OD.ensureImpl hI he
    have hj1 : aget s1.G j = some d := by rw [ensureImpl_G_other he j hne]; exact hj
    exact odi_aset_G_same (hd := { d with impl := some im }) hj1 rfl rfl h2
  rcases hop with ⟨j, i, rfl⟩ | ⟨j, i, rfl⟩ | ⟨j, i, rfl⟩
  all_goals simp only [stepSimple] at h
  · -- mvG
    split at h
    · simp only [Option.some.injEq, Prod.mk.injEq] at h; obtain ⟨rfl, _⟩ := h; exact hI
    rename_i hd hi
    split at h
    · simp only [Option.some.injEq, Prod.mk.injEq] at h; obtain ⟨rfl, _⟩ := h; exact hI
    rename_i hj
    split at h
    · split at h
      · simp only [Option.some.injEq, Prod.mk.injEq] at h; obtain ⟨rfl, _⟩ := h; exact hI
      · rename_i s1 im he
        simp only [St.fresh, Option.some.injEq, Prod.mk.injEq] at h; obtain ⟨rfl, _⟩ := h
        exact odi_newG (OD.ensureImpl hI he)
    · simp only [St.fresh, Option.some.injEq, Prod.mk.injEq] at h; obtain ⟨rfl, _⟩ := h
      have h3 : ODI o s.T (aset (aset s.G i { hd with impl := none }) j
          { obj := s.next, fl := hd.fl, impl := hd.impl, trk := s.next + 1, lvl := hd.lvl }) s.ownedT
          (s.next + 1 + 1) :=
        odi_newG (odi_aset_G_same (hd := { hd with impl := none }) hi rfl rfl hI)
      split
      · exact (OD.prims o).invalidateTrackable _ h3
      · exact h3
  · -- asgG
    split at h
    · rename_i d hh hj hi
      repeat' split at h
      all_goals (simp only [Option.some.injEq, Prod.mk.injEq] at h; obtain ⟨rfl, _⟩ := h)
      all_goals (first | exact hI | exact OD.ensureImpl hI ‹_› | skip)
      all_goals (have h3 := hasg j i d _ _ hj ‹_› ‹_›)
      · exact (OD.prims o).gcImpl _ h3
      · exact h3
    · simp only [Option.some.injEq, Prod.mk.injEq] at h; obtain ⟨rfl, _⟩ := h; exact hI
  · -- masgG
    split at h
    · rename_i d hh hj hi
      split at h
      · simp only [Option.some.injEq, Prod.mk.injEq] at h; obtain ⟨rfl, _⟩ := h; exact hI
      split at h
      · simp only [Option.some.injEq, Prod.mk.injEq] at h; obtain ⟨rfl, _⟩ := h; exact hI
      split at h
      · simp only [Option.some.injEq, Prod.mk.injEq] at h; obtain ⟨rfl, _⟩ := h; exact hI
      split at h
      · repeat' split at h
        all_goals (simp only [Option.some.injEq, Prod.mk.injEq] at h; obtain ⟨rfl, _⟩ := h)
        all_goals (first | exact hI | exact OD.ensureImpl hI ‹_› | skip)
        all_goals (have h3 := hasg j i d _ _ hj ‹_› ‹_›)
        · exact (OD.prims o).gcImpl _ h3
        · exact h3
      · split at h
        · simp only [Option.some.injEq, Prod.mk.injEq] at h; obtain ⟨rfl, _⟩ := h; exact hI
        · rename_i hne
          simp only [Option.some.injEq, Prod.mk.injEq] at h; obtain ⟨rfl, _⟩ := h
          have h3 : ODI o s.T (aset (aset s.G j { d with impl := hh.impl }) i { hh with impl := none }) s.ownedT
              s.next :=
            odi_aset_G_same (h0 := hh) (hd := { hh with impl := none })
              (by rw [aget_aset_other _ _ _ _ (fun e => hne e.symm)]; exact hi) rfl rfl
              (odi_aset_G_same (hd := { d with impl := hh.impl }) hj rfl rfl hI)
          split <;> split <;>
            first
            | exact (OD.prims o).invalidateTrackable _ ((OD.prims o).gcImpl _ h3)
            | exact (OD.prims o).invalidateTrackable _ h3
            | exact (OD.prims o).gcImpl _ h3
            | exact h3
    · simp only [Option.some.injEq, Prod.mk.injEq] at h; obtain ⟨rfl, _⟩ := h; exact hI

set_option maxHeartbeats 400000 in
theorem OD_simple (o : Nat) (s : St) (op : Op) (s' : St) (r : String) (hI : OD o s)
    (h : stepSimple s op = some (s', r)) : OD o s' := by
  cases op
  case mvG j i => exact OD_G_ops o s _ s' r hI (Or.inl ⟨j, i, rfl⟩) h
  case asgG j i => exact OD_G_ops o s _ s' r hI (Or.inr (Or.inl ⟨j, i, rfl⟩)) h
  case masgG j i => exact OD_G_ops o s _ s' r hI (Or.inr (Or.inr ⟨j, i, rfl⟩)) h
  all_goals simp only [stepSimple] at h
  all_goals (repeat' split at h)
  all_goals (first | (cases h; done) | skip)
  all_goals (simp only [Option.some.injEq, Prod.mk.injEq] at h; obtain ⟨rfl, _⟩ := h)
  all_goals (first | exact hI | skip)
  all_goals (
    try (have h1 := OD.mkFun hI ‹_›)
    try (have h2 := OD.ensureImpl hI ‹_›)
    try (have h3 := OD.ensureImpl ‹OD _ _› ‹_›)
    simp only [OD] at *
    first
      | done
      | simp (maxDischargeDepth := 8) only [St.fresh, setConn,
          odi_invalidateTrackable, odi_gcImpl, odi_disconnectCell, odi_clearImpl, odi_connBlock,
          odi_insertCell, odi_adel_T, odi_adel_G, odi_aset_T_fresh, odi_newG, *])

theorem OD_forceDelG (o : Nat) (s : St) (g : Nat) (h : OD o s) : OD o (forceDelG s g) := by
  unfold forceDelG
  split
  · exact h
  · simp only []
    split <;> split <;>
    · simp only [OD] at *
      first | done | simp (maxDischargeDepth := 8) only [odi_invalidateTrackable, odi_gcImpl, odi_adel_G, *]

theorem OD_collectStep (o : Nat) (s s' : St) (h : OD o s) (hc : collectStep s = some s') : OD o s' := by
  unfold collectStep at hc
  split at hc
  · simp only [Option.some.injEq] at hc; subst hc
    apply (OD.prims o).invalidateTrackable
    refine ⟨h.1, ?_⟩
    rintro (hl | hl | hl)
    · exact h.2 (Or.inl hl)
    · exact h.2 (Or.inr (Or.inl hl))
    · exact h.2 (Or.inr (Or.inr (List.mem_filter.1 hl).1))
  · split at hc
    · simp only [Option.some.injEq] at hc; subst hc
      split
      · exact (OD.prims o).disconnectCell _ h
      · exact h
    · split at hc
      · rename_i k g _
        simp only [Option.some.injEq] at hc; subst hc
        exact OD_forceDelG o { s with ownedG := s.ownedG.filter (fun q => q.1 ≠ k) } g h
      · cases hc

theorem OD.stable (o : Nat) : Stable (OD o) where
  log _ _ _ h := h
  fail s m _ h := OD.fail m h
  depth _ _ _ h := h
  steps _ _ _ h := h
  incall _ _ _ _ _ h _ := h
  simple s op s' r _ h hs := OD_simple o s op s' r h hs
  collect s _ h := collect_preserved (OD_collectStep o) s h
  pro _ _ _ _ h _ := ODI.mono h (Nat.le_succ _)
  erase _ i m _ h := (OD.prims o).eraseCell i m h
  unref _ i _ h := (OD.prims o).unrefExec i h
  drop s i _ h := by unfold dropHolder; split <;> exact h
  gc _ i _ h := (OD.prims o).gcImpl i h
  forceDel s g _ h := OD_forceDelG o s g h

/-- a dead object is never referred to again: `TL` says tracked objects are live, `OD` says `o` is not -/
theorem noTrack_of_dead {s : St} {o : Nat} (hw : WF s) (ht : TL s) (hd : OD o s) : NoTrack o s := by
  refine ⟨?_, ?_⟩
  · intro p hp
    cases hto : p.2.slot.tracksObj o with
    | false => rfl
    | true => exact absurd (ht.1 p hp o hto) hd.2
  · intro i im c hi hc
    cases hto : c.slot.tracksObj o with
    | false => rfl
    | true => exact absurd (ht.2 (i, im) (mem_of_aget hi) c hc o hto) hd.2

end Sigc.Inv
