import Sigc.Lemmas.SpecKSimD
/-!
# SpecK — the mutual induction on fuel, part E: the steps for `turns`, `deref`, `accLoop`, `revLoop`,
`walkLoop`, `runStrat`.
-/
namespace Sigc.SpecK
open Sigc.Model Sigc.Spec

theorem turns_succ (f : Nat) (ih : All f) : STurns (f+1) := by
  intro P ρ t u i i' snap snap' arg r t' o v hq hst hi hsn hc hr
  cases hsn with
  | nil =>
    unfold Spec.turns at hr ⊢
    simp only [Option.some.injEq, Prod.mk.injEq] at hr
    obtain ⟨rfl, rfl, rfl⟩ := hr
    exact ⟨_, rfl, Good.refl hq, hst⟩
  | @cons cid cid' rest rest' hcid hrest =>
    rw [turns_unfold] at hr ⊢
    unfold cTurns at hc
    have hcal := callable_sim hq hi hcid
    cases hx : callable t i cid with
    | none =>
      rw [hx] at hcal hr hc
      generalize callable u i' cid' = y at hcal
      cases hcal
      simp only at hr hc ⊢
      exact ih.turns P ρ t u i i' rest rest' arg r t' o v hq hst hi hrest hc hr
    | some fn =>
      rw [hx] at hcal hr hc
      generalize callable u i' cid' = y at hcal
      cases hcal with
      | @some _ fn' hff =>
        simp only [Bool.and_eq_true] at hr hc ⊢
        cases hiv : Spec.invokeFun f P t fn arg with
        | none => rw [hiv] at hr; simp at hr
        | some res =>
          obtain ⟨t1, o1, v1⟩ := res
          rw [hiv] at hr hc
          obtain ⟨u1, e1, ⟨ρ1, hq1, hs1, hf1⟩, hst1⟩ := ih.invoke P ρ t u fn fn' arg t1 o1 v1 hq hst hff hc.1 hiv
          rw [e1]
          cases o1 with
          | exc =>
            simp only [Option.some.injEq, Prod.mk.injEq] at hr ⊢
            obtain ⟨rfl, rfl, rfl⟩ := hr
            exact ⟨_, ⟨rfl, rfl, rfl⟩, ⟨ρ1, hq1, hs1, hf1⟩, hst1⟩
          | ok =>
            simp only at hr hc ⊢
            obtain ⟨u2, e2, hg2, hst2⟩ := ih.turns P ρ1 t1 u1 i i' rest rest' arg v1 t' o v hq1 hst1
              (hs1.sub _ _ hi) (hrest.mono hs1.sub) hc.2 hr
            exact ⟨u2, e2, Good.trans hs1 hf1 hg2, hst2⟩

theorem deref_succ (f : Nat) (ih : All f) : SDeref (f+1) := by
  intro P ρ t u i i' snap snap' it arg t' o it' hq hst hi hsn hc hr
  rw [deref_unfold] at hr ⊢
  unfold cDeref at hc
  have hk := hsn.get? it.pos
  cases hx : snap[it.pos]? with
  | none =>
    rw [hx] at hk hr
    generalize snap'[it.pos]? = y at hk
    cases hk
    simp only [Option.some.injEq, Prod.mk.injEq] at hr
    obtain ⟨rfl, rfl, rfl⟩ := hr
    exact ⟨_, rfl, Good.refl hq, hst⟩
  | some cid =>
    rw [hx] at hk hr hc
    generalize snap'[it.pos]? = y at hk
    cases hk with
    | @some _ cid' hcid =>
      simp only at hr hc ⊢
      have hcal := callable_sim hq hi hcid
      cases hy : callable t i cid with
      | none =>
        rw [hy] at hcal hr
        generalize callable u i' cid' = y at hcal
        cases hcal
        simp only [Option.some.injEq, Prod.mk.injEq] at hr
        obtain ⟨rfl, rfl, rfl⟩ := hr
        exact ⟨_, rfl, Good.refl hq, hst⟩
      | some fn =>
        rw [hy] at hcal hr hc
        generalize callable u i' cid' = y at hcal
        cases hcal with
        | @some _ fn' hff =>
          simp only at hr hc ⊢
          cases hinv : it.invoked with
          | true =>
            rw [hinv] at hr
            simp only [if_true, Option.some.injEq, Prod.mk.injEq] at hr ⊢
            obtain ⟨rfl, rfl, rfl⟩ := hr
            exact ⟨_, ⟨rfl, rfl, rfl⟩, Good.refl hq, hst⟩
          | false =>
            rw [hinv] at hr hc
            simp only [Bool.false_eq_true, if_false] at hr hc ⊢
            cases hiv : Spec.invokeFun f P t fn arg with
            | none => rw [hiv] at hr; simp at hr
            | some res =>
              obtain ⟨t1, o1, v1⟩ := res
              rw [hiv] at hr
              obtain ⟨u1, e1, hg1, hst1⟩ := ih.invoke P ρ t u fn fn' arg t1 o1 v1 hq hst hff hc hiv
              rw [e1]
              cases o1 with
              | exc =>
                simp only [Option.some.injEq, Prod.mk.injEq] at hr ⊢
                obtain ⟨rfl, rfl, rfl⟩ := hr
                exact ⟨_, ⟨rfl, rfl, rfl⟩, hg1, hst1⟩
              | ok =>
                simp only [Option.some.injEq, Prod.mk.injEq] at hr ⊢
                obtain ⟨rfl, rfl, rfl⟩ := hr
                exact ⟨_, ⟨rfl, rfl, rfl⟩, hg1, hst1⟩

theorem acc_succ (f : Nat) (ih : All f) : SAcc (f+1) := by
  intro P ρ t u i i' snap snap' it arg mode k r t' o v hq hst hi hsn hc hr
  unfold Spec.accLoop at hr ⊢
  unfold cAcc at hc
  simp only at hr hc ⊢
  rw [← hsn.length]
  by_cases hend : it.pos ≥ snap.length
  · rw [if_pos hend] at hr ⊢
    simp only [Option.some.injEq, Prod.mk.injEq] at hr
    obtain ⟨rfl, rfl, rfl⟩ := hr
    exact ⟨_, rfl, Good.refl hq, hst⟩
  · rw [if_neg hend] at hr hc ⊢
    by_cases hm3 : mode = 3
    · rw [if_pos hm3] at hr hc ⊢
      exact ih.acc P ρ t u i i' snap snap' _ arg mode k _ t' o v hq hst hi hsn hc hr
    · rw [if_neg hm3] at hr hc ⊢
      have hc := (Bool.and_eq_true _ _).mp hc
      cases hd : Spec.deref f P t i snap it arg with
      | none => rw [hd] at hr; simp at hr
      | some res =>
        obtain ⟨t1, o1, it1⟩ := res
        rw [hd] at hr hc
        obtain ⟨u1, e1, ⟨ρ1, hq1, hs1, hf1⟩, hst1⟩ := ih.deref P ρ t u i i' snap snap' it arg t1 o1 it1 hq hst hi hsn hc.1 hd
        rw [e1]
        cases o1 with
        | exc =>
          simp only [Option.some.injEq, Prod.mk.injEq] at hr ⊢
          obtain ⟨rfl, rfl, rfl⟩ := hr
          exact ⟨_, ⟨rfl, rfl, rfl⟩, ⟨ρ1, hq1, hs1, hf1⟩, hst1⟩
        | ok =>
          simp only at hr hc ⊢
          have hi1 := hs1.sub _ _ hi
          have hsn1 := hsn.mono hs1.sub
          by_cases hstop : (mode = 1 && r + it1.buf ≥ k) = true
          · rw [if_pos hstop] at hr ⊢
            simp only [Option.some.injEq, Prod.mk.injEq] at hr
            obtain ⟨rfl, rfl, rfl⟩ := hr
            exact ⟨_, rfl, ⟨ρ1, hq1, hs1, hf1⟩, hst1⟩
          · rw [if_neg hstop] at hr ⊢
            have hc2 := hc.2
            rw [if_neg hstop] at hc2
            by_cases hm2 : mode = 2
            · rw [if_pos hm2] at hr hc2 ⊢
              have hc2 := (Bool.and_eq_true _ _).mp hc2
              cases hd2 : Spec.deref f P t1 i snap (if mode = 4 then it else it1) arg with
              | none => rw [hd2] at hr; simp at hr
              | some res =>
                obtain ⟨t2, o2, it2⟩ := res
                rw [hd2] at hr hc2
                obtain ⟨u2, e2, ⟨ρ2, hq2, hs2, hf2⟩, hst2⟩ := ih.deref P ρ1 t1 u1 i i' snap snap' _ arg t2 o2 it2 hq1 hst1
                  hi1 hsn1 hc2.1 hd2
                rw [e2]
                cases o2 with
                | exc =>
                  simp only [Option.some.injEq, Prod.mk.injEq] at hr ⊢
                  obtain ⟨rfl, rfl, rfl⟩ := hr
                  exact ⟨_, ⟨rfl, rfl, rfl⟩, ⟨ρ2, hq2, hs1.trans hs2, hf1.trans hf2⟩, hst2⟩
                | ok =>
                  simp only at hr hc2 ⊢
                  obtain ⟨u3, e3, hg3, hst3⟩ := ih.acc P ρ2 t2 u2 i i' snap snap' _ arg mode k _ t' o v hq2 hst2
                    (hs2.sub _ _ hi1) (hsn1.mono hs2.sub) hc2.2 hr
                  exact ⟨u3, e3, Good.trans (hs1.trans hs2) (hf1.trans hf2) hg3, hst3⟩
            · rw [if_neg hm2] at hr hc2 ⊢
              obtain ⟨u3, e3, hg3, hst3⟩ := ih.acc P ρ1 t1 u1 i i' snap snap' _ arg mode k _ t' o v hq1 hst1
                hi1 hsn1 hc2 hr
              exact ⟨u3, e3, Good.trans hs1 hf1 hg3, hst3⟩

theorem rev_succ (f : Nat) (ih : All f) : SRev (f+1) := by
  intro P ρ t u i i' snap snap' it arg r t' o v hq hst hi hsn hc hr
  unfold Spec.revLoop at hr ⊢
  unfold cRev at hc
  simp only at hr hc ⊢
  by_cases h0 : it.pos = 0
  · rw [if_pos h0] at hr ⊢
    simp only [Option.some.injEq, Prod.mk.injEq] at hr
    obtain ⟨rfl, rfl, rfl⟩ := hr
    exact ⟨_, rfl, Good.refl hq, hst⟩
  · rw [if_neg h0] at hr hc ⊢
    simp only [Bool.and_eq_true] at hc
    cases hd : Spec.deref f P t i snap { it with pos := it.pos - 1, invoked := false } arg with
    | none => rw [hd] at hr; simp at hr
    | some res =>
      obtain ⟨t1, o1, it1⟩ := res
      rw [hd] at hr hc
      obtain ⟨u1, e1, ⟨ρ1, hq1, hs1, hf1⟩, hst1⟩ := ih.deref P ρ t u i i' snap snap' _ arg t1 o1 it1 hq hst hi hsn hc.1 hd
      rw [e1]
      cases o1 with
      | exc =>
        simp only [Option.some.injEq, Prod.mk.injEq] at hr ⊢
        obtain ⟨rfl, rfl, rfl⟩ := hr
        exact ⟨_, ⟨rfl, rfl, rfl⟩, ⟨ρ1, hq1, hs1, hf1⟩, hst1⟩
      | ok =>
        simp only at hr hc ⊢
        obtain ⟨u2, e2, hg2, hst2⟩ := ih.rev P ρ1 t1 u1 i i' snap snap' it1 arg _ t' o v hq1 hst1
          (hs1.sub _ _ hi) (hsn.mono hs1.sub) hc.2 hr
        exact ⟨u2, e2, Good.trans hs1 hf1 hg2, hst2⟩

theorem walk_succ (f : Nat) (ih : All f) : SWalk (f+1) := by
  intro P ρ t u i i' snap snap' it arg ops r t' o v hq hst hi hsn hc hr
  cases ops with
  | nil =>
    unfold Spec.walkLoop at hr ⊢
    simp only [Option.some.injEq, Prod.mk.injEq] at hr
    obtain ⟨rfl, rfl, rfl⟩ := hr
    exact ⟨_, rfl, Good.refl hq, hst⟩
  | cons c cs =>
    unfold Spec.walkLoop at hr ⊢
    unfold cWalk at hc
    simp only at hr hc ⊢
    rw [← hsn.length]
    -- the two dereferencing arms
    have derefArm : ∀ (keep : Bool),
        (match Spec.deref f P t i snap it arg with
          | none => none
          | some (s, .exc, _) => some (s, Outcome.exc, r)
          | some (s, .ok, it2) => Spec.walkLoop f P s i snap (if keep then it else it2) arg cs (r + it2.buf)) = some (t', o, v) →
        (cDeref f P t i snap it arg &&
          match Spec.deref f P t i snap it arg with
          | some (s, .ok, it2) => cWalk f P s i snap (if keep then it else it2) arg cs (r + it2.buf)
          | _ => true) = true →
        ∃ u', (match Spec.deref (f+1) P u i' snap' it arg with
          | none => none
          | some (s, .exc, _) => some (s, Outcome.exc, r)
          | some (s, .ok, it2) => Spec.walkLoop (f+1) P s i' snap' (if keep then it else it2) arg cs (r + it2.buf)) = some (u', o, v) ∧
          Good ρ t u t' u' ∧ Settled t' := by
      intro keep hr hc
      have hc := (Bool.and_eq_true _ _).mp hc
      cases hd : Spec.deref f P t i snap it arg with
      | none => rw [hd] at hr; simp at hr
      | some res =>
        obtain ⟨t1, o1, it1⟩ := res
        rw [hd] at hr hc
        obtain ⟨u1, e1, ⟨ρ1, hq1, hs1, hf1⟩, hst1⟩ := ih.deref P ρ t u i i' snap snap' it arg t1 o1 it1 hq hst hi hsn hc.1 hd
        rw [e1]
        cases o1 with
        | exc =>
          simp only [Option.some.injEq, Prod.mk.injEq] at hr ⊢
          obtain ⟨rfl, rfl, rfl⟩ := hr
          exact ⟨_, ⟨rfl, rfl, rfl⟩, ⟨ρ1, hq1, hs1, hf1⟩, hst1⟩
        | ok =>
          simp only at hr hc ⊢
          obtain ⟨u2, e2, hg2, hst2⟩ := ih.walk P ρ1 t1 u1 i i' snap snap' _ arg cs _ t' o v hq1 hst1
            (hs1.sub _ _ hi) (hsn.mono hs1.sub) hc.2 hr
          exact ⟨u2, e2, Good.trans hs1 hf1 hg2, hst2⟩
    have stay : ∀ it2 : It, Spec.walkLoop f P t i snap it2 arg cs r = some (t', o, v) →
        cWalk f P t i snap it2 arg cs r = true →
        ∃ u', Spec.walkLoop (f+1) P u i' snap' it2 arg cs r = some (u', o, v) ∧ Good ρ t u t' u' ∧ Settled t' :=
      fun it2 hr hc => ih.walk P ρ t u i i' snap snap' it2 arg cs r t' o v hq hst hi hsn hc hr
    by_cases hcd : c = 'd'
    · rw [if_pos hcd] at hr hc ⊢
      by_cases hend : it.pos ≥ snap.length
      · rw [if_pos hend] at hr hc ⊢
        exact stay _ hr hc
      · rw [if_neg hend] at hr hc ⊢
        exact derefArm false hr hc
    · rw [if_neg hcd] at hr hc ⊢
      by_cases hcc : c = 'c'
      · rw [if_pos hcc] at hr hc ⊢
        by_cases hend : it.pos ≥ snap.length
        · rw [if_pos hend] at hr hc ⊢
          exact stay _ hr hc
        · rw [if_neg hend] at hr hc ⊢
          exact derefArm true hr hc
      · rw [if_neg hcc] at hr hc ⊢
        by_cases hci : c = 'i'
        · rw [if_pos hci] at hr hc ⊢
          by_cases hend : it.pos ≥ snap.length
          · rw [if_pos hend] at hr hc ⊢
            exact stay _ hr hc
          · rw [if_neg hend] at hr hc ⊢
            exact stay _ hr hc
        · rw [if_neg hci] at hr hc ⊢
          by_cases hcx : c = 'x'
          · rw [if_pos hcx] at hr hc ⊢
            by_cases h0 : it.pos = 0
            · rw [if_pos h0] at hr hc ⊢
              exact stay _ hr hc
            · rw [if_neg h0] at hr hc ⊢
              exact stay _ hr hc
          · rw [if_neg hcx] at hr hc ⊢
            exact stay _ hr hc

theorem strat_succ (f : Nat) (ih : All f) : SStrat (f+1) := by
  intro P ρ t u i i' snap snap' arg strat t' o v hq hst hi hsn hc hr
  unfold Spec.runStrat at hr ⊢
  unfold cStrat at hc
  cases strat with
  | sum => exact ih.acc P ρ t u i i' snap snap' _ arg 0 0 0 t' o v hq hst hi hsn hc hr
  | stop k => exact ih.acc P ρ t u i i' snap snap' _ arg 1 k 0 t' o v hq hst hi hsn hc hr
  | twice => exact ih.acc P ρ t u i i' snap snap' _ arg 2 0 0 t' o v hq hst hi hsn hc hr
  | never => exact ih.acc P ρ t u i i' snap snap' _ arg 3 0 0 t' o v hq hst hi hsn hc hr
  | postinc => exact ih.acc P ρ t u i i' snap snap' _ arg 4 0 0 t' o v hq hst hi hsn hc hr
  | rev =>
    simp only at hr hc ⊢
    rw [← hsn.length]
    exact ih.rev P ρ t u i i' snap snap' _ arg 0 t' o v hq hst hi hsn hc hr
  | walk ops => exact ih.walk P ρ t u i i' snap snap' _ arg ops 0 t' o v hq hst hi hsn hc hr

end Sigc.SpecK
