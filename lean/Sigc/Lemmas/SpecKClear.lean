import Sigc.Spec
/-!
# SpecK — the run-level hypothesis "the run stays clear of the two known findings"

`clearTop fuel P s lines` is an *instrumented run* of the specification interpreter (`Sigc.Spec`) in
whatever configuration `s` carries: it follows exactly the calls the interpreter makes (the states are
computed by the interpreter itself) and checks, at each of them,

* **(K1)** `sweepClear`: the deferred sweep at the end of an outermost emission (`k1`) finds no connected
  *empty* slot to drop (in particular this holds when no empty slot is ever connected);
* **(K2)** `clearEmit`: an *accumulated* emission does not start on a list that has an emission in progress.

No proofs in this file.
-/
namespace Sigc.SpecK
open Sigc.Model Sigc.Spec

/-- the functor invoked at the turn of entry `cid` of list `i` (the entry must be in the list, valid and
    unblocked at that moment) -/
def callable (s : LSt) (i cid : Nat) : Option Fun :=
  match (aget s.sigs i).bind (fun g => g.cells.find? (·.id = cid)) with
  | some { slot := { blocked := false, rep := some { call := true, fn := some fn } }, .. } => some fn
  | _ => none

/-- (K1) the epilogue of an emission of list `g2` (end marker `m`): if this was the outermost emission and an
    entry left the list meanwhile (`dirty`), the sweep finds no empty entry to drop -/
def sweepClear (g2 : LSig) (m : Nat) : Bool :=
  let g3 := { g2 with active := g2.active - 1, cells := g2.cells.filter (·.id ≠ m) }
  let g3 := if g3.active = 0 then { g3 with cells := g3.cells.filter (fun c => !c.zombie), limbo := [] } else g3
  !(g3.active == 0 && g3.dirty) || g3.cells.all (fun c => !c.slot.empty)

/-- (K2) an accumulated emission starts only on a list without an emission in progress -/
def clearEmit (s : LSt) (fl : Flavour) (impl : Option Nat) : Bool :=
  match impl with
  | none => true
  | some i =>
    match aget s.sigs i with
    | none => true
    | some g => !fl.isAcc || g.active == 0

mutual

def cInvoke : Nat → Prog → LSt → Fun → Nat → Bool
  | 0, _, _, _, _ => true
  | f+1, P, s, fn, arg =>
    match fn with
    | .leaf fid _ | .owner fid _ _ =>
      let s := s.log (.call s.depth fid arg)
      match aget P.bodies fid with
      | none => true
      | some body => cBody f P { s with depth := s.depth + 1 } body
    | .nest blocked inner =>
      match inner with
      | none => true
      | some g => if blocked then true else cInvoke f P s g arg
    | .fwd o _ =>
      match handleByObj s o with
      | none => true
      | some (_, h) => cEmit f P s h.fl h.impl arg .sum

def cBody : Nat → Prog → LSt → List Line → Bool
  | 0, _, _, _ => true
  | _+1, _, _, [] => true
  | f+1, P, s, l :: ls =>
    cLine f P s l &&
    match execLine f P s l with
    | some (s, .ok) => cBody f P s ls
    | _ => true

def cLine : Nat → Prog → LSt → Line → Bool
  | 0, _, _, _ => true
  | f+1, P, s, l => cOp f P { s with steps := s.steps + 1 } l.op

def cEmit : Nat → Prog → LSt → Flavour → Option Nat → Nat → Strat → Bool
  | 0, _, _, _, _, _, _ => true
  | f+1, P, s, fl, impl, arg, strat =>
    clearEmit s fl impl &&
    match impl with
    | none => true
    | some i =>
      match aget s.sigs i with
      | none => true
      | some g =>
        if s.k2 && !fl.isAcc && g.cells.isEmpty then true else
        let snap := (g.cells.filter (fun c => (s.k2 && fl.isAcc) || (!c.marker && !c.zombie))).map (·.id)
        let (m, s) := s.fresh
        let s := setSig s i { g with active := g.active + 1,
                                     cells := if s.k2 then g.cells ++ [{ id := m, slot := {}, marker := true }] else g.cells }
        (if fl.isAcc then cStrat f P s i snap arg (strat.forFlavour fl) else cTurns f P s i snap arg 0) &&
        match (if fl.isAcc then runStrat f P s i snap arg (strat.forFlavour fl) else turns f P s i snap arg 0) with
        | none => true
        | some (s, _, _) =>
          match aget s.sigs i with
          | none => true
          | some g2 => sweepClear g2 m

def cTurns : Nat → Prog → LSt → Nat → List Nat → Nat → Nat → Bool
  | 0, _, _, _, _, _, _ => true
  | _+1, _, _, _, [], _, _ => true
  | f+1, P, s, i, cid :: rest, arg, r =>
    match callable s i cid with
    | none => cTurns f P s i rest arg r
    | some fn =>
      cInvoke f P s fn arg &&
      match invokeFun f P s fn arg with
      | some (s, .ok, v) => cTurns f P s i rest arg v
      | _ => true

def cDeref : Nat → Prog → LSt → Nat → List Nat → It → Nat → Bool
  | 0, _, _, _, _, _, _ => true
  | f+1, P, s, i, snap, it, arg =>
    match snap[it.pos]? with
    | none => true
    | some cid =>
      match callable s i cid with
      | none => true
      | some fn => if it.invoked then true else cInvoke f P s fn arg

def cAcc : Nat → Prog → LSt → Nat → List Nat → It → Nat → Nat → Nat → Nat → Bool
  | 0, _, _, _, _, _, _, _, _, _ => true
  | f+1, P, s, i, snap, it, arg, mode, k, r =>
    if it.pos ≥ snap.length then true else
    if mode = 3 then cAcc f P s i snap { it with pos := it.pos + 1, invoked := false } arg mode k (r + 1) else
    cDeref f P s i snap it arg &&
    match deref f P s i snap it arg with
    | some (s, .ok, it') =>
      let it := if mode = 4 then it else it'
      let r := r + it'.buf
      if mode = 1 && r ≥ k then true else
      if mode = 2 then
        cDeref f P s i snap it arg &&
        match deref f P s i snap it arg with
        | some (s, .ok, it) => cAcc f P s i snap { it with pos := it.pos + 1, invoked := false } arg mode k (r + it.buf)
        | _ => true
      else cAcc f P s i snap { it with pos := it.pos + 1, invoked := false } arg mode k r
    | _ => true

def cRev : Nat → Prog → LSt → Nat → List Nat → It → Nat → Nat → Bool
  | 0, _, _, _, _, _, _, _ => true
  | f+1, P, s, i, snap, it, arg, r =>
    if it.pos = 0 then true else
    let it := { it with pos := it.pos - 1, invoked := false }
    cDeref f P s i snap it arg &&
    match deref f P s i snap it arg with
    | some (s, .ok, it) => cRev f P s i snap it arg (r + it.buf)
    | _ => true

def cWalk : Nat → Prog → LSt → Nat → List Nat → It → Nat → List Char → Nat → Bool
  | 0, _, _, _, _, _, _, _, _ => true
  | _+1, _, _, _, _, _, _, [], _ => true
  | f+1, P, s, i, snap, it, arg, c :: cs, r =>
    let atEnd := it.pos ≥ snap.length
    if c = 'd' then
      if atEnd then cWalk f P s i snap it arg cs r else
      cDeref f P s i snap it arg &&
      match deref f P s i snap it arg with
      | some (s, .ok, it) => cWalk f P s i snap it arg cs (r + it.buf)
      | _ => true
    else if c = 'c' then
      if atEnd then cWalk f P s i snap it arg cs r else
      cDeref f P s i snap it arg &&
      match deref f P s i snap it arg with
      | some (s, .ok, cp) => cWalk f P s i snap it arg cs (r + cp.buf)
      | _ => true
    else if c = 'i' then
      if atEnd then cWalk f P s i snap it arg cs r
      else cWalk f P s i snap { it with pos := it.pos + 1, invoked := false } arg cs r
    else if c = 'x' then
      if it.pos = 0 then cWalk f P s i snap it arg cs r
      else cWalk f P s i snap { it with pos := it.pos - 1, invoked := false } arg cs r
    else cWalk f P s i snap it arg cs r

def cStrat : Nat → Prog → LSt → Nat → List Nat → Nat → Strat → Bool
  | 0, _, _, _, _, _, _ => true
  | f+1, P, s, i, snap, arg, strat =>
    match strat with
    | .sum => cAcc f P s i snap { pos := 0 } arg 0 0 0
    | .stop k => cAcc f P s i snap { pos := 0 } arg 1 k 0
    | .twice => cAcc f P s i snap { pos := 0 } arg 2 0 0
    | .never => cAcc f P s i snap { pos := 0 } arg 3 0 0
    | .postinc => cAcc f P s i snap { pos := 0 } arg 4 0 0
    | .rev => cRev f P s i snap { pos := snap.length } arg 0
    | .walk ops => cWalk f P s i snap { pos := 0 } arg ops 0

def cOp : Nat → Prog → LSt → Op → Bool
  | 0, _, _, _ => true
  | f+1, P, s, op =>
    match op with
    | .callS i arg =>
      match aget s.S i with
      | none => true
      | some v =>
        if s.depth ≥ P.maxdepth then true else
        if s.steps > P.maxsteps then true else
        match v.slot.rep with
        | some { call := true, fn := some fn } =>
          if v.slot.blocked then true else
          cInvoke f P { s with S := aset s.S i { v with incall := v.incall + 1 } } fn arg
        | _ => true
    | .emit g arg strat _ =>
      match aget s.G g with
      | none => true
      | some h =>
        if s.depth ≥ P.maxdepth then true else
        if s.steps > P.maxsteps then true else
        cEmit f P s h.fl h.impl arg strat
    | _ => true

end

/-- the instrumented run of the top-level operations: `true` iff every operation executed and every
    emission started by `Spec.runTop fuel P s lines` satisfies `clearEmit` (at its start) and `sweepClear` (at its
    end).  Total (structural recursion on the fuel), executable; its cost is the cost of the run times
    `O(nesting depth)` (the checked part of a call is not re-checked, only re-run once per level). -/
def clearTop : Nat → Prog → LSt → List Line → Bool
  | _, _, _, [] => true
  | f, P, s, l :: ls =>
    cLine f P s l &&
    match execLine f P s l with
    | none => true
    | some (s, _) => clearTop f P s ls

end Sigc.SpecK
