import Sigc.Lemmas.SpecKPrim2
/-!
# SpecK — `collect`, `mkFun`, `specTaint` on related states.
-/
namespace Sigc.SpecK
open Sigc.Model Sigc.Spec

/-! ## functor-owned signal objects (`ownedG`), `dropHandle` -/

/-- "is the signal object named `g` owned by a functor" is answered alike -/
theorem Q.ownedG_any {ρ : IdRel} {t u : LSt} (h : Q ρ t u) (g : Nat) :
    u.ownedG.any (fun p => decide (p.2 = g)) = t.ownedG.any (fun p => decide (p.2 = g)) :=
  (F2.any h.ownedG _ _ (fun a b _ _ hr => by rw [hr.2])).symm

/-- the signal object named `g` is destroyed in both configurations (the non-refusing part of `delG`) -/
theorem dropHandle_sim {ρ : IdRel} {t u : LSt} (h : Q ρ t u) (g : Nat) :
    Sim0 ρ t u (Spec.dropHandle t g) (Spec.dropHandle u g) := by
  unfold Spec.dropHandle
  have hG := h.G.get g
  generalize aget t.G g = x at hG
  generalize aget u.G g = y at hG
  cases hG with
  | none => exact Sim0.refl h
  | @some hd hd' hh =>
    simp only [hh.fl]
    have h1 : Sim0 ρ t u (if hd.fl.isTrackable = true then Spec.invalidateTrackable t hd.trk else t)
        (if hd.fl.isTrackable = true then Spec.invalidateTrackable u hd'.trk else u) := by
      split
      · exact invalidateTrackable_sim h hh.trk
      · exact Sim0.refl h
    generalize (if hd.fl.isTrackable = true then Spec.invalidateTrackable t hd.trk else t) = t1 at h1
    generalize (if hd.fl.isTrackable = true then Spec.invalidateTrackable u hd'.trk else u) = u1 at h1
    have h2 : Q ρ { t1 with G := adel t1.G g } { u1 with G := adel u1.G g } :=
      { h1.q with G := h1.q.G.del g }
    have h2' : Sim0 ρ t u { t1 with G := adel t1.G g } { u1 with G := adel u1.G g } :=
      ⟨h2, h1.fr.trans (Fr.of_eq rfl rfl), h1.nk, h1.np⟩
    have himp := hh.impl
    generalize hd.impl = a at himp
    generalize hd'.impl = b at himp
    cases himp with
    | none => exact h2'
    | some him => exact h2'.trans (gcSig_sim h2 him)

/-! ## `collect` -/

theorem collectStep_sim {ρ : IdRel} {t u : LSt} (h : Q ρ t u) :
    (Spec.collectStep t = none ∧ Spec.collectStep u = none) ∨
    ∃ t' u', Spec.collectStep t = some t' ∧ Spec.collectStep u = some u' ∧ Sim0 ρ t u t' u' := by
  unfold Spec.collectStep
  have hT := F2.find h.ownedT (fun o => !Spec.heldT t o) (fun o => !Spec.heldT u o)
    (fun a b _ _ hr => by simp only [h.heldT hr])
  generalize t.ownedT.find? _ = x at hT
  generalize u.ownedT.find? _ = y at hT
  cases hT with
  | @some o o' ho =>
    right
    simp only
    refine ⟨_, _, rfl, rfl, ?_⟩
    have h1 : Q ρ { t with ownedT := t.ownedT.filter (· ≠ o) } { u with ownedT := u.ownedT.filter (· ≠ o') } :=
      { h with ownedT := F2.filter h.ownedT _ _ (fun a b _ _ hr => by
          have := h.pb.eq_iff hr ho
          by_cases e : a = o
          · simp [e, this.mp e]
          · have e' : ¬ b = o' := fun x => e (this.mpr x)
            simp [e, e']) }
    have h2 := invalidateTrackable_sim h1 ho
    exact ⟨h2.q, (Fr.of_eq rfl rfl : Fr t { t with ownedT := t.ownedT.filter (· ≠ o) }).trans h2.fr, h2.nk, h2.np⟩
  | none =>
    simp only
    have hK := F2.find h.ownedK (fun p => !Spec.heldK t p.1) (fun p => !Spec.heldK u p.1)
      (fun a b _ _ hr => by simp only [h.heldK hr.1])
    generalize t.ownedK.find? _ = x at hK
    generalize u.ownedK.find? _ = y at hK
    cases hK with
    | none =>
      simp only
      have hGf := F2.find h.ownedG (fun p => !Spec.heldK t p.1) (fun p => !Spec.heldK u p.1)
        (fun a b _ _ hr => by simp only [h.heldK hr.1])
      generalize t.ownedG.find? _ = x at hGf
      generalize u.ownedG.find? _ = y at hGf
      cases hGf with
      | none => exact Or.inl ⟨rfl, rfl⟩
      | @some a b hab =>
        right
        obtain ⟨k, g⟩ := a
        obtain ⟨k', g'⟩ := b
        obtain ⟨hk, hg⟩ := hab
        simp only at hk hg ⊢
        subst hg
        refine ⟨_, _, rfl, rfl, ?_⟩
        have h1 : Q ρ { t with ownedG := t.ownedG.filter (fun q => q.1 ≠ k) }
            { u with ownedG := u.ownedG.filter (fun q => q.1 ≠ k') } :=
          { h with ownedG := F2.filter h.ownedG _ _ (fun a b _ _ hr => by
              have := h.pb.eq_iff hr.1 hk
              by_cases e : a.1 = k
              · simp [e, this.mp e]
              · have e' : ¬ b.1 = k' := fun x => e (this.mpr x)
                simp [e, e']) }
        have h2 := dropHandle_sim h1 g
        exact ⟨h2.q, (Fr.of_eq rfl rfl : Fr t { t with ownedG := t.ownedG.filter (fun q => q.1 ≠ k) }).trans h2.fr,
          h2.nk, h2.np⟩
    | @some a b hab =>
      right
      obtain ⟨k, p⟩ := a
      obtain ⟨k', p'⟩ := b
      obtain ⟨hk, hp⟩ := hab
      simp only at hk hp ⊢
      refine ⟨_, _, rfl, rfl, ?_⟩
      have h1 : Q ρ { t with ownedK := t.ownedK.filter (fun q => q.1 ≠ k) }
          { u with ownedK := u.ownedK.filter (fun q => q.1 ≠ k') } :=
        { h with ownedK := F2.filter h.ownedK _ _ (fun a b _ _ hr => by
            have := h.pb.eq_iff hr.1 hk
            by_cases e : a.1 = k
            · simp [e, this.mp e]
            · have e' : ¬ b.1 = k' := fun x => e (this.mpr x)
              simp [e, e']) }
      cases hp with
      | none => exact ⟨h1, Fr.of_eq rfl rfl, rfl, rfl⟩
      | some hc =>
        simp only
        have h2 := removeCell_sim h1 hc
        exact ⟨h2.q, (Fr.of_eq rfl rfl : Fr t { t with ownedK := t.ownedK.filter (fun q => q.1 ≠ k) }).trans h2.fr,
          h2.nk, h2.np⟩

theorem collectN_sim {ρ : IdRel} (n : Nat) : ∀ {t u : LSt}, Q ρ t u →
    Sim0 ρ t u (Spec.collectN n t) (Spec.collectN n u) := by
  induction n with
  | zero => intro t u h; exact Sim0.refl h
  | succ n ih =>
    intro t u h
    unfold Spec.collectN
    rcases collectStep_sim h with ⟨e1, e2⟩ | ⟨t', u', e1, e2, hs⟩
    · rw [e1, e2]; exact Sim0.refl h
    · rw [e1, e2]; exact hs.trans (ih hs.q)

theorem collect_sim {ρ : IdRel} {t u : LSt} (h : Q ρ t u) : Sim0 ρ t u (Spec.collect t) (Spec.collect u) := by
  unfold Spec.collect
  rw [← h.ownedT.length, ← F2.length h.ownedK, ← F2.length h.ownedG]
  exact collectN_sim _ h

/-! ## `specTaint`, `mkFun` -/

theorem specTaint_sim {ρ : IdRel} {t u : LSt} (h : Q ρ t u) (spec : FSpec) :
    Spec.specTaint u spec = Spec.specTaint t spec := by
  cases spec <;> try rfl
  · rename_i sv
    simp only [Spec.specTaint]
    have hS := h.S.get sv
    generalize aget t.S sv = x at hS
    generalize aget u.S sv = y at hS
    cases hS with
    | none => rfl
    | some hr => exact hr.taint
  · rename_i g
    simp only [Spec.specTaint]
    have hG := h.G.get g
    generalize aget t.G g = x at hG
    generalize aget u.G g = y at hG
    cases hG with
    | none => rfl
    | some hr => simp only [hr.lvl]

/-- the result of `mkFun` on related states -/
inductive MkR (ρ : IdRel) (t u : LSt) : Except String (Fun × LSt) → Except String (Fun × LSt) → Prop
  | err (e : String) : MkR ρ t u (.error e) (.error e)
  | ok {fn fn' : Fun} {t1 u1 : LSt} (ρ' : IdRel) : FunR ρ' fn fn' → Q ρ' t1 u1 → Step ρ ρ' t t1 u u1 → Fr t t1 →
      MkR ρ t u (.ok (fn, t1)) (.ok (fn', u1))

theorem mkFun_sim {ρ : IdRel} {t u : LSt} (h : Q ρ t u) (isVoid : Bool) (spec : FSpec) :
    MkR ρ t u (Spec.mkFun t isVoid spec) (Spec.mkFun u isVoid spec) := by
  have okSame : ∀ {fn fn' : Fun}, FunR ρ fn fn' → MkR ρ t u (.ok (fn, t)) (.ok (fn', u)) :=
    fun hf => .ok ρ hf h (Step.refl _ _ _) (Fr.refl _)
  cases spec with
  | fn fid => exact okSame (.leaf fid .nil)
  | mem fid tt =>
    simp only [Spec.mkFun]
    have hT := h.T.get tt
    generalize aget t.T tt = x at hT
    generalize aget u.T tt = y at hT
    cases hT with
    | none => exact .err _
    | some hr => exact okSame (.leaf fid (F2.single hr))
  | bref fid tt =>
    simp only [Spec.mkFun]
    have hT := h.T.get tt
    generalize aget t.T tt = x at hT
    generalize aget u.T tt = y at hT
    cases hT with
    | none => exact .err _
    | some hr => exact okSame (.leaf fid (F2.single hr))
  | trk fid t1 t2 =>
    simp only [Spec.mkFun]
    have hT := h.T.get t1
    generalize aget t.T t1 = x at hT
    generalize aget u.T t1 = y at hT
    cases hT with
    | none => exact .err _
    | some hr =>
      cases t2 with
      | none => exact okSame (.leaf fid (F2.single hr))
      | some t2 =>
        simp only
        have hT2 := h.T.get t2
        generalize aget t.T t2 = x at hT2
        generalize aget u.T t2 = y at hT2
        cases hT2 with
        | none => exact .err _
        | some hr2 => exact okSame (.leaf fid (.cons hr (F2.single hr2)))
  | nest sv =>
    simp only [Spec.mkFun]
    have hS := h.S.get sv
    generalize aget t.S sv = x at hS
    generalize aget u.S sv = y at hS
    cases hS with
    | none => exact .err _
    | @some v v' hr =>
      simp only [hr.isVoid]
      split
      · exact .err _
      · have hc := hr.slot.copy
        rw [hc.blocked]
        have hrep := hc.rep
        generalize v.slot.copy.rep = a at hrep ⊢
        generalize v'.slot.copy.rep = b at hrep ⊢
        cases hrep with
        | none => exact okSame (.nestNone _)
        | @some r r' hrr =>
          simp only
          have hf := hrr.fn
          generalize r.fn = a at hf
          generalize r'.fn = b at hf
          cases hf with
          | none => exact okSame (.nestNone _)
          | some hf => exact okSame (.nestSome _ hf)
  | fwd g =>
    simp only [Spec.mkFun]
    have hG := h.G.get g
    generalize aget t.G g = x at hG
    generalize aget u.G g = y at hG
    cases hG with
    | none => exact .err _
    | @some hd hd' hr =>
      simp only [hr.fl, h.ownedG_any g]
      split
      · exact .err _
      · split
        · exact .err _
        refine .ok ρ (.fwd hr.obj ?_) { h with G := AR.set h.G g ⟨hr.obj, rfl, hr.impl, hr.trk, hr.lvl, rfl⟩ }
          (Step.of_eq rfl rfl) (Fr.of_eq rfl rfl)
        split
        · exact F2.single hr.trk
        · exact .nil
  | ownT fid tt =>
    simp only [Spec.mkFun]
    have hT := h.T.get tt
    generalize aget t.T tt = x at hT
    generalize aget u.T tt = y at hT
    cases hT with
    | none => exact .err _
    | some hr =>
      exact .ok ρ (.owner fid (F2.single hr) .nil)
        { h with T := h.T.del tt, ownedT := .cons hr h.ownedT } (Step.of_eq rfl rfl) (Fr.of_eq rfl rfl)
  | ownK fid k =>
    simp only [Spec.mkFun]
    have hK := h.K.get k
    generalize aget t.K k = x at hK
    generalize aget u.K k = y at hK
    cases hK with
    | none => exact .err _
    | @some p p' hr =>
      simp only [LSt.fresh]
      have hq := h.fresh
      have hn : ext ρ t.next u.next t.next u.next := ext_new _ _ _
      exact .ok (ext ρ t.next u.next) (.owner fid .nil (F2.single hn))
        { hq with K := hq.K.del k, ownedK := .cons ⟨hn, hr.imp (ext_sub _ _ _)⟩ hq.ownedK }
        ((Step.fresh ρ t u).congr rfl rfl rfl rfl) (Fr.of_eq rfl rfl)
  | ownG fid g =>
    simp only [Spec.mkFun]
    have hG := h.G.get g
    generalize aget t.G g = x at hG
    generalize aget u.G g = y at hG
    cases hG with
    | none => exact .err _
    | @some hd hd' hr =>
      simp only [hr.fl, hr.everFwd, h.ownedG_any g]
      split
      · exact .err _
      · split
        · exact .err _
        · simp only [LSt.fresh]
          have hq := h.fresh
          have hn : ext ρ t.next u.next t.next u.next := ext_new _ _ _
          exact .ok (ext ρ t.next u.next) (.owner fid .nil (F2.single hn))
            { hq with ownedG := .cons ⟨hn, rfl⟩ hq.ownedG }
            ((Step.fresh ρ t u).congr rfl rfl rfl rfl) (Fr.of_eq rfl rfl)
  | bad => exact .err _

end Sigc.SpecK
