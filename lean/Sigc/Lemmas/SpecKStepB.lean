import Sigc.Lemmas.SpecKStepA
/-!
# SpecK — `stepSimple` on related states, part B: signal objects, connecting, list queries.
-/
namespace Sigc.SpecK
open Sigc.Model Sigc.Spec

section
variable {ρ : IdRel} {t u : LSt}

/-- two allocations on both sides -/
theorem Q.fresh2 (h : Q ρ t u) :
    Q (ext (ext ρ t.next u.next) (t.next + 1) (u.next + 1)) { t with next := t.next + 1 + 1 }
      { u with next := u.next + 1 + 1 } := h.fresh.fresh

theorem Step.fresh2' {ρ : IdRel} {t t' u u' : LSt} (h1 : t'.next = t.next + 1 + 1) (h2 : u'.next = u.next + 1 + 1) :
    Step ρ (ext (ext ρ t.next u.next) (t.next + 1) (u.next + 1)) t t' u u' :=
  (Step.fresh' (t' := { t with next := t.next + 1 }) (u' := { u with next := u.next + 1 }) rfl rfl).trans
    (Step.fresh' (t := { t with next := t.next + 1 }) (u := { u with next := u.next + 1 }) h1 h2)

theorem ext2_sub (ρ : IdRel) (a b c d : Nat) : ∀ x y, ρ x y → ext (ext ρ a b) c d x y :=
  fun _ _ h => ext_sub _ _ _ _ _ (ext_sub _ _ _ _ _ h)

/-- the common tail "`if c then invalidateTrackable s o else s`" -/
theorem ite_inval_step {ρ1 : IdRel} {t1 u1 : LSt} {c : Bool} (h1 : Q ρ1 t1 u1) {o o' : Nat} (ho : ρ1 o o')
    (hs : Step ρ ρ1 t t1 u u1) (hf : Fr t t1) {r : String} :
    StepR ρ t u (some (if c = true then Spec.invalidateTrackable t1 o else t1, r))
      (some (if c = true then Spec.invalidateTrackable u1 o' else u1, r)) := by
  cases c
  · exact .ok _ ρ1 h1 hs hf
  · have h2 := invalidateTrackable_sim h1 ho
    exact .ok _ ρ1 h2.q (hs.trans h2.step) (hf.trans h2.fr)

theorem step_newG (h : Q ρ t u) (i : Nat) (fl : Option Flavour) :
    StepR ρ t u (Spec.stepSimple t (.newG i fl)) (Spec.stepSimple u (.newG i fl)) := by
  simp only [Spec.stepSimple]
  cases fl with
  | none => exact .same h _
  | some fl =>
    simp only
    have hG := h.G.get i
    generalize aget t.G i = x at hG
    generalize aget u.G i = y at hG
    cases hG with
    | some _ => exact .same h _
    | none =>
      simp only [LSt.fresh]
      refine .ok _ _ (h.fresh2.setG (h.fresh2.G.set i ?_)) (Step.fresh2' rfl rfl) (Fr.of_eq rfl rfl)
      exact ⟨ext_sub _ _ _ _ _ (ext_new _ _ _), rfl, .none, ext_new _ _ _, rfl, rfl⟩

theorem step_cpG (h : Q ρ t u) (j i : Nat) : StepR ρ t u (Spec.stepSimple t (.cpG j i)) (Spec.stepSimple u (.cpG j i)) := by
  simp only [Spec.stepSimple]
  have hG := h.G.get i
  generalize aget t.G i = x at hG
  generalize aget u.G i = y at hG
  cases hG with
  | none => exact .same h _
  | some _ =>
    simp only
    have hG := h.G.get j
    generalize aget t.G j = x at hG
    generalize aget u.G j = y at hG
    cases hG with
    | some _ => exact .same h _
    | none =>
      simp only
      rcases ensureSig_sim h i with ⟨e1, e2⟩ | ⟨t1, im, u1, im', ρ1, e1, e2, h1, him, hs1, hf1⟩
      · rw [e1, e2]; exact .same h _
      · rw [e1, e2]
        simp only
        have hG := h1.G.get i
        generalize aget t1.G i = x at hG
        generalize aget u1.G i = y at hG
        cases hG with
        | none => exact .ok _ ρ1 h1 hs1 hf1
        | @some hd hd' hh =>
          simp only [LSt.fresh]
          refine .ok _ _ (h1.fresh2.setG (h1.fresh2.G.set j ?_)) (hs1.trans (Step.fresh2' rfl rfl))
            (hf1.trans (Fr.of_eq rfl rfl))
          exact ⟨ext_sub _ _ _ _ _ (ext_new _ _ _), hh.fl, .some (ext2_sub _ _ _ _ _ _ _ him), ext_new _ _ _,
            hh.lvl, rfl⟩

theorem step_mvG (h : Q ρ t u) (j i : Nat) : StepR ρ t u (Spec.stepSimple t (.mvG j i)) (Spec.stepSimple u (.mvG j i)) := by
  simp only [Spec.stepSimple]
  have hG := h.G.get i
  generalize aget t.G i = x at hG
  generalize aget u.G i = y at hG
  cases hG with
  | none => exact .same h _
  | @some h0 h0' hh =>
    simp only
    have hG := h.G.get j
    generalize aget t.G j = x at hG
    generalize aget u.G j = y at hG
    cases hG with
    | some _ => exact .same h _
    | none =>
      simp only [hh.fl]
      split
      · rcases ensureSig_sim h i with ⟨e1, e2⟩ | ⟨t1, im, u1, im', ρ1, e1, e2, h1, him, hs1, hf1⟩
        · rw [e1, e2]; exact .same h _
        · rw [e1, e2]
          simp only [LSt.fresh]
          refine .ok _ _ (h1.fresh2.setG (h1.fresh2.G.set j ?_)) (hs1.trans (Step.fresh2' rfl rfl))
            (hf1.trans (Fr.of_eq rfl rfl))
          exact ⟨ext_sub _ _ _ _ _ (ext_new _ _ _), rfl, .some (ext2_sub _ _ _ _ _ _ _ him), ext_new _ _ _,
            hh.lvl, rfl⟩
      · simp only [LSt.fresh]
        have hh2 : HandR (ext (ext ρ t.next u.next) (t.next + 1) (u.next + 1)) h0 h0' :=
          hh.mono (ext2_sub _ _ _ _ _)
        refine ite_inval_step (c := h0.fl.isTrackable) (h.fresh2.setG (AR.set (AR.set h.fresh2.G i ?_) j ?_)) hh2.trk
          (Step.fresh2' rfl rfl) (Fr.of_eq rfl rfl)
        · exact ⟨hh2.obj, rfl, .none, hh2.trk, hh2.lvl, hh2.everFwd⟩
        · exact ⟨ext_sub _ _ _ _ _ (ext_new _ _ _), rfl, hh2.impl, ext_new _ _ _, hh.lvl, rfl⟩

/-- the tail of `asgG` / `masgG` (accumulated flavour): share the list of `i` -/
theorem asg_tail {j : Nat} {t1 u1 : LSt} {im im' : Nat}
    {ρ1 : IdRel} (h1 : Q ρ1 t1 u1) (him : ρ1 im im') (hs1 : Step ρ ρ1 t t1 u u1) (hf1 : Fr t t1)
    {a b : Option Nat} (hab : OR ρ1 a b) {D D' : Handle} (hD : HandR ρ1 D D') :
    StepR ρ t u
      (if a = some im then some (t1, "ok") else
        some ((match (generalizing := false) a with
          | some old => gcSig { t1 with G := aset t1.G j D } old
          | none => { t1 with G := aset t1.G j D }), "ok"))
      (if b = some im' then some (u1, "ok") else
        some ((match (generalizing := false) b with
          | some old => gcSig { u1 with G := aset u1.G j D' } old
          | none => { u1 with G := aset u1.G j D' }), "ok")) := by
  have e : (b = some im') ↔ (a = some im) := by
    have := hab.eq_some h1.pb him
    rw [Bool.eq_iff_iff, decide_eq_true_iff, decide_eq_true_iff] at this
    exact this
  by_cases hc : a = some im
  · rw [if_pos hc, if_pos (e.mpr hc)]
    exact .ok _ ρ1 h1 hs1 hf1
  · rw [if_neg hc, if_neg (fun x => hc (e.mp x))]
    have h2 := h1.setG (AR.set h1.G j hD)
    cases hab with
    | none => exact .ok _ ρ1 h2 (hs1.congr rfl rfl rfl rfl) (hf1.trans (Fr.of_eq rfl rfl))
    | some hold =>
      have h3 := gcSig_sim h2 hold
      exact .ok _ ρ1 h3.q (hs1.to h3.nk h3.np) (hf1.trans (h3.fr.pre rfl rfl))

/-- the tail of the move assignment of signal objects -/
theorem masg_tail {t2 u2 : LSt} (h2 : Q ρ t2 u2) (hd : t2.depth = t.depth) (hsg : t2.sigs = t.sigs)
    (hn : t2.next = t.next) (hn' : u2.next = u.next) {a b : Option Nat} (hab : OR ρ a b) {o o' : Nat} (ho : ρ o o')
    (c : Bool) {r : String} :
    StepR ρ t u
      (some (if c = true then Spec.invalidateTrackable (match (generalizing := false) a with | some old => gcSig t2 old | none => t2) o
             else (match (generalizing := false) a with | some old => gcSig t2 old | none => t2), r))
      (some (if c = true then Spec.invalidateTrackable (match (generalizing := false) b with | some old => gcSig u2 old | none => u2) o'
             else (match (generalizing := false) b with | some old => gcSig u2 old | none => u2), r)) := by
  have h3 : Sim0 ρ t u (match (generalizing := false) a with | some old => gcSig t2 old | none => t2)
      (match (generalizing := false) b with | some old => gcSig u2 old | none => u2) := by
    cases hab with
    | none => exact ⟨h2, Fr.of_eq hd hsg, hn, hn'⟩
    | some hold => exact (gcSig_sim h2 hold).pre hd hsg hn hn'
  exact ite_inval_step h3.q ho h3.step h3.fr

theorem step_asgG (h : Q ρ t u) (j i : Nat) : StepR ρ t u (Spec.stepSimple t (.asgG j i)) (Spec.stepSimple u (.asgG j i)) := by
  simp only [Spec.stepSimple]
  have hG := h.G.get j
  generalize aget t.G j = x at hG
  generalize aget u.G j = y at hG
  have hG2 := h.G.get i
  generalize aget t.G i = x2 at hG2
  generalize aget u.G i = y2 at hG2
  cases hG with
  | none => cases hG2 <;> exact .same h _
  | @some d d' hd =>
    cases hG2 with
    | none => exact .same h _
    | @some hi hi' hh =>
      simp only [hd.fl, hh.fl, hd.lvl, hh.lvl]
      split
      · exact .same h _
      · split
        · exact .same h _
        · split
          · exact .same h _
          · rcases ensureSig_sim h i with ⟨e1, e2⟩ | ⟨t1, im, u1, im', ρ1, e1, e2, h1, him, hs1, hf1⟩
            · rw [e1, e2]; exact .same h _
            · rw [e1, e2]
              refine asg_tail h1 him hs1 hf1 (hd.impl.imp hs1.sub) ?_
              have hd1 := hd.mono hs1.sub
              exact ⟨hd1.obj, rfl, .some him, hd1.trk, rfl, hd1.everFwd⟩

theorem step_masgG (h : Q ρ t u) (j i : Nat) :
    StepR ρ t u (Spec.stepSimple t (.masgG j i)) (Spec.stepSimple u (.masgG j i)) := by
  simp only [Spec.stepSimple]
  have hG := h.G.get j
  generalize aget t.G j = x at hG
  generalize aget u.G j = y at hG
  have hG2 := h.G.get i
  generalize aget t.G i = x2 at hG2
  generalize aget u.G i = y2 at hG2
  cases hG with
  | none => cases hG2 <;> exact .same h _
  | @some d d' hd =>
    cases hG2 with
    | none => exact .same h _
    | @some hi hi' hh =>
      simp only [hd.fl, hh.fl, hd.lvl, hh.lvl, h.ownedG_any i, h.ownedG_any j]
      split
      · exact .same h _
      · split
        · exact .same h _
        · split
          · exact .same h _
          split
          · split
            · exact .same h _
            · rcases ensureSig_sim h i with ⟨e1, e2⟩ | ⟨t1, im, u1, im', ρ1, e1, e2, h1, him, hs1, hf1⟩
              · rw [e1, e2]; exact .same h _
              · rw [e1, e2]
                refine asg_tail h1 him hs1 hf1 (hd.impl.imp hs1.sub) ?_
                have hd1 := hd.mono hs1.sub
                exact ⟨hd1.obj, rfl, .some him, hd1.trk, rfl, hd1.everFwd⟩
          · split
            · exact .same h _
            · -- move assignment: `j` takes the list of `i`
              have e : hi'.impl.isSome = hi.impl.isSome := hh.impl.isSome.symm
              rw [e]
              refine masg_tail (t := t) (u := u) (h.setG (AR.set (AR.set h.G j ?_) i ?_)) rfl rfl rfl rfl hd.impl hh.trk _
              · exact ⟨hd.obj, rfl, hh.impl, hd.trk, rfl, hd.everFwd⟩
              · exact ⟨hh.obj, rfl, .none, hh.trk, rfl, hh.everFwd⟩

theorem step_delG (h : Q ρ t u) (i : Nat) : StepR ρ t u (Spec.stepSimple t (.delG i)) (Spec.stepSimple u (.delG i)) := by
  simp only [Spec.stepSimple]
  have hG := h.G.get i
  generalize aget t.G i = x at hG
  generalize aget u.G i = y at hG
  cases hG with
  | none => exact .same h _
  | @some hd hd' hh =>
    simp only [hh.fl, hh.everFwd, h.ownedG_any i]
    split
    · exact .same h _
    · split
      · exact .same h _
      have h1 : Sim0 ρ t u (if hd.fl.isTrackable = true then Spec.invalidateTrackable t hd.trk else t)
          (if hd.fl.isTrackable = true then Spec.invalidateTrackable u hd'.trk else u) := by
        split
        · exact invalidateTrackable_sim h hh.trk
        · exact Sim0.refl h
      generalize (if hd.fl.isTrackable = true then Spec.invalidateTrackable t hd.trk else t) = t1 at h1
      generalize (if hd.fl.isTrackable = true then Spec.invalidateTrackable u hd'.trk else u) = u1 at h1
      have h2 := h1.q.setG (h1.q.G.del i)
      have h2' : Sim0 ρ t u { t1 with G := adel t1.G i } { u1 with G := adel u1.G i } :=
        ⟨h2, h1.fr.trans (Fr.of_eq rfl rfl), h1.nk, h1.np⟩
      have himp := hh.impl
      generalize hd.impl = a at himp
      generalize hd'.impl = b at himp
      cases himp with
      | none => exact .of0 h2' _
      | some him => exact .of0 (h2'.trans (gcSig_sim h2 him)) _

theorem step_conn (h : Q ρ t u) (k g sv : Nat) (first mv : Bool) :
    StepR ρ t u (Spec.stepSimple t (.conn k g sv first mv)) (Spec.stepSimple u (.conn k g sv first mv)) := by
  simp only [Spec.stepSimple]
  have hG := h.G.get g
  generalize aget t.G g = x at hG
  generalize aget u.G g = y at hG
  have hS := h.S.get sv
  generalize aget t.S sv = x2 at hS
  generalize aget u.S sv = y2 at hS
  cases hG with
  | none => cases hS <;> exact .same h _
  | @some hd hd' hh =>
    cases hS with
    | none => exact .same h _
    | @some v v' hv =>
      simp only [hh.fl, hv.isVoid, hv.taint, hh.lvl, hv.incall]
      split
      · exact .same h _
      · split
        · exact .same h _
        · split
          · exact .same h _
          · rcases ensureSig_sim h g with ⟨e1, e2⟩ | ⟨t1, im, u1, im', ρ1, e1, e2, h1, him, hs1, hf1⟩
            · rw [e1, e2]; exact .same h _
            · rw [e1, e2]
              simp only
              have hv1 := hv.mono hs1.sub
              cases mv with
              | false =>
                simp only [Bool.false_eq_true, if_false]
                obtain ⟨ρ2, h2, hcid, hs2, hf2⟩ := insertCell_sim h1 him first hv1.slot.copy
                exact .ok _ ρ2 (h2.setC (h2.C.set k (.some hcid))) ((hs1.trans hs2).congr rfl rfl rfl rfl)
                  ((hf1.trans hf2).trans (Fr.of_eq rfl rfl))
              | true =>
                simp only [if_true]
                have h1' := h1.setS (AR.set h1.S sv (a := { v with slot := v.slot.move.2 })
                  (b := { isVoid := v.isVoid, slot := v'.slot.move.2, incall := v.incall, taint := v.taint })
                  ⟨rfl, hv1.slot.move2, rfl, rfl⟩)
                obtain ⟨ρ2, h2, hcid, hs2, hf2⟩ := insertCell_sim h1' him first hv1.slot.move1
                exact .ok _ ρ2 (h2.setC (h2.C.set k (.some hcid)))
                  ((hs1.trans (hs2.congr rfl rfl rfl rfl)).congr rfl rfl rfl rfl)
                  ((hf1.trans (hf2.pre rfl rfl)).trans (Fr.of_eq rfl rfl))

theorem step_connfn (h : Q ρ t u) (k g : Nat) (spec : FSpec) (first : Bool) :
    StepR ρ t u (Spec.stepSimple t (.connfn k g spec first)) (Spec.stepSimple u (.connfn k g spec first)) := by
  simp only [Spec.stepSimple]
  have hG := h.G.get g
  generalize aget t.G g = x at hG
  generalize aget u.G g = y at hG
  cases hG with
  | none => exact .same h _
  | @some hd hd' hh =>
    simp only [hh.fl, hh.lvl]
    have hm := mkFun_sim h hd.fl.isVoid spec
    rw [specTaint_sim h spec]
    generalize Spec.mkFun t hd.fl.isVoid spec = a at hm
    generalize Spec.mkFun u hd.fl.isVoid spec = b at hm
    cases hm with
    | err e => exact .same h _
    | @ok fn fn' t0 u0 ρ0 hf h0 hs0 hf0 =>
      simp only
      split
      · exact .ok _ ρ0 h0 hs0 hf0
      · rcases ensureSig_sim h0 g with ⟨e1, e2⟩ | ⟨t1, im, u1, im', ρ1, e1, e2, h1, him, hs1, hf1⟩
        · rw [e1, e2]; exact .same h _
        · rw [e1, e2]
          simp only
          have hsl : SlotR ρ1 { blocked := false, rep := some { call := true, fn := some fn } }
              { blocked := false, rep := some { call := true, fn := some fn' } } :=
            ⟨rfl, .some ⟨rfl, .some (hf.mono hs1.sub)⟩⟩
          obtain ⟨ρ2, h2, hcid, hs2, hf2⟩ := insertCell_sim h1 him first hsl
          exact .ok _ ρ2 (h2.setC (h2.C.set k (.some hcid))) (((hs0.trans hs1).trans hs2).congr rfl rfl rfl rfl)
            (((hf0.trans hf1).trans hf2).trans (Fr.of_eq rfl rfl))

/-- the list a signal object refers to, on both sides -/
theorem sig_of_handle (h : Q ρ t u) (g : Nat) :
    (aget t.G g = none ∧ aget u.G g = none) ∨
    (∃ hd hd', aget t.G g = some hd ∧ aget u.G g = some hd' ∧ hd.impl = none ∧ hd'.impl = none) ∨
    (∃ hd hd' im im', aget t.G g = some hd ∧ aget u.G g = some hd' ∧ hd.impl = some im ∧ hd'.impl = some im' ∧
      ρ im im' ∧ aget t.sigs im = none ∧ aget u.sigs im' = none) ∨
    (∃ hd hd' im im' x x', aget t.G g = some hd ∧ aget u.G g = some hd' ∧ hd.impl = some im ∧ hd'.impl = some im' ∧
      ρ im im' ∧ aget t.sigs im = some x ∧ aget u.sigs im' = some x' ∧ SigR ρ x x' ∧ SigInv t.next x) := by
  have hG := h.G.get g
  cases hx : aget t.G g with
  | none => rw [hx] at hG; generalize aget u.G g = y at hG; cases hG; exact Or.inl ⟨rfl, rfl⟩
  | some hd =>
    rw [hx] at hG
    generalize hy : aget u.G g = y at hG
    cases hG with
    | @some _ hd' hh =>
      right
      have himp := hh.impl
      cases hi : hd.impl with
      | none =>
        rw [hi] at himp
        generalize hi' : hd'.impl = b at himp
        cases himp
        exact Or.inl ⟨hd, hd', rfl, rfl, hi, hi'⟩
      | some im =>
        rw [hi] at himp
        generalize hi' : hd'.impl = b at himp
        cases himp with
        | @some _ im' him =>
          right
          have hg := h.sig_get him
          cases hs : aget t.sigs im with
          | none =>
            rw [hs] at hg
            generalize hs' : aget u.sigs im' = z at hg
            cases hg
            exact Or.inl ⟨hd, hd', im, im', rfl, rfl, hi, hi', him, hs, hs'⟩
          | some x =>
            rw [hs] at hg
            generalize hs' : aget u.sigs im' = z at hg
            cases hg with
            | @some _ x' hr =>
              exact Or.inr ⟨hd, hd', im, im', x, x', rfl, rfl, hi, hi', him, hs, hs', hr, (h.sig_inv hs).2⟩

theorem filter_live_idle {n : Nat} {g : LSig} (hv : SigInv n g) (ha : g.active = 0) : g.cells.filter live = g.cells :=
  List.filter_eq_self.mpr (hv.idle ha)

theorem step_clear (h : Q ρ t u) (g : Nat) : StepR ρ t u (Spec.stepSimple t (.clear g)) (Spec.stepSimple u (.clear g)) := by
  simp only [Spec.stepSimple]
  rcases sig_of_handle h g with ⟨e1, e2⟩ | ⟨hd, hd', e1, e2, e3, e4⟩ | ⟨hd, hd', im, im', e1, e2, e3, e4, _, e5, e6⟩ |
    ⟨hd, hd', im, im', x, x', e1, e2, e3, e4, him, e5, e6, hr, hv⟩
  · rw [e1, e2]; exact .same h _
  · rw [e1, e2]; simp only [e3, e4]; exact .same h _
  · rw [e1, e2]; simp only [e3, e4, e5, e6]; exact .same h _
  · rw [e1, e2]; simp only [e3, e4, e5, e6, h.k1, h.k2, h.k1', h.k2']
    exact .of0 (setSig_remove_sim h him e5 e6 false _ _ (fun _ _ _ _ _ => rfl)) _

theorem step_sizeq (h : Q ρ t u) (g : Nat) : StepR ρ t u (Spec.stepSimple t (.sizeq g)) (Spec.stepSimple u (.sizeq g)) := by
  simp only [Spec.stepSimple]
  rcases sig_of_handle h g with ⟨e1, e2⟩ | ⟨hd, hd', e1, e2, e3, e4⟩ | ⟨hd, hd', im, im', e1, e2, e3, e4, _, e5, e6⟩ |
    ⟨hd, hd', im, im', x, x', e1, e2, e3, e4, him, e5, e6, hr, hv⟩
  · rw [e1, e2]; exact .same h _
  · rw [e1, e2]; simp only [e3, e4]; exact .same h _
  · rw [e1, e2]; simp only [e3, e4, e5, e6]; exact .same h _
  · rw [e1, e2]; simp only [e3, e4, e5, e6, hr.active]
    split
    · exact .same h _
    · rename_i ha
      have hc := hr.cells
      rw [filter_live_idle hv (by omega)] at hc
      rw [hc.length]; exact .same h _

theorem step_emptyGq (h : Q ρ t u) (g : Nat) :
    StepR ρ t u (Spec.stepSimple t (.emptyGq g)) (Spec.stepSimple u (.emptyGq g)) := by
  simp only [Spec.stepSimple]
  rcases sig_of_handle h g with ⟨e1, e2⟩ | ⟨hd, hd', e1, e2, e3, e4⟩ | ⟨hd, hd', im, im', e1, e2, e3, e4, _, e5, e6⟩ |
    ⟨hd, hd', im, im', x, x', e1, e2, e3, e4, him, e5, e6, hr, hv⟩
  · rw [e1, e2]; exact .same h _
  · rw [e1, e2]; simp only [e3, e4]; exact .same h _
  · rw [e1, e2]; simp only [e3, e4, e5, e6]; exact .same h _
  · rw [e1, e2]; simp only [e3, e4, e5, e6, hr.active]
    split
    · exact .same h _
    · rename_i ha
      have hc := hr.cells
      rw [filter_live_idle hv (by omega)] at hc
      rw [hc.isEmpty]; exact .same h _

theorem step_blockedGq (h : Q ρ t u) (g : Nat) :
    StepR ρ t u (Spec.stepSimple t (.blockedGq g)) (Spec.stepSimple u (.blockedGq g)) := by
  simp only [Spec.stepSimple]
  rcases sig_of_handle h g with ⟨e1, e2⟩ | ⟨hd, hd', e1, e2, e3, e4⟩ | ⟨hd, hd', im, im', e1, e2, e3, e4, _, e5, e6⟩ |
    ⟨hd, hd', im, im', x, x', e1, e2, e3, e4, him, e5, e6, hr, hv⟩
  · rw [e1, e2]; exact .same h _
  · rw [e1, e2]; simp only [e3, e4]; exact .same h _
  · rw [e1, e2]; simp only [e3, e4, e5, e6]; exact .same h _
  · rw [e1, e2]; simp only [e3, e4, e5, e6, hr.active]
    split
    · exact .same h _
    · rename_i ha
      have hc := hr.cells
      rw [filter_live_idle hv (by omega)] at hc
      rw [hc.all (fun c => c.slot.blocked) (fun c => c.slot.blocked) (fun a b _ _ hab => hab.slot.blocked.symm)]
      exact .same h _

theorem step_blockG (h : Q ρ t u) (g : Nat) (b : Bool) :
    StepR ρ t u (Spec.stepSimple t (.blockG g b)) (Spec.stepSimple u (.blockG g b)) := by
  simp only [Spec.stepSimple]
  rcases sig_of_handle h g with ⟨e1, e2⟩ | ⟨hd, hd', e1, e2, e3, e4⟩ | ⟨hd, hd', im, im', e1, e2, e3, e4, _, e5, e6⟩ |
    ⟨hd, hd', im, im', x, x', e1, e2, e3, e4, him, e5, e6, hr, hv⟩
  · rw [e1, e2]; exact .same h _
  · rw [e1, e2]; simp only [e3, e4]; exact .same h _
  · rw [e1, e2]; simp only [e3, e4, e5, e6]; exact .same h _
  · rw [e1, e2]; simp only [e3, e4, e5, e6]
    refine .of0 (mapCells_sim h him e5 e6 (fun c => { c with slot := { c.slot with blocked := b } })
      (fun c => { c with slot := { c.slot with blocked := b } }) ⟨fun _ => rfl, fun _ => rfl, fun _ => rfl, fun _ => rfl⟩ ?_) _
    intro c c' hcr
    exact ⟨hcr.id, hcr.slot.setBlocked b, hcr.marker, hcr.zombie⟩

end

end Sigc.SpecK
