import Sigc.Lemmas.InvDisc
/-! concrete example states used by the `example`s of the property files -/
namespace Sigc.Inv
open Sigc.Model

/-- a connected, valid cell: `connected()` is true; after `disconnect()` it is false and stays false -/
def exS : St :=
  { G := [(0, { obj := 1, fl := .V, impl := some 3, trk := 2, lvl := 0 })],
    impls := [(3, { cells := [{ id := 4, slot := { rep := some { call := true, fn := some (.leaf 1 []) } },
                                 linked := true }] })],
    C := [(0, some 4), (1, some 4)], next := 5 }

theorem exS_wf : WF exS := by
  refine ⟨by decide, ?_, ?_, ?_, ?_⟩
  · intro i im hi
    simp only [exS, aget] at hi
    split at hi
    · cases hi; decide
    · cases hi
  · intro i j im jm c d hi hj _ _ _
    simp only [exS, aget] at hi hj
    split at hi
    · split at hj
      · rename_i a b; exact a.symm.trans b
      · cases hj
    · cases hi
  · intro i im hi
    simp only [exS, aget] at hi
    split at hi
    · rename_i a; rw [← a]; decide
    · cases hi
  · intro i im c hi hc
    simp only [exS, aget] at hi
    split at hi
    · cases hi
      simp at hc
      subst hc
      decide
    · cases hi

/-- a trackable `t0 ↦ object 7`, a user slot bound to it, and a copy of that slot connected to a signal -/
def exT : St :=
  { T := [(0, 7)],
    S := [(0, { isVoid := true, slot := { rep := some { call := true, fn := some (.leaf 1 [7]) } } })],
    G := [(0, { obj := 1, fl := .V, impl := some 3, trk := 2, lvl := 0 })],
    impls := [(3, { cells := [{ id := 4, slot := { rep := some { call := true, fn := some (.leaf 1 [7]) } },
                                 linked := true }] })],
    C := [(0, some 4)], next := 8 }

theorem exT_wf : WF exT := by
  refine ⟨by decide, ?_, ?_, ?_, ?_⟩
  · intro i im hi
    simp only [exT, aget] at hi
    split at hi
    · cases hi; decide
    · cases hi
  · intro i j im jm c d hi hj _ _ _
    simp only [exT, aget] at hi hj
    split at hi
    · split at hj
      · rename_i a b; exact a.symm.trans b
      · cases hj
    · cases hi
  · intro i im hi
    simp only [exT, aget] at hi
    split at hi
    · rename_i a; rw [← a]; decide
    · cases hi
  · intro i im c hi hc
    simp only [exT, aget] at hi
    split at hi
    · cases hi
      simp at hc
      subst hc
      decide
    · cases hi

end Sigc.Inv
