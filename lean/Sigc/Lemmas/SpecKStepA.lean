import Sigc.Lemmas.SpecKPrim3
/-!
# SpecK — `stepSimple` on related states, part A: trackables and slot variables.
-/
namespace Sigc.SpecK
open Sigc.Model Sigc.Spec

/-- the results of one operation without user code on related states -/
inductive StepR (ρ : IdRel) (t u : LSt) : Option (LSt × String) → Option (LSt × String) → Prop
  | ok {t' u' : LSt} (r : String) (ρ' : IdRel) : Q ρ' t' u' → Step ρ ρ' t t' u u' → Fr t t' →
      StepR ρ t u (some (t', r)) (some (u', r))
  | none : StepR ρ t u none none

theorem StepR.same {ρ : IdRel} {t u : LSt} (h : Q ρ t u) (r : String) : StepR ρ t u (some (t, r)) (some (u, r)) :=
  .ok r ρ h (Step.refl _ _ _) (Fr.refl _)

theorem StepR.of0 {ρ : IdRel} {t u t' u' : LSt} (h : Sim0 ρ t u t' u') (r : String) :
    StepR ρ t u (some (t', r)) (some (u', r)) := .ok r ρ h.q h.step h.fr

/-- an update of components other than the lists and the counters -/
theorem StepR.upd {ρ : IdRel} {t u t' u' : LSt} (h : Q ρ t' u') (r : String) (hd : t'.depth = t.depth)
    (hs : t'.sigs = t.sigs) (hn : t'.next = t.next) (hn' : u'.next = u.next) :
    StepR ρ t u (some (t', r)) (some (u', r)) := .ok r ρ h (Step.of_eq hn hn') (Fr.of_eq hd hs)

theorem Sim0.pre {ρ : IdRel} {t u t1 u1 t' u' : LSt} (h : Sim0 ρ t1 u1 t' u') (hd : t1.depth = t.depth)
    (hs : t1.sigs = t.sigs) (hn : t1.next = t.next) (hn' : u1.next = u.next) : Sim0 ρ t u t' u' :=
  ⟨h.q, (Fr.of_eq hd hs).trans h.fr, h.nk.trans hn, h.np.trans hn'⟩

/-- one allocation on both sides, then an update of other components -/
theorem StepR.fresh1 {ρ : IdRel} {t u t' u' : LSt} (h : Q (ext ρ t.next u.next) t' u') (r : String)
    (hd : t'.depth = t.depth) (hs : t'.sigs = t.sigs) (hn : t'.next = t.next + 1) (hn' : u'.next = u.next + 1) :
    StepR ρ t u (some (t', r)) (some (u', r)) :=
  .ok r _ h ((Step.fresh ρ t u).congr rfl hn rfl hn') (Fr.of_eq hd hs)

theorem Fr.pre {t t1 t2 : LSt} (h : Fr t1 t2) (hd : t1.depth = t.depth) (hs : t1.sigs = t.sigs) : Fr t t2 :=
  (Fr.of_eq hd hs).trans h

theorem Step.to {ρ ρ' : IdRel} {t t1 t' u u1 u' : LSt} (hs : Step ρ ρ' t t1 u u1) (e1 : t'.next = t1.next)
    (e2 : u'.next = u1.next) : Step ρ ρ' t t' u u' := hs.congr rfl e1 rfl e2

theorem Step.fresh' {ρ : IdRel} {t t' u u' : LSt} (h1 : t'.next = t.next + 1) (h2 : u'.next = u.next + 1) :
    Step ρ (ext ρ t.next u.next) t t' u u' := (Step.fresh ρ t u).congr rfl h1 rfl h2

section
variable {ρ : IdRel} {t u : LSt}

theorem Q.setT (h : Q ρ t u) {T T' : List (Nat × Nat)} (hT : AR ρ T T') :
    Q ρ { t with T := T } { u with T := T' } := { h with T := hT }

theorem Q.setS (h : Q ρ t u) {S S' : List (Nat × SlotVar)} (hS : AR (VarR ρ) S S') :
    Q ρ { t with S := S } { u with S := S' } := { h with S := hS }

theorem Q.setG (h : Q ρ t u) {G G' : List (Nat × Handle)} (hG : AR (HandR ρ) G G') :
    Q ρ { t with G := G } { u with G := G' } := { h with G := hG }

theorem Q.setC (h : Q ρ t u) {C C' : List (Nat × Option Nat)} (hC : AR (OR ρ) C C') :
    Q ρ { t with C := C } { u with C := C' } := { h with C := hC }

theorem Q.setK (h : Q ρ t u) {K K' : List (Nat × Option Nat)} (hK : AR (OR ρ) K K') :
    Q ρ { t with K := K } { u with K := K' } := { h with K := hK }

theorem step_newT (h : Q ρ t u) (tt : Nat) : StepR ρ t u (Spec.stepSimple t (.newT tt)) (Spec.stepSimple u (.newT tt)) := by
  simp only [Spec.stepSimple]
  have hT := h.T.get tt
  generalize aget t.T tt = x at hT
  generalize aget u.T tt = y at hT
  cases hT with
  | some _ => exact .same h _
  | none =>
    simp only [LSt.fresh]
    exact .fresh1 (h.fresh.setT (h.fresh.T.set tt (ext_new _ _ _))) _ rfl rfl rfl rfl

theorem step_delT (h : Q ρ t u) (tt : Nat) : StepR ρ t u (Spec.stepSimple t (.delT tt)) (Spec.stepSimple u (.delT tt)) := by
  simp only [Spec.stepSimple]
  have hT := h.T.get tt
  generalize aget t.T tt = x at hT
  generalize aget u.T tt = y at hT
  cases hT with
  | none => exact .same h _
  | some ho =>
    have h1 := h.setT (h.T.del tt)
    exact .of0 ((invalidateTrackable_sim h1 ho).pre (t := t) (u := u) rfl rfl rfl rfl) _

theorem step_notifyT (h : Q ρ t u) (tt : Nat) :
    StepR ρ t u (Spec.stepSimple t (.notifyT tt)) (Spec.stepSimple u (.notifyT tt)) := by
  simp only [Spec.stepSimple]
  have hT := h.T.get tt
  generalize aget t.T tt = x at hT
  generalize aget u.T tt = y at hT
  cases hT with
  | none => exact .same h _
  | some ho => exact .of0 (invalidateTrackable_sim h ho) _

theorem step_cpT (h : Q ρ t u) (j i : Nat) : StepR ρ t u (Spec.stepSimple t (.cpT j i)) (Spec.stepSimple u (.cpT j i)) := by
  simp only [Spec.stepSimple]
  have hT := h.T.get i
  generalize aget t.T i = x at hT
  generalize aget u.T i = y at hT
  cases hT with
  | none => exact .same h _
  | some _ =>
    simp only
    have hT := h.T.get j
    generalize aget t.T j = x at hT
    generalize aget u.T j = y at hT
    cases hT with
    | some _ => exact .same h _
    | none =>
      simp only [LSt.fresh]
      exact .fresh1 (h.fresh.setT (h.fresh.T.set j (ext_new _ _ _))) _ rfl rfl rfl rfl

theorem step_mvT (h : Q ρ t u) (j i : Nat) : StepR ρ t u (Spec.stepSimple t (.mvT j i)) (Spec.stepSimple u (.mvT j i)) := by
  simp only [Spec.stepSimple]
  have hT := h.T.get i
  generalize aget t.T i = x at hT
  generalize aget u.T i = y at hT
  cases hT with
  | none => exact .same h _
  | @some oi oi' hoi =>
    simp only
    have hT := h.T.get j
    generalize aget t.T j = x at hT
    generalize aget u.T j = y at hT
    cases hT with
    | some _ => exact .same h _
    | none =>
      simp only [LSt.fresh]
      have h1 := h.fresh.setT (h.fresh.T.set j (ext_new _ _ _))
      have h2 := invalidateTrackable_sim h1 (ext_sub _ _ _ _ _ hoi)
      exact .ok _ _ h2.q (Step.fresh' (h2.nk.trans rfl) (h2.np.trans rfl))
        ((Fr.of_eq rfl rfl : Fr t { t with next := t.next + 1, T := aset t.T j t.next }).trans h2.fr)

theorem step_asgT (h : Q ρ t u) (j i : Nat) : StepR ρ t u (Spec.stepSimple t (.asgT j i)) (Spec.stepSimple u (.asgT j i)) := by
  simp only [Spec.stepSimple]
  have hT := h.T.get j
  generalize aget t.T j = x at hT
  generalize aget u.T j = y at hT
  have hT2 := h.T.get i
  generalize aget t.T i = x2 at hT2
  generalize aget u.T i = y2 at hT2
  cases hT with
  | none => cases hT2 <;> exact .same h _
  | some hoj =>
    cases hT2 with
    | none => exact .same h _
    | some _ =>
      simp only
      split
      · exact .same h _
      · exact .of0 (invalidateTrackable_sim h hoj) _

theorem step_masgT (h : Q ρ t u) (j i : Nat) :
    StepR ρ t u (Spec.stepSimple t (.masgT j i)) (Spec.stepSimple u (.masgT j i)) := by
  simp only [Spec.stepSimple]
  have hT := h.T.get j
  generalize aget t.T j = x at hT
  generalize aget u.T j = y at hT
  have hT2 := h.T.get i
  generalize aget t.T i = x2 at hT2
  generalize aget u.T i = y2 at hT2
  cases hT with
  | none => cases hT2 <;> exact .same h _
  | some hoj =>
    cases hT2 with
    | none => exact .same h _
    | some hoi =>
      simp only
      split
      · exact .same h _
      · have h1 := invalidateTrackable_sim h hoj
        exact .of0 (h1.trans (invalidateTrackable_sim h1.q hoi)) _

/-! ## slot variables -/

theorem step_mkS (h : Q ρ t u) (i : Nat) (ty : String) (spec : FSpec) :
    StepR ρ t u (Spec.stepSimple t (.mkS i ty spec)) (Spec.stepSimple u (.mkS i ty spec)) := by
  simp only [Spec.stepSimple]
  have hS := h.S.get i
  generalize aget t.S i = x at hS
  generalize aget u.S i = y at hS
  cases hS with
  | some _ => exact .same h _
  | none =>
    simp only
    split
    · exact .same h _
    · have hm := mkFun_sim h (decide (ty = "V")) spec
      rw [specTaint_sim h spec]
      generalize Spec.mkFun t (decide (ty = "V")) spec = a at hm
      generalize Spec.mkFun u (decide (ty = "V")) spec = b at hm
      cases hm with
      | err e => exact .same h _
      | @ok fn fn' t1 u1 ρ' hf hq hs hfr =>
        simp only
        refine .ok _ ρ' (hq.setS (hq.S.set i ?_)) (hs.congr rfl rfl rfl rfl) (hfr.trans (Fr.of_eq rfl rfl))
        exact ⟨rfl, ⟨rfl, .some ⟨rfl, .some hf⟩⟩, rfl, rfl⟩

theorem step_mkS0 (h : Q ρ t u) (i : Nat) (ty : String) :
    StepR ρ t u (Spec.stepSimple t (.mkS0 i ty)) (Spec.stepSimple u (.mkS0 i ty)) := by
  simp only [Spec.stepSimple]
  have hS := h.S.get i
  generalize aget t.S i = x at hS
  generalize aget u.S i = y at hS
  cases hS with
  | some _ => exact .same h _
  | none =>
    simp only
    split
    · exact .same h _
    · refine .upd (h.setS (h.S.set i ?_)) _ rfl rfl rfl rfl
      exact ⟨rfl, ⟨rfl, .none⟩, rfl, rfl⟩

theorem step_cpS (h : Q ρ t u) (j i : Nat) : StepR ρ t u (Spec.stepSimple t (.cpS j i)) (Spec.stepSimple u (.cpS j i)) := by
  simp only [Spec.stepSimple]
  have hS := h.S.get i
  generalize aget t.S i = x at hS
  generalize aget u.S i = y at hS
  cases hS with
  | none => exact .same h _
  | some hv =>
    simp only
    have hS := h.S.get j
    generalize aget t.S j = x at hS
    generalize aget u.S j = y at hS
    cases hS with
    | some _ => exact .same h _
    | none =>
      refine .upd (h.setS (h.S.set j ?_)) _ rfl rfl rfl rfl
      exact ⟨hv.isVoid, hv.slot.copy, rfl, hv.taint⟩

theorem step_mvS (h : Q ρ t u) (j i : Nat) : StepR ρ t u (Spec.stepSimple t (.mvS j i)) (Spec.stepSimple u (.mvS j i)) := by
  simp only [Spec.stepSimple]
  have hS := h.S.get i
  generalize aget t.S i = x at hS
  generalize aget u.S i = y at hS
  cases hS with
  | none => exact .same h _
  | some hv =>
    simp only
    have hS := h.S.get j
    generalize aget t.S j = x at hS
    generalize aget u.S j = y at hS
    cases hS with
    | some _ => exact .same h _
    | none =>
      simp only [hv.incall]
      split
      · exact .same h _
      · refine .upd (h.setS (AR.set (AR.set h.S i ?_) j ?_)) _ rfl rfl rfl rfl
        · exact ⟨hv.isVoid, hv.slot.move2, rfl, hv.taint⟩
        · exact ⟨hv.isVoid, hv.slot.move1, rfl, hv.taint⟩

theorem step_asgS (h : Q ρ t u) (j i : Nat) : StepR ρ t u (Spec.stepSimple t (.asgS j i)) (Spec.stepSimple u (.asgS j i)) := by
  simp only [Spec.stepSimple]
  have hS := h.S.get j
  generalize aget t.S j = x at hS
  generalize aget u.S j = y at hS
  have hS2 := h.S.get i
  generalize aget t.S i = x2 at hS2
  generalize aget u.S i = y2 at hS2
  cases hS with
  | none => cases hS2 <;> exact .same h _
  | @some d d' hd =>
    cases hS2 with
    | none => exact .same h _
    | @some v v' hv =>
      simp only [hd.isVoid, hv.isVoid, hd.incall, hd.taint, hv.taint]
      split
      · exact .same h _
      · split
        · exact .same h _
        · refine .upd (h.setS (h.S.set j ?_)) _ rfl rfl rfl rfl
          refine ⟨rfl, ?_, rfl, rfl⟩
          simp only [← hd.slot.rep.isNone, ← hv.slot.rep.isNone, hv.slot.empty, hv.slot.blocked]
          split
          · exact ⟨rfl, hd.slot.rep⟩
          · split
            · exact ⟨hd.slot.blocked, .none⟩
            · exact ⟨rfl, hv.slot.copy.rep⟩

theorem step_masgS (h : Q ρ t u) (j i : Nat) :
    StepR ρ t u (Spec.stepSimple t (.masgS j i)) (Spec.stepSimple u (.masgS j i)) := by
  simp only [Spec.stepSimple]
  have hS := h.S.get j
  generalize aget t.S j = x at hS
  generalize aget u.S j = y at hS
  have hS2 := h.S.get i
  generalize aget t.S i = x2 at hS2
  generalize aget u.S i = y2 at hS2
  cases hS with
  | none => cases hS2 <;> exact .same h _
  | @some d d' hd =>
    cases hS2 with
    | none => exact .same h _
    | @some v v' hv =>
      simp only [hd.isVoid, hv.isVoid, hd.incall, hv.incall, hd.taint, hv.taint,
        ← hd.slot.rep.isNone, ← hv.slot.rep.isNone, hv.slot.empty, hv.slot.blocked]
      split
      · exact .same h _
      · split
        · exact .same h _
        · split
          · refine .upd (h.setS (h.S.set j ?_)) _ rfl rfl rfl rfl
            exact ⟨rfl, ⟨rfl, hd.slot.rep⟩, rfl, rfl⟩
          · split
            · refine .upd (h.setS (h.S.set j ?_)) _ rfl rfl rfl rfl
              exact ⟨rfl, ⟨hd.slot.blocked, .none⟩, rfl, rfl⟩
            · refine .upd (h.setS (AR.set (AR.set h.S i ?_) j ?_)) _ rfl rfl rfl rfl
              · exact ⟨rfl, ⟨rfl, .none⟩, rfl, rfl⟩
              · exact ⟨rfl, hv.slot, rfl, rfl⟩

theorem step_setS (h : Q ρ t u) (i : Nat) (spec : FSpec) :
    StepR ρ t u (Spec.stepSimple t (.setS i spec)) (Spec.stepSimple u (.setS i spec)) := by
  simp only [Spec.stepSimple]
  have hS := h.S.get i
  generalize aget t.S i = x at hS
  generalize aget u.S i = y at hS
  cases hS with
  | none => exact .same h _
  | @some d d' hd =>
    simp only [hd.incall, hd.isVoid, hd.taint]
    split
    · exact .same h _
    · have hm := mkFun_sim h d.isVoid spec
      rw [specTaint_sim h spec]
      generalize Spec.mkFun t d.isVoid spec = a at hm
      generalize Spec.mkFun u d.isVoid spec = b at hm
      cases hm with
      | err e => exact .same h _
      | @ok fn fn' t1 u1 ρ' hf hq hs hfr =>
        simp only
        refine .ok _ ρ' (hq.setS (hq.S.set i ?_)) (hs.congr rfl rfl rfl rfl) (hfr.trans (Fr.of_eq rfl rfl))
        exact ⟨rfl, ⟨rfl, .some ⟨rfl, .some hf⟩⟩, rfl, rfl⟩

theorem step_delS (h : Q ρ t u) (i : Nat) : StepR ρ t u (Spec.stepSimple t (.delS i)) (Spec.stepSimple u (.delS i)) := by
  simp only [Spec.stepSimple]
  have hS := h.S.get i
  generalize aget t.S i = x at hS
  generalize aget u.S i = y at hS
  cases hS with
  | none => exact .same h _
  | some hv =>
    simp only [hv.incall]
    split
    · exact .same h _
    · exact .upd (h.setS (h.S.del i)) _ rfl rfl rfl rfl

theorem step_discS (h : Q ρ t u) (i : Nat) : StepR ρ t u (Spec.stepSimple t (.discS i)) (Spec.stepSimple u (.discS i)) := by
  simp only [Spec.stepSimple]
  have hS := h.S.get i
  generalize aget t.S i = x at hS
  generalize aget u.S i = y at hS
  cases hS with
  | none => exact .same h _
  | some hv =>
    refine .upd (h.setS (h.S.set i ?_)) _ rfl rfl rfl rfl
    exact ⟨hv.isVoid, hv.slot.disconnectRep, hv.incall, hv.taint⟩

theorem step_blockS (h : Q ρ t u) (i : Nat) (b : Bool) :
    StepR ρ t u (Spec.stepSimple t (.blockS i b)) (Spec.stepSimple u (.blockS i b)) := by
  simp only [Spec.stepSimple]
  have hS := h.S.get i
  generalize aget t.S i = x at hS
  generalize aget u.S i = y at hS
  cases hS with
  | none => exact .same h _
  | some hv =>
    simp only [hv.slot.blocked]
    refine .upd (h.setS (h.S.set i ?_)) _ rfl rfl rfl rfl
    exact ⟨hv.isVoid, hv.slot.setBlocked b, hv.incall, hv.taint⟩

theorem step_blockedSq (h : Q ρ t u) (i : Nat) :
    StepR ρ t u (Spec.stepSimple t (.blockedSq i)) (Spec.stepSimple u (.blockedSq i)) := by
  simp only [Spec.stepSimple]
  have hS := h.S.get i
  generalize aget t.S i = x at hS
  generalize aget u.S i = y at hS
  cases hS with
  | none => exact .same h _
  | some hv => simp only [hv.slot.blocked]; exact .same h _

theorem step_emptySq (h : Q ρ t u) (i : Nat) :
    StepR ρ t u (Spec.stepSimple t (.emptySq i)) (Spec.stepSimple u (.emptySq i)) := by
  simp only [Spec.stepSimple]
  have hS := h.S.get i
  generalize aget t.S i = x at hS
  generalize aget u.S i = y at hS
  cases hS with
  | none => exact .same h _
  | some hv => simp only [hv.slot.empty]; exact .same h _

theorem step_boolSq (h : Q ρ t u) (i : Nat) :
    StepR ρ t u (Spec.stepSimple t (.boolSq i)) (Spec.stepSimple u (.boolSq i)) := by
  simp only [Spec.stepSimple]
  have hS := h.S.get i
  generalize aget t.S i = x at hS
  generalize aget u.S i = y at hS
  cases hS with
  | none => exact .same h _
  | some hv => simp only [hv.slot.repIsSome]; exact .same h _

end

end Sigc.SpecK
