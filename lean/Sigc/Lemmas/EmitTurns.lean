import Sigc.Lemmas.EmitMutual
/-!
# Emit work package — which cells an emission offers a turn: the instrumented loop `emitLoopT`
(= `emitLoop` plus the ghost list of visited cell ids) visits exactly the snapshot, in order, each once.
-/
namespace Sigc.Emit
open Sigc.Model

/-- `emitLoop` with a ghost result: the ids of the cells that were offered a turn, in order -/
def emitLoopT : Nat → Prog → St → Nat → Nat → Nat → Nat → Nat → Option ((St × Outcome × Nat) × List Nat)
  | 0, _, _, _, _, _, _, _ => none
  | f+1, P, s, i, cur, m, arg, r =>
    if cur = m then some ((s, .ok, r), []) else
    match aget s.impls i with
    | none => some ((s.fail "loop: impl destroyed", .ok, r), [])
    | some im =>
      match im.cells.find? (·.id = cur) with
      | none => some ((s.fail "loop: iterator invalidated", .ok, r), [])
      | some c =>
        let step : Option (St × Outcome × Nat) :=
          match c.slot.rep with
          | some { call := true, fn := some fn } =>
            if c.slot.blocked then some (s, .ok, r) else invokeFun f P s fn arg
          | _ => some (s, .ok, r)
        match step with
        | none => none
        | some (s, .exc, v) => some ((s, .exc, v), [cur])
        | some (s, .ok, v) =>
          match aget s.impls i with
          | none => some ((s.fail "loop: impl destroyed", .ok, v), [cur])
          | some im2 =>
            match succId im2.cells cur with
            | none => some ((s.fail "loop: iterator invalidated", .ok, v), [cur])
            | some nxt => (emitLoopT f P s i nxt m arg v).map (fun p => (p.1, cur :: p.2))

/-- erasing the ghost list gives back `emitLoop` -/
theorem emitLoopT_erase (f : Nat) (P : Prog) (s : St) (i cur m arg r : Nat) :
    (emitLoopT f P s i cur m arg r).map (·.1) = emitLoop f P s i cur m arg r := by
  induction f generalizing s cur r with
  | zero => simp [emitLoopT, emitLoop]
  | succ f ih =>
    -- the continuation after the cell's step, for any step result
    have cont : ∀ (st : Option (St × Outcome × Nat)),
        (match st with
          | none => none
          | some (s, .exc, v) => some ((s, Outcome.exc, v), [cur])
          | some (s, .ok, v) =>
            match aget s.impls i with
            | none => some ((s.fail "loop: impl destroyed", Outcome.ok, v), [cur])
            | some im2 =>
              match succId im2.cells cur with
              | none => some ((s.fail "loop: iterator invalidated", Outcome.ok, v), [cur])
              | some nxt => (emitLoopT f P s i nxt m arg v).map
                  (fun (p : (St × Outcome × Nat) × List Nat) => (p.1, cur :: p.2)) :
            Option ((St × Outcome × Nat) × List Nat)).map (fun p => p.1)
        = (match st with
          | none => none
          | some (s, .exc, v) => some (s, Outcome.exc, v)
          | some (s, .ok, v) =>
            match aget s.impls i with
            | none => some (s.fail "loop: impl destroyed", Outcome.ok, v)
            | some im2 =>
              match succId im2.cells cur with
              | none => some (s.fail "loop: iterator invalidated", Outcome.ok, v)
              | some nxt => emitLoop f P s i nxt m arg v) := by
      intro st
      cases st with
      | none => rfl
      | some q =>
        obtain ⟨s1, o1, v1⟩ := q
        cases o1 with
        | exc => rfl
        | ok =>
          simp only
          cases aget s1.impls i with
          | none => rfl
          | some im2 =>
            simp only
            cases succId im2.cells cur with
            | none => rfl
            | some nxt =>
              simp only
              rw [← ih]; simp [Option.map_map, Function.comp_def]
    rw [emitLoopT, emitLoop]
    by_cases hcm : cur = m
    · simp [hcm]
    · simp only [hcm, if_false]
      cases aget s.impls i with
      | none => rfl
      | some im =>
        simp only
        cases im.cells.find? (·.id = cur) with
        | none => rfl
        | some c =>
          simp only
          cases hrep : c.slot.rep with
          | none => exact cont (some (s, .ok, r))
          | some rp =>
            obtain ⟨call, fn⟩ := rp
            cases call with
            | false => exact cont (some (s, .ok, r))
            | true =>
              cases fn with
              | none => exact cont (some (s, .ok, r))
              | some fn =>
                simp only
                cases c.slot.blocked with
                | true => exact cont (some (s, .ok, r))
                | false => exact cont (invokeFun f P s fn arg)

/-- the exact successor inside a block -/
theorem succ_exact {cs : List Cell} (hn : (cs.map (·.id)).Nodup) {pre d rest post : List Nat} {k n : Nat}
    (hL : cs.map (·.id) = pre ++ (d ++ k :: n :: rest) ++ post) : succId cs k = some n := by
  have hL' : cs.map (·.id) = (pre ++ d) ++ k :: n :: (rest ++ post) := by rw [hL]; simp
  apply succId_spec cs _ _ k n hL'
  intro hin
  rw [hL'] at hn
  exact (List.nodup_append.mp hn).2.2 k hin k (by simp) rfl

/-- the loop invariant: the block of the emission is `done ++ todo ++ [m]` and `cur` is the head of
    `todo ++ [m]`; then the visited cells are exactly `todo` (or a non-empty prefix of it when a slot
    throws) -/
theorem emitLoopT_turns (f : Nat) : ∀ (P : Prog) (s : St) (i cur m arg r : Nat) (B : List (Nat × Bool))
    (done todo tl : List Nat) (res : St × Outcome × Nat) (vis : List Nat),
    Inv s → InBlk s i B → B.map (·.1) = done ++ todo ++ [m] → todo ++ [m] = cur :: tl →
    emitLoopT f P s i cur m arg r = some (res, vis) →
    (res.2.1 = .ok → vis = todo) ∧ (res.2.1 = .exc → vis ≠ [] ∧ vis <+: todo) := by
  induction f with
  | zero => intro P s i cur m arg r B done todo tl res vis _ _ _ _ h; simp [emitLoopT] at h
  | succ f ih =>
    intro P s i cur m arg r B done todo tl res vis hs hb hB hcur h
    rw [emitLoopT] at h
    -- ids of the block are pairwise distinct
    obtain ⟨im, him, hx, pre, post, hids⟩ := hb.ids
    have hnd := (hs.ok i im him).nodup
    have hBnd : (done ++ todo ++ [m]).Nodup := by
      have : (cids im).Nodup := hnd
      rw [hids, hB] at this
      exact (List.nodup_append.mp (List.nodup_append.mp this).1).2.1
    cases todo with
    | nil =>
      simp at hcur
      obtain ⟨rfl, _⟩ := hcur
      simp at h
      obtain ⟨rfl, rfl⟩ := h
      simp
    | cons t todo' =>
      simp only [List.cons_append, List.cons.injEq] at hcur
      obtain ⟨rfl, htl⟩ := hcur
      have hcm : t ≠ m := by
        intro e; subst e
        have := (List.nodup_append.mp hBnd).2.2 t (by simp) t (by simp)
        exact this rfl
      simp only [hcm, if_false] at h
      have hmemB : t ∈ B.map (·.1) := by rw [hB]; simp
      obtain ⟨im', c, him', hfind⟩ := hb.find hmemB
      rw [him'] at h
      simp only [hfind] at h
      split at h
      · contradiction
      · rename_i s1 v1 hstep
        simp at h; obtain ⟨rfl, rfl⟩ := h
        simp
      · rename_i s1 v1 hstep
        have g1 := cell_step_ok f (all_ok f).invoke hs him' (find_mem hfind).1 arg r hstep
        have hb1 := hb.frame g1.frame
        obtain ⟨im1, him1, _, pre1, post1, hids1⟩ := hb1.ids
        have hnd1 := (g1.inv.ok i im1 him1).nodup
        obtain ⟨n, tl', hn⟩ : ∃ n tl', todo' ++ [m] = n :: tl' := by
          cases todo' with
          | nil => exact ⟨m, [], rfl⟩
          | cons x t' => exact ⟨x, t' ++ [m], rfl⟩
        have hsucc : succId im1.cells t = some n := by
          apply succ_exact (cs := im1.cells) hnd1 (pre := pre1) (d := done) (rest := tl') (post := post1)
          show cids im1 = _
          rw [hids1, hB]
          simp [← hn]
        rw [him1] at h
        simp only [hsucc] at h
        cases hrec : emitLoopT f P s1 i n m arg v1 with
        | none => rw [hrec] at h; simp at h
        | some p =>
          rw [hrec] at h
          simp at h
          obtain ⟨rfl, rfl⟩ := h
          have := ih P s1 i n m arg v1 B (done ++ [t]) todo' tl' p.1 p.2 g1.inv hb1
            (by rw [hB]; simp) hn (by rw [hrec])
          constructor
          · intro ho; rw [this.1 ho]
          · intro ho
            obtain ⟨_, hp⟩ := this.2 ho
            refine ⟨by simp, ?_⟩
            obtain ⟨z, hz⟩ := hp
            exact ⟨z, by rw [← hz]; simp⟩


/-! ## the state in which `emitImpl` starts its loop -/

/-- `signal_impl_holder` + `temp_slot_list`: the state in which the loop of `emitImpl` starts -/
def emitStart (s : St) (i : Nat) (im : Impl) : St :=
  setImpl { s with next := s.next + 1 } i
    { im with exec := im.exec + 1, holders := im.holders + 1,
              cells := im.cells ++ [{ id := s.next, slot := {}, linked := false }] }

/-- `slots.begin()` captured before the loop -/
def emitFirst (s : St) (im : Impl) : Nat :=
  match im.cells with
  | [] => s.next
  | c :: _ => c.id

theorem emitStart_inv {s : St} (hs : Inv s) {i : Nat} {im : Impl} (hi : aget s.impls i = some im) :
    Inv (emitStart s i im) ∧ InBlk (emitStart s i im) i (skel im ++ [(s.next, true)]) := by
  have hok := hs.ok i im hi
  have hfresh : ∀ j jm, aget s.impls j = some jm → s.next ∉ cids jm := by
    intro j jm hj hk; have := (hs.lt j jm hj).2 _ hk; omega
  constructor
  · have h0 : Inv { s with next := s.next + 1 } := hs.congr rfl rfl rfl rfl (by simp)
    unfold emitStart
    apply h0.setImpl (i := i) (im := im) hi
    · refine ⟨?_, by have := hok.eh; simp at this ⊢; omega, ?_, fun e => by simp at e, ?_, ?_⟩
      · simp only [cids, List.map_append, List.map_cons, List.map_nil]
        rw [List.nodup_append]
        refine ⟨hok.nodup, by simp, ?_⟩
        intro a ha b hb; simp at hb; subst hb; intro e; subst e; exact hfresh i im hi ha
      · have := hok.mkr
        simp only [markers, List.countP_append] at this ⊢
        simp; omega
      · intro c hc hl
        simp at hc
        rcases hc with hc | hc
        · exact hok.l c hc hl
        · subst hc; rfl
      · intro hd c hc hn
        simp at hc
        rcases hc with hc | hc
        · exact hok.d hd c hc hn
        · subst hc; simp at hn
    · intro k hk
      simp only [cids, List.map_append, List.map_cons, List.map_nil, List.mem_append, List.mem_singleton] at hk
      rcases hk with hk | hk
      · left; exact hk
      · right; subst hk; exact ⟨by simp, hfresh⟩
    · intro c hc
      simp at hc
      rcases hc with hc | hc
      · exact hs.fwdC i im hi c hc
      · subst hc; exact SlotOK.none _
  · refine ⟨{ im with exec := im.exec + 1, holders := im.holders + 1, cells := im.cells ++ [{ id := s.next, slot := {}, linked := false }] },
      by simp [emitStart, aget_setImpl], by simp, [], [], ?_⟩
    simp [skel]

/-- **turns = snapshot**: the loop of an emission started on impl `i` (cells `im.cells`) offers a turn
    to exactly the cells present at the start, in order, each once — whatever the invoked slots do;
    when a slot throws, to a non-empty prefix of them -/
theorem emitLoopT_snapshot (f : Nat) (P : Prog) (s : St) (i arg : Nat) (im : Impl) (hs : Inv s)
    (hi : aget s.impls i = some im) (res : St × Outcome × Nat) (vis : List Nat)
    (h : emitLoopT f P (emitStart s i im) i (emitFirst s im) s.next arg 0 = some (res, vis)) :
    (res.2.1 = .ok → vis = cids im) ∧ (res.2.1 = .exc → vis ≠ [] ∧ vis <+: cids im) := by
  obtain ⟨h1, hb1⟩ := emitStart_inv hs hi
  have hB : (skel im ++ [(s.next, true)]).map (·.1) = [] ++ cids im ++ [s.next] := by
    simp [cids_eq_skel]
  have hcur : ∃ tl, cids im ++ [s.next] = emitFirst s im :: tl := by
    unfold emitFirst cids
    cases im.cells with
    | nil => exact ⟨[], rfl⟩
    | cons c t => exact ⟨t.map (·.id) ++ [s.next], rfl⟩
  obtain ⟨tl, hcur⟩ := hcur
  exact emitLoopT_turns f P _ i _ s.next arg 0 _ [] (cids im) tl res vis h1 hb1 hB hcur h

/-- `emitImpl` of a non-accumulating flavour on a non-empty list runs its loop from `emitStart`;
    outcome and value of the loop are passed through the epilogue unchanged -/
theorem emitImpl_loop (f : Nat) (P : Prog) (s : St) (fl : Flavour) (i arg : Nat) (strat : Strat) (im : Impl)
    (hi : aget s.impls i = some im) (hacc : fl.isAcc = false) (s' : St) (o : Outcome) (v : Nat)
    (h : emitImpl (f+1) P s fl (some i) arg strat = some (s', o, v)) :
    (im.cells = [] ∧ s' = s ∧ o = .ok ∧ v = 0) ∨
    ∃ s2, emitLoop f P (emitStart s i im) i (emitFirst s im) s.next arg 0 = some (s2, o, v) := by
  rw [emitImpl] at h
  rw [hi] at h
  simp only [hacc] at h
  split at h
  · rename_i hc
    left
    simp at h hc
    obtain ⟨rfl, rfl, rfl⟩ := h
    exact ⟨hc, rfl, rfl, rfl⟩
  · right
    rw [show s.fresh = (s.next, { s with next := s.next + 1 }) from rfl] at h
    simp only at h
    split at h
    · contradiction
    · rename_i s2 o2 v2 hr
      refine ⟨s2, ?_⟩
      have : o2 = o ∧ v2 = v := by
        split at h
        · simp at h; exact ⟨h.2.1, h.2.2⟩
        · simp at h; exact ⟨h.2.1, h.2.2⟩
      obtain ⟨rfl, rfl⟩ := this
      simp only [Bool.false_eq_true, if_false] at hr
      exact hr

end Sigc.Emit
