import Sigc.Lemmas.RefineSimDefs
/-!
# Refine work package — simulation of the iterator functions of the mutual block (`deref`, `accLoop`,
`revLoop`, `walkLoop`, `runStrat`): step lemmas (hypotheses at fuel `f`, conclusion at fuel `f+1`).

`deref` is simulated for positions inside the snapshot only (`DerefS'`): every caller dereferences
only there (the end marker is excluded by the guards of the loops).
-/
namespace Sigc.Refine
open Sigc.Model

/-! ## positions -/

theorem PosR.mem {snap : List Nat} {m : Nat} {itm : IterBuf} {its : Spec.It} (h : PosR snap m itm its) :
    itm.pos ∈ snap ++ [m] := List.mem_of_getElem? h.pos

theorem PosR.memB {snap : List Nat} {m : Nat} {itm : IterBuf} {its : Spec.It} (h : PosR snap m itm its)
    {B : List (Nat × Bool)} (hB : B.map (·.1) = snap ++ [m]) : itm.pos ∈ B.map (·.1) := by
  rw [hB]; exact h.mem

/-- the ids of the block are pairwise distinct -/
theorem blk_nodup {s : St} {i : Nat} {B : List (Nat × Bool)} {snap : List Nat} {m : Nat} (hs : Emit.Inv s)
    (hb : Emit.InBlk s i B) (hB : B.map (·.1) = snap ++ [m]) : (snap ++ [m]).Nodup := by
  obtain ⟨_, _, _, _, _, _, hnd⟩ := blk_ids hs hb
  rw [hB] at hnd
  exact hnd

/-- at the first cell ↔ at index 0 -/
theorem PosR.at_first {snap : List Nat} {m first : Nat} {itm : IterBuf} {its : Spec.It} (h : PosR snap m itm its)
    (hnd : (snap ++ [m]).Nodup) (hf : (snap ++ [m])[0]? = some first) : itm.pos = first ↔ its.pos = 0 := by
  constructor
  · intro e
    have h0 : 0 < (snap ++ [m]).length := by simp
    have := (List.getElem?_inj (i := 0) (j := its.pos) h0 hnd).mp (by rw [hf, h.pos, e])
    exact this.symm
  · intro e
    have hp := h.pos
    rw [e, hf] at hp
    simp at hp
    exact hp.symm

/-- `++it` inside the snapshot -/
theorem PosR.succ {s : St} {i : Nat} {B : List (Nat × Bool)} {snap : List Nat} {m : Nat} {itm : IterBuf}
    {its : Spec.It} (hs : Emit.Inv s) (hb : Emit.InBlk s i B) (hB : B.map (·.1) = snap ++ [m])
    (hp : PosR snap m itm its) (hlt : its.pos < snap.length) :
    ∃ im nxt, aget s.impls i = some im ∧ succId im.cells itm.pos = some nxt ∧
      PosR snap m { itm with pos := nxt, invoked := false } { its with pos := its.pos + 1, invoked := false } := by
  obtain ⟨d, r, e, hl⟩ := getElem?_split hp.pos
  cases r with
  | nil =>
    exfalso
    have := congrArg List.length e
    simp at this
    omega
  | cons n r' =>
    obtain ⟨im, him, hsucc⟩ := blk_succ hs hb (hB.trans e)
    refine ⟨im, n, him, hsucc, ?_, rfl, hp.buf⟩
    show (snap ++ [m])[its.pos + 1]? = some n
    rw [e, ← hl]
    exact getElem?_succ_of_split

/-- `--it` not at the beginning -/
theorem PosR.pred {s : St} {i : Nat} {B : List (Nat × Bool)} {snap : List Nat} {m : Nat} {itm : IterBuf}
    {its : Spec.It} (hs : Emit.Inv s) (hb : Emit.InBlk s i B) (hB : B.map (·.1) = snap ++ [m])
    (hp : PosR snap m itm its) (hne : its.pos ≠ 0) :
    ∃ im prv, aget s.impls i = some im ∧ predId im.cells itm.pos = some prv ∧
      PosR snap m { itm with pos := prv, invoked := false } { its with pos := its.pos - 1, invoked := false } := by
  have hle := hp.le
  have hlen : its.pos - 1 < (snap ++ [m]).length := by simp; omega
  obtain ⟨d, r, e, hl⟩ := getElem?_split (List.getElem?_eq_getElem hlen)
  generalize (snap ++ [m])[its.pos - 1] = p at e
  cases r with
  | nil =>
    exfalso
    have := congrArg List.length e
    simp at this
    omega
  | cons k r' =>
    have hk : (snap ++ [m])[its.pos]? = some k := by
      have : its.pos = d.length + 1 := by omega
      rw [this, e]
      exact getElem?_succ_of_split
    have ek : k = itm.pos := by
      have := hp.pos
      rw [hk] at this
      simpa using this
    subst ek
    obtain ⟨im, him, hpred⟩ := blk_pred hs hb (hB.trans e)
    refine ⟨im, p, him, hpred, ?_, rfl, hp.buf⟩
    show (snap ++ [m])[its.pos - 1]? = some p
    rw [e, ← hl]
    exact getElem?_of_split

/-! ## `deref` -/

/-- `DerefS` for positions inside the snapshot (the end marker is never dereferenced) -/
def DerefS' (f : Nat) : Prop := ∀ P s t i itm its arg snap m (B : List (Nat × Bool)) s' o itm', Emit.Inv s → R s t →
  Emit.InBlk s i B → B.map (·.1) = snap ++ [m] → PosR snap m itm its → its.pos < snap.length →
  Model.deref f P s i itm arg = some (s', o, itm') →
  ∀ g, f ≤ g → ∃ t' its', Spec.deref g P t i snap its arg = some (t', o, its') ∧ R s' t' ∧ PosR snap m itm' its' ∧
    its'.pos = its.pos

theorem DerefS.inside {f : Nat} (h : DerefS f) : DerefS' f :=
  fun P s t i itm its arg snap m B s' o itm' hs hR hb hB hp _ hd => h P s t i itm its arg snap m B s' o itm' hs hR hb hB hp hd

theorem deref_sim0 : DerefS 0 := by
  intro P s t i itm its arg snap m B s' o itm' _ _ _ _ _ h
  simp [Model.deref] at h

theorem deref_sim0' : DerefS' 0 := by
  intro P s t i itm its arg snap m B s' o itm' _ _ _ _ _ _ h
  simp [Model.deref] at h

theorem deref_sim' (f : Nat) (hi : InvokeS f) : DerefS' (f+1) := by
  intro P s t i itm its arg snap m B s' o itm' hs hR hb hB hp hlt h g hg
  obtain ⟨g', rfl⟩ : ∃ g', g = g'+1 := ⟨g-1, by omega⟩
  rw [StepIter.deref_cases] at h
  rw [StepIter.spec_deref_cases]
  obtain ⟨im, c, him, hfind⟩ := hb.find (hp.memB hB)
  rw [him] at h
  simp only [hfind] at h
  rw [hp.in_snap hlt]
  simp only [callable_sim hs hR, hp.invoked]
  cases hc : StepIter.callableAt s i itm.pos with
  | none =>
    simp only [hc] at h
    simp at h
    obtain ⟨rfl, rfl, rfl⟩ := h
    exact ⟨t, its, rfl, hR, hp, rfl⟩
  | some fn =>
    simp only [hc] at h
    cases hinv : itm.invoked with
    | true =>
      simp only [hinv] at h
      simp at h
      obtain ⟨rfl, rfl, rfl⟩ := h
      exact ⟨t, its, by simp, hR, hp, rfl⟩
    | false =>
      simp only [hinv] at h
      simp only [Bool.false_eq_true, if_false] at h ⊢
      obtain ⟨im', c', him', hc', hrep, _⟩ := StepIter.callableAt_eq_some _ _ _ _ hc
      have hfn : Emit.FunOK s.G fn := hs.fwdC i im' him' c' (Emit.find_mem hc').1 _ fn hrep rfl
      split at h
      · contradiction
      · rename_i s1 v1 hinvk
        simp at h; obtain ⟨rfl, rfl, rfl⟩ := h
        obtain ⟨t1, ht1, hR1⟩ := hi P s t fn arg s1 .exc v1 hs hfn hR hinvk g' (by omega)
        simp only [ht1]
        exact ⟨t1, its, rfl, hR1, hp, rfl⟩
      · rename_i s1 v1 hinvk
        simp at h; obtain ⟨rfl, rfl, rfl⟩ := h
        obtain ⟨t1, ht1, hR1⟩ := hi P s t fn arg s1 .ok v1 hs hfn hR hinvk g' (by omega)
        simp only [ht1]
        exact ⟨t1, _, rfl, hR1, ⟨hp.pos, rfl, rfl⟩, rfl⟩

/-- the state after a simulated `deref`: invariant and block are kept -/
theorem deref_blk {f : Nat} {P : Prog} {s s1 : St} {i arg : Nat} {itm it1 : IterBuf} {o : Outcome}
    {B : List (Nat × Bool)} {snap : List Nat} {m : Nat} {its : Spec.It} (hs : Emit.Inv s) (hb : Emit.InBlk s i B)
    (hB : B.map (·.1) = snap ++ [m]) (hp : PosR snap m itm its)
    (h : Model.deref f P s i itm arg = some (s1, o, it1)) : Emit.Inv s1 ∧ Emit.InBlk s1 i B := by
  obtain ⟨g1, _⟩ := (Emit.all_ok f).deref P s i itm arg B s1 o it1 hs hb (hp.memB hB) h
  exact ⟨g1.inv, hb.frame g1.frame⟩

/-! ## `accLoop` -/

/-- `++it` of the accumulator loops -/
theorem advance_sim (f : Nat) (ha : AccS f) {P : Prog} {s : St} {t : Spec.LSt} {i m : Nat} {snap : List Nat}
    {B : List (Nat × Bool)} (hs : Emit.Inv s) (hR : R s t) (hb : Emit.InBlk s i B) (hB : B.map (·.1) = snap ++ [m])
    {itm : IterBuf} {its : Spec.It} (hp : PosR snap m itm its) (hlt : its.pos < snap.length)
    (arg mode k r : Nat) {s' : St} {o : Outcome} {v : Nat}
    (h : (match aget s.impls i with
      | none => some (s.fail "acc: impl destroyed", Outcome.ok, r)
      | some im =>
        match succId im.cells itm.pos with
        | none => some (s.fail "acc: iterator invalidated", Outcome.ok, r)
        | some nxt => Model.accLoop f P s i { itm with pos := nxt, invoked := false } m arg mode k r) = some (s', o, v))
    (g : Nat) (hg : f ≤ g) :
    ∃ t', Spec.accLoop g P t i snap { its with pos := its.pos + 1, invoked := false } arg mode k r = some (t', o, v) ∧
      R s' t' := by
  obtain ⟨im, nxt, him, hsucc, hp'⟩ := hp.succ hs hb hB hlt
  rw [him] at h
  simp only [hsucc] at h
  exact ha P s t i _ _ m arg mode k r snap B s' o v hs hR hb hB hp' h g hg

theorem acc_sim0 : AccS 0 := by
  intro P s t i itm its m arg mode k r snap B s' o v _ _ _ _ _ h
  simp [Model.accLoop] at h

theorem acc_sim (f : Nat) (hd : DerefS' f) (ha : AccS f) : AccS (f+1) := by
  intro P s t i itm its m arg mode k r snap B s' o v hs hR hb hB hp h g hg
  obtain ⟨g', rfl⟩ : ∃ g', g = g'+1 := ⟨g-1, by omega⟩
  have hg' : f ≤ g' := by omega
  have hnd := blk_nodup hs hb hB
  rw [Model.accLoop] at h
  rw [Spec.accLoop]
  split at h
  · rename_i hpm
    simp at h; obtain ⟨rfl, rfl, rfl⟩ := h
    rw [if_pos ((hp.at_end hnd).mp hpm)]
    exact ⟨t, rfl, hR⟩
  · rename_i hpm
    have hlt : its.pos < snap.length := by
      have := mt (hp.at_end hnd).mpr hpm
      omega
    rw [if_neg (by omega)]
    simp only at h
    split at h
    · rename_i hm3
      rw [if_pos hm3]
      exact advance_sim f ha hs hR hb hB hp hlt arg mode k _ h g' hg'
    · rename_i hm3
      rw [if_neg hm3]
      split at h
      · contradiction
      · rename_i s1 it1 hder
        simp at h; obtain ⟨rfl, rfl, rfl⟩ := h
        obtain ⟨t1, its1, hd1, hR1, _, _⟩ := hd P s t i itm its arg snap m B _ _ _ hs hR hb hB hp hlt hder g' hg'
        simp only [hd1]
        exact ⟨t1, rfl, hR1⟩
      · rename_i s1 it1 hder
        obtain ⟨t1, its1, hd1, hR1, hp1, hpp1⟩ := hd P s t i itm its arg snap m B _ _ _ hs hR hb hB hp hlt hder g' hg'
        obtain ⟨hs1, hb1⟩ := deref_blk hs hb hB hp hder
        simp only [hd1, hp1.buf]
        have hpX : PosR snap m (if mode = 4 then itm else it1) (if mode = 4 then its else its1) := by
          split
          · exact hp
          · exact hp1
        have hltX : (if mode = 4 then its else its1).pos < snap.length := by
          split
          · exact hlt
          · omega
        split at h
        · rename_i hstop
          simp at h; obtain ⟨rfl, rfl, rfl⟩ := h
          rw [if_pos hstop]
          exact ⟨t1, rfl, hR1⟩
        · rename_i hstop
          rw [if_neg hstop]
          split at h
          · rename_i hm2
            rw [if_pos hm2]
            split at h
            · contradiction
            · rename_i s2 it2 hder2
              simp at h; obtain ⟨rfl, rfl, rfl⟩ := h
              obtain ⟨t2, its2, hd2, hR2, _, _⟩ :=
                hd P s1 t1 i _ _ arg snap m B _ _ _ hs1 hR1 hb1 hB hpX hltX hder2 g' hg'
              simp only [hd2]
              exact ⟨t2, rfl, hR2⟩
            · rename_i s2 it2 hder2
              obtain ⟨t2, its2, hd2, hR2, hp2, hpp2⟩ :=
                hd P s1 t1 i _ _ arg snap m B _ _ _ hs1 hR1 hb1 hB hpX hltX hder2 g' hg'
              obtain ⟨hs2, hb2⟩ := deref_blk hs1 hb1 hB hpX hder2
              simp only [hd2]
              rw [show r + it1.buf + its2.buf = r + it1.buf + it2.buf by rw [hp2.buf]]
              exact advance_sim f ha hs2 hR2 hb2 hB hp2 (by omega) arg mode k _ h g' hg'
          · rename_i hm2
            rw [if_neg hm2]
            exact advance_sim f ha hs1 hR1 hb1 hB hpX hltX arg mode k _ h g' hg'

/-! ## `revLoop` -/

theorem rev_sim0 : RevS 0 := by
  intro P s t i itm its first m arg r snap B s' o v _ _ _ _ _ _ h
  simp [Model.revLoop] at h

theorem rev_sim (f : Nat) (hd : DerefS' f) (hr : RevS f) : RevS (f+1) := by
  intro P s t i itm its first m arg r snap B s' o v hs hR hb hB hfirst hp h g hg
  obtain ⟨g', rfl⟩ : ∃ g', g = g'+1 := ⟨g-1, by omega⟩
  have hg' : f ≤ g' := by omega
  have hnd := blk_nodup hs hb hB
  have hiff := hp.at_first hnd hfirst
  rw [Model.revLoop] at h
  rw [Spec.revLoop]
  split at h
  · rename_i hpf
    simp at h; obtain ⟨rfl, rfl, rfl⟩ := h
    rw [if_pos (hiff.mp hpf)]
    exact ⟨t, rfl, hR⟩
  · rename_i hpf
    have hne : its.pos ≠ 0 := mt hiff.mpr hpf
    rw [if_neg hne]
    obtain ⟨im, prv, him, hpred, hp'⟩ := hp.pred hs hb hB hne
    rw [him] at h
    simp only [hpred] at h
    have hlt' : its.pos - 1 < snap.length := by have := hp.le; omega
    split at h
    · contradiction
    · rename_i s1 it1 hder
      simp at h; obtain ⟨rfl, rfl, rfl⟩ := h
      obtain ⟨t1, its1, hd1, hR1, _, _⟩ := hd P s t i _ _ arg snap m B _ _ _ hs hR hb hB hp' hlt' hder g' hg'
      simp only [hd1]
      exact ⟨t1, rfl, hR1⟩
    · rename_i s1 it1 hder
      obtain ⟨t1, its1, hd1, hR1, hp1, _⟩ := hd P s t i _ _ arg snap m B _ _ _ hs hR hb hB hp' hlt' hder g' hg'
      obtain ⟨hs1, hb1⟩ := deref_blk hs hb hB hp' hder
      simp only [hd1, hp1.buf]
      exact hr P s1 t1 i it1 its1 first m arg _ snap B s' o v hs1 hR1 hb1 hB hfirst hp1 h g' hg'

/-! ## `walkLoop` -/

theorem walk_sim0 : WalkS 0 := by
  intro P s t i itm its first m arg ops r snap B s' o v _ _ _ _ _ _ h
  simp [Model.walkLoop] at h

theorem walk_sim (f : Nat) (hd : DerefS' f) (hw : WalkS f) : WalkS (f+1) := by
  intro P s t i itm its first m arg ops r snap B s' o v hs hR hb hB hfirst hp h g hg
  obtain ⟨g', rfl⟩ : ∃ g', g = g'+1 := ⟨g-1, by omega⟩
  have hg' : f ≤ g' := by omega
  have hnd := blk_nodup hs hb hB
  have hend := hp.at_end hnd
  have hiff := hp.at_first hnd hfirst
  cases ops with
  | nil =>
    rw [Model.walkLoop] at h
    rw [Spec.walkLoop]
    simp at h; obtain ⟨rfl, rfl, rfl⟩ := h
    exact ⟨t, rfl, hR⟩
  | cons c cs =>
    rw [Model.walkLoop] at h
    rw [Spec.walkLoop]
    split at h
    · -- 'd'
      rename_i hc
      rw [if_pos hc]
      split at h
      · rename_i hpm
        rw [if_pos (hend.mp hpm)]
        exact hw P s t i itm its first m arg cs r snap B s' o v hs hR hb hB hfirst hp h g' hg'
      · rename_i hpm
        have hlt : its.pos < snap.length := by have := mt hend.mpr hpm; omega
        rw [if_neg (by omega)]
        split at h
        · contradiction
        · rename_i s1 it1 hder
          simp at h; obtain ⟨rfl, rfl, rfl⟩ := h
          obtain ⟨t1, its1, hd1, hR1, _, _⟩ := hd P s t i itm its arg snap m B _ _ _ hs hR hb hB hp hlt hder g' hg'
          simp only [hd1]
          exact ⟨t1, rfl, hR1⟩
        · rename_i s1 it1 hder
          obtain ⟨t1, its1, hd1, hR1, hp1, _⟩ := hd P s t i itm its arg snap m B _ _ _ hs hR hb hB hp hlt hder g' hg'
          obtain ⟨hs1, hb1⟩ := deref_blk hs hb hB hp hder
          simp only [hd1, hp1.buf]
          exact hw P s1 t1 i it1 its1 first m arg cs _ snap B s' o v hs1 hR1 hb1 hB hfirst hp1 h g' hg'
    · rename_i hc
      rw [if_neg hc]
      split at h
      · -- 'c'
        rename_i hc2
        rw [if_pos hc2]
        split at h
        · rename_i hpm
          rw [if_pos (hend.mp hpm)]
          exact hw P s t i itm its first m arg cs r snap B s' o v hs hR hb hB hfirst hp h g' hg'
        · rename_i hpm
          have hlt : its.pos < snap.length := by have := mt hend.mpr hpm; omega
          rw [if_neg (by omega)]
          split at h
          · contradiction
          · rename_i s1 it1 hder
            simp at h; obtain ⟨rfl, rfl, rfl⟩ := h
            obtain ⟨t1, its1, hd1, hR1, _, _⟩ := hd P s t i itm its arg snap m B _ _ _ hs hR hb hB hp hlt hder g' hg'
            simp only [hd1]
            exact ⟨t1, rfl, hR1⟩
          · rename_i s1 it1 hder
            obtain ⟨t1, its1, hd1, hR1, hp1, _⟩ := hd P s t i itm its arg snap m B _ _ _ hs hR hb hB hp hlt hder g' hg'
            obtain ⟨hs1, hb1⟩ := deref_blk hs hb hB hp hder
            simp only [hd1, hp1.buf]
            exact hw P s1 t1 i itm its first m arg cs _ snap B s' o v hs1 hR1 hb1 hB hfirst hp h g' hg'
      · rename_i hc2
        rw [if_neg hc2]
        split at h
        · -- 'i'
          rename_i hc3
          rw [if_pos hc3]
          split at h
          · rename_i hpm
            rw [if_pos (hend.mp hpm)]
            exact hw P s t i itm its first m arg cs r snap B s' o v hs hR hb hB hfirst hp h g' hg'
          · rename_i hpm
            have hlt : its.pos < snap.length := by have := mt hend.mpr hpm; omega
            rw [if_neg (by omega)]
            obtain ⟨im, nxt, him, hsucc, hp'⟩ := hp.succ hs hb hB hlt
            rw [him] at h
            simp only [hsucc] at h
            exact hw P s t i _ _ first m arg cs r snap B s' o v hs hR hb hB hfirst hp' h g' hg'
        · rename_i hc3
          rw [if_neg hc3]
          split at h
          · -- 'x'
            rename_i hc4
            rw [if_pos hc4]
            split at h
            · rename_i hpf
              rw [if_pos (hiff.mp hpf)]
              exact hw P s t i itm its first m arg cs r snap B s' o v hs hR hb hB hfirst hp h g' hg'
            · rename_i hpf
              have hne : its.pos ≠ 0 := mt hiff.mpr hpf
              rw [if_neg hne]
              obtain ⟨im, prv, him, hpred, hp'⟩ := hp.pred hs hb hB hne
              rw [him] at h
              simp only [hpred] at h
              exact hw P s t i _ _ first m arg cs r snap B s' o v hs hR hb hB hfirst hp' h g' hg'
          · rename_i hc4
            rw [if_neg hc4]
            exact hw P s t i itm its first m arg cs r snap B s' o v hs hR hb hB hfirst hp h g' hg'

/-! ## `runStrat` -/

theorem strat_sim0 : StratS 0 := by
  intro P s t i first m arg strat snap B s' o v _ _ _ _ _ h
  simp [Model.runStrat] at h

theorem strat_sim (f : Nat) (ha : AccS f) (hr : RevS f) (hw : WalkS f) : StratS (f+1) := by
  intro P s t i first m arg strat snap B s' o v hs hR hb hB hfirst h g hg
  obtain ⟨g', rfl⟩ : ∃ g', g = g'+1 := ⟨g-1, by omega⟩
  have hg' : f ≤ g' := by omega
  have hp0 : PosR snap m { pos := first } { pos := 0 } := ⟨hfirst, rfl, rfl⟩
  have hpm : PosR snap m { pos := m } { pos := snap.length } := ⟨by simp, rfl, rfl⟩
  cases strat <;> rw [Model.runStrat] at h <;> rw [Spec.runStrat]
  case sum => exact ha P s t i _ _ m arg 0 0 0 snap B s' o v hs hR hb hB hp0 h g' hg'
  case stop k => exact ha P s t i _ _ m arg 1 k 0 snap B s' o v hs hR hb hB hp0 h g' hg'
  case twice => exact ha P s t i _ _ m arg 2 0 0 snap B s' o v hs hR hb hB hp0 h g' hg'
  case never => exact ha P s t i _ _ m arg 3 0 0 snap B s' o v hs hR hb hB hp0 h g' hg'
  case postinc => exact ha P s t i _ _ m arg 4 0 0 snap B s' o v hs hR hb hB hp0 h g' hg'
  case rev => exact hr P s t i _ _ first m arg 0 snap B s' o v hs hR hb hB hfirst hpm h g' hg'
  case walk ops => exact hw P s t i _ _ first m arg ops 0 snap B s' o v hs hR hb hB hfirst hp0 h g' hg'

end Sigc.Refine
