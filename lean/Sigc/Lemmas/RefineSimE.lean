import Sigc.Lemmas.RefineSimD
import Sigc.Lemmas.RefineSimC
/-!
# Refine work package — `emitImpl` is simulated by `emitSig`.
-/
namespace Sigc.Refine
open Sigc.Model

/-- the snapshot of the specification's emission (`k2` reproduced) -/
def specSnap (fl : Flavour) (g : Spec.LSig) : List Nat :=
  (g.cells.filter (fun c => fl.isAcc || (!c.marker && !c.zombie))).map (·.id)

/-- one step of `emitSig` on an existing list, in terms of `specStart` / `specSnap` / `specEpi` -/
theorem spec_emitSig_some {g' : Nat} {P : Prog} {t : Spec.LSt} {fl : Flavour} {i arg : Nat} {strat : Strat} {g0 : Spec.LSig}
    (hg0 : aget t.sigs i = some g0) (hk2 : t.k2 = true) :
    Spec.emitSig (g'+1) P t fl (some i) arg strat =
      if (!fl.isAcc && g0.cells.isEmpty) = true then some (t, .ok, 0) else
      match (if fl.isAcc = true then Spec.runStrat g' P (specStart t i g0) i (specSnap fl g0) arg (strat.forFlavour fl)
             else Spec.turns g' P (specStart t i g0) i (specSnap fl g0) arg 0) with
      | none => none
      | some (t2, o, v) =>
        match aget t2.sigs i with
        | none => some (t2.fail "emit: list died during its emission", o, v)
        | some g2 => some (Spec.collect (Spec.gcSig (Spec.setSig t2 i (specEpi g2 t.next)) i), o, v) := by
  cases t with
  | mk tT tS tG tC tK tsigs tOT tOK tOG tn td tst ttr terr k1 k2 =>
  simp only at hk2 hg0
  subst hk2
  rw [Spec.emitSig]
  simp only [hg0, Bool.true_and, Spec.LSt.fresh, if_true]
  rfl

theorem emit_sim0 : EmitS 0 := by
  intro P s t fl impl arg strat s' o v _ _ _ h
  simp [Model.emitImpl] at h

theorem specSnap_acc {fl : Flavour} (hacc : fl.isAcc = true) {im : Impl} {g : Spec.LSig} (hr : SigR im g) :
    specSnap fl g = Emit.cids im := by
  unfold specSnap
  have : g.cells.filter (fun c => fl.isAcc || (!c.marker && !c.zombie)) = g.cells := by
    rw [List.filter_eq_self]; intro c _; simp [hacc]
  rw [this, hr.ids]

theorem specSnap_nonacc {fl : Flavour} (hacc : fl.isAcc = false) {im : Impl} {g : Spec.LSig} (hr : SigR im g)
    (hn : (Emit.cids im).Nodup) :
    specSnap fl g = (Emit.cids im).filter (fun k => !(unlinkedIds im).contains k) := by
  unfold specSnap
  rw [← snap_nonacc hr hn]
  simp [hacc]

theorem first_head (s : St) (im : Impl) : ∃ tl, Emit.cids im ++ [s.next] = Emit.emitFirst s im :: tl := by
  unfold Emit.emitFirst Emit.cids
  cases im.cells with
  | nil => exact ⟨[], rfl⟩
  | cons c t => exact ⟨t.map (·.id) ++ [s.next], rfl⟩

theorem emit_sim (f : Nat) (hst : StratS f) (hl : LoopS f) : EmitS (f+1) := by
  intro P s t fl impl arg strat s' o v hs himpl hR h g hg
  obtain ⟨g', rfl⟩ : ∃ g', g = g' + 1 := ⟨g - 1, by omega⟩
  have hg' : f ≤ g' := by omega
  cases impl with
  | none =>
    rw [Model.emitImpl] at h
    simp at h
    obtain ⟨rfl, rfl, rfl⟩ := h
    exact ⟨t, by rw [Spec.emitSig], hR⟩
  | some i =>
    cases hi : aget s.impls i with
    | none => have := himpl i rfl; rw [hi] at this; contradiction
    | some im =>
      obtain ⟨g0, hg0, hr⟩ := hR.sig_of_impl hi
      have hok := hs.ok i im hi
      rw [spec_emitSig_some hg0 hR.k2, ← F2.isEmpty hr.cells]
      rw [Model.emitImpl] at h
      rw [hi] at h
      simp only at h
      split at h
      · rename_i hc
        simp at h
        obtain ⟨rfl, rfl, rfl⟩ := h
        rw [if_pos hc]
        exact ⟨t, rfl, hR⟩
      · rename_i hc
        rw [if_neg hc]
        rw [show s.fresh = (s.next, { s with next := s.next + 1 }) from rfl] at h
        simp only at h
        obtain ⟨h1, hb1⟩ := Emit.emitStart_inv hs hi
        have hR1 := R_start hs hR hi hg0 hr
        obtain ⟨tl, hcur⟩ := first_head s im
        have hB : (Emit.skel im ++ [(s.next, true)]).map (·.1) = Emit.cids im ++ [s.next] := by
          simp [Emit.cids_eq_skel]
        split at h
        · contradiction
        · rename_i s2 o2 v2 hr2
          have hr2' : (if fl.isAcc = true then
                Model.runStrat f P (Emit.emitStart s i im) i (Emit.emitFirst s im) s.next arg (strat.forFlavour fl)
              else Model.emitLoop f P (Emit.emitStart s i im) i (Emit.emitFirst s im) s.next arg 0) = some (s2, o2, v2) := hr2
          -- the loop / the accumulator on both sides
          have hloop : Emit.Good0 (Emit.emitStart s i im) s2 ∧ ∃ t2,
              (if fl.isAcc = true then Spec.runStrat g' P (specStart t i g0) i (specSnap fl g0) arg (strat.forFlavour fl)
               else Spec.turns g' P (specStart t i g0) i (specSnap fl g0) arg 0) = some (t2, o2, v2) ∧ R s2 t2 := by
            cases hacc : fl.isAcc with
            | true =>
              simp only [hacc, if_true] at hr2' ⊢
              refine ⟨(Emit.all_ok f).strat P _ i _ s.next arg (strat.forFlavour fl) (Emit.skel im) tl s2 o2 v2 h1 hb1
                (by rw [hB]; exact hcur) hr2', ?_⟩
              rw [specSnap_acc hacc hr]
              exact hst P _ _ i _ s.next arg (strat.forFlavour fl) (Emit.cids im) _ s2 o2 v2 h1 hR1 hb1 hB
                (by rw [hcur]; rfl) hr2' g' hg'
            | false =>
              simp only [hacc, Bool.false_eq_true, if_false] at hr2' ⊢
              refine ⟨(Emit.all_ok f).loop P _ i _ s.next arg 0 (Emit.skel im) s2 o2 v2 h1 hb1
                (by rw [hB, hcur]; simp) hr2', ?_⟩
              rw [specSnap_nonacc hacc hr hok.nodup]
              exact hl P _ _ i _ s.next arg 0 _ (unlinkedIds im) [] (Emit.cids im) tl s2 o2 v2 h1 hR1 hb1
                (by rw [hB]; simp) hcur (off_start hs hi) hr2' g' hg'
          obtain ⟨g12, t2, ht2, hR2⟩ := hloop
          rw [ht2]
          simp only
          -- the epilogue
          obtain ⟨im2, hi2, hx2, pre, post, hsk2⟩ := hb1.frame g12.frame
          have hmem : (s.next, true) ∈ Emit.skel im2 := by rw [hsk2]; simp
          obtain ⟨cm, hcm, hcmid, hcmn⟩ := Emit.mem_skel hmem
          have hany : im2.cells.any (·.id = s.next) = true :=
            Emit.any_of_mem_ids (List.mem_map.mpr ⟨cm, hcm, hcmid⟩)
          rw [hi2] at h
          simp only at h
          rw [if_pos hany] at h
          have hepi : some (Model.collect (gcImpl (Emit.epilogue s2 i s.next) i), o2, v2) = some (s', o, v) := h
          simp at hepi
          obtain ⟨e1, e2, e3⟩ := hepi
          subst e1; subst e2; subst e3
          obtain ⟨g2, hg2, hr2s⟩ := hR2.sig_of_impl hi2
          rw [hg2]
          simp only
          rw [hR.next]
          have hRe := R_epilogue g12.inv hR2 hi2 hg2 hr2s (by omega) (List.mem_map.mpr ⟨cm, hcm, hcmid⟩)
          have hie := inv_epilogue g12.inv hi2 (by omega) ⟨cm, hcm, hcmid, hcmn⟩
          have hRg := R_gc hie hRe i
          have hig := (Emit.Good.gcImpl hie i).inv
          exact ⟨_, rfl, R_collect hig hRg⟩

end Sigc.Refine
