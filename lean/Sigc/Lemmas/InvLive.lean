import Sigc.Lemmas.InvTeardown
/-! accounting of functor copies (`liveCount`) under the operations that destroy reps -/
namespace Sigc.Inv
open Sigc.Model

/-- copies of functor `fid` held by the cells of one impl -/
def cellsLive (fid : Nat) (cs : List Cell) : Nat := (cs.map (fun c => c.slot.live fid)).sum

def implsLive (fid : Nat) (impls : List (Nat × Impl)) : Nat :=
  (impls.map (fun p => cellsLive fid p.2.cells)).sum

def slotsLive (fid : Nat) (S : List (Nat × SlotVar)) : Nat := (S.map (fun p => p.2.slot.live fid)).sum

theorem liveCount_eq (s : St) (fid : Nat) : liveCount s fid = slotsLive fid s.S + implsLive fid s.impls := rfl

theorem implsLive_aset {fid : Nat} {impls : List (Nat × Impl)} {i : Nat} {im im' : Impl}
    (hi : aget impls i = some im) :
    implsLive fid (aset impls i im') + cellsLive fid im.cells = implsLive fid impls + cellsLive fid im'.cells := by
  induction impls with
  | nil => simp [aget] at hi
  | cons p t ih =>
    obtain ⟨k, v⟩ := p
    simp only [aget] at hi
    by_cases hk : k = i
    · simp only [hk, if_true, Option.some.injEq] at hi
      subst hi
      simp only [aset, hk, if_true, implsLive, List.map_cons, List.sum_cons]
      omega
    · simp only [hk, if_false] at hi
      have := ih hi
      simp only [aset, hk, if_false, implsLive, List.map_cons, List.sum_cons] at this ⊢
      omega

theorem implsLive_adel {fid : Nat} {impls : List (Nat × Impl)} (hn : (impls.map (·.1)).Nodup) {i : Nat} {im : Impl}
    (hi : aget impls i = some im) :
    implsLive fid (adel impls i) + cellsLive fid im.cells = implsLive fid impls := by
  induction impls with
  | nil => simp [aget] at hi
  | cons p t ih =>
    obtain ⟨k, v⟩ := p
    simp only [List.map_cons, List.nodup_cons] at hn
    simp only [aget] at hi
    rw [adel_cons]
    by_cases hk : k = i
    · simp only [hk, if_true, Option.some.injEq] at hi
      subst hi
      simp only [hk, if_true]
      have hnot : aget t i = none := aget_none_iff.2 (hk ▸ hn.1)
      have : adel t i = t := by
        unfold adel
        rw [List.filter_eq_self]
        intro a ha
        simp only [ne_eq, decide_not, Bool.not_eq_eq_eq_not, Bool.not_true, decide_eq_false_iff_not]
        intro e
        exact (aget_none_iff.1 hnot) (List.mem_map.2 ⟨a, ha, e⟩)
      rw [this]
      simp only [implsLive, List.map_cons, List.sum_cons]
      omega
    · simp only [hk, if_false] at hi ⊢
      have := ih hn.2 hi
      simp only [implsLive, List.map_cons, List.sum_cons] at this ⊢
      omega

theorem cellsLive_filter (fid : Nat) (p : Cell → Bool) (cs : List Cell) :
    cellsLive fid (cs.filter p) + cellsLive fid (cs.filter (fun c => !p c)) = cellsLive fid cs := by
  induction cs with
  | nil => rfl
  | cons c t ih =>
    cases hp : p c
    · simp only [List.filter_cons, hp, Bool.false_eq_true, if_false, Bool.not_false, if_true, cellsLive,
        List.map_cons, List.sum_cons] at ih ⊢
      omega
    · simp only [List.filter_cons, hp, if_true, Bool.not_true, Bool.false_eq_true, if_false, cellsLive,
        List.map_cons, List.sum_cons] at ih ⊢
      omega

@[simp] theorem nullConns_S' (s : St) (c : Nat) : (nullConns s c).S = s.S := rfl

/-- erasing a cell releases exactly the functor copies that cell held -/
theorem liveCount_eraseCell {s : St} {i cid : Nat} {im : Impl} (hi : aget s.impls i = some im) (fid : Nat) :
    liveCount (eraseCell s i cid) fid + cellsLive fid (im.cells.filter (fun c => !decide (c.id ≠ cid))) =
      liveCount s fid := by
  simp only [eraseCell, hi, liveCount_eq, nullConns_impls, nullConns_S', setImpl_impls]
  have h1 := implsLive_aset (fid := fid) (im' := { im with cells := im.cells.filter (fun c => decide (c.id ≠ cid)) }) hi
  have h2 := cellsLive_filter fid (fun c => decide (c.id ≠ cid)) im.cells
  simp only [setImpl] at h1 ⊢
  omega

/-- the sweep releases exactly the copies held by the cells that had become empty -/
theorem liveCount_sweep {s : St} {i : Nat} {im : Impl} (hi : aget s.impls i = some im) (fid : Nat) :
    liveCount (sweep s i) fid + cellsLive fid (im.cells.filter (fun c => c.slot.empty)) = liveCount s fid := by
  simp only [sweep, hi, liveCount_eq, nullConnsList_impls, nullConnsList_S, setImpl_impls]
  have h1 := implsLive_aset (fid := fid)
    (im' := { im with deferred := false, cells := im.cells.filter (fun c => !c.slot.empty) }) hi
  have h2 := cellsLive_filter fid (fun c => !c.slot.empty) im.cells
  simp only [Bool.not_not] at h2
  simp only [setImpl] at h1 ⊢
  omega

/-- `~signal_impl` releases every copy held by its cells -/
theorem liveCount_gcImpl_removed {s : St} (hw : WF s) {i : Nat} {im : Impl} (hi : aget s.impls i = some im)
    (hrm : aget (gcImpl s i).impls i = none) (fid : Nat) :
    liveCount (gcImpl s i) fid + cellsLive fid im.cells = liveCount s fid := by
  unfold gcImpl at hrm ⊢
  rw [hi] at hrm ⊢
  simp only at hrm ⊢
  split at hrm
  · rename_i hc
    rw [if_pos hc]
    simp only [liveCount_eq, nullConnsList_impls, nullConnsList_S]
    have := implsLive_adel (fid := fid) hw.keys hi
    omega
  · rw [hi] at hrm; cases hrm

theorem live_invalidate (sl : SlotB) (fid : Nat) : sl.invalidate.live fid = 0 := by
  simp only [SlotB.invalidate, SlotB.live]
  cases h : sl.rep <;> simp [h]

theorem liveAll_invalidate (sl : SlotB) : sl.invalidate.liveAll = 0 := by
  simp only [SlotB.invalidate, SlotB.liveAll]
  cases h : sl.rep <;> simp [h]

theorem live_disconnectRep (sl : SlotB) (fid : Nat) : sl.disconnectRep.live fid = sl.live fid := by
  simp only [SlotB.disconnectRep, SlotB.live]
  cases h : sl.rep with
  | none => simp [h]
  | some r => obtain ⟨c, f⟩ := r; cases f <;> simp

theorem liveTotal_nil {s : St} (hS : s.S = []) (hI : s.impls = []) : liveTotal s = 0 := by
  simp [liveTotal, hS, hI]

theorem liveCount_nil {s : St} (hS : s.S = []) (hI : s.impls = []) (fid : Nat) : liveCount s fid = 0 := by
  simp [liveCount, hS, hI]

end Sigc.Inv
