import Sigc.Lemmas.EmitPrim2
/-!
# Emit work package — primitives, part 3: slot variables, `Frame.bracket`, `sweep`/`unrefExec`,
`clearImpl`, `invalidateTrackable`, `mkFun`.
-/
namespace Sigc.Emit
open Sigc.Model

/-! ## slot variables -/

theorem incallOf_aset (s : St) (i j : Nat) (v : SlotVar) :
    incallOf { s with S := aset s.S i v } j = if j = i then v.incall else incallOf s j := by
  unfold incallOf
  simp only [aget_aset]
  by_cases e : j = i <;> simp [e]

theorem Good.setS {off} {s : St} (h : InvX off s) (i : Nat) (v : SlotVar) (hv : SlotOK s.G v.slot)
    (hc : v.incall = incallOf s i) : Good off s { s with S := aset s.S i v } := by
  refine ⟨⟨h.keys, h.lt, h.ok, h.disj, h.himpl, ?_, h.fwdC, h.noerr, h.own⟩, ⟨Nat.le_refl _, fun _ => rfl, ?_, ?_⟩⟩
  · intro j w hw
    simp only [aget_aset] at hw
    split at hw
    · cases hw; exact hv
    · exact h.fwdS j w hw
  · intro j jm hj _; exact ⟨jm, hj, [], [], by simp⟩
  · intro j; rw [incallOf_aset]; split
    · rename_i e; subst e; exact hc
    · rfl

theorem Good.delS {off} {s : St} (h : InvX off s) (i : Nat) (hc : incallOf s i = 0) :
    Good off s { s with S := adel s.S i } := by
  refine ⟨⟨h.keys, h.lt, h.ok, h.disj, h.himpl, ?_, h.fwdC, h.noerr, h.own⟩, ⟨Nat.le_refl _, fun _ => rfl, ?_, ?_⟩⟩
  · intro j w hw
    simp only [aget_adel] at hw
    split at hw
    · contradiction
    · exact h.fwdS j w hw
  · intro j jm hj _; exact ⟨jm, hj, [], [], by simp⟩
  · intro j
    by_cases e : j = i
    · subst e; simp [incallOf, aget_adel] at hc ⊢; exact hc.symm
    · simp [incallOf, aget_adel, e]

theorem incallOf_of_aget {s : St} {i : Nat} {v : SlotVar} (h : aget s.S i = some v) : incallOf s i = v.incall := by
  simp [incallOf, h]

theorem incallOf_of_none {s : St} {i : Nat} (h : aget s.S i = none) : incallOf s i = 0 := by
  simp [incallOf, h]

/-! ## bracketing: raise `exec` of impl `i`, run a `Frame` step, restore -/

theorem Frame.bracket {s s1 s2 s3 : St} {i : Nat} {im : Impl}
    (hi : aget s.impls i = some im)
    (h01n : s.next ≤ s1.next) (h01o : ∀ j, j ≠ i → aget s1.impls j = aget s.impls j)
    (h01v : ∀ j, incallOf s1 j = incallOf s j)
    (h12 : Frame s1 s2)
    (h23n : s2.next ≤ s3.next) (h23o : ∀ j, j ≠ i → aget s3.impls j = aget s2.impls j)
    (h23v : ∀ j, incallOf s3 j = incallOf s2 j)
    (hx : execOf s3 i = im.exec)
    (hk : 0 < im.exec → ∃ im3, aget s3.impls i = some im3 ∧ ∃ pre post, skel im3 = pre ++ skel im ++ post) :
    Frame s s3 := by
  refine ⟨by have := h12.next; omega, ?_, ?_, fun j => by rw [h23v, h12.vars, h01v]⟩
  · intro j
    by_cases e : j = i
    · subst e; rw [hx, execOf_pos hi]
    · have a : execOf s3 j = execOf s2 j := by simp [execOf, h23o j e]
      have b : execOf s1 j = execOf s j := by simp [execOf, h01o j e]
      rw [a, h12.exec, b]
  · intro j jm hj hp
    by_cases e : j = i
    · subst e; rw [hi] at hj; cases hj; exact hk hp
    · have : aget s1.impls j = some jm := by rw [h01o j e]; exact hj
      obtain ⟨jm2, hj2, pq⟩ := h12.keep j jm this hp
      exact ⟨jm2, by rw [h23o j e]; exact hj2, pq⟩

/-! ## `sweep`, `unrefExec` -/

theorem sweep_eq {s : St} {i : Nat} {im : Impl} (hi : aget s.impls i = some im) :
    sweep s i = nullConnsList (setImpl s i { im with deferred := false, cells := im.cells.filter (fun c => !c.slot.empty) })
      ((im.cells.filter (·.slot.empty)).map (·.id)) := by
  simp [sweep, hi]

theorem unrefExec_eq {s : St} {i : Nat} {im : Impl} (hi : aget s.impls i = some im) :
    unrefExec s i = if (im.exec - 1 = 0 && im.deferred) = true
      then sweep (setImpl s i { im with exec := im.exec - 1 }) i
      else setImpl s i { im with exec := im.exec - 1 } := by
  simp [unrefExec, hi]

/-! ## `clearImpl` -/

theorem good_clearImpl {s : St} (h : Inv s) (i : Nat) : Good (fun _ => 0) s (clearImpl s i) := by
  unfold clearImpl
  cases hi : aget s.impls i with
  | none => exact Good.refl h
  | some im =>
    simp only
    have hok := h.ok i im hi
    let off1 : Nat → Nat := fun j => if j = i then 1 else 0
    have e1 : off1 i = 1 := by simp [off1]
    have eo : ∀ j, j ≠ i → off1 j = 0 := by intro j hj; simp [off1, hj]
    generalize hs1 : setImpl s i { im with exec := im.exec + 1 } = s1
    have hi1 : aget s1.impls i = some { im with exec := im.exec + 1 } := by subst hs1; simp [aget_setImpl]
    have h1 : InvX off1 s1 := by
      subst hs1
      apply h.setImpl' hi (off' := off1)
      · rw [e1]
        exact ⟨hok.nodup, by have := hok.eh; simp at this ⊢; omega, by have := hok.mkr; simp [markers] at this ⊢; omega,
               fun e => by simp at e, hok.l, hok.d⟩
      · intro j hj; exact eo j hj
      · intro k hk; exact Or.inl hk
      · intro c hc; exact h.fwdC i im hi c hc
    have hg2 := Good.foldl disconnectCell (fun s c hh => Good.disconnectCell hh c) h1 (im.cells.map (·.id))
    generalize hs2 : List.foldl disconnectCell s1 (im.cells.map (·.id)) = s2 at hg2
    obtain ⟨im2, hi2, pre, post, hsk⟩ := hg2.frame.keep i _ hi1 (by simp)
    have hx2 : im2.exec = im.exec + 1 := by
      have := hg2.frame.exec i
      rw [execOf_pos hi2, execOf_pos hi1] at this; exact this
    have hok2 : ImplOK 1 im2 := by have := hg2.inv.ok i im2 hi2; rw [e1] at this; exact this
    have h01o : ∀ j, j ≠ i → aget s1.impls j = aget s.impls j := by
      intro j hj; subst hs1; simp [aget_setImpl, hj]
    have h01v : ∀ j, incallOf s1 j = incallOf s j := by intro j; subst hs1; rfl
    have h01n : s.next ≤ s1.next := by subst hs1; exact Nat.le_refl _
    rw [hi2]
    simp only
    by_cases hd : im.exec > 0
    · simp only [hd, if_true]
      rw [unrefExec_eq hi2]
      have : ¬ ((im2.exec - 1 = 0 && im2.deferred) = true) := by
        simp; intro e; omega
      rw [if_neg this]
      refine ⟨?_, ?_⟩
      · apply hg2.inv.setImpl' hi2 (off' := fun _ => 0)
        · exact ⟨hok2.nodup, by have := hok2.eh; simp at this ⊢; omega, by have := hok2.mkr; simp [markers] at this ⊢; omega,
                 fun e => by simp at e; omega, hok2.l, hok2.d⟩
        · intro j hj; exact (eo j hj).symm
        · intro k hk; exact Or.inl hk
        · intro c hc; exact hg2.inv.fwdC i im2 hi2 c hc
      · refine Frame.bracket (s3 := setImpl s2 i { im2 with exec := im2.exec - 1 }) hi h01n h01o h01v hg2.frame
          (Nat.le_refl _) ?_ ?_ ?_ ?_
        · intro j hj; simp [aget_setImpl, hj]
        · intro j; rfl
        · rw [execOf_setImpl]; simp; omega
        · intro _
          refine ⟨{ im2 with exec := im2.exec - 1 }, by simp [aget_setImpl], pre, post, ?_⟩
          simpa [skel] using hsk
    · simp only [hd, if_false]
      have hx0 : im.exec = 0 := by omega
      have hdf : im.deferred = false := hok.q1 hx0
      generalize hX : ({ im2 with deferred := im.deferred, cells := [] } : Impl) = X
      obtain ⟨ca, cb, cc, cd, ce⟩ := nullConnsList_core (setImpl s2 i X) (im2.cells.map (·.id))
      generalize hs3 : nullConnsList (setImpl s2 i X) (im2.cells.map (·.id)) = s3 at ca cb cc cd ce
      have hi3 : aget s3.impls i = some X := by rw [ca]; simp [aget_setImpl]
      rw [unrefExec_eq hi3]
      have : ¬ ((X.exec - 1 = 0 && X.deferred) = true) := by
        subst hX; simp [hdf]
      rw [if_neg this]
      have hXok : ImplOK 1 X := by
        subst hX
        exact ⟨by simp [cids], by have := hok2.eh; simpa using this, by simp [markers]; omega,
               fun e => by simp at e; omega, by simp, by simp⟩
      have h3 : InvX off1 s3 := by
        have : InvX off1 (setImpl s2 i X) := by
          apply hg2.inv.setImpl hi2
          · rw [e1]; exact hXok
          · intro k hk; subst hX; simp [cids] at hk
          · intro c hc; subst hX; simp at hc
        exact this.congr ca cb cc cd (by omega) (by rw [← hs3]; exact nullConnsList_ownedG _ _)
      refine ⟨?_, ?_⟩
      · apply h3.setImpl' hi3 (off' := fun _ => 0)
        · subst hX
          exact ⟨by simp [cids], by have := hok2.eh; simp at this ⊢; omega, by simp [markers]; omega,
                 fun _ => hdf, by simp, by simp⟩
        · intro j hj; exact (eo j hj).symm
        · intro k hk; exact Or.inl hk
        · intro c hc; subst hX; simp at hc
      · apply Frame.bracket hi h01n h01o h01v hg2.frame (s3 := setImpl s3 i { X with exec := X.exec - 1 })
        · show s2.next ≤ s3.next
          have : (setImpl s2 i X).next = s2.next := rfl
          omega
        · intro j hj; simp [aget_setImpl, hj, ca]
        · intro j; simp [incallOf, setImpl, cc]
        · rw [execOf_setImpl]; subst hX; simp; omega
        · intro hp; omega

/-! ## `invalidateTrackable` -/

theorem good_invalidateTrackable {off} {s : St} (h : InvX off s) (t : Nat) :
    Good off s (invalidateTrackable s t) := by
  unfold invalidateTrackable
  simp only
  generalize hs0 : ({ s with S := amap s.S (fun v => if v.slot.tracksObj t then { v with slot := v.slot.invalidate } else v) } : St) = s0
  have h0 : Good off s s0 := by
    subst hs0
    refine ⟨⟨h.keys, h.lt, h.ok, h.disj, h.himpl, ?_, h.fwdC, h.noerr, h.own⟩, ⟨Nat.le_refl _, fun _ => rfl, ?_, ?_⟩⟩
    · intro j w hw
      simp only [aget_amap] at hw
      cases hj : aget s.S j with
      | none => rw [hj] at hw; simp at hw
      | some v =>
        rw [hj] at hw; simp at hw; subst hw
        split
        · exact (h.fwdS j v hj).invalidate
        · exact h.fwdS j v hj
    · intro j jm hj _; exact ⟨jm, hj, [], [], by simp⟩
    · intro j
      simp only [incallOf, aget_amap]
      cases hj : aget s.S j with
      | none => simp
      | some v => simp; split <;> rfl
  exact h0.trans (Good.foldl invalidateCell (fun s c hh => Good.invalidateCell hh c) h0.inv _)


/-! ## `mkFun` -/

theorem FunOK.leaf (G) (fid : Nat) (ts : List Nat) : FunOK G (.leaf fid ts) := by
  intro o ts' h; simp [funTarget] at h

theorem target_tracks : ∀ (f : Fun) (o : Nat) (ts : List Nat), funTarget f = some (o, ts) → f.tracks = ts
  | .leaf _ _, _, _, h => by simp [funTarget] at h
  | .fwd o' ts', o, ts, h => by simp [funTarget] at h; simp [Fun.tracks, h.2]
  | .nest _ none, _, _, h => by simp [funTarget] at h
  | .nest _ (some f), o, ts, h => by
    simp only [funTarget] at h
    simp only [Fun.tracks]
    exact target_tracks f o ts h
  | .owner _ _ _, _, _, h => by simp [funTarget] at h

theorem mkFun_good {off} {s s' : St} {isVoid : Bool} {spec : FSpec} {fn : Fun} (h : InvX off s)
    (hm : mkFun s isVoid spec = .ok (fn, s')) :
    Good off s s' ∧ FunOK s'.G fn ∧ s'.S = s.S := by
  cases spec with
  | fn fid =>
    simp [mkFun] at hm; obtain ⟨rfl, rfl⟩ := hm
    exact ⟨Good.refl h, FunOK.leaf _ _ _, rfl⟩
  | mem fid t =>
    simp only [mkFun] at hm
    split at hm
    · contradiction
    · simp at hm; obtain ⟨rfl, rfl⟩ := hm
      exact ⟨Good.refl h, FunOK.leaf _ _ _, rfl⟩
  | bref fid t =>
    simp only [mkFun] at hm
    split at hm
    · contradiction
    · simp at hm; obtain ⟨rfl, rfl⟩ := hm
      exact ⟨Good.refl h, FunOK.leaf _ _ _, rfl⟩
  | trk fid t1 t2 =>
    simp only [mkFun] at hm
    split at hm
    · contradiction
    · split at hm
      · simp at hm; obtain ⟨rfl, rfl⟩ := hm
        exact ⟨Good.refl h, FunOK.leaf _ _ _, rfl⟩
      · split at hm
        · contradiction
        · simp at hm; obtain ⟨rfl, rfl⟩ := hm
          exact ⟨Good.refl h, FunOK.leaf _ _ _, rfl⟩
  | nest sv =>
    simp only [mkFun] at hm
    split at hm
    · contradiction
    · rename_i v hv
      split at hm
      · contradiction
      · simp at hm; obtain ⟨rfl, rfl⟩ := hm
        refine ⟨Good.refl h, ?_, rfl⟩
        have hc := (h.fwdS sv v hv).copy
        intro o ts ht
        cases hr : v.slot.copy.rep with
        | none => simp [hr, funTarget] at ht
        | some r =>
          cases hf : r.fn with
          | none => simp [hr, hf, funTarget] at ht
          | some f =>
            simp [hr, hf, funTarget] at ht
            exact hc r f hr hf o ts ht
  | fwd g =>
    simp only [mkFun] at hm
    split at hm
    · contradiction
    · rename_i hd hg
      split at hm
      · contradiction
      · split at hm
        · contradiction
        · rename_i hown
          simp at hm; obtain ⟨rfl, rfl⟩ := hm
          have hfw : GFw s.G (aset s.G g { hd with everFwd := true }) := by
            intro j hj hjj
            rw [aget_aset]
            by_cases e : j = g
            · subst e; rw [hg] at hjj; cases hjj
              exact ⟨{ hd with everFwd := true }, by simp, rfl, rfl, rfl, fun _ => rfl⟩
            · simp only [e, if_false]; exact ⟨hj, hjj, rfl, rfl, rfl, id⟩
          refine ⟨⟨?_, Frame.of_eq (Nat.le_refl _) rfl rfl⟩, ?_, rfl⟩
          · apply h.setGFw hfw
            · intro p hp i hi
              rcases mem_aset hp with hp | hp
              · exact h.himpl p hp i hi
              · subst hp; exact h.himpl (g, hd) (aget_some_mem hg) i hi
            · intro p hp h' hg' he
              rw [aget_aset] at hg'
              by_cases e : p.2 = g
              · simp only [e, if_true] at hg'; cases hg'
                cases htk : hd.fl.isTrackable with
                | true => rfl
                | false =>
                  exfalso; apply hown
                  simp only [htk, Bool.not_false, Bool.true_and, List.any_eq_true, decide_eq_true_eq]
                  exact ⟨p, hp, e⟩
              · simp only [e, if_false] at hg'; exact h.own p hp h' hg' he
          · intro o ts ht
            simp [funTarget] at ht
            obtain ⟨rfl, rfl⟩ := ht
            refine ⟨g, { hd with everFwd := true }, by simp, rfl, ?_⟩
            simp only
            split <;> simp
  | ownT fid t =>
    simp only [mkFun] at hm
    split at hm
    · contradiction
    · simp at hm; obtain ⟨rfl, rfl⟩ := hm
      refine ⟨Good.of_core h rfl rfl rfl rfl (Nat.le_refl _), ?_, rfl⟩
      intro o ts ht; simp [funTarget] at ht
  | ownK fid k =>
    simp only [mkFun, St.fresh] at hm
    split at hm
    · contradiction
    · simp at hm; obtain ⟨rfl, rfl⟩ := hm
      refine ⟨Good.of_core h rfl rfl rfl rfl (by simp), ?_, rfl⟩
      intro o ts ht; simp [funTarget] at ht
  | ownG fid g =>
    simp only [mkFun, St.fresh] at hm
    split at hm
    · contradiction
    · rename_i hd hg
      split at hm
      · contradiction
      · rename_i hpin
        split at hm
        · contradiction
        · simp at hm; obtain ⟨rfl, rfl⟩ := hm
          refine ⟨⟨?_, Frame.of_eq (by simp) rfl rfl⟩, ?_, rfl⟩
          · have h1 : InvX off { s with next := s.next + 1 } := h.congr rfl rfl rfl rfl (by simp)
            refine ⟨h1.keys, h1.lt, h1.ok, h1.disj, h1.himpl, h1.fwdS, h1.fwdC, h1.noerr, ?_⟩
            intro p hp h' hg' he
            rcases List.mem_cons.mp hp with e | e
            · subst e
              have hg'' : aget s.G g = some h' := hg'
              rw [hg] at hg''; cases hg''
              cases htk : hd.fl.isTrackable with
              | true => rfl
              | false => exfalso; apply hpin; simp [he, htk]
            · exact h.own p e h' hg' he
          · intro o ts ht; simp [funTarget] at ht
  | bad => simp [mkFun] at hm

end Sigc.Emit
