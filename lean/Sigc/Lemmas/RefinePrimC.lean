import Sigc.Lemmas.RefinePrimB
/-!
# Refine work package — primitives, part C: queries and `block()` through a connection, functor-copy
counts, owned objects (`collect`).
-/
namespace Sigc.Refine
open Sigc.Model

/-! ## generic -/

theorem AR.set_left {α β : Type} {r : α → β → Prop} {l : List (Nat × α)} {m : List (Nat × β)} (h : AR r l m)
    {k : Nat} {a' : α} {b : β} (hb : aget m k = some b) (hab : r a' b) : AR r (aset l k a') m := by
  induction h with
  | nil => simp [aget] at hb
  | @cons p q l m hpq hlm ih =>
    obtain ⟨k1, a1⟩ := p
    obtain ⟨k2, b1⟩ := q
    obtain ⟨e, hr⟩ := hpq
    simp only at e hr
    subst e
    by_cases hk : k1 = k
    · subst hk
      simp [aget] at hb; subst hb
      simp only [aset, if_true]; exact F2.cons ⟨rfl, hab⟩ hlm
    · simp [aget, hk] at hb
      simp only [aset, hk, if_false]; exact F2.cons ⟨rfl, hr⟩ (ih hb)

theorem F2.map_left {α β : Type} {r r' : α → β → Prop} {l : List α} {m : List β} (h : F2 r l m) (f : α → α)
    (hf : ∀ a b, a ∈ l → b ∈ m → r a b → r' (f a) b) : F2 r' (l.map f) m := by
  have := h.map (r' := r') f id hf
  simpa using this

/-! ## looking at a cell through a connection -/

theorem spec_getCell_live {t : Spec.LSt} {cid i : Nat} {g : Spec.LSig} {d : Spec.LCell}
    (hf : Spec.findSig t.sigs cid = some i) (hg : aget t.sigs i = some g)
    (hd : g.cells.find? (fun c => c.id = cid && !c.zombie) = some d) : Spec.getCell t cid = some (i, d) := by
  simp [Spec.getCell, hf, hg, hd]

theorem spec_getCell_none {t : Spec.LSt} {cid : Nat} (hf : Spec.findSig t.sigs cid = none) : Spec.getCell t cid = none := by
  simp [Spec.getCell, hf]

theorem gone_findSig {sigs : List (Nat × Spec.LSig)} {n cid : Nat} (h : Gone sigs n cid) : Spec.findSig sigs cid = none := by
  cases hf : Spec.findSig sigs cid with
  | none => rfl
  | some i =>
    obtain ⟨g, hg, c, hc, e, _⟩ := findSig_some hf
    exact absurd e (h.2 (i, g) hg c hc)

/-- `connection::connected()` -/
theorem connConnected_sim {s : St} {t : Spec.LSt} (hs : Emit.Inv s) (hR : R s t) {pm ps : Option Nat}
    (hp : PtrR t.sigs t.next pm ps) : Spec.connConnected t ps = Model.connConnected s pm := by
  rcases hp with e | ⟨e, cid, e2, hgone⟩
  · subst e
    cases pm with
    | none => rfl
    | some cid =>
      simp only [Spec.connConnected, Model.connConnected]
      rcases lookup hs hR cid with ⟨h1, h2, _⟩ | ⟨i, c, im, g, d, h1, hi, hgi, hr, hcm, hcid, hd, hcd, _, hlive, hdead⟩
      · rw [h1, spec_getCell_none h2]
      · rw [h1]
        cases hz : d.zombie with
        | false =>
          obtain ⟨hf, hfd⟩ := hlive hz
          rw [spec_getCell_live hf hgi hfd]
          simp only [hcd.slot hz]
        | true =>
          rw [spec_getCell_none (hdead hz)]
          have hl : c.linked = false := by
            have := hcd.zombie; rw [hz] at this
            cases h : c.linked <;> simp [h] at this ⊢
          simp [(hs.ok i im hi).l c hcm hl]
  · subst e; subst e2
    simp [Spec.connConnected, Model.connConnected, spec_getCell_none (gone_findSig hgone)]

/-- `connection::blocked()` -/
theorem connBlocked_sim {s : St} {t : Spec.LSt} (hs : Emit.Inv s) (hR : R s t) {pm ps : Option Nat}
    (hp : PtrR t.sigs t.next pm ps) : ResAllows (Spec.connBlockedStr t ps) (bstr (Model.connBlocked s pm)) := by
  rcases hp with e | ⟨e, cid, e2, hgone⟩
  · subst e
    cases pm with
    | none => left; rfl
    | some cid =>
      simp only [Spec.connBlockedStr, Model.connBlocked]
      rcases lookup hs hR cid with ⟨h1, h2, _⟩ | ⟨i, c, im, g, d, h1, hi, hgi, hr, hcm, hcid, hd, hcd, _, hlive, hdead⟩
      · rw [spec_getCell_none h2]; right; rfl
      · rw [h1]
        cases hz : d.zombie with
        | false =>
          obtain ⟨hf, hfd⟩ := hlive hz
          rw [spec_getCell_live hf hgi hfd]
          simp only [hcd.slot hz]
          left; rfl
        | true =>
          rw [spec_getCell_none (hdead hz)]; right; rfl
  · subst e; subst e2
    simp only [Spec.connBlockedStr, spec_getCell_none (gone_findSig hgone)]
    right; rfl

theorem sameHold_blocked (sl : SlotB) (b : Bool) : SameHold { sl with blocked := b } sl := ⟨fun _ => rfl, fun _ => rfl⟩

/-- the specification's `block(b)` through a connection -/
def specBlock (t : Spec.LSt) (ps : Option Nat) (b : Bool) : Spec.LSt :=
  match ps with
  | some cid => Spec.updCell t cid (fun c => { c with slot := { c.slot with blocked := b } })
  | none => t

/-- `connection::block(b)` -/
theorem R_connBlock {s : St} {t : Spec.LSt} (hs : Emit.Inv s) (hR : R s t) {pm ps : Option Nat}
    (hp : PtrR t.sigs t.next pm ps) (b : Bool) : R (Model.connBlock s pm b) (specBlock t ps b) := by
  unfold specBlock
  rcases hp with e | ⟨e, cid, e2, hgone⟩
  · subst e
    cases pm with
    | none => exact hR
    | some cid =>
      simp only [Model.connBlock]
      rcases lookup hs hR cid with ⟨h1, h2, _⟩ | ⟨i, c, im, g, d, h1, hi, hgi, hr, hcm, hcid, hd, hcd, hother, hlive, hdead⟩
      · rw [h1]
        simp only [Spec.updCell, h2]; exact hR
      · rw [h1]
        simp only
        rw [Emit.updCell_eq hi]
        have hcellsEq : ∀ c' d', c' ∈ im.cells → d' ∈ g.cells → CellR c' d' → c'.id = cid → d' = d := by
          intro c' d' _ hd' hcd' e
          exact (hother (i, g) (Emit.aget_some_mem hgi) d' hd' (by rw [hcd'.id, e])).2
        cases hz : d.zombie with
        | false =>
          obtain ⟨hf, _⟩ := hlive hz
          simp only [Spec.updCell, hf, hgi]
          have hcells : F2 CellR (im.cells.map (Emit.updC cid (fun c => { c with slot := { c.slot with blocked := b } })))
              (g.cells.map (fun c => if c.id = cid then { c with slot := { c.slot with blocked := b } } else c)) := by
            apply hr.cells.map
            intro c' d' hc' hd' hcd'
            unfold Emit.updC
            rw [hcd'.id]
            by_cases e : c'.id = cid
            · have := hcellsEq c' d' hc' hd' hcd' e
              subst this
              simp only [e, if_true]
              exact ⟨rfl, hcd'.marker, hcd'.zombie, fun _ => by simp [hcd'.slot hz], fun h => by simp [hz] at h, hcd'.lrep⟩
            · simp only [e, if_false]; exact hcd'
          have hle : SigsLe t.sigs t.next (aset t.sigs i { g with cells := g.cells.map (fun c => if c.id = cid then { c with slot := { c.slot with blocked := b } } else c) }) := by
            apply SigsLe.aset_sub hgi
            intro c' hc' _
            obtain ⟨c0, hc0, rfl⟩ := List.mem_map.mp hc'
            refine ⟨c0, hc0, ?_⟩
            split <;> rfl
          exact ⟨hR.T, hR.S, hR.G, ptrs_mono (Nat.le_refl _) hle hR.C, ptrs_mono (Nat.le_refl _) hle hR.K,
            hR.sigs.set i ⟨hcells, hr.active, hr.dirty, hr.limbo⟩, hR.ownedT, ptrs_mono (Nat.le_refl _) hle hR.ownedK, hR.ownedG,
            hR.next, hR.depth, hR.steps, hR.trace, hR.k1, hR.k2⟩
        | true =>
          simp only [Spec.updCell, hdead hz]
          have hcells : F2 CellR (im.cells.map (Emit.updC cid (fun c => { c with slot := { c.slot with blocked := b } })))
              g.cells := by
            apply hr.cells.map_left
            intro c' d' hc' hd' hcd'
            unfold Emit.updC
            by_cases e : c'.id = cid
            · have := hcellsEq c' d' hc' hd' hcd' e
              subst this
              simp only [e, if_true]
              refine ⟨by rw [hcd'.id, e], hcd'.marker, hcd'.zombie, fun h => by simp [hz] at h, fun _ => ?_, hcd'.lrep⟩
              obtain ⟨h1, h2⟩ := hcd'.zslot hz
              exact ⟨h1, (sameHold_blocked _ _).trans h2⟩
            · simp only [e, if_false]; exact hcd'
          exact ⟨hR.T, hR.S, hR.G, hR.C, hR.K, hR.sigs.set_left hgi ⟨hcells, hr.active, hr.dirty, hr.limbo⟩, hR.ownedT,
            hR.ownedK, hR.ownedG, hR.next, hR.depth, hR.steps, hR.trace, hR.k1, hR.k2⟩
  · subst e; subst e2
    simp only [Model.connBlock, Spec.updCell, gone_findSig hgone]
    exact hR

/-! ## functor copies -/

theorem holds_sim {c : Cell} {d : Spec.LCell} (h : CellR c d) : SameHold c.slot d.slot := by
  cases hz : d.zombie with
  | false => rw [h.slot hz]; exact SameHold.refl _
  | true => exact (h.zslot hz).2

theorem heldT_sim {s : St} {t : Spec.LSt} (hR : R s t) (o : Nat) : Spec.heldT t o = Model.heldT s o := by
  unfold Spec.heldT Model.heldT
  rw [hR.S]
  congr 1
  apply Eq.symm
  apply F2.any hR.sigs
  intro p q _ _ hpq
  rw [hpq.2.limbo]
  simp only [List.any_nil, Bool.or_false]
  exact F2.any hpq.2.cells _ _ (fun c d _ _ hcd => (holds_sim hcd).1 o)

theorem heldK_sim {s : St} {t : Spec.LSt} (hR : R s t) (k : Nat) : Spec.heldK t k = Model.heldK s k := by
  unfold Spec.heldK Model.heldK
  rw [hR.S]
  congr 1
  apply Eq.symm
  apply F2.any hR.sigs
  intro p q _ _ hpq
  rw [hpq.2.limbo]
  simp only [List.any_nil, Bool.or_false]
  exact F2.any hpq.2.cells _ _ (fun c d _ _ hcd => (holds_sim hcd).2 k)

/-- when no list is being emitted the functor-copy counts agree -/
theorem liveCount_sim {s : St} {t : Spec.LSt} (hs : Emit.Inv s) (hR : R s t) (hq : ∀ i, Emit.execOf s i = 0) (fid : Nat) :
    Spec.liveCount t fid = Model.liveCount s fid := by
  unfold Spec.liveCount Model.liveCount
  rw [hR.S]
  congr 2
  apply Eq.symm
  apply F2.map_eq hR.sigs
  intro p q hp _ hpq
  have hi := Emit.aget_of_mem_nodup hs.keys (show (p.1, p.2) ∈ s.impls from hp)
  have hx : p.2.exec = 0 := by have := hq p.1; rw [Emit.execOf_pos hi] at this; exact this
  have hok := hs.ok p.1 p.2 hi
  congr 1
  apply F2.map_eq hpq.2.cells
  intro c d hc _ hcd
  have hl := hok.d (hok.q1 hx) c hc (hok.no_markers hx c hc)
  have hz : d.zombie = false := by rw [hcd.zombie, hl]; rfl
  rw [hcd.slot hz]

end Sigc.Refine
