import Sigc.Lemmas.SpecKBasic
/-!
# SpecK — lemmas about the simulation relation `Q`: extension of the id relation, allocation, list
access and update, what functors hold, the frame `Fr`.
-/
namespace Sigc.SpecK
open Sigc.Model Sigc.Spec

/-! ## `Step`, `Fr` -/

theorem Step.refl (ρ : IdRel) (t u : LSt) : Step ρ ρ t t u u :=
  ⟨fun _ _ h => h, fun _ _ h => Or.inl h, Nat.le_refl _, Nat.le_refl _⟩

theorem Step.of_eq {ρ : IdRel} {t t' u u' : LSt} (h1 : t'.next = t.next) (h2 : u'.next = u.next) :
    Step ρ ρ t t' u u' :=
  ⟨fun _ _ h => h, fun _ _ h => Or.inl h, by omega, by omega⟩

theorem Step.of_le {ρ : IdRel} {t t' u u' : LSt} (h1 : t.next ≤ t'.next) (h2 : u.next ≤ u'.next) :
    Step ρ ρ t t' u u' :=
  ⟨fun _ _ h => h, fun _ _ h => Or.inl h, h1, h2⟩

theorem Step.trans {ρ ρ1 ρ2 : IdRel} {t t1 t2 u u1 u2 : LSt} (h1 : Step ρ ρ1 t t1 u u1)
    (h2 : Step ρ1 ρ2 t1 t2 u1 u2) : Step ρ ρ2 t t2 u u2 := by
  refine ⟨fun a b h => h2.sub _ _ (h1.sub _ _ h), fun a b h => ?_, Nat.le_trans h1.nk h2.nk,
    Nat.le_trans h1.np h2.np⟩
  rcases h2.new a b h with h | ⟨ha, hb⟩
  · exact h1.new a b h
  · exact Or.inr ⟨Nat.le_trans h1.nk ha, Nat.le_trans h1.np hb⟩

/-- the same step seen from states with the same counters -/
theorem Step.congr {ρ ρ' : IdRel} {t t' u u' s s' v v' : LSt} (h : Step ρ ρ' t t' u u')
    (e1 : s.next = t.next) (e2 : s'.next = t'.next) (e3 : v.next = u.next) (e4 : v'.next = u'.next) :
    Step ρ ρ' s s' v v' :=
  ⟨h.sub, fun a b x => by rw [e1, e3]; exact h.new a b x, by rw [e1, e2]; exact h.nk, by rw [e3, e4]; exact h.np⟩

theorem Fr.refl (t : LSt) : Fr t t := ⟨rfl, fun _ => rfl, fun _ => rfl⟩

theorem Fr.trans {t t1 t2 : LSt} (h1 : Fr t t1) (h2 : Fr t1 t2) : Fr t t2 :=
  ⟨h2.depth.trans h1.depth, fun i => (h2.act i).trans (h1.act i), fun i => (h2.mks i).trans (h1.mks i)⟩

theorem Fr.of_eq {t t' : LSt} (hd : t'.depth = t.depth) (hs : t'.sigs = t.sigs) : Fr t t' :=
  ⟨hd, fun i => by unfold SpecK.act; rw [hs], fun i => by unfold SpecK.mks; rw [hs]⟩

theorem Quiet.of_fr {t t' : LSt} (h : Quiet t) (hf : Fr t t') : Quiet t' := by
  intro hd i
  rw [hf.act i]
  exact h (by rw [← hf.depth]; exact hd) i

/-! ## lists: invariant and relation under a larger id relation -/

theorem SigInv.mono {n m : Nat} {g : LSig} (h : SigInv n g) (hnm : n ≤ m) : SigInv m g :=
  ⟨fun c hc => Nat.lt_of_lt_of_le (h.lt c hc) hnm, h.nodup, h.idle, h.dead, h.mkslot⟩

theorem SigR.mono {ρ ρ' : IdRel} {g g' : LSig} (h : SigR ρ g g') (hs : ∀ a b, ρ a b → ρ' a b)
    (hm : ∀ c ∈ g.cells, c.marker = true → ∀ b, ¬ ρ' c.id b) : SigR ρ' g g' := by
  refine ⟨h.cells.mono (fun _ _ x => x.mono hs), h.active, h.dirty, h.limbo, ?_, ?_, hm⟩
  · intro c hc hl f hf
    obtain ⟨sl, hsl, f', hf', hr⟩ := h.hold1 c hc hl f hf
    exact ⟨sl, hsl, f', hf', hr.mono hs⟩
  · intro sl hsl f' hf'
    obtain ⟨c, hc, hl, f, hf, hr⟩ := h.hold2 sl hsl f' hf'
    exact ⟨c, hc, hl, f, hf, hr.mono hs⟩

/-- the new pairs of `ρ'` are beyond the counter `n` of the first state -/
theorem SigR.step {ρ ρ' : IdRel} {n m : Nat} {g g' : LSig} (h : SigR ρ g g') (hi : SigInv n g)
    (hs : ∀ a b, ρ a b → ρ' a b) (hn : ∀ a b, ρ' a b → ρ a b ∨ (n ≤ a ∧ m ≤ b)) : SigR ρ' g g' := by
  refine h.mono hs (fun c hc hmk b hb => ?_)
  rcases hn _ _ hb with hb | ⟨hb, _⟩
  · exact h.nomk c hc hmk b hb
  · have := hi.lt c hc; omega

/-! ## the relation under a larger id relation and larger counters -/

theorem Q.renext {ρ ρ' : IdRel} {t u : LSt} (h : Q ρ t u) (hs : ∀ a b, ρ a b → ρ' a b)
    (hn : ∀ a b, ρ' a b → ρ a b ∨ (t.next ≤ a ∧ u.next ≤ b)) (n m : Nat) (h1 : t.next ≤ n) (_h2 : u.next ≤ m)
    (hp : PB ρ' n m) : Q ρ' { t with next := n } { u with next := m } :=
  { T := h.T.imp hs, S := h.S.imp (fun _ _ x => x.mono hs), G := h.G.imp (fun _ _ x => x.mono hs),
    C := h.C.imp (fun _ _ x => x.imp hs), K := h.K.imp (fun _ _ x => x.imp hs),
    sigs := F2.imp h.sigs (fun p _ hp' _ hr => ⟨hs _ _ hr.1, hr.2.step (h.inv p hp').2 hs hn⟩),
    ownedT := h.ownedT.mono hs,
    ownedK := KR.imp h.ownedK hs (fun _ _ x => x.imp hs),
    ownedG := KR.imp h.ownedG hs (fun _ _ x => x), pb := hp,
    depth := h.depth, steps := h.steps, trace := h.trace, k1 := h.k1, k2 := h.k2, k1' := h.k1', k2' := h.k2',
    keys := h.keys,
    inv := fun p hp' => ⟨Nat.lt_of_lt_of_le (h.inv p hp').1 h1, (h.inv p hp').2.mono h1⟩ }

theorem Q.step {ρ ρ' : IdRel} {t u : LSt} (h : Q ρ t u) (hs : ∀ a b, ρ a b → ρ' a b)
    (hn : ∀ a b, ρ' a b → ρ a b ∨ (t.next ≤ a ∧ u.next ≤ b)) (hp : PB ρ' t.next u.next) : Q ρ' t u :=
  h.renext hs hn t.next u.next (Nat.le_refl _) (Nat.le_refl _) hp

/-- both runs allocate an id: the two new ids correspond -/
theorem Q.fresh {ρ : IdRel} {t u : LSt} (h : Q ρ t u) :
    Q (ext ρ t.next u.next) { t with next := t.next + 1 } { u with next := u.next + 1 } :=
  h.renext (ext_sub _ _ _)
    (fun a b x => by
      rcases x with x | ⟨rfl, rfl⟩
      · exact Or.inl x
      · exact Or.inr ⟨Nat.le_refl _, Nat.le_refl _⟩)
    _ _ (Nat.le_succ _) (Nat.le_succ _) h.pb.ext

theorem Step.fresh (ρ : IdRel) (t u : LSt) :
    Step ρ (ext ρ t.next u.next) t { t with next := t.next + 1 } u { u with next := u.next + 1 } :=
  ⟨ext_sub _ _ _, fun a b x => by
      rcases x with x | ⟨rfl, rfl⟩
      · exact Or.inl x
      · exact Or.inr ⟨Nat.le_refl _, Nat.le_refl _⟩, Nat.le_succ _, Nat.le_succ _⟩

/-- only the second run allocates an id (the `k2` shortcut of the first) -/
theorem Q.burnU {ρ : IdRel} {t u : LSt} (h : Q ρ t u) : Q ρ t { u with next := u.next + 1 } :=
  h.renext (fun _ _ x => x) (fun _ _ x => Or.inl x) t.next _ (Nat.le_refl _) (Nat.le_succ _)
    (h.pb.mono (Nat.le_refl _) (Nat.le_succ _))

/-- both runs allocate an id that is not put into correspondence (end markers) -/
theorem Q.burn {ρ : IdRel} {t u : LSt} (h : Q ρ t u) :
    Q ρ { t with next := t.next + 1 } { u with next := u.next + 1 } :=
  h.renext (fun _ _ x => x) (fun _ _ x => Or.inl x) _ _ (Nat.le_succ _) (Nat.le_succ _)
    (h.pb.mono (Nat.le_succ _) (Nat.le_succ _))

/-! ## list access and update -/

theorem Q.sig_get {ρ : IdRel} {t u : LSt} (h : Q ρ t u) {i i' : Nat} (hi : ρ i i') :
    OR (SigR ρ) (aget t.sigs i) (aget u.sigs i') := KR.get h.pb h.sigs hi

theorem Q.sig_inv {ρ : IdRel} {t u : LSt} (h : Q ρ t u) {i : Nat} {g : LSig} (hg : aget t.sigs i = some g) :
    i < t.next ∧ SigInv t.next g := h.inv (i, g) (aget_mem hg)

theorem Q.setSig {ρ : IdRel} {t u : LSt} (h : Q ρ t u) {i i' : Nat} (hi : ρ i i') {g g' : LSig}
    (hg : SigR ρ g g') (hv : SigInv t.next g) : Q ρ (setSig t i g) (setSig u i' g') :=
  { h with sigs := KR.set h.pb h.sigs hi hg,
           keys := aset_keys_nodup h.keys _ _,
           inv := fun p hp => by
             rcases mem_aset hp with e | e
             · subst e; exact ⟨(h.pb.lt hi).1, hv⟩
             · exact h.inv p e }

theorem act_setSig (t : LSt) (i : Nat) (g : LSig) (j : Nat) :
    act (setSig t i g) j = if j = i then g.active else act t j := by
  unfold act setSig
  by_cases e : j = i
  · subst e; simp
  · simp [e, aget_aset_other _ _ _ _ e]

theorem mks_setSig (t : LSt) (i : Nat) (g : LSig) (j : Nat) :
    mks (setSig t i g) j = if j = i then (g.cells.filter (·.marker)).map (·.id) else mks t j := by
  unfold mks setSig
  by_cases e : j = i
  · subst e; simp
  · simp [e, aget_aset_other _ _ _ _ e]

/-- replacing list `i` by a list with the same `active` and the same end markers -/
theorem Fr.setSig {t : LSt} {i : Nat} {g0 g : LSig} (h0 : aget t.sigs i = some g0) (ha : g.active = g0.active)
    (hm : (g.cells.filter (·.marker)).map (·.id) = (g0.cells.filter (·.marker)).map (·.id)) :
    Fr t (setSig t i g) := by
  refine ⟨rfl, fun j => ?_, fun j => ?_⟩
  · rw [act_setSig]; split
    · rename_i e; subst e; simp [SpecK.act, h0, ha]
    · rfl
  · rw [mks_setSig]; split
    · rename_i e; subst e; simp [SpecK.mks, h0, hm]
    · rfl

/-! ## what the functors hold -/

theorem any_split {α : Type} (l : List α) (q p : α → Bool) :
    l.any p = ((l.filter q).any p || l.any (fun c => !q c && p c)) := by
  rw [Bool.eq_iff_iff]
  simp only [Bool.or_eq_true, List.any_eq_true, List.mem_filter, Bool.and_eq_true, Bool.not_eq_true']
  constructor
  · rintro ⟨x, hx, hp⟩
    cases hq : q x
    · exact Or.inr ⟨x, hx, hq, hp⟩
    · exact Or.inl ⟨x, ⟨hx, hq⟩, hp⟩
  · rintro (⟨x, ⟨hx, _⟩, hp⟩ | ⟨x, hx, _, hp⟩) <;> exact ⟨x, hx, hp⟩

theorem SigR.holdsT {ρ : IdRel} {n n' : Nat} (hp : PB ρ n n') {g g' : LSig} (h : SigR ρ g g') {o o' : Nat}
    (ho : ρ o o') :
    (g'.cells.any (fun c => c.slot.holdsT o') || g'.limbo.any (fun sl => sl.holdsT o'))
      = (g.cells.any (fun c => c.slot.holdsT o) || g.limbo.any (fun sl => sl.holdsT o)) := by
  rw [h.limbo, any_split g.cells live]
  simp only [List.any_nil, Bool.or_false]
  have e1 : (g.cells.filter live).any (fun c => c.slot.holdsT o) = g'.cells.any (fun c => c.slot.holdsT o') :=
    F2.any h.cells _ _ (fun a b _ _ hr => (hr.slot.holdsT hp ho).symm)
  have e2 : g.cells.any (fun c => !live c && c.slot.holdsT o) = g'.limbo.any (fun sl => sl.holdsT o') := by
    rw [Bool.eq_iff_iff]
    simp only [List.any_eq_true, Bool.and_eq_true, Bool.not_eq_true']
    constructor
    · rintro ⟨c, hc, hl, hh⟩
      rw [holdsT_eq] at hh
      cases hf : SlotB.fnOf c.slot with
      | none => rw [hf] at hh; simp at hh
      | some f =>
        rw [hf] at hh
        obtain ⟨sl, hsl, f', hf', hr⟩ := h.hold1 c hc hl f hf
        refine ⟨sl, hsl, ?_⟩
        rw [holdsT_eq, hf']
        simp only
        rw [← F2.contains hp hr.ownsT ho]; exact hh
    · rintro ⟨sl, hsl, hh⟩
      rw [holdsT_eq] at hh
      cases hf' : SlotB.fnOf sl with
      | none => rw [hf'] at hh; simp at hh
      | some f' =>
        rw [hf'] at hh
        obtain ⟨c, hc, hl, f, hf, hr⟩ := h.hold2 sl hsl f' hf'
        refine ⟨c, hc, hl, ?_⟩
        rw [holdsT_eq, hf]
        simp only
        rw [F2.contains hp hr.ownsT ho]; exact hh
  rw [e1, e2]

theorem SigR.holdsK {ρ : IdRel} {n n' : Nat} (hp : PB ρ n n') {g g' : LSig} (h : SigR ρ g g') {o o' : Nat}
    (ho : ρ o o') :
    (g'.cells.any (fun c => c.slot.holdsK o') || g'.limbo.any (fun sl => sl.holdsK o'))
      = (g.cells.any (fun c => c.slot.holdsK o) || g.limbo.any (fun sl => sl.holdsK o)) := by
  rw [h.limbo, any_split g.cells live]
  simp only [List.any_nil, Bool.or_false]
  have e1 : (g.cells.filter live).any (fun c => c.slot.holdsK o) = g'.cells.any (fun c => c.slot.holdsK o') :=
    F2.any h.cells _ _ (fun a b _ _ hr => (hr.slot.holdsK hp ho).symm)
  have e2 : g.cells.any (fun c => !live c && c.slot.holdsK o) = g'.limbo.any (fun sl => sl.holdsK o') := by
    rw [Bool.eq_iff_iff]
    simp only [List.any_eq_true, Bool.and_eq_true, Bool.not_eq_true']
    constructor
    · rintro ⟨c, hc, hl, hh⟩
      rw [holdsK_eq] at hh
      cases hf : SlotB.fnOf c.slot with
      | none => rw [hf] at hh; simp at hh
      | some f =>
        rw [hf] at hh
        obtain ⟨sl, hsl, f', hf', hr⟩ := h.hold1 c hc hl f hf
        refine ⟨sl, hsl, ?_⟩
        rw [holdsK_eq, hf']
        simp only
        rw [← F2.contains hp hr.ownsK ho]; exact hh
    · rintro ⟨sl, hsl, hh⟩
      rw [holdsK_eq] at hh
      cases hf' : SlotB.fnOf sl with
      | none => rw [hf'] at hh; simp at hh
      | some f' =>
        rw [hf'] at hh
        obtain ⟨c, hc, hl, f, hf, hr⟩ := h.hold2 sl hsl f' hf'
        refine ⟨c, hc, hl, ?_⟩
        rw [holdsK_eq, hf]
        simp only
        rw [F2.contains hp hr.ownsK ho]; exact hh
  rw [e1, e2]

theorem Q.heldT {ρ : IdRel} {t u : LSt} (h : Q ρ t u) {o o' : Nat} (ho : ρ o o') :
    Spec.heldT u o' = Spec.heldT t o := by
  unfold Spec.heldT
  congr 1
  · exact (AR.any h.S _ _ (fun _ a b hr => (hr.slot.holdsT h.pb ho).symm)).symm
  · exact (F2.any h.sigs _ _ (fun p q _ _ hr => (hr.2.holdsT h.pb ho).symm)).symm

theorem Q.heldK {ρ : IdRel} {t u : LSt} (h : Q ρ t u) {o o' : Nat} (ho : ρ o o') :
    Spec.heldK u o' = Spec.heldK t o := by
  unfold Spec.heldK
  congr 1
  · exact (AR.any h.S _ _ (fun _ a b hr => (hr.slot.holdsK h.pb ho).symm)).symm
  · exact (F2.any h.sigs _ _ (fun p q _ _ hr => (hr.2.holdsK h.pb ho).symm)).symm

end Sigc.SpecK
