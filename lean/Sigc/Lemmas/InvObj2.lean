import Sigc.Lemmas.InvObj
/-!
`OU`: distinct trackable names denote distinct objects, different from the trackable base of every signal
object and from every functor-owned object; all object ids are below the allocator.
-/
namespace Sigc.Inv
open Sigc.Model

structure OUI (T : List (Nat × Nat)) (G : List (Nat × Handle)) (oT : List Nat) (n : Nat) : Prop where
  u1 : ∀ a b o, aget T a = some o → aget T b = some o → a = b
  u2 : ∀ a o g hd, aget T a = some o → aget G g = some hd → hd.trk ≠ o
  u3 : ∀ a o, aget T a = some o → o ∉ oT
  ltT : ∀ a o, aget T a = some o → o < n
  ltG : ∀ g hd, aget G g = some hd → hd.trk < n
  ltO : ∀ o ∈ oT, o < n

def OU (s : St) : Prop := OUI s.T s.G s.ownedT s.next

theorem OU.init : OU {} :=
  ⟨fun a b o h => by simp [aget] at h, fun a o g hd h => by simp [aget] at h, fun a o h => by simp [aget] at h,
   fun a o h => by simp [aget] at h, fun g hd h => by simp [aget] at h, fun o h => by cases h⟩

theorem OUI.mono {T G oT} {n n' : Nat} (h : OUI T G oT n) (hn : n ≤ n') : OUI T G oT n' :=
  ⟨h.u1, h.u2, h.u3, fun a o e => Nat.lt_of_lt_of_le (h.ltT a o e) hn,
   fun g hd e => Nat.lt_of_lt_of_le (h.ltG g hd e) hn, fun o e => Nat.lt_of_lt_of_le (h.ltO o e) hn⟩

theorem OU.prims : PrimsA OU where
  upd _ _ _ _ _ _ _ h _ _ := h
  filter s i im p d ids _ h _ _ := by
    show OUI (nullConnsList _ _).T (nullConnsList _ _).G (nullConnsList _ _).ownedT (nullConnsList _ _).next
    simp only [nullConnsList_T, nullConnsList_G, nullConnsList_ownedT, nullConnsList_next]; exact h
  delImpl s i im _ h _ _ _ := by
    show OUI (nullConnsList _ _).T (nullConnsList _ _).G (nullConnsList _ _).ownedT (nullConnsList _ _).next
    simp only [nullConnsList_T, nullConnsList_G, nullConnsList_ownedT, nullConnsList_next]; exact h
  invalS _ _ _ h := h

theorem OU.fail {s : St} (m : String) (h : OU s) : OU (s.fail m) := by
  unfold St.fail; split <;> exact h

theorem oui_succ {T G oT n} (h : OUI T G oT n) : OUI T G oT (n+1) := h.mono (Nat.le_succ _)

theorem oui_aset_T_fresh {T G oT n} {t : Nat} (h : OUI T G oT n) : OUI (aset T t n) G oT (n+1) := by
  refine ⟨?_, ?_, ?_, ?_, fun g hd e => Nat.lt_succ_of_lt (h.ltG g hd e), fun o e => Nat.lt_succ_of_lt (h.ltO o e)⟩
  · intro a b o ha hb
    rw [aget_aset] at ha hb
    split at ha
    · rename_i ea
      split at hb
      · rename_i eb; rw [ea, eb]
      · cases ha; exact absurd (h.ltT b _ hb) (Nat.lt_irrefl _)
    · split at hb
      · cases hb; exact absurd (h.ltT a _ ha) (Nat.lt_irrefl _)
      · exact h.u1 a b o ha hb
  · intro a o g hd ha hg
    rw [aget_aset] at ha
    split at ha
    · cases ha; exact Nat.ne_of_lt (h.ltG g hd hg)
    · exact h.u2 a o g hd ha hg
  · intro a o ha
    rw [aget_aset] at ha
    split at ha
    · cases ha; exact fun e => Nat.lt_irrefl _ (h.ltO _ e)
    · exact h.u3 a o ha
  · intro a o ha
    rw [aget_aset] at ha
    split at ha
    · cases ha; exact Nat.lt_succ_self _
    · exact Nat.lt_succ_of_lt (h.ltT a o ha)

theorem oui_adel_T {T G oT n} {t : Nat} (h : OUI T G oT n) : OUI (adel T t) G oT n := by
  have sub : ∀ a o, aget (adel T t) a = some o → aget T a = some o := by
    intro a o e; rw [aget_adel] at e; split at e
    · cases e
    · exact e
  exact ⟨fun a b o ha hb => h.u1 a b o (sub a o ha) (sub b o hb),
    fun a o g hd ha hg => h.u2 a o g hd (sub a o ha) hg, fun a o ha => h.u3 a o (sub a o ha),
    fun a o ha => h.ltT a o (sub a o ha), h.ltG, h.ltO⟩

theorem oui_adel_G {T G oT n} {g : Nat} (h : OUI T G oT n) : OUI T (adel G g) oT n := by
  have sub : ∀ a hd, aget (adel G g) a = some hd → aget G a = some hd := by
    intro a o e; rw [aget_adel] at e; split at e
    · cases e
    · exact e
  exact ⟨h.u1, fun a o g' hd ha hg => h.u2 a o g' hd ha (sub g' hd hg), h.u3, h.ltT,
    fun g' hd hg => h.ltG g' hd (sub g' hd hg), h.ltO⟩

theorem oui_aset_G_same {T G oT n} {g : Nat} {h0 hd : Handle} (hg : aget G g = some h0)
    (e2 : hd.trk = h0.trk) (h : OUI T G oT n) : OUI T (aset G g hd) oT n := by
  have sub : ∀ a hd', aget (aset G g hd) a = some hd' → ∃ hd'', aget G a = some hd'' ∧ hd''.trk = hd'.trk := by
    intro a hd' e; rw [aget_aset] at e; split at e
    · rename_i ea; cases e; exact ⟨h0, ea ▸ hg, e2.symm⟩
    · exact ⟨hd', e, rfl⟩
  refine ⟨h.u1, ?_, h.u3, h.ltT, ?_, h.ltO⟩
  · intro a o g' hd' ha hg'
    obtain ⟨hd'', h1, h2⟩ := sub g' hd' hg'
    rw [← h2]; exact h.u2 a o g' hd'' ha h1
  · intro g' hd' hg'
    obtain ⟨hd'', h1, h2⟩ := sub g' hd' hg'
    rw [← h2]; exact h.ltG g' hd'' h1

theorem oui_newG {T G oT n} {g : Nat} {fl : Flavour} {im : Option Nat} {lvl : Nat} (h : OUI T G oT n) :
    OUI T (aset G g { obj := n, fl := fl, impl := im, trk := n + 1, lvl := lvl }) oT (n + 1 + 1) := by
  have h' := h.mono (Nat.le_trans (Nat.le_succ n) (Nat.le_succ _))
  refine ⟨h.u1, ?_, h.u3, h'.ltT, ?_, h'.ltO⟩
  · intro a o g' hd' ha hg'
    rw [aget_aset] at hg'
    split at hg'
    · cases hg'
      have := h.ltT a o ha
      simp only; omega
    · exact h.u2 a o g' hd' ha hg'
  · intro g' hd' hg'
    rw [aget_aset] at hg'
    split at hg'
    · cases hg'; simp only; omega
    · exact h'.ltG g' hd' hg'

theorem oui_filter_oT {T G oT n} (p : Nat → Bool) (h : OUI T G oT n) : OUI T G (oT.filter p) n :=
  ⟨h.u1, h.u2, fun a o ha e => h.u3 a o ha (List.mem_filter.1 e).1, h.ltT, h.ltG,
   fun o e => h.ltO o (List.mem_filter.1 e).1⟩

theorem OU.ensureImpl {s s1 : St} {g i : Nat} (h : OU s) (he : ensureImpl s g = some (s1, i)) : OU s1 := by
  unfold Model.ensureImpl at he
  split at he
  · cases he
  · rename_i hd hg
    split at he
    · cases he; exact h
    · simp only [St.fresh, Option.some.injEq, Prod.mk.injEq] at he
      obtain ⟨rfl, rfl⟩ := he
      exact oui_succ (oui_aset_G_same (hd := { hd with impl := some s.next }) hg rfl h)

theorem OU.mkFun {s s' : St} {v : Bool} {spec : FSpec} {fn : Fun} (h : OU s)
    (hm : mkFun s v spec = .ok (fn, s')) : OU s' := by
  have fin : ∀ {x : Fun × St}, (Except.ok x : Except String (Fun × St)) = .ok (fn, s') → x.2 = s' := by
    intro x e; cases e; rfl
  cases spec with
  | fwd g =>
    simp only [Model.mkFun] at hm
    split at hm
    · cases hm
    · rename_i hd hg
      split at hm
      · cases hm
      split at hm
      · cases hm
      · have := fin hm; subst this
        exact oui_aset_G_same (hd := { hd with everFwd := true }) hg rfl h
  | ownG fid g =>
    simp only [Model.mkFun] at hm
    split at hm
    · cases hm
    · split at hm
      · cases hm
      split at hm
      · cases hm
      · have := fin hm; subst this
        exact oui_succ h
  | ownT fid t =>
    simp only [Model.mkFun] at hm
    split at hm
    · cases hm
    · rename_i o' ht
      have := fin hm; subst this
      have h1 : OUI (adel s.T t) s.G s.ownedT s.next := oui_adel_T h
      refine ⟨h1.u1, h1.u2, ?_, h1.ltT, h1.ltG, ?_⟩
      · intro a o ha hm'
        have ha' : aget s.T a = some o := by
          rw [aget_adel] at ha; split at ha
          · cases ha
          · exact ha
        rcases List.mem_cons.1 hm' with e | e
        · subst e
          have := h.u1 a t o ha' ht
          subst this
          rw [aget_adel] at ha; simp at ha
        · exact h.u3 a o ha' e
      · intro o hm'
        rcases List.mem_cons.1 hm' with e | e
        · subst e; exact h.ltT t o ht
        · exact h.ltO o e
  | ownK fid k =>
    simp only [Model.mkFun] at hm
    split at hm
    · cases hm
    · have := fin hm; subst this
      exact oui_succ h
  | fn _ => simp only [Model.mkFun] at hm; have := fin hm; subst this; exact h
  | bad => simp only [Model.mkFun] at hm; cases hm
  | mem _ _ | bref _ _ | trk _ _ _ | nest _ =>
    simp only [Model.mkFun] at hm
    repeat' split at hm
    all_goals (first | (cases hm; done) | skip)
    all_goals (have := fin hm; subst this; exact h)

theorem OU.insert {s : St} (i : Nat) (first : Bool) (sl : SlotB) (h : OU s) :
    OU (insertCell s i first sl).fst := by
  obtain ⟨_, _, _, e4, _, e6, e7, _⟩ := insertCell_frame s i first sl
  have en : s.next ≤ (insertCell s i first sl).fst.next := by
    unfold Model.insertCell
    simp only [St.fresh]
    split
    · unfold St.fail; split <;> exact Nat.le_succ _
    · exact Nat.le_succ _
  unfold OU
  rw [e4, e6, e7]
  exact OUI.mono h en

theorem oui_invalidateTrackable {s : St} {t : Nat} (h : OUI s.T s.G s.ownedT s.next) :
    OUI (invalidateTrackable s t).T (invalidateTrackable s t).G (invalidateTrackable s t).ownedT
      (invalidateTrackable s t).next := OU.prims.invalidateTrackable t h
theorem oui_gcImpl {s : St} {i : Nat} (h : OUI s.T s.G s.ownedT s.next) :
    OUI (gcImpl s i).T (gcImpl s i).G (gcImpl s i).ownedT (gcImpl s i).next := OU.prims.gcImpl i h
theorem oui_disconnectCell {s : St} {i : Nat} (h : OUI s.T s.G s.ownedT s.next) :
    OUI (disconnectCell s i).T (disconnectCell s i).G (disconnectCell s i).ownedT (disconnectCell s i).next :=
  OU.prims.disconnectCell i h
theorem oui_clearImpl {s : St} {i : Nat} (h : OUI s.T s.G s.ownedT s.next) :
    OUI (clearImpl s i).T (clearImpl s i).G (clearImpl s i).ownedT (clearImpl s i).next :=
  OU.prims.clearImpl i h
theorem oui_connBlock {s : St} {p : Option Nat} {b : Bool} (h : OUI s.T s.G s.ownedT s.next) :
    OUI (connBlock s p b).T (connBlock s p b).G (connBlock s p b).ownedT (connBlock s p b).next :=
  OU.prims.connBlock p b h
theorem oui_insertCell {s : St} {i : Nat} {first : Bool} {sl : SlotB} (h : OUI s.T s.G s.ownedT s.next) :
    OUI (insertCell s i first sl).fst.T (insertCell s i first sl).fst.G (insertCell s i first sl).fst.ownedT
      (insertCell s i first sl).fst.next := OU.insert i first sl h

/-- the signal-object operations -/
theorem OU_G_ops (s : St) (op : Op) (s' : St) (r : String) (hI : OU s)
    (hop : (∃ j i, op = .mvG j i) ∨ (∃ j i, op = .asgG j i) ∨ (∃ j i, op = .masgG j i))
    (h : stepSimple s op = some (s', r)) : OU s' := by
  have hasg : ∀ (j i : Nat) (d : Handle) (s1 : St) (im : Nat), aget s.G j = some d → j ≠ i →
      ensureImpl s i = some (s1, im) →
      OUI s1.T (aset s1.G j { d with impl := some im }) s1.ownedT s1.next := by
    intro j i d s1 im hj hne he
    have h2 := OU.ensureImpl hI he
    have hj1 : aget s1.G j = some d := by rw [ensureImpl_G_other he j hne]; exact hj
    exact oui_aset_G_same (hd := { d with impl := some im }) hj1 rfl h2
  rcases hop with ⟨j, i, rfl⟩ | ⟨j, i, rfl⟩ | ⟨j, i, rfl⟩
  all_goals simp only [stepSimple] at h
  · -- mvG
    split at h
    · simp only [Option.some.injEq, Prod.mk.injEq] at h; obtain ⟨rfl, _⟩ := h; exact hI
    rename_i hd hi
    split at h
    · simp only [Option.some.injEq, Prod.mk.injEq] at h; obtain ⟨rfl, _⟩ := h; exact hI
    rename_i hj
    split at h
    · split at h
      · simp only [Option.some.injEq, Prod.mk.injEq] at h; obtain ⟨rfl, _⟩ := h; exact hI
      · rename_i s1 im he
        simp only [St.fresh, Option.some.injEq, Prod.mk.injEq] at h; obtain ⟨rfl, _⟩ := h
        exact oui_newG (OU.ensureImpl hI he)
    · simp only [St.fresh, Option.some.injEq, Prod.mk.injEq] at h; obtain ⟨rfl, _⟩ := h
      have h3 : OUI s.T (aset (aset s.G i { hd with impl := none }) j
          { obj := s.next, fl := hd.fl, impl := hd.impl, trk := s.next + 1, lvl := hd.lvl }) s.ownedT
          (s.next + 1 + 1) :=
        oui_newG (oui_aset_G_same (hd := { hd with impl := none }) hi rfl hI)
      split
      · exact OU.prims.invalidateTrackable _ h3
      · exact h3
  · -- asgG
    split at h
    · rename_i d hh hj hi
      repeat' split at h
      all_goals (simp only [Option.some.injEq, Prod.mk.injEq] at h; obtain ⟨rfl, _⟩ := h)
      all_goals (first | exact hI | exact OU.ensureImpl hI ‹_› | skip)
      all_goals (have h3 := hasg j i d _ _ hj ‹_› ‹_›)
      · exact OU.prims.gcImpl _ h3
      · exact h3
    · simp only [Option.some.injEq, Prod.mk.injEq] at h; obtain ⟨rfl, _⟩ := h; exact hI
  · -- masgG
    split at h
    · rename_i d hh hj hi
      split at h
      · simp only [Option.some.injEq, Prod.mk.injEq] at h; obtain ⟨rfl, _⟩ := h; exact hI
      split at h
      · simp only [Option.some.injEq, Prod.mk.injEq] at h; obtain ⟨rfl, _⟩ := h; exact hI
      split at h
      · simp only [Option.some.injEq, Prod.mk.injEq] at h; obtain ⟨rfl, _⟩ := h; exact hI
      split at h
      · repeat' split at h
        all_goals (simp only [Option.some.injEq, Prod.mk.injEq] at h; obtain ⟨rfl, _⟩ := h)
        all_goals (first | exact hI | exact OU.ensureImpl hI ‹_› | skip)
        all_goals (have h3 := hasg j i d _ _ hj ‹_› ‹_›)
        · exact OU.prims.gcImpl _ h3
        · exact h3
      · split at h
        · simp only [Option.some.injEq, Prod.mk.injEq] at h; obtain ⟨rfl, _⟩ := h; exact hI
        · rename_i hne
          simp only [Option.some.injEq, Prod.mk.injEq] at h; obtain ⟨rfl, _⟩ := h
          have h3 : OUI s.T (aset (aset s.G j { d with impl := hh.impl }) i { hh with impl := none }) s.ownedT
              s.next :=
            oui_aset_G_same (h0 := hh) (hd := { hh with impl := none })
              (by rw [aget_aset_other _ _ _ _ (fun e => hne e.symm)]; exact hi) rfl
              (oui_aset_G_same (hd := { d with impl := hh.impl }) hj rfl hI)
          split <;> split <;>
            first
            | exact OU.prims.invalidateTrackable _ (OU.prims.gcImpl _ h3)
            | exact OU.prims.invalidateTrackable _ h3
            | exact OU.prims.gcImpl _ h3
            | exact h3
    · simp only [Option.some.injEq, Prod.mk.injEq] at h; obtain ⟨rfl, _⟩ := h; exact hI

set_option maxHeartbeats 400000 in
theorem OU_simple (s : St) (op : Op) (s' : St) (r : String) (hI : OU s)
    (h : stepSimple s op = some (s', r)) : OU s' := by
  cases op
  case mvG j i => exact OU_G_ops s _ s' r hI (Or.inl ⟨j, i, rfl⟩) h
  case asgG j i => exact OU_G_ops s _ s' r hI (Or.inr (Or.inl ⟨j, i, rfl⟩)) h
  case masgG j i => exact OU_G_ops s _ s' r hI (Or.inr (Or.inr ⟨j, i, rfl⟩)) h
  all_goals simp only [stepSimple] at h
  all_goals (repeat' split at h)
  all_goals (first | (cases h; done) | skip)
  all_goals (simp only [Option.some.injEq, Prod.mk.injEq] at h; obtain ⟨rfl, _⟩ := h)
  all_goals (first | exact hI | skip)
  all_goals (
    try (have h1 := OU.mkFun hI ‹_›)
    try (have h2 := OU.ensureImpl hI ‹_›)
    try (have h3 := OU.ensureImpl ‹OU _› ‹_›)
    simp only [OU] at *
    first
      | done
      | simp (maxDischargeDepth := 8) only [St.fresh, setConn,
          oui_invalidateTrackable, oui_gcImpl, oui_disconnectCell, oui_clearImpl, oui_connBlock,
          oui_insertCell, oui_adel_T, oui_adel_G, oui_aset_T_fresh, oui_newG, *])

theorem OU_forceDelG (s : St) (g : Nat) (h : OU s) : OU (forceDelG s g) := by
  unfold forceDelG
  split
  · exact h
  · simp only []
    split <;> split <;>
    · simp only [OU] at *
      first | done | simp (maxDischargeDepth := 8) only [oui_invalidateTrackable, oui_gcImpl, oui_adel_G, *]

theorem OU_collectStep (s s' : St) (h : OU s) (hc : collectStep s = some s') : OU s' := by
  unfold collectStep at hc
  split at hc
  · simp only [Option.some.injEq] at hc; subst hc
    exact OU.prims.invalidateTrackable _ (oui_filter_oT _ h)
  · split at hc
    · simp only [Option.some.injEq] at hc; subst hc
      split
      · exact OU.prims.disconnectCell _ h
      · exact h
    · split at hc
      · rename_i k g _
        simp only [Option.some.injEq] at hc; subst hc
        exact OU_forceDelG { s with ownedG := s.ownedG.filter (fun q => q.1 ≠ k) } g h
      · cases hc

theorem OU.stable : Stable OU where
  log _ _ _ h := h
  fail s m _ h := OU.fail m h
  depth _ _ _ h := h
  steps _ _ _ h := h
  incall _ _ _ _ _ h _ := h
  simple s op s' r _ h hs := OU_simple s op s' r h hs
  collect s _ h := collect_preserved OU_collectStep s h
  pro _ _ _ _ h _ := OUI.mono h (Nat.le_succ _)
  erase _ i m _ h := OU.prims.eraseCell i m h
  unref _ i _ h := OU.prims.unrefExec i h
  drop s i _ h := by unfold dropHolder; split <;> exact h
  gc _ i _ h := OU.prims.gcImpl i h
  forceDel s g _ h := OU_forceDelG s g h

theorem OU.reachable (f : Nat) (P : Prog) (s : St) (h : runTop f P {} P.top = some s) : OU s :=
  OU.stable.runTop OU.init f P s h

/-- the destruction of a trackable name really kills its object -/
theorem dead_after_delT {s s' : St} {r : String} (hu : OU s) {t o : Nat} (ht : aget s.T t = some o)
    (h : stepSimple s (.delT t) = some (s', r)) : OD o s' := by
  simp only [stepSimple, ht, Option.some.injEq, Prod.mk.injEq] at h
  obtain ⟨rfl, _⟩ := h
  apply (OD.prims o).invalidateTrackable
  refine ⟨hu.ltT t o ht, ?_⟩
  rintro (⟨a, ha⟩ | ⟨g, hd, hg, _, he⟩ | hm)
  · rw [aget_adel] at ha
    split at ha
    · cases ha
    · rename_i hne; exact hne (hu.u1 a t o ha ht)
  · exact hu.u2 t o g hd ht hg he
  · exact hu.u3 t o ht hm

end Sigc.Inv
