import Sigc.Lemmas.SpecKPrim
/-!
# SpecK — more primitives on related states: removal from a given list (the `clear` arm), mapping the
entries of a list (`updCell`, `blockG`), `ensureSig`, `insertCell`, `gcSig`, `fail`.
-/
namespace Sigc.SpecK
open Sigc.Model Sigc.Spec

theorem Q.fail {ρ : IdRel} {t u : LSt} (h : Q ρ t u) (m m' : String) : Q ρ (t.fail m) (u.fail m') := by
  unfold LSt.fail
  cases t.err <;> cases u.err <;> exact { h with }

theorem fail_next (t : LSt) (m : String) : (t.fail m).next = t.next := by
  unfold LSt.fail; cases t.err <;> rfl

theorem Fr.fail (t : LSt) (m : String) : Fr t (t.fail m) := by
  unfold LSt.fail; cases t.err
  · exact Fr.of_eq rfl rfl
  · exact Fr.refl t

theorem Sim0.fail {ρ : IdRel} {t u : LSt} (h : Q ρ t u) (m m' : String) : Sim0 ρ t u (t.fail m) (u.fail m') :=
  ⟨h.fail m m', Fr.fail t m, fail_next t m, fail_next u m'⟩

/-! ## removal from a given list -/

theorem setSig_remove_sim {ρ : IdRel} {t u : LSt} (h : Q ρ t u) {i i' : Nat} (hi : ρ i i') {g g' : LSig}
    (hx : aget t.sigs i = some g) (hy : aget u.sigs i' = some g') (d : Bool) (p p' : LCell → Bool)
    (hpp : ∀ c c', c ∈ g.cells → live c = true → CellR ρ c c' → p' c' = p c) :
    Sim0 ρ t u (setSig t i (g.remove true true d p)) (setSig u i' (g'.remove false false d p')) := by
  have hg := h.sig_get hi
  rw [hx, hy] at hg
  cases hg with
  | some hg =>
    obtain ⟨hr, hv', ha, hm⟩ := remove_sim h.pb hg (h.sig_inv hx).2 d p p' hpp
    exact ⟨h.setSig hi hr hv', Fr.setSig hx ha hm, rfl, rfl⟩

/-! ## mapping the entries of a list -/

theorem filter_map_comm {α : Type} (l : List α) (F : α → α) (q : α → Bool) (hq : ∀ a, q (F a) = q a) :
    (l.map F).filter q = (l.filter q).map F := by
  induction l with
  | nil => rfl
  | cons a t ih =>
    simp only [List.map_cons, List.filter_cons, hq]
    split
    · simp [ih]
    · exact ih

/-- an entry transformer that only touches the `blocked` flag -/
structure Harmless (F : LCell → LCell) : Prop where
  id : ∀ c, (F c).id = c.id
  marker : ∀ c, (F c).marker = c.marker
  zombie : ∀ c, (F c).zombie = c.zombie
  rep : ∀ c, (F c).slot.rep = c.slot.rep

theorem Harmless.live {F : LCell → LCell} (hF : Harmless F) (c : LCell) : live (F c) = live c := by
  unfold SpecK.live; rw [hF.marker, hF.zombie]

theorem Harmless.fnOf {F : LCell → LCell} (hF : Harmless F) (c : LCell) :
    SlotB.fnOf (F c).slot = SlotB.fnOf c.slot := by
  unfold SlotB.fnOf; rw [hF.rep]

theorem Harmless.empty {F : LCell → LCell} (hF : Harmless F) (c : LCell) : (F c).slot.empty = c.slot.empty := by
  unfold SlotB.empty; rw [hF.rep]

theorem mapCells_sim {ρ : IdRel} {t u : LSt} (h : Q ρ t u) {i i' : Nat} (hi : ρ i i') {g g' : LSig}
    (hx : aget t.sigs i = some g) (hy : aget u.sigs i' = some g') (F F' : LCell → LCell) (hF : Harmless F)
    (hFF : ∀ c c', CellR ρ c c' → CellR ρ (F c) (F' c')) :
    Sim0 ρ t u (setSig t i { g with cells := g.cells.map F }) (setSig u i' { g' with cells := g'.cells.map F' }) := by
  have hg := h.sig_get hi
  rw [hx, hy] at hg
  have hv := (h.sig_inv hx).2
  cases hg with
  | some hg =>
    refine ⟨h.setSig hi ⟨?_, hg.active, hg.dirty, hg.limbo, ?_, ?_, ?_⟩ ⟨?_, ?_, ?_, ?_, ?_⟩, Fr.setSig hx rfl ?_, rfl, rfl⟩
    · simp only
      rw [filter_map_comm _ _ _ hF.live]
      exact F2.map hg.cells _ _ (fun a b _ _ hr => hFF a b hr)
    · intro c hc hl f hf
      simp only at hc
      obtain ⟨c0, hc0, e⟩ := List.mem_map.mp hc
      subst e
      rw [hF.live] at hl; rw [hF.fnOf] at hf
      exact hg.hold1 c0 hc0 hl f hf
    · intro sl hsl f' hf'
      obtain ⟨c, hc, hl, f, hf, hr⟩ := hg.hold2 sl hsl f' hf'
      exact ⟨F c, List.mem_map.mpr ⟨c, hc, rfl⟩, by rw [hF.live]; exact hl, f, by rw [hF.fnOf]; exact hf, hr⟩
    · intro c hc hm
      simp only at hc
      obtain ⟨c0, hc0, e⟩ := List.mem_map.mp hc
      subst e
      rw [hF.marker] at hm; rw [hF.id]; exact hg.nomk c0 hc0 hm
    · intro c hc
      simp only at hc
      obtain ⟨c0, hc0, e⟩ := List.mem_map.mp hc
      subst e; rw [hF.id]; exact hv.lt c0 hc0
    · simp only
      rw [List.map_map]
      have : ((fun x : LCell => x.id) ∘ F) = (fun x : LCell => x.id) := by funext c; simp [hF.id]
      rw [this]; exact hv.nodup
    · intro ha c hc
      simp only at hc ha
      obtain ⟨c0, hc0, e⟩ := List.mem_map.mp hc
      subst e; rw [hF.live]; exact hv.idle ha c0 hc0
    · intro c hc hl
      simp only at hc
      obtain ⟨c0, hc0, e⟩ := List.mem_map.mp hc
      subst e; rw [hF.live] at hl; rw [hF.empty]; exact hv.dead c0 hc0 hl
    · intro c hc hm
      simp only at hc
      obtain ⟨c0, hc0, e⟩ := List.mem_map.mp hc
      subst e; rw [hF.marker] at hm; rw [hF.rep]; exact hv.mkslot c0 hc0 hm
    · simp only
      rw [List.filter_map, List.map_map]
      have e1 : ((fun x : LCell => x.marker) ∘ F) = (fun x : LCell => x.marker) := by funext c; simp [hF.marker]
      have e2 : ((fun x : LCell => x.id) ∘ F) = (fun x : LCell => x.id) := by funext c; simp [hF.id]
      rw [e1, e2]

theorem updCell_sim {ρ : IdRel} {t u : LSt} (h : Q ρ t u) {cid cid' : Nat} (hc : ρ cid cid') (b : Bool) :
    Sim0 ρ t u (Spec.updCell t cid (fun c => { c with slot := { c.slot with blocked := b } }))
      (Spec.updCell u cid' (fun c => { c with slot := { c.slot with blocked := b } })) := by
  unfold Spec.updCell
  have hf := findSig_sim h.pb h.sigs hc
  generalize findSig t.sigs cid = x at hf
  generalize findSig u.sigs cid' = y at hf
  cases hf with
  | none => exact Sim0.refl h
  | @some i i' hi =>
    simp only
    have hg := h.sig_get hi
    cases hx : aget t.sigs i with
    | none =>
      rw [hx] at hg
      generalize aget u.sigs i' = y at hg
      cases hg; exact Sim0.refl h
    | some g =>
      rw [hx] at hg
      cases hy : aget u.sigs i' with
      | none => rw [hy] at hg; cases hg
      | some g' =>
        simp only
        refine mapCells_sim h hi hx hy _ _ ⟨?_, ?_, ?_, ?_⟩ ?_
        · intro c; split <;> rfl
        · intro c; split <;> rfl
        · intro c; split <;> rfl
        · intro c; split <;> rfl
        · intro c c' hr
          have e := h.pb.eq_iff hr.id hc
          by_cases hcid : c.id = cid
          · rw [if_pos hcid, if_pos (e.mp hcid)]
            exact ⟨hr.id, hr.slot.setBlocked b, hr.marker, hr.zombie⟩
          · rw [if_neg hcid, if_neg (fun x => hcid (e.mpr x))]
            exact hr

/-! ## `ensureSig` -/

theorem SigR.empty (ρ : IdRel) : SigR ρ {} {} :=
  ⟨.nil, rfl, rfl, rfl, fun c hc => by simp at hc, fun sl hsl => by simp at hsl, fun c hc => by simp at hc⟩

theorem SigInv.empty (n : Nat) : SigInv n {} :=
  ⟨fun c hc => by simp at hc, by simp, fun _ c hc => by simp at hc, fun c hc => by simp at hc,
    fun c hc => by simp at hc⟩

theorem aget_fresh {ρ : IdRel} {t u : LSt} (h : Q ρ t u) {i : Nat} (hi : t.next ≤ i) : aget t.sigs i = none := by
  cases hx : aget t.sigs i with
  | none => rfl
  | some g => have := (h.sig_inv hx).1; omega

theorem ensureSig_sim {ρ : IdRel} {t u : LSt} (h : Q ρ t u) (g : Nat) :
    (ensureSig t g = none ∧ ensureSig u g = none) ∨
    ∃ t1 i u1 i' ρ', ensureSig t g = some (t1, i) ∧ ensureSig u g = some (u1, i') ∧ Q ρ' t1 u1 ∧ ρ' i i' ∧
      Step ρ ρ' t t1 u u1 ∧ Fr t t1 := by
  unfold ensureSig
  have hG := h.G.get g
  generalize aget t.G g = x at hG
  generalize aget u.G g = y at hG
  cases hG with
  | none => exact Or.inl ⟨rfl, rfl⟩
  | @some hd hd' hh =>
    right
    simp only
    have himp := hh.impl
    cases hx : hd.impl with
    | some i =>
      rw [hx] at himp
      cases hy : hd'.impl with
      | none => rw [hy] at himp; cases himp
      | some i' =>
        rw [hy] at himp
        cases himp with
        | some hi => exact ⟨t, i, u, i', ρ, rfl, rfl, h, hi, Step.refl _ _ _, Fr.refl _⟩
    | none =>
      rw [hx] at himp
      cases hy : hd'.impl with
      | some i' => rw [hy] at himp; cases himp
      | none =>
        simp only [LSt.fresh]
        have hq := h.fresh
        have hn : ext ρ t.next u.next t.next u.next := ext_new _ _ _
        refine ⟨_, _, _, _, ext ρ t.next u.next, rfl, rfl, ?_, hn, (Step.fresh ρ t u).congr rfl rfl rfl rfl,
          ⟨rfl, fun j => ?_, fun j => ?_⟩⟩
        · exact { hq with
            sigs := KR.set hq.pb hq.sigs hn (SigR.empty _),
            G := AR.set hq.G g ⟨ext_sub _ _ _ _ _ hh.obj, hh.fl, .some hn, ext_sub _ _ _ _ _ hh.trk, hh.lvl, hh.everFwd⟩,
            keys := aset_keys_nodup h.keys _ _,
            inv := fun p hp => by
              rcases mem_aset hp with e | e
              · subst e; exact ⟨Nat.lt_succ_self _, SigInv.empty _⟩
              · exact hq.inv p e }
        · simp only [act]
          by_cases e : j = t.next
          · subst e; simp [aget_fresh h (Nat.le_refl _)]
          · rw [aget_aset_other _ _ _ _ e]
        · simp only [mks]
          by_cases e : j = t.next
          · subst e; simp [aget_fresh h (Nat.le_refl _)]
          · rw [aget_aset_other _ _ _ _ e]

/-! ## `insertCell` -/

theorem SlotR.dummy {ρ : IdRel} {a b : SlotB} (h : SlotR ρ a b) :
    SlotR ρ (match a.rep with | none => { a with rep := some { call := false, fn := none } } | some _ => a)
      (match b.rep with | none => { b with rep := some { call := false, fn := none } } | some _ => b) := by
  obtain ⟨ba, ra⟩ := a
  obtain ⟨bb, rb⟩ := b
  obtain ⟨hb, hr⟩ := h
  simp only at hb hr
  cases hr with
  | none => exact ⟨hb, .some ⟨rfl, .none⟩⟩
  | some hr => exact ⟨hb, .some hr⟩

theorem insertCell_sim {ρ : IdRel} {t u : LSt} (h : Q ρ t u) {i i' : Nat} (hi : ρ i i') (first : Bool)
    {sl sl' : SlotB} (hs : SlotR ρ sl sl') :
    ∃ ρ', Q ρ' (Spec.insertCell t i first sl).1 (Spec.insertCell u i' first sl').1 ∧
      ρ' (Spec.insertCell t i first sl).2 (Spec.insertCell u i' first sl').2 ∧
      Step ρ ρ' t (Spec.insertCell t i first sl).1 u (Spec.insertCell u i' first sl').1 ∧
      Fr t (Spec.insertCell t i first sl).1 := by
  unfold Spec.insertCell
  simp only [LSt.fresh]
  have hq := h.fresh
  have hn : ext ρ t.next u.next t.next u.next := ext_new _ _ _
  have hi2 : ext ρ t.next u.next i i' := ext_sub _ _ _ _ _ hi
  have hs2 := (hs.mono (ext_sub ρ t.next u.next)).dummy
  have hg := hq.sig_get hi2
  simp only at hg
  refine ⟨ext ρ t.next u.next, ?_⟩
  cases hx : aget t.sigs i with
  | none =>
    rw [hx] at hg
    generalize hy : aget u.sigs i' = y at hg
    cases hg
    simp only [hy]
    exact ⟨hq.fail _ _, hn, (Step.fresh ρ t u).congr rfl (fail_next _ _) rfl (fail_next _ _),
      (Fr.of_eq (t := t) (t' := { t with next := t.next + 1 }) rfl rfl).trans (Fr.fail _ _)⟩
  | some g =>
    rw [hx] at hg
    generalize hy : aget u.sigs i' = y at hg
    cases hg with
    | @some _ g' hg =>
      simp only [hy]
      have hv := (hq.sig_inv (t := { t with next := t.next + 1 }) hx).2
      have hv0 := (h.sig_inv hx).2
      have hc : CellR (ext ρ t.next u.next) { id := t.next, slot := (match sl.rep with
            | none => { sl with rep := some { call := false, fn := none } } | some _ => sl) }
          { id := u.next, slot := (match sl'.rep with
            | none => { sl' with rep := some { call := false, fn := none } } | some _ => sl') } :=
        ⟨hn, hs2, rfl, rfl⟩
      refine ⟨hq.setSig hi2 ⟨?_, hg.active, hg.dirty, hg.limbo, ?_, ?_, ?_⟩ ⟨?_, ?_, ?_, ?_, ?_⟩, hn,
        (Step.fresh ρ t u).congr rfl rfl rfl rfl, ?_⟩
      · simp only
        cases first
        · simp only [Bool.false_eq_true, if_false, List.filter_append]
          exact hg.cells.append (by simp [live]; exact F2.single hc)
        · simp only [if_true, List.filter_cons]
          simp only [live, Bool.not_false, Bool.and_self, if_true]
          exact .cons hc hg.cells
      · intro c hc' hl f hf
        simp only at hc'
        have : c ∈ g.cells := by
          cases first
          · simp only [Bool.false_eq_true, if_false, List.mem_append, List.mem_singleton] at hc'
            rcases hc' with hc' | hc'
            · exact hc'
            · subst hc'; simp [live] at hl
          · simp only [if_true, List.mem_cons] at hc'
            rcases hc' with hc' | hc'
            · subst hc'; simp [live] at hl
            · exact hc'
        exact hg.hold1 c this hl f hf
      · intro sl0 hsl f' hf'
        obtain ⟨c, hc', x⟩ := hg.hold2 sl0 hsl f' hf'
        refine ⟨c, ?_, x⟩
        simp only
        cases first
        · simp [hc']
        · simp [hc']
      · intro c hc' hm
        simp only at hc'
        have : c ∈ g.cells := by
          cases first
          · simp only [Bool.false_eq_true, if_false, List.mem_append, List.mem_singleton] at hc'
            rcases hc' with hc' | hc'
            · exact hc'
            · subst hc'; simp at hm
          · simp only [if_true, List.mem_cons] at hc'
            rcases hc' with hc' | hc'
            · subst hc'; simp at hm
            · exact hc'
        exact hg.nomk c this hm
      · intro c hc'
        simp only at hc'
        cases first
        · simp only [Bool.false_eq_true, if_false, List.mem_append, List.mem_singleton] at hc'
          rcases hc' with hc' | hc'
          · exact hv.lt c hc'
          · subst hc'; exact Nat.lt_succ_self _
        · simp only [if_true, List.mem_cons] at hc'
          rcases hc' with hc' | hc'
          · subst hc'; exact Nat.lt_succ_self _
          · exact hv.lt c hc'
      · simp only
        have hnot : t.next ∉ g.cells.map (·.id) := by
          intro hm
          obtain ⟨c, hc', e⟩ := List.mem_map.mp hm
          have := hv0.lt c hc'
          omega
        cases first
        · simp only [Bool.false_eq_true, if_false, List.map_append, List.map_cons, List.map_nil]
          rw [List.nodup_append]
          refine ⟨hv.nodup, by simp, ?_⟩
          intro a ha b hb
          simp at hb; subst hb
          intro e; subst e; exact hnot ha
        · simp only [if_true, List.map_cons, List.nodup_cons]
          exact ⟨hnot, hv.nodup⟩
      · intro ha c hc'
        simp only at hc' ha
        cases first
        · simp only [Bool.false_eq_true, if_false, List.mem_append, List.mem_singleton] at hc'
          rcases hc' with hc' | hc'
          · exact hv.idle ha c hc'
          · subst hc'; rfl
        · simp only [if_true, List.mem_cons] at hc'
          rcases hc' with hc' | hc'
          · subst hc'; rfl
          · exact hv.idle ha c hc'
      · intro c hc' hl
        simp only at hc'
        cases first
        · simp only [Bool.false_eq_true, if_false, List.mem_append, List.mem_singleton] at hc'
          rcases hc' with hc' | hc'
          · exact hv.dead c hc' hl
          · subst hc'; simp [live] at hl
        · simp only [if_true, List.mem_cons] at hc'
          rcases hc' with hc' | hc'
          · subst hc'; simp [live] at hl
          · exact hv.dead c hc' hl
      · intro c hc' hm
        simp only at hc'
        cases first
        · simp only [Bool.false_eq_true, if_false, List.mem_append, List.mem_singleton] at hc'
          rcases hc' with hc' | hc'
          · exact hv.mkslot c hc' hm
          · subst hc'; simp at hm
        · simp only [if_true, List.mem_cons] at hc'
          rcases hc' with hc' | hc'
          · subst hc'; simp at hm
          · exact hv.mkslot c hc' hm
      · refine (Fr.of_eq (t := t) (t' := { t with next := t.next + 1 }) rfl rfl).trans
          (Fr.setSig (t := { t with next := t.next + 1 }) hx rfl ?_)
        simp only
        cases first
        · simp [List.filter_append]
        · simp [List.filter_cons]

/-! ## `gcSig` -/

theorem OR.eq_some {ρ : IdRel} {n n' : Nat} (hp : PB ρ n n') {a b : Option Nat} (h : OR ρ a b) {i i' : Nat}
    (hi : ρ i i') : decide (b = Option.some i') = decide (a = Option.some i) := by
  cases h with
  | none => simp
  | some hx =>
    have := hp.eq_iff hx hi
    rw [Bool.eq_iff_iff, decide_eq_true_iff, decide_eq_true_iff]
    simp only [Option.some.injEq]
    exact this.symm

theorem gcSig_sim {ρ : IdRel} {t u : LSt} (h : Q ρ t u) {i i' : Nat} (hi : ρ i i') :
    Sim0 ρ t u (gcSig t i) (gcSig u i') := by
  unfold gcSig
  have hg := h.sig_get hi
  cases hx : aget t.sigs i with
  | none =>
    rw [hx] at hg
    generalize aget u.sigs i' = y at hg
    cases hg; exact Sim0.refl h
  | some g =>
    rw [hx] at hg
    generalize aget u.sigs i' = y at hg
    cases hg with
    | @some _ g' hg =>
      simp only
      have hany : u.G.any (fun p => decide (p.2.impl = some i')) = t.G.any (fun p => decide (p.2.impl = some i)) :=
        (AR.any h.G _ _ (fun _ a b hr => (hr.impl.eq_some h.pb hi).symm)).symm
      rw [hany, hg.active]
      split
      · rename_i hc
        simp only [Bool.and_eq_true, decide_eq_true_eq] at hc
        have hv := (h.sig_inv hx).2
        refine ⟨{ h with sigs := KR.del h.pb h.sigs hi, keys := adel_keys_nodup h.keys _,
                         inv := fun p hp => h.inv p (mem_adel hp).1 }, ⟨rfl, fun j => ?_, fun j => ?_⟩, rfl, rfl⟩
        · simp only [act]
          by_cases e : j = i
          · subst e; simp [hx, hc.1]
          · rw [aget_adel_other _ _ _ e]
        · simp only [mks]
          by_cases e : j = i
          · subst e
            simp only [aget_adel_same, hx]
            have : g.cells.filter (·.marker) = [] := by
              rw [List.filter_eq_nil_iff]
              intro c hcm
              have := hv.idle hc.1 c hcm
              unfold live at this
              cases hm : c.marker <;> simp_all
            rw [this]; rfl
          · rw [aget_adel_other _ _ _ e]
      · exact Sim0.refl h

end Sigc.SpecK
