import Sigc.Lemmas.RefineSimA
import Sigc.Lemmas.RefineSimB
import Sigc.Lemmas.RefineSimE
/-!
# Refine work package — all functions of the mutual block are simulated (induction on the model's
fuel), and the top-level runner.
-/
namespace Sigc.Refine
open Sigc.Model

/-- all functions of the mutual block, at a given fuel (`deref` only inside the snapshot) -/
structure AllSim (f : Nat) : Prop where
  invoke : InvokeS f
  body : BodyS f
  line : LineS f
  emit : EmitS f
  loop : LoopS f
  deref : DerefS' f
  acc : AccS f
  rev : RevS f
  walk : WalkS f
  strat : StratS f
  op : OpS f

theorem all_sim : ∀ f, AllSim f := by
  intro f
  induction f with
  | zero =>
    exact ⟨invoke_sim0, body_sim0, line_sim0, emit_sim0, loop_sim0, deref_sim0', acc_sim0, rev_sim0, walk_sim0,
      strat_sim0, op_sim0⟩
  | succ f ih =>
    exact ⟨invoke_sim f ih.body ih.invoke ih.emit, body_sim f ih.line ih.body, line_sim f ih.op,
      emit_sim f ih.strat ih.loop, loop_sim f ih.invoke ih.loop, deref_sim' f ih.invoke,
      acc_sim f ih.deref ih.acc, rev_sim f ih.deref ih.rev, walk_sim f ih.deref ih.walk,
      strat_sim f ih.acc ih.rev ih.walk, op_sim f ih.invoke ih.emit⟩

/-- the top-level runner: same fuel on both sides -/
theorem runTop_sim (f : Nat) (P : Prog) (ls : List Line) : ∀ (s : St) (t : Spec.LSt) (s' : St), Emit.Inv s → R s t → Quiet s →
    Model.runTop f P s ls = some s' → ∃ t', Spec.runTop f P t ls = some t' ∧ R s' t' := by
  induction ls with
  | nil =>
    intro s t s' _ hR _ h
    simp [Model.runTop] at h; subst h
    exact ⟨t, by simp [Spec.runTop], hR⟩
  | cons l ls ih =>
    intro s t s' hs hR hq h
    simp only [Model.runTop] at h
    split at h
    · contradiction
    · rename_i s1 o1 h1
      obtain ⟨t1, ht1, hR1⟩ := (all_sim f).line P s t l s1 o1 hs hR hq h1 f (Nat.le_refl _)
      have g1 := (Emit.all_ok f).line P s l s1 o1 hs h1
      have hq1 : Quiet s1 := hq.step g1.frame (execLine_keeps h1).depth
      obtain ⟨t', ht', hR'⟩ := ih s1 t1 s' g1.inv hR1 hq1 h
      refine ⟨t', ?_, hR'⟩
      simp only [Spec.runTop, ht1]
      exact ht'

/-! ## definitions used by the property statements -/

/-- a concrete program with a re-entrant emission: slot body 1 disconnects its own connection, emits
    the signal again and asks for its size -/
def exProg : Prog :=
  { bodies := [(1, [⟨"disc 1", .disc 1⟩, ⟨"emit 1 0", .emit 1 0 .sum false⟩, ⟨"size? 1", .sizeq 1⟩])],
    top := [⟨"newG 1 V", .newG 1 (some .V)⟩, ⟨"connfn 1 1 fn 1", .connfn 1 1 (.fn 1) false⟩,
            ⟨"connfn 2 1 fn 2", .connfn 2 1 (.fn 2) true⟩, ⟨"emit 1 7", .emit 1 7 .sum false⟩] }

/-- a concrete program with a functor-owned signal object: the slot list of signal 1 holds a functor that owns
    signal 2 (`ownG`); `delG 2` is refused (`owned`), and signal 2 dies in `collect` when signal 1 (and with it the
    last functor copy) is destroyed -/
def exProgG : Prog :=
  { bodies := [],
    top := [⟨"newG 1 V", .newG 1 (some .V)⟩, ⟨"newG 2 V", .newG 2 (some .V)⟩,
            ⟨"connfn 1 1 ownG 5 2", .connfn 1 1 (.ownG 5 2) false⟩, ⟨"connfn 2 2 fn 6", .connfn 2 2 (.fn 6) false⟩,
            ⟨"delG 2", .delG 2⟩, ⟨"emit 2 3", .emit 2 3 .sum false⟩, ⟨"delG 1", .delG 1⟩,
            ⟨"emit 2 4", .emit 2 4 .sum false⟩] }

/-- the slot invocations logged in a trace: `(depth, functor, argument)` in order (newest first) -/
def calls (tr : List Event) : List (Nat × Nat × Nat) :=
  tr.filterMap (fun e => match e with
    | .call d fid a => some (d, fid, a)
    | .res _ _ _ => none)

end Sigc.Refine
