import Sigc.Lemmas.InvCell
/-!
# `TL`: every tracked object is alive

every trackable object id a functor (of a user slot variable or of a cell, nested functors included)
refers to is the object of a live trackable name, the `trackable` base of a live `trackable_signal`
handle, or an object owned by a functor — the library never keeps a registration in a destroyed
object, because `invalidateTrackable` removes *every* rep that refers to the dying object.
-/
namespace Sigc.Inv
open Sigc.Model

def LiveObj (T : List (Nat × Nat)) (G : List (Nat × Handle)) (oT : List Nat) (o : Nat) : Prop :=
  (∃ name, aget T name = some o) ∨ (∃ g h, aget G g = some h ∧ h.fl.isTrackable = true ∧ h.trk = o) ∨ o ∈ oT

/-- every object the slot's functor refers to satisfies `L` -/
def SlotTracks (L : Nat → Prop) (sl : SlotB) : Prop := ∀ o, sl.tracksObj o = true → L o

def TrackedIn (L : Nat → Prop) (S : List (Nat × SlotVar)) (impls : List (Nat × Impl)) : Prop :=
  (∀ p ∈ S, SlotTracks L p.2.slot) ∧ (∀ p ∈ impls, ∀ c ∈ p.2.cells, SlotTracks L c.slot)

def TLI (T : List (Nat × Nat)) (G : List (Nat × Handle)) (oT : List Nat) (S : List (Nat × SlotVar))
    (impls : List (Nat × Impl)) : Prop := TrackedIn (LiveObj T G oT) S impls

def TL (s : St) : Prop := TLI s.T s.G s.ownedT s.S s.impls

theorem TL.init : TL {} := by
  refine ⟨?_, ?_⟩ <;> intro p hp <;> cases hp

/-! ### slots -/

theorem SlotTracks.mono {L L' : Nat → Prop} {sl : SlotB} (h : SlotTracks L sl) (hm : ∀ o, L o → L' o) :
    SlotTracks L' sl := fun o ho => hm o (h o ho)

theorem tracksObj_of_rep_eq {a b : SlotB} (h : a.rep = b.rep) (o : Nat) : a.tracksObj o = b.tracksObj o := by
  unfold SlotB.tracksObj; rw [h]

theorem tracksObj_norep {a : SlotB} (h : a.rep = none) (o : Nat) : a.tracksObj o = false := by
  unfold SlotB.tracksObj; rw [h]

theorem tracksObj_nofn {a : SlotB} {c : Bool} (h : a.rep = some { call := c, fn := none }) (o : Nat) :
    a.tracksObj o = false := by
  unfold SlotB.tracksObj; rw [h]

theorem tracksObj_disconnectRep (a : SlotB) (o : Nat) : a.disconnectRep.tracksObj o = a.tracksObj o := by
  unfold SlotB.disconnectRep SlotB.tracksObj
  cases h : a.rep with
  | none => simp [h]
  | some r =>
    obtain ⟨c, f⟩ := r
    cases f <;> simp

theorem tracksObj_invalidate (a : SlotB) (o : Nat) : a.invalidate.tracksObj o = false := by
  unfold SlotB.invalidate SlotB.tracksObj
  cases h : a.rep with
  | none => simp [h]
  | some r => simp

theorem tracksObj_copy_le (a : SlotB) (o : Nat) (h : a.copy.tracksObj o = true) : a.tracksObj o = true := by
  unfold SlotB.copy at h
  unfold SlotB.tracksObj at *
  cases hr : a.rep with
  | none => simp [hr] at h
  | some r =>
    obtain ⟨c, f⟩ := r
    cases c <;> simp [hr] at h ⊢
    exact h

theorem SlotLe.tracks {a b : SlotB} (h : SlotLe a b) (o : Nat) (ha : a.tracksObj o = true) : b.tracksObj o = true := by
  rcases h with e | e | e
  · rw [← tracksObj_of_rep_eq e]; exact ha
  · rw [tracksObj_of_rep_eq e, tracksObj_disconnectRep] at ha; exact ha
  · rw [tracksObj_of_rep_eq e, tracksObj_invalidate] at ha; cases ha

theorem SlotTracks.le {L : Nat → Prop} {a b : SlotB} (hb : SlotTracks L b) (h : SlotLe a b) : SlotTracks L a :=
  fun o ho => hb o (h.tracks o ho)

theorem SlotTracks.of_rep_eq {L : Nat → Prop} {a b : SlotB} (hb : SlotTracks L b) (h : a.rep = b.rep) :
    SlotTracks L a := hb.le (Or.inl h)

theorem SlotTracks.norep {L : Nat → Prop} {a : SlotB} (h : a.rep = none) : SlotTracks L a :=
  fun o ho => by rw [tracksObj_norep h] at ho; cases ho

theorem SlotTracks.copy {L : Nat → Prop} {a : SlotB} (h : SlotTracks L a) : SlotTracks L a.copy :=
  fun o ho => h o (tracksObj_copy_le a o ho)

theorem SlotTracks.new {L : Nat → Prop} {b : Bool} {fn : Fun} (h : ∀ o ∈ fn.tracks, L o) :
    SlotTracks L { blocked := b, rep := some { call := true, fn := some fn } } := by
  intro o ho
  simp only [SlotB.tracksObj, List.contains_eq_mem, decide_eq_true_eq] at ho
  exact h o ho

/-! ### the lists -/

theorem TrackedIn.mono {L L' : Nat → Prop} {S : List (Nat × SlotVar)} {impls : List (Nat × Impl)}
    (h : TrackedIn L S impls) (hm : ∀ o, L o → L' o) : TrackedIn L' S impls :=
  ⟨fun p hp => (h.1 p hp).mono hm, fun p hp c hc => (h.2 p hp c hc).mono hm⟩

theorem TrackedIn.getS {L : Nat → Prop} {S : List (Nat × SlotVar)} {impls : List (Nat × Impl)}
    (h : TrackedIn L S impls) {k : Nat} {v : SlotVar} (hk : aget S k = some v) : SlotTracks L v.slot :=
  h.1 (k, v) (mem_of_aget hk)

theorem TrackedIn.asetS {L : Nat → Prop} {S : List (Nat × SlotVar)} {impls : List (Nat × Impl)}
    (h : TrackedIn L S impls) (k : Nat) {v : SlotVar} (hv : SlotTracks L v.slot) :
    TrackedIn L (aset S k v) impls := by
  refine ⟨?_, h.2⟩
  intro p hp
  rcases mem_aset hp with e | m
  · subst e; exact hv
  · exact h.1 p m

theorem TrackedIn.adelS {L : Nat → Prop} {S : List (Nat × SlotVar)} {impls : List (Nat × Impl)}
    (h : TrackedIn L S impls) (k : Nat) : TrackedIn L (adel S k) impls :=
  ⟨fun p hp => h.1 p (mem_adel hp), h.2⟩

theorem TrackedIn.asetI {L : Nat → Prop} {S : List (Nat × SlotVar)} {impls : List (Nat × Impl)}
    (h : TrackedIn L S impls) (i : Nat) {im' : Impl} (hc : ∀ c ∈ im'.cells, SlotTracks L c.slot) :
    TrackedIn L S (aset impls i im') := by
  refine ⟨h.1, ?_⟩
  intro p hp
  rcases mem_aset hp with e | m
  · subst e; exact hc
  · exact h.2 p m

theorem TrackedIn.adelI {L : Nat → Prop} {S : List (Nat × SlotVar)} {impls : List (Nat × Impl)}
    (h : TrackedIn L S impls) (i : Nat) : TrackedIn L S (adel impls i) :=
  ⟨h.1, fun p hp => h.2 p (mem_adel hp)⟩

theorem TrackedIn.getI {L : Nat → Prop} {S : List (Nat × SlotVar)} {impls : List (Nat × Impl)}
    (h : TrackedIn L S impls) {i : Nat} {im : Impl} (hi : aget impls i = some im) :
    ∀ c ∈ im.cells, SlotTracks L c.slot := h.2 (i, im) (mem_of_aget hi)

@[simp] theorem nullConns_ownedT (s : St) (cid : Nat) : (nullConns s cid).ownedT = s.ownedT := rfl

@[simp] theorem nullConnsList_ownedT (s : St) (cids : List Nat) : (nullConnsList s cids).ownedT = s.ownedT := by
  induction cids generalizing s with
  | nil => rfl
  | cons c cs ih => simp only [nullConnsList, List.foldl_cons] at ih ⊢; rw [ih]; rfl

/-- the primitive updates, for an arbitrary fixed predicate on objects -/
theorem trackedIn_prims (L : Nat → Prop) : PrimsA (fun s => TrackedIn L s.S s.impls) where
  upd s i im g e d _ h hi hg := by
    refine h.asetI i ?_
    intro c' hc'
    obtain ⟨c, hc, rfl⟩ := List.mem_map.1 hc'
    exact (h.getI hi c hc).le (hg c).2
  filter s i im p d ids _ h hi _ := by
    show TrackedIn L (nullConnsList _ _).S (nullConnsList _ _).impls
    simp only [nullConnsList_S, nullConnsList_impls]
    exact h.asetI i (fun c hc => h.getI hi c (List.mem_filter.1 hc).1)
  delImpl s i im _ h _ _ _ := by
    show TrackedIn L (nullConnsList _ _).S (nullConnsList _ _).impls
    simp only [nullConnsList_S, nullConnsList_impls]
    exact h.adelI i
  invalS s t _ h := by
    refine ⟨?_, h.2⟩
    intro q hq
    have hq' : q ∈ amap s.S (fun v => if v.slot.tracksObj t then { v with slot := v.slot.invalidate } else v) := hq
    obtain ⟨p, hp, rfl⟩ := mem_amap hq'
    simp only
    split
    · exact fun o ho => by rw [tracksObj_invalidate] at ho; cases ho
    · exact h.1 p hp

/-! ### `invalidateTrackable` reaches every rep that refers to the object -/

/-- no rep of the state refers to object `o` -/
def NoTrack (o : Nat) (s : St) : Prop :=
  (∀ p ∈ s.S, p.2.slot.tracksObj o = false) ∧
  (∀ i im c, aget s.impls i = some im → c ∈ im.cells → c.slot.tracksObj o = false)

def CellTracks (o : Nat) (s : St) (cid : Nat) : Prop :=
  ∃ i im c, aget s.impls i = some im ∧ c ∈ im.cells ∧ c.id = cid ∧ c.slot.tracksObj o = true

/-- the list of cells `invalidateTrackable` walks over -/
def victims (impls : List (Nat × Impl)) (o : Nat) : List Nat :=
  impls.foldr (fun p acc => ((p.2.cells.filter (fun c => c.slot.tracksObj o)).map (·.id)) ++ acc) []

theorem mem_victims {impls : List (Nat × Impl)} {o i : Nat} {im : Impl} {c : Cell} (hm : (i, im) ∈ impls)
    (hc : c ∈ im.cells) (ht : c.slot.tracksObj o = true) : c.id ∈ victims impls o := by
  induction impls with
  | nil => cases hm
  | cons p t ih =>
    simp only [victims, List.foldr_cons, List.mem_append]
    cases hm with
    | head => exact Or.inl (List.mem_map.2 ⟨c, List.mem_filter.2 ⟨hc, ht⟩, rfl⟩)
    | tail _ hm => exact Or.inr (ih hm)

theorem invalidateTrackable_eq (s : St) (o : Nat) :
    invalidateTrackable s o =
      (victims s.impls o).foldl invalidateCell
        { s with S := amap s.S (fun v => if v.slot.tracksObj o then { v with slot := v.slot.invalidate } else v) } :=
  rfl

theorem genC_invalidate_notrack (d0 : Cell) (o : Nat) : (genC SlotB.invalidate d0).slot.tracksObj o = false :=
  tracksObj_invalidate _ _

theorem cellTracks_invalidateCell {s : St} (hw : WF s) {o cid cid' : Nat}
    (h : CellTracks o (invalidateCell s cid) cid') : CellTracks o s cid' ∧ cid' ≠ cid := by
  obtain ⟨j, jm, d, hj, hd, hde, ht⟩ := h
  rw [invalidateCell_eq] at hj
  by_cases e : d.id = cid
  · obtain ⟨d0, rfl⟩ := genCell_self hw hj hd e
    rw [genC_invalidate_notrack] at ht; cases ht
  · obtain ⟨jm0, hj0, hd0⟩ := genCell_other_mem hj hd e
    exact ⟨⟨j, jm0, d, hj0, hd0, hde, ht⟩, hde ▸ e⟩

theorem cellTracks_foldl {o : Nat} (vs : List Nat) : ∀ {s : St}, WF s → ∀ {cid' : Nat},
    CellTracks o (vs.foldl invalidateCell s) cid' → CellTracks o s cid' ∧ cid' ∉ vs := by
  induction vs with
  | nil => intro s _ cid' h; exact ⟨h, by simp⟩
  | cons v vs ih =>
    intro s hw cid' h
    simp only [List.foldl_cons] at h
    obtain ⟨h1, h2⟩ := ih (WF.prims.invalidateCell v hw) h
    obtain ⟨h3, h4⟩ := cellTracks_invalidateCell hw h1
    exact ⟨h3, by simp only [List.mem_cons, not_or]; exact ⟨h4, h2⟩⟩

theorem foldl_invalidateCell_frame (cids : List Nat) (s : St) :
    (cids.foldl invalidateCell s).S = s.S ∧ (cids.foldl invalidateCell s).T = s.T ∧
    (cids.foldl invalidateCell s).G = s.G ∧ (cids.foldl invalidateCell s).ownedT = s.ownedT ∧
    (cids.foldl invalidateCell s).next = s.next := by
  rw [invalidateCell_eq]; exact foldl_genCell_frame _ cids s

theorem invalidateTrackable_frame (s : St) (o : Nat) :
    (invalidateTrackable s o).T = s.T ∧ (invalidateTrackable s o).G = s.G ∧
    (invalidateTrackable s o).ownedT = s.ownedT ∧ (invalidateTrackable s o).next = s.next ∧
    (invalidateTrackable s o).S =
      amap s.S (fun v => if v.slot.tracksObj o then { v with slot := v.slot.invalidate } else v) := by
  rw [invalidateTrackable_eq]
  obtain ⟨a1, a2, a3, a4, a5⟩ := foldl_invalidateCell_frame (victims s.impls o)
    { s with S := amap s.S (fun v => if v.slot.tracksObj o then { v with slot := v.slot.invalidate } else v) }
  exact ⟨a2, a3, a4, a5, a1⟩

/-- **after `notify_callbacks()` of object `o` no rep refers to `o`** (well-formed state) -/
theorem invalidateTrackable_notrack {s : St} (hw : WF s) (o : Nat) : NoTrack o (invalidateTrackable s o) := by
  refine ⟨?_, ?_⟩
  · intro q hq
    rw [(invalidateTrackable_frame s o).2.2.2.2] at hq
    obtain ⟨p, _, rfl⟩ := mem_amap hq
    simp only
    split
    · exact tracksObj_invalidate _ _
    · rename_i hn; simpa using hn
  · intro i im c hi hc
    cases ht : c.slot.tracksObj o with
    | false => rfl
    | true =>
      exfalso
      rw [invalidateTrackable_eq] at hi
      have hw0 : WF { s with S := (amap s.S
          (fun v => if v.slot.tracksObj o then { v with slot := v.slot.invalidate } else v)) } := hw
      obtain ⟨⟨j, jm, d, hj, hd, hde, hdt⟩, hnot⟩ := cellTracks_foldl _ hw0 ⟨i, im, c, hi, hc, rfl, ht⟩
      exact hnot (hde ▸ mem_victims (mem_of_aget hj) hd hdt)

/-- the cells with id `cid` (if any are left) are invalidated and unlinked -/
def Gone (cid : Nat) (s : St) : Prop :=
  ∀ j jm d, aget s.impls j = some jm → d ∈ jm.cells → d.id = cid →
    d.linked = false ∧ d.slot.empty = true ∧ d.slot.liveAll = 0 ∧ ∀ o, d.slot.tracksObj o = false

theorem genC_invalidate_gone (d0 : Cell) :
    (genC SlotB.invalidate d0).linked = false ∧ (genC SlotB.invalidate d0).slot.empty = true ∧
    (genC SlotB.invalidate d0).slot.liveAll = 0 ∧ ∀ o, (genC SlotB.invalidate d0).slot.tracksObj o = false := by
  refine ⟨rfl, ?_, ?_, fun o => tracksObj_invalidate _ _⟩
  · simp only [genC, SlotB.invalidate, SlotB.empty]
    cases h : d0.slot.rep <;> simp [h]
  · simp only [genC, SlotB.invalidate, SlotB.liveAll]
    cases h : d0.slot.rep <;> simp [h]

theorem gone_invalidateCell_self {s : St} (hw : WF s) (cid : Nat) : Gone cid (invalidateCell s cid) := by
  intro j jm d hj hd hde
  rw [invalidateCell_eq] at hj
  obtain ⟨d0, rfl⟩ := genCell_self hw hj hd hde
  exact genC_invalidate_gone d0

theorem gone_invalidateCell {s : St} (hw : WF s) {cid : Nat} (cid' : Nat) (h : Gone cid s) :
    Gone cid (invalidateCell s cid') := by
  by_cases e : cid' = cid
  · subst e; exact gone_invalidateCell_self hw _
  · intro j jm d hj hd hde
    rw [invalidateCell_eq] at hj
    obtain ⟨jm0, hj0, hd0⟩ := genCell_other_mem hj hd (by rw [hde]; exact fun x => e x.symm)
    exact h j jm0 d hj0 hd0 hde

theorem gone_foldl {cid : Nat} (vs : List Nat) : ∀ {s : St}, WF s → (cid ∈ vs ∨ Gone cid s) →
    Gone cid (vs.foldl invalidateCell s) := by
  induction vs with
  | nil =>
    intro s _ h
    rcases h with h | h
    · cases h
    · exact h
  | cons v vs ih =>
    intro s hw h
    simp only [List.foldl_cons]
    apply ih (WF.prims.invalidateCell v hw)
    rcases h with h | h
    · cases h with
      | head => exact Or.inr (gone_invalidateCell_self hw _)
      | tail _ h => exact Or.inl h
    · exact Or.inr (gone_invalidateCell hw v h)

/-- every cell that referred to `o` is, after `notify_callbacks()`, erased or invalid and unlinked -/
theorem invalidateTrackable_gone {s : St} (hw : WF s) {o i : Nat} {im : Impl} {c : Cell}
    (hi : aget s.impls i = some im) (hc : c ∈ im.cells) (ht : c.slot.tracksObj o = true) :
    Gone c.id (invalidateTrackable s o) := by
  rw [invalidateTrackable_eq]
  exact gone_foldl _ (s := { s with S := _ }) hw (Or.inl (mem_victims (mem_of_aget hi) hc ht))

theorem not_connected_of_gone {s : St} {cid : Nat} (h : Gone cid s) : connConnected s (some cid) = false := by
  unfold connConnected
  simp only []
  split
  · rfl
  · rename_i i c hg
    obtain ⟨im, hi, _, hc, he⟩ := getCell_some hg
    simp [(h i im c hi hc he).2.1]

/-! ### `TL` under the primitive updates -/

theorem TL.prims : PrimsA TL where
  upd s i im g e d _ h hi hg := (trackedIn_prims (LiveObj s.T s.G s.ownedT)).upd s i im g e d trivial h hi hg
  filter s i im p d ids _ h hi hp := by
    show TrackedIn (LiveObj (nullConnsList _ _).T (nullConnsList _ _).G (nullConnsList _ _).ownedT) _ _
    simp only [nullConnsList_T, nullConnsList_G, nullConnsList_ownedT]
    exact (trackedIn_prims (LiveObj s.T s.G s.ownedT)).filter s i im p d ids trivial h hi hp
  delImpl s i im _ h hi hh hg := by
    show TrackedIn (LiveObj (nullConnsList _ _).T (nullConnsList _ _).G (nullConnsList _ _).ownedT) _ _
    simp only [nullConnsList_T, nullConnsList_G, nullConnsList_ownedT]
    exact (trackedIn_prims (LiveObj s.T s.G s.ownedT)).delImpl s i im trivial h hi hh hg
  invalS s t _ h := (trackedIn_prims (LiveObj s.T s.G s.ownedT)).invalS s t trivial h

/-- after `notify_callbacks()` of `o` the tracked objects are the old ones except `o` -/
theorem trackedIn_kill {s : St} (hw : WF s) {L : Nat → Prop} (h : TrackedIn L s.S s.impls) (o : Nat) :
    TrackedIn (fun o' => L o' ∧ o' ≠ o) (invalidateTrackable s o).S (invalidateTrackable s o).impls := by
  have h1 : TrackedIn L (invalidateTrackable s o).S (invalidateTrackable s o).impls :=
    (trackedIn_prims L).invalidateTrackable o h
  have h2 := invalidateTrackable_notrack hw o
  have hw' : WF (invalidateTrackable s o) := WF.prims.invalidateTrackable o hw
  refine ⟨?_, ?_⟩
  · intro p hp o' ho'
    refine ⟨h1.1 p hp o' ho', ?_⟩
    intro e; subst e
    rw [h2.1 p hp] at ho'; cases ho'
  · intro p hp c hc o' ho'
    refine ⟨h1.2 p hp c hc o' ho', ?_⟩
    intro e; subst e
    rw [h2.2 p.1 p.2 c (aget_of_mem hw'.keys hp) hc] at ho'; cases ho'

theorem liveObj_adel_T {T : List (Nat × Nat)} {G : List (Nat × Handle)} {oT : List Nat} {t o o' : Nat}
    (ht : aget T t = some o) (h : LiveObj T G oT o') (hne : o' ≠ o) : LiveObj (adel T t) G oT o' := by
  rcases h with ⟨name, hn⟩ | h | h
  · left
    refine ⟨name, ?_⟩
    rw [aget_adel]
    split
    · rename_i e; subst e; rw [ht] at hn; cases hn; exact absurd rfl hne
    · exact hn
  · exact Or.inr (Or.inl h)
  · exact Or.inr (Or.inr h)

theorem liveObj_adel_G {T : List (Nat × Nat)} {G : List (Nat × Handle)} {oT : List Nat} {g o' : Nat} {hd : Handle}
    (hg : aget G g = some hd) (h : LiveObj T G oT o') (hne : hd.fl.isTrackable = true → o' ≠ hd.trk) :
    LiveObj T (adel G g) oT o' := by
  rcases h with h | ⟨g', h', hg', ht, he⟩ | h
  · exact Or.inl h
  · right; left
    refine ⟨g', h', ?_, ht, he⟩
    rw [aget_adel]
    split
    · rename_i e; subst e; rw [hg] at hg'; cases hg'; exact absurd he.symm (hne ht)
    · exact hg'
  · exact Or.inr (Or.inr h)

theorem liveObj_aset_T {T : List (Nat × Nat)} {G : List (Nat × Handle)} {oT : List Nat} {t o o' : Nat}
    (ht : aget T t = none) (h : LiveObj T G oT o') : LiveObj (aset T t o) G oT o' := by
  rcases h with ⟨name, hn⟩ | h | h
  · left
    refine ⟨name, ?_⟩
    rw [aget_aset]
    split
    · rename_i e; subst e; rw [ht] at hn; cases hn
    · exact hn
  · exact Or.inr (Or.inl h)
  · exact Or.inr (Or.inr h)

theorem liveObj_aset_G {T : List (Nat × Nat)} {G : List (Nat × Handle)} {oT : List Nat} {g o' : Nat} {hd : Handle}
    (hg : ∀ h0, aget G g = some h0 → h0.fl = hd.fl ∧ h0.trk = hd.trk) (h : LiveObj T G oT o') :
    LiveObj T (aset G g hd) oT o' := by
  rcases h with h | ⟨g', h', hg', ht, he⟩ | h
  · exact Or.inl h
  · right; left
    by_cases e : g' = g
    · subst e
      obtain ⟨e1, e2⟩ := hg h' hg'
      exact ⟨g', hd, by simp, e1 ▸ ht, e2 ▸ he⟩
    · exact ⟨g', h', by rw [aget_aset_other _ _ _ _ e]; exact hg', ht, he⟩
  · exact Or.inr (Or.inr h)

end Sigc.Inv
