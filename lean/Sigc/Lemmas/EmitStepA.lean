import Sigc.Lemmas.EmitPrim3
/-!
# Emit work package — `stepSimple` preserves `Inv` and is a `Frame` step, part A:
trackables, connections, scoped connections, queries.
-/
namespace Sigc.Emit
open Sigc.Model

abbrev Good0 := Good (fun _ => 0)

theorem Good.andThen {off} {a b c : St} (h1 : Good off a b) (f : InvX off b → Good off b c) : Good off a c :=
  h1.trans (f h1.inv)

macro "core_done" h:ident : tactic =>
  `(tactic| (exact Good.of_core $h rfl rfl rfl rfl (by simp)))

/-- finish a branch whose result state differs from `s` only outside the core (T, C, K, trace …) -/
macro "core_branch" h:ident hs:ident : tactic =>
  `(tactic| (simp at $hs:ident; obtain ⟨h1, h2⟩ := $hs:ident; subst h1; subst h2; exact Good.of_core $h rfl rfl rfl rfl (by simp)))

theorem good_optDisconnect {s : St} (h : Inv s) (p : Option Nat) :
    Good0 s (match p with | some cid => disconnectCell s cid | none => s) := by
  cases p with
  | none => exact Good.refl h
  | some cid => exact Good.disconnectCell h cid

theorem good_invalidateTrackable' {off} {s s0 : St} (h : InvX off s) (hi : s0.impls = s.impls) (hG : s0.G = s.G)
    (hS : s0.S = s.S) (he : s0.err = s.err) (hn : s.next ≤ s0.next) (t : Nat)
    (hO : s0.ownedG = s.ownedG := by first | rfl | assumption) :
    Good off s (invalidateTrackable s0 t) :=
  (Good.of_core h hi hG hS he hn hO).andThen (fun h => good_invalidateTrackable h t)

theorem good_optDisconnect' {s s0 : St} (h : Inv s) (hi : s0.impls = s.impls) (hG : s0.G = s.G)
    (hS : s0.S = s.S) (he : s0.err = s.err) (hn : s.next ≤ s0.next) (p : Option Nat)
    (hO : s0.ownedG = s.ownedG := by first | rfl | assumption) :
    Good0 s (match p with | some cid => disconnectCell s0 cid | none => s0) :=
  (Good.of_core h hi hG hS he hn hO).andThen (fun h => good_optDisconnect h p)

/-! ## trackables -/

theorem step_newT {s s' : St} {r : String} (t : Nat) (h : Inv s) (hs : stepSimple s (.newT t) = some (s', r)) :
    Good0 s s' := by
  simp only [stepSimple, St.fresh] at hs
  split at hs <;> core_branch h hs

theorem step_delT {s s' : St} {r : String} (t : Nat) (h : Inv s) (hs : stepSimple s (.delT t) = some (s', r)) :
    Good0 s s' := by
  simp only [stepSimple] at hs
  split at hs
  · core_branch h hs
  · simp at hs; obtain ⟨rfl, rfl⟩ := hs
    apply good_invalidateTrackable' h <;> first | rfl | simp

theorem step_notifyT {s s' : St} {r : String} (t : Nat) (h : Inv s) (hs : stepSimple s (.notifyT t) = some (s', r)) :
    Good0 s s' := by
  simp only [stepSimple] at hs
  split at hs
  · core_branch h hs
  · simp at hs; obtain ⟨rfl, rfl⟩ := hs
    exact good_invalidateTrackable h _

theorem step_cpT {s s' : St} {r : String} (j i : Nat) (h : Inv s) (hs : stepSimple s (.cpT j i) = some (s', r)) :
    Good0 s s' := by
  simp only [stepSimple, St.fresh] at hs
  split at hs
  · core_branch h hs
  · split at hs <;> core_branch h hs

theorem step_mvT {s s' : St} {r : String} (j i : Nat) (h : Inv s) (hs : stepSimple s (.mvT j i) = some (s', r)) :
    Good0 s s' := by
  simp only [stepSimple, St.fresh] at hs
  split at hs
  · core_branch h hs
  · split at hs
    · core_branch h hs
    · simp at hs; obtain ⟨rfl, rfl⟩ := hs
      apply good_invalidateTrackable' h <;> first | rfl | simp

theorem step_asgT {s s' : St} {r : String} (j i : Nat) (h : Inv s) (hs : stepSimple s (.asgT j i) = some (s', r)) :
    Good0 s s' := by
  simp only [stepSimple] at hs
  split at hs
  · simp at hs; obtain ⟨rfl, rfl⟩ := hs
    split
    · exact Good.refl h
    · exact good_invalidateTrackable h _
  · core_branch h hs

theorem step_masgT {s s' : St} {r : String} (j i : Nat) (h : Inv s) (hs : stepSimple s (.masgT j i) = some (s', r)) :
    Good0 s s' := by
  simp only [stepSimple] at hs
  split at hs
  · simp at hs; obtain ⟨rfl, rfl⟩ := hs
    split
    · exact Good.refl h
    · exact (good_invalidateTrackable h _).andThen (fun h => good_invalidateTrackable h _)
  · core_branch h hs

/-! ## connections -/

theorem step_newC {s s' : St} {r : String} (i : Nat) (h : Inv s) (hs : stepSimple s (.newC i) = some (s', r)) :
    Good0 s s' := by
  simp only [stepSimple, setConn] at hs
  split at hs <;> core_branch h hs

theorem step_cpC {s s' : St} {r : String} (j i : Nat) (h : Inv s) (hs : stepSimple s (.cpC j i) = some (s', r)) :
    Good0 s s' := by
  simp only [stepSimple, setConn] at hs
  split at hs
  · core_branch h hs
  · split at hs <;> core_branch h hs

theorem step_asgC {s s' : St} {r : String} (j i : Nat) (h : Inv s) (hs : stepSimple s (.asgC j i) = some (s', r)) :
    Good0 s s' := by
  simp only [stepSimple, setConn] at hs
  split at hs <;> core_branch h hs

theorem step_delC {s s' : St} {r : String} (i : Nat) (h : Inv s) (hs : stepSimple s (.delC i) = some (s', r)) :
    Good0 s s' := by
  simp only [stepSimple] at hs
  split at hs <;> core_branch h hs

theorem step_disc {s s' : St} {r : String} (i : Nat) (h : Inv s) (hs : stepSimple s (.disc i) = some (s', r)) :
    Good0 s s' := by
  simp only [stepSimple] at hs
  split at hs
  · core_branch h hs
  · simp at hs; obtain ⟨rfl, rfl⟩ := hs
    exact good_optDisconnect h _

theorem step_connectedq {s s' : St} {r : String} (i : Nat) (h : Inv s) (hs : stepSimple s (.connectedq i) = some (s', r)) :
    Good0 s s' := by
  simp only [stepSimple] at hs
  split at hs <;> core_branch h hs

theorem step_emptyCq {s s' : St} {r : String} (i : Nat) (h : Inv s) (hs : stepSimple s (.emptyCq i) = some (s', r)) :
    Good0 s s' := by
  simp only [stepSimple] at hs
  split at hs <;> core_branch h hs

theorem step_blockedCq {s s' : St} {r : String} (i : Nat) (h : Inv s) (hs : stepSimple s (.blockedCq i) = some (s', r)) :
    Good0 s s' := by
  simp only [stepSimple] at hs
  split at hs <;> core_branch h hs

theorem step_blockC {s s' : St} {r : String} (i : Nat) (b : Bool) (h : Inv s) (hs : stepSimple s (.blockC i b) = some (s', r)) :
    Good0 s s' := by
  simp only [stepSimple] at hs
  split at hs
  · core_branch h hs
  · simp at hs; obtain ⟨rfl, rfl⟩ := hs
    exact Good.connBlock h _ _

/-! ## scoped connections -/

theorem step_newK0 {s s' : St} {r : String} (i : Nat) (h : Inv s) (hs : stepSimple s (.newK0 i) = some (s', r)) :
    Good0 s s' := by
  simp only [stepSimple] at hs
  split at hs <;> core_branch h hs

theorem step_newK {s s' : St} {r : String} (i c : Nat) (h : Inv s) (hs : stepSimple s (.newK i c) = some (s', r)) :
    Good0 s s' := by
  simp only [stepSimple] at hs
  split at hs
  · core_branch h hs
  · split at hs <;> core_branch h hs

theorem step_asgKC {s s' : St} {r : String} (i c : Nat) (h : Inv s) (hs : stepSimple s (.asgKC i c) = some (s', r)) :
    Good0 s s' := by
  simp only [stepSimple] at hs
  split at hs
  · rename_i old _ _ _
    have hg := good_optDisconnect h old
    split at hs
    · simp at hs; obtain ⟨rfl, rfl⟩ := hs
      exact hg.congr rfl rfl rfl rfl (Nat.le_refl _)
    · simp at hs; obtain ⟨rfl, rfl⟩ := hs
      exact hg
  · core_branch h hs

theorem step_mvK {s s' : St} {r : String} (j i : Nat) (h : Inv s) (hs : stepSimple s (.mvK j i) = some (s', r)) :
    Good0 s s' := by
  simp only [stepSimple] at hs
  split at hs
  · core_branch h hs
  · split at hs <;> core_branch h hs

theorem step_masgK {s s' : St} {r : String} (j i : Nat) (h : Inv s) (hs : stepSimple s (.masgK j i) = some (s', r)) :
    Good0 s s' := by
  simp only [stepSimple] at hs
  split at hs
  · rename_i old _ _ _
    split at hs
    · core_branch h hs
    · have hg := good_optDisconnect h old
      split at hs
      · simp at hs; obtain ⟨rfl, rfl⟩ := hs
        exact hg.congr rfl rfl rfl rfl (Nat.le_refl _)
      · simp at hs; obtain ⟨rfl, rfl⟩ := hs
        exact hg
  · core_branch h hs

theorem step_swapK {s s' : St} {r : String} (i j : Nat) (h : Inv s) (hs : stepSimple s (.swapK i j) = some (s', r)) :
    Good0 s s' := by
  simp only [stepSimple] at hs
  split at hs <;> core_branch h hs

theorem step_relK {s s' : St} {r : String} (c k : Nat) (h : Inv s) (hs : stepSimple s (.relK c k) = some (s', r)) :
    Good0 s s' := by
  simp only [stepSimple, setConn] at hs
  split at hs <;> core_branch h hs

theorem step_discK {s s' : St} {r : String} (i : Nat) (h : Inv s) (hs : stepSimple s (.discK i) = some (s', r)) :
    Good0 s s' := by
  simp only [stepSimple] at hs
  split at hs
  · core_branch h hs
  · simp at hs; obtain ⟨rfl, rfl⟩ := hs
    exact good_optDisconnect h _

theorem step_delK {s s' : St} {r : String} (i : Nat) (h : Inv s) (hs : stepSimple s (.delK i) = some (s', r)) :
    Good0 s s' := by
  simp only [stepSimple] at hs
  split at hs
  · core_branch h hs
  · simp at hs; obtain ⟨rfl, rfl⟩ := hs
    apply good_optDisconnect' h <;> first | rfl | simp

theorem step_connectedKq {s s' : St} {r : String} (i : Nat) (h : Inv s) (hs : stepSimple s (.connectedKq i) = some (s', r)) :
    Good0 s s' := by
  simp only [stepSimple] at hs
  split at hs <;> core_branch h hs

theorem step_blockedKq {s s' : St} {r : String} (i : Nat) (h : Inv s) (hs : stepSimple s (.blockedKq i) = some (s', r)) :
    Good0 s s' := by
  simp only [stepSimple] at hs
  split at hs <;> core_branch h hs

theorem step_blockK {s s' : St} {r : String} (i : Nat) (b : Bool) (h : Inv s) (hs : stepSimple s (.blockK i b) = some (s', r)) :
    Good0 s s' := by
  simp only [stepSimple] at hs
  split at hs
  · core_branch h hs
  · simp at hs; obtain ⟨rfl, rfl⟩ := hs
    exact Good.connBlock h _ _

/-! ## queries -/

theorem step_sizeq {s s' : St} {r : String} (g : Nat) (h : Inv s) (hs : stepSimple s (.sizeq g) = some (s', r)) :
    Good0 s s' := by
  simp only [stepSimple] at hs
  split at hs
  · core_branch h hs
  · split at hs <;> core_branch h hs

theorem step_emptyGq {s s' : St} {r : String} (g : Nat) (h : Inv s) (hs : stepSimple s (.emptyGq g) = some (s', r)) :
    Good0 s s' := by
  simp only [stepSimple] at hs
  split at hs
  · core_branch h hs
  · split at hs <;> core_branch h hs

theorem step_blockedGq {s s' : St} {r : String} (g : Nat) (h : Inv s) (hs : stepSimple s (.blockedGq g) = some (s', r)) :
    Good0 s s' := by
  simp only [stepSimple] at hs
  split at hs
  · core_branch h hs
  · split at hs <;> core_branch h hs

theorem step_blockedSq {s s' : St} {r : String} (i : Nat) (h : Inv s) (hs : stepSimple s (.blockedSq i) = some (s', r)) :
    Good0 s s' := by
  simp only [stepSimple] at hs
  split at hs <;> core_branch h hs

theorem step_emptySq {s s' : St} {r : String} (i : Nat) (h : Inv s) (hs : stepSimple s (.emptySq i) = some (s', r)) :
    Good0 s s' := by
  simp only [stepSimple] at hs
  split at hs <;> core_branch h hs

theorem step_boolSq {s s' : St} {r : String} (i : Nat) (h : Inv s) (hs : stepSimple s (.boolSq i) = some (s', r)) :
    Good0 s s' := by
  simp only [stepSimple] at hs
  split at hs <;> core_branch h hs

theorem step_misc {s s' : St} {r : String} (h : Inv s) :
    (∀ fid, stepSimple s (.liveq fid) = some (s', r) → Good0 s s') ∧
    (stepSimple s .mark = some (s', r) → Good0 s s') ∧
    (stepSimple s .allocsq = some (s', r) → Good0 s s') ∧
    (stepSimple s .bad = some (s', r) → Good0 s s') := by
  refine ⟨?_, ?_, ?_, ?_⟩
  · intro fid hs; simp only [stepSimple] at hs; core_branch h hs
  · intro hs; simp only [stepSimple] at hs; core_branch h hs
  · intro hs; simp only [stepSimple] at hs; core_branch h hs
  · intro hs; simp only [stepSimple] at hs; core_branch h hs

end Sigc.Emit
