import Sigc.Lemmas.RefinePrimA
/-!
# Refine work package — `signal_impl::clear()` in closed form and its simulation by the
specification's `remove (fun _ => true)`.
-/
namespace Sigc.Refine
open Sigc.Model

theorem amap_aset {α : Type} (l : List (Nat × α)) (i : Nat) (a : α) (f : α → α) :
    amap (aset l i a) f = aset (amap l f) i (f a) := by
  induction l with
  | nil => simp [aset, amap]
  | cons p t ih =>
    obtain ⟨k, v⟩ := p
    by_cases e : k = i
    · simp [aset, amap, e]
    · simp only [aset, e, if_false, amap, List.map_cons] at ih ⊢
      rw [ih]

theorem touchImpl_map_ids (hf : SlotB → SlotB) (W : List Nat) (cs : List Cell) :
    (cs.map (touchC hf W)).map (·.id) = cs.map (·.id) := by
  rw [List.map_map]; apply List.map_congr_left; intro c _; exact touchC_id hf W c

/-- the core of `touch_sim`: the closed form is related to the specification's `remove` -/
theorem touch_sim_core {hf : SlotB → SlotB} {dr : Bool} (hg : ∀ sl, (if dr = true then sl.invalidate else sl.disconnectRep) = hf sl)
    (hw : Emit.Weakens hf) (hnone : ∀ sl : SlotB, sl.rep = none → hf sl = sl)
    {s : St} {t : Spec.LSt} (hs : Emit.Inv s) (hR : R s t) (W E : List Nat)
    (hH : ∀ p ∈ s.impls, ∀ c ∈ p.2.cells, c.id ∈ W → c.linked = false → SameHold (hf c.slot) c.slot)
    (hE : ∀ cid ∈ E, (∃ p ∈ s.impls, cid ∈ Emit.cids p.2) ∧ ∀ p ∈ amap s.impls (touchImpl hf W), cid ∉ Emit.cids p.2) :
    R (nullSt E { s with impls := amap s.impls (touchImpl hf W) })
      { t with sigs := amap t.sigs (fun g => g.remove true true dr (fun c => W.contains c.id)) } := by
  have hsigs : AR SigR (amap s.impls (touchImpl hf W))
      (amap t.sigs (fun g => g.remove true true dr (fun c => W.contains c.id))) := by
    apply hR.sigs.map
    intro k a b ha _ hr
    exact sigR_touch hg hw hnone hr (hs.ok k a (Emit.aget_of_mem_nodup hs.keys ha)) W (hH (k, a) ha)
  have hle : SigsLe t.sigs t.next (amap t.sigs (fun g => g.remove true true dr (fun c => W.contains c.id))) :=
    SigsLe.amap _ (fun g => remove_ids_sub g dr _)
  have hgone : ∀ cid ∈ E, Gone (amap t.sigs (fun g => g.remove true true dr (fun c => W.contains c.id))) t.next cid := by
    intro cid hc
    obtain ⟨⟨p, hp, hin⟩, her⟩ := hE cid hc
    rw [gone_iff]
    refine ⟨?_, ?_⟩
    · rw [hR.next]
      exact (hs.lt p.1 p.2 (Emit.aget_of_mem_nodup hs.keys (show (p.1, p.2) ∈ s.impls from hp))).2 cid hin
    · intro hh
      obtain ⟨q, hq, hin'⟩ := hasId_of_AR hsigs hh
      exact her q hq hin'
  exact ⟨hR.T, hR.S, hR.G, ptrs_null hle E hgone hR.C, ptrs_null hle E hgone hR.K, hsigs, hR.ownedT,
    ptrs_null hle E hgone hR.ownedK, hR.ownedG, hR.next, hR.depth, hR.steps, hR.trace, hR.k1, hR.k2⟩

/-- touching the cells of impl `i` only changes impl `i` -/
theorem amap_touch_own {off : Nat → Nat} {s : St} (hs : Emit.InvX off s) {i : Nat} {im : Impl} (hi : aget s.impls i = some im)
    (hf : SlotB → SlotB) (W : List Nat) (hW : ∀ k ∈ W, k ∈ Emit.cids im) :
    amap s.impls (touchImpl hf W) = aset s.impls i (touchImpl hf W im) := by
  apply amap_eq_aset hs.keys hi
  intro p hp hne
  apply touchImpl_noop
  intro k hk hkW
  exact hs.disj p.1 i p.2 im (Emit.aget_of_mem_nodup hs.keys (show (p.1, p.2) ∈ s.impls from hp)) hi hne k hk (hW k hkW)

theorem contains_cids {im : Impl} {c : Cell} (hc : c ∈ im.cells) : (Emit.cids im).contains c.id = true := by
  simp only [List.contains_eq_mem, decide_eq_true_eq]
  exact List.mem_map.mpr ⟨c, hc, rfl⟩

/-- `clearImpl` in closed form -/
theorem clearImpl_closed {s : St} (h : Emit.Inv s) {i : Nat} {im : Impl} (hi : aget s.impls i = some im) :
    clearImpl s i = nullSt (if im.exec = 0 then Emit.cids im else [])
      { s with impls := amap s.impls (touchImpl SlotB.disconnectRep (Emit.cids im)) } := by
  have hok := h.ok i im hi
  rw [amap_touch_own h hi _ _ (fun _ hk => hk)]
  unfold clearImpl
  rw [hi]
  simp only
  have hWdef : im.cells.map (·.id) = Emit.cids im := rfl
  rw [hWdef]
  let off1 : Nat → Nat := fun j => if j = i then 1 else 0
  have e1 : off1 i = 1 := by simp [off1]
  have eo : ∀ j, j ≠ i → off1 j = 0 := by intro j hj; simp [off1, hj]
  generalize hs1 : setImpl s i { im with exec := im.exec + 1 } = s1
  have hi1 : aget s1.impls i = some { im with exec := im.exec + 1 } := by subst hs1; simp [Emit.aget_setImpl]
  have h1 : Emit.InvX off1 s1 := by
    subst hs1
    apply h.setImpl' hi (off' := off1)
    · rw [e1]
      exact ⟨hok.nodup, by have := hok.eh; simp at this ⊢; omega, by have := hok.mkr; simp [Emit.markers] at this ⊢; omega,
             fun e => by simp at e, hok.l, hok.d⟩
    · intro j hj; exact eo j hj
    · intro k hk; exact Or.inl hk
    · intro c hc; exact h.fwdC i im hi c hc
  have hfun : disconnectCell = Emit.touchCell SlotB.disconnectRep := by funext a b; rfl
  obtain ⟨E1, hE1, hfold⟩ := touch_fold Emit.weakens_disconnectRep disconnectRep_idem (Emit.cids im) h1
  have hown := amap_touch_own h1 hi1 SlotB.disconnectRep (Emit.cids im) (fun _ hk => hk)
  -- the impl is emitting (exec + 1): cells are mapped
  generalize him2 : (Impl.mk (im.cells.map (touchC SlotB.disconnectRep (Emit.cids im))) (im.exec + 1)
      (im.deferred || im.cells.any (fun c => (Emit.cids im).contains c.id && c.linked)) im.holders) = im2
  have htouch1 : touchImpl SlotB.disconnectRep (Emit.cids im) { im with exec := im.exec + 1 } = im2 := by
    subst him2; simp [touchImpl]
  have hE1nil : E1 = [] := by
    rw [List.eq_nil_iff_forall_not_mem]
    intro cid hc
    obtain ⟨hw, _, her⟩ := hE1 cid hc
    apply her (i, im2)
    · rw [hown, htouch1]
      have : aget (aset s1.impls i im2) i = some im2 := by simp
      exact Emit.aget_some_mem this
    · subst him2
      simp only [Emit.cids, touchImpl_map_ids]
      exact hw
  have hs2 : List.foldl disconnectCell s1 (Emit.cids im) = setImpl s i im2 := by
    rw [hfun, hfold, hE1nil, nullSt_nil, hown, htouch1]
    subst hs1
    simp [setImpl, Emit.aset_aset]
  rw [hs2]
  have hi2 : aget (setImpl s i im2).impls i = some im2 := by simp [Emit.aget_setImpl]
  rw [hi2]
  simp only
  have hx2 : im2.exec = im.exec + 1 := by subst him2; rfl
  have hids2 : im2.cells.map (·.id) = Emit.cids im := by
    subst him2; simp only [touchImpl_map_ids]; rfl
  rw [hids2]
  by_cases hd : im.exec > 0
  · have hx : ¬ im.exec = 0 := by omega
    simp only [hd, if_true, hx, if_false]
    rw [Emit.unrefExec_eq hi2]
    have : ¬ ((im2.exec - 1 = 0 && im2.deferred) = true) := by simp; intro e; omega
    rw [if_neg this, Emit.setImpl_setImpl, nullSt_nil]
    subst him2
    simp [touchImpl, hx, setImpl, Emit.cids]
  · have hx0 : im.exec = 0 := by omega
    have hdf : im.deferred = false := hok.q1 hx0
    rw [if_neg hd, if_pos hx0]
    rw [nullConnsList_eq, Emit.setImpl_setImpl]
    generalize hX : ({ im2 with deferred := im.deferred, cells := [] } : Impl) = X
    have hi3 : aget (nullSt (Emit.cids im) (setImpl s i X)).impls i = some X := by simp [Emit.aget_setImpl]
    rw [Emit.unrefExec_eq hi3]
    have : ¬ ((X.exec - 1 = 0 && X.deferred) = true) := by subst hX; simp [hdf]
    rw [if_neg this]
    have hfil : im.cells.filter (fun c => !(Emit.cids im).contains c.id) = [] := by
      rw [List.filter_eq_nil_iff]
      intro c hc
      rw [contains_cids hc]; simp
    have hfil' : im.cells.filter (fun c => !decide (c.id ∈ Emit.cids im)) = [] := by
      rw [List.filter_eq_nil_iff]
      intro c hc
      have : c.id ∈ Emit.cids im := List.mem_map.mpr ⟨c, hc, rfl⟩
      simp [this]
    subst hX; subst him2
    simp [touchImpl, hx0, setImpl, hfil', nullSt, Emit.aset_aset]

/-- `signal_impl::clear()` vs every entry leaving the list -/
theorem R_clear {s : St} {t : Spec.LSt} (hs : Emit.Inv s) (hR : R s t) {i : Nat} {im : Impl} (hi : aget s.impls i = some im)
    {x : Spec.LSig} (hx : aget t.sigs i = some x) :
    R (clearImpl s i) (Spec.setSig t i (x.remove true true false (fun _ => true))) := by
  rw [clearImpl_closed hs hi]
  obtain ⟨x', hx', hr⟩ := hR.sig_of_impl hi
  rw [hx] at hx'; cases hx'
  have hquiet : ∀ p ∈ t.sigs, p.2.active = 0 → ∀ c ∈ p.2.cells, c.zombie = false ∧ c.marker = false := by
    intro p hp
    obtain ⟨jm, hj, hjr⟩ := hR.impl_of_sig (hR.mem_sig hs hp)
    exact hjr.quiet (hs.ok _ jm hj)
  have hcore := touch_sim_core (hf := SlotB.disconnectRep) (dr := false) (fun _ => by simp) Emit.weakens_disconnectRep
    (fun _ h => disconnectRep_none h) hs hR (Emit.cids im) (if im.exec = 0 then Emit.cids im else [])
    (fun _ _ c _ _ _ => sameHold_disconnectRep c.slot) (by
      intro cid hc
      split at hc
      · rename_i hx0
        refine ⟨⟨(i, im), Emit.aget_some_mem hi, hc⟩, ?_⟩
        intro p hp hin
        unfold Model.amap at hp
        obtain ⟨q, hq, rfl⟩ := List.mem_map.mp hp
        simp only at hin
        have hsub := touchImpl_ids_sub _ _ _ cid hin
        have hqa := Emit.aget_of_mem_nodup hs.keys (show (q.1, q.2) ∈ s.impls from hq)
        by_cases e : q.1 = i
        · rw [e, hi] at hqa; cases hqa
          exact hsub.2 hx0 hc
        · exact hs.disj q.1 i q.2 im hqa hi e cid hsub.1 hc
      · simp at hc)
  have heq : amap t.sigs (fun g => g.remove true true false (fun c => (Emit.cids im).contains c.id))
      = aset t.sigs i (x.remove true true false (fun _ => true)) := by
    have hoth : ∀ p ∈ t.sigs, p.1 ≠ i →
        p.2.remove true true false (fun c => (Emit.cids im).contains c.id) = p.2 := by
      intro p hp hne
      apply remove_noop _ _ _ (hquiet p hp)
      intro c' hc' _ _
      simp only [List.contains_eq_mem, decide_eq_false_iff_not]
      intro hin
      obtain ⟨jm, hj, hjr⟩ := hR.impl_of_sig (hR.mem_sig hs hp)
      have : c'.id ∈ Emit.cids jm := by rw [← hjr.ids]; exact List.mem_map.mpr ⟨c', hc', rfl⟩
      exact hs.disj p.1 i jm im hj hi hne c'.id this hin
    rw [amap_eq_aset (f := fun g => g.remove true true false (fun c => (Emit.cids im).contains c.id)) (hR.keys_nodup hs) hx hoth]
    congr 1
    apply remove_congr _ _ _ (hquiet (i, x) (Emit.aget_some_mem hx))
    intro c' hc' _ _
    simp only [List.contains_eq_mem, decide_eq_true_eq]
    rw [← hr.ids]; exact List.mem_map.mpr ⟨c', hc', rfl⟩
  unfold Spec.setSig
  rw [← heq]
  exact hcore

end Sigc.Refine
