import Sigc.Lemmas.RefineExtraC
/-!
# Refine work package — the model-only frame property `Keeps` (umbrella module)

`RefineExtraA`: definitions (`Keeps`, `Sub`, `CF`, `Prim`) and every primitive;
`RefineExtraB`: `stepSimple_keeps`; `RefineExtraC`: the mutual block (`all_keeps`) and `runTop_keeps`.
-/
