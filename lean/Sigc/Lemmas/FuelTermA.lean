import Sigc.Lemmas.FuelMono
import Sigc.Lemmas.FuelLvlDefs
import Sigc.Lemmas.EmitTurns
import Sigc.Lemmas.RefineExtraC
/-!
# Fuel work package — termination, part A: the interface to the level invariant, the loops of an emission

`LvlStable` is what the termination argument needs from the level invariant `JK` (`Sigc.Lemmas.FuelLvl*`
prove it).  `InvokeT P δ ℓ`: every functor that forwards below level `ℓ` terminates when invoked at nesting
depth `≥ δ`.  From `InvokeT P δ L` the four loops of an emission of a slot list bounded by `L` terminate
(`loop_term`, `deref_term`, `acc_term`, `rev_term`, `walk_term`, `strat_term`): the walk stays inside the block
of the emission (`Emit.InBlk`, preserved by every invoked slot: `Emit.Frame`), and every step moves to the next
position of that block.
-/
namespace Sigc.Fuel
open Sigc.Model

/-- what the termination argument uses of the level invariant -/
structure LvlStable : Prop where
  core : Sigc.Inv.StableKCore JK
  pro : ∀ k s i im, JK k s → aget s.impls i = some im → JK k (Sigc.Inv.emitPro s i im)
  callPro : ∀ k s i v, JK k s → aget s.S i = some v → JK k (Sigc.Inv.callPro s i v)

/-- what is known of every state the interpreter passes through: the structural invariant, the level
    invariant (with the bound `k` of the emission in progress), the nesting depth -/
structure W (δ : Nat) (k : Option (Nat × Nat)) (s : St) : Prop where
  inv : Emit.Inv s
  jk : JK k s
  dep : δ ≤ s.depth

theorem W.weaken {δ : Nat} {k : Option (Nat × Nat)} {s : St} (w : W δ k s) : W δ none s :=
  ⟨w.inv, ⟨w.jk.1, fun _ _ h => by cases h⟩, w.dep⟩

/-- functors forwarding below level `ℓ` terminate at nesting depth `≥ δ` -/
def InvokeT (P : Prog) (δ ℓ : Nat) : Prop :=
  ∀ s fn arg, W δ none s → Emit.FunOK s.G fn → FunLt s.next s.G fn ℓ → ∃ f r, invokeFun f P s fn arg = some r

/-- the functor of a cell of the emitting list terminates -/
theorem W.cell {δ i L P s} {im : Impl} {c : Cell} {b : Bool} {fn : Fun} (hT : InvokeT P δ L)
    (w : W δ (some (i, L)) s) (him : aget s.impls i = some im) (hc : c ∈ im.cells)
    (hrep : c.slot.rep = some { call := b, fn := some fn }) (arg : Nat) :
    Emit.FunOK s.G fn ∧ ∃ f r, invokeFun f P s fn arg = some r := by
  have hok : Emit.FunOK s.G fn := w.inv.fwdC i im him c hc _ fn hrep rfl
  refine ⟨hok, hT s fn arg w.weaken hok ?_⟩
  exact (w.jk.2 i L rfl).1.1 im him c hc fn (by simp [fnOf, hrep])

/-- the ids of a block are pairwise different -/
theorem blk_nodup {s : St} (hs : Emit.Inv s) {i : Nat} {B : List (Nat × Bool)} (hb : Emit.InBlk s i B) :
    (B.map (·.1)).Nodup := by
  obtain ⟨im, hi, _, pre, post, hids⟩ := hb.ids
  have hn := (hs.ok i im hi).nodup
  rw [hids] at hn
  exact (List.nodup_append.mp (List.nodup_append.mp hn).1).2.1

/-- the successor of a position of the block, in the current list -/
theorem blk_succ {s : St} (hs : Emit.Inv s) {i : Nat} {B : List (Nat × Bool)} (hb : Emit.InBlk s i B)
    {d rest : List Nat} {k n : Nat} (hB : B.map (·.1) = d ++ k :: n :: rest) :
    ∃ im, aget s.impls i = some im ∧ succId im.cells k = some n := by
  obtain ⟨im, hi, _, pre, post, hids⟩ := hb.ids
  have hn := (hs.ok i im hi).nodup
  refine ⟨im, hi, Emit.succ_exact (cs := im.cells) hn (pre := pre) (d := d) (rest := rest) (post := post) ?_⟩
  show Emit.cids im = _
  rw [hids, hB]

/-- the predecessor of a position of the block, in the current list -/
theorem blk_pred {s : St} (hs : Emit.Inv s) {i : Nat} {B : List (Nat × Bool)} (hb : Emit.InBlk s i B)
    {d rest : List Nat} {p k : Nat} (hB : B.map (·.1) = d ++ p :: k :: rest) :
    ∃ im, aget s.impls i = some im ∧ predId im.cells k = some p := by
  obtain ⟨im, hi, _, pre, post, hids⟩ := hb.ids
  have hn := (hs.ok i im hi).nodup
  have hL' : im.cells.map (·.id) = (pre ++ d) ++ p :: k :: (rest ++ post) := by
    show Emit.cids im = _
    rw [hids, hB]; simp
  have hnd : (im.cells.map (·.id)).Nodup := hn
  rw [hL'] at hnd
  refine ⟨im, hi, Emit.predId_spec im.cells _ _ p k hL' ?_ ?_⟩
  · intro hin
    exact (List.nodup_append.mp hnd).2.2 k hin k (by simp) rfl
  · intro e; subst e
    have := (List.nodup_append.mp hnd).2.1
    simp at this

section
variable (hL : LvlStable)
include hL

theorem W.invoke {δ k f P s fn arg s' o v} (w : W δ k s) (hfn : Emit.FunOK s.G fn)
    (e : invokeFun f P s fn arg = some (s', o, v)) : W δ k s' ∧ Emit.Frame s s' := by
  have g := (Emit.all_ok f).invoke P s fn arg s' o v w.inv hfn e
  refine ⟨⟨g.inv, (Sigc.Inv.preservedCore hL.core f).1 k P s fn arg _ w.jk e, ?_⟩, g.frame⟩
  rw [(Sigc.Refine.invokeFun_keeps e).depth]; exact w.dep

/-- **the loop of the non-accumulating emitters terminates**: the block is `done ++ todo ++ [m]` and `cur` is
    the head of `todo ++ [m]` -/
theorem loop_term {δ i L : Nat} {P : Prog} (hT : InvokeT P δ L) : ∀ (todo : List Nat) (s : St) (cur m arg r : Nat)
    (B : List (Nat × Bool)) (done tl : List Nat), W δ (some (i, L)) s → Emit.InBlk s i B →
    B.map (·.1) = done ++ todo ++ [m] → todo ++ [m] = cur :: tl →
    ∃ f res, emitLoop f P s i cur m arg r = some res := by
  intro todo
  induction todo with
  | nil =>
    intro s cur m arg r B done tl w hb hB hcur
    simp at hcur
    refine ⟨1, (s, .ok, r), ?_⟩
    rw [emitLoop, if_pos hcur.1.symm]
  | cons x todo ih =>
    intro s cur m arg r B done tl w hb hB hcur
    simp only [List.cons_append, List.cons.injEq] at hcur
    obtain ⟨rfl, rfl⟩ := hcur
    have hnd := blk_nodup w.inv hb
    rw [hB] at hnd
    have hxm : x ≠ m := by
      intro e; subst e
      exact (List.nodup_append.mp hnd).2.2 x (by simp) x (by simp) rfl
    have hxB : x ∈ B.map (·.1) := by rw [hB]; simp
    obtain ⟨im, c, him, hfind⟩ := hb.find hxB
    have hcm := (Emit.find_mem hfind).1
    -- what follows the invocation of the cell (or its skipping)
    have after : ∀ (f1 : Nat) (s1 : St) (v : Nat), W δ (some (i, L)) s1 → Emit.Frame s s1 →
        (∀ f, f1 ≤ f → ∀ im2 nxt, aget s1.impls i = some im2 → succId im2.cells x = some nxt →
          emitLoop (f+1) P s i x m arg r = emitLoop f P s1 i nxt m arg v) →
        ∃ f res, emitLoop f P s i x m arg r = some res := by
      intro f1 s1 v w1 hfr hstep
      have hb1 := hb.frame hfr
      obtain ⟨n, rest, hnr⟩ : ∃ n rest, todo ++ [m] = n :: rest := by
        cases todo with
        | nil => exact ⟨m, [], rfl⟩
        | cons y t => exact ⟨y, t ++ [m], rfl⟩
      have hB1 : B.map (·.1) = done ++ x :: n :: rest := by rw [hB, ← hnr]; simp
      obtain ⟨im2, him2, hsucc⟩ := blk_succ w1.inv hb1 hB1
      obtain ⟨f2, res, h2⟩ := ih s1 n m arg v B (done ++ [x]) rest w1 hb1 (by rw [hB]; simp) hnr
      refine ⟨max f1 f2 + 1, res, ?_⟩
      rw [hstep _ (Nat.le_max_left _ _) im2 n him2 hsucc]
      exact emitLoop_mono (Nat.le_max_right _ _) h2
    have skip : (∀ f nxt, succId im.cells x = some nxt →
          emitLoop (f+1) P s i x m arg r = emitLoop f P s i nxt m arg r) →
        ∃ f res, emitLoop f P s i x m arg r = some res := by
      intro hsk
      refine after 0 s r w (Emit.Frame.refl s) ?_
      intro f _ im2 nxt h1 h2
      rw [him] at h1; cases h1
      exact hsk f nxt h2
    -- the cell
    rcases hrep : c.slot.rep with _ | ⟨_ | _, _ | fn⟩
    · refine skip (fun f nxt h3 => ?_)
      rw [emitLoop, if_neg hxm, him]; simp only [hfind, hrep, him, h3]
    · refine skip (fun f nxt h3 => ?_)
      rw [emitLoop, if_neg hxm, him]; simp only [hfind, hrep, him, h3]
    · refine skip (fun f nxt h3 => ?_)
      rw [emitLoop, if_neg hxm, him]; simp only [hfind, hrep, him, h3]
    · refine skip (fun f nxt h3 => ?_)
      rw [emitLoop, if_neg hxm, him]; simp only [hfind, hrep, him, h3]
    · cases hbl : c.slot.blocked with
      | true =>
        refine skip (fun f nxt h3 => ?_)
        rw [emitLoop, if_neg hxm, him]; simp only [hfind, hrep, hbl, if_true, him, h3]
      | false =>
        obtain ⟨hok, f1, ⟨s1, o, v⟩, h1⟩ := w.cell hT him hcm hrep arg
        obtain ⟨w1, hfr⟩ := w.invoke hL hok h1
        cases o with
        | ok =>
          refine after f1 s1 v w1 hfr ?_
          intro f hf im2 nxt h2 h3
          rw [emitLoop, if_neg hxm, him]
          simp only [hfind, hrep, hbl, Bool.false_eq_true, if_false, invokeFun_mono hf h1, h2, h3]
        | exc =>
          refine ⟨f1 + 1, (s1, .exc, v), ?_⟩
          rw [emitLoop, if_neg hxm, him]
          simp only [hfind, hrep, hbl, Bool.false_eq_true, if_false, h1]

theorem W.deref {δ k f P s i it arg s' o it'} {B : List (Nat × Bool)} (w : W δ k s) (hb : Emit.InBlk s i B)
    (hpos : it.pos ∈ B.map (·.1)) (e : deref f P s i it arg = some (s', o, it')) :
    W δ k s' ∧ Emit.Frame s s' ∧ it'.pos = it.pos := by
  obtain ⟨g, hp⟩ := (Emit.all_ok f).deref P s i it arg B s' o it' w.inv hb hpos e
  refine ⟨⟨g.inv, (Sigc.Inv.preservedCore hL.core f).2.2.2.2.2.1 k P s i it arg _ w.jk e, ?_⟩, g.frame, hp⟩
  rw [(Sigc.Refine.deref_keeps' e).depth]; exact w.dep

omit hL in
/-- **`slot_iterator_buf::operator*` terminates** at every position of the block -/
theorem deref_term {δ i L : Nat} {P : Prog} (hT : InvokeT P δ L) (s : St) (it : IterBuf) (arg : Nat)
    (B : List (Nat × Bool)) (w : W δ (some (i, L)) s) (hb : Emit.InBlk s i B) (hpos : it.pos ∈ B.map (·.1)) :
    ∃ f res, deref f P s i it arg = some res := by
  obtain ⟨im, c, him, hfind⟩ := hb.find hpos
  have hcm := (Emit.find_mem hfind).1
  rcases hrep : c.slot.rep with _ | ⟨_ | _, _ | fn⟩
  · exact ⟨1, (s, .ok, it), by rw [deref, him]; simp only [hfind, hrep]⟩
  · exact ⟨1, (s, .ok, it), by rw [deref, him]; simp only [hfind, hrep]⟩
  · exact ⟨1, (s, .ok, it), by rw [deref, him]; simp only [hfind, hrep]⟩
  · exact ⟨1, (s, .ok, it), by rw [deref, him]; simp only [hfind, hrep]⟩
  · cases hbl : (c.slot.blocked || it.invoked) with
    | true => exact ⟨1, (s, .ok, it), by rw [deref, him]; simp only [hfind, hrep, hbl, if_true]⟩
    | false =>
      obtain ⟨_, f1, ⟨s1, o, v⟩, h1⟩ := w.cell hT him hcm hrep arg
      cases o with
      | ok =>
        refine ⟨f1 + 1, (s1, .ok, { it with buf := v, invoked := true }), ?_⟩
        rw [deref, him]; simp only [hfind, hrep, hbl, Bool.false_eq_true, if_false, h1]
      | exc =>
        refine ⟨f1 + 1, (s1, .exc, it), ?_⟩
        rw [deref, him]; simp only [hfind, hrep, hbl, Bool.false_eq_true, if_false, h1]

/-- **the forward loops of the accumulator strategies terminate** -/
theorem acc_term {δ i L : Nat} {P : Prog} (hT : InvokeT P δ L) : ∀ (todo : List Nat) (s : St) (it : IterBuf)
    (m arg mode k r : Nat) (B : List (Nat × Bool)) (done tl : List Nat), W δ (some (i, L)) s → Emit.InBlk s i B →
    B.map (·.1) = done ++ todo ++ [m] → todo ++ [m] = it.pos :: tl →
    ∃ f res, accLoop f P s i it m arg mode k r = some res := by
  intro todo
  induction todo with
  | nil =>
    intro s it m arg mode k r B done tl w hb hB hcur
    simp at hcur
    refine ⟨1, (s, .ok, r), ?_⟩
    rw [accLoop, if_pos hcur.1.symm]
  | cons x todo ih =>
    intro s it m arg mode k r B done tl w hb hB hcur
    simp only [List.cons_append, List.cons.injEq] at hcur
    obtain ⟨hx, rfl⟩ := hcur
    have hnd := blk_nodup w.inv hb
    rw [hB] at hnd
    have hxm : x ≠ m := by
      intro e; subst e
      exact (List.nodup_append.mp hnd).2.2 x (by simp) x (by simp) rfl
    have hpm : ¬ it.pos = m := by rw [← hx]; exact hxm
    have hxB : x ∈ B.map (·.1) := by rw [hB]; simp
    have hposB : it.pos ∈ B.map (·.1) := by rw [← hx]; exact hxB
    obtain ⟨n, rest, hnr⟩ : ∃ n rest, todo ++ [m] = n :: rest := by
      cases todo with
      | nil => exact ⟨m, [], rfl⟩
      | cons y t => exact ⟨y, t ++ [m], rfl⟩
    have hB1 : B.map (·.1) = done ++ x :: n :: rest := by rw [hB, ← hnr]; simp
    -- `++it` from a position `x` of the block, in a later state
    have adv : ∀ (s' : St) (it' : IterBuf) (r' : Nat), W δ (some (i, L)) s' → Emit.Frame s s' → it'.pos = x →
        ∃ f0 res im' nxt, aget s'.impls i = some im' ∧ succId im'.cells it'.pos = some nxt ∧
          ∀ f, f0 ≤ f → accLoop f P s' i { it' with pos := nxt, invoked := false } m arg mode k r' = some res := by
      intro s' it' r' w' hfr hp
      have hb' := hb.frame hfr
      obtain ⟨im', him', hsucc⟩ := blk_succ w'.inv hb' hB1
      obtain ⟨f2, res, h2⟩ := ih s' { it' with pos := n, invoked := false } m arg mode k r' B (done ++ [x]) rest
        w' hb' (by rw [hB]; simp) hnr
      exact ⟨f2, res, im', n, him', by rw [hp]; exact hsucc, fun f hf => accLoop_mono hf h2⟩
    by_cases hm3 : mode = 3
    · obtain ⟨f0, res, im', nxt, ha, hsu, hacc⟩ := adv s it (r + 1) w (Emit.Frame.refl s) hx.symm
      refine ⟨f0 + 1, res, ?_⟩
      rw [accLoop, if_neg hpm]
      simp only [hm3, if_true, ha, hsu]
      exact hm3 ▸ hacc f0 (Nat.le_refl _)
    · obtain ⟨f1, ⟨s1, o, it1⟩, h1⟩ := deref_term hT s it arg B w hb hposB
      obtain ⟨w1, hfr1, hp1⟩ := W.deref hL w hb hposB h1
      cases o with
      | exc =>
        refine ⟨f1 + 1, (s1, .exc, r), ?_⟩
        rw [accLoop, if_neg hpm]
        simp only [hm3, if_false, h1]
      | ok =>
        by_cases hst : (decide (mode = 1) && decide (r + it1.buf ≥ k)) = true
        · refine ⟨f1 + 1, (s1, .ok, r + it1.buf), ?_⟩
          rw [accLoop, if_neg hpm]
          simp only [hm3, if_false, h1, hst, if_true]
        · have hposX : (if mode = 4 then it else it1).pos = x := by split <;> simp [hp1, hx]
          by_cases hm2 : mode = 2
          · subst hm2
            have hb1 := hb.frame hfr1
            obtain ⟨f2, ⟨s2, o2, it2⟩, h2⟩ := deref_term hT s1 (if 2 = 4 then it else it1) arg B w1 hb1
              (by rw [hposX]; exact hxB)
            obtain ⟨w2, hfr2, hp2⟩ := W.deref hL w1 hb1 (by rw [hposX]; exact hxB) h2
            cases o2 with
            | exc =>
              refine ⟨max f1 f2 + 1, (s2, .exc, r + it1.buf), ?_⟩
              rw [accLoop, if_neg hpm]
              simp only [hm3, deref_mono (Nat.le_max_left f1 f2) h1, hst, eq_self, Bool.false_eq_true, ↓reduceIte,
                deref_mono (Nat.le_max_right f1 f2) h2]
            | ok =>
              obtain ⟨f0, res, im', nxt, ha, hsu, hacc⟩ := adv s2 it2 (r + it1.buf + it2.buf) w2 (hfr1.trans hfr2)
                (by rw [hp2, hposX])
              refine ⟨max (max f1 f2) f0 + 1, res, ?_⟩
              rw [accLoop, if_neg hpm]
              have e1 := deref_mono (Nat.le_trans (Nat.le_max_left f1 f2) (Nat.le_max_left _ f0)) h1
              have e2 := deref_mono (Nat.le_trans (Nat.le_max_right f1 f2) (Nat.le_max_left _ f0)) h2
              simp only [hm3, e1, hst, eq_self, Bool.false_eq_true, ↓reduceIte, e2, ha, hsu]
              exact hacc _ (Nat.le_max_right _ _)
          · obtain ⟨f0, res, im', nxt, ha, hsu, hacc⟩ := adv s1 (if mode = 4 then it else it1) (r + it1.buf) w1 hfr1
              hposX
            refine ⟨max f1 f0 + 1, res, ?_⟩
            rw [accLoop, if_neg hpm]
            simp only [hm3, if_false, deref_mono (Nat.le_max_left f1 f0) h1, hst, hm2, ha, hsu]
            exact hacc _ (Nat.le_max_right _ _)

/-- **the reverse walk terminates**: the block is `before ++ it.pos :: after` and starts with `first` -/
theorem rev_term {δ i L : Nat} {P : Prog} (hT : InvokeT P δ L) : ∀ (n : Nat) (s : St) (it : IterBuf)
    (first arg r : Nat) (B : List (Nat × Bool)) (before after : List Nat), W δ (some (i, L)) s → Emit.InBlk s i B →
    B.map (·.1) = before ++ it.pos :: after → (before ++ [it.pos]).head? = some first → before.length = n →
    ∃ f res, revLoop f P s i it first arg r = some res := by
  intro n
  induction n with
  | zero =>
    intro s it first arg r B before after w hb hB hfirst hlen
    have : before = [] := List.eq_nil_of_length_eq_zero hlen
    subst this
    simp at hfirst
    exact ⟨1, (s, .ok, r), by rw [revLoop, if_pos hfirst]⟩
  | succ n ih =>
    intro s it first arg r B before after w hb hB hfirst hlen
    rcases List.eq_nil_or_concat before with e | ⟨b', p, e⟩
    · subst e; simp at hlen
    · rw [List.concat_eq_append] at e
      subst e
      have hlen' : b'.length = n := by simpa using hlen
      have hB' : B.map (·.1) = b' ++ p :: it.pos :: after := by rw [hB]; simp
      have hnd := blk_nodup w.inv hb
      rw [hB'] at hnd
      have hpf : ¬ it.pos = first := by
        intro e
        have hmem : first ∈ b' ++ [p] := by
          cases b' with
          | nil => simp at hfirst; simp [hfirst]
          | cons y t => simp at hfirst; simp [hfirst]
        have h2 : (b' ++ [p] ++ it.pos :: after).Nodup := by simpa using hnd
        exact (List.nodup_append.mp h2).2.2 first hmem it.pos (by simp) e.symm
      have hfirst' : (b' ++ [p]).head? = some first := by
        cases b' with
        | nil => simpa using hfirst
        | cons y t => simpa using hfirst
      obtain ⟨im, him, hpred⟩ := blk_pred w.inv hb hB'
      have hpB : p ∈ B.map (·.1) := by rw [hB']; simp
      obtain ⟨f1, ⟨s1, o, it1⟩, h1⟩ := deref_term hT s { it with pos := p, invoked := false } arg B w hb hpB
      obtain ⟨w1, hfr1, hp1⟩ := W.deref hL w hb hpB h1
      cases o with
      | exc =>
        refine ⟨f1 + 1, (s1, .exc, r), ?_⟩
        rw [revLoop, if_neg hpf, him]
        simp only [hpred, h1]
      | ok =>
        obtain ⟨f2, res, h2⟩ := ih s1 it1 first arg (r + it1.buf) B b' (it.pos :: after) w1 (hb.frame hfr1)
          (by rw [hB', hp1]) (by rw [hp1]; exact hfirst') hlen'
        refine ⟨max f1 f2 + 1, res, ?_⟩
        rw [revLoop, if_neg hpf, him]
        simp only [hpred, deref_mono (Nat.le_max_left f1 f2) h1]
        exact revLoop_mono (Nat.le_max_right f1 f2) h2

/-- **the scripted walk terminates** -/
theorem walk_term {δ i L : Nat} {P : Prog} (hT : InvokeT P δ L) : ∀ (cs : List Char) (s : St) (it : IterBuf)
    (first m arg r : Nat) (B0 : List (Nat × Bool)) (rest : List Nat), W δ (some (i, L)) s →
    Emit.InBlk s i (B0 ++ [(m, true)]) → (B0 ++ [(m, true)]).map (·.1) = first :: rest →
    it.pos ∈ (B0 ++ [(m, true)]).map (·.1) →
    ∃ f res, walkLoop f P s i it first m arg cs r = some res := by
  intro cs
  induction cs with
  | nil =>
    intro s it first m arg r B0 rest w hb hB hpos
    exact ⟨1, (s, .ok, r), by rw [walkLoop]⟩
  | cons c cs ih =>
    intro s it first m arg r B0 rest w hb hB hpos
    -- the rest of the script, from the same state
    have same : ∀ (it' : IterBuf), it'.pos ∈ (B0 ++ [(m, true)]).map (·.1) →
        ∃ f res, ∀ g, f ≤ g → walkLoop g P s i it' first m arg cs r = some res := by
      intro it' hp
      obtain ⟨f, res, h⟩ := ih s it' first m arg r B0 rest w hb hB hp
      exact ⟨f, res, fun g hg => walkLoop_mono hg h⟩
    by_cases hd : c = 'd'
    · by_cases hpm : it.pos = m
      · obtain ⟨f, res, h⟩ := same it hpos
        exact ⟨f + 1, res, by rw [walkLoop, if_pos hd, if_pos hpm]; exact h f (Nat.le_refl _)⟩
      · obtain ⟨f1, ⟨s1, o, it1⟩, h1⟩ := deref_term hT s it arg _ w hb hpos
        obtain ⟨w1, hfr1, hp1⟩ := W.deref hL w hb hpos h1
        cases o with
        | exc =>
          refine ⟨f1 + 1, (s1, .exc, r), ?_⟩
          rw [walkLoop, if_pos hd, if_neg hpm]; simp only [h1]
        | ok =>
          obtain ⟨f2, res, h2⟩ := ih s1 it1 first m arg (r + it1.buf) B0 rest w1 (hb.frame hfr1) hB
            (by rw [hp1]; exact hpos)
          refine ⟨max f1 f2 + 1, res, ?_⟩
          rw [walkLoop, if_pos hd, if_neg hpm]; simp only [deref_mono (Nat.le_max_left f1 f2) h1]
          exact walkLoop_mono (Nat.le_max_right f1 f2) h2
    · by_cases hc : c = 'c'
      · by_cases hpm : it.pos = m
        · obtain ⟨f, res, h⟩ := same it hpos
          exact ⟨f + 1, res, by rw [walkLoop, if_neg hd, if_pos hc, if_pos hpm]; exact h f (Nat.le_refl _)⟩
        · obtain ⟨f1, ⟨s1, o, it1⟩, h1⟩ := deref_term hT s it arg _ w hb hpos
          obtain ⟨w1, hfr1, hp1⟩ := W.deref hL w hb hpos h1
          cases o with
          | exc =>
            refine ⟨f1 + 1, (s1, .exc, r), ?_⟩
            rw [walkLoop, if_neg hd, if_pos hc, if_neg hpm]; simp only [h1]
          | ok =>
            obtain ⟨f2, res, h2⟩ := ih s1 it first m arg (r + it1.buf) B0 rest w1 (hb.frame hfr1) hB hpos
            refine ⟨max f1 f2 + 1, res, ?_⟩
            rw [walkLoop, if_neg hd, if_pos hc, if_neg hpm]; simp only [deref_mono (Nat.le_max_left f1 f2) h1]
            exact walkLoop_mono (Nat.le_max_right f1 f2) h2
      · by_cases hi : c = 'i'
        · by_cases hpm : it.pos = m
          · obtain ⟨f, res, h⟩ := same it hpos
            exact ⟨f + 1, res, by rw [walkLoop, if_neg hd, if_neg hc, if_pos hi, if_pos hpm]; exact h f (Nat.le_refl _)⟩
          · obtain ⟨im, nxt, him, hsucc, hnxt⟩ := hb.succ w.inv hpos hpm
            obtain ⟨f, res, h⟩ := same { it with pos := nxt, invoked := false } hnxt
            refine ⟨f + 1, res, ?_⟩
            rw [walkLoop, if_neg hd, if_neg hc, if_pos hi, if_neg hpm, him]; simp only [hsucc]
            exact h f (Nat.le_refl _)
        · by_cases hx : c = 'x'
          · by_cases hpf : it.pos = first
            · obtain ⟨f, res, h⟩ := same it hpos
              exact ⟨f + 1, res, by
                rw [walkLoop, if_neg hd, if_neg hc, if_neg hi, if_pos hx, if_pos hpf]; exact h f (Nat.le_refl _)⟩
            · obtain ⟨im, prv, him, hpred, hprv⟩ := hb.pred w.inv hB hpos hpf
              obtain ⟨f, res, h⟩ := same { it with pos := prv, invoked := false } hprv
              refine ⟨f + 1, res, ?_⟩
              rw [walkLoop, if_neg hd, if_neg hc, if_neg hi, if_pos hx, if_neg hpf, him]; simp only [hpred]
              exact h f (Nat.le_refl _)
          · obtain ⟨f, res, h⟩ := same it hpos
            exact ⟨f + 1, res, by
              rw [walkLoop, if_neg hd, if_neg hc, if_neg hi, if_neg hx]; exact h f (Nat.le_refl _)⟩

/-- **the accumulator call terminates** -/
theorem strat_term {δ i L : Nat} {P : Prog} (hT : InvokeT P δ L) (s : St) (first m arg : Nat) (strat : Strat)
    (B0 : List (Nat × Bool)) (rest : List Nat) (w : W δ (some (i, L)) s)
    (hb : Emit.InBlk s i (B0 ++ [(m, true)])) (hB : (B0 ++ [(m, true)]).map (·.1) = first :: rest) :
    ∃ f res, runStrat f P s i first m arg strat = some res := by
  have hB2 : (B0 ++ [(m, true)]).map (·.1) = [] ++ B0.map (·.1) ++ [m] := by simp
  have hcur : B0.map (·.1) ++ [m] = first :: rest := by rw [← hB]; simp
  have hfirst : first ∈ (B0 ++ [(m, true)]).map (·.1) := by rw [hB]; simp
  have accT : ∀ mode k, ∃ f res, accLoop f P s i { pos := first } m arg mode k 0 = some res :=
    fun mode k => acc_term hL hT (B0.map (·.1)) s { pos := first } m arg mode k 0 _ [] rest w hb hB2 hcur
  cases strat with
  | sum => obtain ⟨f, res, h⟩ := accT 0 0; exact ⟨f + 1, res, by rw [runStrat]; exact h⟩
  | stop k => obtain ⟨f, res, h⟩ := accT 1 k; exact ⟨f + 1, res, by rw [runStrat]; exact h⟩
  | twice => obtain ⟨f, res, h⟩ := accT 2 0; exact ⟨f + 1, res, by rw [runStrat]; exact h⟩
  | never => obtain ⟨f, res, h⟩ := accT 3 0; exact ⟨f + 1, res, by rw [runStrat]; exact h⟩
  | postinc => obtain ⟨f, res, h⟩ := accT 4 0; exact ⟨f + 1, res, by rw [runStrat]; exact h⟩
  | rev =>
    have hBr : (B0 ++ [(m, true)]).map (·.1) = B0.map (·.1) ++ m :: [] := by simp
    have hf : (B0.map (·.1) ++ [m]).head? = some first := by rw [hcur]; rfl
    obtain ⟨f, res, h⟩ := rev_term hL hT _ s { pos := m } first arg 0 _ (B0.map (·.1)) [] w hb hBr hf rfl
    exact ⟨f + 1, res, by rw [runStrat]; exact h⟩
  | walk ops =>
    obtain ⟨f, res, h⟩ := walk_term hL hT ops s { pos := first } first m arg 0 B0 rest w hb hB hfirst
    exact ⟨f + 1, res, by rw [runStrat]; exact h⟩

end

end Sigc.Fuel
