import Sigc.Lemmas.InvAssoc
import Sigc.Lemmas.InvPrims
/-!
# `WF`: the basic well-formedness invariant (identities)

impl keys are unique, cell ids are unique inside a list and across lists, and every key and id is
below the allocator `next`.  Holds in every reachable state (`WF.stable`, `WF.init`).
-/
namespace Sigc.Inv
open Sigc.Model

structure WFI (impls : List (Nat × Impl)) (next : Nat) : Prop where
  keys : (impls.map (·.1)).Nodup
  cellN : ∀ i im, aget impls i = some im → (im.cells.map (·.id)).Nodup
  cellU : ∀ i j im jm c d, aget impls i = some im → aget impls j = some jm →
    c ∈ im.cells → d ∈ jm.cells → c.id = d.id → i = j
  keyLt : ∀ i im, aget impls i = some im → i < next
  idLt : ∀ i im c, aget impls i = some im → c ∈ im.cells → c.id < next

/-- the identity invariant of a state -/
def WF (s : St) : Prop := WFI s.impls s.next

theorem WF.init : WF {} := by
  refine ⟨by simp, ?_, ?_, ?_, ?_⟩ <;> intros <;> simp_all [aget]

theorem WFI.mono {impls : List (Nat × Impl)} {n n' : Nat} (h : WFI impls n) (hn : n ≤ n') : WFI impls n' :=
  ⟨h.keys, h.cellN, h.cellU, fun i im hi => Nat.lt_of_lt_of_le (h.keyLt i im hi) hn,
   fun i im c hi hc => Nat.lt_of_lt_of_le (h.idLt i im c hi hc) hn⟩

/-- replacing the cells of an existing impl by cells whose ids are old ids of that impl or fresh -/
theorem WFI.aset {impls : List (Nat × Impl)} {n n' : Nat} (h : WFI impls n) {i : Nat} {im im' : Impl}
    (hi : aget impls i = some im) (hN : (im'.cells.map (·.id)).Nodup)
    (hold : ∀ c' ∈ im'.cells, (∃ c ∈ im.cells, c.id = c'.id) ∨ n ≤ c'.id)
    (hlt : ∀ c' ∈ im'.cells, c'.id < n') (hn : n ≤ n') : WFI (aset impls i im') n' := by
  refine ⟨keys_nodup_aset h.keys _ _, ?_, ?_, ?_, ?_⟩
  · intro j jm hj
    rw [aget_aset] at hj
    split at hj
    · cases hj; exact hN
    · exact h.cellN j jm hj
  · intro a b am bm c d ha hb hc hd he
    rw [aget_aset] at ha hb
    by_cases hai : a = i <;> by_cases hbi : b = i
    · rw [hai, hbi]
    · simp only [hai, if_true, Option.some.injEq] at ha
      simp only [hbi, if_false] at hb
      subst ha
      rcases hold c hc with ⟨c0, hc0, e0⟩ | hge
      · rw [hai]; exact h.cellU i b im bm c0 d hi hb hc0 hd (e0.trans he)
      · have := h.idLt b bm d hb hd
        omega
    · simp only [hbi, if_true, Option.some.injEq] at hb
      simp only [hai, if_false] at ha
      subst hb
      rcases hold d hd with ⟨d0, hd0, e0⟩ | hge
      · rw [hbi]; exact h.cellU a i am im c d0 ha hi hc hd0 (he.trans e0.symm)
      · have := h.idLt a am c ha hc
        omega
    · simp only [hai, if_false] at ha
      simp only [hbi, if_false] at hb
      exact h.cellU a b am bm c d ha hb hc hd he
  · intro j jm hj
    rw [aget_aset] at hj
    split at hj
    · rename_i e; rw [e]; exact Nat.lt_of_lt_of_le (h.keyLt i im hi) hn
    · exact Nat.lt_of_lt_of_le (h.keyLt j jm hj) hn
  · intro j jm c hj hc
    rw [aget_aset] at hj
    split at hj
    · cases hj; exact hlt c hc
    · exact Nat.lt_of_lt_of_le (h.idLt j jm c hj hc) hn

/-- the new cells are a sub-multiset (id-wise a sublist) of the old ones -/
theorem WFI.aset_sub {impls : List (Nat × Impl)} {n : Nat} (h : WFI impls n) {i : Nat} {im im' : Impl}
    (hi : aget impls i = some im) (hsub : (im'.cells.map (·.id)).Sublist (im.cells.map (·.id))) :
    WFI (Model.aset impls i im') n := by
  have hmem : ∀ c' ∈ im'.cells, ∃ c ∈ im.cells, c.id = c'.id := by
    intro c' hc'
    have : c'.id ∈ im.cells.map (·.id) := hsub.subset (List.mem_map.2 ⟨c', hc', rfl⟩)
    obtain ⟨c, hc, e⟩ := List.mem_map.1 this
    exact ⟨c, hc, e⟩
  refine h.aset hi (List.Nodup.sublist hsub (h.cellN i im hi)) (fun c' hc' => Or.inl (hmem c' hc')) ?_
    (Nat.le_refl _)
  intro c' hc'
  obtain ⟨c, hc, e⟩ := hmem c' hc'
  rw [← e]; exact h.idLt i im c hi hc

/-- a new impl without cells under a fresh key -/
theorem WFI.aset_new {impls : List (Nat × Impl)} {n n' : Nat} (h : WFI impls n) {i : Nat} {im' : Impl}
    (hc : im'.cells = []) (hin : i < n') (hn : n ≤ n') : WFI (Model.aset impls i im') n' := by
  refine ⟨keys_nodup_aset h.keys _ _, ?_, ?_, ?_, ?_⟩
  · intro j jm hj
    rw [aget_aset] at hj
    split at hj
    · cases hj; simp [hc]
    · exact h.cellN j jm hj
  · intro a b am bm c d ha hb hca hdb he
    rw [aget_aset] at ha hb
    split at ha
    · cases ha; rw [hc] at hca; cases hca
    · split at hb
      · cases hb; rw [hc] at hdb; cases hdb
      · exact h.cellU a b am bm c d ha hb hca hdb he
  · intro j jm hj
    rw [aget_aset] at hj
    split at hj
    · rename_i e; rw [e]; exact hin
    · exact Nat.lt_of_lt_of_le (h.keyLt j jm hj) hn
  · intro j jm c hj hcj
    rw [aget_aset] at hj
    split at hj
    · cases hj; rw [hc] at hcj; cases hcj
    · exact Nat.lt_of_lt_of_le (h.idLt j jm c hj hcj) hn

theorem WFI.adel {impls : List (Nat × Impl)} {n : Nat} (h : WFI impls n) (i : Nat) :
    WFI (Model.adel impls i) n := by
  refine ⟨keys_nodup_adel h.keys _, ?_, ?_, ?_, ?_⟩
  · intro j jm hj
    rw [aget_adel] at hj
    split at hj
    · cases hj
    · exact h.cellN j jm hj
  · intro a b am bm c d ha hb hca hdb he
    rw [aget_adel] at ha hb
    split at ha
    · cases ha
    · split at hb
      · cases hb
      · exact h.cellU a b am bm c d ha hb hca hdb he
  · intro j jm hj
    rw [aget_adel] at hj
    split at hj
    · cases hj
    · exact h.keyLt j jm hj
  · intro j jm c hj hcj
    rw [aget_adel] at hj
    split at hj
    · cases hj
    · exact h.idLt j jm c hj hcj

/-! ### frame facts: what the primitive updates do to `impls` and `next` -/

@[simp] theorem nullConns_impls (s : St) (cid : Nat) : (nullConns s cid).impls = s.impls := rfl
@[simp] theorem nullConns_next (s : St) (cid : Nat) : (nullConns s cid).next = s.next := rfl
@[simp] theorem nullConns_G (s : St) (cid : Nat) : (nullConns s cid).G = s.G := rfl
@[simp] theorem nullConns_S (s : St) (cid : Nat) : (nullConns s cid).S = s.S := rfl
@[simp] theorem nullConns_T (s : St) (cid : Nat) : (nullConns s cid).T = s.T := rfl

theorem nullConnsList_frame (cids : List Nat) : ∀ (s : St),
    (nullConnsList s cids).impls = s.impls ∧ (nullConnsList s cids).next = s.next ∧
    (nullConnsList s cids).G = s.G ∧ (nullConnsList s cids).S = s.S ∧ (nullConnsList s cids).T = s.T := by
  induction cids with
  | nil => intro s; exact ⟨rfl, rfl, rfl, rfl, rfl⟩
  | cons c cs ih =>
    intro s
    have := ih (nullConns s c)
    simpa [nullConnsList] using this

@[simp] theorem nullConnsList_impls (s : St) (cids : List Nat) : (nullConnsList s cids).impls = s.impls :=
  (nullConnsList_frame cids s).1
@[simp] theorem nullConnsList_next (s : St) (cids : List Nat) : (nullConnsList s cids).next = s.next :=
  (nullConnsList_frame cids s).2.1
@[simp] theorem nullConnsList_G (s : St) (cids : List Nat) : (nullConnsList s cids).G = s.G :=
  (nullConnsList_frame cids s).2.2.1
@[simp] theorem nullConnsList_S (s : St) (cids : List Nat) : (nullConnsList s cids).S = s.S :=
  (nullConnsList_frame cids s).2.2.2.1
@[simp] theorem nullConnsList_T (s : St) (cids : List Nat) : (nullConnsList s cids).T = s.T :=
  (nullConnsList_frame cids s).2.2.2.2

@[simp] theorem setImpl_impls (s : St) (i : Nat) (im : Impl) : (setImpl s i im).impls = aset s.impls i im := rfl
@[simp] theorem setImpl_next (s : St) (i : Nat) (im : Impl) : (setImpl s i im).next = s.next := rfl

theorem WF.prims : PrimsA WF where
  upd s i im g e d _ h hi hg := by
    apply WFI.aset_sub h hi
    simp only [List.map_map]
    have : (fun c => c.id) ∘ g = (fun c => c.id) := by funext c; exact (hg c).1
    rw [this]
    exact List.Sublist.refl _
  filter s i im p d ids _ h hi _ := by
    show WFI (nullConnsList _ _).impls (nullConnsList _ _).next
    simp only [nullConnsList_impls, nullConnsList_next, setImpl_impls, setImpl_next]
    exact WFI.aset_sub h hi (List.Sublist.map _ List.filter_sublist)
  delImpl s i im _ h _ _ _ := by
    show WFI (nullConnsList _ _).impls (nullConnsList _ _).next
    simp only [nullConnsList_impls, nullConnsList_next]
    exact WFI.adel h i
  invalS s t _ h := h


/-! ### `WF` is stable -/

theorem WF.lit {X : St} {t : List (Nat × Nat)} {sv : List (Nat × SlotVar)} {g : List (Nat × Handle)}
    {c k : List (Nat × Option Nat)} {d st : Nat} {tr : List Event} {e : Option String} (h : WF X) :
    WF { T := t, S := sv, G := g, C := c, K := k, impls := X.impls, next := X.next, depth := d, steps := st,
         trace := tr, err := e } := h

theorem WF.fresh {s : St} (h : WF s) : WF s.fresh.snd := WFI.mono h (Nat.le_succ _)

theorem WF.setConn {s : St} (k : Nat) (p : Option Nat) (h : WF s) : WF (setConn s k p) := h

theorem WF.fail {s : St} (m : String) (h : WF s) : WF (s.fail m) := by
  unfold St.fail; split <;> exact h

theorem mkFun_frame {s s' : St} {v : Bool} {spec : FSpec} {fn : Fun} (h : mkFun s v spec = .ok (fn, s')) :
    s'.impls = s.impls ∧ s.next ≤ s'.next ∧ s'.S = s.S ∧ s'.C = s.C ∧ s'.err = s.err := by
  cases spec <;> simp only [mkFun] at h
  all_goals (repeat' split at h)
  all_goals (first | (cases h; done) | skip)
  all_goals (simp only [Except.ok.injEq, Prod.mk.injEq] at h; obtain ⟨_, rfl⟩ := h)
  all_goals (first | exact ⟨rfl, Nat.le_refl _, rfl, rfl, rfl⟩ | exact ⟨rfl, Nat.le_succ _, rfl, rfl, rfl⟩)

theorem WF.mkFun {s s' : St} {v : Bool} {spec : FSpec} {fn : Fun} (h : WF s)
    (hm : mkFun s v spec = .ok (fn, s')) : WF s' := by
  obtain ⟨h1, h2, _⟩ := mkFun_frame hm
  unfold WF; rw [h1]; exact WFI.mono h h2

theorem WF.ensureImpl {s s1 : St} {g i : Nat} (h : WF s) (he : ensureImpl s g = some (s1, i)) : WF s1 := by
  unfold Model.ensureImpl at he
  split at he
  · cases he
  · split at he
    · cases he; exact h
    · simp only [St.fresh, Option.some.injEq, Prod.mk.injEq] at he
      obtain ⟨rfl, rfl⟩ := he
      exact WFI.aset_new h rfl (Nat.lt_succ_self _) (Nat.le_succ _)

theorem WFI.aset_snoc {impls : List (Nat × Impl)} {n : Nat} (h : WFI impls n) {i : Nat} {im im' : Impl}
    (hi : aget impls i = some im) {c0 : Cell} (hc : im'.cells = im.cells ++ [c0]) (h0 : c0.id = n) :
    WFI (Model.aset impls i im') (n + 1) := by
  have hN := h.cellN i im hi
  have hne : ∀ c ∈ im.cells, c.id ≠ n := fun c hc e => by
    have := h.idLt i im c hi hc; omega
  refine WFI.aset (n := n) h hi ?_ ?_ ?_ (Nat.le_succ _)
  · rw [hc]
    simp only [List.map_append, List.map_cons, List.map_nil]
    rw [List.nodup_append]
    refine ⟨hN, by simp, ?_⟩
    intro a ha b hb
    simp at hb
    obtain ⟨c, hc, e⟩ := List.mem_map.1 ha
    subst hb; subst e
    rw [h0]; exact hne c hc
  · intro c' hc'
    rw [hc] at hc'
    rcases List.mem_append.1 hc' with ht | ht
    · exact Or.inl ⟨c', ht, rfl⟩
    · simp at ht; subst ht; exact Or.inr (Nat.le_of_eq h0.symm)
  · intro c' hc'
    rw [hc] at hc'
    rcases List.mem_append.1 hc' with ht | ht
    · exact Nat.lt_succ_of_lt (h.idLt i im c' hi ht)
    · simp at ht; subst ht; rw [h0]; exact Nat.lt_succ_self _

theorem WFI.aset_cons {impls : List (Nat × Impl)} {n : Nat} (h : WFI impls n) {i : Nat} {im im' : Impl}
    (hi : aget impls i = some im) {c0 : Cell} (hc : im'.cells = c0 :: im.cells) (h0 : c0.id = n) :
    WFI (Model.aset impls i im') (n + 1) := by
  have hN := h.cellN i im hi
  have hne : ∀ c ∈ im.cells, c.id ≠ n := fun c hc e => by
    have := h.idLt i im c hi hc; omega
  refine WFI.aset (n := n) h hi ?_ ?_ ?_ (Nat.le_succ _)
  · rw [hc]
    simp only [List.map_cons, List.nodup_cons]
    refine ⟨?_, hN⟩
    intro hm
    obtain ⟨c, hc, e⟩ := List.mem_map.1 hm
    rw [h0] at e
    exact hne c hc e
  · intro c' hc'
    rw [hc] at hc'
    cases hc' with
    | head => exact Or.inr (Nat.le_of_eq h0.symm)
    | tail _ ht => exact Or.inl ⟨c', ht, rfl⟩
  · intro c' hc'
    rw [hc] at hc'
    cases hc' with
    | head => rw [h0]; exact Nat.lt_succ_self _
    | tail _ ht => exact Nat.lt_succ_of_lt (h.idLt i im c' hi ht)

theorem WF.insertCell {s : St} (i : Nat) (first : Bool) (sl : SlotB) (h : WF s) :
    WF (insertCell s i first sl).fst := by
  unfold Model.insertCell
  simp only [St.fresh]
  split
  · exact WF.fail _ (WFI.mono h (Nat.le_succ _))
  · rename_i im hi
    cases first
    · exact WFI.aset_snoc h hi rfl rfl
    · exact WFI.aset_cons h hi rfl rfl

theorem WF.emitPro {s : St} {i : Nat} {im : Impl} (h : WF s) (hi : aget s.impls i = some im) :
    WF (emitPro s i im) :=
  WFI.aset_snoc h hi rfl rfl

theorem WF.dropHolder {s : St} (i : Nat) (h : WF s) : WF (dropHolder s i) := by
  unfold Inv.dropHolder
  split
  · exact h
  · rename_i im hi
    exact WFI.aset_sub h hi (List.Sublist.refl _)

/-! simp-normal forms used to discharge `stepSimple` obligations -/

theorem wfi_succ {impls : List (Nat × Impl)} {n : Nat} (h : WFI impls n) : WFI impls (n+1) :=
  h.mono (Nat.le_succ _)
theorem wfi_invalidateTrackable {s : St} {t : Nat} (h : WFI s.impls s.next) :
    WFI (invalidateTrackable s t).impls (invalidateTrackable s t).next := WF.prims.invalidateTrackable t h
theorem wfi_gcImpl {s : St} {i : Nat} (h : WFI s.impls s.next) :
    WFI (gcImpl s i).impls (gcImpl s i).next := WF.prims.gcImpl i h
theorem wfi_disconnectCell {s : St} {i : Nat} (h : WFI s.impls s.next) :
    WFI (disconnectCell s i).impls (disconnectCell s i).next := WF.prims.disconnectCell i h
theorem wfi_clearImpl {s : St} {i : Nat} (h : WFI s.impls s.next) :
    WFI (clearImpl s i).impls (clearImpl s i).next := WF.prims.clearImpl i h
theorem wfi_connBlock {s : St} {p : Option Nat} {b : Bool} (h : WFI s.impls s.next) :
    WFI (connBlock s p b).impls (connBlock s p b).next := WF.prims.connBlock p b h
theorem wfi_insertCell {s : St} {i : Nat} {first : Bool} {sl : SlotB} (h : WFI s.impls s.next) :
    WFI (insertCell s i first sl).fst.impls (insertCell s i first sl).fst.next := WF.insertCell i first sl h
theorem wfi_blockAll {s : St} {i : Nat} {x : Impl} {b : Bool} (hi : aget s.impls i = some x)
    (h : WFI s.impls s.next) :
    WFI (aset s.impls i { x with cells := x.cells.map (fun c => { c with slot := { c.slot with blocked := b } }) })
      s.next :=
  WF.prims.blockAll b h hi

set_option maxHeartbeats 400000 in
theorem WF_simple (s : St) (op : Op) (s' : St) (r : String) (hI : WF s)
    (h : stepSimple s op = some (s', r)) : WF s' := by
  cases op <;> simp only [stepSimple] at h
  all_goals (repeat' split at h)
  all_goals (first | (cases h; done) | skip)
  all_goals (simp only [Option.some.injEq, Prod.mk.injEq] at h; obtain ⟨rfl, _⟩ := h)
  all_goals (first | exact hI | skip)
  all_goals (
    try (have h1 := WF.mkFun hI ‹_›)
    try (have h2 := WF.ensureImpl hI ‹_›)
    try (have h3 := WF.ensureImpl ‹WF _› ‹_›)
    simp only [WF] at *
    first | done | simp (maxDischargeDepth := 8) only [St.fresh, setConn, setImpl, wfi_succ,
      wfi_invalidateTrackable, wfi_gcImpl, wfi_disconnectCell, wfi_clearImpl, wfi_connBlock, wfi_insertCell,
      wfi_blockAll, *])

theorem WF_forceDelG (s : St) (g : Nat) (hI : WF s) : WF (forceDelG s g) := by
  unfold forceDelG
  split
  · exact hI
  · simp only []
    split <;> split <;>
    · simp only [WF] at *
      first | done | simp (maxDischargeDepth := 8) only [wfi_invalidateTrackable, wfi_gcImpl, *]

theorem WF.collect (s : St) (hI : WF s) : WF (collect s) :=
  WF.prims.collect (fun _ _ h => h) (fun _ _ h => h) (dropG_of (fun _ _ h => h) WF_forceDelG) hI

/-- `WF` is preserved by every function of the model -/
theorem WF.stable : Stable WF where
  log _ _ _ h := h
  fail s m _ h := WF.fail m h
  depth _ _ _ h := h
  steps _ _ _ h := h
  incall _ _ _ _ _ h _ := h
  simple s op s' r _ h hs := WF_simple s op s' r h hs
  collect s _ h := WF.collect s h
  pro _ _ _ _ h hi := WF.emitPro h hi
  erase _ i m _ h := WF.prims.eraseCell i m h
  unref _ i _ h := WF.prims.unrefExec i h
  drop _ i _ h := WF.dropHolder i h
  gc _ i _ h := WF.prims.gcImpl i h
  forceDel s g _ h := WF_forceDelG s g h

/-- every reachable state is well-formed -/
theorem WF.reachable (f : Nat) (P : Prog) (s : St) (h : runTop f P {} P.top = some s) : WF s :=
  WF.stable.runTop WF.init f P s h

end Sigc.Inv
