import Sigc.Lemmas.SpecKRemove
/-!
# SpecK — the primitives on related states: `findSig`/`getCell`, `removeCell`, `invalidateTrackable`,
the `clear` arm, `updCell`, `ensureSig`, `insertCell`, `gcSig`.
-/
namespace Sigc.SpecK
open Sigc.Model Sigc.Spec

/-- a pair of steps that allocate nothing -/
structure Sim0 (ρ : IdRel) (t u t' u' : LSt) : Prop where
  q : Q ρ t' u'
  fr : Fr t t'
  nk : t'.next = t.next
  np : u'.next = u.next

theorem Sim0.refl {ρ : IdRel} {t u : LSt} (h : Q ρ t u) : Sim0 ρ t u t u := ⟨h, Fr.refl t, rfl, rfl⟩

theorem Sim0.trans {ρ : IdRel} {t u t1 u1 t2 u2 : LSt} (h1 : Sim0 ρ t u t1 u1) (h2 : Sim0 ρ t1 u1 t2 u2) :
    Sim0 ρ t u t2 u2 := ⟨h2.q, h1.fr.trans h2.fr, h2.nk.trans h1.nk, h2.np.trans h1.np⟩

theorem Sim0.step {ρ : IdRel} {t u t' u' : LSt} (h : Sim0 ρ t u t' u') : Step ρ ρ t t' u u' :=
  Step.of_eq h.nk h.np

/-! ## looking an entry up by id -/

theorem SigR.any_id {ρ : IdRel} {n n' : Nat} (hp : PB ρ n n') {g g' : LSig} (h : SigR ρ g g') {cid cid' : Nat}
    (hc : ρ cid cid') :
    g'.cells.any (fun c => decide (c.id = cid') && !c.zombie) = g.cells.any (fun c => decide (c.id = cid) && !c.zombie) := by
  rw [any_split g.cells live]
  have e2 : g.cells.any (fun c => !live c && (decide (c.id = cid) && !c.zombie)) = false := by
    rw [List.any_eq_false]
    intro c hcm hx
    simp only [Bool.and_eq_true, Bool.not_eq_true', decide_eq_true_eq] at hx
    obtain ⟨hl, hid, hz⟩ := hx
    have hm : c.marker = true := by
      unfold live at hl; cases hm : c.marker <;> simp_all
    exact h.nomk c hcm hm cid' (by rw [hid]; exact hc)
  rw [e2, Bool.or_false]
  exact (F2.any h.cells _ _ (fun a b ha _ hr => by
    have hl := (List.mem_filter.mp ha).2
    have hz : a.zombie = false := by unfold live at hl; cases hz : a.zombie <;> simp_all
    rw [hp.dec hr.id hc, hz, hr.zombie])).symm

theorem findSig_sim {ρ : IdRel} {n n' : Nat} (hp : PB ρ n n') {l m : List (Nat × LSig)} (h : KR ρ (SigR ρ) l m)
    {cid cid' : Nat} (hc : ρ cid cid') : OR ρ (findSig l cid) (findSig m cid') := by
  induction h with
  | nil => exact .none
  | @cons p q l m hpq _ ih =>
    obtain ⟨i, g⟩ := p
    obtain ⟨i', g'⟩ := q
    simp only [findSig]
    rw [hpq.2.any_id hp hc]
    split
    · exact .some hpq.1
    · exact ih

theorem find?_congr' {α : Type} {l : List α} {p q : α → Bool} (h : ∀ a ∈ l, p a = q a) : l.find? p = l.find? q := by
  induction l with
  | nil => rfl
  | cons a t ih =>
    simp only [List.find?, h a (by simp)]
    rw [ih (fun x hx => h x (List.mem_cons_of_mem _ hx))]

/-- the entry with id `cid` of the first configuration's list `g`, if it is live -/
theorem SigR.find_id {ρ : IdRel} {n n' : Nat} (hp : PB ρ n n') {g g' : LSig} (h : SigR ρ g g') {cid cid' : Nat}
    (hc : ρ cid cid') :
    OR (CellR ρ) (g.cells.find? (fun c => decide (c.id = cid) && !c.zombie))
      (g'.cells.find? (fun c => decide (c.id = cid') && !c.zombie)) := by
  have e : g.cells.find? (fun c => decide (c.id = cid) && !c.zombie)
      = (g.cells.filter live).find? (fun c => decide (c.id = cid) && !c.zombie) := by
    rw [List.find?_filter]
    apply find?_congr'
    intro c hcm
    cases hl : live c
    · have hx : (decide (c.id = cid) && !c.zombie) = false := by
        cases hx : (decide (c.id = cid) && !c.zombie)
        · rfl
        · simp only [Bool.and_eq_true, Bool.not_eq_true', decide_eq_true_eq] at hx
          have hm : c.marker = true := by
            unfold live at hl; cases hm : c.marker <;> simp_all
          exact absurd (by rw [hx.1]; exact hc) (h.nomk c hcm hm cid')
      simp [hx]
    · simp
  rw [e]
  exact F2.find h.cells _ _ (fun a b ha _ hr => by
    have hl := (List.mem_filter.mp ha).2
    have hz : a.zombie = false := by unfold live at hl; cases hz : a.zombie <;> simp_all
    rw [hp.dec hr.id hc, hz, hr.zombie])

theorem getCell_sim {ρ : IdRel} {t u : LSt} (h : Q ρ t u) {cid cid' : Nat} (hc : ρ cid cid') :
    OR (fun x y => ρ x.1 y.1 ∧ CellR ρ x.2 y.2) (Spec.getCell t cid) (Spec.getCell u cid') := by
  unfold Spec.getCell
  have hf := findSig_sim h.pb h.sigs hc
  generalize findSig t.sigs cid = a at hf
  generalize findSig u.sigs cid' = b at hf
  cases hf with
  | none => exact .none
  | @some i i' hi =>
    simp only
    have hg := h.sig_get hi
    generalize aget t.sigs i = x at hg
    generalize aget u.sigs i' = y at hg
    cases hg with
    | none => exact .none
    | @some g g' hg =>
      simp only
      have hx := hg.find_id h.pb hc
      generalize g.cells.find? _ = x at hx
      generalize g'.cells.find? _ = y at hx
      cases hx with
      | none => exact .none
      | some hr => exact .some ⟨hi, hr⟩

theorem connConnected_sim {ρ : IdRel} {t u : LSt} (h : Q ρ t u) {p p' : Option Nat} (hpp : OR ρ p p') :
    Spec.connConnected u p' = Spec.connConnected t p := by
  unfold Spec.connConnected
  cases hpp with
  | none => rfl
  | some hc =>
    simp only
    have hx := getCell_sim h hc
    generalize Spec.getCell t _ = x at hx
    generalize Spec.getCell u _ = y at hx
    cases hx with
    | none => rfl
    | some hr => simp only; rw [hr.2.slot.empty]

theorem connBlockedStr_sim {ρ : IdRel} {t u : LSt} (h : Q ρ t u) {p p' : Option Nat} (hpp : OR ρ p p') :
    Spec.connBlockedStr u p' = Spec.connBlockedStr t p := by
  unfold Spec.connBlockedStr
  cases hpp with
  | none => rfl
  | some hc =>
    simp only
    have hx := getCell_sim h hc
    generalize Spec.getCell t _ = x at hx
    generalize Spec.getCell u _ = y at hx
    cases hx with
    | none => rfl
    | some hr => simp only; rw [hr.2.slot.blocked]

/-! ## `removeCell` -/

theorem removeCell_sim {ρ : IdRel} {t u : LSt} (h : Q ρ t u) {cid cid' : Nat} (hc : ρ cid cid') :
    Sim0 ρ t u (removeCell t cid) (removeCell u cid') := by
  unfold removeCell
  have hf := findSig_sim h.pb h.sigs hc
  generalize findSig t.sigs cid = a at hf
  generalize findSig u.sigs cid' = b at hf
  cases hf with
  | none => exact Sim0.refl h
  | @some i i' hi =>
    simp only
    have hg := h.sig_get hi
    cases hx : aget t.sigs i with
    | none =>
      rw [hx] at hg
      generalize aget u.sigs i' = y at hg
      cases hg; exact Sim0.refl h
    | some g =>
      rw [hx] at hg
      generalize aget u.sigs i' = y at hg
      cases hg with
        | @some _ g' hg =>
          simp only
          rw [h.k1, h.k2, h.k1', h.k2']
          have hv := (h.sig_inv hx).2
          obtain ⟨hr, hv', ha, hm⟩ := remove_sim h.pb hg hv false (fun c => decide (c.id = cid))
            (fun c => decide (c.id = cid')) (fun c c' _ _ hcr => (h.pb.dec hcr.id hc).symm)
          exact ⟨h.setSig hi hr hv', Fr.setSig hx ha hm, rfl, rfl⟩

/-! ## `invalidateTrackable` -/

theorem invalidateTrackable_cfg (t : LSt) (a b : Bool) (hk1 : t.k1 = a) (hk2 : t.k2 = b) (o : Nat) :
    Spec.invalidateTrackable t o =
      { t with S := amap t.S (fun v => if v.slot.tracksObj o then { v with slot := v.slot.invalidate } else v),
               sigs := amap t.sigs (fun g => g.remove a b true (fun c => c.slot.tracksObj o)) } := by
  unfold Spec.invalidateTrackable
  subst hk1 hk2
  rfl

theorem invalidateTrackable_sim {ρ : IdRel} {t u : LSt} (h : Q ρ t u) {o o' : Nat} (ho : ρ o o') :
    Sim0 ρ t u (Spec.invalidateTrackable t o) (Spec.invalidateTrackable u o') := by
  rw [invalidateTrackable_cfg t _ _ h.k1 h.k2, invalidateTrackable_cfg u _ _ h.k1' h.k2']
  have hent : ∀ (p q : Nat × LSig), p ∈ t.sigs → (ρ p.1 q.1 ∧ SigR ρ p.2 q.2) →
      SigR ρ (p.2.remove true true true (fun c => c.slot.tracksObj o))
             (q.2.remove false false true (fun c => c.slot.tracksObj o')) ∧
      SigInv t.next (p.2.remove true true true (fun c => c.slot.tracksObj o)) ∧
      (p.2.remove true true true (fun c => c.slot.tracksObj o)).active = p.2.active ∧
      ((p.2.remove true true true (fun c => c.slot.tracksObj o)).cells.filter (·.marker)).map (·.id)
        = (p.2.cells.filter (·.marker)).map (·.id) := fun p q hpm hr =>
    remove_sim h.pb hr.2 (h.inv p hpm).2 true _ _ (fun c c' _ _ hcr => hcr.slot.tracksObj h.pb ho)
  refine ⟨{ h with S := ?_, sigs := ?_, keys := ?_, inv := ?_ }, ⟨rfl, fun i => ?_, fun i => ?_⟩, rfl, rfl⟩
  · dsimp only
    exact AR.map h.S _ _ (fun a b hr => by
      rw [hr.slot.tracksObj h.pb ho]
      split
      · exact ⟨hr.isVoid, hr.slot.invalidate, hr.incall, hr.taint⟩
      · exact hr)
  · dsimp only
    unfold amap
    exact F2.map h.sigs _ _ (fun p q hpm _ hr => ⟨hr.1, (hent p q hpm hr).1⟩)
  · simp only [amap_keys]; exact h.keys
  · intro p hpm
    dsimp only at hpm ⊢
    obtain ⟨q, hq, e⟩ := mem_amap hpm
    subst e
    obtain ⟨q', _, hr⟩ := h.sigs.mem_left hq
    exact ⟨(h.inv q hq).1, (hent q q' hq hr).2.1⟩
  · simp only [act, aget_amap]
    cases hx : aget t.sigs i with
    | none => rfl
    | some g =>
      simp only [Option.map]
      obtain ⟨q', _, hr⟩ := h.sigs.mem_left (aget_mem hx)
      exact (hent (i, g) q' (aget_mem hx) hr).2.2.1
  · simp only [mks, aget_amap]
    cases hx : aget t.sigs i with
    | none => rfl
    | some g =>
      simp only [Option.map]
      obtain ⟨q', _, hr⟩ := h.sigs.mem_left (aget_mem hx)
      exact (hent (i, g) q' (aget_mem hx) hr).2.2.2

end Sigc.SpecK
