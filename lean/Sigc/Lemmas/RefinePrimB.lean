import Sigc.Lemmas.RefineClear
/-!
# Refine work package — primitives, part B: `ensureImpl`, `insertCell`, `gcImpl`, connection queries
and `connBlock`.
-/
namespace Sigc.Refine
open Sigc.Model

/-! ## errors are not part of the relation -/

theorem R.fail {s : St} {t : Spec.LSt} (hR : R s t) (m m' : String) : R (s.fail m) (t.fail m') := by
  unfold St.fail Spec.LSt.fail
  have h1 : ∀ e, R { s with err := e } t := fun e =>
    ⟨hR.T, hR.S, hR.G, hR.C, hR.K, hR.sigs, hR.ownedT, hR.ownedK, hR.ownedG, hR.next, hR.depth, hR.steps, hR.trace, hR.k1, hR.k2⟩
  have h2 : ∀ (s0 : St) e, R s0 t → R s0 { t with err := e } := fun s0 e h =>
    ⟨h.T, h.S, h.G, h.C, h.K, h.sigs, h.ownedT, h.ownedK, h.ownedG, h.next, h.depth, h.steps, h.trace, h.k1, h.k2⟩
  cases s.err <;> cases t.err <;> simp only
  · exact h2 _ _ (h1 _)
  · exact h1 _
  · exact h2 _ _ hR
  · exact hR

theorem R.failL {s : St} {t : Spec.LSt} (hR : R s t) (m : String) : R (s.fail m) t := by
  unfold St.fail
  cases s.err <;> simp only
  · exact ⟨hR.T, hR.S, hR.G, hR.C, hR.K, hR.sigs, hR.ownedT, hR.ownedK, hR.ownedG, hR.next, hR.depth, hR.steps, hR.trace, hR.k1, hR.k2⟩
  · exact hR

theorem R.failR {s : St} {t : Spec.LSt} (hR : R s t) (m : String) : R s (t.fail m) := by
  unfold Spec.LSt.fail
  cases t.err <;> simp only
  · exact ⟨hR.T, hR.S, hR.G, hR.C, hR.K, hR.sigs, hR.ownedT, hR.ownedK, hR.ownedG, hR.next, hR.depth, hR.steps, hR.trace, hR.k1, hR.k2⟩
  · exact hR

/-! ## `signal_base::impl()` -/

theorem sigR_empty : SigR {} {} := ⟨.nil, rfl, rfl, rfl⟩

theorem R_ensure {s : St} {t : Spec.LSt} (hR : R s t) (g : Nat) :
    (Model.ensureImpl s g = none → Spec.ensureSig t g = none) ∧
    (∀ s' i, Model.ensureImpl s g = some (s', i) → ∃ t', Spec.ensureSig t g = some (t', i) ∧ R s' t') := by
  unfold Model.ensureImpl Spec.ensureSig
  rw [hR.G]
  cases hg : aget s.G g with
  | none => simp
  | some h =>
    simp only
    cases hi : h.impl with
    | some i =>
      simp only
      refine ⟨by simp, ?_⟩
      intro s' i' he
      simp at he
      obtain ⟨rfl, rfl⟩ := he
      exact ⟨t, rfl, hR⟩
    | none =>
      simp only [St.fresh, Spec.LSt.fresh]
      refine ⟨by simp, ?_⟩
      intro s' i' he
      simp at he
      obtain ⟨rfl, rfl⟩ := he
      refine ⟨_, by rw [hR.next, hR.G], ?_⟩
      have hle : SigsLe t.sigs t.next (aset t.sigs s.next {}) := SigsLe.aset_new (by intro c hc; simp at hc)
      have hn : t.next ≤ s.next + 1 := by rw [hR.next]; omega
      exact ⟨hR.T, hR.S, rfl, ptrs_mono hn hle hR.C, ptrs_mono hn hle hR.K,
        hR.sigs.set _ sigR_empty, hR.ownedT, ptrs_mono hn hle hR.ownedK, hR.ownedG, rfl, hR.depth, hR.steps, hR.trace,
        hR.k1, hR.k2⟩

/-! ## `signal_impl::insert` -/

/-- `set_parent` creates the dummy rep of an empty slot -/
def normRep (sl : SlotB) : SlotB :=
  match sl.rep with
  | none => { sl with rep := some { call := false, fn := none } }
  | some _ => sl

theorem normRep_isSome (sl : SlotB) : (normRep sl).rep.isSome = true := by
  unfold normRep; cases h : sl.rep <;> simp [h]

theorem model_insertCell_eq (s : St) (i : Nat) (first : Bool) (sl : SlotB) :
    Model.insertCell s i first sl =
      match aget s.impls i with
      | none => (({ s with next := s.next + 1 } : St).fail "insert: no impl", s.next)
      | some im => (setImpl { s with next := s.next + 1 } i
          { im with cells := if first then ({ id := s.next, slot := normRep sl, linked := true } : Cell) :: im.cells
                             else im.cells ++ [({ id := s.next, slot := normRep sl, linked := true } : Cell)] }, s.next) := by
  cases hr : sl.rep <;> cases hi : aget s.impls i <;> simp [Model.insertCell, St.fresh, normRep, hr, hi]

theorem spec_insertCell_eq (t : Spec.LSt) (i : Nat) (first : Bool) (sl : SlotB) :
    Spec.insertCell t i first sl =
      match aget t.sigs i with
      | none => (({ t with next := t.next + 1 } : Spec.LSt).fail "insert: no list", t.next)
      | some g => (Spec.setSig { t with next := t.next + 1 } i
          { g with cells := if first then ({ id := t.next, slot := normRep sl } : Spec.LCell) :: g.cells
                            else g.cells ++ [({ id := t.next, slot := normRep sl } : Spec.LCell)] }, t.next) := by
  cases hr : sl.rep <;> cases hi : aget t.sigs i <;> simp [Spec.insertCell, Spec.LSt.fresh, normRep, hr, hi]

theorem R_insert {s : St} {t : Spec.LSt} (hR : R s t) (i : Nat) (first : Bool) (sl : SlotB) :
    (Spec.insertCell t i first sl).2 = (Model.insertCell s i first sl).2 ∧
    R (Model.insertCell s i first sl).1 (Spec.insertCell t i first sl).1 := by
  rw [model_insertCell_eq, spec_insertCell_eq]
  have hR1 : R { s with next := s.next + 1 } { t with next := t.next + 1 } := hR.fresh
  rcases hR.sigs.get i with ⟨h1, h2⟩ | ⟨im, g, h1, h2, hr⟩
  · simp only [h1, h2]
    exact ⟨hR.next, hR1.fail _ _⟩
  · simp only [h1, h2]
    refine ⟨hR.next, ?_⟩
    have hnew : CellR { id := s.next, slot := normRep sl, linked := true } { id := t.next, slot := normRep sl } :=
      ⟨hR.next, by simp, by simp, fun _ => rfl, fun h => by simp at h, fun _ => normRep_isSome sl⟩
    have hcells : F2 CellR (if first = true then { id := s.next, slot := normRep sl, linked := true } :: im.cells
          else im.cells ++ [{ id := s.next, slot := normRep sl, linked := true }])
        (if first = true then ({ id := t.next, slot := normRep sl } : Spec.LCell) :: g.cells
          else g.cells ++ [{ id := t.next, slot := normRep sl }]) := by
      cases first with
      | true => exact .cons hnew hr.cells
      | false => exact hr.cells.append (.cons hnew .nil)
    have hle : SigsLe t.sigs t.next (aset t.sigs i
        { g with cells := if first = true then ({ id := t.next, slot := normRep sl } : Spec.LCell) :: g.cells
                          else g.cells ++ [{ id := t.next, slot := normRep sl }] }) := by
      apply SigsLe.aset_sub h2
      intro c' hc' hlt
      cases first with
      | true =>
        simp at hc'
        rcases hc' with e | e
        · subst e; simp at hlt
        · exact ⟨c', e, rfl⟩
      | false =>
        simp at hc'
        rcases hc' with e | e
        · exact ⟨c', e, rfl⟩
        · subst e; simp at hlt
    have hn : t.next ≤ t.next + 1 := Nat.le_succ _
    exact ⟨hR.T, hR.S, hR.G, ptrs_mono hn hle hR.C, ptrs_mono hn hle hR.K,
      hR.sigs.set i ⟨hcells, hr.active, hr.dirty, hr.limbo⟩, hR.ownedT, ptrs_mono hn hle hR.ownedK, hR.ownedG,
      by simp [Spec.setSig, Model.setImpl, hR.next], hR.depth, hR.steps, hR.trace, hR.k1, hR.k2⟩

/-! ## the last reference to a list goes away -/

/-- `gcImpl` vs `gcSig`; of the invariant only the facts about `impls` / `next` are used (so the lemma also applies
    after a change of `G`) -/
theorem R_gc' {s : St} {t : Spec.LSt} (hkeys : (s.impls.map (·.1)).Nodup)
    (hlt : ∀ i im, aget s.impls i = some im → i < s.next ∧ ∀ k ∈ Emit.cids im, k < s.next)
    (hdisj : ∀ i j im jm, aget s.impls i = some im → aget s.impls j = some jm → i ≠ j →
      ∀ k ∈ Emit.cids im, k ∉ Emit.cids jm)
    (hR : R s t) (i : Nat) : R (gcImpl s i) (Spec.gcSig t i) := by
  unfold gcImpl Spec.gcSig
  rcases hR.sigs.get i with ⟨h1, h2⟩ | ⟨im, g, h1, h2, hr⟩
  · simp only [h1, h2]; exact hR
  · simp only [h1, h2, hr.active, hR.G]
    split
    · rw [nullConnsList_eq]
      have hsigs : AR SigR (adel s.impls i) (adel t.sigs i) := hR.sigs.del i
      have hle : SigsLe t.sigs t.next (adel t.sigs i) := SigsLe.adel _ _ _
      have hgone : ∀ cid ∈ im.cells.map (·.id), Gone (adel t.sigs i) t.next cid := by
        intro cid hc
        rw [gone_iff]
        refine ⟨by rw [hR.next]; exact (hlt i im h1).2 cid hc, ?_⟩
        intro hh
        obtain ⟨q, hq, hin⟩ := hasId_of_AR hsigs hh
        obtain ⟨hq1, hq2⟩ := Emit.mem_adel hq
        exact hdisj q.1 i q.2 im (Emit.aget_of_mem_nodup hkeys (show (q.1, q.2) ∈ s.impls from hq1)) h1 hq2 cid hin hc
      exact ⟨hR.T, hR.S, rfl, ptrs_null hle _ hgone hR.C, ptrs_null hle _ hgone hR.K, hsigs, hR.ownedT,
        ptrs_null hle _ hgone hR.ownedK, hR.ownedG, hR.next, hR.depth, hR.steps, hR.trace, hR.k1, hR.k2⟩
    · exact hR

theorem R_gc {s : St} {t : Spec.LSt} (hs : Emit.Inv s) (hR : R s t) (i : Nat) : R (gcImpl s i) (Spec.gcSig t i) :=
  R_gc' hs.keys hs.lt hs.disj hR i

/-! ## a signal object is destroyed (`delG`, and the death of a functor-owned signal in `collect`) -/

theorem R_dropHandle {s : St} {t : Spec.LSt} (hs : Emit.Inv s) (hR : R s t) (g : Nat) :
    R (Model.dropHandle s g) (Spec.dropHandle t g) := by
  unfold Model.dropHandle Spec.dropHandle
  rw [hR.G]
  cases hg : aget s.G g with
  | none => exact hR
  | some hd =>
    simp only
    generalize hs1 : (if hd.fl.isTrackable = true then Model.invalidateTrackable s hd.trk else s) = s1
    generalize ht1 : (if hd.fl.isTrackable = true then Spec.invalidateTrackable t hd.trk else t) = t1
    have g1 : Emit.Good0 s s1 := by
      subst hs1; split
      · exact Emit.good_invalidateTrackable hs _
      · exact Emit.Good.refl hs
    have hR1 : R s1 t1 := by
      subst hs1; subst ht1; split
      · exact R_invalidateTrackable hs hR _
      · exact hR
    rw [hR1.G]
    have i1 := g1.inv
    cases him : hd.impl with
    | none => exact hR1.updG _
    | some im =>
      exact R_gc' (s := { s1 with G := Model.adel s1.G g }) i1.keys i1.lt i1.disj (hR1.updG _) im

end Sigc.Refine
