import Sigc.Model
import Sigc.Spec
import Sigc.Lemmas.Basic
/-!
# StepIter5 — the matching facts about the statement-level specification `S` (`Sigc.Spec`)
-/
namespace Sigc.StepIter
open Sigc.Model

/-- the functor the specification invokes at the turn of entry `cid` of list `i`: the entry must still be
    in the list, valid and unblocked at that moment -/
def specCallable (s : Spec.LSt) (i cid : Nat) : Option Fun :=
  match (aget s.sigs i).bind (fun g => g.cells.find? (·.id = cid)) with
  | some { slot := { blocked := false, rep := some { call := true, fn := some fn } }, .. } => some fn
  | _ => none

theorem spec_emit_none (f : Nat) (P : Prog) (s : Spec.LSt) (fl : Flavour) (arg : Nat) (strat : Strat) :
    Spec.emitSig (f+1) P s fl none arg strat = some (s, .ok, 0) := by
  rw [Spec.emitSig]

theorem spec_deref_cases (f : Nat) (P : Prog) (s : Spec.LSt) (i : Nat) (snap : List Nat) (it : Spec.It) (arg : Nat) :
    Spec.deref (f+1) P s i snap it arg =
      (match snap[it.pos]? with
       | none => some (s, .ok, it)
       | some cid =>
         match specCallable s i cid with
         | none => some (s, .ok, it)
         | some fn =>
           if it.invoked then some (s, .ok, it) else
           match Spec.invokeFun f P s fn arg with
           | none => none
           | some (s, .exc, _) => some (s, .exc, it)
           | some (s, .ok, v) => some (s, .ok, { it with buf := v, invoked := true })) := by
  rw [Spec.deref]
  cases snap[it.pos]? with
  | none => rfl
  | some cid =>
    simp only [specCallable]
    cases (aget s.sigs i).bind (fun g => g.cells.find? (·.id = cid)) with
    | none => rfl
    | some c =>
      obtain ⟨id, ⟨blocked, rep⟩, mk, zo⟩ := c
      cases blocked
      · cases rep with
        | none => rfl
        | some rp =>
          obtain ⟨call, fn⟩ := rp
          cases call <;> cases fn <;> rfl
      · rfl

/-- in `S` too, an already-invoked position is not invoked again: iterator and state unchanged -/
theorem spec_deref_invoked (f : Nat) (P : Prog) (s : Spec.LSt) (i : Nat) (snap : List Nat) (it : Spec.It) (arg : Nat)
    (hinv : it.invoked = true) : Spec.deref (f+1) P s i snap it arg = some (s, .ok, it) := by
  rw [spec_deref_cases]
  split
  · rfl
  · split
    · rfl
    · simp [hinv]

/-- in `S`, an entry that is gone, invalid or blocked at that moment is not invoked -/
theorem spec_deref_not_callable (f : Nat) (P : Prog) (s : Spec.LSt) (i : Nat) (snap : List Nat) (it : Spec.It) (arg cid : Nat)
    (hp : snap[it.pos]? = some cid) (hnc : specCallable s i cid = none) :
    Spec.deref (f+1) P s i snap it arg = some (s, .ok, it) := by
  rw [spec_deref_cases]
  simp [hp, hnc]

theorem spec_turns_unfold (f : Nat) (P : Prog) (s : Spec.LSt) (i cid : Nat) (rest : List Nat) (arg r : Nat) :
    Spec.turns (f+1) P s i (cid :: rest) arg r =
      (match (match specCallable s i cid with
              | none => some (s, Outcome.ok, r)
              | some fn => Spec.invokeFun f P s fn arg) with
       | none => none
       | some (s, .exc, v) => some (s, .exc, v)
       | some (s, .ok, v) => Spec.turns f P s i rest arg v) := by
  rw [Spec.turns]
  simp only [specCallable]
  cases (aget s.sigs i).bind (fun g => g.cells.find? (·.id = cid)) with
  | none => rfl
  | some c =>
    obtain ⟨id, ⟨blocked, rep⟩, mk, zo⟩ := c
    cases blocked
    · cases rep with
      | none => rfl
      | some rp =>
        obtain ⟨call, fn⟩ := rp
        cases call <;> cases fn <;> rfl
    · rfl

/-- the turns of a non-accumulated emission in `S` over the snapshot `snap`: `calls` = the functors
    invoked, in order, with the values they returned -/
inductive TurnsRun (P : Prog) (i arg : Nat) : Spec.LSt → List Nat → Nat → List (Fun × Nat) → Spec.LSt → Outcome → Nat → Prop
  | done (s : Spec.LSt) (r : Nat) : TurnsRun P i arg s [] r [] s .ok r
  | skip (s : Spec.LSt) (cid : Nat) (rest : List Nat) (r : Nat) (calls : List (Fun × Nat)) (s' : Spec.LSt) (o : Outcome) (v : Nat) :
      specCallable s i cid = none → TurnsRun P i arg s rest r calls s' o v →
      TurnsRun P i arg s (cid :: rest) r calls s' o v
  | call (f : Nat) (s : Spec.LSt) (cid : Nat) (rest : List Nat) (r : Nat) (fn : Fun) (s1 : Spec.LSt) (v1 : Nat)
      (calls : List (Fun × Nat)) (s' : Spec.LSt) (o : Outcome) (v : Nat) :
      specCallable s i cid = some fn → Spec.invokeFun f P s fn arg = some (s1, .ok, v1) →
      TurnsRun P i arg s1 rest v1 calls s' o v →
      TurnsRun P i arg s (cid :: rest) r ((fn, v1) :: calls) s' o v
  | exc (f : Nat) (s : Spec.LSt) (cid : Nat) (rest : List Nat) (r : Nat) (fn : Fun) (s1 : Spec.LSt) (v1 : Nat) :
      specCallable s i cid = some fn → Spec.invokeFun f P s fn arg = some (s1, .exc, v1) →
      TurnsRun P i arg s (cid :: rest) r [(fn, v1)] s1 .exc v1

theorem spec_turns_run (f : Nat) : ∀ (P : Prog) (s : Spec.LSt) (i : Nat) (snap : List Nat) (arg r : Nat)
    (s' : Spec.LSt) (o : Outcome) (v : Nat),
    Spec.turns f P s i snap arg r = some (s', o, v) → ∃ calls, TurnsRun P i arg s snap r calls s' o v := by
  induction f with
  | zero => intro P s i snap arg r s' o v h; simp [Spec.turns] at h
  | succ f ih =>
    intro P s i snap arg r s' o v h
    cases snap with
    | nil =>
      rw [Spec.turns] at h
      simp at h; obtain ⟨rfl, rfl, rfl⟩ := h
      exact ⟨[], TurnsRun.done _ _⟩
    | cons cid rest =>
      rw [spec_turns_unfold] at h
      cases hc : specCallable s i cid with
      | none =>
        simp only [hc] at h
        obtain ⟨calls, hr⟩ := ih _ _ _ _ _ _ _ _ _ h
        exact ⟨calls, TurnsRun.skip _ _ _ _ _ _ _ _ hc hr⟩
      | some fn =>
        simp only [hc] at h
        split at h
        · simp at h
        · rename_i s1 v1 hx
          simp at h; obtain ⟨rfl, rfl, rfl⟩ := h
          exact ⟨[(fn, _)], TurnsRun.exc f _ _ _ _ fn _ _ hc hx⟩
        · rename_i s1 v1 hx
          obtain ⟨calls, hr⟩ := ih _ _ _ _ _ _ _ _ _ h
          exact ⟨(fn, v1) :: calls, TurnsRun.call f _ _ _ _ fn _ _ _ _ _ _ hc hx hr⟩

/-- `S`: the value of a non-accumulated emission is the value of the last invoked functor, or the
    initial (default) value if none was invoked — the same statement as `EmitRun.value` for `P` -/
theorem TurnsRun.value {P : Prog} {i arg : Nat} {s : Spec.LSt} {snap : List Nat} {r : Nat} {calls : List (Fun × Nat)}
    {s' : Spec.LSt} {o : Outcome} {v : Nat} (h : TurnsRun P i arg s snap r calls s' o v) :
    v = ((calls.map (·.2)).getLast?).getD r := by
  induction h with
  | done => rfl
  | skip _ _ _ _ _ _ _ _ _ _ ih => exact ih
  | call _ _ _ _ _ _ _ _ _ _ _ _ _ _ _ ih => rw [ih]; simp [List.getLast?_cons]
  | exc => rfl

/-- `S`: at most one invocation per entry of the snapshot -/
theorem TurnsRun.length_le {P : Prog} {i arg : Nat} {s : Spec.LSt} {snap : List Nat} {r : Nat} {calls : List (Fun × Nat)}
    {s' : Spec.LSt} {o : Outcome} {v : Nat} (h : TurnsRun P i arg s snap r calls s' o v) :
    calls.length ≤ snap.length := by
  induction h with
  | done => simp
  | skip _ _ _ _ _ _ _ _ _ _ ih => simp; omega
  | call _ _ _ _ _ _ _ _ _ _ _ _ _ _ _ ih => simp; omega
  | exc => simp

end Sigc.StepIter
